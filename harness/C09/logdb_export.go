//go:build verif

package logdb

// VerifSetBatchSize shrinks the batched entry format's batch size so that
// short logs straddle batch boundaries (C09 harness, overlay only).
func VerifSetBatchSize(n uint64) uint64 {
	old := batchSize
	batchSize = n
	return old
}
