//go:build verif

// C09: the log store returns exactly the logical log, hard state and snapshot
// record last saved.
//
// Exhaustive enumeration (depth bounded, simplest first) of operation
// sequences over the public raftio.ILogDB API on the REAL stores (sharded
// Pebble plain / batched, Tan regular / multiplexed) on a strict MemFS, two
// (shard, replica) pairs sharing the store. Every enumerated sequence is
// executed from scratch on a fresh store; after its last operation both
// replicas are read back through the public API and through a real
// logdb.LogReader initialised the way node.replayLog does, and compared with a
// small reference model of the logical log.
package tan

import (
	"errors"
	"fmt"
	"math"
	"os"
	"runtime"
	"runtime/debug"
	"sort"
	"strconv"
	"strings"
	"testing"
	"time"

	"github.com/lni/vfs"

	"github.com/lni/dragonboat/v4/config"
	"github.com/lni/dragonboat/v4/internal/fileutil"
	"github.com/lni/dragonboat/v4/internal/logdb"
	"github.com/lni/dragonboat/v4/internal/verifkit"
	"github.com/lni/dragonboat/v4/logger"
	"github.com/lni/dragonboat/v4/raftio"
	pb "github.com/lni/dragonboat/v4/raftpb"
)

// ---------------------------------------------------------------- stores

const (
	stPebblePlain = iota
	stPebbleBatched
	stTanRegular
	stTanMultiplexed
)

var storeNames = []string{"pebble-plain", "pebble-batched", "tan-regular", "tan-multiplexed"}

// the two (shard, replica) pairs: same Tan keeper (shardID % 16), same Pebble
// partition (LogDB.Shards = 1), same replica ID.
var c09pairs = [2]struct{ shard, replica uint64 }{{1, 1}, {17, 1}}

const c09BatchSize = 4
const c09BigPayload = 70000

type c09sut struct {
	kind     int
	big      bool
	rollover int64 // Tan: white-box MaxLogFileSize (0 = default 64 MiB)
	fs       vfs.FS
	db       raftio.ILogDB
}

func (s *c09sut) isTan() bool { return s.kind == stTanRegular || s.kind == stTanMultiplexed }

func (s *c09sut) cfg() config.NodeHostConfig {
	expert := config.GetDefaultExpertConfig()
	expert.LogDB = config.GetTinyMemLogDBConfig()
	// one Pebble instance / one save context: both pairs always share the
	// same partition (partition = shardID % Shards); opening is 3x cheaper
	expert.LogDB.Shards = 1
	expert.Engine.ExecShards = 1
	if s.isTan() {
		// Tan allocates 16 save buffers of this size per open; write() grows
		// its buffer on demand
		expert.LogDB.KVWriteBufferSize = 4096
	} else if !s.big {
		expert.LogDB.KVWriteBufferSize = 512 * 1024
	}
	expert.FS = s.fs
	return config.NodeHostConfig{Expert: expert}
}

const c09dir = "/c09/logdb"

func (s *c09sut) open() (err error) {
	defer func() {
		if r := recover(); r != nil {
			err = fmt.Errorf("panic: %v", r)
		}
	}()
	if s.fs == nil {
		s.fs = vfs.NewStrictMem()
		if err := fileutil.MkdirAll(c09dir, s.fs); err != nil {
			return err
		}
	}
	cfg := s.cfg()
	switch s.kind {
	case stPebblePlain:
		s.db, err = logdb.NewDefaultLogDB(cfg, nil, []string{c09dir}, nil)
	case stPebbleBatched:
		s.db, err = logdb.NewDefaultBatchedLogDB(cfg, nil, []string{c09dir}, nil)
	case stTanRegular:
		var l *LogDB
		l, err = CreateTan(cfg, nil, []string{c09dir}, nil)
		if err == nil {
			s.db = l
			err = s.preseed(l)
		}
	case stTanMultiplexed:
		var l *LogDB
		l, err = CreateLogMultiplexedTan(cfg, nil, []string{c09dir}, nil)
		if err == nil {
			s.db = l
			err = s.preseed(l)
		}
	}
	if err != nil {
		return err
	}
	s.quiesce()
	return nil
}

// preseed opens the tan db instances of both pairs with a small
// MaxLogFileSize so that log rollover (switchToNewLog) happens within a few
// writes; MaxLogFileSize is not settable through the public API.
func (s *c09sut) preseed(l *LogDB) error {
	if s.rollover == 0 {
		return nil
	}
	l.mu.Lock()
	defer l.mu.Unlock()
	for _, p := range c09pairs {
		if _, ok := l.collection.keeper.get(p.shard, p.replica); ok {
			continue
		}
		name := l.collection.keeper.name(p.shard, p.replica)
		dbdir := l.fs.PathJoin(l.dirname, name)
		if err := l.collection.prepareDir(dbdir); err != nil {
			return err
		}
		d, err := open(dbdir, dbdir, &Options{FS: l.fs, MaxLogFileSize: s.rollover})
		if err != nil {
			return err
		}
		l.collection.keeper.set(p.shard, p.replica, d)
	}
	return nil
}

// quiesce makes Tan's asynchronous deletion of obsolete files deterministic:
// it runs the deletion synchronously and waits until no log file outside the
// current version remains in the directory (bounded wait).
func (s *c09sut) quiesce() {
	l, ok := s.db.(*LogDB)
	if !ok {
		return
	}
	var dbs []*db
	l.mu.Lock()
	_ = l.collection.iterate(func(d *db) error {
		dbs = append(dbs, d)
		return nil
	})
	l.mu.Unlock()
	for _, d := range dbs {
		for i := 0; i < 4000; i++ {
			if err := d.deleteObsoleteFiles(); err != nil {
				panic(err)
			}
			d.mu.Lock()
			live := make(map[fileNum]struct{})
			for fn := range d.mu.versions.currentVersion().files {
				live[fn] = struct{}{}
			}
			pending := len(d.mu.versions.obsoleteTables) + len(d.mu.versions.obsoleteManifests)
			d.mu.Unlock()
			ls, err := d.opts.FS.List(d.dirname)
			if err != nil {
				panic(err)
			}
			stale := false
			for _, fn := range ls {
				ft, num, ok := parseFilename(d.opts.FS, fn)
				if ok && ft == fileTypeLog {
					if _, ok := live[num]; !ok {
						stale = true
					}
				}
			}
			if !stale && pending == 0 && len(d.deleteObsoleteCh) == 0 {
				break
			}
			if i < 50 {
				runtime.Gosched()
			} else {
				time.Sleep(50 * time.Microsecond)
			}
		}
	}
}

func (s *c09sut) close() (err error) {
	defer func() {
		if r := recover(); r != nil {
			err = fmt.Errorf("panic: %v", r)
		}
	}()
	if s.db == nil {
		return nil
	}
	err = s.db.Close()
	s.db = nil
	return err
}

func (s *c09sut) reopen() error {
	if err := s.close(); err != nil {
		return fmt.Errorf("close: %w", err)
	}
	if err := s.open(); err != nil {
		return fmt.Errorf("open: %w", err)
	}
	return nil
}

// ---------------------------------------------------------------- model

type c09ent struct{ term, tag uint64 }

type c09snap struct{ index, term, tag uint64 }

type c09rep struct {
	hasData bool
	boot    int // 0 none, 1 saved by the harness, 2 created by ImportSnapshot
	state   pb.State
	snap    c09snap
	// reads with low <= floor are not judged (removed / superseded by a restore)
	floor uint64
	// logical entries floor+1 .. floor+len(ents)
	ents []c09ent
	// after a truncating snapshot restore the store may (Tan) or may not
	// (Pebble) still report the old entries up to ghost (> last); the property
	// statement leaves this open, any later append clears it
	ghost uint64
	cur   uint64 // current term
	vote  uint64
}

func (r *c09rep) last() uint64   { return r.floor + uint64(len(r.ents)) }
func (r *c09rep) commit() uint64 { return r.state.Commit }
func (r *c09rep) ent(i uint64) c09ent {
	return r.ents[i-r.floor-1]
}

type c09model struct {
	reps [2]c09rep
	seq  uint64
	big  bool
	prev uint8 // previous op code
	n    int
	// RemoveNodeData was called for the pair since the store was last opened
	rmSinceOpen [2]bool
	// number of operations touching pair B so far
	bOps int
}

func newC09Model(big bool) *c09model {
	m := &c09model{big: big, prev: 0xff}
	for i := range m.reps {
		m.reps[i].cur = 1
	}
	return m
}

func (m *c09model) clone() *c09model {
	c := *m
	for i := range c.reps {
		c.reps[i].ents = append([]c09ent(nil), m.reps[i].ents...)
	}
	return &c
}

type c09kind uint8

const (
	kApp1 c09kind = iota
	kApp3
	kOwLast
	kOwLast2
	kOwFirst
	kState
	kSnapCommit
	kSnapLast
	kSnapStale
	kRestoreLast
	kRestorePrev
	kRestoreAhead
	kRemoveTo
	kRemoveToPrev
	kRemoveNode
	kImport
	// global operations
	kReopen
	kReopenWarm
	kAppBoth
	// per pair operation added later (the codes of the older ones stay stable)
	kSnapCompact
	kNumKinds
)

var c09kindNames = [...]string{
	kApp1: "append1", kApp3: "append3", kOwLast: "overwrite(last,n=1)", kOwLast2: "overwrite(last-2,n=2)",
	kOwFirst: "overwrite(firstKept,n=1)", kState: "saveState", kSnapCommit: "SaveSnapshots(commit)",
	kSnapLast: "SaveSnapshots(last)", kSnapStale: "SaveSnapshots(newest-1: a stale record, must be ignored)", kRestoreLast: "Update.Snapshot(last)", kRestorePrev: "Update.Snapshot(last-1)",
	kRestoreAhead: "Update.Snapshot(last+2)", kRemoveTo: "RemoveEntriesTo(snapshot)",
	kRemoveToPrev: "RemoveEntriesTo(snapshot-1)", kRemoveNode: "RemoveNodeData", kImport: "ImportSnapshot",
	kReopen: "close+reopen", kReopenWarm: "close+reopen+replayReads", kAppBoth: "append1(both pairs, one SaveRaftState)",
	kSnapCompact: "SaveSnapshots(commit)+RemoveEntriesTo(snapshot)",
}

func c09code(k c09kind, rep int) uint8 { return uint8(k)<<1 | uint8(rep) }
func c09decode(c uint8) (c09kind, int) { return c09kind(c >> 1), int(c & 1) }
func c09global(k c09kind) bool         { return k == kReopen || k == kReopenWarm || k == kAppBoth }

func c09touchesB(c uint8) bool {
	k, rep := c09decode(c)
	return k == kAppBoth || (!c09global(k) && rep == 1)
}

func c09describe(c uint8) string {
	k, rep := c09decode(c)
	if int(k) >= len(c09kindNames) {
		return fmt.Sprintf("op%d", c)
	}
	if c09global(k) {
		return c09kindNames[k]
	}
	return fmt.Sprintf("%s@%c(shard %d)", c09kindNames[k], 'A'+rune(rep), c09pairs[rep].shard)
}

func c09describeAll(ops []uint8) []string {
	out := make([]string, len(ops))
	for i, o := range ops {
		out[i] = c09describe(o)
	}
	return out
}

// overwrite start must be above everything applied or snapshotted
func (r *c09rep) owFloor() uint64 {
	f := r.floor
	if r.snap.index > f {
		f = r.snap.index
	}
	if r.commit() > f {
		f = r.commit()
	}
	return f
}

func (r *c09rep) importIndex() uint64 {
	if l := r.last(); l >= 2 {
		return l - 1
	}
	return r.last() + 2
}

// quick alphabet of the second pair: the operations that interfere with the
// first pair through the shared store
var c09lightB = map[c09kind]bool{kApp1: true, kApp3: true, kState: true, kSnapLast: true, kRemoveNode: true, kImport: true}

func (m *c09model) enabledKind(k c09kind, rep int, thorough bool) bool {
	if !thorough && rep == 1 && !c09global(k) && !c09lightB[k] {
		return false
	}
	if c09off[k] {
		return false
	}
	if c09global(k) {
		switch k {
		case kReopen:
			pk, _ := c09decode(m.prev)
			return m.n > 0 && pk != kReopen && pk != kReopenWarm && pk != kImport
		case kReopenWarm:
			pk, _ := c09decode(m.prev)
			return thorough && m.n > 0 && pk != kReopen && pk != kReopenWarm && pk != kImport
		case kAppBoth:
			return true
		}
		return false
	}
	r := &m.reps[rep]
	last := r.last()
	switch k {
	case kApp1, kApp3:
		return true
	case kOwLast:
		return len(r.ents) >= 1 && last > r.owFloor()
	case kOwLast2:
		return len(r.ents) >= 3 && last-2 > r.owFloor()
	case kOwFirst:
		first := r.owFloor() + 1
		return len(r.ents) >= 2 && first < last
	case kState:
		return true
	case kSnapCommit:
		c := r.commit()
		return c > r.snap.index && c > r.floor && c <= last
	case kSnapLast:
		return last > r.snap.index && last > r.floor && last != r.commit()
	case kSnapStale:
		// an entry below the newest recorded snapshot still exists in the model (its term is known)
		return r.snap.index >= 2 && r.snap.index-1 > r.floor && r.snap.index-1 <= last
	case kRestoreLast:
		return len(r.ents) >= 1 && last > r.snap.index && last > r.commit()
	case kRestorePrev:
		return thorough && len(r.ents) >= 2 && last-1 > r.snap.index && last-1 > r.commit()
	case kRestoreAhead:
		return true
	case kRemoveTo:
		return r.snap.index > r.floor
	case kRemoveToPrev:
		return thorough && r.snap.index >= 2 && r.snap.index-1 > r.floor
	case kRemoveNode:
		return r.hasData
	case kImport:
		return true
	case kSnapCompact:
		// what a NodeHost does after taking a snapshot below the end of its log:
		// save the snapshot record, then compact the log up to it; entries above
		// the snapshot stay live
		c := r.commit()
		return c > r.snap.index && c > r.floor && c < last
	}
	return false
}

var c09order = []c09kind{kApp1, kApp3, kState, kReopen, kOwLast, kOwLast2, kOwFirst, kSnapCommit, kSnapLast, kSnapStale,
	kRemoveTo, kSnapCompact, kRemoveNode, kRestoreLast, kRestoreAhead, kImport, kAppBoth, kRestorePrev, kRemoveToPrev, kReopenWarm}

// enabled lists the enabled operations, simplest first.
func (m *c09model) enabled(thorough bool) []uint8 {
	var out []uint8
	for _, k := range c09order {
		if c09global(k) {
			if m.enabledKind(k, 0, thorough) {
				out = append(out, c09code(k, 0))
			}
			continue
		}
		for rep := 0; rep < 2; rep++ {
			if m.enabledKind(k, rep, thorough) {
				out = append(out, c09code(k, rep))
			}
		}
	}
	return out
}

type c09action struct {
	kind    c09kind
	rep     int
	boots   []int
	updates []pb.Update
	index   uint64
	ss      pb.Snapshot
}

func (m *c09model) payloadSize(tag uint64) int {
	if m.big && tag%3 != 0 {
		return c09BigPayload
	}
	return 0
}

func c09payload(tag uint64, n int) []byte {
	if n == 0 {
		return nil
	}
	b := make([]byte, n)
	v := byte(tag*31 + 7)
	for i := range b {
		b[i] = v
	}
	// position dependent marks
	b[0], b[n/2], b[n-1] = byte(tag), byte(tag>>8)^0x5a, byte(tag)^0xa5
	return b
}

func c09payloadByte(tag uint64, n int, pos int) byte {
	switch pos {
	case n - 1:
		return byte(tag) ^ 0xa5
	case n / 2:
		return byte(tag>>8) ^ 0x5a
	case 0:
		return byte(tag)
	}
	return byte(tag*31 + 7)
}

func (m *c09model) mkEntry(index uint64, e c09ent) pb.Entry {
	return pb.Entry{Index: index, Term: e.term, Type: pb.ApplicationEntry, Key: e.tag,
		ClientID: 100 + e.tag, Cmd: c09payload(e.tag, m.payloadSize(e.tag))}
}

func c09mkSnapshot(rep int, s c09snap) pb.Snapshot {
	return pb.Snapshot{
		ShardID:  c09pairs[rep].shard,
		Index:    s.index,
		Term:     s.term,
		FileSize: s.tag,
		Filepath: fmt.Sprintf("/ss/%d-%d-%d", c09pairs[rep].shard, s.index, s.tag),
		Type:     pb.RegularStateMachine,
		Membership: pb.Membership{
			ConfigChangeId: s.tag,
			Addresses:      map[uint64]string{1: "a1", 2: "a2"},
		},
	}
}

// write appends n fresh entries starting at from (from <= last+1), logically
// truncating everything after them, and returns them as pb entries.
func (m *c09model) write(rep int, from uint64, n int) []pb.Entry {
	r := &m.reps[rep]
	r.ents = r.ents[:from-r.floor-1]
	var out []pb.Entry
	for i := 0; i < n; i++ {
		m.seq++
		e := c09ent{term: r.cur, tag: m.seq}
		r.ents = append(r.ents, e)
		out = append(out, m.mkEntry(from+uint64(i), e))
	}
	r.ghost = 0
	return out
}

func (m *c09model) touch(rep int, a *c09action) (first bool) {
	r := &m.reps[rep]
	if !r.hasData {
		r.hasData = true
		first = true
		if r.boot == 0 {
			r.boot = 1
			a.boots = append(a.boots, rep)
		}
	}
	return first
}

// apply advances the model by one operation and returns what to do to the
// store.
func (m *c09model) apply(code uint8) c09action {
	k, rep := c09decode(code)
	a := c09action{kind: k, rep: rep}
	m.prev = code
	m.n++
	if c09touchesB(code) {
		m.bOps++
	}
	switch k {
	case kReopen, kReopenWarm, kImport:
		m.rmSinceOpen = [2]bool{}
	case kRemoveNode:
		m.rmSinceOpen[rep] = true
	}
	if c09global(k) {
		if k == kAppBoth {
			for rp := 0; rp < 2; rp++ {
				r := &m.reps[rp]
				first := m.touch(rp, &a)
				ud := pb.Update{ShardID: c09pairs[rp].shard, ReplicaID: c09pairs[rp].replica}
				ud.EntriesToSave = m.write(rp, r.last()+1, 1)
				if first {
					r.state = pb.State{Term: r.cur, Vote: r.vote, Commit: r.commit()}
					ud.State = r.state
				}
				a.updates = append(a.updates, ud)
			}
		}
		return a
	}
	r := &m.reps[rep]
	ud := pb.Update{ShardID: c09pairs[rep].shard, ReplicaID: c09pairs[rep].replica}
	last := r.last()
	switch k {
	case kApp1, kApp3:
		first := m.touch(rep, &a)
		n := 1
		if k == kApp3 {
			n = 3
		}
		ud.EntriesToSave = m.write(rep, last+1, n)
		if first {
			// raft hands the hard state to the store whenever it changed; the
			// first update of a replica always carries it
			r.state = pb.State{Term: r.cur, Vote: r.vote, Commit: r.commit()}
			ud.State = r.state
		}
		a.updates = []pb.Update{ud}
	case kOwLast, kOwLast2, kOwFirst:
		from, n := last, 1
		if k == kOwLast2 {
			from, n = last-2, 2
		} else if k == kOwFirst {
			from = r.owFloor() + 1
		}
		r.cur++
		ud.EntriesToSave = m.write(rep, from, n)
		r.state = pb.State{Term: r.cur, Vote: r.vote, Commit: r.commit()}
		ud.State = r.state
		a.updates = []pb.Update{ud}
	case kState:
		m.touch(rep, &a)
		r.vote++
		r.state = pb.State{Term: r.cur, Vote: r.vote, Commit: last}
		ud.State = r.state
		a.updates = []pb.Update{ud}
	case kSnapStale:
		// the newest record stays: only the call is made
		m.seq++
		st := c09snap{index: r.snap.index - 1, term: r.ent(r.snap.index - 1).term, tag: m.seq}
		ud.Snapshot = c09mkSnapshot(rep, st)
		a.updates = []pb.Update{ud}
	case kSnapCommit, kSnapLast, kSnapCompact:
		idx := r.commit()
		if k == kSnapLast {
			idx = last
		}
		m.seq++
		r.snap = c09snap{index: idx, term: r.ent(idx).term, tag: m.seq}
		ud.Snapshot = c09mkSnapshot(rep, r.snap)
		a.updates = []pb.Update{ud}
		if k == kSnapCompact {
			// idx < last (enabledKind): the entries above idx stay
			r.ents = append([]c09ent(nil), r.ents[idx-r.floor:]...)
			r.floor = idx
			a.index = idx
		}
	case kRestoreLast, kRestorePrev, kRestoreAhead:
		m.touch(rep, &a)
		idx := last
		if k == kRestorePrev {
			idx = last - 1
		} else if k == kRestoreAhead {
			idx = last + 2
		}
		r.cur++
		m.seq++
		r.snap = c09snap{index: idx, term: r.cur, tag: m.seq}
		r.state = pb.State{Term: r.cur, Vote: r.vote, Commit: idx}
		r.ents = nil
		r.floor = idx
		r.ghost = 0
		if last > idx {
			r.ghost = last
		}
		ud.Snapshot = c09mkSnapshot(rep, r.snap)
		ud.State = r.state
		a.updates = []pb.Update{ud}
	case kRemoveTo, kRemoveToPrev:
		idx := r.snap.index
		if k == kRemoveToPrev {
			idx--
		}
		if idx >= last {
			r.ents = nil
		} else {
			r.ents = append([]c09ent(nil), r.ents[idx-r.floor:]...)
		}
		r.floor = idx
		a.index = idx
	case kRemoveNode:
		*r = c09rep{cur: 1}
	case kImport:
		idx := r.importIndex()
		term := r.cur + 1
		m.seq++
		*r = c09rep{hasData: true, boot: 2, cur: term, floor: idx,
			snap:  c09snap{index: idx, term: term, tag: m.seq},
			state: pb.State{Term: term, Commit: idx}}
		a.ss = c09mkSnapshot(rep, r.snap)
		a.ss.Imported = true
	}
	return a
}

// ---------------------------------------------------------------- execution

var c09bootstrap = pb.Bootstrap{Addresses: map[uint64]string{1: "a1", 2: "a2"}, Type: pb.RegularStateMachine}

func (s *c09sut) exec(a c09action) (err error) {
	defer func() {
		if r := recover(); r != nil {
			err = fmt.Errorf("panic: %v", r)
		}
	}()
	defer func() {
		if err == nil && s.db != nil {
			s.quiesce()
		}
	}()
	for _, rp := range a.boots {
		if err := s.db.SaveBootstrapInfo(c09pairs[rp].shard, c09pairs[rp].replica, c09bootstrap); err != nil {
			return fmt.Errorf("SaveBootstrapInfo: %w", err)
		}
	}
	p := c09pairs[a.rep]
	switch a.kind {
	case kApp1, kApp3, kOwLast, kOwLast2, kOwFirst, kState, kRestoreLast, kRestorePrev, kRestoreAhead, kAppBoth:
		return s.db.SaveRaftState(a.updates, 1)
	case kSnapCompact:
		if err := s.db.SaveSnapshots(a.updates); err != nil {
			return fmt.Errorf("SaveSnapshots: %w", err)
		}
		s.quiesce()
		return s.db.RemoveEntriesTo(p.shard, p.replica, a.index)
	case kSnapCommit, kSnapLast, kSnapStale:
		return s.db.SaveSnapshots(a.updates)
	case kRemoveTo, kRemoveToPrev:
		return s.db.RemoveEntriesTo(p.shard, p.replica, a.index)
	case kRemoveNode:
		return s.db.RemoveNodeData(p.shard, p.replica)
	case kImport:
		// tools.ImportSnapshot: a separate process opens the store, imports,
		// closes it; the NodeHost is started afterwards
		if err := s.reopen(); err != nil {
			return err
		}
		if err := s.db.ImportSnapshot(a.ss, p.replica); err != nil {
			return fmt.Errorf("ImportSnapshot: %w", err)
		}
		s.quiesce()
		return s.reopen()
	case kReopen:
		return s.reopen()
	case kReopenWarm:
		if err := s.reopen(); err != nil {
			return err
		}
		// what node.replayLog reads when the replicas are started
		for _, p := range c09pairs {
			ss, err := s.db.GetSnapshot(p.shard, p.replica)
			if err != nil {
				return fmt.Errorf("GetSnapshot: %w", err)
			}
			if _, err := s.db.ReadRaftState(p.shard, p.replica, ss.Index); err != nil &&
				!errors.Is(err, raftio.ErrNoSavedLog) {
				return fmt.Errorf("ReadRaftState: %w", err)
			}
		}
	}
	return nil
}

// ---------------------------------------------------------------- oracle

type c09finding struct {
	rep    int // replica the failing observation is about (-1: the operation itself)
	clause string
	desc   string
}

type c09nopCompactor struct{}

func (c09nopCompactor) Compact(uint64) error { return nil }

func entSize(e pb.Entry) uint64 { return uint64(e.SizeUpperLimit()) }

func sameSnapshot(got pb.Snapshot, rep int, want c09snap) bool {
	if want.index == 0 {
		return pb.IsEmptySnapshot(got)
	}
	w := c09mkSnapshot(rep, want)
	return got.Index == w.Index && got.Term == w.Term && got.FileSize == w.FileSize &&
		got.Filepath == w.Filepath && got.ShardID == w.ShardID && got.Type == w.Type &&
		got.Membership.ConfigChangeId == w.Membership.ConfigChangeId && len(got.Membership.Addresses) == 2
}

// compare got with the logical range [low, min(high,last+1)); returns clause/desc
func (m *c09model) judgeEntries(r *c09rep, got []pb.Entry, low, high uint64) (string, string) {
	last := r.last()
	end := high
	if end > last+1 {
		end = last + 1
	}
	for k, e := range got {
		idx := low + uint64(k)
		if e.Index != idx {
			return "gap", fmt.Sprintf("entry #%d has index %d, expected %d", k, e.Index, idx)
		}
		if idx >= end {
			if idx > last {
				return "past-end", fmt.Sprintf("returned entry %d (term %d) past the logical end %d", e.Index, e.Term, last)
			}
			return "past-high", fmt.Sprintf("returned entry %d but high is %d", e.Index, high)
		}
		w := r.ent(idx)
		n := m.payloadSize(w.tag)
		if e.Term != w.term || e.Key != w.tag || len(e.Cmd) != n {
			return "stale-entry", fmt.Sprintf("entry %d is (term %d, tag %d, %d B), the logical log has (term %d, tag %d, %d B)",
				idx, e.Term, e.Key, len(e.Cmd), w.term, w.tag, n)
		}
		if n > 0 {
			for _, pos := range [...]int{0, 1, n / 3, n / 2, n - 2, n - 1} {
				if e.Cmd[pos] != c09payloadByte(w.tag, n, pos) {
					return "stale-entry", fmt.Sprintf("entry %d payload differs at byte %d", idx, pos)
				}
			}
		}
		if e.ClientID != 100+w.tag || e.Type != pb.ApplicationEntry {
			return "stale-entry", fmt.Sprintf("entry %d fields differ", idx)
		}
	}
	return "", ""
}

var c09zeros = make([]byte, c09BigPayload)

// sizeOf is the SizeUpperLimit of the logical entry at index i (it depends on
// the payload length only, not on its content).
func (m *c09model) sizeOf(r *c09rep, i uint64) uint64 {
	e := r.ent(i)
	return entSize(pb.Entry{Index: i, Term: e.term, Type: pb.ApplicationEntry, Key: e.tag,
		ClientID: 100 + e.tag, Cmd: c09zeros[:m.payloadSize(e.tag)]})
}

func (m *c09model) logicalSize(r *c09rep, low, n uint64) uint64 {
	sz := uint64(0)
	for i := low; i < low+n; i++ {
		sz += m.sizeOf(r, i)
	}
	return sz
}

// check reads both replicas back and compares with the model.
func (s *c09sut) check(m *c09model, flags map[string]struct{}) (f *c09finding) {
	// ListNodeInfo: exactly the pairs that have a bootstrap record
	var nis []raftio.NodeInfo
	var err error
	if msg := verifkit.Catch(func() { nis, err = s.db.ListNodeInfo() }); msg != "" || err != nil {
		return &c09finding{rep: -1, clause: "nodeinfo", desc: fmt.Sprintf("ListNodeInfo failed: %v %s", err, msg)}
	}
	for rep := 0; rep < 2; rep++ {
		found := 0
		for _, ni := range nis {
			if ni.ShardID == c09pairs[rep].shard && ni.ReplicaID == c09pairs[rep].replica {
				found++
			}
		}
		want := 0
		if m.reps[rep].boot != 0 {
			want = 1
		}
		if found != want {
			return &c09finding{rep: rep, clause: "nodeinfo",
				desc: fmt.Sprintf("ListNodeInfo = %v lists the pair %d time(s), want %d", nis, found, want)}
		}
	}
	if len(nis) > 2 {
		return &c09finding{rep: -1, clause: "nodeinfo", desc: fmt.Sprintf("ListNodeInfo = %v lists unknown nodes", nis)}
	}
	for rep := 0; rep < 2; rep++ {
		if f := s.checkRep(m, rep, flags); f != nil {
			return f
		}
	}
	return nil
}

func (s *c09sut) checkRep(m *c09model, rep int, flags map[string]struct{}) (f *c09finding) {
	flag := func(x string) { flags[x] = struct{}{} }
	where := "start"
	var whereFn func() string
	defer func() {
		if r := recover(); r != nil {
			if whereFn != nil {
				where = whereFn()
			}
			f = &c09finding{rep: rep, clause: "panic", desc: fmt.Sprintf("panic during %s: %v", where, r)}
		}
	}()
	fail := func(clause, format string, args ...interface{}) *c09finding {
		return &c09finding{rep: rep, clause: clause, desc: fmt.Sprintf(format, args...)}
	}
	r := &m.reps[rep]
	p := c09pairs[rep]
	db := s.db
	// ---- bootstrap record
	where = "GetBootstrapInfo"
	bs, err := db.GetBootstrapInfo(p.shard, p.replica)
	switch r.boot {
	case 0:
		if !errors.Is(err, raftio.ErrNoBootstrapInfo) {
			return fail("bootstrap", "GetBootstrapInfo = %v, %v for a replica without bootstrap record", bs, err)
		}
	case 1:
		if err != nil || bs.Join || bs.Type != pb.RegularStateMachine || len(bs.Addresses) != 2 {
			return fail("bootstrap", "GetBootstrapInfo = %v, %v, saved %v", bs, err, c09bootstrap)
		}
	case 2:
		if err != nil || !bs.Join || bs.Type != pb.RegularStateMachine {
			return fail("bootstrap", "GetBootstrapInfo = %v, %v after ImportSnapshot", bs, err)
		}
	}
	// ---- node.replayLog
	where = "GetSnapshot"
	ss, err := db.GetSnapshot(p.shard, p.replica)
	if err != nil {
		return fail("snapshot", "GetSnapshot error: %v", err)
	}
	if !sameSnapshot(ss, rep, r.snap) {
		return fail("snapshot", "GetSnapshot returned index %d term %d tag %d, newest saved record is index %d term %d tag %d",
			ss.Index, ss.Term, ss.FileSize, r.snap.index, r.snap.term, r.snap.tag)
	}
	lr := logdb.NewLogReader(p.shard, p.replica, db)
	lr.SetCompactor(c09nopCompactor{})
	if !pb.IsEmptySnapshot(ss) {
		where = "LogReader.ApplySnapshot"
		if err := lr.ApplySnapshot(ss); err != nil {
			return fail("snapshot", "ApplySnapshot: %v", err)
		}
	}
	where = "ReadRaftState"
	rs, err := db.ReadRaftState(p.shard, p.replica, ss.Index)
	if !r.hasData {
		// nothing saved (or everything removed): ErrNoSavedLog, or an empty state
		switch {
		case errors.Is(err, raftio.ErrNoSavedLog):
			flag("nodata:ErrNoSavedLog")
		case err == nil && pb.IsEmptyState(rs.State) && rs.EntryCount == 0:
			flag("nodata:empty-state")
		default:
			return fail("nodata", "ReadRaftState = %+v, %v for a replica with no saved data", rs, err)
		}
		return nil
	}
	if err != nil {
		return fail("state", "ReadRaftState(%d) error: %v", ss.Index, err)
	}
	if !pb.IsStateEqual(rs.State, r.state) {
		return fail("state", "ReadRaftState returned state %+v, most recently saved %+v", rs.State, r.state)
	}
	where = fmt.Sprintf("LogReader.SetRange(%d,%d) after snapshot %d", rs.FirstIndex, rs.EntryCount, ss.Index)
	lr.SetState(rs.State)
	if msg := verifkit.Catch(func() { lr.SetRange(rs.FirstIndex, rs.EntryCount) }); msg != "" {
		return fail("range", "ReadRaftState(%d) = first %d count %d is rejected by LogReader.SetRange: %s",
			ss.Index, rs.FirstIndex, rs.EntryCount, msg)
	}
	last := r.last()
	lf, ll := lr.GetRange()
	wantFirst := r.snap.index + 1
	if lf != wantFirst {
		return fail("range", "LogReader first index %d, want %d", lf, wantFirst)
	}
	ghostVisible := false
	if ll != last {
		if r.ghost > last && ll == r.ghost {
			ghostVisible = true
			flag("restore-truncation:old-tail-still-reported")
		} else {
			return fail("range", "ReadRaftState(%d) = first %d count %d gives last index %d, the logical log ends at %d (first kept %d)",
				ss.Index, rs.FirstIndex, rs.EntryCount, ll, last, r.floor+1)
		}
	} else if r.ghost > last {
		flag("restore-truncation:old-tail-hidden")
	}
	if rs.EntryCount > 0 {
		if rs.FirstIndex <= ss.Index && ss.Index > 0 {
			flag("firstIndex<=snapshot")
		} else {
			flag("firstIndex=snapshot+1")
		}
	} else {
		flag("empty-log")
	}
	// ---- reads through the LogReader inside its range
	n := last - r.floor
	pick := func(low uint64) []uint64 {
		if n <= 8 && !m.big {
			var hs []uint64
			for h := low + 1; h <= last+1; h++ {
				hs = append(hs, h)
			}
			return hs
		}
		cand := []uint64{low + 1, low + 2, low + 3, (low + last + 1) / 2, last, last + 1}
		sort.Slice(cand, func(i, j int) bool { return cand[i] < cand[j] })
		var hs []uint64
		for _, h := range cand {
			if h > low && h <= last+1 && (len(hs) == 0 || hs[len(hs)-1] != h) {
				hs = append(hs, h)
			}
		}
		return hs
	}
	// all three size limits for the longest range and for the two entry
	// range, no limit for the other ranges
	limits := func(low, high, one uint64) []uint64 {
		if high == last+1 || high == low+2 || high > last+1 {
			return []uint64{0, one*2 + one/2, math.MaxUint64}
		}
		return []uint64{math.MaxUint64}
	}
	var qlow, qhigh, qmax uint64
	route := ""
	whereFn = func() string { return fmt.Sprintf("%s(%d,%d,%d)", route, qlow, qhigh, qmax) }
	route = "LogReader.Entries"
	for low := wantFirst; low <= last; low++ {
		one := m.sizeOf(r, low)
		for _, high := range pick(low) {
			for _, maxSize := range limits(low, high, one) {
				qlow, qhigh, qmax = low, high, maxSize
				got, err := lr.Entries(low, high, maxSize)
				if err != nil {
					clause := "read-error"
					if strings.Contains(err.Error(), "gap") {
						clause = "gap"
					}
					return fail(clause, "%s inside the live range (%d,%d] failed: %v", whereFn(), r.snap.index, last, err)
				}
				if c, d := m.judgeEntries(r, got, low, high); c != "" {
					return fail(c, "%s: %s", whereFn(), d)
				}
				if len(got) == 0 {
					return fail("short", "%s returned nothing, the logical log has entries %d..%d", whereFn(), low, high-1)
				}
				if uint64(len(got)) < high-low {
					next := low + uint64(len(got))
					if m.logicalSize(r, low, uint64(len(got)))+m.sizeOf(r, next) <= maxSize {
						return fail("short", "%s returned %d of %d entries although the next entry fits the size limit",
							whereFn(), len(got), high-low)
					}
					flag("read:size-limited-prefix")
				} else {
					flag("read:full-range")
				}
			}
		}
	}
	// ---- direct reads: entries at or below the snapshot that were not removed
	// (they are still served to slow followers), and requests reaching past the
	// logical end. Ranges inside the LogReader range were covered above (the
	// LogReader passes them to IterateEntries unchanged).
	if !ghostVisible && r.ghost == 0 {
		route = "IterateEntries"
		for low := r.floor + 1; low <= last+1; low++ {
			var hs []uint64
			if low <= last && low <= r.snap.index {
				hs = pick(low)
			}
			hs = append(hs, last+2, last+4)
			one := uint64(64)
			if low <= last {
				one = m.sizeOf(r, low)
			}
			for _, high := range hs {
				for _, maxSize := range limits(low, high, one) {
					qlow, qhigh, qmax = low, high, maxSize
					got, _, err := db.IterateEntries([]pb.Entry{}, 0, p.shard, p.replica, low, high, maxSize)
					if err != nil {
						return fail("read-error", "%s failed: %v", whereFn(), err)
					}
					if c, d := m.judgeEntries(r, got, low, high); c != "" {
						return fail(c, "%s: %s", whereFn(), d)
					}
					end := high
					if end > last+1 {
						end = last + 1
					}
					if low >= end {
						continue
					}
					if len(got) == 0 {
						return fail("short", "%s returned nothing, the logical log has entries %d..%d", whereFn(), low, end-1)
					}
					if uint64(len(got)) < end-low {
						if m.logicalSize(r, low, uint64(len(got))) <= maxSize {
							return fail("short", "%s returned %d of %d entries, not explained by the size limit",
								whereFn(), len(got), end-low)
						}
						flag("read:size-limited-prefix")
					}
					if high > last+1 {
						flag("read:high-past-end-clamped")
					}
				}
			}
		}
	}
	// ---- latitude bookkeeping only: are removed entries still readable?
	if r.floor > 0 && r.ghost == 0 {
		// out of contract (DESIGN.md F5: the plain format's single entry path
		// panics / returns a zero entry for a missing key): observed, never judged
		whereFn = nil
		where = "IterateEntries(removed)"
		var got []pb.Entry
		var err error
		if msg := verifkit.Catch(func() {
			got, _, err = db.IterateEntries([]pb.Entry{}, 0, p.shard, p.replica, r.floor, r.floor+1, math.MaxUint64)
		}); msg != "" {
			flag("removed-entry-read-panics(out of contract)")
		} else if err == nil && len(got) > 0 && got[0].Index == r.floor {
			flag("removed-entry-still-readable")
		} else {
			flag("removed-entry-gone")
		}
	}
	return nil
}

// ---------------------------------------------------------------- running one sequence

type c09result struct {
	finding *c09finding
	at      int // number of operations executed when the finding was made
	flags   map[string]struct{}
	nontriv bool
}

// c09run executes ops from scratch on a fresh store; the store is read back
// and judged after the last operation only (every prefix is an enumerated
// sequence of its own).
func c09run(kind int, big bool, rollover int64, ops []uint8) (res c09result) {
	res.flags = make(map[string]struct{})
	s := &c09sut{kind: kind, big: big, rollover: rollover}
	m := newC09Model(big)
	if err := s.open(); err != nil {
		res.finding = &c09finding{rep: -1, clause: "op-error", desc: "open of an empty store failed: " + err.Error()}
		return res
	}
	defer func() {
		if s.db != nil {
			if err := s.close(); err != nil && res.finding == nil {
				res.finding = &c09finding{rep: -1, clause: "op-error", desc: "final close failed: " + err.Error()}
				res.at = len(ops)
			}
		}
	}()
	for i, op := range ops {
		a := m.apply(op)
		if err := s.exec(a); err != nil {
			clause := "op-error"
			if strings.HasPrefix(err.Error(), "panic") {
				clause = "op-panic"
			}
			res.finding = &c09finding{rep: -1, clause: clause, desc: fmt.Sprintf("%s failed: %v", c09describe(op), err)}
			res.at = i + 1
			return res
		}
	}
	res.at = len(ops)
	res.nontriv = m.reps[0].hasData || m.reps[1].hasData
	if f := s.check(m, res.flags); f != nil {
		res.finding = f
	}
	return res
}

// c09key maps a finding to a stable key: root cause families first, otherwise
// store : last operation [other-replica] : oracle clause.
func c09key(kind int, big bool, ops []uint8, f *c09finding) string {
	store := storeNames[kind]
	k, rep := c09decode(ops[len(ops)-1])
	opn := c09kindNames[k]
	if f.rep >= 0 && !c09global(k) && f.rep != rep && kind == stTanMultiplexed && (k == kRemoveNode || k == kImport) {
		// DESIGN.md section 5, F4: removeAllLocked deletes the other pair's log files
		return fmt.Sprintf("C09:%s:%s destroys other replica", store, opn)
	}
	// family: the stores keep per replica caches (Pebble: cache.ps /
	// cache.snapshotIndex, Tan: nodeStates.states) that RemoveNodeData does not
	// clear, so a later save of an equal hard state / of a snapshot record with
	// a not larger index is silently skipped. Recognised by: the last operation
	// is a save for the pair the failing observation is about, and
	// RemoveNodeData was called for that pair since the store was last opened.
	savesTo := k == kAppBoth || (!c09global(k) && rep == f.rep && k != kRemoveNode && k != kImport &&
		k != kRemoveTo && k != kRemoveToPrev)
	if f.rep >= 0 && savesTo && (f.clause == "state" || f.clause == "snapshot") {
		m := newC09Model(big)
		for _, o := range ops {
			m.apply(o)
		}
		if m.rmSinceOpen[f.rep] {
			class := "pebble"
			if kind == stTanRegular || kind == stTanMultiplexed {
				class = "tan"
			}
			return fmt.Sprintf("C09:%s:%s saved after RemoveNodeData (same process) is lost", class, f.clause)
		}
	}
	if big {
		store += "+70KB"
	}
	other := ""
	if f.rep >= 0 && !c09global(k) && f.rep != rep {
		other = " other-replica"
	}
	return fmt.Sprintf("C09:%s:%s%s:%s", store, opn, other, f.clause)
}

// ---------------------------------------------------------------- exploration

type c09Replay struct {
	Store    string   `json:"store"`
	Big      bool     `json:"big"`
	Rollover int64    `json:"rollover"`
	Ops      []int    `json:"ops"`
	Events   []string `json:"events"`
}

func c09mkReplay(kind int, big bool, rollover int64, seq []uint8) c09Replay {
	rp := c09Replay{Store: storeNames[kind], Big: big, Rollover: rollover, Events: c09describeAll(seq)}
	for _, o := range seq {
		rp.Ops = append(rp.Ops, int(o))
	}
	return rp
}

type c09viol struct {
	key, desc string
	rp        c09Replay
}

// c09bounds: every sequence of length <= free is enumerated; sequences of
// length free+1 .. max are enumerated when at most deepB of their operations
// touch pair B.
type c09bounds struct{ free, max, deepB int }

type c09params struct {
	kind     int
	big      bool
	rollover int64
	quick    c09bounds
	thorough c09bounds
}

type c09explorer struct {
	run      *verifkit.Run
	res      *verifkit.Result
	p        c09params
	b        c09bounds
	thorough bool
	found    map[string]*c09viol
	outcomes map[string]int64
	idx1     uint64
	idx2     uint64
	perDepth []int64
	stop     bool
}

func (x *c09explorer) node(ops []uint8, count bool) bool {
	if c09countOnly {
		// developer knob C09_COUNT=1: size of the sequence space, nothing is executed
		if count {
			x.res.Evaluations++
			for len(x.perDepth) <= len(ops) {
				x.perDepth = append(x.perDepth, 0)
			}
			x.perDepth[len(ops)]++
		}
		return true
	}
	r := c09run(x.p.kind, x.p.big, x.p.rollover, ops)
	if count {
		x.res.Evaluations++
		if r.nontriv {
			x.res.DistinctNontrivial++
		}
		for len(x.perDepth) <= len(ops) {
			x.perDepth = append(x.perDepth, 0)
		}
		x.perDepth[len(ops)]++
		k, _ := c09decode(ops[len(ops)-1])
		x.outcomes["lastop:"+c09kindNames[k]]++
		for f := range r.flags {
			x.outcomes[f]++
		}
		if len(ops) == x.b.max && x.perDepth[len(ops)]%499 == 1 {
			x.res.Sample(3, c09describeAll(ops))
		}
	}
	if r.finding == nil {
		return true
	}
	if count {
		x.outcomes["violation:"+r.finding.clause]++
		seq := append([]uint8(nil), ops[:r.at]...)
		key := c09key(x.p.kind, x.p.big, seq, r.finding)
		who := ""
		if r.finding.rep >= 0 {
			who = fmt.Sprintf(" [observed on pair %c (shard %d)]", 'A'+rune(r.finding.rep), c09pairs[r.finding.rep].shard)
		}
		v := &c09viol{key: key,
			desc: fmt.Sprintf("%s after %v%s: %s", storeNames[x.p.kind], c09describeAll(seq), who, r.finding.desc),
			rp:   c09mkReplay(x.p.kind, x.p.big, x.p.rollover, seq)}
		if old, ok := x.found[key]; !ok || len(old.rp.Ops) > len(seq) {
			x.found[key] = v
		}
	}
	return false
}

func (x *c09explorer) allowed(m *c09model, op uint8, n int) bool {
	if n <= x.b.free {
		return true
	}
	b := m.bOps
	if c09touchesB(op) {
		b++
	}
	return b <= x.b.deepB
}

func (x *c09explorer) dfs(m *c09model, path []uint8, mine bool) {
	if x.stop {
		return
	}
	for _, op := range m.enabled(x.thorough) {
		if x.run.Expired() {
			x.res.Cap(fmt.Sprintf("deadline reached at depth %d", len(path)+1))
			x.stop = true
			return
		}
		if !x.allowed(m, op, len(path)+1) {
			continue
		}
		np := append(append([]uint8(nil), path...), op)
		switch len(np) {
		case 1:
			// every shard executes the few length-1 sequences (so that all shards
			// prune identically), one shard counts them
			own := x.run.Mine(x.idx1)
			x.idx1++
			if !x.node(np, own) {
				continue
			}
			if x.b.max > 1 {
				m2 := m.clone()
				m2.apply(op)
				x.dfs(m2, np, false)
			}
			continue
		case 2:
			mine = x.run.Mine(x.idx2)
			x.idx2++
		}
		if !mine {
			continue
		}
		if !x.node(np, true) {
			// a violating sequence is reported, not extended
			continue
		}
		if len(np) < x.b.max {
			m2 := m.clone()
			m2.apply(op)
			x.dfs(m2, np, true)
		}
	}
}

var c09countOnly = os.Getenv("C09_COUNT") != ""

// developer knob C09_OFF=kind,kind (numbers): operation kinds left out
var c09off = func() map[c09kind]bool {
	m := map[c09kind]bool{}
	for _, f := range strings.Split(os.Getenv("C09_OFF"), ",") {
		if n, err := strconv.Atoi(f); err == nil {
			m[c09kind(n)] = true
		}
	}
	return m
}()

// c09depth lets a developer override the bounds (C09_DEPTH=free,max,deepB)
// when probing.
func c09depth(b c09bounds) c09bounds {
	if v := os.Getenv("C09_DEPTH"); v != "" {
		p := strings.Split(v, ",")
		n := make([]int, len(p))
		for i := range p {
			n[i], _ = strconv.Atoi(p[i])
		}
		switch len(n) {
		case 1:
			return c09bounds{n[0], n[0], 0}
		case 3:
			return c09bounds{n[0], n[1], n[2]}
		}
	}
	return b
}

func c09silence() {
	for _, n := range []string{"raft", "rsm", "logdb", "tan", "pebblekv", "kv", "config", "raftpb", "dragonboat", "utils", "fileutil"} {
		logger.GetLogger(n).SetLevel(logger.CRITICAL)
	}
}

func c09explore(t *testing.T, p c09params) {
	c09silence()
	debug.SetGCPercent(400)
	logdb.VerifSetBatchSize(c09BatchSize)
	run := verifkit.Env()
	res := verifkit.NewResult()
	res.MaxViolations = 64
	defer run.Finish(res)
	b := p.quick
	if run.Thorough() {
		b = p.thorough
	}
	b = c09depth(b)
	res.Rule = fmt.Sprintf("every sequence of ILogDB operations of length <= %d, and every sequence of length <= %d with at most %d operation(s) on the second pair, over the alphabet {append 1|3 at the end, overwrite a suffix from last|last-2|first-overwritable with a higher term and a shorter tail, hard state, SaveSnapshots at commit|last, Update.Snapshot (restore) at last|last+2 [thorough: last-1], RemoveEntriesTo(snapshot) [thorough: snapshot-1], SaveSnapshots(commit) immediately followed by RemoveEntriesTo(snapshot) as one operation when commit < last (snapshot + log compaction below the end of the log), RemoveNodeData, ImportSnapshot (as tools.ImportSnapshot does: open, import, close), close+reopen [thorough: + replay reads]} x two (shard,replica) pairs sharing the store [quick: second pair restricted to append 1|3, hard state, SaveSnapshots(last), RemoveNodeData, ImportSnapshot] + one SaveRaftState carrying both pairs; each sequence runs from scratch on a fresh real store on a strict MemFS and both pairs are read back and compared with the model after its last operation (every prefix is itself an enumerated sequence, so every operation of every sequence is followed by the oracle); evaluation = one sequence executed and judged; non-trivial = at least one pair holds saved data at the end; sequences are distinct by construction; a violating sequence is reported and not extended",
		b.free, b.max, b.deepB)
	res.Assumptions = []string{
		"sequences obey the raft-side contract of the store: appends are contiguous, overwrites start above the snapshot and commit index, RemoveEntriesTo <= newest snapshot index, the first update of a replica carries its hard state and later updates carry it only when it changed, ImportSnapshot runs on a closed NodeHost (tools.ImportSnapshot), i.e. bracketed by close/open",
		"ranges starting at or below the removed / restored prefix are not judged; after a restore below the old last index (Update.Snapshot) both truncating the old tail and keeping it until the next append are accepted; with no saved data ReadRaftState may return ErrNoSavedLog or an empty state",
		"Tan's background deletion of obsolete files is run to completion after every operation (white-box) so that results are deterministic",
		"batched format batch size set to 4 (package var); LogDB.Shards = ExecShards = 1; Tan save buffers 4 KiB; Pebble memtable 512 KiB (4 MiB with 70 KB payloads)",
	}
	if p.rollover > 0 {
		res.Assumptions = append(res.Assumptions, fmt.Sprintf("Tan MaxLogFileSize set white-box to %d bytes by pre-seeding the db keeper, so that log files roll over every few records", p.rollover))
	}
	if run.Replay != "" {
		var rp c09Replay
		run.LoadReplay(&rp)
		k := -1
		for i, n := range storeNames {
			if n == rp.Store {
				k = i
			}
		}
		if k < 0 {
			t.Fatalf("unknown store %q", rp.Store)
		}
		ops := make([]uint8, len(rp.Ops))
		for i, o := range rp.Ops {
			ops[i] = uint8(o)
		}
		r := c09run(k, rp.Big, rp.Rollover, ops)
		res.Evaluations = 1
		if r.finding != nil {
			seq := ops[:r.at]
			res.Violate(c09key(k, rp.Big, seq, r.finding),
				fmt.Sprintf("%s after %v: %s", rp.Store, c09describeAll(seq), r.finding.desc), rp)
		}
		return
	}
	if c09countOnly {
		res.Cap("C09_COUNT: sequences counted, nothing executed")
	}
	if len(c09off) > 0 {
		res.Cap("C09_OFF: operation kinds left out")
	}
	x := &c09explorer{run: run, res: res, p: p, b: b, thorough: run.Thorough(),
		found: map[string]*c09viol{}, outcomes: map[string]int64{}}
	x.dfs(newC09Model(p.big), nil, false)
	for k, v := range x.outcomes {
		res.Outcomes[k] = v
	}
	keys := make([]string, 0, len(x.found))
	for k := range x.found {
		keys = append(keys, k)
	}
	sort.Slice(keys, func(i, j int) bool {
		a, b := x.found[keys[i]], x.found[keys[j]]
		if len(a.rp.Ops) != len(b.rp.Ops) {
			return len(a.rp.Ops) < len(b.rp.Ops)
		}
		return keys[i] < keys[j]
	})
	for _, k := range keys {
		v := x.found[k]
		res.Violate(v.key, v.desc, v.rp)
	}
	res.Extra["max_depth"] = b.max
	for d, n := range x.perDepth {
		if d > 0 {
			res.Extra[fmt.Sprintf("sequences_len%d", d)] = n
		}
	}
	res.Extra["store"] = storeNames[p.kind]
}

var (
	c09small    = c09bounds{free: 4, max: 5, deepB: 1}
	c09smallT   = c09bounds{free: 5, max: 6, deepB: 0}
	c09bigQ     = c09bounds{free: 3, max: 3, deepB: 0}
	c09bigT     = c09bounds{free: 4, max: 4, deepB: 0}
	c09rollover = int64(100) // a new Tan log file every ~3 small records
)

func TestVerifC09PebblePlain(t *testing.T) {
	c09explore(t, c09params{kind: stPebblePlain, quick: c09small, thorough: c09smallT})
}
func TestVerifC09PebbleBatched(t *testing.T) {
	c09explore(t, c09params{kind: stPebbleBatched, quick: c09small, thorough: c09smallT})
}
func TestVerifC09TanRegular(t *testing.T) {
	c09explore(t, c09params{kind: stTanRegular, rollover: c09rollover, quick: c09small, thorough: c09smallT})
}
func TestVerifC09TanMultiplexed(t *testing.T) {
	c09explore(t, c09params{kind: stTanMultiplexed, rollover: c09rollover, quick: c09small, thorough: c09smallT})
}

// 70 KB payloads (two of three entries): Tan records larger than the 128 KiB
// index block and the 32 KiB record blocks, a new Tan log file for every
// record (MaxLogFileSize 4 KiB), Pebble values/batches of several 100 KB.
func TestVerifC09BigPebblePlain(t *testing.T) {
	c09explore(t, c09params{kind: stPebblePlain, big: true, quick: c09bigQ, thorough: c09bigT})
}
func TestVerifC09BigPebbleBatched(t *testing.T) {
	c09explore(t, c09params{kind: stPebbleBatched, big: true, quick: c09bigQ, thorough: c09bigT})
}
func TestVerifC09BigTanRegular(t *testing.T) {
	c09explore(t, c09params{kind: stTanRegular, big: true, rollover: 4096, quick: c09bigQ, thorough: c09bigT})
}
func TestVerifC09BigTanMultiplexed(t *testing.T) {
	c09explore(t, c09params{kind: stTanMultiplexed, big: true, rollover: 4096, quick: c09bigQ, thorough: c09bigT})
}
