//go:build verif

// Package verifc10 is the store-independent part of check C10 ("log store is
// crash-atomic and never reports a failed write as success"): workloads, the
// reference model of acknowledged saves, the recovery oracle, the crash-point
// enumeration over a journalfs journal and the error-injection driver. The
// store adapters (real open paths, white-box hooks) live in the test files
// overlaid into internal/logdb and internal/tan.
package verifc10

import (
	"bytes"
	"fmt"
	"math"
	"runtime"
	"sort"
	"strings"
	"sync"

	"github.com/cockroachdb/errors"

	"github.com/lni/dragonboat/v4/internal/logdb/kv"
	"github.com/lni/dragonboat/v4/internal/verifkit"
	"github.com/lni/dragonboat/v4/internal/verifkit/journalfs"
	"github.com/lni/dragonboat/v4/internal/vfs"
	"github.com/lni/dragonboat/v4/raftio"
	pb "github.com/lni/dragonboat/v4/raftpb"
)

// ---------------------------------------------------------------- workload

// Rep names one raft replica.
type Rep struct{ Shard, Replica uint64 }

// The replicas of every workload. A and B share a Pebble partition and a
// multiplexed Tan db (17 % 16 == 1); C lives in another one.
var (
	RA   = Rep{1, 1}
	RB   = Rep{17, 1}
	RC   = Rep{2, 1}
	Reps = []Rep{RA, RB, RC}
)

func (r Rep) String() string {
	switch r {
	case RA:
		return "A"
	case RB:
		return "B"
	case RC:
		return "C"
	}
	return fmt.Sprintf("(%d,%d)", r.Shard, r.Replica)
}

// Step is one public call of the workload.
type Step struct {
	Kind    string // open close bootstrap save snapshots remove compact hook
	Label   string
	Worker  uint64
	Updates []pb.Update
	Rep     Rep
	Index   uint64
	Boot    pb.Bootstrap
	Hook    string
}

// Root directories used on the virtual file system.
const (
	DirData = "/c10/data"
	DirWAL  = "/c10/wal"
)

// Store is one real log store under check.
type Store struct {
	Name   string // pebble-plain pebble-batched tan-regular tan-multiplexed
	Family string // pebble | tan
	// Open is the real open path over fs; inj (may be nil) wraps every
	// kv.IKVStore the store creates.
	Open func(fs vfs.IFS, inj *KVInjector) (raftio.ILogDB, error)
	// Hook performs a white-box step (Tan log rollover).
	Hook func(db raftio.ILogDB, name string, rep Rep)
	// KV tells that the store sits on kv.IKVStore (IKVStore fault mode).
	KV bool
}

func cmd(r Rep, idx, term uint64) []byte {
	n := 24 + int((idx*37+term*11)%7)*90
	if r == RA && idx == 7 {
		n = 100 * 1024 // spans four 32KiB blocks of the Pebble WAL / Tan log (a failed block write followed by successful ones)
	}
	b := make([]byte, n)
	tag := fmt.Sprintf("%s/%d/%d|", r, idx, term)
	for i := range b {
		b[i] = tag[i%len(tag)]
	}
	return b
}

func ents(r Rep, lo, hi, term uint64) []pb.Entry {
	out := []pb.Entry{}
	for i := lo; i <= hi; i++ {
		out = append(out, pb.Entry{Index: i, Term: term, Type: pb.ApplicationEntry, Cmd: cmd(r, i, term)})
	}
	return out
}

func snap(r Rep, idx, term uint64) pb.Snapshot {
	return pb.Snapshot{
		Filepath: fmt.Sprintf("/snap/%s/snapshot-%016X", r, idx), FileSize: 1000 + idx,
		Index: idx, Term: term, ShardID: r.Shard, Type: pb.RegularStateMachine,
		Membership: pb.Membership{Addresses: map[uint64]string{1: "a1", 2: "a2", 3: "a3"}},
	}
}

func ud(r Rep, st pb.State, es []pb.Entry, ss pb.Snapshot) pb.Update {
	return pb.Update{ShardID: r.Shard, ReplicaID: r.Replica, State: st, EntriesToSave: es, Snapshot: ss}
}

func boot() pb.Bootstrap {
	return pb.Bootstrap{Addresses: map[uint64]string{1: "a1", 2: "a2", 3: "a3"}, Type: pb.RegularStateMachine}
}

// Workload returns the fixed call sequence run against a store.
func Workload(st *Store) []Step {
	none := pb.Snapshot{}
	w := []Step{
		{Kind: "open", Label: "open#1"},
		{Kind: "bootstrap", Label: "bootstrap(A)", Rep: RA, Boot: boot()},
		{Kind: "bootstrap", Label: "bootstrap(B)", Rep: RB, Boot: boot()},
		{Kind: "save", Label: "save#1(A 1..4,B 1..3 multi-replica)", Worker: 2, Updates: []pb.Update{
			ud(RA, pb.State{Term: 1, Vote: 1, Commit: 0}, ents(RA, 1, 4, 1), none),
			ud(RB, pb.State{Term: 1, Vote: 1, Commit: 0}, ents(RB, 1, 3, 1), none)}},
		{Kind: "save", Label: "save#2(A 5..7)", Worker: 2, Updates: []pb.Update{
			ud(RA, pb.State{Term: 1, Vote: 1, Commit: 4}, ents(RA, 5, 7, 1), none)}},
		{Kind: "save", Label: "save#3(A overwrite 6 term2,B 4..5)", Worker: 2, Updates: []pb.Update{
			ud(RA, pb.State{Term: 2, Vote: 2, Commit: 4}, ents(RA, 6, 6, 2), none),
			ud(RB, pb.State{Term: 2, Vote: 2, Commit: 3}, ents(RB, 4, 5, 2), none)}},
		{Kind: "save", Label: "save#4(C 1..2)", Worker: 3, Updates: []pb.Update{
			ud(RC, pb.State{Term: 1, Vote: 3, Commit: 1}, ents(RC, 1, 2, 1), none)}},
		{Kind: "save", Label: "save#4b(C vote-only term 2)", Worker: 3, Updates: []pb.Update{
			ud(RC, pb.State{Term: 2, Vote: 1, Commit: 1}, nil, none)}},
		{Kind: "save", Label: "save#4c(C term 3 learned, no vote yet)", Worker: 3, Updates: []pb.Update{
			ud(RC, pb.State{Term: 3, Vote: 0, Commit: 1}, nil, none)}},
		{Kind: "save", Label: "save#4d(C vote-only within term 3)", Worker: 3, Updates: []pb.Update{
			ud(RC, pb.State{Term: 3, Vote: 2, Commit: 1}, nil, none)}},
		{Kind: "snapshots", Label: "savesnapshots(A@4)", Updates: []pb.Update{
			ud(RA, pb.State{}, nil, snap(RA, 4, 1))}},
		{Kind: "remove", Label: "removeentriesto(A,4)", Rep: RA, Index: 4},
		{Kind: "compact", Label: "compactentriesto(A,4)", Rep: RA, Index: 4},
		{Kind: "save", Label: "save#5(B snapshot@10 in update)", Worker: 2, Updates: []pb.Update{
			ud(RB, pb.State{Term: 3, Vote: 0, Commit: 10}, nil, snap(RB, 10, 3))}},
		{Kind: "save", Label: "save#5b(C snapshot@9 in update, term and vote unchanged)", Worker: 3, Updates: []pb.Update{
			ud(RC, pb.State{Term: 3, Vote: 2, Commit: 9}, nil, snap(RC, 9, 3))}},
		{Kind: "close", Label: "close#1"},
		{Kind: "open", Label: "open#2"},
		{Kind: "save", Label: "save#6(A 7..8 big,B 11..12)", Worker: 2, Updates: []pb.Update{
			ud(RA, pb.State{Term: 2, Vote: 2, Commit: 6}, ents(RA, 7, 8, 2), none),
			ud(RB, pb.State{Term: 3, Vote: 0, Commit: 10}, ents(RB, 11, 12, 3), none)}},
	}
	w = append(w, Step{Kind: "save", Label: "save#7(A commit-only)", Worker: 2, Updates: []pb.Update{
		ud(RA, pb.State{Term: 2, Vote: 2, Commit: 7}, nil, none)}})
	if st.Hook != nil {
		w = append(w, Step{Kind: "hook", Label: "hook(rollover-on A)", Hook: "rollover-on", Rep: RA})
	}
	w = append(w, Step{Kind: "save", Label: "save#8(A 9)", Worker: 2, Updates: []pb.Update{
		ud(RA, pb.State{Term: 2, Vote: 2, Commit: 8}, ents(RA, 9, 9, 2), none)}})
	if st.Hook != nil {
		w = append(w, Step{Kind: "hook", Label: "hook(rollover-off A)", Hook: "rollover-off", Rep: RA})
	}
	w = append(w,
		Step{Kind: "save", Label: "save#9(A commit-only)", Worker: 2, Updates: []pb.Update{
			ud(RA, pb.State{Term: 2, Vote: 2, Commit: 9}, nil, none)}},
		Step{Kind: "close", Label: "close#2"},
	)
	if st.Hook != nil {
		// Tan, third session: replica B (which shares its db with A in the
		// multiplexed mode) is idle and records a vote only, in a log file that
		// holds none of its entries; A rolls over, takes a snapshot and has its
		// log compacted, which makes older log files obsolete
		w = append(w,
			Step{Kind: "open", Label: "open#3"},
			Step{Kind: "save", Label: "save#10(B vote-only term 4, new log file)", Worker: 2, Updates: []pb.Update{
				ud(RB, pb.State{Term: 4, Vote: 1, Commit: 10}, nil, none)}},
			Step{Kind: "save", Label: "save#11(A 10..11, same log file as B's vote)", Worker: 2, Updates: []pb.Update{
				ud(RA, pb.State{Term: 2, Vote: 2, Commit: 9}, ents(RA, 10, 11, 2), none)}},
			Step{Kind: "hook", Label: "hook(rollover-on A)#2", Hook: "rollover-on", Rep: RA},
			Step{Kind: "save", Label: "save#12(A 12, next log file)", Worker: 2, Updates: []pb.Update{
				ud(RA, pb.State{Term: 2, Vote: 2, Commit: 11}, ents(RA, 12, 12, 2), none)}},
			Step{Kind: "snapshots", Label: "savesnapshots(A@12)", Updates: []pb.Update{
				ud(RA, pb.State{}, nil, snap(RA, 12, 2))}},
			Step{Kind: "remove", Label: "removeentriesto(A,12)", Rep: RA, Index: 12},
			Step{Kind: "compact", Label: "compactentriesto(A,12)", Rep: RA, Index: 12},
			Step{Kind: "hook", Label: "hook(delete worker runs)", Hook: "delete-obsolete", Rep: RA},
			Step{Kind: "hook", Label: "hook(rollover-off A)#2", Hook: "rollover-off", Rep: RA},
			Step{Kind: "save", Label: "save#13(A 13)", Worker: 2, Updates: []pb.Update{
				ud(RA, pb.State{Term: 2, Vote: 2, Commit: 12}, ents(RA, 13, 13, 2), none)}},
			Step{Kind: "close", Label: "close#3"},
		)
	}
	return w
}

// ------------------------------------------------------------------ model

// rstate is what the acknowledged calls say about one replica.
type rstate struct {
	boot      *pb.Bootstrap
	saved     bool       // a state record exists
	states    []pb.State // acceptable recovered hard states (see Assumptions)
	snap      pb.Snapshot
	ents      map[uint64]pb.Entry
	last      uint64
	compacted uint64
}

type model map[Rep]*rstate

func (m model) get(r Rep) *rstate {
	if s, ok := m[r]; ok {
		return s
	}
	s := &rstate{ents: map[uint64]pb.Entry{}}
	m[r] = s
	return s
}

func (m model) clone() model {
	o := model{}
	for r, s := range m {
		c := *s
		c.states = append([]pb.State(nil), s.states...)
		c.ents = map[uint64]pb.Entry{}
		for k, v := range s.ents {
			c.ents[k] = v
		}
		if s.boot != nil {
			b := *s.boot
			c.boot = &b
		}
		o[r] = &c
	}
	return o
}

func (m model) apply(s Step) {
	switch s.Kind {
	case "bootstrap":
		b := s.Boot
		m.get(s.Rep).boot = &b
	case "remove":
		r := m.get(s.Rep)
		if s.Index > r.compacted {
			r.compacted = s.Index
		}
	case "snapshots":
		for _, u := range s.Updates {
			r := m.get(Rep{u.ShardID, u.ReplicaID})
			if u.Snapshot.Index > r.snap.Index {
				r.snap = u.Snapshot
			}
		}
	case "save":
		for _, u := range s.Updates {
			r := m.get(Rep{u.ShardID, u.ReplicaID})
			if !pb.IsEmptyState(u.State) {
				commitOnly := r.saved && len(u.EntriesToSave) == 0 && pb.IsEmptySnapshot(u.Snapshot) &&
					len(r.states) > 0 && r.states[len(r.states)-1].Term == u.State.Term &&
					r.states[len(r.states)-1].Vote == u.State.Vote
				if commitOnly {
					r.states = append(r.states, u.State)
				} else {
					r.states = []pb.State{u.State}
				}
				r.saved = true
			}
			if !pb.IsEmptySnapshot(u.Snapshot) && u.Snapshot.Index > r.snap.Index {
				// a snapshot inside an Update replaces the log (raft restore)
				r.snap = u.Snapshot
				for i := range r.ents {
					if i > u.Snapshot.Index {
						delete(r.ents, i)
					}
				}
				r.last = u.Snapshot.Index
			}
			if n := len(u.EntriesToSave); n > 0 {
				first := u.EntriesToSave[0].Index
				for i := range r.ents {
					if i >= first {
						delete(r.ents, i)
					}
				}
				for _, e := range u.EntriesToSave {
					r.ents[e.Index] = e
				}
				r.last = u.EntriesToSave[n-1].Index
			}
		}
	}
}

// Models returns the model after 0..len(steps) acknowledged calls.
func Models(steps []Step) []model {
	out := []model{{}}
	for _, s := range steps {
		m := out[len(out)-1].clone()
		m.apply(s)
		out = append(out, m)
	}
	return out
}

// ----------------------------------------------------------------- oracle

// rec is what a (re)opened store says about one replica.
type rec struct {
	hasBoot bool
	boot    pb.Bootstrap
	ss      pb.Snapshot
	noLog   bool
	rs      raftio.RaftState
	ents    []pb.Entry
}

func (r rec) fingerprint() string {
	var sb strings.Builder
	fmt.Fprintf(&sb, "boot=%v ss=%d/%d nolog=%v st=%d/%d/%d first=%d n=%d ents=", r.hasBoot, r.ss.Index, r.ss.Term,
		r.noLog, r.rs.State.Term, r.rs.State.Vote, r.rs.State.Commit, r.rs.FirstIndex, r.rs.EntryCount)
	for _, e := range r.ents {
		fmt.Fprintf(&sb, "%d/%d/%x,", e.Index, e.Term, verifkit.Hash64(string(e.Cmd)))
	}
	return sb.String()
}

// readRep queries everything the node start-up path reads about a replica.
// A non-empty string is a read failure (error or panic of a read call).
func readRep(db raftio.ILogDB, r Rep) (out rec, problem string) {
	msg := verifkit.Catch(func() {
		b, err := db.GetBootstrapInfo(r.Shard, r.Replica)
		if err == nil {
			out.hasBoot, out.boot = true, b
		} else if !errors.Is(err, raftio.ErrNoBootstrapInfo) {
			problem = fmt.Sprintf("GetBootstrapInfo(%s): %v", r, err)
			return
		}
		ss, err := db.GetSnapshot(r.Shard, r.Replica)
		if err != nil {
			problem = fmt.Sprintf("GetSnapshot(%s): %v", r, err)
			return
		}
		out.ss = ss
		rs, err := db.ReadRaftState(r.Shard, r.Replica, ss.Index)
		if errors.Is(err, raftio.ErrNoSavedLog) {
			out.noLog = true
			return
		}
		if err != nil {
			problem = fmt.Sprintf("ReadRaftState(%s,%d): %v", r, ss.Index, err)
			return
		}
		out.rs = rs
		if rs.EntryCount > 0 {
			es, _, err := db.IterateEntries(nil, 0, r.Shard, r.Replica, rs.FirstIndex,
				rs.FirstIndex+rs.EntryCount, math.MaxUint64)
			if err != nil {
				problem = fmt.Sprintf("IterateEntries(%s,%d,%d): %v", r, rs.FirstIndex, rs.FirstIndex+rs.EntryCount, err)
				return
			}
			out.ents = es
		}
	})
	if msg != "" {
		problem = fmt.Sprintf("read of %s panicked: %s", r, firstLine(msg))
	}
	return
}

func firstLine(s string) string {
	s = strings.TrimSpace(s)
	if i := strings.IndexByte(s, '\n'); i >= 0 {
		s = s[:i]
	}
	if len(s) > 300 {
		s = s[:300]
	}
	return s
}

func sameSnapshot(a, b pb.Snapshot) bool {
	return a.Index == b.Index && a.Term == b.Term && a.Filepath == b.Filepath && a.FileSize == b.FileSize &&
		a.ShardID == b.ShardID && a.Type == b.Type && len(a.Membership.Addresses) == len(b.Membership.Addresses)
}

// match compares a recovered replica with one candidate model state. It
// returns ("", "") on a match, else a stable clause id and a detail text.
func match(r rec, c *rstate) (clause, detail string) {
	if c == nil {
		c = &rstate{}
	}
	if r.hasBoot != (c.boot != nil) {
		return "bootstrap-record", fmt.Sprintf("bootstrap present=%v, written=%v", r.hasBoot, c.boot != nil)
	}
	if r.hasBoot && (r.boot.Join != c.boot.Join || r.boot.Type != c.boot.Type || len(r.boot.Addresses) != len(c.boot.Addresses)) {
		return "bootstrap-record", "bootstrap record differs from the written one"
	}
	if !sameSnapshot(r.ss, c.snap) {
		return "snapshot-record", fmt.Sprintf("snapshot record index=%d term=%d, written index=%d term=%d",
			r.ss.Index, r.ss.Term, c.snap.Index, c.snap.Term)
	}
	if !c.saved {
		if !r.noLog {
			return "unwritten-state", fmt.Sprintf("store reports state %+v first=%d count=%d but no state was written",
				r.rs.State, r.rs.FirstIndex, r.rs.EntryCount)
		}
		return "", ""
	}
	if r.noLog {
		return "state-missing", "ReadRaftState says ErrNoSavedLog but a state record was written"
	}
	okState := false
	for _, s := range c.states {
		if pb.IsStateEqual(s, r.rs.State) {
			okState = true
		}
	}
	if !okState {
		return "hard-state", fmt.Sprintf("hard state %+v, acceptable %+v", r.rs.State, c.states)
	}
	cEnd := c.last
	if c.snap.Index > cEnd {
		cEnd = c.snap.Index
	}
	rEnd := r.ss.Index
	if r.rs.EntryCount > 0 {
		rEnd = r.rs.FirstIndex + r.rs.EntryCount - 1
	}
	// gap-free and ending at the recorded end
	if uint64(len(r.ents)) != r.rs.EntryCount {
		return "log-gap", fmt.Sprintf("ReadRaftState records first=%d count=%d but IterateEntries returned %d entries",
			r.rs.FirstIndex, r.rs.EntryCount, len(r.ents))
	}
	for i, e := range r.ents {
		if e.Index != r.rs.FirstIndex+uint64(i) {
			return "log-gap", fmt.Sprintf("entry %d of the recovered log has index %d, want %d", i, e.Index, r.rs.FirstIndex+uint64(i))
		}
	}
	if rEnd != cEnd {
		return "log-end", fmt.Sprintf("recovered log ends at %d, written log ends at %d", rEnd, cEnd)
	}
	lo := c.snap.Index
	if c.compacted > lo {
		lo = c.compacted
	}
	if cEnd > lo {
		if r.rs.EntryCount == 0 || r.rs.FirstIndex > lo+1 {
			return "entries-missing", fmt.Sprintf("entries %d..%d must be readable, recovered range starts at %d (count %d)",
				lo+1, cEnd, r.rs.FirstIndex, r.rs.EntryCount)
		}
	}
	for _, e := range r.ents {
		if e.Index <= lo {
			continue
		}
		w, ok := c.ents[e.Index]
		if !ok {
			return "entry-content", fmt.Sprintf("entry %d was never written to this log", e.Index)
		}
		if w.Term != e.Term || !bytes.Equal(w.Cmd, e.Cmd) || w.Type != e.Type {
			return "entry-content", fmt.Sprintf("entry %d: term %d len %d, written term %d len %d", e.Index, e.Term, len(e.Cmd), w.Term, len(w.Cmd))
		}
	}
	return "", ""
}

// clauseRank orders the clauses of match: a later clause means more of the
// candidate was matched.
var clauseRank = map[string]int{"bootstrap-record": 0, "snapshot-record": 1, "unwritten-state": 2, "state-missing": 2,
	"hard-state": 3, "log-gap": 4, "log-end": 5, "entries-missing": 6, "entry-content": 7}

// Problem is an oracle failure.
type Problem struct {
	Clause string
	Detail string
}

// verify reads every replica from db and compares it with the model after the
// acknowledged calls (old) and, per replica independently, with the model
// after the in-flight call as well (nw). It returns a fingerprint of the
// recovered content, a class string (which side each replica is on), and the
// first problem.
func verify(db raftio.ILogDB, old, nw model) (fp string, class string, p *Problem) {
	var fps, cls []string
	for _, r := range Reps {
		rc, prob := readRep(db, r)
		if prob != "" {
			return "", "", &Problem{Clause: "read-failed", Detail: prob}
		}
		fps = append(fps, r.String()+":"+rc.fingerprint())
		c1, d1 := match(rc, old[r])
		c2, d2 := match(rc, nw[r])
		switch {
		case c1 == "" && c2 == "":
			cls = append(cls, r.String()+"=")
		case c1 == "":
			cls = append(cls, r.String()+"-")
		case c2 == "":
			cls = append(cls, r.String()+"+")
		default:
			cl := c1
			if clauseRank[c2] > clauseRank[c1] {
				cl = c2 // key on the candidate the recovered replica is closest to
			}
			det := fmt.Sprintf("replica %s matches neither the state before the in-flight call (%s: %s) nor after it (%s: %s)",
				r, c1, d1, c2, d2)
			if c1 == c2 && d1 == d2 {
				det = fmt.Sprintf("replica %s: %s: %s", r, c1, d1)
			}
			return "", "", &Problem{Clause: cl, Detail: det}
		}
	}
	return strings.Join(fps, ";"), strings.Join(cls, ""), nil
}

// --------------------------------------------------------- KV fault seam

// KVInjector wraps kv.IKVStore instances and fails exactly call #k.
type KVInjector struct {
	mu     sync.Mutex
	n      int
	failAt int
	site   string
	method string
}

// ErrKVInjected is the injected IKVStore error.
var ErrKVInjected = errors.New("verifc10: injected IKVStore error")

// NewKVInjector returns an injector that does not fail anything yet.
func NewKVInjector() *KVInjector { return &KVInjector{failAt: -1} }

// FailAt selects the call ordinal to fail.
func (i *KVInjector) FailAt(k int) { i.mu.Lock(); i.failAt = k; i.mu.Unlock() }

// Calls returns the number of IKVStore calls seen.
func (i *KVInjector) Calls() int { i.mu.Lock(); defer i.mu.Unlock(); return i.n }

// Fired returns "method@callsite" of the failed call ("" if not reached).
func (i *KVInjector) Fired() string {
	i.mu.Lock()
	defer i.mu.Unlock()
	if i.method == "" {
		return ""
	}
	return i.method + "@" + i.site
}

// Site returns the dragonboat function that issued the failed call.
func (i *KVInjector) Site() string { i.mu.Lock(); defer i.mu.Unlock(); return i.site }

func callSite() string {
	pcs := make([]uintptr, 24)
	n := runtime.Callers(3, pcs)
	fr := runtime.CallersFrames(pcs[:n])
	for {
		f, more := fr.Next()
		const p = "github.com/lni/dragonboat/v4/internal/logdb."
		if strings.HasPrefix(f.Function, p) && !strings.Contains(f.File, "zz_verif") {
			fn := f.Function[len(p):]
			if i := strings.LastIndex(fn, ")."); i >= 0 {
				fn = fn[i+2:]
			}
			if i := strings.Index(fn, ".func"); i >= 0 {
				fn = fn[:i]
			}
			return fn
		}
		if !more {
			return "?"
		}
	}
}

func (i *KVInjector) hit(method string) error {
	i.mu.Lock()
	defer i.mu.Unlock()
	k := i.n
	i.n++
	if k == i.failAt {
		i.method, i.site = method, callSite()
		return ErrKVInjected
	}
	return nil
}

// Wrap returns kvs with the injector in front of it.
func (i *KVInjector) Wrap(kvs kv.IKVStore) kv.IKVStore { return &kvw{IKVStore: kvs, inj: i} }

type kvw struct {
	kv.IKVStore
	inj *KVInjector
}

func (w *kvw) IterateValue(fk []byte, lk []byte, inc bool, op func(key []byte, data []byte) (bool, error)) error {
	if err := w.inj.hit("IterateValue"); err != nil {
		return err
	}
	return w.IKVStore.IterateValue(fk, lk, inc, op)
}
func (w *kvw) GetValue(key []byte, op func([]byte) error) error {
	if err := w.inj.hit("GetValue"); err != nil {
		return err
	}
	return w.IKVStore.GetValue(key, op)
}
func (w *kvw) SaveValue(key []byte, value []byte) error {
	if err := w.inj.hit("SaveValue"); err != nil {
		return err
	}
	return w.IKVStore.SaveValue(key, value)
}
func (w *kvw) DeleteValue(key []byte) error {
	if err := w.inj.hit("DeleteValue"); err != nil {
		return err
	}
	return w.IKVStore.DeleteValue(key)
}
func (w *kvw) CommitWriteBatch(wb kv.IWriteBatch) error {
	if err := w.inj.hit("CommitWriteBatch"); err != nil {
		return err
	}
	return w.IKVStore.CommitWriteBatch(wb)
}
func (w *kvw) BulkRemoveEntries(fk []byte, lk []byte) error {
	if err := w.inj.hit("BulkRemoveEntries"); err != nil {
		return err
	}
	return w.IKVStore.BulkRemoveEntries(fk, lk)
}
func (w *kvw) CompactEntries(fk []byte, lk []byte) error {
	if err := w.inj.hit("CompactEntries"); err != nil {
		return err
	}
	return w.IKVStore.CompactEntries(fk, lk)
}
func (w *kvw) FullCompaction() error {
	if err := w.inj.hit("FullCompaction"); err != nil {
		return err
	}
	return w.IKVStore.FullCompaction()
}

// ---------------------------------------------------------------- runner

// runner executes workload steps against a live store.
type runner struct {
	st    *Store
	fs    *journalfs.FS
	inj   *KVInjector
	db    raftio.ILogDB
	base  int // mutating ops consumed by the harness' own directory setup
	from  int // journal length after the setup
	steps []Step
}

func syncDir(fs vfs.IFS, d string) {
	f, err := fs.OpenDir(d)
	if err != nil {
		panic(err)
	}
	if err := f.Sync(); err != nil {
		panic(err)
	}
	if err := f.Close(); err != nil {
		panic(err)
	}
}

func newRunner(st *Store, inj *KVInjector) *runner {
	fs := journalfs.New()
	for _, d := range []string{DirData, DirWAL} {
		if err := fs.MkdirAll(d, 0755); err != nil {
			panic(err)
		}
	}
	for _, d := range []string{DirData, DirWAL, "/c10", "/"} {
		syncDir(fs, d)
	}
	return &runner{st: st, fs: fs, inj: inj, base: fs.Mutations(), from: fs.Len(), steps: Workload(st)}
}

// exec runs one step; it returns the error or the panic message of the call.
func (r *runner) exec(s Step) (err error, pan string) {
	pan = verifkit.Catch(func() {
		switch s.Kind {
		case "open":
			var db raftio.ILogDB
			db, err = r.st.Open(r.fs.ErrorFS(), r.inj)
			if err == nil {
				r.db = db
			}
		case "close":
			db := r.db
			r.db = nil
			err = db.Close()
		case "bootstrap":
			err = r.db.SaveBootstrapInfo(s.Rep.Shard, s.Rep.Replica, s.Boot)
		case "save":
			err = r.db.SaveRaftState(cloneUpdates(s.Updates), s.Worker)
		case "snapshots":
			err = r.db.SaveSnapshots(cloneUpdates(s.Updates))
		case "remove":
			err = r.db.RemoveEntriesTo(s.Rep.Shard, s.Rep.Replica, s.Index)
		case "compact":
			var done <-chan struct{}
			done, err = r.db.CompactEntriesTo(s.Rep.Shard, s.Rep.Replica, s.Index)
			if err == nil {
				<-done // Pebble: the compaction worker finished (it panics on failure)
			}
		case "hook":
			r.st.Hook(r.db, s.Hook, s.Rep)
		default:
			panic("unknown step " + s.Kind)
		}
	})
	return err, pan
}

func cloneUpdates(in []pb.Update) []pb.Update {
	out := make([]pb.Update, len(in))
	for i, u := range in {
		out[i] = u
		out[i].EntriesToSave = append([]pb.Entry(nil), u.EntriesToSave...)
	}
	return out
}

func apiName(s Step) string {
	switch s.Kind {
	case "open":
		return "open"
	case "close":
		return "close"
	case "bootstrap":
		return "saveBootstrapInfo"
	case "save":
		return "saveRaftState"
	case "snapshots":
		return "saveSnapshots"
	case "remove":
		return "removeEntriesTo"
	case "compact":
		return "compactEntriesTo"
	}
	return s.Kind
}

// fileClass turns a path into a stable class: last two components, digit
// runs replaced by N.
func fileClass(p string) string {
	parts := strings.Split(strings.Trim(p, "/"), "/")
	if len(parts) > 2 {
		parts = parts[len(parts)-2:]
	}
	s := strings.Join(parts, "/")
	var sb strings.Builder
	prev := false
	for _, c := range s {
		if c >= '0' && c <= '9' {
			if !prev {
				sb.WriteByte('N')
			}
			prev = true
			continue
		}
		prev = false
		sb.WriteRune(c)
	}
	return sb.String()
}

func sortedKeys(m map[string]int) []string {
	ks := make([]string, 0, len(m))
	for k := range m {
		ks = append(ks, k)
	}
	sort.Strings(ks)
	return ks
}
