//go:build verif

// C10, Pebble part: the sharded Pebble log stores (plain and batched entry
// format) behind the real open paths NewDefaultLogDB / NewDefaultBatchedLogDB,
// on a journaling FS (crash-point enumeration) and with FS / IKVStore faults.
package logdb

import (
	"os"
	"testing"

	"github.com/lni/dragonboat/v4/config"
	"github.com/lni/dragonboat/v4/internal/logdb/kv"
	"github.com/lni/dragonboat/v4/internal/verifc10"
	"github.com/lni/dragonboat/v4/internal/verifkit"
	"github.com/lni/dragonboat/v4/internal/vfs"
	"github.com/lni/dragonboat/v4/raftio"
)

func c10PebbleConfig(fs vfs.IFS) config.NodeHostConfig {
	expert := config.GetDefaultExpertConfig()
	expert.LogDB = config.GetTinyMemLogDBConfig()
	expert.LogDB.Shards = 2
	expert.LogDB.KVWriteBufferSize = 256 * 1024
	expert.FS = fs
	return config.NodeHostConfig{Expert: expert}
}

func c10OpenPebble(batched bool, lldir bool) func(fs vfs.IFS, inj *verifc10.KVInjector) (raftio.ILogDB, error) {
	return func(fs vfs.IFS, inj *verifc10.KVInjector) (raftio.ILogDB, error) {
		cfg := c10PebbleConfig(fs)
		dirs := []string{verifc10.DirData}
		var lldirs []string
		if lldir {
			lldirs = []string{verifc10.DirWAL}
		}
		if inj == nil {
			// the real open paths
			if batched {
				return NewDefaultBatchedLogDB(cfg, nil, dirs, lldirs)
			}
			return NewDefaultLogDB(cfg, nil, dirs, lldirs)
		}
		f := func(c config.LogDBConfig, cb kv.LogDBCallback, dir string, wal string, fs vfs.IFS) (kv.IKVStore, error) {
			kvs, err := newDefaultKVStore(c, cb, dir, wal, fs)
			if err != nil {
				return nil, err
			}
			return inj.Wrap(kvs), nil
		}
		// same arguments NewDefaultLogDB / NewDefaultBatchedLogDB pass
		return NewLogDB(cfg, nil, dirs, lldirs, batched, !batched, f)
	}
}

func c10PebbleStores() []*verifc10.Store {
	return []*verifc10.Store{
		{Name: "pebble-plain", Family: "pebble", KV: true, Open: c10OpenPebble(false, true)},
		{Name: "pebble-batched", Family: "pebble", KV: true, Open: c10OpenPebble(true, false)},
	}
}

func TestVerifC10Pebble(t *testing.T) {
	batchSize = 2 // package var: several entry batches within a 12-entry log; batch ids >= 2 get compacted
	stores := c10PebbleStores()
	if spec := os.Getenv("VERIF_C10_CHILD"); spec != "" {
		verifc10.ChildMain(stores, spec)
		return
	}
	run := verifkit.Env()
	res := verifkit.NewResult()
	defer run.Finish(res)
	verifc10.Main(&verifc10.Ctx{Run: run, Res: res, Test: "TestVerifC10Pebble"}, stores)
}
