//go:build verif

package verifc10

import (
	"bufio"
	"encoding/json"
	"fmt"
	"io"
	"log"
	"os"
	"os/exec"
	"path/filepath"
	"runtime"
	"strings"
	"sync"
	"sync/atomic"
	"time"

	"github.com/lni/dragonboat/v4/internal/verifkit"
	"github.com/lni/dragonboat/v4/internal/verifkit/journalfs"
	"github.com/lni/dragonboat/v4/internal/vfs"
	"github.com/lni/dragonboat/v4/logger"
	"github.com/lni/dragonboat/v4/raftio"
)

// Quiet silences dragonboat's and Pebble's loggers.
func Quiet() {
	for _, n := range []string{"logdb", "pebblekv", "tan", "config", "dragonboat", "raftpb", "server", "utils", "fileutil", "raft", "rsm"} {
		logger.GetLogger(n).SetLevel(logger.CRITICAL)
	}
	log.SetOutput(io.Discard)
}

// Replay is the replay object of every C10 violation.
type Replay struct {
	Mode    string             `json:"mode"` // crash | errfs | errkv
	Store   string             `json:"store"`
	P       int                `json:"p,omitempty"`
	Image   *journalfs.Image   `json:"image,omitempty"`
	Journal *journalfs.Journal `json:"journal,omitempty"` // exact journal prefix (crash mode)
	// depth 2: journal prefix of the recovery run on that image, and its image
	Journal2 *journalfs.Journal `json:"journal2,omitempty"`
	P2       int                `json:"p2,omitempty"`
	Image2   *journalfs.Image   `json:"image2,omitempty"`
	K        int                `json:"k,omitempty"`
	Site     string             `json:"site,omitempty"`
	Step     string             `json:"step,omitempty"`
}

// finding is a violation found by one case.
type finding struct {
	Key    string
	Desc   string
	Replay Replay
}

// ----------------------------------------------------------- crash mode

// crashCase is one crash image: prefix P of journal J with image Im, and
// optionally (depth 2, crash during recovery) prefix P2 of the journal J2 of
// a recovery run on that image, with image Im2.
type crashCase struct {
	J   *journalfs.Journal
	P   int
	Im  journalfs.Image
	J2  *journalfs.Journal
	P2  int
	Im2 journalfs.Image
}

func (cc crashCase) build() *vfs.MemFS {
	mem, err := cc.J.Materialize(cc.P, cc.Im)
	if err != nil {
		panic(err) // harness bug: the journal must replay
	}
	if cc.J2 != nil {
		if err := cc.J2.MaterializeOn(mem, cc.P2, cc.Im2); err != nil {
			panic(err)
		}
	}
	return mem
}

func (cc crashCase) lossy() bool {
	return cc.Im.Kind != "keep" || (cc.J2 != nil && cc.Im2.Kind != "keep")
}

// checkImage reopens one crash image with the real open path and applies the
// oracle. It returns the recovered fingerprint, the class and a finding.
func checkImage(st *Store, steps []Step, models []model, j *journalfs.Journal, p int, im journalfs.Image) (fp, class string, f *finding) {
	fp, class, f, _ = checkCase(st, steps, models, crashCase{J: j, P: p, Im: im}, nil, false)
	return
}

// checkCase is checkImage for a crashCase. With wantHash the content hash of
// the image is stored there; with record the recovery run (open, reads,
// close) is itself journaled and its journal returned (for depth 2).
func checkCase(st *Store, steps []Step, models []model, cc crashCase, wantHash *uint64, record bool) (fp, class string, f *finding, rec *journalfs.Journal) {
	j, p, im := cc.J, cc.P, cc.Im
	acks := j.Acks(p)
	if acks > len(steps) {
		acks = len(steps)
	}
	inflight := "idle"
	where := "before open"
	if acks > 0 {
		inflight = "idle after " + steps[acks-1].Label
		where = "after " + apiName(steps[acks-1])
	}
	nw := models[acks]
	if acks < len(steps) {
		inflight = steps[acks].Label
		where = "in " + apiName(steps[acks])
		nw = models[acks+1]
	}
	old := models[acks]
	if cc.J2 != nil {
		where = "during recovery from an earlier crash"
	}
	loss := "keep"
	if cc.lossy() {
		loss = "lossy"
	}
	mk := func(clause, detail string) *finding {
		rp := Replay{Mode: "crash", Store: st.Name, P: p, Image: &im, Step: inflight}
		if pre := j.Prefix(p); pre.Bytes() < 8<<20 {
			rp.Journal = pre
		}
		last := "start"
		if p > 0 {
			last = j.Ops[p-1].String()
		}
		d2 := ""
		if cc.J2 != nil {
			rp.Journal2, rp.P2, rp.Image2 = cc.J2.Prefix(cc.P2), cc.P2, &cc.Im2
			l2 := "start"
			if cc.P2 > 0 {
				l2 = cc.J2.Ops[cc.P2-1].String()
			}
			d2 = fmt.Sprintf("; recovery on that image crashed again after %d of its operations (last op: %s), image %s", cc.P2, l2, cc.Im2.String())
		}
		return &finding{
			Key: fmt.Sprintf("C10:%s:crash %s:%s:%s", st.Family, where, loss, clause),
			Desc: fmt.Sprintf("store %s, crash after journal prefix %d (last op: %s; %d calls acknowledged, in flight: %s), image %s%s: %s",
				st.Name, p, last, acks, inflight, im.String(), d2, detail),
			Replay: rp,
		}
	}
	mem := cc.build()
	if wantHash != nil {
		*wantHash = verifkit.Hash64(journalfs.Dump(mem, "/"))
	}
	var fsys vfs.IFS = journalfs.Plain(mem)
	var jfs *journalfs.FS
	if record {
		jfs = journalfs.NewOn(mem)
		fsys = jfs.ErrorFS()
	}
	var db raftio.ILogDB
	var oerr error
	if pan := verifkit.Catch(func() { db, oerr = st.Open(fsys, nil) }); pan != "" {
		return "", "", mk("reopen-panicked", "reopen panicked: "+firstLine(pan)), nil
	}
	if oerr != nil {
		return "", "", mk("reopen-failed", "reopen failed: "+firstLine(oerr.Error())), nil
	}
	fp, class, prob := verify(db, old, nw)
	if pan := verifkit.Catch(func() { _ = db.Close() }); pan != "" && prob == nil {
		return "", "", mk("close-after-recovery-panicked", "close of the recovered store panicked: "+firstLine(pan)), nil
	}
	if prob != nil {
		return "", "", mk(prob.Clause, prob.Detail), nil
	}
	if jfs != nil {
		rec = jfs.Journal()
	}
	return fp, class, nil, rec
}

// runClean executes the whole workload without faults and returns the runner
// (store closed) — or a finding when a call fails although nothing was
// injected.
func runClean(st *Store, inj *KVInjector) (*runner, *finding) {
	r := newRunner(st, inj)
	for _, s := range r.steps {
		err, pan := r.exec(s)
		if err != nil || pan != "" {
			return r, &finding{
				Key:    fmt.Sprintf("C10:%s:%s fails without any fault", st.Name, s.Label),
				Desc:   fmt.Sprintf("fault-free workload: %s returned err=%v panic=%q", s.Label, err, firstLine(pan)),
				Replay: Replay{Mode: "clean", Store: st.Name, Step: s.Label},
			}
		}
		r.fs.Mark(s.Label)
	}
	return r, nil
}

// Ctx carries the worker protocol objects.
type Ctx struct {
	Run *verifkit.Run
	Res *verifkit.Result
	// Test is the name of the Test function (children re-run it).
	Test string
}

func (c *Ctx) extra(k string, v int64) {
	c.Res.Extra[k] = v
}

func (c *Ctx) report(f *finding) bool {
	return c.Res.Violate(f.Key, f.Desc, f.Replay)
}

// CrashMode runs the workload once on st, then checks every crash point of
// that one journal.
func CrashMode(c *Ctx, st *Store) {
	r, f := runClean(st, nil)
	if f != nil {
		c.report(f)
		return
	}
	j := r.fs.Journal()
	// self check of the engine: replaying the whole journal reproduces the live FS
	full, err := j.Materialize(len(j.Ops), journalfs.Image{Kind: "keep"})
	if err != nil {
		panic(err)
	}
	if a, b := journalfs.Dump(full, "/"), journalfs.Dump(r.fs.Base(), "/"); a != b {
		panic(fmt.Sprintf("journalfs self-check failed for %s: replayed journal differs from the live file system\n--- replay\n%s--- live\n%s", st.Name, a, b))
	}
	models := Models(r.steps)
	points := j.CrashPoints(r.from)
	var images, torn, subset, images2, recOps int64
	thorough := c.Run.Thorough()
	seen := verifkit.NewSet64()
	states := verifkit.NewSet64()
	var wg sync.WaitGroup
	var next int64 = -1
	var stop int32
	nw := runtime.GOMAXPROCS(0)
	var mu sync.Mutex
	for w := 0; w < nw; w++ {
		wg.Add(1)
		go func() {
			defer wg.Done()
			for atomic.LoadInt32(&stop) == 0 {
				i := int(atomic.AddInt64(&next, 1))
				if i >= len(points) {
					return
				}
				if c.Run.Expired() {
					c.Res.Cap("deadline reached in crash mode of " + st.Name)
					return
				}
				p := points[i]
				ims := j.Images(p, true) // drop, keep, dirty subsets, torn tails: cheap enough for both tiers
				for _, im := range ims {
					var ih uint64
					deep := thorough || im.Kind == "drop" || im.Kind == "torn"
					fp, class, f, rec := checkCase(st, r.steps, models, crashCase{J: j, P: p, Im: im}, &ih, deep)
					atomic.AddInt64(&images, 1)
					switch im.Kind {
					case "torn":
						atomic.AddInt64(&torn, 1)
					case "subset":
						atomic.AddInt64(&subset, 1)
					}
					if f != nil {
						c.Res.Outcome(fmt.Sprintf("%s|VIOLATION %s", st.Name, f.Key))
						if c.report(f) {
							atomic.StoreInt32(&stop, 1)
						}
						continue
					}
					acks := j.Acks(p)
					fresh := seen.Add(verifkit.Hash64(fmt.Sprintf("%s|%x|%d", st.Name, ih, acks)))
					if fresh {
						atomic.AddInt64(&c.Res.DistinctNontrivial, 1)
					}
					states.Add(verifkit.Hash64(st.Name + fp))
					label := "end"
					if acks < len(r.steps) {
						label = r.steps[acks].Kind
					}
					c.Res.Outcome(fmt.Sprintf("%s|crash in %s|%s|%s", st.Name, label, im.Kind, class))
					mu.Lock()
					c.Res.Sample(3, map[string]interface{}{"store": st.Name, "prefix": p, "acks": acks, "image": im.String(),
						"last_op": j.Ops[p-1+boolInt(p == 0)].String(), "recovered": class})
					mu.Unlock()
					if !fresh || rec == nil {
						continue
					}
					// depth 2: the recovery run on this (new) image crashes as well
					atomic.AddInt64(&recOps, int64(rec.Mutations()))
					for _, p2 := range rec.CrashPoints(0) {
						if p2 == 0 {
							continue
						}
						ims2 := []journalfs.Image{{Kind: "drop"}}
						if thorough {
							ims2 = append(ims2, journalfs.Image{Kind: "keep"})
							ims2 = append(ims2, rec.TornImages(p2)...)
						}
						for _, im2 := range ims2 {
							if c.Run.Expired() {
								c.Res.Cap("deadline reached in crash mode (depth 2) of " + st.Name)
								return
							}
							var ih2 uint64
							fp2, class2, f2, _ := checkCase(st, r.steps, models, crashCase{J: j, P: p, Im: im, J2: rec, P2: p2, Im2: im2}, &ih2, false)
							atomic.AddInt64(&images2, 1)
							if f2 != nil {
								c.Res.Outcome(fmt.Sprintf("%s|VIOLATION %s", st.Name, f2.Key))
								c.report(f2)
								continue
							}
							if seen.Add(verifkit.Hash64(fmt.Sprintf("%s|%x|%d", st.Name, ih2, acks))) {
								atomic.AddInt64(&c.Res.DistinctNontrivial, 1)
							}
							states.Add(verifkit.Hash64(st.Name + fp2))
							c.Res.Outcome(fmt.Sprintf("%s|crash in %s|%s then recovery crashed|%s|%s", st.Name, label, im.Kind, im2.Kind, class2))
						}
					}
				}
			}
		}()
	}
	wg.Wait()
	atomic.AddInt64(&c.Res.Evaluations, images+images2)
	c.extra(st.Name+".images_depth2_checked", images2)
	c.extra(st.Name+".recovery_journal_mutations_total", recOps)
	c.extra(st.Name+".journal_ops", int64(len(j.Ops)))
	c.extra(st.Name+".journal_mutations", int64(j.Mutations()))
	c.extra(st.Name+".journal_bytes", int64(j.Bytes()))
	c.extra(st.Name+".crash_points", int64(len(points)))
	c.extra(st.Name+".images_checked", images)
	c.extra(st.Name+".images_torn", torn)
	c.extra(st.Name+".images_subset", subset)
	c.extra(st.Name+".distinct_recovered_states", int64(states.Len()))
	c.extra(st.Name+".acked_calls", int64(len(r.steps)))
}

func boolInt(b bool) int {
	if b {
		return 1
	}
	return 0
}

// ReplayCrash re-checks one stored crash image (exact: the journal prefix is
// part of the replay object).
func ReplayCrash(c *Ctx, st *Store, rp Replay) {
	steps := Workload(st)
	models := Models(steps)
	j := rp.Journal
	p := rp.P
	if j == nil {
		// journal too large to store: re-run the workload and re-check the
		// same prefix number of the new journal (not exact)
		r, f := runClean(st, nil)
		if f != nil {
			c.report(f)
			return
		}
		j = r.fs.Journal()
		if p > len(j.Ops) {
			p = len(j.Ops)
		}
	}
	cc := crashCase{J: j, P: p, Im: *rp.Image}
	if rp.Journal2 != nil && rp.Image2 != nil {
		cc.J2, cc.P2, cc.Im2 = rp.Journal2, rp.P2, *rp.Image2
	}
	_, _, f, _ := checkCase(st, steps, models, cc, nil, false)
	atomic.AddInt64(&c.Res.Evaluations, 1)
	if f != nil {
		c.report(f)
	}
}

// ----------------------------------------------------------- error mode

// caseResult is what a child reports for one fault ordinal.
type caseResult struct {
	K       int    `json:"k"`
	Reached bool   `json:"reached"`
	Site    string `json:"site,omitempty"`   // failed op class
	Step    string `json:"step,omitempty"`   // label of the call during which the fault fired
	Kind    string `json:"kind,omitempty"`   // kind of that call
	Result  string `json:"result,omitempty"` // error | panic | nil | not-in-call
	After   string `json:"after,omitempty"`  // what the recovery check after the fault saw
	Total   int    `json:"total,omitempty"`  // fault points seen by this run
	VKey    string `json:"vkey,omitempty"`
	VDesc   string `json:"vdesc,omitempty"`
	Hang    bool   `json:"hang,omitempty"`
}

// errCase runs the workload with exactly fault point #k failing.
func errCase(st *Store, mode string, k int) (cr caseResult, teardown func()) {
	cr.K = k
	teardown = func() {}
	var inj *KVInjector
	if mode == "errkv" {
		inj = NewKVInjector()
		inj.FailAt(k)
	}
	r := newRunner(st, inj)
	if mode == "errfs" {
		r.fs.FailAt(r.base+k, nil)
	}
	fired := func() string {
		if mode == "errkv" {
			return inj.Fired()
		}
		if o := r.fs.Failed(); o != nil {
			return string(o.Kind) + " " + fileClass(o.Path)
		}
		return ""
	}
	site := func() string {
		if mode == "errkv" {
			return inj.Site()
		}
		if o := r.fs.Failed(); o != nil {
			return string(o.Kind) + " of " + fileClass(o.Path)
		}
		return ""
	}
	models := Models(r.steps)
	violate := func(s Step, what, detail string) {
		cr.VKey = fmt.Sprintf("C10:%s:%s swallows %s error", st.Family, apiName(s), site())
		cr.VDesc = fmt.Sprintf("store %s, %s fault #%d (%s) injected during %s: the call returned nil but %s: %s",
			st.Name, mode, k, fired(), s.Label, what, detail)
	}
	acked := 0
	failedStep := -1
	for i, s := range r.steps {
		before := fired() != ""
		err, pan := r.exec(s)
		now := fired() != ""
		if err == nil && pan == "" {
			r.fs.Mark(s.Label)
			acked++
			if now && !before {
				// the fault fired while this call ran and the call reported success:
				// everything acknowledged so far must be readable and durable
				cr.Step, cr.Kind, cr.Result = s.Label, s.Kind, "nil"
				j := r.fs.Journal()
				if _, _, f := checkImage(st, r.steps[:acked], models[:acked+1], j, len(j.Ops), journalfs.Image{Kind: "drop"}); f != nil {
					violate(s, "the acknowledged data is not durable (crash image right after the call)", f.Desc)
					break
				}
				if r.db != nil {
					// note: Tan creates a db lazily even for reads, so this read-back
					// can add FS operations of its own
					if _, _, p := verify(r.db, models[acked], models[acked]); p != nil {
						violate(s, "the acknowledged data is not readable from the live store", p.Clause+": "+p.Detail)
						break
					}
				}
			}
			continue
		}
		failedStep = i
		if !now {
			cr.VKey = fmt.Sprintf("C10:%s:%s fails without any fault", st.Name, s.Label)
			cr.VDesc = fmt.Sprintf("%s returned err=%v panic=%q although fault #%d was not reached", s.Label, err, firstLine(pan), k)
		}
		if cr.Step == "" {
			cr.Step, cr.Kind = s.Label, s.Kind
			cr.Result = "error"
			if pan != "" {
				cr.Result = "panic"
			}
		} else {
			cr.Result = "nil-then-later-" + map[bool]string{true: "panic", false: "error"}[pan != ""]
		}
		break
	}
	cr.Site = fired()
	cr.Reached = cr.Site != ""
	if mode == "errkv" {
		cr.Total = inj.Calls()
	} else {
		cr.Total = r.fs.Mutations() - r.base
	}
	if cr.Reached && cr.Step == "" {
		cr.Result = "not-in-call" // hit between calls by a background goroutine
	}
	r.fs.Freeze()
	j := r.fs.Journal()
	if r.db != nil {
		// closing a store whose call just failed may itself blow up in one of the
		// store's goroutines (e.g. Tan's sequentialSaveState returns on the first
		// error without waiting for the sync goroutines it started): the caller
		// does this after the result of the case is recorded
		db := r.db
		teardown = func() { _ = verifkit.Catch(func() { _ = db.Close() }) }
	}
	if cr.VKey != "" || !cr.Reached {
		return cr, teardown
	}
	// the process would now die / be restarted: the store must recover, keep
	// every acknowledged save and treat the failed call as all-or-nothing
	ms := models[:acked+1]
	if failedStep >= 0 {
		ms = models[:acked+2]
	}
	_, class, f := checkImage(st, r.steps[:len(ms)-1], ms, j, len(j.Ops), journalfs.Image{Kind: "drop"})
	if f != nil {
		cr.VKey = f.Key // same oracle as crash mode: crash (restart) in / after the failed call
		cr.VDesc = fmt.Sprintf("store %s, %s fault #%d (%s) during %s (result %s); restart from the synced state afterwards: %s",
			st.Name, mode, k, cr.Site, cr.Step, cr.Result, f.Desc)
		return cr, teardown
	}
	cr.After = class
	return cr, teardown
}

// childSpec selects the work of one child process.
type childSpec struct {
	Store string `json:"store"`
	Mode  string `json:"mode"`
	K0    int    `json:"k0"`
	K1    int    `json:"k1"`
	Out   string `json:"out"`
}

// ChildMain is run by the Test function when VERIF_C10_CHILD is set. A child
// handles fault ordinals k0..k1-1 in sequence and appends one JSON line per
// case; a panic in a background goroutine of the store kills it (that is a
// legitimate way of failing a save), the parent then restarts behind it.
func ChildMain(stores []*Store, spec string) {
	var cs childSpec
	if err := json.Unmarshal([]byte(spec), &cs); err != nil {
		panic(err)
	}
	var st *Store
	for _, s := range stores {
		if s.Name == cs.Store {
			st = s
		}
	}
	if st == nil {
		panic("unknown store " + cs.Store)
	}
	Quiet()
	f, err := os.OpenFile(cs.Out, os.O_CREATE|os.O_WRONLY|os.O_APPEND, 0644)
	if err != nil {
		panic(err)
	}
	defer f.Close()
	emit := func(cr caseResult) {
		b, _ := json.Marshal(cr)
		_, _ = f.Write(append(b, '\n'))
	}
	for k := cs.K0; k < cs.K1; k++ {
		emit(caseResult{K: k, Result: "started"})
		done := make(chan caseResult, 1)
		var teardown func()
		go func(k int) {
			cr, td := errCase(st, cs.Mode, k)
			teardown = td
			done <- cr
		}(k)
		select {
		case cr := <-done:
			emit(cr)
			tdone := make(chan struct{})
			go func() { teardown(); close(tdone) }()
			select {
			case <-tdone:
			case <-time.After(20 * time.Second): // a wedged Close after a fault: start over in a fresh process
				_ = f.Close()
				os.Exit(4)
			}
		case <-time.After(60 * time.Second):
			emit(caseResult{K: k, Hang: true})
			_ = f.Close()
			os.Exit(3)
		}
	}
}

// runChild runs fault ordinals [k0,k1) of (store, mode) in child processes and
// returns one result per ordinal (process deaths included).
func runChild(c *Ctx, st *Store, mode string, k0, k1 int, tag string) []caseResult {
	work := os.Getenv("VERIF_WORK")
	if work == "" {
		work = os.TempDir()
	}
	out := []caseResult{}
	attempt := 0
	for k0 < k1 {
		attempt++
		outp := filepath.Join(work, fmt.Sprintf("c10_%s_%s_%s_%d_%d.jsonl", st.Name, mode, tag, k0, attempt))
		_ = os.Remove(outp)
		spec, _ := json.Marshal(childSpec{Store: st.Name, Mode: mode, K0: k0, K1: k1, Out: outp})
		cmd := exec.Command(os.Args[0], "-test.run", "^"+c.Test+"$", "-test.count", "1", "-test.timeout", "0")
		env := []string{}
		for _, e := range os.Environ() {
			if strings.HasPrefix(e, "VERIF_OUT=") || strings.HasPrefix(e, "VERIF_REPLAY=") || strings.HasPrefix(e, "GOMAXPROCS=") ||
				strings.HasPrefix(e, "VERIF_C10_CHILD=") {
				continue
			}
			env = append(env, e)
		}
		cmd.Env = append(env, "VERIF_C10_CHILD="+string(spec), "GOMAXPROCS=2")
		var tailBuf tailWriter
		cmd.Stdout = &tailBuf
		cmd.Stderr = &tailBuf
		runErr := cmd.Run()
		// parse
		started := -1
		finished := map[int]bool{}
		if f, err := os.Open(outp); err == nil {
			sc := bufio.NewScanner(f)
			sc.Buffer(make([]byte, 1<<20), 1<<24)
			for sc.Scan() {
				var cr caseResult
				if json.Unmarshal(sc.Bytes(), &cr) != nil {
					continue
				}
				if cr.Result == "started" {
					started = cr.K
					continue
				}
				finished[cr.K] = true
				out = append(out, cr)
			}
			f.Close()
			_ = os.Remove(outp)
		}
		if runErr == nil && len(finished) >= k1-k0 {
			break
		}
		if started < 0 {
			// the child died before its first case: harness problem
			panic(fmt.Sprintf("C10 child for %s/%s [%d,%d) failed outside a case: %v\n%s", st.Name, mode, k0, k1, runErr, tailBuf.String()))
		}
		// died after the result of case `started` was recorded (during the
		// teardown of the broken store): nothing is lost, continue behind it
		if !finished[started] {
			t := tailBuf.String()
			cr := caseResult{K: started, Reached: true, Result: "process-died"}
			if strings.Contains(t, "injected") {
				cr.Site = "died: " + panicLine(t)
			} else {
				cr.Site = "died-unrelated: " + panicLine(t)
			}
			out = append(out, cr)
		}
		k0 = started + 1
	}
	return out
}

func panicLine(t string) string {
	for _, l := range strings.Split(t, "\n") {
		if strings.HasPrefix(l, "panic:") {
			return firstLine(l)
		}
	}
	return firstLine(t)
}

type tailWriter struct {
	mu  sync.Mutex
	buf []byte
}

func (t *tailWriter) Write(p []byte) (int, error) {
	t.mu.Lock()
	t.buf = append(t.buf, p...)
	if len(t.buf) > 64*1024 {
		// keep head (where "panic:" is) and tail
		t.buf = append(t.buf[:32*1024], t.buf[len(t.buf)-16*1024:]...)
	}
	t.mu.Unlock()
	return len(p), nil
}
func (t *tailWriter) String() string { t.mu.Lock(); defer t.mu.Unlock(); return string(t.buf) }

// ErrMode enumerates every fault ordinal of one fault-free run (plus slack,
// because background goroutines make the number of FS operations vary a
// little between runs) and runs each in a child process.
func ErrMode(c *Ctx, st *Store, mode string) {
	var inj *KVInjector
	if mode == "errkv" {
		inj = NewKVInjector()
	}
	r, f := runClean(st, inj)
	if f != nil {
		c.report(f)
		return
	}
	n := r.fs.Mutations() - r.base
	if mode == "errkv" {
		n = inj.Calls()
	}
	limit := n + n/10 + 8
	chunk := 12
	type job struct{ k0, k1 int }
	jobs := []job{}
	for k := 0; k < limit; k += chunk {
		e := k + chunk
		if e > limit {
			e = limit
		}
		jobs = append(jobs, job{k, e})
	}
	var next int64 = -1
	var wg sync.WaitGroup
	var mu sync.Mutex
	results := []caseResult{}
	workers := runtime.GOMAXPROCS(0)
	for w := 0; w < workers; w++ {
		wg.Add(1)
		go func() {
			defer wg.Done()
			for {
				i := int(atomic.AddInt64(&next, 1))
				if i >= len(jobs) {
					return
				}
				if c.Run.Expired() {
					c.Res.Cap("deadline reached in " + mode + " mode of " + st.Name)
					return
				}
				rs := runChild(c, st, mode, jobs[i].k0, jobs[i].k1, "x")
				mu.Lock()
				results = append(results, rs...)
				mu.Unlock()
			}
		}()
	}
	wg.Wait()
	var reached, died, hang, viol int64
	maxTotal := 0
	for _, cr := range results {
		if cr.Total > maxTotal {
			maxTotal = cr.Total
		}
		if cr.Hang {
			hang++
			c.Res.Outcome(fmt.Sprintf("%s|%s|hang", st.Name, mode))
			c.report(&finding{Key: fmt.Sprintf("C10:%s:%s fault makes the store hang", st.Name, mode),
				Desc:   fmt.Sprintf("store %s, %s fault #%d: the workload did not finish within 60s", st.Name, mode, cr.K),
				Replay: Replay{Mode: mode, Store: st.Name, K: cr.K}})
			continue
		}
		if !cr.Reached {
			c.Res.Outcome(fmt.Sprintf("%s|%s|fault ordinal beyond the run", st.Name, mode))
			continue
		}
		reached++
		atomic.AddInt64(&c.Res.Evaluations, 1)
		atomic.AddInt64(&c.Res.DistinctNontrivial, 1)
		if cr.Result == "process-died" {
			died++
			cls := "injected error"
			if strings.HasPrefix(cr.Site, "died-unrelated") {
				cls = "other panic: " + cr.Site
			}
			c.Res.Outcome(fmt.Sprintf("%s|%s|process died by panic in a background goroutine (%s)", st.Name, mode, cls))
			continue
		}
		c.Res.Outcome(fmt.Sprintf("%s|%s|%s|during %s|%s|then %s", st.Name, mode, cr.Site, cr.Kind, cr.Result, cr.After))
		c.Res.Sample(2, map[string]interface{}{"store": st.Name, "mode": mode, "fault": cr.K, "site": cr.Site,
			"during": cr.Step, "result": cr.Result, "after_restart": cr.After})
		if cr.VKey != "" {
			viol++
			c.report(&finding{Key: cr.VKey, Desc: cr.VDesc,
				Replay: Replay{Mode: mode, Store: st.Name, K: cr.K, Site: cr.Site, Step: cr.Step}})
		}
	}
	// the number of FS operations varies a little between runs; the enumeration
	// is complete when it ran past the end: the highest ordinals tried were not
	// reached by their runs any more
	past := 0
	for _, cr := range results {
		if cr.K >= limit-3 && !cr.Reached && !cr.Hang {
			past++
		}
	}
	if past < 3 {
		c.Res.Cap(fmt.Sprintf("%s %s: fault ordinals up to %d did not run past the end of the workload (clean run had %d)", st.Name, mode, limit, n))
	}
	c.extra(st.Name+"."+mode+".fault_points_clean_run", int64(n))
	c.extra(st.Name+"."+mode+".fault_points_exercised", reached)
	c.extra(st.Name+"."+mode+".process_deaths", died)
	c.extra(st.Name+"."+mode+".hangs", hang)
	c.extra(st.Name+"."+mode+".violating_cases", viol)
}

// ReplayErr re-runs one fault case in a child. FS operation ordinals are not
// stable across runs (background goroutines), so when ordinal K does not hit
// the recorded site class the neighbours K-12..K+12 are tried as well.
func ReplayErr(c *Ctx, st *Store, rp Replay) {
	try := func(k int) bool {
		if k < 0 {
			return false
		}
		for _, cr := range runChild(c, st, rp.Mode, k, k+1, fmt.Sprintf("r%d", k)) {
			atomic.AddInt64(&c.Res.Evaluations, 1)
			if cr.VKey != "" {
				c.report(&finding{Key: cr.VKey, Desc: cr.VDesc,
					Replay: Replay{Mode: rp.Mode, Store: st.Name, K: cr.K, Site: cr.Site, Step: cr.Step}})
				return true
			}
			if cr.Hang {
				c.report(&finding{Key: fmt.Sprintf("C10:%s:%s fault makes the store hang", st.Name, rp.Mode), Desc: "hang", Replay: rp})
				return true
			}
		}
		return false
	}
	if try(rp.K) {
		return
	}
	for d := 1; d <= 12; d++ {
		if try(rp.K-d) || try(rp.K+d) {
			return
		}
	}
}

// ------------------------------------------------------------------ main

// Main is the worker entry: work items are (store, mode) pairs, sharded with
// run.Mine; inside an item the crash points / fault ordinals are spread over
// GOMAXPROCS goroutines (crash mode) or child processes (error modes).
func Main(c *Ctx, stores []*Store) {
	Quiet()
	c.Res.MaxViolations = 40
	c.Res.Rule = "crash mode: one fault-free run of the fixed workload per store on a journaling FS; a case is (journal prefix ending in an applied mutating FS op or an acknowledgement mark) x (crash image: all unsynced state dropped | nothing dropped | torn last write | every subset of <=4 dirty files/dirs kept), reopened through the real open path and compared with the model of acknowledged calls; depth 2: the journaled recovery run on each distinct image is itself cut at every prefix and reopened again; distinct = distinct (image content hash, acknowledged calls), all are non-trivial (beyond the harness' own directory setup). error modes: one workload run per fault point k (k-th mutating FS operation, resp. k-th IKVStore call) with exactly that operation failing, followed by a restart from the synced state; every reached k is a distinct case."
	c.Res.Assumptions = append(c.Res.Assumptions,
		"crash images follow the lni/vfs strict MemFS model: unsynced file data and unsynced directory entries are lost as a whole per file/directory (plus torn last write); no reordering inside a single synced file",
		"a hard state update that changes only Commit (no entries, no snapshot, same Term and Vote) is allowed to be lost by a crash: Tan deliberately does not fsync it and raft treats the commit index as volatile; Term/Vote, entries and snapshot records of acknowledged saves must survive",
		"entries at or below max(snapshot index, RemoveEntriesTo index) may or may not be readable after recovery (FirstIndex conventions of the stores differ); everything above must be",
		"a failed FS operation has no effect and only that one operation fails (one-shot fault); a panic in a background goroutine of the store (process death) counts as failing by panic",
	)
	byName := map[string]*Store{}
	for _, s := range stores {
		byName[s.Name] = s
	}
	if c.Run.Replay != "" {
		var rp Replay
		c.Run.LoadReplay(&rp)
		st := byName[rp.Store]
		if st == nil {
			return // belongs to the other part's binary
		}
		switch rp.Mode {
		case "crash":
			ReplayCrash(c, st, rp)
		case "errfs", "errkv":
			ReplayErr(c, st, rp)
		case "clean":
			if _, f := runClean(st, nil); f != nil {
				c.report(f)
			}
		}
		return
	}
	// work items: crash items first so that they spread evenly over the shards
	type workItem struct {
		st   *Store
		mode string
	}
	items := []workItem{}
	for _, m := range []string{"crash", "errfs", "errkv"} {
		for _, st := range stores {
			if m == "errkv" && !st.KV {
				continue
			}
			items = append(items, workItem{st, m})
		}
	}
	for i, it := range items {
		if !c.Run.Mine(uint64(i)) {
			continue
		}
		if c.Run.Expired() {
			c.Res.Cap("deadline reached before " + it.st.Name + "/" + it.mode)
			continue
		}
		if it.mode == "crash" {
			CrashMode(c, it.st)
		} else {
			ErrMode(c, it.st, it.mode)
		}
	}
}
