//go:build verif

// C10, Tan part: the Tan log store in regular (one log per replica) and
// multiplexed mode behind the real factories CreateTan /
// CreateLogMultiplexedTan, on a journaling FS (crash-point enumeration) and
// with FS faults. White-box only for forcing a log rollover.
package tan

import (
	"os"
	"testing"

	"github.com/lni/dragonboat/v4/config"
	"github.com/lni/dragonboat/v4/internal/verifc10"
	"github.com/lni/dragonboat/v4/internal/verifkit"
	"github.com/lni/dragonboat/v4/raftio"
	"github.com/lni/vfs"
)

func c10TanConfig(fs vfs.FS) config.NodeHostConfig {
	expert := config.GetDefaultExpertConfig()
	expert.LogDB = config.GetTinyMemLogDBConfig()
	expert.LogDB.KVWriteBufferSize = 64 * 1024 // Tan allocates 16 of these per open
	expert.FS = fs
	return config.NodeHostConfig{Expert: expert}
}

func c10OpenTan(regular bool) func(fs vfs.FS, inj *verifc10.KVInjector) (raftio.ILogDB, error) {
	return func(fs vfs.FS, _ *verifc10.KVInjector) (raftio.ILogDB, error) {
		cfg := c10TanConfig(fs)
		var db *LogDB
		var err error
		if regular {
			db, err = CreateTan(cfg, nil, []string{verifc10.DirData}, nil)
		} else {
			db, err = CreateLogMultiplexedTan(cfg, nil, []string{verifc10.DirData}, nil)
		}
		if err != nil {
			return nil, err // typed nil must not leak into the interface
		}
		return db, nil
	}
}

// c10TanHook forces / stops log rollover of the tan db holding rep: with
// MaxLogFileSize 1 every write to a non-empty log first switches to a new log
// file (index saved, new log created, manifest edited).
func c10TanHook(ldb raftio.ILogDB, name string, rep verifc10.Rep) {
	d, err := ldb.(*LogDB).getDB(rep.Shard, rep.Replica)
	if err != nil {
		panic(err)
	}
	if name == "delete-obsolete" {
		// what the background delete worker does when it gets to run (it is
		// notified by every compaction; here one run of it is placed at a fixed
		// point of the workload so that its file removals are in the journal)
		if err := d.deleteObsoleteFiles(); err != nil {
			panic(err)
		}
		return
	}
	d.mu.Lock()
	defer d.mu.Unlock()
	switch name {
	case "rollover-on":
		d.opts.MaxLogFileSize = 1
	case "rollover-off":
		d.opts.MaxLogFileSize = MaxLogFileSize
	default:
		panic("unknown hook " + name)
	}
}

func c10TanStores() []*verifc10.Store {
	return []*verifc10.Store{
		{Name: "tan-regular", Family: "tan", Open: c10OpenTan(true), Hook: c10TanHook},
		{Name: "tan-multiplexed", Family: "tan", Open: c10OpenTan(false), Hook: c10TanHook},
	}
}

func TestVerifC10Tan(t *testing.T) {
	stores := c10TanStores()
	if spec := os.Getenv("VERIF_C10_CHILD"); spec != "" {
		verifc10.ChildMain(stores, spec)
		return
	}
	run := verifkit.Env()
	res := verifkit.NewResult()
	defer run.Finish(res)
	verifc10.Main(&verifc10.Ctx{Run: run, Res: res, Test: "TestVerifC10Tan"}, stores)
}
