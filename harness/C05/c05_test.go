//go:build verif

// C05: client sessions give at-most-once application of retried proposals.
//
// Exhaustive enumeration of ALL operation sequences up to a depth over a
// log-level alphabet (register / unregister / next / retry / late duplicate /
// noop-session proposal / snapshot+restore) on the REAL rsm.StateMachine with
// its SessionManager/lrusession (LRUMaxSessionCount = 2) and a recording user
// state machine behind the real NativeSM wrappers, compared after every step
// with a small reference model (map + explicit LRU list + per session
// history) and, after every snapshot cut, with the restored twins (fresh
// StateMachines restored from the snapshot) and with the LAGGING replicas
// (running StateMachines that had applied only a prefix 1..j of the entry
// stream, for every j below the snapshot index, and were then caught up by
// installing the snapshot through the real non-initial Recover path).
package rsm

import (
	"bytes"
	"errors"
	"fmt"
	"io"
	"sort"
	"sync"
	"sync/atomic"
	"testing"

	"github.com/lni/dragonboat/v4/client"
	"github.com/lni/dragonboat/v4/config"
	"github.com/lni/dragonboat/v4/internal/verifkit"
	"github.com/lni/dragonboat/v4/logger"
	pb "github.com/lni/dragonboat/v4/raftpb"
	sm "github.com/lni/dragonboat/v4/statemachine"
)

// ---------------------------------------------------------------- user SM

// c05Core records every command the user state machine was asked to apply.
// The result of an update depends on the number of updates applied so far, so
// a second application of a command can never reproduce the first result.
type c05Core struct {
	log [][]byte
}

func (k *c05Core) apply(cmd []byte) sm.Result {
	k.log = append(k.log, append([]byte(nil), cmd...))
	return c05Result(len(k.log), cmd)
}

// c05Result is the result of the n-th update. The commands of the second
// client slot are "puts": their result is empty (Value 0, no Data), as a user
// state machine is free to return; a duplicate application of one of them shows
// in the content of the user state machine only.
func c05Result(n int, cmd []byte) sm.Result {
	if len(cmd) == 3 && cmd[0] == 'P' && cmd[1]/16 == 2 {
		return sm.Result{}
	}
	return sm.Result{Value: uint64(n), Data: append([]byte{byte(n)}, cmd...)}
}

func c05SaveLog(w io.Writer, log [][]byte) error {
	hdr := []byte{byte(len(log) >> 8), byte(len(log))}
	if _, err := w.Write(hdr); err != nil {
		return err
	}
	for _, c := range log {
		if _, err := w.Write(append([]byte{byte(len(c))}, c...)); err != nil {
			return err
		}
	}
	return nil
}

func (k *c05Core) recoverFrom(r io.Reader) error {
	hdr := make([]byte, 2)
	if _, err := io.ReadFull(r, hdr); err != nil {
		return err
	}
	n := int(hdr[0])<<8 | int(hdr[1])
	k.log = nil
	for i := 0; i < n; i++ {
		l := make([]byte, 1)
		if _, err := io.ReadFull(r, l); err != nil {
			return err
		}
		c := make([]byte, int(l[0]))
		if _, err := io.ReadFull(r, c); err != nil {
			return err
		}
		k.log = append(k.log, c)
	}
	return nil
}

// regular sm.IStateMachine
type c05Reg struct{ c05Core }

func (s *c05Reg) Update(e sm.Entry) (sm.Result, error)    { return s.apply(e.Cmd), nil }
func (s *c05Reg) Lookup(interface{}) (interface{}, error) { return len(s.log), nil }
func (s *c05Reg) Close() error                            { return nil }
func (s *c05Reg) SaveSnapshot(w io.Writer, _ sm.ISnapshotFileCollection, _ <-chan struct{}) error {
	return c05SaveLog(w, s.log)
}
func (s *c05Reg) RecoverFromSnapshot(r io.Reader, _ []sm.SnapshotFile, _ <-chan struct{}) error {
	return s.recoverFrom(r)
}

// sm.IConcurrentStateMachine
type c05Con struct{ c05Core }

var c05BatchedCalls, c05BatchedEntries int64

func (s *c05Con) Update(ents []sm.Entry) ([]sm.Entry, error) {
	if len(ents) > 1 {
		atomic.AddInt64(&c05BatchedCalls, 1)
		atomic.AddInt64(&c05BatchedEntries, int64(len(ents)))
	}
	for i := range ents {
		ents[i].Result = s.apply(ents[i].Cmd)
	}
	return ents, nil
}
func (s *c05Con) Lookup(interface{}) (interface{}, error) { return len(s.log), nil }
func (s *c05Con) Close() error                            { return nil }
func (s *c05Con) PrepareSnapshot() (interface{}, error) {
	return append([][]byte(nil), s.log...), nil
}
func (s *c05Con) SaveSnapshot(ctx interface{}, w io.Writer, _ sm.ISnapshotFileCollection, _ <-chan struct{}) error {
	return c05SaveLog(w, ctx.([][]byte))
}
func (s *c05Con) RecoverFromSnapshot(r io.Reader, _ []sm.SnapshotFile, _ <-chan struct{}) error {
	return s.recoverFrom(r)
}

// ---------------------------------------------------------------- node + snapshotter

type c05CB struct {
	index    uint64
	res      sm.Result
	rejected bool
	ignored  bool
}

type c05Node struct{ cbs []c05CB }

func (n *c05Node) StepReady()                       {}
func (n *c05Node) RestoreRemotes(pb.Snapshot) error { return nil }
func (n *c05Node) ReplicaID() uint64                { return 1 }
func (n *c05Node) ShardID() uint64                  { return 1 }
func (n *c05Node) ShouldStop() <-chan struct{}      { return nil }
func (n *c05Node) ApplyConfigChange(pb.ConfigChange, uint64, bool) error {
	panic("no config change in C05")
}
func (n *c05Node) ApplyUpdate(e pb.Entry, r sm.Result, rejected bool, ignored bool, _ bool) {
	r.Data = append([]byte(nil), r.Data...)
	n.cbs = append(n.cbs, c05CB{index: e.Index, res: r, rejected: rejected, ignored: ignored})
}

var c05ErrNoSnapshot = errors.New("c05: no snapshot")

// c05Snap is an in-memory ISnapshotter: the container file format is C14's
// subject; everything between StateMachine.Save/Recover and the byte stream
// (SaveSessions, NativeSM.Save, LoadSessions, NativeSM.Recover) is real.
type c05Snap struct {
	ss   pb.Snapshot
	data []byte
}

func (s *c05Snap) GetSnapshot() (pb.Snapshot, error) {
	if s.ss.Index == 0 {
		return pb.Snapshot{}, c05ErrNoSnapshot
	}
	return s.ss, nil
}
func (s *c05Snap) Stream(IStreamable, SSMeta, pb.IChunkSink) error { panic("not used") }
func (s *c05Snap) Shrunk(pb.Snapshot) (bool, error)                { return false, nil }
func (s *c05Snap) IsNoSnapshotError(err error) bool                { return err == c05ErrNoSnapshot }
func (s *c05Snap) Save(savable ISavable, meta SSMeta) (pb.Snapshot, SSEnv, error) {
	buf := &bytes.Buffer{}
	if _, err := savable.Save(meta, buf, meta.Session.Bytes(), nil); err != nil {
		return pb.Snapshot{}, SSEnv{}, err
	}
	s.data = append([]byte(nil), buf.Bytes()...)
	s.ss = pb.Snapshot{Filepath: "mem", Index: meta.Index, Term: meta.Term,
		Membership: meta.Membership, Type: meta.Type}
	return s.ss, SSEnv{}, nil
}
func (s *c05Snap) Load(ss pb.Snapshot, loadable ILoadable, recoverable IRecoverable) error {
	r := bytes.NewReader(s.data)
	if err := loadable.LoadSessions(r, DefaultVersion); err != nil {
		return err
	}
	return recoverable.Recover(r, nil)
}

// ---------------------------------------------------------------- replica

type c05Rep struct {
	sm       *StateMachine
	core     *c05Core
	node     *c05Node
	snap     *c05Snap
	base     uint64 // index of the snapshot this replica was restored from
	overlap  bool   // next delivery re-sends the last entry covered by the snapshot
	lastSave uint64 // index of the last snapshot saved by this replica
	cbNext   int    // callbacks consumed by the oracle
	checked  uint64 // entries consumed by the oracle
	pending  []pb.Entry
	tasks    []Task
	apply    []sm.Entry
	label    string
	// lagging replica only: the session ids its table held when the snapshot
	// was installed and that the snapshot does not contain
	stale [c05LRULimit]uint64
}

func c05NewRep(mode int) *c05Rep {
	cfg := config.Config{ShardID: 1, ReplicaID: 1}
	r := &c05Rep{node: &c05Node{}, snap: &c05Snap{}}
	var managed IManagedStateMachine
	if mode == 0 {
		u := &c05Reg{}
		r.core = &u.c05Core
		managed = NewNativeSM(cfg, NewInMemStateMachine(u), nil)
	} else {
		u := &c05Con{}
		r.core = &u.c05Core
		managed = NewNativeSM(cfg, NewConcurrentStateMachine(u), nil)
	}
	r.sm = NewStateMachine(managed, r.snap, cfg, r.node, nil)
	return r
}

// ---------------------------------------------------------------- reference model

const (
	c05Applied = iota + 1
	c05Cached
	c05Ignored
	c05RejUnknown // no session with that id (never registered / unregistered / evicted)
	c05Registered
	c05Unregistered
	c05UnregRejected
	c05NoopApplied
)

var c05KindName = map[int]string{c05Applied: "applied", c05Cached: "cached", c05Ignored: "ignored",
	c05RejUnknown: "rejected", c05Registered: "registered", c05Unregistered: "unregistered",
	c05UnregRejected: "unregister-rejected", c05NoopApplied: "noop-applied"}

type c05MSess struct {
	id        uint64
	responded uint64
	hist      map[uint64]sm.Result
}

type c05Model struct {
	cap       int
	lru       []*c05MSess // [0] = most recently used
	smlog     [][]byte
	evictions int
}

func (m *c05Model) find(id uint64) int {
	for i, s := range m.lru {
		if s.id == id {
			return i
		}
	}
	return -1
}

func (m *c05Model) touch(i int) *c05MSess {
	s := m.lru[i]
	copy(m.lru[1:i+1], m.lru[:i])
	m.lru[0] = s
	return s
}

func (m *c05Model) applySM(cmd []byte) sm.Result {
	m.smlog = append(m.smlog, append([]byte(nil), cmd...))
	return c05Result(len(m.smlog), cmd)
}

type c05Exp struct {
	kind   int
	res    sm.Result
	id     uint64
	series uint64
	why    string
}

func (m *c05Model) register(id uint64) c05Exp {
	if m.find(id) >= 0 {
		panic("harness: ids are never reused")
	}
	m.lru = append([]*c05MSess{{id: id, hist: map[uint64]sm.Result{}}}, m.lru...)
	if len(m.lru) > m.cap {
		m.lru = m.lru[:m.cap]
		m.evictions++
	}
	return c05Exp{kind: c05Registered, res: sm.Result{Value: id}, id: id}
}

func (m *c05Model) unregister(id uint64) c05Exp {
	i := m.find(id)
	if i < 0 {
		return c05Exp{kind: c05UnregRejected, id: id}
	}
	m.lru = append(m.lru[:i:i], m.lru[i+1:]...)
	return c05Exp{kind: c05Unregistered, res: sm.Result{Value: id}, id: id}
}

func (m *c05Model) propose(id, series, respondedTo uint64, cmd []byte) c05Exp {
	i := m.find(id)
	if i < 0 {
		return c05Exp{kind: c05RejUnknown, id: id, series: series}
	}
	s := m.touch(i)
	if respondedTo > s.responded {
		s.responded = respondedTo
		for k := range s.hist {
			if k <= respondedTo {
				delete(s.hist, k)
			}
		}
	}
	if series <= s.responded {
		return c05Exp{kind: c05Ignored, id: id, series: series}
	}
	if r, ok := s.hist[series]; ok {
		return c05Exp{kind: c05Cached, res: r, id: id, series: series}
	}
	r := m.applySM(cmd)
	s.hist[series] = r
	return c05Exp{kind: c05Applied, res: r, id: id, series: series}
}

// ---------------------------------------------------------------- instance

const (
	c05OpRegister = iota + 1
	c05OpUnregister
	c05OpNext
	c05OpRetry
	c05OpLateDup
	c05OpNoop
	c05OpSnap
	c05OpSkip
)

const (
	c05Clients  = 3
	c05MaxReps  = 4
	c05NoopID   = 0x7f
	c05LRULimit = 2
	// a snapshot at index S is also installed on running replicas that have
	// applied 1..j for every S-c05MaxLag <= j < S; 0 = every j in [0, S)
	c05MaxLag = 0
)

type c05Sent struct{ series, respondedTo uint64 }

type c05Client struct {
	holds     bool
	inc       int
	id        uint64
	series    uint64
	responded uint64
	sent      []c05Sent
}

// candidates for a late duplicate: every proposal sent by the current (or
// last) incarnation except the outstanding series (that one is "retry"),
// highest series first.
func (c *c05Client) dupCandidates() []c05Sent {
	var out []c05Sent
	for i := len(c.sent) - 1; i >= 0; i-- {
		if c.holds && c.sent[i].series == c.series {
			continue
		}
		out = append(out, c.sent[i])
	}
	return out
}

type c05 struct {
	mode    int
	reps    []*c05Rep // [0] primary, then the twins restored into FRESH StateMachines
	lags    []*c05Rep // lagging replicas that installed a snapshot while running
	every   []*c05Rep // reps and lags in creation order
	model   c05Model
	clients [c05Clients]c05Client
	index   uint64
	noops   int
	exp     []c05Exp   // by entry index (exp[0] unused)
	log     []pb.Entry // by entry index (log[0] unused)
	// session ids in the model's table after entry i (0 = free slot)
	sessAt [][c05LRULimit]uint64
	// number of user SM updates the model has seen after entry i
	smAt []int
	first   map[[2]uint64]sm.Result
	// statistics of this path
	nontrivial bool
	cutUsed    bool
	skipCheck  bool       // prefix already checked by an earlier sequence
	outcomes   [][]string // per step
}

func (c *c05) outcome(o string) {
	c.outcomes[len(c.outcomes)-1] = append(c.outcomes[len(c.outcomes)-1], o)
}

func c05New(mode int) *c05 {
	c := &c05{mode: mode, model: c05Model{cap: c05LRULimit}, first: map[[2]uint64]sm.Result{}}
	c.exp = make([]c05Exp, 1, 8)
	c.log = make([]pb.Entry, 1, 8)
	c.sessAt = make([][c05LRULimit]uint64, 1, 8)
	c.smAt = make([]int, 1, 8)
	p := c05NewRep(mode)
	p.sm.members.set(pb.Membership{Addresses: map[uint64]string{1: "a1"}})
	p.label = "replica 0"
	c.reps = []*c05Rep{p}
	c.every = []*c05Rep{p}
	return c
}

func c05Ev(kind, arg uint32) uint32 { return kind<<8 | arg }

func c05Describe(e uint32) string {
	k, a := e>>8, e&0xff
	switch k {
	case c05OpRegister:
		return fmt.Sprintf("register(c%d)", a)
	case c05OpUnregister:
		return fmt.Sprintf("unregister(c%d)", a)
	case c05OpNext:
		return fmt.Sprintf("next(c%d)", a)
	case c05OpRetry:
		return fmt.Sprintf("retry(c%d)", a)
	case c05OpLateDup:
		return fmt.Sprintf("late-dup(c%d,k=%d)", a&0xf, a>>4)
	case c05OpNoop:
		return "noop-proposal"
	case c05OpSkip:
		return fmt.Sprintf("abandon(c%d)", a)
	case c05OpSnap:
		return []string{"snapshot(primary)+restore", "snapshot(newest twin)+restore"}[a]
	}
	return fmt.Sprint(e)
}

func (c *c05) Enabled() []uint32 {
	out := make([]uint32, 0, 24)
	for i := uint32(0); i < c05Clients; i++ {
		out = append(out, c05Ev(c05OpRegister, i))
	}
	for i := uint32(0); i < c05Clients; i++ {
		if c.clients[i].holds {
			out = append(out, c05Ev(c05OpNext, i), c05Ev(c05OpRetry, i), c05Ev(c05OpSkip, i), c05Ev(c05OpUnregister, i))
		}
	}
	for i := uint32(0); i < c05Clients; i++ {
		n := len(c.clients[i].dupCandidates())
		for k := uint32(1); k <= 2 && int(k) <= n; k++ {
			out = append(out, c05Ev(c05OpLateDup, i|k<<4))
		}
	}
	out = append(out, c05Ev(c05OpNoop, 0))
	if len(c.reps) < c05MaxReps && c.index > 0 {
		if c.index > c.reps[0].lastSave {
			out = append(out, c05Ev(c05OpSnap, 0))
		}
		if len(c.reps) > 1 && c.index > c.reps[len(c.reps)-1].lastSave {
			out = append(out, c05Ev(c05OpSnap, 1))
		}
	}
	return out
}

func (c *c05) entry(id, series, respondedTo uint64, cmd []byte) pb.Entry {
	c.index++
	return pb.Entry{Type: pb.ApplicationEntry, Index: c.index, Term: 1,
		ClientID: id, SeriesID: series, RespondedTo: respondedTo, Cmd: cmd}
}

func c05Cmd(id, series uint64) []byte { return []byte{'P', byte(id), byte(series)} }

// Step applies one event; "" = ok.
func (c *c05) Step(ev uint32) (msg string) {
	defer func() {
		if r := recover(); r != nil {
			msg = fmt.Sprintf("panic in %s: %v", c05Describe(ev), r)
		}
	}()
	k, a := ev>>8, ev&0xff
	var e pb.Entry
	var x c05Exp
	c.outcomes = append(c.outcomes, nil)
	switch k {
	case c05OpRegister:
		cl := &c.clients[a]
		cl.inc++
		if cl.inc > 15 {
			panic("harness: too many incarnations")
		}
		*cl = c05Client{holds: true, inc: cl.inc, id: uint64(a+1)*16 + uint64(cl.inc), series: client.SeriesIDFirstProposal}
		e = c.entry(cl.id, client.SeriesIDForRegister, 0, nil)
		before := c.model.evictions
		x = c.model.register(cl.id)
		if c.model.evictions > before {
			c.nontrivial = true
			c.outcome("eviction")
		}
	case c05OpUnregister:
		cl := &c.clients[a]
		cl.holds = false
		e = c.entry(cl.id, client.SeriesIDForUnregister, 0, nil)
		x = c.model.unregister(cl.id)
	case c05OpNext, c05OpRetry:
		cl := &c.clients[a]
		if n := len(cl.sent); n == 0 || cl.sent[n-1].series != cl.series {
			cl.sent = append(cl.sent, c05Sent{cl.series, cl.responded})
		}
		cmd := c05Cmd(cl.id, cl.series)
		e = c.entry(cl.id, cl.series, cl.responded, cmd)
		x = c.model.propose(cl.id, cl.series, cl.responded, cmd)
		if k == c05OpNext {
			// client/session.pb.go ProposalCompleted
			cl.responded = cl.series
			cl.series++
		}
	case c05OpSkip:
		// the client proposed its current series, the proposal did not make it
		// into the log (yet: it may still arrive as a late duplicate), the
		// client gave up on it and moved on (ProposalCompleted after an abort)
		cl := &c.clients[a]
		if n := len(cl.sent); n == 0 || cl.sent[n-1].series != cl.series {
			cl.sent = append(cl.sent, c05Sent{cl.series, cl.responded})
		}
		cl.responded = cl.series
		cl.series++
		c.outcome("abandoned")
		return ""
	case c05OpLateDup:
		cl := &c.clients[a&0xf]
		s := cl.dupCandidates()[(a>>4)-1]
		cmd := c05Cmd(cl.id, s.series)
		e = c.entry(cl.id, s.series, s.respondedTo, cmd)
		x = c.model.propose(cl.id, s.series, s.respondedTo, cmd)
	case c05OpNoop:
		c.noops++
		cmd := []byte{'N', byte(c.noops)}
		e = c.entry(c05NoopID, client.NoOPSeriesID, 0, cmd)
		x = c05Exp{kind: c05NoopApplied, res: c.model.applySM(cmd), id: c05NoopID}
	case c05OpSnap:
		return c.snapshot(int(a))
	default:
		panic("harness: unknown op")
	}
	if x.kind == c05Cached || x.kind == c05Ignored || x.kind == c05RejUnknown || x.kind == c05UnregRejected {
		c.nontrivial = true
	}
	if len(c.reps) > 1 {
		c.cutUsed = true
	}
	c.outcome(c05KindName[x.kind])
	if len(c.reps) > 1 {
		c.outcome(c05KindName[x.kind] + "-after-cut")
	}
	c.exp = append(c.exp, x)
	c.log = append(c.log, e)
	var ids [c05LRULimit]uint64
	for i, s := range c.model.lru {
		ids[i] = s.id
	}
	c.sessAt = append(c.sessAt, ids)
	c.smAt = append(c.smAt, len(c.model.smlog))
staleScan:
	for _, r := range c.lags {
		for _, id := range r.stale {
			if id != 0 && id == e.ClientID {
				// the manifesting scenario of a merged (instead of replaced) session
				// table: an entry of a client whose session is gone everywhere but
				// was still known to a lagging replica when it installed the snapshot
				c.outcome(c05KindName[x.kind] + ":client-dropped-in-the-gap-of-a-lagging-replica")
				break staleScan
			}
		}
	}
	for _, r := range c.every {
		r.pending = append(r.pending, e)
	}
	if c.mode == 0 {
		return c.flush()
	}
	return ""
}

// deliver hands entries to the real StateMachine of one replica through the
// task queue and Handle (mode 0: one entry per task and Handle call; mode 1:
// one task per maximal run of noop-session / session-managed entries, one
// Handle call), then checks the completions of every entry up to upto.
func (c *c05) deliver(r *c05Rep, ents []pb.Entry, upto uint64) string {
	if c.mode == 0 {
		r.sm.taskQ.Add(Task{Entries: ents})
	} else {
		start := 0
		for i := 1; i <= len(ents); i++ {
			// mode 2: one task holds the whole run, noop-session and session-managed
			// entries mixed, as one raft Update can deliver them
			if i == len(ents) || (c.mode == 1 && ents[i].IsNoOPSession() != ents[start].IsNoOPSession()) {
				r.sm.taskQ.Add(Task{Entries: append([]pb.Entry(nil), ents[start:i]...)})
				start = i
			}
		}
	}
	t, err := r.sm.Handle(r.tasks[:0], r.apply[:0])
	if err != nil {
		return fmt.Sprintf("Handle on %s returned error %v", r.label, err)
	}
	if t.IsSnapshotTask() {
		panic("harness: unexpected snapshot task")
	}
	if got := r.sm.GetLastApplied(); got != upto {
		return fmt.Sprintf("%s applied up to %d after being handed entries up to %d", r.label, got, upto)
	}
	return c.checkCallbacks(r, upto)
}

// flush hands the pending entries of every replica to its real StateMachine
// through the task queue and Handle, then evaluates the oracle.
func (c *c05) flush() string {
	for _, r := range c.every {
		if len(r.pending) == 0 {
			continue
		}
		ents := r.pending
		r.pending = nil
		if r.overlap {
			// a restarted replica is handed entries the snapshot already covers
			r.overlap = false
			ents = append([]pb.Entry{c.log[r.base]}, ents...)
		}
		if msg := c.deliver(r, ents, c.index); msg != "" {
			return msg
		}
	}
	return c.Check()
}

func c05ResEq(a, b sm.Result) bool { return a.Value == b.Value && bytes.Equal(a.Data, b.Data) }

func (c *c05) checkCallbacks(r *c05Rep, upto uint64) string {
	ri := r.label
	if r.checked < r.base {
		r.checked = r.base
	}
	for r.checked < upto {
		r.checked++
		idx := r.checked
		x := c.exp[idx]
		var cb *c05CB
		if r.cbNext < len(r.node.cbs) && r.node.cbs[r.cbNext].index == idx {
			cb = &r.node.cbs[r.cbNext]
			r.cbNext++
		}
		if r.cbNext < len(r.node.cbs) && r.node.cbs[r.cbNext].index <= idx {
			return fmt.Sprintf("%s: more than one completion (or one out of order) for entry %d", ri, idx)
		}
		got := "none"
		if cb != nil {
			switch {
			case cb.ignored:
				got = "none"
			case cb.rejected:
				got = "rejected"
			default:
				got = "result"
			}
		}
		want := "result"
		switch x.kind {
		case c05Ignored:
			want = "none"
		case c05RejUnknown, c05UnregRejected:
			want = "rejected"
		}
		isProposal := x.kind == c05Applied || x.kind == c05Cached || x.kind == c05Ignored || x.kind == c05RejUnknown
		// clause: every retry that completes returns the result of the single application
		if isProposal && got == "result" {
			key := [2]uint64{x.id, x.series}
			if f, ok := c.first[key]; ok {
				if !c05ResEq(f, cb.res) {
					return fmt.Sprintf("%s: a completed retry returned a result different from the first result (entry %d: %s)", ri, idx, c05KindName[x.kind])
				}
			} else {
				c.first[key] = cb.res
			}
		}
		if got != want {
			return fmt.Sprintf("%s: entry expected to be %s completed as %s (entry %d)", ri, c05KindName[x.kind], got, idx)
		}
		if got == "result" && !c05ResEq(cb.res, x.res) {
			return fmt.Sprintf("%s: wrong result for an entry expected to be %s (entry %d: got %d want %d)", ri, c05KindName[x.kind], idx, cb.res.Value, x.res.Value)
		}
	}
	if r.cbNext != len(r.node.cbs) {
		return fmt.Sprintf("%s: completion reported for an entry that was not handed to it", ri)
	}
	return ""
}

func (c *c05) snapshot(which int) string {
	if c.mode != 0 {
		if msg := c.flush(); msg != "" {
			return msg
		}
	}
	src := c.reps[0]
	si := 0
	if which == 1 {
		si = len(c.reps) - 1
		src = c.reps[si]
	}
	ss, _, err := src.sm.Save(SSRequest{})
	if err != nil {
		return fmt.Sprintf("snapshot save on replica %d failed: %v", si, err)
	}
	if ss.Index != c.index {
		return fmt.Sprintf("snapshot index %d, applied %d", ss.Index, c.index)
	}
	src.lastSave = ss.Index
	tw := c05NewRep(c.mode)
	tw.snap.ss = ss
	tw.snap.data = append([]byte(nil), src.snap.data...)
	got, err := tw.sm.Recover(Task{Recover: true, Index: ss.Index, Initial: len(c.reps)%2 == 1})
	if err != nil {
		return fmt.Sprintf("restore from the snapshot failed: %v", err)
	}
	if got.Index != ss.Index || tw.sm.GetLastApplied() != ss.Index {
		return "restored replica is not at the snapshot index"
	}
	tw.base, tw.checked, tw.overlap = ss.Index, ss.Index, true
	tw.label = fmt.Sprintf("replica %d", len(c.reps))
	c.reps = append(c.reps, tw)
	c.every = append(c.every, tw)
	c.outcome("cut")
	// the same snapshot is installed on running replicas that lag behind: one
	// for every prefix 1..j of the entry stream, 0 <= j < snapshot index
	lo := uint64(0)
	if c05MaxLag > 0 && ss.Index > c05MaxLag {
		lo = ss.Index - c05MaxLag
	}
	for j := lo; j < ss.Index; j++ {
		if msg := c.addLagging(j, src, ss); msg != "" {
			return msg
		}
	}
	return c.Check()
}

// addLagging builds a replica that has applied exactly the entries 1..j on a
// running StateMachine (same delivery mode as the primary), then receives the
// snapshot taken by src at ss.Index > j and installs it through the real
// non-initial Recover path (what a follower does on InstallSnapshot), and from
// then on is handed every later entry like all the other replicas.
func (c *c05) addLagging(j uint64, src *c05Rep, ss pb.Snapshot) string {
	l := c05NewRep(c.mode)
	l.sm.members.set(pb.Membership{Addresses: map[uint64]string{1: "a1"}})
	l.label = fmt.Sprintf("lagging replica(%d->%d)", j, ss.Index)
	if c.mode == 0 {
		for i := uint64(1); i <= j; i++ {
			if msg := c.deliver(l, []pb.Entry{c.log[i]}, i); msg != "" {
				return msg
			}
		}
	} else if j > 0 {
		if msg := c.deliver(l, append([]pb.Entry(nil), c.log[1:j+1]...), j); msg != "" {
			return msg
		}
	}
	if !c05LogEq(l.core.log, c.model.smlog[:c.smAt[j]]) {
		return fmt.Sprintf("%s: user state machine content differs from the model before the snapshot was installed", l.label)
	}
	l.snap.ss = ss
	l.snap.data = append([]byte(nil), src.snap.data...)
	got, err := l.sm.Recover(Task{Recover: true, Index: ss.Index})
	if err != nil {
		return fmt.Sprintf("%s: installing the snapshot on a running replica failed: %v", l.label, err)
	}
	if got.Index != ss.Index || l.sm.GetLastApplied() != ss.Index {
		return fmt.Sprintf("%s: not at the snapshot index after installing the snapshot", l.label)
	}
	l.base = ss.Index
	// statistics: did the replica know a session the snapshot does not contain?
	had, now := c.sessAt[j], c.sessAt[ss.Index]
	n, k := 0, 0
	for _, id := range had {
		if id == 0 {
			continue
		}
		n++
		kept := false
		for _, id2 := range now {
			kept = kept || id2 == id
		}
		if !kept {
			l.stale[k] = id
			k++
		}
	}
	switch {
	case k > 0:
		c.outcome("lag-install:replica-knew-a-session-dropped-in-the-gap")
	case n > 0:
		c.outcome("lag-install:all-known-sessions-still-in-snapshot")
	default:
		c.outcome("lag-install:replica-knew-no-session")
	}
	c.lags = append(c.lags, l)
	c.every = append(c.every, l)
	return ""
}

func c05LogEq(a, b [][]byte) bool {
	if len(a) != len(b) {
		return false
	}
	for i := range a {
		if !bytes.Equal(a[i], b[i]) {
			return false
		}
	}
	return true
}

// Check: user SM content vs the model and twin equality. Only meaningful when
// nothing is pending.
func (c *c05) Check() (msg string) {
	defer func() {
		if r := recover(); r != nil {
			msg = fmt.Sprintf("panic while checking: %v", r)
		}
	}()
	if len(c.reps[0].pending) > 0 || c.skipCheck {
		return ""
	}
	for _, r := range c.every {
		ri := r.label
		// clause: applied at most once per (client, series)
		seen := map[string]bool{}
		for _, cmd := range r.core.log {
			if seen[string(cmd)] {
				return fmt.Sprintf("%s: user Update called twice for the same (client, series)", ri)
			}
			seen[string(cmd)] = true
		}
		if !c05LogEq(r.core.log, c.model.smlog) {
			if len(r.core.log) > len(c.model.smlog) {
				return fmt.Sprintf("%s: user state machine was updated by an entry that must not touch it", ri)
			}
			return fmt.Sprintf("%s: user state machine content differs from the model (an expected update is missing or different)", ri)
		}
	}
	if len(c.every) > 1 {
		h0 := c.reps[0].sm.GetSessionHash()
		for ri := 1; ri < len(c.reps); ri++ {
			if h := c.reps[ri].sm.GetSessionHash(); h != h0 {
				return fmt.Sprintf("session hash of replica %d (restored from a snapshot) differs from the original", ri)
			}
		}
		for _, l := range c.lags {
			if h := l.sm.GetSessionHash(); h != h0 {
				return fmt.Sprintf("session hash of %s (snapshot installed on a running replica that had applied a prefix of the entries) differs from the original", l.label)
			}
		}
	}
	return ""
}

// finish flushes what is still pending (batched mode).
func (c *c05) finish() string {
	if c.mode == 0 {
		return ""
	}
	var msg string
	func() {
		defer func() {
			if r := recover(); r != nil {
				msg = fmt.Sprintf("panic in final flush: %v", r)
			}
		}()
		msg = c.flush()
	}()
	return msg
}

// modelCanon describes the model state (statistics only).
func (c *c05) modelCanon() string {
	b := &verifkit.CanonBuf{}
	for _, s := range c.model.lru {
		b.U(s.id, s.responded, uint64(len(s.hist)))
		ks := make([]uint64, 0, len(s.hist))
		for k := range s.hist {
			ks = append(ks, k)
		}
		sort.Slice(ks, func(i, j int) bool { return ks[i] < ks[j] })
		for _, k := range ks {
			b.U(k, s.hist[k].Value)
		}
	}
	b.Sep('c')
	for i := range c.clients {
		cl := &c.clients[i]
		b.Bool(cl.holds).U(cl.id, cl.series, cl.responded, uint64(len(cl.sent)))
	}
	b.Sep('s').U(uint64(len(c.model.smlog)), uint64(len(c.reps)))
	for _, r := range c.reps {
		b.U(r.base, r.lastSave)
	}
	return string(b.B)
}

func c05KeyOf(msg string) string {
	out := make([]byte, 0, len(msg))
	for i := 0; i < len(msg) && len(out) < 110; i++ {
		ch := msg[i]
		if ch >= '0' && ch <= '9' {
			continue
		}
		out = append(out, ch)
	}
	return "C05:" + string(out)
}

// ---------------------------------------------------------------- driver

type c05Replay struct {
	Mode   int      `json:"mode"`
	Ops    []uint32 `json:"ops"`
	Events []string `json:"events"`
}

func c05RunOps(mode int, ops []uint32) (int, string) {
	inst := c05New(mode)
	for i, op := range ops {
		ok := false
		for _, e := range inst.Enabled() {
			if e == op {
				ok = true
			}
		}
		if !ok {
			return i, "harness: replayed op not enabled"
		}
		if msg := inst.Step(op); msg != "" {
			return i, msg
		}
	}
	return len(ops) - 1, inst.finish()
}

type c05Stats struct {
	seqs, nontrivial, steps, cuts int64
	outcomes                      map[string]int64
	states                        *verifkit.Set64
}

// c05Enumerate runs every sequence of exactly `depth` enabled ops that starts
// with the given prefix of choice indexes.
func c05Enumerate(mode, depth int, prefix []int, st *c05Stats, run *verifkit.Run, res *verifkit.Result, stop *int32) {
	v := make([]int, depth)
	copy(v, prefix)
	n := make([]int, depth)
	ops := make([]uint32, depth)
	firstChanged := 0
	for {
		if atomic.LoadInt32(stop) != 0 {
			return
		}
		inst := c05New(mode)
		failed := false
		valid := true
		for pos := 0; pos < depth; pos++ {
			evs := inst.Enabled()
			n[pos] = len(evs)
			if v[pos] >= len(evs) {
				// only possible for a prefix position: this prefix does not exist
				valid = false
				break
			}
			ops[pos] = evs[v[pos]]
			inst.skipCheck = pos < firstChanged
			msg := inst.Step(ops[pos])
			st.steps++
			if msg != "" {
				if pos >= firstChanged {
					c05Report(res, mode, ops[:pos+1], msg, stop)
				}
				failed = true
				break
			}
		}
		if !valid {
			return
		}
		if !failed {
			inst.skipCheck = false
			if msg := inst.finish(); msg != "" {
				c05Report(res, mode, ops, msg, stop)
			}
			st.seqs++
			if inst.nontrivial || inst.cutUsed {
				st.nontrivial++
			}
			if inst.cutUsed {
				st.cuts++
			}
			from := firstChanged
			if from < len(prefix) {
				from = len(prefix)
			}
			for _, os := range inst.outcomes[from:] {
				for _, o := range os {
					st.outcomes[o]++
				}
			}
			st.states.Add(verifkit.Hash64(inst.modelCanon()))
			if st.seqs%4096 == 0 && run.Expired() {
				res.Cap("deadline reached during sequence enumeration")
				atomic.StoreInt32(stop, 1)
				return
			}
		}
		// odometer over the non-prefix positions
		pos := depth - 1
		for ; pos >= len(prefix); pos-- {
			if n[pos] == 0 {
				// position not reached in this run (a step failed earlier)
				continue
			}
			v[pos]++
			if v[pos] < n[pos] {
				break
			}
			v[pos] = 0
		}
		if pos < len(prefix) {
			return
		}
		for i := pos + 1; i < depth; i++ {
			n[i] = 0
		}
		firstChanged = pos
	}
}

var (
	c05ReportedMu sync.Mutex
	c05Reported   = map[string]bool{}
)

// c05Minimize greedily drops ops while the same oracle clause still fails.
func c05Minimize(mode int, ops []uint32, key string) ([]uint32, string) {
	best := append([]uint32(nil), ops...)
	_, bestMsg := c05RunOps(mode, best)
	for changed := true; changed; {
		changed = false
		for i := 0; i < len(best); i++ {
			cand := append(append([]uint32(nil), best[:i]...), best[i+1:]...)
			at, msg := c05RunOps(mode, cand)
			if msg == "" || c05KeyOf(msg) != key {
				continue
			}
			if at+1 < len(cand) {
				cand = cand[:at+1]
			}
			best, bestMsg, changed = cand, msg, true
			break
		}
	}
	return best, bestMsg
}

func c05Report(res *verifkit.Result, mode int, ops []uint32, msg string, stop *int32) {
	key := c05KeyOf(msg)
	c05ReportedMu.Lock()
	seen := c05Reported[key]
	c05Reported[key] = true
	c05ReportedMu.Unlock()
	if seen {
		return
	}
	cp, m := c05Minimize(mode, ops, key)
	if m == "" || c05KeyOf(m) != key {
		cp, m = append([]uint32(nil), ops...), msg
	}
	if res.Violate(key, m, c05Replay{Mode: mode, Ops: cp, Events: verifkit.PathString(cp, c05Describe)}) {
		atomic.StoreInt32(stop, 1)
	}
}

func TestVerifC05(t *testing.T) {
	logger.GetLogger("rsm").SetLevel(logger.CRITICAL)
	LRUMaxSessionCount = c05LRULimit
	sessionBufferInitialCap = 256
	run := verifkit.Env()
	res := verifkit.NewResult()
	defer run.Finish(res)
	depth := run.Pick(6, 7)
	res.Rule = fmt.Sprintf("every sequence of exactly %d enabled ops (and thereby every shorter one as a prefix) over {register(c), unregister(c), next(c), retry(c), abandon(c) (series given up before reaching the log, may still arrive late), late-dup(c,k<=2), noop-session proposal, snapshot+restore from the primary / from the newest restored twin} for 3 client slots with LRUMaxSessionCount=2, in three delivery modes (0: regular IStateMachine, one entry per task, oracle after every entry; 1: IConcurrentStateMachine, entries batched into tasks per run of noop/session entries and handed over at snapshot cuts and at the end, which reaches handleBatch; 2: as 1 but one task per hand-over with noop-session and session-managed entries mixed, as one raft Update delivers them); every snapshot op at index S restores the snapshot into a FRESH StateMachine (twin) and additionally installs it, through the real non-initial Recover, on one RUNNING lagging replica for every lag point j in [0,S) (a StateMachine that has applied exactly entries 1..j); twins and lagging replicas then receive every later entry; evaluation = one complete sequence executed on the real StateMachine(s) and compared with the reference model after every hand-over; distinct_nontrivial = sequences containing at least one cached / ignored / rejected outcome, an LRU eviction, or entries applied on both sides of a snapshot cut (all sequences are distinct by construction)", depth)
	res.Assumptions = []string{
		"the snapshot container (file format, compression) is replaced by an in-memory byte stream; SaveSessions/LoadSessions, NativeSM.Save/Recover and StateMachine.Save/Recover are real",
		"a client slot that registers again gets a fresh client id (ids are random 64 bit values in the real client), so the duplicate of a REGISTER entry is not part of the alphabet",
		"the reference LRU counts every entry that looks a session up (proposal, unregister) as a use",
		"a lagging replica is a StateMachine started empty that applied entries 1..j (not itself restored from an earlier snapshot) and is not handed entries the installed snapshot already covers",
	}
	if run.Replay != "" {
		var rp c05Replay
		run.LoadReplay(&rp)
		at, msg := c05RunOps(rp.Mode, rp.Ops)
		res.Evaluations = 1
		if msg != "" {
			ops := rp.Ops
			if at+1 < len(ops) {
				ops = ops[:at+1]
			}
			res.Violate(c05KeyOf(msg), msg, c05Replay{Mode: rp.Mode, Ops: ops, Events: verifkit.PathString(ops, c05Describe)})
		}
		return
	}
	// work items: (mode, first three choice indexes)
	type item struct {
		mode   int
		prefix []int
	}
	var items []item
	for mode := 0; mode < 3; mode++ {
		root := c05New(mode)
		e0 := root.Enabled()
		for i := range e0 {
			n := c05New(mode)
			if msg := n.Step(e0[i]); msg != "" {
				c05Report(res, mode, e0[i:i+1], msg, new(int32))
				continue
			}
			e1 := n.Enabled()
			for j := range e1 {
				n2 := c05New(mode)
				n2.Step(e0[i])
				if msg := n2.Step(e1[j]); msg != "" {
					c05Report(res, mode, []uint32{e0[i], e1[j]}, msg, new(int32))
					continue
				}
				for k := range n2.Enabled() {
					items = append(items, item{mode, []int{i, j, k}})
				}
			}
		}
	}
	var mine []item
	for k, it := range items {
		if run.Mine(uint64(k)) {
			mine = append(mine, it)
		}
	}
	workers := 8
	var stop int32
	var next int64 = -1
	var wg sync.WaitGroup
	all := make([]*c05Stats, workers)
	states := verifkit.NewSet64()
	for w := 0; w < workers; w++ {
		st := &c05Stats{outcomes: map[string]int64{}, states: states}
		all[w] = st
		wg.Add(1)
		go func() {
			defer wg.Done()
			for {
				i := atomic.AddInt64(&next, 1)
				if i >= int64(len(mine)) || atomic.LoadInt32(&stop) != 0 {
					return
				}
				c05Enumerate(mine[i].mode, depth, mine[i].prefix, st, run, res, &stop)
			}
		}()
	}
	wg.Wait()
	var steps, cuts int64
	for _, st := range all {
		res.Evaluations += st.seqs
		res.DistinctNontrivial += st.nontrivial
		steps += st.steps
		cuts += st.cuts
		for k, v := range st.outcomes {
			res.Outcomes[k] += v
		}
	}
	res.Extra["batched_update_calls_with_more_than_one_entry"] = atomic.LoadInt64(&c05BatchedCalls)
	res.Extra["steps_executed"] = steps
	res.Extra["sequences_with_entries_after_a_cut"] = cuts
	res.Extra["distinct_final_model_states_this_shard"] = int64(states.Len())
	res.Extra["max_depth"] = depth
	var lagInstalls int64
	for k, v := range res.Outcomes {
		if len(k) > 12 && k[:12] == "lag-install:" {
			lagInstalls += v
		}
	}
	res.Extra["snapshot_installs_on_running_lagging_replicas"] = lagInstalls
	res.Extra["snapshot_installs_on_lagging_replicas_knowing_a_session_dropped_in_the_gap"] = res.Outcomes["lag-install:replica-knew-a-session-dropped-in-the-gap"]
	res.Extra["work_items_total"] = fmt.Sprint(len(items))
	if s := c05Sample(depth); s != nil && run.Shard == 0 {
		res.Sample(1, s)
	}
}

// c05Sample renders one interesting sequence for the evidence file.
func c05Sample(depth int) interface{} {
	ops := []uint32{c05Ev(c05OpRegister, 1), c05Ev(c05OpRegister, 0), c05Ev(c05OpRetry, 1), c05Ev(c05OpSnap, 0), c05Ev(c05OpRegister, 2), c05Ev(c05OpNext, 0)}
	if depth < len(ops) {
		ops = ops[:depth]
	}
	_, msg := c05RunOps(0, ops)
	return map[string]interface{}{"events": verifkit.PathString(ops, c05Describe), "result": msg}
}
