//go:build verif

// Engine E2 "raftx": explicit-state exploration of a cluster of REAL
// raft.Peer + logdb.LogReader + rsm.StateMachine replicas. The only harness
// code between the components is the step cycle below (mirrors
// node.stepNode + engine.processSteps) and the INode stub (mirrors node.go).
package raft_test

import (
	"bytes"
	"encoding/binary"
	"fmt"
	"io"
	"sort"
	"strings"
	"sync"
	"sync/atomic"

	"github.com/lni/dragonboat/v4/config"
	"github.com/lni/dragonboat/v4/internal/logdb"
	"github.com/lni/dragonboat/v4/internal/raft"
	"github.com/lni/dragonboat/v4/internal/rsm"
	"github.com/lni/dragonboat/v4/internal/verifkit"
	"github.com/lni/dragonboat/v4/internal/verifkit/memlogdb"
	"github.com/lni/dragonboat/v4/internal/vfs"
	pb "github.com/lni/dragonboat/v4/raftpb"
	sm "github.com/lni/dragonboat/v4/statemachine"
)

const shardID = 1

// ---------------------------------------------------------------- user SM

// regSM is the user state machine: a tiny KV register set.
type regSM struct {
	kv      map[byte]byte
	updates uint64
	r       *replica
}

func (s *regSM) Update(e sm.Entry) (sm.Result, error) {
	s.updates++
	if len(e.Cmd) >= 2 {
		s.kv[e.Cmd[0]] = e.Cmd[1]
	}
	if s.r != nil {
		s.r.c.onUserUpdate(s.r, e.Index, e.Cmd)
	}
	return sm.Result{Value: uint64(e.Cmd[1]) + 1000*e.Index}, nil
}
func (s *regSM) Lookup(q interface{}) (interface{}, error) { return s.kv[q.(byte)], nil }
func (s *regSM) SaveSnapshot(w io.Writer, _ sm.ISnapshotFileCollection, _ <-chan struct{}) error {
	keys := make([]int, 0)
	for k := range s.kv {
		keys = append(keys, int(k))
	}
	sort.Ints(keys)
	buf := []byte{byte(len(keys))}
	for _, k := range keys {
		buf = append(buf, byte(k), s.kv[byte(k)])
	}
	var u [8]byte
	binary.BigEndian.PutUint64(u[:], s.updates)
	buf = append(buf, u[:]...)
	_, err := w.Write(buf)
	return err
}
func (s *regSM) RecoverFromSnapshot(r io.Reader, _ []sm.SnapshotFile, _ <-chan struct{}) error {
	data, err := io.ReadAll(r)
	if err != nil {
		return err
	}
	s.kv = make(map[byte]byte)
	n := int(data[0])
	for i := 0; i < n; i++ {
		s.kv[data[1+2*i]] = data[2+2*i]
	}
	s.updates = binary.BigEndian.Uint64(data[1+2*n:])
	return nil
}
func (s *regSM) Close() error { return nil }
func (s *regSM) canon(c *verifkit.CanonBuf) {
	var b bytes.Buffer
	_ = s.SaveSnapshot(&b, nil, nil)
	c.S(b.String())
}

// ---------------------------------------------------------------- snapshots

type ssImage struct {
	ss   pb.Snapshot
	data []byte
}

// memSnapshotter is an in-memory rsm.ISnapshotter; images survive a crash.
type memSnapshotter struct {
	r      *replica
	images map[uint64]*ssImage
}

type errNoSS struct{}

func (errNoSS) Error() string { return "no snapshot" }

func (m *memSnapshotter) GetSnapshot() (pb.Snapshot, error) {
	ss := m.r.lr.Snapshot()
	if pb.IsEmptySnapshot(ss) {
		return pb.Snapshot{}, errNoSS{}
	}
	return ss, nil
}
func (m *memSnapshotter) Stream(rsm.IStreamable, rsm.SSMeta, pb.IChunkSink) error {
	panic("stream not modelled")
}
func (m *memSnapshotter) Shrunk(ss pb.Snapshot) (bool, error) { return false, nil }
func (m *memSnapshotter) Save(s rsm.ISavable, meta rsm.SSMeta) (pb.Snapshot, rsm.SSEnv, error) {
	var b bytes.Buffer
	dummy, err := s.Save(meta, &b, meta.Session.Bytes(), nil)
	if err != nil {
		return pb.Snapshot{}, rsm.SSEnv{}, err
	}
	ss := pb.Snapshot{ShardID: shardID, Membership: meta.Membership, Index: meta.Index, Term: meta.Term,
		Dummy: dummy, Type: meta.Type, Filepath: fmt.Sprintf("ss-%d", meta.Index), FileSize: uint64(b.Len())}
	m.images[meta.Index] = &ssImage{ss: ss, data: b.Bytes()}
	return ss, rsm.SSEnv{}, nil
}
func (m *memSnapshotter) Load(ss pb.Snapshot, sessions rsm.ILoadable, asm rsm.IRecoverable) error {
	img, ok := m.images[ss.Index]
	if !ok {
		panic(fmt.Sprintf("replica %d has no snapshot image %d", m.r.id, ss.Index))
	}
	rd := bytes.NewReader(img.data)
	if err := sessions.LoadSessions(rd, rsm.V2); err != nil {
		return err
	}
	return asm.Recover(rd, nil)
}
func (m *memSnapshotter) IsNoSnapshotError(err error) bool { _, ok := err.(errNoSS); return ok }

type nopCompactor struct{}

func (nopCompactor) Compact(uint64) error { return nil }

// ---------------------------------------------------------------- replica

type kindT uint8

const (
	kVoter kindT = iota
	kNonVoting
	kWitness
)

type replica struct {
	c    *cluster
	id   uint64
	kind kindT
	cfg  config.Config
	// persistent (survive a crash)
	ssr *memSnapshotter
	// volatile
	peer        raft.Peer
	vp          raft.VPeer
	lr          *logdb.LogReader
	sm          *rsm.StateMachine
	usm         *regSM
	stopC       chan struct{}
	applied     uint64 // node.appliedIndex
	confirmed   uint64 // node.confirmedIndex
	pushed      uint64 // node.pushedIndex
	queue       []rsm.Task
	compactTo   uint64 // snapshotState.compactLogTo
	ssIndex     uint64 // snapshotState.index
	stopped     bool   // self removal applied (node.requestRemoval)
	dead        bool   // killed for good (a minority may stay down forever)
	started     bool
	incarnation int
	// heard: voting or other members whose ReplicateResp/HeartbeatResp of term
	// heardTerm reached this replica while it led that term, since its election or
	// its last CheckQuorum round (independent recomputation of CheckQuorum, C18)
	heard         map[uint64]bool
	heardTerm     uint64
	lastUpd       uint64 // last index handed to the user SM in this incarnation
	taskSeen      uint64 // last index handed to the state machine in a task
	commitChecked uint64 // commit index whose quorum justification was checked
}

// rsm.INode
func (r *replica) StepReady()                  {}
func (r *replica) ReplicaID() uint64           { return r.id }
func (r *replica) ShardID() uint64             { return shardID }
func (r *replica) ShouldStop() <-chan struct{} { return r.stopC }
func (r *replica) RestoreRemotes(ss pb.Snapshot) error {
	for nid := range ss.Membership.Removed {
		if nid == r.id {
			r.stopped = true
		}
	}
	r.c.checkCommitJustified(r)
	err := r.peer.RestoreRemotes(ss)
	r.c.checkCommitJustified(r)
	if err == nil && !r.stopped {
		// C18/C03: after a snapshot was restored raft's view of the membership
		// (the sets its quorums are computed from) is the snapshot's membership
		vs, ns, ws := r.vp.Members()
		same := func(got []uint64, want map[uint64]string) bool {
			if len(got) != len(want) {
				return false
			}
			for _, id := range got {
				if _, ok := want[id]; !ok {
					return false
				}
			}
			return true
		}
		m := ss.Membership
		if !same(vs, m.Addresses) || !same(ns, m.NonVotings) || !same(ws, m.Witnesses) {
			r.c.fail("C18: replica %d restored snapshot %d whose membership is voters %v non-voting %v witnesses %v, but raft now counts voters %v non-voting %v witnesses %v",
				r.id, ss.Index, keysOf(m.Addresses), keysOf(m.NonVotings), keysOf(m.Witnesses), vs, ns, ws)
		}
	}
	return err
}

func keysOf(m map[uint64]string) []uint64 {
	out := make([]uint64, 0, len(m))
	for k := range m {
		out = append(out, k)
	}
	sort.Slice(out, func(i, j int) bool { return out[i] < out[j] })
	return out
}
func (r *replica) ApplyUpdate(e pb.Entry, result sm.Result, rejected bool, ignored bool, notifyRead bool) {
	r.c.onApplyUpdate(r, e, result, rejected, ignored)
}
func (r *replica) ApplyConfigChange(cc pb.ConfigChange, key uint64, rejected bool) error {
	// node.ApplyConfigChange
	if !rejected {
		r.c.checkCommitJustified(r)
		if err := r.peer.ApplyConfigChange(cc); err != nil {
			return err
		}
		r.c.checkCommitJustified(r)
		if cc.Type == pb.RemoveNode && cc.ReplicaID == r.id {
			r.stopped = true
		}
	}
	r.c.onConfigChangeApplied(r, cc, key, rejected)
	if r.kind == kWitness {
		return nil
	}
	if rejected {
		return r.peer.RejectConfigChange()
	}
	return nil
}

// ---------------------------------------------------------------- cluster

type xcfg struct {
	Name        string
	Voters      []uint64
	NonVotings  []uint64
	Witnesses   []uint64
	Joiners     []uint64 // replicas started empty (join=true) once added by a config change
	JoinKinds   map[uint64]kindT
	PreVote     bool
	CheckQuorum bool
	Ordered     bool
	// budgets
	MaxTerm      uint64
	MaxIndex     uint64
	Timeouts     int
	Heartbeats   int
	CheckQuorums int
	Leases       int
	Proposals    int
	Reads        int
	ConfChanges  int
	Transfers    int
	Snapshots    int
	Crashes      int
	Dups         int
	Drops        int
	Kills        int // replicas that go down and stay down
	Partitions   int // network partitions into two groups (set or heal), messages across are lost
	Reorders     int // fifo mode: deliveries of the second message of a channel before the first
	MidCrashes   int
	Reports      int
	MaxInflight  int
	CCMenu       []pb.ConfigChange
	// MaxDev > 0 switches to deviation-bounded exploration: the default schedule
	// (deliver the oldest in-flight message; when quiescent run the next item of
	// Script) costs nothing, every other enabled event is a deviation and at
	// most MaxDev deviations are taken on any path.
	MaxDev int
	Script []string
	// Prefix is a deterministic scenario script run before the search (see warm).
	Prefix []string
	// MaxDepth bounds the BFS depth (0 = to fixpoint).
	MaxDepth int
	// RateLimit > 0 sets config.MaxInMemLogSize (raft's in-memory log rate limiter)
	RateLimit uint64
	// WarmLeader elects replica 1 as leader with a fixed prefix before the search.
	WarmLeader bool
	// Fifo delivers messages of one (from,to) channel in send order (reordering
	// only across channels); otherwise any in-flight message may be delivered.
	Fifo bool
	// KeepRemovedRunning: a replica whose removal was applied keeps being
	// stepped (node.go stops it; at raft level it must simply never campaign)
	KeepRemovedRunning bool
	// LazyApply makes the apply worker a separate event (apply lag); otherwise
	// the apply worker runs right after every step cycle.
	LazyApply bool
}

type inflight struct {
	m   pb.Message
	key []byte
	seq uint64
}

type appliedRec struct {
	term uint64
	typ  pb.EntryType
	cmd  string
}

type readReq struct {
	ctx       pb.SystemCtx
	at        uint64 // requester
	commitAt  uint64 // max commit index over all replicas when issued
	answered  bool
	dropped   bool
	incarn    int
	issuedSeq int
}

type cluster struct {
	cfg          *xcfg
	db           *memlogdb.DB
	reps         []*replica
	byID         map[uint64]*replica
	msgs         []inflight
	viol         string
	steps        int
	seq          uint64
	fair         bool
	fairRounds   int
	watchKey     uint64
	watchApplied map[uint64]bool
	dropped      map[uint64]bool  // keys of proposals / config changes reported dropped
	joinKind     map[uint64]kindT // kind a joiner was first added as
	partition    uint32           // bitmask (by replica position) of group A; 0 = no partition
	devs         int              // deviations taken (MaxDev mode)
	spos         int              // next Script item (MaxDev mode)
	// budgets used
	used struct {
		timeouts, heartbeats, checkQuorums, leases, proposals, reads, confChanges, transfers,
		snapshots, crashes, dups, drops, midCrashes, reports, reorders, partitions, kills int
	}
	// monitors (history variables)
	leaderOf    map[uint64]uint64     // term -> replica that became leader
	voteOf      map[[2]uint64]uint64  // (replica, term) -> candidate granted
	committed   map[uint64]appliedRec // index -> entry at first commit observation
	appliedLog  map[uint64]appliedRec // index -> entry first applied by any replica
	ccOutcome   map[uint64][2]uint64  // index -> (rejected?1:0, membership hash after)
	reads       []*readReq
	commitBound map[uint64]uint64 // index -> max term in the cluster when its commit was first observed
	fullRec     map[uint64]bool
	nextVal     byte
	nextKey     uint64
	// observation hooks for derived checks (C18 etc.)
	onLeader func(r *replica)
}

// monitorTags: the property tags ("C02", ...) whose monitors may raise a
// violation in the running check; nil = all. Every monitor message starts with
// the tag(s) of the property it belongs to ("C18/C02: ..."); a check only
// raises alarms for oracles of its own property and of properties its
// statement includes. Failures without a tag (errors and panics of the code
// under check) always count.
var monitorTags map[string]bool

// suppressedMonitors counts monitor failures that belong to other properties.
var suppressedMonitors sync.Map

func tagAllowed(msg string) bool {
	if monitorTags == nil {
		return true
	}
	i := strings.Index(msg, ":")
	if i <= 0 || i > 12 || msg[0] != 'C' {
		return true
	}
	for _, t := range strings.Split(msg[:i], "/") {
		if len(t) != 3 || t[0] != 'C' {
			return true // not a tag
		}
	}
	for _, t := range strings.Split(msg[:i], "/") {
		if monitorTags[t] {
			return true
		}
	}
	n, _ := suppressedMonitors.LoadOrStore(msg[:i], new(int64))
	atomic.AddInt64(n.(*int64), 1)
	return false
}

func (c *cluster) fail(format string, a ...interface{}) {
	if c.viol == "" {
		if msg := fmt.Sprintf(format, a...); tagAllowed(msg) {
			c.viol = msg
		}
	}
}

func kindOf(cfg *xcfg, id uint64) kindT {
	for _, v := range cfg.NonVotings {
		if v == id {
			return kNonVoting
		}
	}
	for _, v := range cfg.Witnesses {
		if v == id {
			return kWitness
		}
	}
	if k, ok := cfg.JoinKinds[id]; ok {
		return k
	}
	return kVoter
}

func addrOf(id uint64) string { return fmt.Sprintf("a%d", id) }

func newCluster(cfg *xcfg) *cluster {
	c := &cluster{cfg: cfg, db: memlogdb.New(), byID: map[uint64]*replica{},
		leaderOf: map[uint64]uint64{}, voteOf: map[[2]uint64]uint64{}, committed: map[uint64]appliedRec{},
		appliedLog: map[uint64]appliedRec{}, ccOutcome: map[uint64][2]uint64{}, nextVal: 1, nextKey: 100,
		commitBound: map[uint64]uint64{}, fullRec: map[uint64]bool{}, dropped: map[uint64]bool{}, joinKind: map[uint64]kindT{}}
	members := pb.Membership{ConfigChangeId: 1, Addresses: map[uint64]string{}, NonVotings: map[uint64]string{},
		Witnesses: map[uint64]string{}, Removed: map[uint64]bool{}}
	for _, id := range cfg.Voters {
		members.Addresses[id] = addrOf(id)
	}
	for _, id := range cfg.NonVotings {
		members.NonVotings[id] = addrOf(id)
	}
	for _, id := range cfg.Witnesses {
		members.Witnesses[id] = addrOf(id)
	}
	all := append(append(append([]uint64{}, cfg.Voters...), cfg.NonVotings...), cfg.Witnesses...)
	all = append(all, cfg.Joiners...)
	sort.Slice(all, func(i, j int) bool { return all[i] < all[j] })
	for _, id := range all {
		r := &replica{c: c, id: id, kind: kindOf(cfg, id)}
		r.ssr = &memSnapshotter{r: r, images: map[uint64]*ssImage{}}
		r.cfg = config.Config{ShardID: shardID, ReplicaID: id, ElectionRTT: 10, HeartbeatRTT: 2,
			CheckQuorum: cfg.CheckQuorum, PreVote: cfg.PreVote, OrderedConfigChange: cfg.Ordered,
			IsNonVoting: r.kind == kNonVoting, IsWitness: r.kind == kWitness, MaxInMemLogSize: cfg.RateLimit}
		c.reps = append(c.reps, r)
		c.byID[id] = r
		joiner := false
		for _, j := range cfg.Joiners {
			if j == id {
				joiner = true
			}
		}
		if joiner {
			continue
		}
		// initial state = an imported snapshot at index 1 holding the membership
		// (the ImportSnapshot restart path), so no depth is spent on bootstrap.
		ss := pb.Snapshot{ShardID: shardID, Index: 1, Term: 1, Membership: members, Filepath: "ss-1",
			Type: pb.RegularStateMachine, Witness: r.kind == kWitness}
		var b bytes.Buffer
		_, _ = b.Write(rsm.GetEmptyLRUSession())
		_ = (&regSM{kv: map[byte]byte{}}).SaveSnapshot(&b, nil, nil)
		r.ssr.images[1] = &ssImage{ss: ss, data: b.Bytes()}
		if err := c.db.SaveRaftState([]pb.Update{{ShardID: shardID, ReplicaID: id,
			State: pb.State{Term: 1, Commit: 1}, Snapshot: ss}}, 1); err != nil {
			panic(err)
		}
		c.start(r)
	}
	if cfg.WarmLeader || len(cfg.Prefix) > 0 {
		c.warm()
	}
	return c
}

// warm runs the fixed, deterministic scenario prefix of the configuration
// (budgets do not apply to it). Script items: T<i> election timeout, H<i>
// heartbeat timeout, Q<i> check quorum timeout, P<i> propose, R<i> ReadIndex,
// C<i>:<k> config change menu item k, S<i> snapshot, K<i> crash+restart,
// A<i> apply, J<i> start joiner, D* deliver everything (oldest first) until
// quiescent, D<f>><t> deliver the head of channel f->t, X* drop everything in
// flight, X><t> drop everything addressed to t, X<f>><t> drop channel f->t.
type prefixViolation string

func (c *cluster) warm() {
	saved := c.cfg
	tmp := *saved
	big := 1 << 20
	tmp.Timeouts, tmp.Heartbeats, tmp.CheckQuorums, tmp.Proposals, tmp.Reads, tmp.ConfChanges = big, big, big, big, big, big
	tmp.Snapshots, tmp.Crashes, tmp.MaxIndex, tmp.MaxTerm, tmp.MaxInflight = big, big, 1<<40, 1<<40, 0
	tmp.LazyApply = saved.LazyApply
	c.cfg = &tmp
	// an oracle that fails while the prefix runs is a violation of the initial
	// state of the search (reported with the empty path), not a harness error
	defer func() {
		if rec := recover(); rec != nil {
			pv, ok := rec.(prefixViolation)
			if !ok {
				panic(rec)
			}
			c.cfg = saved
			c.viol = "in the scenario prefix: " + string(pv)
		}
	}()
	step := func(e uint32) {
		if msg := c.Step(e); msg != "" {
			panic(prefixViolation(msg))
		}
		if msg := c.Check(); msg != "" {
			panic(prefixViolation(msg))
		}
	}
	oldest := func(match func(m pb.Message) bool) int {
		best := -1
		for i, it := range c.msgs {
			if match(it.m) && (best < 0 || it.seq < c.msgs[best].seq) {
				best = i
			}
		}
		return best
	}
	script := saved.Prefix
	if len(script) == 0 && saved.WarmLeader {
		lead := saved.Voters[0]
		script = []string{fmt.Sprintf("T%d", lead), "D*", fmt.Sprintf("H%d", lead), "D*"}
	}
	for _, it := range script {
		var a, b uint32
		switch {
		case it == "D*":
			for n := 0; n < 1000 && len(c.msgs) > 0; n++ {
				step(mkev(evDeliver, uint32(oldest(func(pb.Message) bool { return true })), 0, 0))
			}
			for _, r := range c.reps {
				for c.live(r) && len(r.queue) > 0 {
					step(mkev(evApply, uint32(r.id), 0, 0))
				}
			}
		case it == "X*":
			c.msgs = nil
		case len(it) > 2 && it[:2] == "X>":
			fmt.Sscanf(it, "X>%d", &a)
			var keep []inflight
			for _, m := range c.msgs {
				if m.m.To != uint64(a) {
					keep = append(keep, m)
				}
			}
			c.msgs = keep
		case it[0] == 'X':
			fmt.Sscanf(it, "X%d>%d", &a, &b)
			var keep []inflight
			for _, m := range c.msgs {
				if !(m.m.From == uint64(a) && m.m.To == uint64(b)) {
					keep = append(keep, m)
				}
			}
			c.msgs = keep
		case it[0] == 'D':
			fmt.Sscanf(it, "D%d>%d", &a, &b)
			i := oldest(func(m pb.Message) bool { return m.From == uint64(a) && m.To == uint64(b) })
			if i < 0 {
				panic("scenario prefix: nothing to deliver for " + it)
			}
			step(mkev(evDeliver, uint32(i), 0, 0))
		case it[0] == 'C':
			fmt.Sscanf(it, "C%d:%d", &a, &b)
			step(mkev(evConfChange, a, b, 0))
		default:
			fmt.Sscanf(it[1:], "%d", &a)
			kind := map[byte]int{'T': evTimeout, 'H': evHeartbeat, 'Q': evCheckQuorum, 'P': evPropose, 'R': evRead,
				'S': evSnapshot, 'K': evCrash, 'A': evApply, 'J': evStartJoiner}[it[0]]
			if kind == 0 {
				panic("scenario prefix: unknown item " + it)
			}
			step(mkev(kind, a, 0, 0))
		}
	}
	c.cfg = saved
	c.used = struct {
		timeouts, heartbeats, checkQuorums, leases, proposals, reads, confChanges, transfers,
		snapshots, crashes, dups, drops, midCrashes, reports, reorders, partitions, kills int
	}{}
}

// start (re)builds the volatile part of a replica from the persistent store:
// node.startRaft / replayLog + the initial Recover task.
func (c *cluster) start(r *replica) {
	r.incarnation++
	r.stopC = make(chan struct{})
	r.lr = logdb.NewLogReader(shardID, r.id, c.db)
	r.lr.SetCompactor(nopCompactor{})
	r.usm = &regSM{kv: map[byte]byte{}, r: r}
	r.queue = nil
	r.applied, r.confirmed, r.pushed, r.compactTo, r.ssIndex, r.lastUpd, r.taskSeen = 0, 0, 0, 0, 0, 0, 0
	r.commitChecked = 0
	ss, err := c.db.GetSnapshot(shardID, r.id)
	if err != nil {
		panic(err)
	}
	if !pb.IsEmptySnapshot(ss) {
		if err := r.lr.ApplySnapshot(ss); err != nil {
			panic(err)
		}
	}
	newNode := true
	rs, err := c.db.ReadRaftState(shardID, r.id, ss.Index)
	if err == nil {
		if !pb.IsEmptyState(rs.State) {
			r.lr.SetState(rs.State)
		}
		r.lr.SetRange(rs.FirstIndex, rs.EntryCount)
		newNode = ss.Index == 0 && rs.EntryCount == 0 && pb.IsEmptyState(rs.State)
	}
	r.peer = raft.Launch(r.cfg, r.lr, nil, nil, false, newNode)
	r.vp = raft.VPeer{P: &r.peer}
	managed := rsm.NewNativeSM(r.cfg, rsm.NewInMemStateMachine(r.usm), r.stopC)
	r.sm = rsm.NewStateMachine(managed, r.ssr, r.cfg, r, vfs.GetTestFS())
	// initial recover task (node.recover with Initial=true)
	rss, err := r.sm.Recover(rsm.Task{Recover: true, Initial: true, NewNode: newNode})
	if err != nil {
		panic(err)
	}
	if !pb.IsEmptySnapshot(rss) {
		r.ssIndex = rss.Index
		r.pushed = rss.Index
		r.lastUpd = rss.Index
		r.taskSeen = rss.Index
	}
	r.applied = r.sm.GetLastApplied()
	r.started = true
	r.vp.Normalize()
}

// ---------------------------------------------------------------- events

const (
	evDeliver = iota + 1
	evDup
	evDrop
	evTimeout
	evHeartbeat
	evCheckQuorum
	evLease
	evPropose
	evRead
	evConfChange
	evTransfer
	evApply
	evSnapshot
	evCrash
	evMidCrash
	evSnapStatus
	evUnreachable
	evStartJoiner
	evPartition
	evHeal
	evKill
)

func mkev(kind int, a, b, cc uint32) uint32 { return uint32(kind)<<24 | a<<16 | b<<8 | cc }

func (c *cluster) describe(e uint32) string {
	if e&(1<<31) != 0 {
		return "script:" + c.describe(e&^(1<<31))
	}
	k, a, b, d := int(e>>24), (e>>16)&0xff, (e>>8)&0xff, e&0xff
	switch k {
	case evDeliver:
		return fmt.Sprintf("Deliver(#%d)", a)
	case evDup:
		return fmt.Sprintf("DupDeliver(#%d)", a)
	case evDrop:
		return fmt.Sprintf("Drop(#%d)", a)
	case evTimeout:
		return fmt.Sprintf("ElectionTimeout(%d)", a)
	case evHeartbeat:
		return fmt.Sprintf("HeartbeatTimeout(%d)", a)
	case evCheckQuorum:
		return fmt.Sprintf("CheckQuorumTimeout(%d)", a)
	case evLease:
		return fmt.Sprintf("LeaseExpire(%d)", a)
	case evPropose:
		return fmt.Sprintf("Propose(%d)", a)
	case evRead:
		return fmt.Sprintf("ReadIndex(%d)", a)
	case evConfChange:
		return fmt.Sprintf("ConfChange(at=%d,menu#%d)", a, b)
	case evTransfer:
		return fmt.Sprintf("LeaderTransfer(at=%d,to=%d)", a, b)
	case evApply:
		return fmt.Sprintf("Apply(%d)", a)
	case evSnapshot:
		return fmt.Sprintf("Snapshot(%d)", a)
	case evCrash:
		return fmt.Sprintf("CrashRestart(%d)", a)
	case evMidCrash:
		return fmt.Sprintf("CrashMidCycle(deliver #%d, point %d)", a, b)
	case evSnapStatus:
		return fmt.Sprintf("SnapshotStatus(leader=%d,to=%d,reject=%d)", a, b, d)
	case evUnreachable:
		return fmt.Sprintf("Unreachable(leader=%d,to=%d)", a, b)
	case evStartJoiner:
		return fmt.Sprintf("StartJoiner(%d)", a)
	case evPartition:
		return fmt.Sprintf("Partition(groupA mask=%b)", a)
	case evHeal:
		return "HealPartition"
	case evKill:
		return fmt.Sprintf("Kill(%d)", a)
	}
	return fmt.Sprint(e)
}

func msgKey(m pb.Message) []byte {
	c := &verifkit.CanonBuf{}
	c.U(m.To, m.From, uint64(m.Type), m.Term, m.LogTerm, m.LogIndex, m.Commit, m.Hint, m.HintHigh).Bool(m.Reject)
	c.U(uint64(len(m.Entries)))
	for _, e := range m.Entries {
		c.U(e.Index, e.Term, uint64(e.Type), e.Key).S(string(e.Cmd))
	}
	c.U(m.Snapshot.Index, m.Snapshot.Term).Bool(m.Snapshot.Witness).Bool(m.Snapshot.Dummy)
	return c.B
}

// sendBatch sends the free-order (Replicate) or the remaining messages of an
// update. raft emits them in map iteration order; they are sorted canonically
// so that replays are deterministic (the relative order of messages to
// different targets is explored by the search anyway).
func (c *cluster) sendBatch(msgs []pb.Message, freeOrder bool) {
	var sel []pb.Message
	for _, m := range msgs {
		if (m.Type == pb.Replicate || m.Type == pb.Ping) == freeOrder {
			sel = append(sel, m)
		}
	}
	sort.SliceStable(sel, func(i, j int) bool {
		if sel[i].To != sel[j].To {
			return sel[i].To < sel[j].To
		}
		return false
	})
	for _, m := range sel {
		c.send(m)
	}
}

func (c *cluster) send(m pb.Message) {
	if m.Type == pb.NoOP || m.Type == pb.Ping || m.Type == pb.Pong || m.Type == pb.RateLimit || m.Type == pb.Quiesce {
		if m.Type != pb.NoOP {
			return
		}
	}
	// the transport serialises a message some time after raft handed it over
	// (its entry slices alias raft's in-memory log until then): the message is
	// kept by value here and serialised when it is delivered, see takeMsg
	c.observeSend(m)
	if c.crosses(m) {
		return // lost in the partition
	}
	c.seq++
	it := inflight{m: m, key: msgKey(m), seq: c.seq}
	i := sort.Search(len(c.msgs), func(i int) bool { return !c.msgLess(c.msgs[i], it) })
	c.msgs = append(c.msgs, inflight{})
	copy(c.msgs[i+1:], c.msgs[i:])
	c.msgs[i] = it
}

// msgLess orders the in-flight set canonically: by content (any-order mode) or
// by channel and send order (fifo mode).
func (c *cluster) msgLess(a, b inflight) bool {
	if c.cfg.MaxDev > 0 {
		return a.seq < b.seq
	}
	if c.cfg.Fifo {
		if a.m.To != b.m.To {
			return a.m.To < b.m.To
		}
		if a.m.From != b.m.From {
			return a.m.From < b.m.From
		}
		return a.seq < b.seq
	}
	if r := bytes.Compare(a.key, b.key); r != 0 {
		return r < 0
	}
	return a.seq < b.seq
}

// deliverable reports whether in-flight message i may be delivered next.
func (c *cluster) deliverable(i int) bool {
	return c.chanPos(i) == 0
}

// chanPos is the position of in-flight message i in its channel (0 = head);
// always 0 in any-order mode.
func (c *cluster) chanPos(i int) int {
	if !c.cfg.Fifo {
		return 0
	}
	n := 0
	for j := i - 1; j >= 0; j-- {
		if c.msgs[j].m.To == c.msgs[i].m.To && c.msgs[j].m.From == c.msgs[i].m.From {
			n++
		} else if c.cfg.MaxDev == 0 {
			break
		}
	}
	return n
}

// crosses reports whether m travels between the two sides of the partition.
func (c *cluster) crosses(m pb.Message) bool {
	if c.partition == 0 {
		return false
	}
	side := func(id uint64) int {
		for i, r := range c.reps {
			if r.id == id {
				if c.partition&(1<<uint(i)) != 0 {
					return 1
				}
				return 2
			}
		}
		return 0
	}
	a, b := side(m.From), side(m.To)
	return a != 0 && b != 0 && a != b
}

func (c *cluster) takeMsg(i int, keep bool) pb.Message {
	m := c.msgs[i].m
	// a message must not change between the moment raft hands it over and the
	// moment the transport serialises it: its entry slices alias raft's
	// in-memory log, which must never be overwritten in place
	if !bytes.Equal(msgKey(m), c.msgs[i].key) {
		c.fail("C02: a queued %s message from %d to %d changed after raft emitted it (its entries alias memory that raft overwrote)",
			m.Type, m.From, m.To)
	}
	if !keep {
		c.msgs = append(c.msgs[:i], c.msgs[i+1:]...)
	}
	// wire round trip: deep copy, and process-local fields such as a snapshot's
	// compactor do not travel
	data := pb.MustMarshal(&m)
	var out pb.Message
	pb.MustUnmarshal(&out, data)
	return out
}

func (c *cluster) live(r *replica) bool {
	return r.started && !r.dead && (!r.stopped || c.cfg.KeepRemovedRunning)
}

// scriptEvent translates a Script item into an event.
func scriptEvent(it string) uint32 {
	var a, b uint32
	if it[0] == 'C' {
		fmt.Sscanf(it, "C%d:%d", &a, &b)
		return mkev(evConfChange, a, b, 0)
	}
	if it[0] == 'L' {
		fmt.Sscanf(it, "L%d>%d", &a, &b)
		return mkev(evTransfer, a, b, 0)
	}
	fmt.Sscanf(it[1:], "%d", &a)
	kind := map[byte]int{'T': evTimeout, 'H': evHeartbeat, 'Q': evCheckQuorum, 'P': evPropose, 'R': evRead,
		'S': evSnapshot, 'K': evCrash, 'A': evApply, 'J': evStartJoiner, 'M': evPartition, 'E': evHeal}[it[0]]
	if kind == 0 {
		panic("script: unknown item " + it)
	}
	return mkev(kind, a, 0, 0)
}

// defaultEvent is the cost-free event of the deviation-bounded mode.
func (c *cluster) defaultEvent() (uint32, bool) {
	if len(c.msgs) > 0 {
		return mkev(evDeliver, 0, 0, 0), true
	}
	if c.spos < len(c.cfg.Script) {
		return scriptEvent(c.cfg.Script[c.spos]) | 1<<31, true
	}
	return 0, false
}

func (c *cluster) Enabled() []uint32 {
	if c.viol != "" {
		return nil
	}
	if c.cfg.MaxDev == 0 {
		return c.enabledAll()
	}
	var out []uint32
	d, ok := c.defaultEvent()
	if ok {
		out = append(out, d)
	}
	if c.devs < c.cfg.MaxDev {
		for _, e := range c.enabledAll() {
			if !ok || e != d {
				out = append(out, e)
			}
		}
	}
	return out
}

func (c *cluster) enabledAll() []uint32 {
	if c.viol != "" {
		return nil
	}
	cfg := c.cfg
	var out []uint32
	// message deliveries first (the default behaviour), then environment events
	for i := range c.msgs {
		if p := c.chanPos(i); p == 0 || (p == 1 && c.used.reorders < cfg.Reorders) {
			out = append(out, mkev(evDeliver, uint32(i), 0, 0))
		}
	}
	quiet := cfg.MaxInflight == 0 || len(c.msgs) < cfg.MaxInflight
	for _, r := range c.reps {
		if c.cfg.LazyApply && c.live(r) && len(r.queue) > 0 {
			out = append(out, mkev(evApply, uint32(r.id), 0, 0))
		}
	}
	for _, r := range c.reps {
		if !c.live(r) || !quiet {
			continue
		}
		id := uint32(r.id)
		isLeader := r.vp.IsLeader()
		if !isLeader && r.kind == kVoter && c.used.timeouts < cfg.Timeouts && r.vp.Term() < cfg.MaxTerm {
			out = append(out, mkev(evTimeout, id, 0, 0))
		}
		if isLeader && c.used.heartbeats < cfg.Heartbeats {
			out = append(out, mkev(evHeartbeat, id, 0, 0))
		}
		if isLeader && c.used.checkQuorums < cfg.CheckQuorums {
			out = append(out, mkev(evCheckQuorum, id, 0, 0))
		}
		if !isLeader && cfg.CheckQuorum && c.used.leases < cfg.Leases && !r.vp.LeaseExpired() {
			out = append(out, mkev(evLease, id, 0, 0))
		}
		if c.used.proposals < cfg.Proposals && r.kind != kWitness && r.vp.LastIndex() < cfg.MaxIndex {
			out = append(out, mkev(evPropose, id, 0, 0))
		}
		if c.used.reads < cfg.Reads && r.kind != kWitness {
			out = append(out, mkev(evRead, id, 0, 0))
		}
		if c.used.confChanges < cfg.ConfChanges && r.kind != kWitness && r.vp.LastIndex() < cfg.MaxIndex {
			for k := range cfg.CCMenu {
				out = append(out, mkev(evConfChange, id, uint32(k), 0))
			}
		}
		if c.used.transfers < cfg.Transfers && isLeader {
			vs, _, _ := r.vp.Members()
			for _, t := range vs {
				if t != r.id {
					out = append(out, mkev(evTransfer, id, uint32(t), 0))
				}
			}
		}
		if c.used.snapshots < cfg.Snapshots && len(r.queue) == 0 && r.kind != kWitness &&
			r.sm.GetLastApplied() > r.ssIndex {
			out = append(out, mkev(evSnapshot, id, 0, 0))
		}
		if c.used.crashes < cfg.Crashes {
			out = append(out, mkev(evCrash, id, 0, 0))
		}
		if c.used.kills < cfg.Kills {
			out = append(out, mkev(evKill, id, 0, 0))
		}
	}
	for _, r := range c.reps {
		if !r.started && !r.stopped && c.joinable(r) {
			out = append(out, mkev(evStartJoiner, uint32(r.id), 0, 0))
		}
	}
	if c.used.dups < cfg.Dups {
		for i := range c.msgs {
			if c.deliverable(i) {
				out = append(out, mkev(evDup, uint32(i), 0, 0))
			}
		}
	}
	if c.used.drops < cfg.Drops {
		for i := range c.msgs {
			if c.deliverable(i) {
				out = append(out, mkev(evDrop, uint32(i), 0, 0))
			}
		}
	}
	if c.used.midCrashes < cfg.MidCrashes {
		for i := range c.msgs {
			if c.deliverable(i) {
				out = append(out, mkev(evMidCrash, uint32(i), 0, 0), mkev(evMidCrash, uint32(i), 1, 0))
			}
		}
	}
	if c.used.partitions < cfg.Partitions && quiet {
		if c.partition != 0 {
			out = append(out, mkev(evHeal, 0, 0, 0))
		} else {
			n := uint(len(c.reps))
			for m := uint32(0); m < 1<<(n-1)-1; m++ {
				// group A always contains the last replica: each split is listed once
				out = append(out, mkev(evPartition, m|1<<(n-1), 0, 0))
			}
		}
	}
	if c.used.reports < cfg.Reports {
		for _, r := range c.reps {
			if c.live(r) && r.vp.IsLeader() {
				for _, t := range c.reps {
					if t.id != r.id {
						if st := r.vp.RemoteState(t.id); st == "Snapshot" {
							out = append(out, mkev(evSnapStatus, uint32(r.id), uint32(t.id), 0),
								mkev(evSnapStatus, uint32(r.id), uint32(t.id), 1))
						} else if st == "Replicate" {
							out = append(out, mkev(evUnreachable, uint32(r.id), uint32(t.id), 0))
						}
					}
				}
			}
		}
	}
	return out
}

// joinable: a joiner may be started once some replica's applied membership
// contains it (the operator starts it after the config change completed, with
// the kind it was added as).
func (c *cluster) joinable(j *replica) bool {
	for _, r := range c.reps {
		if !r.started {
			continue
		}
		m := r.sm.GetMembership()
		kind, ok := kVoter, false
		if _, ok = m.Addresses[j.id]; ok {
			kind = kVoter
		} else if _, ok = m.NonVotings[j.id]; ok {
			kind = kNonVoting
		} else if _, ok = m.Witnesses[j.id]; ok {
			kind = kWitness
		}
		if ok {
			if k0, seen := c.joinKind[j.id]; seen {
				kind = k0 // a replica keeps the configuration it was first added with
			}
			j.kind = kind
			j.cfg.IsNonVoting = kind == kNonVoting
			j.cfg.IsWitness = kind == kWitness
			return true
		}
	}
	return false
}

// cycle is one iteration of the step worker for one replica: node.stepNode +
// engine.processSteps. crashPoint: 0 none, 1 crash after the early Replicate
// sends and before SaveRaftState, 2 crash after SaveRaftState before the
// remaining sends. Returns true when the replica crashed.
func (c *cluster) cycle(r *replica, input func() error, crashPoint int) bool {
	// node.handleEvents: updateAppliedIndex
	r.applied = r.sm.GetLastApplied()
	r.peer.NotifyRaftLastApplied(r.applied)
	unapplied := r.vp.Committed() > r.applied
	term0, role0 := r.vp.Term(), r.vp.Role()
	selfRemoved0 := r.vp.SelfRemoved()
	if input != nil {
		if err := input(); err != nil {
			c.fail("replica %d: handler returned error %v", r.id, err)
			return false
		}
	}
	if role := r.vp.Role(); unapplied && (role == raft.VCandidate || role == raft.VPreVoteCandidate || role == raft.VLeader) &&
		role0 != raft.VLeader && (role != role0 || r.vp.Term() != term0) && !(role0 == raft.VCandidate && role == raft.VLeader) {
		c.fail("C07: replica %d campaigned while committed entries (possibly a membership change) were unapplied", r.id)
	}
	if role := r.vp.Role(); (role == raft.VCandidate || role == raft.VPreVoteCandidate) && (role != role0 || r.vp.Term() != term0) && selfRemoved0 && r.vp.SelfRemoved() {
		c.fail("C18: replica %d, removed from the membership, started a campaign", r.id)
	}
	more := r.sm.TaskQ().MoreEntryToApply()
	if !(r.peer.HasUpdate(more) || r.confirmed != r.applied || r.compactTo > 0) {
		return false
	}
	ud, err := r.peer.GetUpdate(more, r.applied)
	if err != nil {
		c.fail("replica %d: GetUpdate error %v", r.id, err)
		return false
	}
	r.confirmed = r.applied
	c.observeUpdate(r, ud)
	if ud.FastApply {
		c.applySnapshotAndUpdate(r, ud)
	}
	c.sendBatch(ud.Messages, true)
	c.observeReads(r, ud)
	if crashPoint == 1 {
		return true
	}
	if err := c.db.SaveRaftState([]pb.Update{ud}, 1); err != nil {
		panic(err)
	}
	if crashPoint == 2 {
		return true
	}
	if !ud.FastApply {
		c.applySnapshotAndUpdate(r, ud)
	}
	// node.processRaftUpdate
	if err := r.lr.Append(ud.EntriesToSave); err != nil {
		c.fail("replica %d: LogReader.Append %v", r.id, err)
	}
	c.sendBatch(ud.Messages, false)
	if r.compactTo > 0 {
		// node.removeLog
		if err := r.lr.Compact(r.compactTo); err != nil && err != raft.ErrCompacted {
			c.fail("replica %d: LogReader.Compact(%d) %v", r.id, r.compactTo, err)
		}
		c.observeCompaction(r, r.compactTo)
		if err := c.db.RemoveEntriesTo(shardID, r.id, r.compactTo); err != nil {
			panic(err)
		}
		r.compactTo = 0
	}
	r.peer.Commit(ud)
	return false
}

func (c *cluster) applySnapshotAndUpdate(r *replica, ud pb.Update) {
	// node.processSnapshot
	if !pb.IsEmptySnapshot(ud.Snapshot) {
		if err := r.lr.ApplySnapshot(ud.Snapshot); err != nil && err != raft.ErrSnapshotOutOfDate && err != raft.ErrCompacted {
			c.fail("replica %d: ApplySnapshot %v", r.id, err)
		}
		if ud.Snapshot.Index < r.pushed || ud.Snapshot.Index < r.ssIndex || ud.Snapshot.Index < ud.LastApplied {
			c.fail("replica %d: out of date snapshot pushed, index %d pushed %d applied %d", r.id,
				ud.Snapshot.Index, r.pushed, ud.LastApplied)
			return
		}
		r.queue = append(r.queue, rsm.Task{Recover: true, Index: ud.Snapshot.Index})
		r.ssIndex = ud.Snapshot.Index
		r.pushed = ud.Snapshot.Index
	}
	// node.applyRaftUpdates
	ents := pb.EntriesToApply(ud.CommittedEntries, r.pushed, true)
	if len(ents) > 0 {
		cp := make([]pb.Entry, len(ents))
		copy(cp, ents)
		r.queue = append(r.queue, rsm.Task{Entries: cp})
		r.pushed = ents[len(ents)-1].Index
	}
}

// apply runs the apply worker for replica r: StateMachine.Handle over
// everything queued, snapshot tasks executed as node.recover does.
func (c *cluster) apply(r *replica) {
	for len(r.queue) > 0 {
		for _, t := range r.queue {
			c.checkAppliedTask(r, t)
			r.sm.TaskQ().Add(t)
		}
		r.queue = nil
		for {
			t, err := r.sm.Handle(make([]rsm.Task, 0), make([]sm.Entry, 0))
			if err != nil {
				c.fail("replica %d: StateMachine.Handle error %v", r.id, err)
				return
			}
			if !t.IsSnapshotTask() {
				break
			}
			if t.Recover {
				ss, err := r.sm.Recover(t)
				if err != nil && err != raft.ErrSnapshotOutOfDate {
					c.fail("replica %d: StateMachine.Recover error %v", r.id, err)
					return
				}
				if !pb.IsEmptySnapshot(ss) {
					c.observeRecovered(r, ss)
				}
			}
		}
	}
}

// eagerApply runs the apply worker (and the follow-up step cycle) of every
// replica with queued tasks until nothing is queued.
func (c *cluster) eagerApply() (msg string) {
	defer func() {
		if rec := recover(); rec != nil {
			msg = fmt.Sprintf("panic in apply worker: %v", rec)
		} else if c.viol != "" {
			msg = c.viol
		}
	}()
	for again := true; again; {
		again = false
		for _, r := range c.reps {
			if c.live(r) && len(r.queue) > 0 {
				c.apply(r)
				if c.viol == "" && c.live(r) {
					c.cycle(r, nil, 0)
				}
				again = true
			}
		}
	}
	return ""
}

func (c *cluster) snapshot(r *replica) {
	ss, _, err := r.sm.Save(rsm.SSRequest{})
	if err != nil {
		if err == raft.ErrSnapshotOutOfDate {
			return
		}
		c.fail("replica %d: StateMachine.Save error %v", r.id, err)
		return
	}
	// snapshotter.Commit: record in the log store, then LogReader.CreateSnapshot
	if err := c.db.SaveSnapshots([]pb.Update{{ShardID: shardID, ReplicaID: r.id, Snapshot: ss}}); err != nil {
		panic(err)
	}
	if err := r.lr.CreateSnapshot(ss); err != nil {
		if err == raft.ErrSnapshotOutOfDate || err == raft.ErrCompacted {
			return
		}
		c.fail("replica %d: CreateSnapshot %v", r.id, err)
		return
	}
	// compaction overhead 0: everything up to the snapshot index goes
	r.compactTo = ss.Index
	r.ssIndex = ss.Index
}

func (c *cluster) crash(r *replica) {
	close(r.stopC)
	r.started = false
	c.start(r)
}

func (c *cluster) deliver(m pb.Message, crashPoint int) {
	r, ok := c.byID[m.To]
	if !ok || !c.live(r) {
		return
	}
	if m.Type == pb.InstallSnapshot {
		// chunk transfer (C15's subject) is modelled as a copy of the sender's image
		if src, ok := c.byID[m.From]; ok {
			if img, ok := src.ssr.images[m.Snapshot.Index]; ok {
				r.ssr.images[m.Snapshot.Index] = img
			} else if !m.Snapshot.Witness {
				c.fail("leader %d sent InstallSnapshot %d without having the image", m.From, m.Snapshot.Index)
				return
			}
		}
		if m.Snapshot.Witness {
			var b bytes.Buffer
			_, _ = b.Write(rsm.GetEmptyLRUSession())
			r.ssr.images[m.Snapshot.Index] = &ssImage{ss: m.Snapshot, data: b.Bytes()}
		}
	}
	wasLeader, term := r.vp.IsLeader(), r.vp.Term()
	if crashed := c.cycle(r, func() error { return r.peer.Handle(m) }, crashPoint); crashed {
		c.crash(r)
		return
	}
	if wasLeader && m.Term == term && (m.Type == pb.ReplicateResp || m.Type == pb.HeartbeatResp) {
		if r.heardTerm != term || r.heard == nil {
			r.heard, r.heardTerm = map[uint64]bool{}, term
		}
		r.heard[m.From] = true
	}
}

func (c *cluster) Step(e uint32) (msg string) {
	defer func() {
		if rec := recover(); rec != nil {
			msg = fmt.Sprintf("panic in %s: %v", c.describe(e), rec)
		} else if c.viol != "" {
			msg = c.viol
		}
		if msg == "" && !c.cfg.LazyApply {
			msg = c.eagerApply()
		}
		if msg == "" {
			for _, r := range c.reps {
				if r.started {
					r.vp.Normalize()
				}
			}
		}
	}()
	c.steps++
	if c.cfg.MaxDev > 0 {
		if e&(1<<31) != 0 {
			c.spos++
			e &^= 1 << 31
			saved := c.used
			defer func() { c.used = saved }()
		} else if def, ok := c.defaultEvent(); !ok || def != e {
			c.devs++
		}
	}
	k, a, b, d := int(e>>24), (e>>16)&0xff, (e>>8)&0xff, e&0xff
	switch k {
	case evDeliver:
		if c.chanPos(int(a)) > 0 {
			c.used.reorders++
		}
		c.deliver(c.takeMsg(int(a), false), 0)
	case evDup:
		c.used.dups++
		c.deliver(c.takeMsg(int(a), true), 0)
	case evDrop:
		c.used.drops++
		c.takeMsg(int(a), false)
	case evMidCrash:
		c.used.midCrashes++
		c.deliver(c.takeMsg(int(a), false), int(b)+1)
	case evTimeout:
		r := c.byID[uint64(a)]
		c.used.timeouts++
		c.cycle(r, func() error { r.vp.ForceElectionTimeout(); return r.peer.Tick() }, 0)
	case evHeartbeat:
		r := c.byID[uint64(a)]
		c.used.heartbeats++
		c.cycle(r, func() error { r.vp.ForceHeartbeatTimeout(); return r.peer.Tick() }, 0)
	case evCheckQuorum:
		r := c.byID[uint64(a)]
		c.used.checkQuorums++
		wasLeader, term := r.vp.IsLeader(), r.vp.Term()
		heardVoting, voting := 1, 0
		if wasLeader {
			vs, _, ws := r.vp.Members()
			voting = len(vs) + len(ws)
			for _, id := range append(vs, ws...) {
				if id != r.id && r.heardTerm == term && r.heard[id] {
					heardVoting++
				}
			}
		}
		c.cycle(r, func() error { r.vp.ForceCheckQuorumTimeout(); return r.peer.Tick() }, 0)
		if wasLeader && c.cfg.CheckQuorum && c.live(r) && r.vp.IsLeader() && r.vp.Term() == term && heardVoting < voting/2+1 {
			c.fail("C18: leader %d (term %d) passed a CheckQuorum round although only %d of its %d voting members (itself included) had answered it since the previous round", r.id, term, heardVoting, voting)
		}
		r.heard = nil
	case evLease:
		r := c.byID[uint64(a)]
		c.used.leases++
		r.vp.ExpireLease()
	case evPropose:
		r := c.byID[uint64(a)]
		c.used.proposals++
		c.nextVal++
		c.nextKey++
		ent := pb.Entry{Type: pb.ApplicationEntry, Key: c.nextKey, ClientID: 77, SeriesID: 0,
			Cmd: []byte{byte(c.nextVal % 2), c.nextVal}}
		c.cycle(r, func() error { return r.peer.ProposeEntries([]pb.Entry{ent}) }, 0)
	case evRead:
		r := c.byID[uint64(a)]
		c.used.reads++
		ctx := pb.SystemCtx{Low: uint64(len(c.reads) + 1), High: uint64(a)}
		rq := &readReq{ctx: ctx, at: r.id, incarn: r.incarnation}
		for _, o := range c.reps {
			if o.started && o.vp.Committed() > rq.commitAt {
				rq.commitAt = o.vp.Committed()
			}
		}
		c.reads = append(c.reads, rq)
		c.cycle(r, func() error { return r.peer.ReadIndex(ctx) }, 0)
	case evConfChange:
		r := c.byID[uint64(a)]
		c.used.confChanges++
		cc := c.cfg.CCMenu[b]
		if c.cfg.Ordered {
			cc.ConfigChangeId = r.sm.GetMembership().ConfigChangeId
		}
		c.nextKey++
		key := c.nextKey
		c.cycle(r, func() error { return r.peer.ProposeConfigChange(cc, key) }, 0)
	case evTransfer:
		r := c.byID[uint64(a)]
		c.used.transfers++
		c.cycle(r, func() error { return r.peer.RequestLeaderTransfer(uint64(b)) }, 0)
	case evApply:
		r := c.byID[uint64(a)]
		c.apply(r)
		if c.viol == "" && c.live(r) {
			// StepReady: the step worker runs again and learns the applied index
			c.cycle(r, nil, 0)
		}
	case evSnapshot:
		r := c.byID[uint64(a)]
		c.used.snapshots++
		c.snapshot(r)
		if c.viol == "" {
			c.cycle(r, nil, 0)
		}
	case evCrash:
		c.used.crashes++
		c.crash(c.byID[uint64(a)])
	case evSnapStatus:
		r := c.byID[uint64(a)]
		c.used.reports++
		c.cycle(r, func() error { return r.peer.ReportSnapshotStatus(uint64(b), d == 1) }, 0)
	case evUnreachable:
		r := c.byID[uint64(a)]
		c.used.reports++
		c.cycle(r, func() error { return r.peer.ReportUnreachableNode(uint64(b)) }, 0)
	case evPartition:
		c.used.partitions++
		c.partition = a
		var keep []inflight
		for _, it := range c.msgs {
			if !c.crosses(it.m) {
				keep = append(keep, it)
			}
		}
		c.msgs = keep
	case evHeal:
		c.used.partitions++
		c.partition = 0
	case evKill:
		c.used.kills++
		c.byID[uint64(a)].dead = true
	case evStartJoiner:
		if j := c.byID[uint64(a)]; !j.started && !j.stopped && c.joinable(j) {
			c.start(j)
		}
	}
	return ""
}
