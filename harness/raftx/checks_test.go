//go:build verif

package raft_test

import (
	"encoding/json"
	"fmt"
	"os"
	"strings"
	"sync/atomic"
	"testing"

	"github.com/lni/dragonboat/v4/internal/raft"
	"github.com/lni/dragonboat/v4/internal/verifkit"
	"github.com/lni/dragonboat/v4/logger"
	pb "github.com/lni/dragonboat/v4/raftpb"
)

func silence() {
	raft.VSetSliceSizes(8, 2)
	for _, n := range []string{"raft", "rsm", "logdb", "raftpb", "config", "dragonboat", "transport", "utils", "settings"} {
		logger.GetLogger(n).SetLevel(logger.CRITICAL)
	}
}

type xinst struct{ c *cluster }

func (x xinst) Enabled() []uint32    { return x.c.Enabled() }
func (x xinst) Step(e uint32) string { return x.c.Step(e) }
func (x xinst) Canon() []byte        { return x.c.Canon() }
func (x xinst) Check() string        { return x.c.Check() }

// configs per property part. Every configuration is one search (BFS with
// dedup to fixpoint): either over all event orders within budgets (MaxDev=0) or
// deviation-bounded around a scenario script (MaxDev>0).
func configsFor(part string, thorough bool) []*xcfg {
	v3 := []uint64{1, 2, 3}
	pick := func(q, t int) int {
		if thorough {
			return t
		}
		return q
	}
	pickS := func(q, t []string) []string {
		if thorough {
			return t
		}
		return q
	}
	ccMenu := []pb.ConfigChange{
		{Type: pb.AddNode, ReplicaID: 4, Address: "a4"},
		{Type: pb.AddNonVoting, ReplicaID: 4, Address: "a4"},
		{Type: pb.RemoveNode, ReplicaID: 2},
		{Type: pb.RemoveNode, ReplicaID: 1},
		{Type: pb.AddWitness, ReplicaID: 5, Address: "a5"},
		{Type: pb.RemoveNode, ReplicaID: 4},
	}
	switch part {
	case "tune":
		var cfg xcfg
		if err := json.Unmarshal([]byte(os.Getenv("VERIF_RAFTX_CFG")), &cfg); err != nil {
			panic(err)
		}
		return []*xcfg{&cfg}
	case "c02":
		return []*xcfg{
			{Name: "cold-bfs", Voters: v3, Fifo: true, MaxTerm: 3, MaxIndex: 4, Timeouts: 2, Proposals: pick(1, 2)},
			{Name: "warm-bfs-crash", Voters: v3, Fifo: true, WarmLeader: true, MaxTerm: 4, MaxIndex: 5, Timeouts: 1, Proposals: 1, Crashes: 1, Drops: pick(1, 2)},
			{Name: "warm-bfs-lazy-deposed", Voters: v3, Fifo: true, WarmLeader: true, LazyApply: true, MaxTerm: 4, MaxIndex: 7, Timeouts: 1, Proposals: 2, MaxDepth: pick(11, 14)},
			{Name: "warm-bfs-net", Voters: v3, Fifo: true, WarmLeader: true, MaxTerm: 3, MaxIndex: 5, Proposals: pick(1, 2), Drops: 1, Dups: 1, Reorders: 1},
			{Name: "dev-basic", Voters: v3, Fifo: true, MaxDev: pick(2, 3), MaxTerm: 6, MaxIndex: 9, Timeouts: 2, Proposals: 2, Crashes: 1, Drops: 2, Dups: 1, Reorders: 1,
				Script: []string{"T1", "H1", "P1", "P2", "H1"}},
			{Name: "dev-snapshot", Voters: v3, Fifo: true, MaxDev: pick(2, 3), MaxTerm: 6, MaxIndex: 10, Timeouts: 1, Proposals: 1, Crashes: 1, MidCrashes: 1, Snapshots: 1, Drops: 2, Reports: 1,
				Script: []string{"T1", "H1", "P1", "S1", "P2", "H1", "P1", "H1"}},
			{Name: "dev-partition", Voters: v3, Fifo: true, MaxDev: pick(2, 3), MaxTerm: 7, MaxIndex: 10, Timeouts: 2, Proposals: 1, Partitions: 2, Crashes: 1,
				Script: []string{"T1", "H1", "P1", "T2", "H2", "P2", "H2", "P1", "H1", "T3", "H3", "P3", "H3"}},
			{Name: "dev-leaderchange", Voters: v3, Fifo: true, MaxDev: pick(2, 3), MaxTerm: 7, MaxIndex: 10, Timeouts: 2, Proposals: 1, Crashes: 1, MidCrashes: 1, Drops: 3, Transfers: 1,
				Script: []string{"T1", "H1", "P1", "T2", "H2", "P2", "H2"}},
		}
	case "c03":
		return []*xcfg{
			{Name: "3v-elect", Voters: v3, Fifo: true, MaxTerm: 4, MaxIndex: 4, Timeouts: pick(2, 3), Drops: pick(1, 0), Crashes: pick(0, 1)},
			{Name: "3v-elect-crash", Voters: v3, Fifo: true, MaxTerm: 3, MaxIndex: 3, Timeouts: 2, Crashes: pick(0, 1), MidCrashes: 1},
			{Name: "3v-prevote", Voters: v3, Fifo: true, PreVote: true, MaxTerm: 3, MaxIndex: 4, Timeouts: 2, Proposals: pick(0, 1), Crashes: pick(0, 1)},
			{Name: "3v-checkquorum", Voters: v3, Fifo: true, CheckQuorum: true, MaxTerm: 3, MaxIndex: 4, Timeouts: 2, Leases: pick(1, 2), CheckQuorums: 1},
			{Name: "3v-prevote-checkquorum-dev", Voters: v3, Fifo: true, PreVote: true, CheckQuorum: true, MaxDev: pick(2, 3), MaxTerm: 6, MaxIndex: 8,
				Timeouts: 2, Leases: 2, CheckQuorums: 1, Crashes: 1, Drops: 2, Proposals: 1, Script: []string{"T1", "H1", "P1", "T2", "H2"}},
			{Name: "2v+witness", Voters: []uint64{1, 2}, Witnesses: []uint64{3}, Fifo: true, MaxTerm: 3, MaxIndex: 4, Timeouts: 2, Proposals: 1, Crashes: pick(0, 1)},
			{Name: "2v+nonvoting", Voters: []uint64{1, 2}, NonVotings: []uint64{3}, Fifo: true, MaxTerm: 3, MaxIndex: 4, Timeouts: 2, Proposals: 1, Crashes: pick(0, 1)},
			{Name: "1v", Voters: []uint64{1}, Fifo: true, MaxTerm: 4, MaxIndex: 5, Timeouts: 3, Proposals: 2, Crashes: 2},
			{Name: "2v", Voters: []uint64{1, 2}, Fifo: true, MaxTerm: 4, MaxIndex: 5, Timeouts: 3, Proposals: 1, Crashes: 1, Drops: 1},
			{Name: "5v-reelected-leader-dev", Voters: []uint64{1, 2, 3, 4, 5}, Fifo: true, MaxDev: pick(1, 2), MaxTerm: 7, MaxIndex: 12, Partitions: 1, Drops: 1, Timeouts: pick(0, 1),
				// leader 1 replicates an uncommitted tail to 2 only, {3,4,5} elect 3 which overwrites that
				// tail on 2 and on 1, then 1 is elected again (its per-follower progress must start afresh)
				Script: []string{"T1", "H1", "M3", "P1", "P1", "T3", "H3", "M1", "H3", "H3", "E", "H3", "H3", "T1", "H1", "P1", "H1"}},
			{Name: "5v-dev", Voters: []uint64{1, 2, 3, 4, 5}, Fifo: true, MaxDev: 2, MaxTerm: 6, MaxIndex: 8, Timeouts: pick(2, 3), Crashes: 1, Drops: pick(2, 3), Proposals: pick(0, 1),
				Script: pickS([]string{"T1", "P1", "T5"}, []string{"T1", "H1", "P1", "T5", "H5"})},
			{Name: "3v-partition-dev", Voters: v3, Fifo: true, CheckQuorum: true, MaxDev: pick(2, 3), MaxTerm: 7, MaxIndex: 9, Timeouts: 2, Partitions: 2, Leases: 1, CheckQuorums: 1, Proposals: 1,
				Script: []string{"T1", "H1", "P1", "T2", "H2", "T3", "H3", "P3"}},
			{Name: "3v-transfer-dev", Voters: v3, Fifo: true, MaxDev: pick(2, 3), MaxTerm: 6, MaxIndex: 8, Timeouts: 2, Crashes: 1, Drops: 2, Transfers: 1, Proposals: 1, CheckQuorums: 1,
				Script: []string{"T1", "H1", "L1>2", "P1"}},
		}
	case "c06":
		return []*xcfg{
			{Name: "warm-reads-bfs", Voters: v3, Fifo: true, WarmLeader: true, MaxTerm: 3, MaxIndex: 5, Reads: 2, Timeouts: 1, Proposals: 1, Dups: pick(0, 1), MaxDepth: pick(9, 0)},
			{Name: "warm-reads-net", Voters: v3, Fifo: true, WarmLeader: true, MaxTerm: 3, MaxIndex: 5, Reads: 2, Heartbeats: 1, Dups: 1, Reorders: 1, Drops: 1, MaxDepth: pick(9, 0)},
			{Name: "reads-deposed-dev", Voters: v3, Fifo: true, MaxDev: pick(2, 3), MaxTerm: 6, MaxIndex: 9, Reads: 1, Timeouts: pick(1, 2), Proposals: pick(0, 1), Heartbeats: 1, Dups: 1, Reorders: 1, Drops: 2,
				Script: []string{"T1", "H1", "P1", "R1", "H1", "R2", "P2", "R3", "H1"}},
			{Name: "reads-partitioned-old-leader-dev", Voters: v3, NonVotings: []uint64{4}, Fifo: true, MaxDev: pick(2, 3), MaxTerm: 6, MaxIndex: 10, Reads: 1, Partitions: 2, Heartbeats: 1, Dups: 1, Timeouts: 1,
				Script: []string{"T1", "H1", "P1", "T2", "H2", "P2", "H2", "R1", "H1", "R4", "H1", "H1"}},
			{Name: "reads-5v-partitioned-dev", Voters: []uint64{1, 2, 3, 4, 5}, Fifo: true, MaxDev: pick(1, 2), MaxTerm: 6, MaxIndex: 10, Reads: pick(0, 1), Partitions: 1, Heartbeats: pick(1, 2), Dups: pick(0, 1),
				Script: []string{"T1", "P1", "T3", "P3", "H3", "R1", "H1", "R2", "H1", "H1"}},
			{Name: "reads-5v-partial-acks-then-deposed-dev", Voters: []uint64{1, 2, 3, 4, 5}, Fifo: true, MaxDev: pick(2, 2), MaxTerm: 6, MaxIndex: 10, Heartbeats: 1, Drops: 1, Dups: pick(0, 1), Reads: pick(0, 1),
				// a first read collects a partial set of confirmations ({1,3} reachable), then the
				// leader is cut off with 2 while {3,4,5} elect 3 and commit; a second read at 1
				Script: []string{"T1", "H1", "P1", "H1", "M5", "R1", "H1", "M3", "T3", "H3", "P3", "H3", "R1", "H1", "R2", "H1"}},
			{Name: "reads-nonvoting-dev", Voters: v3, NonVotings: []uint64{4}, Fifo: true, MaxDev: pick(2, 3), MaxTerm: 5, MaxIndex: 8, Reads: 2, Timeouts: 1, Proposals: 1, Heartbeats: 1, Dups: 1, Drops: 2,
				Script: []string{"T1", "H1", "P1", "R4", "H1", "R4", "R1"}},
			{Name: "reads-newleader-dev", Voters: v3, Fifo: true, MaxDev: pick(2, 3), MaxTerm: 6, MaxIndex: 9, Reads: 2, Timeouts: 1, Proposals: 1, Heartbeats: 1, Drops: 3,
				Script: []string{"T1", "H1", "P1", "T2", "R2", "R1", "H2", "R2"}},
			{Name: "reads-reelected-leader-dev", Voters: v3, Fifo: true, MaxDev: pick(2, 3), MaxTerm: 8, MaxIndex: 11, Reads: 1, Timeouts: 1, Heartbeats: 1, Drops: 2,
				// replica 1 leads and serves a read, replica 2 takes over and commits a write that 1 holds but does not
				// know to be committed, 1 is elected again: a read before its own-term entry commits must not be served
				Script: []string{"T1", "H1", "P1", "R1", "H1", "T2", "P2", "T1", "R1", "H1", "R1"}},
		}
	case "c07":
		return []*xcfg{
			{Name: "cc-bfs", Voters: v3, Joiners: []uint64{4}, Fifo: true, LazyApply: true, WarmLeader: true, MaxTerm: 3, MaxIndex: 5, ConfChanges: 2, Timeouts: 1,
				CCMenu: ccMenu[:3], MaxDepth: pick(10, 0)},
			{Name: "cc-add-dev", Voters: v3, Joiners: []uint64{4}, Fifo: true, LazyApply: true, MaxDev: pick(2, 3), MaxTerm: 6, MaxIndex: 10, ConfChanges: 1, Timeouts: 2, Crashes: 1, Drops: 2, Proposals: 1,
				CCMenu: ccMenu, Script: []string{"T1", "H1", "C1:0", "H1", "J4", "P1", "H1", "H1"}},
			{Name: "cc-remove-leader-dev", Voters: v3, Fifo: true, LazyApply: true, MaxDev: pick(2, 3), MaxTerm: 6, MaxIndex: 10, ConfChanges: 1, Timeouts: 2, Crashes: 1, Drops: 2, Proposals: 1,
				CCMenu: ccMenu, Script: []string{"T1", "H1", "C2:3", "H1", "T2", "H2", "P2"}},
			{Name: "cc-remove-follower-snapshot-dev", Voters: v3, Fifo: true, LazyApply: true, MaxDev: pick(2, 3), MaxTerm: 6, MaxIndex: 10, ConfChanges: 1, Timeouts: 1, Snapshots: 1, Drops: 2, Proposals: 1, Reports: 1,
				CCMenu: ccMenu, Script: []string{"T1", "H1", "C1:2", "H1", "S1", "P1", "H1"}},
			{Name: "cc-transfer-dev", Voters: v3, Joiners: []uint64{4}, Fifo: true, LazyApply: true, MaxDev: pick(2, 3), MaxTerm: 6, MaxIndex: 10, ConfChanges: 1, Timeouts: 1, Transfers: 1, Drops: 2,
				CCMenu: ccMenu, Script: []string{"T1", "H1", "C1:0", "L1>2", "H1", "H2", "J4", "P2", "H2"}},
			{Name: "cc-after-snapshot-lagging-dev", Voters: v3, Joiners: []uint64{4}, Fifo: true, MaxDev: 2, MaxTerm: 6, MaxIndex: 12, Partitions: 2, Reports: 1, Timeouts: 1,
				CCMenu: ccMenu, Script: []string{"T1", "H1", "P1", "S1", "C1:0", "H1", "P1", "H1", "H1", "J4", "H1"}},
			{Name: "cc-ordered-dev", Voters: v3, Joiners: []uint64{4}, Ordered: true, Fifo: true, LazyApply: true, MaxDev: pick(2, 3), MaxTerm: 5, MaxIndex: 10, ConfChanges: 2, Timeouts: 1, Drops: 2,
				CCMenu: ccMenu, Script: []string{"T1", "H1", "C1:1", "C2:2", "H1", "J4", "H1"}},
		}
	case "c17":
		return []*xcfg{
			{Name: "cold-faults", Voters: v3, Fifo: true, MaxTerm: 3, MaxIndex: 4, Timeouts: 2, Proposals: 1, Drops: 1, MaxDepth: pick(7, 9)},
			{Name: "warm-crash-drop", Voters: v3, Fifo: true, WarmLeader: true, MaxTerm: 4, MaxIndex: 5, Timeouts: 1, Proposals: 1, Crashes: 1, Drops: 2, MaxDepth: pick(6, 8)},
			{Name: "prevote-checkquorum", Voters: v3, Fifo: true, PreVote: true, CheckQuorum: true, MaxTerm: 4, MaxIndex: 5, Timeouts: 2, Leases: 1, CheckQuorums: 1, Drops: 1, Proposals: 1, MaxDepth: pick(6, 8)},
			{Name: "2v+w-one-regular-down-dev", Voters: []uint64{1, 2}, Witnesses: []uint64{3}, Fifo: true, MaxDev: 2, MaxTerm: 6, MaxIndex: 9, Kills: 1, Timeouts: 1, Drops: 1,
				Script: []string{"T1", "H1", "P1", "H1"}},
			{Name: "2v+w-checkquorum-one-down-dev", Voters: []uint64{1, 2}, Witnesses: []uint64{3}, Fifo: true, CheckQuorum: true, MaxDev: 2, MaxTerm: 6, MaxIndex: 9, Kills: 1, Timeouts: 1, CheckQuorums: 1,
				Script: []string{"T1", "H1", "P1", "H1"}},
			{Name: "prevote-only-partition-dev", Voters: v3, Fifo: true, PreVote: true, MaxDev: 2, MaxTerm: 6, MaxIndex: 9, Timeouts: 1, Partitions: 1, Proposals: 1,
				Script: []string{"T1", "H1", "P1", "H1"}},
			{Name: "checkquorum-only-partition-dev", Voters: v3, Fifo: true, CheckQuorum: true, MaxDev: 2, MaxTerm: 6, MaxIndex: 9, Timeouts: 1, Partitions: 1, Leases: 1, Proposals: 1,
				Script: []string{"T1", "H1", "P1", "H1"}},
			{Name: "dev-snapshot-lag", Voters: v3, Fifo: true, MaxDev: 2, MaxTerm: 6, MaxIndex: 10, Timeouts: 1, Proposals: 1, Crashes: 1, Snapshots: 1, Drops: 3, Reports: 1,
				Script: []string{"T1", "H1", "P1", "S1", "P2", "H1"}},
			{Name: "dev-transfer-cc", Voters: v3, Joiners: []uint64{4}, Fifo: true, LazyApply: true, MaxDev: 2, MaxTerm: 6, MaxIndex: 10, Timeouts: 1, ConfChanges: 1, Transfers: 1, Drops: 2, Crashes: 1,
				CCMenu: ccMenu, Script: []string{"T1", "H1", "C1:0", "H1", "J4", "L1>2", "H1"}},
			{Name: "2v+w+nv-faults", Voters: []uint64{1, 2}, Witnesses: []uint64{3}, NonVotings: []uint64{4}, Fifo: true, MaxDev: 2, MaxTerm: 6, MaxIndex: 9, Timeouts: 2, Drops: 3, Crashes: 1, Proposals: 1,
				Script: []string{"T1", "H1", "P1", "H1"}},
		}
	case "c18":
		return []*xcfg{
			{Name: "2v+w-bfs", Voters: []uint64{1, 2}, Witnesses: []uint64{3}, Fifo: true, MaxTerm: 3, MaxIndex: 5, Timeouts: 2, Proposals: 2, Drops: 1, MaxDepth: pick(14, 0)},
			{Name: "1v+w-bfs", Voters: []uint64{1}, Witnesses: []uint64{2}, Fifo: true, MaxTerm: 3, MaxIndex: 5, Timeouts: 2, Proposals: 2, Reads: 1, Drops: 1, Crashes: 1, MaxDepth: pick(16, 0)},
			{Name: "1v+2w-bfs", Voters: []uint64{1}, Witnesses: []uint64{2, 3}, Fifo: true, MaxTerm: 3, MaxIndex: 4, Timeouts: 2, Proposals: 1, Reads: 1, Drops: 1, MaxDepth: pick(12, 0)},
			{Name: "2v+nv-bfs", Voters: []uint64{1, 2}, NonVotings: []uint64{3}, Fifo: true, MaxTerm: 3, MaxIndex: 5, Timeouts: 2, Proposals: 2, Reads: 1, Drops: 1, MaxDepth: pick(12, 0)},
			{Name: "3v+nv-promote-dev", Voters: v3, NonVotings: []uint64{4}, Fifo: true, LazyApply: true, MaxDev: pick(2, 3), MaxTerm: 6, MaxIndex: 10, ConfChanges: pick(0, 1), Timeouts: pick(1, 2), Drops: pick(1, 2), Proposals: pick(0, 1), Crashes: pick(0, 1),
				CCMenu: ccMenu, Script: []string{"T1", "H1", "P1", "C1:0", "H1", "H1", "P4", "H1"}},
			{Name: "2v+w+nv-dev", Voters: []uint64{1, 2}, Witnesses: []uint64{3}, NonVotings: []uint64{4}, Fifo: true, MaxDev: pick(2, 3), MaxTerm: 6, MaxIndex: 10, Timeouts: 2, Drops: 3, Proposals: 2, Snapshots: 1, Crashes: 1, Reads: 1, Reports: 1,
				Script: []string{"T1", "H1", "P1", "S1", "P2", "H1", "R4", "H1"}},
			{Name: "3v+2nv-read-partition-dev", Voters: v3, NonVotings: []uint64{4, 5}, Fifo: true, MaxDev: 2, MaxTerm: 6, MaxIndex: 10, Reads: 1, Partitions: 2, Heartbeats: 1,
				Script: []string{"T1", "H1", "P1", "T2", "H2", "P2", "H2", "R1", "H1", "R4", "H1", "H1"}},
			{Name: "2v+w-read-partition-dev", Voters: []uint64{1, 2}, Witnesses: []uint64{3}, NonVotings: []uint64{4}, Fifo: true, MaxDev: 2, MaxTerm: 6, MaxIndex: 10, Reads: 1, Partitions: 2, Heartbeats: 1, Timeouts: 1,
				Script: []string{"T1", "H1", "P1", "R1", "H1", "T2", "H2", "P2", "H2", "R1", "H1", "R4", "H1"}},
			{Name: "3v-remove-transfer-zombie-dev", Voters: v3, Fifo: true, LazyApply: true, KeepRemovedRunning: true, MaxDev: 2, MaxTerm: 6, MaxIndex: 10, ConfChanges: 1, Transfers: 1, Timeouts: 1, Drops: 1,
				CCMenu: ccMenu, Script: []string{"T1", "H1", "C1:2", "H1", "L1>2", "H1", "H1"}},
			{Name: "3v+2nv-checkquorum-partition-dev", Voters: v3, NonVotings: []uint64{4, 5}, Fifo: true, CheckQuorum: true, MaxDev: 2, MaxTerm: 6, MaxIndex: 10, Partitions: 1, Heartbeats: 1, CheckQuorums: 1, Drops: 1,
				Script: []string{"T1", "H1", "P1", "H1", "Q1", "H1", "Q1", "H1", "Q1"}},
			{Name: "3v+w-remove-witness-snapshot-lagging-dev", Voters: v3, Witnesses: []uint64{4}, Fifo: true, LazyApply: true, MaxDev: 2, MaxTerm: 6, MaxIndex: 12, Timeouts: 1, Drops: 1, Reports: 1,
				// the only witness is removed while replica 3 is cut off; 3 catches up by snapshot
				CCMenu: ccMenu, Script: []string{"T1", "H1", "P1", "H1", "M11", "C1:5", "H1", "P1", "S1", "P1", "H1", "E", "H1", "H1", "T3", "H1"}},
			{Name: "3v-remove-dev", Voters: v3, Fifo: true, LazyApply: true, MaxDev: pick(2, 3), MaxTerm: 6, MaxIndex: 10, ConfChanges: 1, Timeouts: 3, Drops: 2, Proposals: 1,
				CCMenu: ccMenu, Script: []string{"T1", "H1", "C1:2", "H1", "H1", "T2", "P1", "H1"}},
		}
	}
	return nil
}

func keyOfX(msg string) string {
	out := make([]byte, 0, 96)
	for i := 0; i < len(msg) && len(out) < 96; i++ {
		if msg[i] >= '0' && msg[i] <= '9' {
			continue
		}
		out = append(out, msg[i])
	}
	return string(out)
}

func TestVerifRaftx(t *testing.T) {
	silence()
	run := verifkit.Env()
	res := verifkit.NewResult()
	defer run.Finish(res)
	part := os.Getenv("VERIF_RAFTX_PART")
	if part == "" {
		part = run.Part
	}
	cfgs := configsFor(part, run.Thorough())
	// the monitors that may raise an alarm in this check: its own property's and
	// those of the properties its statement includes (C07 includes C02 and C03)
	monitorTags = map[string]map[string]bool{
		"c02": {"C02": true}, "c03": {"C03": true}, "c06": {"C06": true}, "c07": {"C07": true, "C02": true, "C03": true},
		"c17": {"C17": true}, "c18": {"C18": true},
	}[part]
	if os.Getenv("VERIF_ALL_TAGS") != "" {
		monitorTags = nil // development aid: every monitor may alarm
	}
	defer func() {
		suppressedMonitors.Range(func(k, v interface{}) bool {
			res.Extra["monitor_failures_of_other_properties:"+k.(string)] = atomic.LoadInt64(v.(*int64))
			return true
		})
	}()
	res.Rule = "explicit-state BFS with dedup over a cluster of real raft.Peer+LogReader+rsm.StateMachine replicas; events = message deliveries (any order, loss by non-delivery, budgeted duplication), abstract timeouts, proposals, reads, config changes, apply lag, snapshots+compaction, crash/restart (also mid-cycle); evaluation = one transition executed with all invariants checked; distinct_nontrivial = distinct canonical cluster states"
	res.Assumptions = []string{
		"time is abstracted to {fresh, expired} tick counters (sound for safety: over-approximates timings)",
		"the step cycle and INode stub mirror node.stepNode/engine.processSteps/node.go (harness code, ~150 lines)",
		"in-memory ILogDB and snapshot store (contracts checked on the real stores by C09/C10/C14/C16)",
	}
	var rp struct {
		Path []uint32 `json:"path"`
		Cfg  int      `json:"cfg"`
		Fair bool     `json:"fair"`
	}
	if run.Replay != "" {
		run.LoadReplay(&rp)
		cfg := cfgs[rp.Cfg]
		c := newCluster(cfg)
		bad := false
		if msg := c.Check(); msg != "" {
			res.Violate(keyOfX(msg), msg, map[string]interface{}{"path": []uint32{}, "cfg": rp.Cfg})
			bad = true
		}
		for i, e := range rp.Path {
			if bad {
				break
			}
			msg := c.Step(e)
			if msg == "" {
				msg = c.Check()
			}
			if msg != "" {
				res.Violate(keyOfX(msg), msg, map[string]interface{}{"path": rp.Path[:i+1], "cfg": rp.Cfg})
				bad = true
				break
			}
		}
		if rp.Fair && !bad {
			if msg := c.fairSuffix(1600); msg != "" {
				res.Violate(keyOfX(msg), msg, map[string]interface{}{"path": rp.Path, "cfg": rp.Cfg, "fair": true})
			}
		}
		res.Evaluations = int64(len(rp.Path))
		return
	}
	var suffixes int64
	defer func() {
		if suffixes > 0 {
			res.Extra["fair_suffix_runs"] = suffixes
		}
	}()
	mine := 0
	for ci := range cfgs {
		if ci%run.Shards == run.Shard {
			mine++
		}
	}
	for ci, cfg := range cfgs {
		if ci%run.Shards != run.Shard {
			continue
		}
		mine--
		if f := os.Getenv("VERIF_ONLY_CFG"); f != "" && !strings.Contains(cfg.Name, f) {
			res.Cap("development filter VERIF_ONLY_CFG is set")
			continue
		}
		restoreDeadline := run.Slice(mine + 1)
		cfg := cfg
		ci := ci
		sub := verifkit.NewResult()
		desc := newCluster(cfg)
		st := verifkit.BFS(verifkit.BFSConfig{
			New:      func() verifkit.Instance { return xinst{newCluster(cfg)} },
			Describe: desc.describe, MaxDepth: cfg.MaxDepth, MaxStates: run.Pick(1500000, 12000000),
			Workers: 16, Run: run, Res: sub, KeyOf: keyOfX, Chain: cfg.MaxDev > 0 && part != "c17",
			OnState: func(inst verifkit.Instance, path []uint32) {
				if len(path) >= 8 {
					res.Sample(2, verifkit.PathString(path, desc.describe))
				}
				if part == "c17" {
					c := inst.(xinst).c
					msg := c.fairSuffix(400)
					if msg != "" {
						// separate slow from stuck: re-run this state with 4x the rounds
						c2 := newCluster(cfg)
						for _, e := range path {
							c2.Step(e)
						}
						msg = c2.fairSuffix(1600)
						if msg == "" {
							res.Outcome("progress only within 4R rounds")
						}
					}
					if msg != "" {
						res.Outcome("stuck")
						sub.Violate(keyOfX(msg), msg, map[string]interface{}{"path": path, "events": verifkit.PathString(path, desc.describe), "fair": true})
					} else {
						res.Outcome(fmt.Sprintf("progress within %d rounds", (c.fairRounds+19)/20*20))
						atomic.AddInt64(&suffixes, 1)
					}
				}
			},
		})
		for _, v := range sub.Violations {
			m := v.Replay.(map[string]interface{})
			m["cfg"] = ci
			res.Violate(v.Key, v.Desc, m)
		}
		if !sub.Exhaustive {
			res.Cap(fmt.Sprintf("%s: %s", cfg.Name, sub.Capped))
		}
		res.States += st.States
		res.Transitions += st.Transitions
		res.Evaluations += st.Transitions
		res.DistinctNontrivial += st.States
		res.Extra["cfg:"+cfg.Name] = fmt.Sprintf("states=%d transitions=%d depth=%d fixpoint=%v perdepth=%v", st.States, st.Transitions, st.Depth, st.Fixpoint, st.PerDepth)
		res.Extra["bounds:"+cfg.Name] = verifkit.NonZeroFields(cfg)
		restoreDeadline()
	}
}

var _ = pb.NoOP

// TestVerifRaftxCongruence probes the canonical state description of the
// configurations of one part (VERIF_PART): see verifkit.CongruenceProbe.
func TestVerifRaftxCongruence(t *testing.T) {
	if os.Getenv("VERIF_CONGRUENCE") == "" {
		t.Skip("development aid")
	}
	silence()
	n, depth := 3000, 1
	fmt.Sscanf(os.Getenv("VERIF_CONGRUENCE_STATES"), "%d", &n)
	fmt.Sscanf(os.Getenv("VERIF_CONGRUENCE_DEPTH"), "%d", &depth)
	for _, cfg := range configsFor(os.Getenv("VERIF_PART"), false) {
		if f := os.Getenv("VERIF_ONLY_CFG"); f != "" && !strings.Contains(cfg.Name, f) {
			continue
		}
		cfg := cfg
		desc := newCluster(cfg)
		states, compared, bad := verifkit.CongruenceProbe(func() verifkit.Instance { return xinst{newCluster(cfg)} }, desc.describe, n, depth)
		fmt.Printf("CONGRUENCE %s: states=%d pairs=%d disagreements=%d\n", cfg.Name, states, compared, len(bad))
		for _, b := range bad {
			fmt.Println(b)
		}
	}
}
