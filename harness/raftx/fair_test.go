//go:build verif

package raft_test

import (
	"fmt"
	"os"

	pb "github.com/lni/dragonboat/v4/raftpb"
)

// fairSuffix is the bounded-liveness oracle of C17. Starting from the current
// (arbitrary, explored) state it heals the cluster - every replica is running,
// nothing is dropped any more - and runs a fixed fair schedule: in every round
// each live replica ticks once (distinct deterministic election timeouts) and
// then all in-flight messages are delivered oldest first and all apply workers
// run. Within maxRounds rounds a leader must exist, a fresh proposal, a
// ReadIndex at a non-leader, a membership change and a snapshot request must
// complete, and every live replica must catch up with the commit index.
func (c *cluster) fairSuffix(maxRounds int) (msg string) {
	defer func() {
		if rec := recover(); rec != nil {
			msg = fmt.Sprintf("C17: panic in fair suffix: %v", rec)
		}
	}()
	c.fair = true
	c.partition = 0 // heal
	saved := c.cfg
	tmp := *saved
	tmp.MaxDev = 0
	c.cfg = &tmp
	defer func() { c.cfg = saved }()
	for _, r := range c.reps {
		if !r.started && !r.stopped && c.joinable(r) {
			c.start(r)
		}
	}
	setTimeouts := func() {
		for _, r := range c.reps {
			if r.started {
				r.vp.SetElectionTimeoutValue(10 + (r.id*3)%10)
			}
		}
	}
	applyAll := func() {
		for _, r := range c.reps {
			if c.live(r) && len(r.queue) > 0 {
				c.apply(r)
				if c.live(r) {
					c.cycle(r, nil, 0)
				}
				setTimeouts()
			}
		}
	}
	drain := func() string {
		applyAll()
		for n := 0; len(c.msgs) > 0; n++ {
			if n > 5000 {
				return "C17: message storm, in-flight messages never drain"
			}
			best := 0
			for i, it := range c.msgs {
				if it.seq < c.msgs[best].seq {
					best = i
				}
			}
			m := c.takeMsg(best, false)
			c.deliver(m, 0)
			if m.Type == pb.InstallSnapshot {
				// the transport reports the completed snapshot transfer to the sender
				if snd, ok := c.byID[m.From]; ok && c.live(snd) && snd.vp.IsLeader() {
					c.cycle(snd, func() error { return snd.peer.ReportSnapshotStatus(m.To, false) }, 0)
				}
			}
			setTimeouts()
			if c.viol != "" {
				return c.viol
			}
			applyAll()
		}
		applyAll()
		return c.viol
	}
	leader := func() *replica {
		var l *replica
		mt := uint64(0)
		for _, r := range c.reps {
			if c.live(r) && r.vp.Term() > mt {
				mt = r.vp.Term()
			}
		}
		for _, r := range c.reps {
			if c.live(r) && r.vp.IsLeader() && r.vp.Term() == mt {
				if l != nil {
					return nil
				}
				l = r
			}
		}
		return l
	}
	setTimeouts()
	stage := 0
	var propKey, ccKey uint64
	var rd *readReq
	stageAt := 0
	for round := 1; round <= maxRounds; round++ {
		// a snapshot transfer that was lost before the heal is reported as failed
		// by the transport (no InstallSnapshot in flight, remote still waiting)
		for _, r := range c.reps {
			if !c.live(r) || !r.vp.IsLeader() {
				continue
			}
			for _, t := range c.reps {
				if t.id == r.id || r.vp.RemoteState(t.id) != "Snapshot" {
					continue
				}
				inflight := false
				for _, it := range c.msgs {
					if it.m.Type == pb.InstallSnapshot && it.m.From == r.id && it.m.To == t.id {
						inflight = true
					}
				}
				if !inflight {
					t := t
					c.cycle(r, func() error { return r.peer.ReportSnapshotStatus(t.id, true) }, 0)
					setTimeouts()
				}
			}
		}
		for _, r := range c.reps {
			if c.live(r) {
				c.cycle(r, func() error { return r.peer.Tick() }, 0)
				setTimeouts()
				if c.viol != "" {
					return c.viol
				}
			}
		}
		if m := drain(); m != "" {
			return m
		}
		if m := c.Check(); m != "" {
			return m
		}
		l := leader()
		if os.Getenv("VERIF_DEBUG") != "" && (round < 60 || round%100 == 0) {
			fmt.Printf("round %d stage %d %s\n", round, stage, c.summary())
		}
		if l == nil {
			continue
		}
		member := func(r *replica) bool {
			m := l.sm.GetMembership()
			_, a := m.Addresses[r.id]
			_, b := m.NonVotings[r.id]
			_, w := m.Witnesses[r.id]
			return a || b || w
		}
		// a client whose request got no answer for 5 election timeouts retries
		if stage%2 == 1 && round-stageAt > 50 {
			stage--
		}
		switch stage {
		case 0: // leader exists: submit a proposal at the leader
			c.nextKey++
			c.nextVal++
			propKey = c.nextKey
			c.watchKey, c.watchApplied = propKey, map[uint64]bool{}
			ent := pb.Entry{Type: pb.ApplicationEntry, Key: propKey, ClientID: 77, Cmd: []byte{9, c.nextVal}}
			c.cycle(l, func() error { return l.peer.ProposeEntries([]pb.Entry{ent}) }, 0)
			stage, stageAt = 1, round
		case 1: // proposal applied on the leader
			if c.watchApplied[l.id] {
				stage = 2
			} else if c.dropped[propKey] {
				stage = 0 // dropped (e.g. leader transfer in progress): retry, as a client would
			}
		case 2: // linearizable read from another member
			rq := l
			for _, r := range c.reps {
				if c.live(r) && r.id != l.id && r.kind != kWitness && member(r) {
					rq = r
					break
				}
			}
			ctx := pb.SystemCtx{Low: 9000 + uint64(len(c.reads)), High: rq.id}
			rd = &readReq{ctx: ctx, at: rq.id, incarn: rq.incarnation, commitAt: l.vp.Committed()}
			c.reads = append(c.reads, rd)
			c.cycle(rq, func() error { return rq.peer.ReadIndex(ctx) }, 0)
			stage, stageAt = 3, round
		case 3: // read answered
			if rd.answered {
				stage = 4
			} else if rd.dropped {
				stage = 2
			}
		case 4: // membership change
			c.nextKey++
			ccKey = c.nextKey
			cc := pb.ConfigChange{Type: pb.AddNonVoting, ReplicaID: 99, Address: "a99"}
			if c.cfg.Ordered {
				cc.ConfigChangeId = l.sm.GetMembership().ConfigChangeId
			}
			c.cycle(l, func() error { return l.peer.ProposeConfigChange(cc, ccKey) }, 0)
			stage, stageAt = 5, round
		case 5: // membership change applied -> snapshot request on the leader
			if _, ok := c.ccOutcome[ccKey]; ok {
				if l.sm.GetLastApplied() > l.ssIndex {
					c.snapshot(l)
					if c.viol != "" {
						return c.viol
					}
					c.cycle(l, nil, 0)
				}
				stage = 6
			} else if c.dropped[ccKey] {
				stage = 4
			}
		case 6: // every live member catches up
			done := true
			for _, r := range c.reps {
				if c.live(r) && member(r) {
					if r.sm.GetLastApplied() < l.vp.Committed() || r.vp.Committed() < l.vp.Committed() {
						done = false
					}
				}
			}
			if done {
				c.fairRounds = round
				return ""
			}
		}
		_ = stageAt
	}
	l := leader()
	lid := uint64(0)
	if l != nil {
		lid = l.id
	}
	if l == nil && stage == 0 {
		if d := c.noElectableVoter(); d != "" {
			return "C17: no electable voter: " + d
		}
	}
	return fmt.Sprintf("C17: no progress after %d fair rounds: stuck in stage %d (0 no leader, 1 proposal not applied, 3 read not answered, 5 membership change not applied, 6 catch-up), leader %d",
		maxRounds, stage, lid)
}

func (c *cluster) summary() string {
	out := ""
	for _, r := range c.reps {
		if !r.started {
			out += fmt.Sprintf("[%d down stopped=%v] ", r.id, r.stopped)
			continue
		}
		vs, ns, ws := r.vp.Members()
		out += fmt.Sprintf("[%d role=%d t=%d c=%d last=%d app=%d stopped=%v mem=%v/%v/%v pcc=%v] ", r.id, r.vp.Role(), r.vp.Term(),
			r.vp.Committed(), r.vp.LastIndex(), r.sm.GetLastApplied(), r.stopped, vs, ns, ws, r.vp.PendingCC())
		out += r.vp.RateLimitInfo() + " "
	}
	return out + fmt.Sprintf("inflight=%d", len(c.msgs))
}

// noElectableVoter diagnoses one specific reason for a shard without a leader:
// by the election restriction no live full voting member can collect a quorum
// of votes, because a live witness holds a log newer than that of every live
// full voting member (the entry was acknowledged by the former leader and the
// witness only, and the former leader is gone). It returns "" when any live
// full voter could still win an election.
func (c *cluster) noElectableVoter() string {
	last := func(r *replica) (uint64, uint64) {
		li := r.vp.LastIndex()
		return r.vp.LogTerm(li), li
	}
	newer := func(a, b *replica) bool { // a's log is more up to date than b's
		at, ai := last(a)
		bt, bi := last(b)
		return at > bt || (at == bt && ai > bi)
	}
	var fulls, wits []*replica
	for _, r := range c.reps {
		if !c.live(r) || r.vp.SelfRemoved() {
			continue
		}
		switch r.kind {
		case kVoter:
			fulls = append(fulls, r)
		case kWitness:
			wits = append(wits, r)
		}
	}
	for _, v := range fulls {
		vs, _, ws := v.vp.Members()
		in := map[uint64]bool{}
		for _, id := range vs {
			in[id] = true
		}
		for _, id := range ws {
			in[id] = true
		}
		if !in[v.id] {
			continue
		}
		votes := 0
		for _, u := range append(append([]*replica{}, fulls...), wits...) {
			if in[u.id] && !newer(u, v) {
				votes++
			}
		}
		if votes >= v.vp.Quorum() {
			return ""
		}
	}
	for _, w := range wits {
		ahead := len(fulls) > 0
		for _, v := range fulls {
			if !newer(w, v) {
				ahead = false
			}
		}
		if ahead {
			wt, wi := last(w)
			return fmt.Sprintf("a live witness holds a newer log than every live full voting member, which therefore cannot win an election, and a witness never campaigns (witness %d last term %d index %d)", w.id, wt, wi)
		}
	}
	return ""
}
