//go:build verif

package raft_test

import (
	"fmt"
	"sort"

	"github.com/lni/dragonboat/v4/internal/raft"
	"github.com/lni/dragonboat/v4/internal/rsm"
	"github.com/lni/dragonboat/v4/internal/verifkit"
	pb "github.com/lni/dragonboat/v4/raftpb"
	sm "github.com/lni/dragonboat/v4/statemachine"
)

// ---------------------------------------------------------------- observation points

func (c *cluster) maxTerm() uint64 {
	t := uint64(0)
	for _, r := range c.reps {
		if r.started && r.vp.Term() > t {
			t = r.vp.Term()
		}
	}
	return t
}

// observeSend sees every message that leaves a replica.
func (c *cluster) observeSend(m pb.Message) {
	switch m.Type {
	case pb.RequestVoteResp:
		if !m.Reject {
			c.recordVote(m.From, m.Term, m.To)
		}
	case pb.RequestVote:
		c.recordVote(m.From, m.Term, m.From)
	case pb.Replicate:
		if to, ok := c.byID[m.To]; ok && to.kind == kWitness {
			for _, e := range m.Entries {
				if e.Type != pb.ConfigChangeEntry && (len(e.Cmd) > 0 || e.Type != pb.MetadataEntry) {
					c.fail("C18: Replicate to witness %d carries a user entry (index %d type %s, %d payload bytes)",
						m.To, e.Index, e.Type, len(e.Cmd))
				}
			}
		}
	case pb.InstallSnapshot:
		if to, ok := c.byID[m.To]; ok && to.kind == kWitness {
			if !m.Snapshot.Witness || len(m.Snapshot.Files) > 0 || m.Snapshot.Filepath != "" {
				c.fail("C18: InstallSnapshot to witness %d is not a witness snapshot", m.To)
			}
		}
	}
	if from, ok := c.byID[m.From]; ok {
		switch m.Type {
		case pb.RequestVote, pb.RequestPreVote:
			if from.kind != kVoter {
				c.fail("C18: %s sent by replica %d which is not a regular voting member", m.Type, m.From)
			}
		}
	}
}

func (c *cluster) recordVote(voter, term, candidate uint64) {
	k := [2]uint64{voter, term}
	if prev, ok := c.voteOf[k]; ok && prev != candidate {
		c.fail("C03: replica %d granted two votes in term %d: to %d and to %d", voter, term, prev, candidate)
		return
	}
	c.voteOf[k] = candidate
}

func recOf(e pb.Entry) appliedRec { return appliedRec{term: e.Term, typ: e.Type, cmd: string(e.Cmd)} }

// observeUpdate sees every pb.Update at GetUpdate time.
func (c *cluster) observeUpdate(r *replica, ud pb.Update) {
	c.checkCommitJustified(r)
	if ud.LeaderUpdate.Term != 0 && ud.LeaderUpdate.LeaderID == r.id {
		c.recordLeader(r, ud.LeaderUpdate.Term)
	}
	if r.kind == kWitness {
		if len(ud.ReadyToReads) > 0 {
			c.fail("C18: witness %d produced ReadyToRead", r.id)
		}
	}
}

func (c *cluster) recordLeader(r *replica, term uint64) {
	if prev, ok := c.leaderOf[term]; ok && prev != r.id {
		c.fail("C03: two leaders in term %d: replica %d and replica %d", term, prev, r.id)
		return
	}
	if _, ok := c.leaderOf[term]; !ok {
		c.leaderOf[term] = r.id
		if r.kind != kVoter {
			c.fail("C18: replica %d of kind %d became leader", r.id, r.kind)
		}
		// the win must be justified by granted votes of a majority of the voting
		// members (voters + witnesses) the new leader knows; non-voting never count
		vs, _, ws := r.vp.Members()
		voting := append(append([]uint64{}, vs...), ws...)
		n := 0
		for _, v := range voting {
			if c.voteOf[[2]uint64{v, term}] == r.id || v == r.id {
				n++
			}
		}
		if n < len(voting)/2+1 {
			c.fail("C18/C03: replica %d became leader of term %d with %d votes from its %d voting members", r.id, term, n, len(voting))
		}
		if c.onLeader != nil {
			c.onLeader(r)
		}
	}
}

func (c *cluster) observeReads(r *replica, ud pb.Update) {
	for _, e := range ud.DroppedEntries {
		c.dropped[e.Key] = true
	}
	for _, rr := range ud.ReadyToReads {
		for _, q := range c.reads {
			if q.ctx == rr.SystemCtx && q.at == r.id && q.incarn == r.incarnation {
				if rr.Index < q.commitAt {
					c.fail("C06: ReadIndex issued at replica %d when the shard's commit index was %d was answered with index %d",
						r.id, q.commitAt, rr.Index)
				}
				q.answered = true
			}
		}
	}
	for _, ctx := range ud.DroppedReadIndexes {
		for _, q := range c.reads {
			if q.ctx == ctx && q.at == r.id {
				q.dropped = true
			}
		}
	}
}

func (c *cluster) observeCompaction(r *replica, to uint64) {
	ss, _ := c.db.GetSnapshot(shardID, r.id)
	if ss.Index < to {
		c.fail("C08: replica %d compacts its log to %d but its recorded snapshot is at %d", r.id, to, ss.Index)
	}
	if _, ok := r.ssr.images[ss.Index]; !ok && to > 0 {
		c.fail("C08: replica %d compacts to %d without a recoverable snapshot image", r.id, to)
	}
}

func (c *cluster) observeRecovered(r *replica, ss pb.Snapshot) {
	if ss.Index > r.lastUpd {
		r.lastUpd = ss.Index
	}
	if ss.Index > r.taskSeen {
		r.taskSeen = ss.Index
	}
}

// onUserUpdate is called by the user state machine for every Update.
func (c *cluster) onUserUpdate(r *replica, index uint64, cmd []byte) {
	if index <= r.lastUpd {
		c.fail("C02/C11: replica %d user SM Update index %d after %d (not strictly increasing)", r.id, index, r.lastUpd)
	}
	r.lastUpd = index
	if rec, ok := c.appliedLog[index]; ok && r.kind != kWitness {
		if rec.cmd != string(cmd) {
			c.fail("C02: replica %d applies a different payload at index %d", r.id, index)
		}
	}
}

func (c *cluster) onApplyUpdate(r *replica, e pb.Entry, result sm.Result, rejected bool, ignored bool) {
	if c.watchKey != 0 && e.Key == c.watchKey && c.watchApplied != nil {
		c.watchApplied[r.id] = true
	}
}

func (c *cluster) onConfigChangeApplied(r *replica, cc pb.ConfigChange, key uint64, rejected bool) {
	if !rejected {
		if _, seen := c.joinKind[cc.ReplicaID]; !seen {
			switch cc.Type {
			case pb.AddNode:
				c.joinKind[cc.ReplicaID] = kVoter
			case pb.AddNonVoting:
				c.joinKind[cc.ReplicaID] = kNonVoting
			case pb.AddWitness:
				c.joinKind[cc.ReplicaID] = kWitness
			}
		}
	}
	if key == 0 {
		return
	}
	out := [2]uint64{0, r.sm.GetMembershipHash()}
	if rejected {
		out[0] = 1
	}
	if prev, ok := c.ccOutcome[key]; ok {
		if prev != out {
			c.fail("C07: config change (key %d, %s %d) had outcome rejected=%d on one replica and rejected=%d on replica %d (or different membership)",
				key, cc.Type, cc.ReplicaID, prev[0], out[0], r.id)
		}
		return
	}
	c.ccOutcome[key] = out
}

// ---------------------------------------------------------------- invariants

func (c *cluster) logEntry(r *replica, i uint64) (pb.Entry, bool) {
	if i < r.vp.FirstIndex() || i > r.vp.LastIndex() {
		return pb.Entry{}, false
	}
	ents := r.vp.LogEntries(i, i)
	if len(ents) != 1 {
		return pb.Entry{}, false
	}
	return ents[0], true
}

func sameEntry(a, b pb.Entry, witness bool) bool {
	if a.Term != b.Term || a.Index != b.Index {
		return false
	}
	if witness {
		return true
	}
	return a.Type == b.Type && string(a.Cmd) == string(b.Cmd) && a.Key == b.Key
}

// Check evaluates the C02/C03/C07/C18 state invariants.
func (c *cluster) Check() string {
	if c.viol != "" {
		return c.viol
	}
	mt := c.maxTerm()
	for _, r := range c.reps {
		if !r.started {
			continue
		}
		// election safety
		if r.vp.IsLeader() && !r.stopped {
			c.recordLeader(r, r.vp.Term())
		}
		role := r.vp.Role()
		if role == raft.VCandidate || role == raft.VPreVoteCandidate || role == raft.VLeader {
			if r.kind != kVoter {
				c.fail("C18: replica %d of kind %d is in role %d", r.id, r.kind, role)
			}
		}
		// committed entries never change
		first := r.vp.FirstIndex()
		for i := r.vp.Committed(); i >= first && i > 0; i-- {
			e, ok := c.logEntry(r, i)
			if !ok {
				break
			}
			rec, seen := c.committed[i]
			if !seen {
				c.committed[i] = appliedRec{term: e.Term, typ: e.Type, cmd: string(e.Cmd)}
				c.fullRec[i] = r.kind != kWitness
				c.commitBoundSet(i, mt)
				continue
			}
			if rec.term != e.Term || (r.kind != kWitness && c.recFull(i) && (rec.typ != e.Type || rec.cmd != string(e.Cmd))) {
				c.fail("C02: index %d was committed as term %d, replica %d now holds term %d (type %s) below its commit index %d",
					i, rec.term, r.id, e.Term, e.Type, r.vp.Committed())
			}
			if r.kind != kWitness && !c.recFull(i) {
				c.committed[i] = appliedRec{term: e.Term, typ: e.Type, cmd: string(e.Cmd)}
				c.fullRec[i] = true
			}
		}
	}
	if c.viol != "" {
		return c.viol
	}
	// log matching, pairwise
	for ai, a := range c.reps {
		if !a.started {
			continue
		}
		for _, b := range c.reps[ai+1:] {
			if !b.started {
				continue
			}
			lo := a.vp.FirstIndex()
			if b.vp.FirstIndex() > lo {
				lo = b.vp.FirstIndex()
			}
			hi := a.vp.LastIndex()
			if b.vp.LastIndex() < hi {
				hi = b.vp.LastIndex()
			}
			matched := false
			w := a.kind == kWitness || b.kind == kWitness
			for i := hi; i >= lo && i > 0; i-- {
				ea, oka := c.logEntry(a, i)
				eb, okb := c.logEntry(b, i)
				if !oka || !okb {
					break
				}
				if matched {
					if !sameEntry(ea, eb, w) {
						c.fail("C02: log matching broken: replicas %d and %d agree on the term at a higher index but differ at index %d (%d/%s vs %d/%s)",
							a.id, b.id, i, ea.Term, ea.Type, eb.Term, eb.Type)
						return c.viol
					}
				} else if ea.Term == eb.Term {
					matched = true
					if !sameEntry(ea, eb, w) {
						c.fail("C02: replicas %d and %d hold different entries with the same term %d at index %d", a.id, b.id, ea.Term, i)
						return c.viol
					}
				}
			}
		}
	}
	// leader completeness: a leader of term L holds every entry whose commit
	// was observed while all replicas were still below term L
	for _, r := range c.reps {
		if !r.started || !r.vp.IsLeader() || r.stopped {
			continue
		}
		L := r.vp.Term()
		for i, rec := range c.committed {
			if c.commitBound[i] >= L {
				continue
			}
			if i > r.vp.LastIndex() {
				c.fail("C03: leader %d of term %d lacks committed index %d (last index %d)", r.id, L, i, r.vp.LastIndex())
				break
			}
			if e, ok := c.logEntry(r, i); ok && e.Term != rec.term {
				c.fail("C03: leader %d of term %d holds term %d at committed index %d (committed term %d)", r.id, L, e.Term, i, rec.term)
				break
			}
		}
	}
	// equal applied index => equal state
	for ai, a := range c.reps {
		if !a.started || a.kind == kWitness {
			continue
		}
		for _, b := range c.reps[ai+1:] {
			if !b.started || b.kind == kWitness {
				continue
			}
			if a.sm.GetLastApplied() != b.sm.GetLastApplied() {
				continue
			}
			ca, cb := &verifkit.CanonBuf{}, &verifkit.CanonBuf{}
			a.usm.canon(ca)
			b.usm.canon(cb)
			if string(ca.B) != string(cb.B) {
				c.fail("C02: replicas %d and %d both applied index %d but hold different user state", a.id, b.id, a.sm.GetLastApplied())
			} else if a.sm.GetSessionHash() != b.sm.GetSessionHash() {
				c.fail("C02: replicas %d and %d both applied index %d but hold different session tables", a.id, b.id, a.sm.GetLastApplied())
			} else if a.sm.GetMembershipHash() != b.sm.GetMembershipHash() {
				c.fail("C02/C07: replicas %d and %d both applied index %d but hold different membership", a.id, b.id, a.sm.GetLastApplied())
			}
		}
	}
	// at most one unapplied config change in any leader's log (C07)
	for _, r := range c.reps {
		if !r.started || !r.vp.IsLeader() {
			continue
		}
		n := 0
		for _, e := range r.vp.LogEntries(r.sm.GetLastApplied()+1, r.vp.LastIndex()) {
			if e.Type == pb.ConfigChangeEntry {
				n++
			}
		}
		// entries applied by the SM but whose ApplyConfigChange is still pending do not exist here (apply is atomic)
		if n > 1 {
			c.fail("C07: leader %d holds %d unapplied config change entries", r.id, n)
		}
	}
	return c.viol
}

// checkCommitJustified: every commit advance established by a leader must be
// justified by a majority of its voting members (voters + witnesses; non-voting
// members never count) actually holding the entry. Called whenever the
// leader's commit index or membership may have changed (GetUpdate time, around
// ApplyConfigChange / RestoreRemotes), so the membership is the one in force
// when the commit was decided.
func (c *cluster) checkCommitJustified(r *replica) {
	if !r.started || !r.vp.IsLeader() || r.stopped {
		return
	}
	ci := r.vp.Committed()
	if ci <= r.commitChecked {
		return
	}
	r.commitChecked = ci
	t := r.vp.LogTerm(ci)
	if t != r.vp.Term() {
		return // commit index learned, not established by this leader
	}
	vs, _, ws := r.vp.Members()
	voting := append(append([]uint64{}, vs...), ws...)
	n := 0
	for _, v := range voting {
		o, ok := c.byID[v]
		if !ok || !o.started {
			if pt, ok := c.db.Persisted(shardID, v, ci); ok && pt == t {
				n++
			}
			continue
		}
		if o.vp.LogTerm(ci) == t && o.vp.LastIndex() >= ci {
			n++
		} else if pt, ok := c.db.Persisted(shardID, o.id, ci); ok && pt == t {
			n++
		}
	}
	if n < len(voting)/2+1 {
		c.fail("C02/C03/C18: leader %d committed index %d (term %d) held by only %d of its %d voting members", r.id, ci, t, n, len(voting))
	}
}

func (c *cluster) recFull(i uint64) bool { return c.fullRec[i] }

func (c *cluster) commitBoundSet(i uint64, mt uint64) {
	if c.commitBound == nil {
		c.commitBound = map[uint64]uint64{}
	}
	if _, ok := c.commitBound[i]; !ok {
		c.commitBound[i] = mt
	}
}

// checkApplied is called by apply() for every task handed to the state machine.
func (c *cluster) checkAppliedTask(r *replica, t rsm.Task) {
	if t.Recover && t.Index > r.taskSeen {
		r.taskSeen = t.Index
	}
	for _, e := range t.Entries {
		if e.Index <= r.taskSeen {
			continue
		}
		if e.Index != r.taskSeen+1 {
			c.fail("C02: replica %d is handed entry %d for apply after %d (gap)", r.id, e.Index, r.taskSeen)
			return
		}
		r.taskSeen = e.Index
		rec, ok := c.appliedLog[e.Index]
		if !ok {
			if r.kind != kWitness {
				c.appliedLog[e.Index] = recOf(e)
			}
			continue
		}
		if rec.term != e.Term || (r.kind != kWitness && (rec.typ != e.Type || rec.cmd != string(e.Cmd))) {
			c.fail("C02: replica %d applies (term %d,%s) at index %d where another replica applied (term %d,%s)",
				r.id, e.Term, e.Type, e.Index, rec.term, rec.typ)
			return
		}
	}
}

// ---------------------------------------------------------------- canonical state

func (c *cluster) Canon() []byte {
	b := &verifkit.CanonBuf{}
	for _, r := range c.reps {
		b.Sep('R').U(r.id).Bool(r.started).Bool(r.stopped).Bool(r.dead)
		if !r.started {
			continue
		}
		r.vp.Canon(b)
		f, l := r.lr.GetRange()
		b.Sep('l').U(f, l)
		b.Sep('s').U(r.sm.GetLastApplied(), r.sm.GetMembershipHash(), r.sm.GetSessionHash())
		r.usm.canon(b)
		b.U(r.applied, r.confirmed, r.pushed, r.compactTo, r.ssIndex, r.lastUpd, r.taskSeen, r.commitChecked)
		b.Sep('q').U(uint64(len(r.queue)))
		for _, t := range r.queue {
			b.Bool(t.Recover).U(t.Index, uint64(len(t.Entries)))
			if len(t.Entries) > 0 {
				b.U(t.Entries[0].Index)
			}
		}
		// persistent store
		st := c.db.State(shardID, r.id)
		ss, _ := c.db.GetSnapshot(shardID, r.id)
		b.Sep('d').U(st.Term, st.Vote, st.Commit, c.db.MaxIndex(shardID, r.id), ss.Index)
		for i := uint64(1); i <= c.cfg.MaxIndex+2; i++ {
			t, ok := c.db.Persisted(shardID, r.id, i)
			b.U(t).Bool(ok)
		}
		idx := make([]uint64, 0, len(r.ssr.images))
		for k := range r.ssr.images {
			idx = append(idx, k)
		}
		sort.Slice(idx, func(i, j int) bool { return idx[i] < idx[j] })
		b.Sep('i').U(idx...)
	}
	b.Sep('M').U(uint64(len(c.msgs)))
	for _, m := range c.msgs {
		b.S(string(m.key))
	}
	u := c.used
	b.Sep('B').U(uint64(u.timeouts), uint64(u.heartbeats), uint64(u.checkQuorums), uint64(u.leases), uint64(u.proposals),
		uint64(u.reads), uint64(u.confChanges), uint64(u.transfers), uint64(u.snapshots), uint64(u.crashes),
		uint64(u.dups), uint64(u.drops), uint64(u.midCrashes), uint64(u.reports), uint64(u.reorders), uint64(u.partitions), uint64(c.partition), uint64(u.kills))
	b.U(uint64(c.devs), uint64(c.spos))
	b.Sep('H')
	canonMapU(b, c.leaderOf)
	keys := make([][2]uint64, 0, len(c.voteOf))
	for k := range c.voteOf {
		keys = append(keys, k)
	}
	sort.Slice(keys, func(i, j int) bool {
		if keys[i][0] != keys[j][0] {
			return keys[i][0] < keys[j][0]
		}
		return keys[i][1] < keys[j][1]
	})
	for _, k := range keys {
		b.U(k[0], k[1], c.voteOf[k])
	}
	canonRecs(b, c.committed)
	canonMapU(b, c.commitBound)
	canonRecs(b, c.appliedLog)
	{
		ks := make([]uint64, 0, len(c.ccOutcome))
		for k := range c.ccOutcome {
			ks = append(ks, k)
		}
		sort.Slice(ks, func(i, j int) bool { return ks[i] < ks[j] })
		for _, k := range ks {
			b.U(k, c.ccOutcome[k][0], c.ccOutcome[k][1])
		}
	}
	if c.cfg.CheckQuorum {
		for _, r := range c.reps {
			ids := make([]uint64, 0, len(r.heard))
			for id := range r.heard {
				ids = append(ids, id)
			}
			sort.Slice(ids, func(i, j int) bool { return ids[i] < ids[j] })
			b.Sep('h').U(r.heardTerm).U(ids...)
		}
	}
	for _, q := range c.reads {
		// the incarnation counter itself is not state: only whether the request
		// was issued to the incarnation that is running now is ever used
		b.U(q.ctx.Low, q.ctx.High, q.at, q.commitAt).Bool(q.incarn == c.byID[q.at].incarnation).Bool(q.answered).Bool(q.dropped)
	}
	return b.B
}

func canonMapU(b *verifkit.CanonBuf, m map[uint64]uint64) {
	ks := make([]uint64, 0, len(m))
	for k := range m {
		ks = append(ks, k)
	}
	sort.Slice(ks, func(i, j int) bool { return ks[i] < ks[j] })
	b.Sep('m').U(uint64(len(ks)))
	for _, k := range ks {
		b.U(k, m[k])
	}
}

func canonRecs(b *verifkit.CanonBuf, m map[uint64]appliedRec) {
	ks := make([]uint64, 0, len(m))
	for k := range m {
		ks = append(ks, k)
	}
	sort.Slice(ks, func(i, j int) bool { return ks[i] < ks[j] })
	b.Sep('r').U(uint64(len(ks)))
	for _, k := range ks {
		b.U(k, m[k].term, uint64(m[k].typ)).S(m[k].cmd)
	}
}

var _ = fmt.Sprint
