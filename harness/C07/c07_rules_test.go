//go:build verif

// C07 part "rules": the accept/reject rules of membership changes.
//
// Explicit-state BFS to FIXPOINT over the distinct states of the REAL
// rsm.membership struct under the full request alphabet, every transition
// compared with an independently written rule table and with transition /
// state invariants taken from the property statement. A plain enumeration of
// all request sequences up to a small depth (no dedup, real ConfigChangeId
// values) cross-checks the state abstraction used by the BFS.
package rsm

import (
	"fmt"
	"sort"
	"strings"
	"sync"
	"testing"

	"github.com/lni/dragonboat/v4/internal/verifkit"
	"github.com/lni/dragonboat/v4/logger"
	pb "github.com/lni/dragonboat/v4/raftpb"
)

// ---------------------------------------------------------------- alphabet

// address selector 2*k (+1 for the case/space variant): the address of the
// replica id k places after this one (k = 0: its own address, k > 0: a
// collision with the address of another id)
type c07Op struct {
	typ   pb.ConfigChangeType
	id    uint64
	addr  int
	stale bool
}

var (
	c07N   uint64 = 3 // replica ids 1..c07N
	c07Ops []c07Op
)

func c07Addr(id uint64, sel int) string {
	owner := (id-1+uint64(sel/2))%c07N + 1
	return c07AddrNames[owner][sel%2]
}

var c07AddrNames = func() (t [8][2]string) {
	for id := range t {
		t[id][0] = fmt.Sprintf("host%d:6300", id)
		t[id][1] = fmt.Sprintf(" HOST%d:6300 ", id)
	}
	return
}()

func c07BuildOps(n uint64) {
	c07N = n
	c07Ops = nil
	for _, stale := range []bool{false, true} {
		for _, t := range []pb.ConfigChangeType{pb.AddNode, pb.AddNonVoting, pb.AddWitness} {
			for id := uint64(1); id <= n; id++ {
				for s := 0; s < int(2*n); s++ {
					c07Ops = append(c07Ops, c07Op{typ: t, id: id, addr: s, stale: stale})
				}
			}
		}
		for id := uint64(1); id <= n; id++ {
			c07Ops = append(c07Ops, c07Op{typ: pb.RemoveNode, id: id, stale: stale})
		}
	}
}

func c07Describe(e uint32) string {
	op := c07Ops[e]
	cc := "current-ccid"
	if op.stale {
		cc = "stale-ccid"
	}
	if op.typ == pb.RemoveNode {
		return fmt.Sprintf("RemoveNode(%d,%s)", op.id, cc)
	}
	return fmt.Sprintf("%s(%d,%q,%s)", op.typ, op.id, c07Addr(op.id, op.addr), cc)
}

// ---------------------------------------------------------------- independent rule table

// c07M is the reference membership.
type c07M struct {
	v, n, w map[uint64]string
	r       map[uint64]bool
	ccid    uint64
}

func c07NewM() *c07M {
	return &c07M{v: map[uint64]string{}, n: map[uint64]string{}, w: map[uint64]string{}, r: map[uint64]bool{}}
}

func (m *c07M) clone() *c07M {
	c := c07NewM()
	for k, a := range m.v {
		c.v[k] = a
	}
	for k, a := range m.n {
		c.n[k] = a
	}
	for k, a := range m.w {
		c.w[k] = a
	}
	for k := range m.r {
		c.r[k] = true
	}
	c.ccid = m.ccid
	return c
}

// an address names a network endpoint: host names are case-insensitive and
// surrounding blanks carry no meaning
func c07SameAddr(a, b string) bool {
	return strings.ToLower(strings.TrimSpace(a)) == strings.ToLower(strings.TrimSpace(b))
}

func (m *c07M) addrUsedByOther(id uint64, addr string) bool {
	for _, set := range []map[uint64]string{m.v, m.n, m.w} {
		for k, a := range set {
			if k != id && c07SameAddr(a, addr) {
				return true
			}
		}
	}
	return false
}

const (
	c07MustReject = iota
	c07MustAccept
	c07Either // the property statement does not decide this request
)

// c07Decide is the rule table. It is written from the property statement
// only: stale id rejected when ordered; removed ids never return; the last
// voter stays; kind changes only non-voting -> voting with the same address;
// an address in use is not added twice. A request none of these clauses
// speaks against, on a replica id that is new / a current member to remove /
// a non-voting member to promote, has to be applied.
func c07Decide(m *c07M, ordered bool, op c07Op, reqCcid uint64, addr string) (int, string) {
	if ordered && reqCcid != m.ccid {
		return c07MustReject, "stale-ccid"
	}
	_, isV := m.v[op.id]
	_, isN := m.n[op.id]
	_, isW := m.w[op.id]
	if op.typ == pb.RemoveNode {
		if isV && len(m.v) == 1 {
			return c07MustReject, "last-voter"
		}
		if isV || isN || isW {
			return c07MustAccept, "remove-member"
		}
		return c07Either, "remove-non-member"
	}
	if m.r[op.id] {
		return c07MustReject, "removed-id"
	}
	if m.addrUsedByOther(op.id, addr) {
		return c07MustReject, "address-in-use"
	}
	switch op.typ {
	case pb.AddNode:
		switch {
		case isW:
			return c07MustReject, "witness-to-voter"
		case isN:
			if c07SameAddr(m.n[op.id], addr) {
				return c07MustAccept, "promotion"
			}
			return c07MustReject, "promotion-with-other-address"
		case isV:
			return c07Either, "re-add-same-kind"
		}
	case pb.AddNonVoting:
		switch {
		case isV:
			return c07MustReject, "voter-to-nonvoting"
		case isW:
			return c07MustReject, "witness-to-nonvoting"
		case isN:
			return c07Either, "re-add-same-kind"
		}
	case pb.AddWitness:
		switch {
		case isV:
			return c07MustReject, "voter-to-witness"
		case isN:
			return c07MustReject, "nonvoting-to-witness"
		case isW:
			return c07Either, "re-add-same-kind"
		}
	}
	return c07MustAccept, "add-new"
}

func (m *c07M) apply(op c07Op, addr string, index uint64) {
	m.ccid = index
	switch op.typ {
	case pb.AddNode:
		delete(m.n, op.id)
		m.v[op.id] = addr
	case pb.AddNonVoting:
		m.n[op.id] = addr
	case pb.AddWitness:
		m.w[op.id] = addr
	case pb.RemoveNode:
		delete(m.v, op.id)
		delete(m.n, op.id)
		delete(m.w, op.id)
		m.r[op.id] = true
	}
}

// ---------------------------------------------------------------- instance

type c07 struct {
	ordered      bool
	m            membership // the REAL struct
	model        *c07M
	index        uint64
	prev         uint64 // ConfigChangeId before the last applied change
	hasPrev      bool
	abstractCcid bool
	classes      map[string]int64
}

func c07Init(which int) pb.Membership {
	m := pb.Membership{Addresses: map[uint64]string{}, NonVotings: map[uint64]string{},
		Witnesses: map[uint64]string{}, Removed: map[uint64]bool{}}
	m.Addresses[1] = c07Addr(1, 0)
	if which == 1 {
		m.Addresses[2] = c07Addr(2, 0)
		m.NonVotings[3] = c07Addr(3, 0)
	}
	return m
}

func c07New(ordered bool, which int) *c07 {
	c := &c07{ordered: ordered, m: newMembership(1, 1, ordered), model: c07NewM(), index: 10, abstractCcid: true}
	ini := c07Init(which)
	c.m.set(ini)
	for k, a := range ini.Addresses {
		c.model.v[k] = a
	}
	for k, a := range ini.NonVotings {
		c.model.n[k] = a
	}
	return c
}

func (c *c07) Enabled() []uint32 {
	out := make([]uint32, len(c07Ops))
	for i := range out {
		out[i] = uint32(i)
	}
	return out
}

var c07KindNames = [16]string{"-", "V", "N", "VN", "W", "VW", "NW", "VNW", "R", "VR", "NR", "VNR", "WR", "VWR", "NWR", "VNWR"}

func c07Kind(m *pb.Membership, id uint64) string {
	k := 0
	if _, ok := m.Addresses[id]; ok {
		k |= 1
	}
	if _, ok := m.NonVotings[id]; ok {
		k |= 2
	}
	if _, ok := m.Witnesses[id]; ok {
		k |= 4
	}
	if m.Removed[id] {
		k |= 8
	}
	return c07KindNames[k]
}

func c07CopyPB(m *pb.Membership) pb.Membership {
	c := pb.Membership{ConfigChangeId: m.ConfigChangeId, Addresses: map[uint64]string{}, NonVotings: map[uint64]string{},
		Witnesses: map[uint64]string{}, Removed: map[uint64]bool{}}
	for k, a := range m.Addresses {
		c.Addresses[k] = a
	}
	for k, a := range m.NonVotings {
		c.NonVotings[k] = a
	}
	for k, a := range m.Witnesses {
		c.Witnesses[k] = a
	}
	for k, b := range m.Removed {
		c.Removed[k] = b
	}
	return c
}

func c07MapEq(a, b map[uint64]string) bool {
	if len(a) != len(b) {
		return false
	}
	for k, x := range a {
		if y, ok := b[k]; !ok || x != y {
			return false
		}
	}
	return true
}

func (c *c07) sameAsModel() bool {
	r := &c.m.members
	if !c07MapEq(r.Addresses, c.model.v) || !c07MapEq(r.NonVotings, c.model.n) || !c07MapEq(r.Witnesses, c.model.w) {
		return false
	}
	if len(r.Removed) != len(c.model.r) {
		return false
	}
	for k, b := range r.Removed {
		if !b || !c.model.r[k] {
			return false
		}
	}
	return r.ConfigChangeId == c.model.ccid
}

func c07PBEq(a, b *pb.Membership) bool {
	if !c07MapEq(a.Addresses, b.Addresses) || !c07MapEq(a.NonVotings, b.NonVotings) || !c07MapEq(a.Witnesses, b.Witnesses) {
		return false
	}
	if len(a.Removed) != len(b.Removed) {
		return false
	}
	for k, x := range a.Removed {
		if y, ok := b.Removed[k]; !ok || x != y {
			return false
		}
	}
	return a.ConfigChangeId == b.ConfigChangeId
}

func (c *c07) class(s string) {
	if c.classes != nil {
		c.classes[s]++
	}
}

func (c *c07) Step(ev uint32) (msg string) {
	op := c07Ops[ev]
	defer func() {
		if r := recover(); r != nil {
			msg = fmt.Sprintf("panic in %s: %v", c07Describe(ev), r)
		}
	}()
	addr := ""
	if op.typ != pb.RemoveNode {
		addr = c07Addr(op.id, op.addr)
	}
	cur := c.m.members.ConfigChangeId
	req := cur
	if op.stale {
		if c.hasPrev {
			req = c.prev
		} else {
			req = cur + 1000
		}
	}
	c.index++
	cc := pb.ConfigChange{ConfigChangeId: req, Type: op.typ, ReplicaID: op.id, Address: addr}
	before := c07CopyPB(&c.m.members)
	verdict, why := c07Decide(c.model, c.ordered, op, req, addr)
	accepted := c.m.handleConfigChange(cc, c.index)
	after := &c.m.members
	name := func() string { return fmt.Sprintf("%s ordered=%v", op.typ, c.ordered) }
	// ---- clauses taken directly from the statement, evaluated on the real struct
	if c.ordered && op.stale && (accepted || !c07PBEq(&before, after)) {
		return fmt.Sprintf("stale ConfigChangeID accepted with ordered config change (%s)", op.typ)
	}
	for id := range before.Removed {
		if !after.Removed[id] {
			return "a replica id left the removed set"
		}
	}
	for id := uint64(1); id <= c07N; id++ {
		kb, ka := c07Kind(&before, id), c07Kind(after, id)
		if kb == ka {
			continue
		}
		if kb == "R" {
			return fmt.Sprintf("a removed replica id was admitted again (%s -> %s by %s)", kb, ka, op.typ)
		}
		ok := (kb == "-" && (ka == "V" || ka == "N" || ka == "W")) || (kb == "N" && ka == "V") || ka == "R"
		if !ok {
			return fmt.Sprintf("replica changed kind %s -> %s by %s", kb, ka, op.typ)
		}
		if kb == "N" && ka == "V" && !c07SameAddr(before.NonVotings[id], after.Addresses[id]) {
			return "promotion changed the address of the replica"
		}
	}
	if !accepted && !c07PBEq(&before, after) {
		return fmt.Sprintf("rejected %s changed the membership", op.typ)
	}
	// ---- rule table
	switch {
	case verdict == c07MustReject && accepted:
		return fmt.Sprintf("request that must be rejected (%s) was accepted [%s]", why, name())
	case verdict == c07MustAccept && !accepted:
		return fmt.Sprintf("valid request (%s) was rejected [%s]", why, name())
	}
	if accepted {
		c.model.apply(op, addr, c.index)
		c.prev, c.hasPrev = cur, true
		c.class("accepted:" + why)
	} else {
		c.class("rejected:" + why)
	}
	if !c.sameAsModel() {
		return fmt.Sprintf("membership after %s %s (%s) differs from the expected one", map[bool]string{true: "accepted", false: "rejected"}[accepted], op.typ, why)
	}
	return ""
}

// Check: state invariants on the REAL struct.
func (c *c07) Check() string {
	r := &c.m.members
	if len(r.Addresses) < 1 {
		return "no voting member left"
	}
	seen := map[uint64]string{}
	for _, set := range []struct {
		n string
		m map[uint64]string
	}{{"voters", r.Addresses}, {"non-votings", r.NonVotings}, {"witnesses", r.Witnesses}} {
		for id := range set.m {
			if o, ok := seen[id]; ok {
				return fmt.Sprintf("replica id in both %s and %s", o, set.n)
			}
			seen[id] = set.n
			if r.Removed[id] {
				return fmt.Sprintf("replica id in both %s and removed", set.n)
			}
		}
	}
	type ia struct {
		id uint64
		a  string
	}
	var all []ia
	for _, set := range []map[uint64]string{r.Addresses, r.NonVotings, r.Witnesses} {
		for id, a := range set {
			all = append(all, ia{id, a})
		}
	}
	for i := range all {
		for j := i + 1; j < len(all); j++ {
			if all[i].id != all[j].id && c07SameAddr(all[i].a, all[j].a) {
				return "one address is in use by two replica ids"
			}
		}
	}
	g := c.m.get()
	if !c07PBEq(&g, r) {
		return "get() returns a membership different from the current one"
	}
	return ""
}

func (c *c07) Canon() []byte {
	b := &verifkit.CanonBuf{}
	r := &c.m.members
	for ti, set := range []map[uint64]string{r.Addresses, r.NonVotings, r.Witnesses} {
		ids := make([]uint64, 0, len(set))
		for id := range set {
			ids = append(ids, id)
		}
		sort.Slice(ids, func(i, j int) bool { return ids[i] < ids[j] })
		b.Sep(byte('a' + ti))
		for _, id := range ids {
			b.U(id).S(set[id])
		}
	}
	ids := make([]uint64, 0, len(r.Removed))
	for id, v := range r.Removed {
		if v {
			ids = append(ids, id)
		} else {
			ids = append(ids, id|1<<40)
		}
	}
	sort.Slice(ids, func(i, j int) bool { return ids[i] < ids[j] })
	b.Sep('r').U(ids...)
	if c.abstractCcid {
		// the code only ever tests ConfigChangeId for equality with the request
		// and the alphabet is relative (current / not current): the value itself
		// does not influence the future
		b.Sep('c').Bool(r.ConfigChangeId == 0)
	} else {
		b.Sep('c').U(r.ConfigChangeId, c.index)
	}
	return b.B
}

func c07KeyOf(msg string) string {
	out := make([]byte, 0, len(msg))
	for i := 0; i < len(msg) && len(out) < 120; i++ {
		if msg[i] >= '0' && msg[i] <= '9' {
			continue
		}
		out = append(out, msg[i])
	}
	return "C07:rules:" + string(out)
}

// ---------------------------------------------------------------- cross-check: all sequences, no dedup

type c07Seq struct {
	ordered bool
	which   int
	depth   int
	res     *verifkit.Result
	cfg     int
	seqs    int64
	steps   int64
	states  map[string]int // canonical (abstract) state -> min depth
	run     *verifkit.Run
	stop    bool
}

func (c *c07) cloneForSearch() *c07 {
	n := &c07{ordered: c.ordered, model: c.model.clone(), index: c.index, prev: c.prev, hasPrev: c.hasPrev,
		abstractCcid: c.abstractCcid, classes: c.classes}
	// harness-made copy of the plain data struct (set()/get() are not trusted here)
	n.m = membership{shardID: c.m.shardID, replicaID: c.m.replicaID, ordered: c.m.ordered, members: c07CopyPB(&c.m.members)}
	return n
}

func (s *c07Seq) dfs(c *c07, path []uint32) {
	key := string(c.Canon())
	if d, ok := s.states[key]; !ok || len(path) < d {
		s.states[key] = len(path)
	}
	if len(path) == s.depth {
		s.seqs++
		if s.seqs%65536 == 0 && s.run.Expired() {
			s.res.Cap("deadline reached in the sequence cross-check")
			s.stop = true
		}
		return
	}
	for ev := range c07Ops {
		if s.stop {
			return
		}
		n := c.cloneForSearch()
		np := append(path, uint32(ev))
		s.steps++
		msg := n.Step(uint32(ev))
		if msg == "" {
			msg = n.Check()
		}
		if msg != "" {
			cp := append([]uint32(nil), np...)
			if s.res.Violate(c07KeyOf(msg), msg, map[string]interface{}{"path": cp, "events": verifkit.PathString(cp, c07Describe), "cfg": s.cfg}) {
				s.stop = true
			}
			continue
		}
		s.dfs(n, np)
	}
}

// first applies the first request of a sequence on a fresh instance and
// explores everything below it.
func (s *c07Seq) first(n *c07, ev uint32) {
	np := []uint32{ev}
	s.steps++
	msg := n.Step(ev)
	if msg == "" {
		msg = n.Check()
	}
	if msg != "" {
		if s.res.Violate(c07KeyOf(msg), msg, map[string]interface{}{"path": np, "events": verifkit.PathString(np, c07Describe), "cfg": s.cfg}) {
			s.stop = true
		}
		return
	}
	s.dfs(n, np)
}

// ---------------------------------------------------------------- driver

func TestVerifC07Rules(t *testing.T) {
	logger.GetLogger("rsm").SetLevel(logger.CRITICAL)
	run := verifkit.Env()
	res := verifkit.NewResult()
	defer run.Finish(res)
	c07BuildOps(uint64(run.Pick(3, 4)))
	type cfgT struct {
		ordered bool
		which   int
	}
	cfgs := []cfgT{{false, 0}, {true, 0}, {false, 1}, {true, 1}}
	res.Rule = fmt.Sprintf("BFS with dedup to FIXPOINT (no depth bound) over the distinct states of the real rsm.membership struct (voters/non-votings/witnesses with literal addresses, removed set; ConfigChangeId abstracted to zero/non-zero because only equality with the request matters) under %d requests {AddNode, AddNonVoting, AddWitness} x ids {1..%d} x address {own, the address of each other id (collision with a voter, non-voting or witness), and a case/space variant of each} + RemoveNode x ids, each x ConfigChangeId {current, stale}; four searches: ordered config change {off, on} x initial membership {1 voter; 2 voters + 1 non-voting}; evaluation = one transition executed on the real struct and compared with the rule table + transition and state invariants; distinct_nontrivial = distinct reachable states of the real struct; plus a cross-check enumerating ALL request sequences to a small depth without dedup and with real ConfigChangeId values, whose set of reached abstract states per depth must equal the BFS levels", len(c07Ops), c07N)
	res.Assumptions = []string{
		"two addresses are 'the same address' when they are equal after trimming blanks and ignoring case (host names are case-insensitive)",
		"requests the statement does not decide (re-adding a member with its own kind, removing an id that is not a member) may go either way, the resulting membership must still be the plain application or unchanged",
		"ConfigChange.Initialize (bootstrap) is not part of the alphabet",
	}
	if run.Replay != "" {
		var rp struct {
			Path []uint32 `json:"path"`
			Cfg  int      `json:"cfg"`
		}
		run.LoadReplay(&rp)
		cf := cfgs[rp.Cfg]
		inst := c07New(cf.ordered, cf.which)
		for i, e := range rp.Path {
			msg := inst.Step(e)
			if msg == "" {
				msg = inst.Check()
			}
			if msg != "" {
				p := rp.Path[:i+1]
				res.Violate(c07KeyOf(msg), msg, map[string]interface{}{"path": p, "events": verifkit.PathString(p, c07Describe), "cfg": rp.Cfg})
				break
			}
		}
		res.Evaluations = int64(len(rp.Path))
		return
	}
	classes := map[string]int64{}
	seqDepth := 3
	for ci, cf := range cfgs {
		if ci%run.Shards != run.Shard {
			continue
		}
		cf, ci := cf, ci
		sub := verifkit.NewResult()
		st := verifkit.BFS(verifkit.BFSConfig{
			New:      func() verifkit.Instance { return c07New(cf.ordered, cf.which) },
			Describe: c07Describe, MaxDepth: 0, MaxStates: 2000000, Workers: 4, Run: run, Res: sub, KeyOf: c07KeyOf,
			OnState: func(inst verifkit.Instance, path []uint32) {
				if len(path) == 4 {
					res.Sample(2, verifkit.PathString(path, c07Describe))
				}
			},
		})
		for _, v := range sub.Violations {
			m := v.Replay.(map[string]interface{})
			m["cfg"] = ci
			res.Violate(v.Key, v.Desc, m)
		}
		if !sub.Exhaustive {
			res.Cap(sub.Capped)
		}
		if !st.Fixpoint && sub.NViolations() == 0 && sub.Exhaustive {
			res.Cap("BFS ended without reaching a fixpoint")
		}
		res.States += st.States
		res.Transitions += st.Transitions
		res.Evaluations += st.Transitions
		res.DistinctNontrivial += st.States
		res.Extra[fmt.Sprintf("cfg%d", ci)] = fmt.Sprintf("ordered=%v init=%d states=%d transitions=%d depth=%d fixpoint=%v per_depth=%v",
			cf.ordered, cf.which, st.States, st.Transitions, st.Depth, st.Fixpoint, st.PerDepth)
		// outcome classes: one pass over all reachable states is what the BFS
		// did; recount them on a sequential re-walk of depth <= seqDepth below
		if sub.NViolations() > 0 {
			continue
		}
		// ---- cross-check without dedup
		// parallel over the first request; per-worker statistics merged below
		sq := &c07Seq{ordered: cf.ordered, which: cf.which, depth: seqDepth, res: res, cfg: ci, states: map[string]int{}, run: run}
		{
			root := c07New(cf.ordered, cf.which)
			sq.states[string(root.Canon())] = 0
			const workers = 4
			subs := make([]*c07Seq, workers)
			cls := make([]map[string]int64, workers)
			var wg sync.WaitGroup
			for w := 0; w < workers; w++ {
				w := w
				subs[w] = &c07Seq{ordered: cf.ordered, which: cf.which, depth: seqDepth, res: res, cfg: ci, states: map[string]int{}, run: run}
				cls[w] = map[string]int64{}
				wg.Add(1)
				go func() {
					defer wg.Done()
					for ev := range c07Ops {
						if ev%workers != w {
							continue
						}
						n := c07New(cf.ordered, cf.which)
						n.classes = cls[w]
						subs[w].first(n, uint32(ev))
					}
				}()
			}
			wg.Wait()
			for w := 0; w < workers; w++ {
				sq.seqs += subs[w].seqs
				sq.steps += subs[w].steps
				sq.stop = sq.stop || subs[w].stop
				for k, d := range subs[w].states {
					if o, ok := sq.states[k]; !ok || d < o {
						sq.states[k] = d
					}
				}
				for k, v := range cls[w] {
					classes[k] += v
				}
			}
		}
		res.Evaluations += sq.steps
		res.Extra[fmt.Sprintf("cfg%d_sequences", ci)] = fmt.Sprintf("all %d sequences of length %d (%d steps), %d distinct abstract states", sq.seqs, seqDepth, sq.steps, len(sq.states))
		if sq.stop {
			continue
		}
		// the states reached by sequences of length <= d must be exactly the BFS levels 0..d
		perDepth := make([]int64, seqDepth+1)
		for _, d := range sq.states {
			perDepth[d]++
		}
		for d := 0; d <= seqDepth; d++ {
			var want int64
			if d < len(st.PerDepth) {
				want = st.PerDepth[d]
			}
			if perDepth[d] != want {
				msg := fmt.Sprintf("state abstraction cross-check failed: %d states first reached at depth %d by plain enumeration, BFS level has %d", perDepth[d], d, want)
				res.Violate("C07:rules:harness-dedup-crosscheck", msg, map[string]interface{}{"path": []uint32{}, "cfg": ci})
			}
		}
	}
	for k, v := range classes {
		res.Outcomes[k] += v
	}
}
