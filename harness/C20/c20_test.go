//go:build verif

// C20: quorum-loss repair by tools.ImportSnapshot yields the exported state
// and the given members. Exhaustive configuration enumeration on REAL
// NodeHosts (in-memory FS, chan transport), see NOTES.md.
package tools

import (
	"bufio"
	"bytes"
	"context"
	"crypto/sha256"
	"encoding/hex"
	"encoding/json"
	"fmt"
	"io"
	"os"
	"os/exec"
	"runtime"
	"sort"
	"strconv"
	"strings"
	"sync"
	"sync/atomic"
	"testing"
	"time"

	gvfs "github.com/lni/vfs"

	dragonboat "github.com/lni/dragonboat/v4"
	"github.com/lni/dragonboat/v4/config"
	"github.com/lni/dragonboat/v4/internal/server"
	"github.com/lni/dragonboat/v4/internal/verifkit"
	"github.com/lni/dragonboat/v4/internal/vfs"
	"github.com/lni/dragonboat/v4/logger"
	chantrans "github.com/lni/dragonboat/v4/plugin/chan"
	"github.com/lni/dragonboat/v4/plugin/tan"
	"github.com/lni/dragonboat/v4/raftio"
	sm "github.com/lni/dragonboat/v4/statemachine"
)

// ---------------------------------------------------------------------------
// configuration space
// ---------------------------------------------------------------------------

const (
	c20Shard = uint64(20)
	// replica ids: 1..3 initial members on hosts 1..3, 4 = added voting member
	// (A), 5 = added non-voting (N), 6 = added witness (W); all three live on
	// host 4 and are never started before the export. 11.. = brand new ids.
	c20AddID   = uint64(4)
	c20NonVID  = uint64(5)
	c20WitID   = uint64(6)
	c20NewBase = uint64(11)
	c20Hosts   = 4
)

// c20Cfg is one enumerated configuration.
type c20Cfg struct {
	SM   string `json:"sm"`   // regular | concurrent | ondisk
	DB   string `json:"db"`   // pebble | tan
	N0   int    `json:"n0"`   // initial replicas 1..N0 on hosts 1..N0
	Hist string `json:"hist"` // P proposal, A/N/W add voting/non-voting/witness, D delete replica N0, S regular snapshot on all, E export point (exactly one)
	List string `json:"list"` // same | subset | single | singlelast | allnew | mix
	// Corrupt selects the byte-enumeration refusal families run in this
	// configuration: "" none, "meta", "data", "meta+data"
	Corrupt string `json:"corrupt,omitempty"`
	// WAL: the NodeHosts keep their log store's write-ahead log in a separate
	// directory (NodeHostConfig.WALDir != NodeHostDir)
	WAL bool `json:"wal,omitempty"`
}

func (c c20Cfg) id() string {
	s := fmt.Sprintf("%s/%s/n%d/%s/%s", c.SM, c.DB, c.N0, c.Hist, c.List)
	if c.WAL {
		s += "/waldir"
	}
	return s
}

// c20Job is what a child process executes.
type c20Job struct {
	Cfg c20Cfg `json:"cfg"`
	// Only restricts the run to one oracle clause (replay): "" everything,
	// "main" only the import+restart oracle, otherwise a refusal case id.
	Only string `json:"only,omitempty"`
	// Masks are the xor masks used for byte enumeration of the data file,
	// MetaMasks those of the metadata file.
	Masks     []int `json:"masks,omitempty"`
	MetaMasks []int `json:"meta_masks,omitempty"`
	// DataStride enumerates every DataStride-th uncovered data byte (covered
	// bytes are always all enumerated).
	DataStride int `json:"data_stride,omitempty"`
	LiveS      int `json:"live_s,omitempty"`
}

type c20Viol struct {
	Key  string `json:"key"`
	Desc string `json:"desc"`
	Only string `json:"only"`
}

// c20Rec is the result of one configuration.
type c20Rec struct {
	ID        string           `json:"id"`
	Outcomes  map[string]int64 `json:"outcomes"`
	Viol      []c20Viol        `json:"viol,omitempty"`
	Evals     int64            `json:"evals"`
	Nontriv   bool             `json:"nontriv"`
	Note      string           `json:"note,omitempty"`
	WallMs    int64            `json:"wall_ms"`
	MetaBytes int              `json:"meta_bytes,omitempty"`
	DataBytes int              `json:"data_bytes,omitempty"`
	TreeBytes int64            `json:"tree_bytes,omitempty"`
}

func (r *c20Rec) out(k string) { r.Outcomes[k]++ }
func (r *c20Rec) violate(key, desc, only string) {
	for _, v := range r.Viol {
		if v.Key == key {
			return
		}
	}
	if len(desc) > 1500 {
		desc = desc[:1500]
	}
	r.Viol = append(r.Viol, c20Viol{Key: key, Desc: desc, Only: only})
}

// model of the membership at a point of the history
type c20Members struct {
	Voting  map[uint64]int // replica id -> host
	NonV    map[uint64]int
	Wit     map[uint64]int
	Removed map[uint64]bool
}

func newC20Members(n0 int) *c20Members {
	m := &c20Members{Voting: map[uint64]int{}, NonV: map[uint64]int{}, Wit: map[uint64]int{}, Removed: map[uint64]bool{}}
	for i := 1; i <= n0; i++ {
		m.Voting[uint64(i)] = i
	}
	return m
}

func (m *c20Members) clone() *c20Members {
	n := newC20Members(0)
	for k, v := range m.Voting {
		n.Voting[k] = v
	}
	for k, v := range m.NonV {
		n.NonV[k] = v
	}
	for k, v := range m.Wit {
		n.Wit[k] = v
	}
	for k, v := range m.Removed {
		n.Removed[k] = v
	}
	return n
}

func c20SortedIDs(m map[uint64]int) []uint64 {
	ids := make([]uint64, 0, len(m))
	for k := range m {
		ids = append(ids, k)
	}
	sort.Slice(ids, func(i, j int) bool { return ids[i] < ids[j] })
	return ids
}

// c20ValidHist tells whether the history is executable: exactly one E, quorum
// of started replicas is kept (A/W need n0>=2, D needs n0>=2), at most one
// membership change, S only after E.
func c20ValidHist(n0 int, h string) bool {
	if strings.Count(h, "E") != 1 {
		return false
	}
	mc := 0
	afterE := false
	for _, op := range h {
		switch op {
		case 'E':
			afterE = true
		case 'P':
		case 'S':
			// before the export only directly in front of it: the regular snapshot
			// and the exported one then have the same index ("PSE")
			if !afterE && !strings.Contains(h, "SE") {
				return false
			}
		case 'A', 'W', 'D':
			mc++
			if n0 < 2 {
				return false
			}
		case 'N':
			mc++
		default:
			return false
		}
	}
	return mc <= 1
}

// c20ModelAtExport returns the membership model at the export point.
func c20ModelAtExport(n0 int, h string) (*c20Members, int) {
	m := newC20Members(n0)
	np := 0
	for _, op := range h {
		switch op {
		case 'E':
			return m, np
		case 'P':
			np++
		case 'A':
			m.Voting[c20AddID] = 4
		case 'N':
			m.NonV[c20NonVID] = 4
		case 'W':
			m.Wit[c20WitID] = 4
		case 'D':
			delete(m.Voting, uint64(n0))
			m.Removed[uint64(n0)] = true
		}
	}
	panic("no export point")
}

// c20List computes the new member list (replica id -> host) of kind k for the
// export-time membership e; ok=false when the kind does not exist for e.
func c20List(e *c20Members, k string) (map[uint64]int, bool) {
	ids := c20SortedIDs(e.Voting)
	l := map[uint64]int{}
	switch k {
	case "same":
		for _, id := range ids {
			l[id] = e.Voting[id]
		}
	case "subset":
		if len(ids) < 2 {
			return nil, false
		}
		for _, id := range ids[:len(ids)-1] {
			l[id] = e.Voting[id]
		}
		if len(l) == 1 {
			return nil, false // identical to single
		}
	case "single":
		l[ids[0]] = e.Voting[ids[0]]
	case "singlelast":
		if len(ids) < 2 {
			return nil, false
		}
		id := ids[len(ids)-1]
		l[id] = e.Voting[id]
	case "allnew":
		for i, id := range ids {
			l[c20NewBase+uint64(i)] = e.Voting[id]
		}
	case "mix":
		l[ids[0]] = e.Voting[ids[0]]
		h := 2
		if len(ids) >= 2 {
			h = e.Voting[ids[1]]
		}
		if h == e.Voting[ids[0]] {
			h = h%c20Hosts + 1
		}
		l[c20NewBase+1] = h
	default:
		return nil, false
	}
	return l, true
}

// ---------------------------------------------------------------------------
// state machines (harness code): the state is the ordered list of applied cmds
// ---------------------------------------------------------------------------

type c20State struct {
	Index uint64   `json:"index"`
	Cmds  []string `json:"cmds"`
}

func (s *c20State) clone() *c20State {
	return &c20State{Index: s.Index, Cmds: append([]string{}, s.Cmds...)}
}

func c20WriteState(w io.Writer, s *c20State) error {
	data, err := json.Marshal(s)
	if err != nil {
		return err
	}
	// pad so that the payload is a little larger than a trivial one
	_, err = w.Write(data)
	return err
}

func c20ReadState(r io.Reader) (*c20State, error) {
	data, err := io.ReadAll(r)
	if err != nil {
		return nil, err
	}
	s := &c20State{}
	if err := json.Unmarshal(data, s); err != nil {
		return nil, err
	}
	return s, nil
}

// regular
type c20RegularSM struct {
	mu sync.Mutex
	st c20State
}

func (s *c20RegularSM) Update(e sm.Entry) (sm.Result, error) {
	s.mu.Lock()
	defer s.mu.Unlock()
	s.st.Cmds = append(s.st.Cmds, string(e.Cmd))
	s.st.Index = e.Index
	return sm.Result{Value: uint64(len(s.st.Cmds))}, nil
}
func (s *c20RegularSM) Lookup(interface{}) (interface{}, error) {
	s.mu.Lock()
	defer s.mu.Unlock()
	return s.st.clone(), nil
}
func (s *c20RegularSM) SaveSnapshot(w io.Writer, _ sm.ISnapshotFileCollection, _ <-chan struct{}) error {
	s.mu.Lock()
	defer s.mu.Unlock()
	return c20WriteState(w, &s.st)
}
func (s *c20RegularSM) RecoverFromSnapshot(r io.Reader, _ []sm.SnapshotFile, _ <-chan struct{}) error {
	st, err := c20ReadState(r)
	if err != nil {
		return err
	}
	s.mu.Lock()
	defer s.mu.Unlock()
	s.st = *st
	return nil
}
func (s *c20RegularSM) Close() error { return nil }

// concurrent
type c20ConcurrentSM struct {
	mu sync.Mutex
	st c20State
}

func (s *c20ConcurrentSM) Update(es []sm.Entry) ([]sm.Entry, error) {
	s.mu.Lock()
	defer s.mu.Unlock()
	for i := range es {
		s.st.Cmds = append(s.st.Cmds, string(es[i].Cmd))
		s.st.Index = es[i].Index
		es[i].Result = sm.Result{Value: uint64(len(s.st.Cmds))}
	}
	return es, nil
}
func (s *c20ConcurrentSM) Lookup(interface{}) (interface{}, error) {
	s.mu.Lock()
	defer s.mu.Unlock()
	return s.st.clone(), nil
}
func (s *c20ConcurrentSM) PrepareSnapshot() (interface{}, error) {
	s.mu.Lock()
	defer s.mu.Unlock()
	return s.st.clone(), nil
}
func (s *c20ConcurrentSM) SaveSnapshot(ctx interface{}, w io.Writer, _ sm.ISnapshotFileCollection, _ <-chan struct{}) error {
	return c20WriteState(w, ctx.(*c20State))
}
func (s *c20ConcurrentSM) RecoverFromSnapshot(r io.Reader, _ []sm.SnapshotFile, _ <-chan struct{}) error {
	st, err := c20ReadState(r)
	if err != nil {
		return err
	}
	s.mu.Lock()
	defer s.mu.Unlock()
	s.st = *st
	return nil
}
func (s *c20ConcurrentSM) Close() error { return nil }

// on-disk: the "disk" is a per-configuration registry that survives NodeHost
// restarts (keyed by host/replica).
type c20Disk struct {
	mu sync.Mutex
	m  map[string]*c20State
}

func (d *c20Disk) load(key string) *c20State {
	d.mu.Lock()
	defer d.mu.Unlock()
	if s, ok := d.m[key]; ok {
		return s.clone()
	}
	return &c20State{}
}
func (d *c20Disk) store(key string, s *c20State) {
	d.mu.Lock()
	defer d.mu.Unlock()
	d.m[key] = s.clone()
}

type c20OnDiskSM struct {
	mu   sync.Mutex
	disk *c20Disk
	key  string
	st   c20State
}

func (s *c20OnDiskSM) Open(<-chan struct{}) (uint64, error) {
	s.mu.Lock()
	defer s.mu.Unlock()
	s.st = *s.disk.load(s.key)
	return s.st.Index, nil
}
func (s *c20OnDiskSM) Update(es []sm.Entry) ([]sm.Entry, error) {
	s.mu.Lock()
	defer s.mu.Unlock()
	for i := range es {
		if es[i].Index <= s.st.Index {
			panic("c20 on-disk sm: entry index not increasing")
		}
		s.st.Cmds = append(s.st.Cmds, string(es[i].Cmd))
		s.st.Index = es[i].Index
		es[i].Result = sm.Result{Value: uint64(len(s.st.Cmds))}
	}
	s.disk.store(s.key, &s.st) // write-through: every update is durable
	return es, nil
}
func (s *c20OnDiskSM) Lookup(interface{}) (interface{}, error) {
	s.mu.Lock()
	defer s.mu.Unlock()
	return s.st.clone(), nil
}
func (s *c20OnDiskSM) Sync() error { return nil }
func (s *c20OnDiskSM) PrepareSnapshot() (interface{}, error) {
	s.mu.Lock()
	defer s.mu.Unlock()
	return s.st.clone(), nil
}
func (s *c20OnDiskSM) SaveSnapshot(ctx interface{}, w io.Writer, _ <-chan struct{}) error {
	return c20WriteState(w, ctx.(*c20State))
}
func (s *c20OnDiskSM) RecoverFromSnapshot(r io.Reader, _ <-chan struct{}) error {
	st, err := c20ReadState(r)
	if err != nil {
		return err
	}
	s.mu.Lock()
	defer s.mu.Unlock()
	s.st = *st
	s.disk.store(s.key, &s.st)
	return nil
}
func (s *c20OnDiskSM) Close() error { return nil }

// ---------------------------------------------------------------------------
// transport factory: the in-process chan transport with a permissive validator
// ---------------------------------------------------------------------------

type c20Transport struct{}

func (*c20Transport) Create(c config.NodeHostConfig, h raftio.MessageHandler, ch raftio.ChunkHandler) raftio.ITransport {
	return chantrans.NewChanTransport(c, h, ch)
}
func (*c20Transport) Validate(addr string) bool { return strings.HasPrefix(addr, "c20-") }

var c20AddrSpace int64

// ---------------------------------------------------------------------------
// FS helpers
// ---------------------------------------------------------------------------

func c20Walk(fs vfs.IFS, dir string, f func(path string, isDir bool) error) error {
	names, err := fs.List(dir)
	if err != nil {
		return err
	}
	sort.Strings(names)
	for _, n := range names {
		p := fs.PathJoin(dir, n)
		fi, err := fs.Stat(p)
		if err != nil {
			return err
		}
		if err := f(p, fi.IsDir()); err != nil {
			return err
		}
		if fi.IsDir() {
			if err := c20Walk(fs, p, f); err != nil {
				return err
			}
		}
	}
	return nil
}

func c20ReadFile(fs vfs.IFS, p string) ([]byte, error) {
	f, err := fs.Open(p)
	if err != nil {
		return nil, err
	}
	defer f.Close()
	return io.ReadAll(f)
}

func c20WriteFile(fs vfs.IFS, p string, data []byte) error {
	f, err := fs.Create(p)
	if err != nil {
		return err
	}
	if _, err := f.Write(data); err != nil {
		f.Close()
		return err
	}
	return f.Close()
}

// c20HashTree hashes names, kinds and contents of the whole tree below root.
func c20HashTree(fs vfs.IFS, root string) (string, int64) {
	h := sha256.New()
	total := int64(0)
	err := c20Walk(fs, root, func(p string, isDir bool) error {
		if isDir {
			fmt.Fprintf(h, "D %s\n", p)
			return nil
		}
		data, err := c20ReadFile(fs, p)
		if err != nil {
			return err
		}
		total += int64(len(data))
		fmt.Fprintf(h, "F %s %d\n", p, len(data))
		h.Write(data)
		return nil
	})
	if err != nil {
		panic(err)
	}
	return hex.EncodeToString(h.Sum(nil)), total
}

func c20CloneFS(src vfs.IFS) vfs.IFS {
	dst := gvfs.NewMem()
	err := c20Walk(src, "/", func(p string, isDir bool) error {
		if isDir {
			return dst.MkdirAll(p, 0755)
		}
		data, err := c20ReadFile(src, p)
		if err != nil {
			return err
		}
		return c20WriteFile(dst, p, data)
	})
	if err != nil {
		panic(err)
	}
	return dst
}

// c20TreeDiff names the first few differing paths (for messages only).
func c20TreeDiff(a, b vfs.IFS) string {
	la := map[string]string{}
	lb := map[string]string{}
	col := func(fs vfs.IFS, m map[string]string) {
		_ = c20Walk(fs, "/", func(p string, isDir bool) error {
			if isDir {
				m[p] = "dir"
				return nil
			}
			data, _ := c20ReadFile(fs, p)
			s := sha256.Sum256(data)
			m[p] = hex.EncodeToString(s[:4]) + "/" + strconv.Itoa(len(data))
			return nil
		})
	}
	col(a, la)
	col(b, lb)
	var d []string
	for p, v := range la {
		if w, ok := lb[p]; !ok {
			d = append(d, "removed "+p)
		} else if w != v {
			d = append(d, "changed "+p)
		}
	}
	for p := range lb {
		if _, ok := la[p]; !ok {
			d = append(d, "added "+p)
		}
	}
	sort.Strings(d)
	if len(d) > 8 {
		d = d[:8]
	}
	return strings.Join(d, "; ")
}

// ---------------------------------------------------------------------------
// one configuration on real NodeHosts
// ---------------------------------------------------------------------------

type c20World struct {
	cfg   c20Cfg
	fs    vfs.IFS
	space int64
	disk  *c20Disk
	hosts map[int]*dragonboat.NodeHost
	rtt   uint64
}

func (w *c20World) addr(h int) string { return fmt.Sprintf("c20-%06d-h%d", w.space, h) }

func (w *c20World) nhConfig(h int, fs vfs.IFS) config.NodeHostConfig {
	ec := config.ExpertConfig{
		FS:               fs,
		LogDB:            config.GetTinyMemLogDBConfig(),
		Engine:           config.EngineConfig{ExecShards: 1, CommitShards: 1, ApplyShards: 1, SnapshotShards: 1, CloseShards: 1},
		TransportFactory: &c20Transport{},
	}
	ec.LogDB.Shards = 2
	if w.cfg.DB == "tan" {
		ec.LogDBFactory = tan.Factory
	}
	c := config.NodeHostConfig{
		NodeHostDir:    fmt.Sprintf("data/nh%d", h),
		RTTMillisecond: w.rtt,
		RaftAddress:    w.addr(h),
		Expert:         ec,
	}
	if w.cfg.WAL {
		c.WALDir = fmt.Sprintf("wal/nh%d", h)
	}
	return c
}

func (w *c20World) rcfg(rid uint64) config.Config {
	return config.Config{
		ReplicaID:    rid,
		ShardID:      c20Shard,
		ElectionRTT:  10,
		HeartbeatRTT: 1,
		CheckQuorum:  true,
	}
}

func (w *c20World) startHost(h int) error {
	nh, err := dragonboat.NewNodeHost(w.nhConfig(h, w.fs))
	if err != nil {
		return err
	}
	w.hosts[h] = nh
	return nil
}

func (w *c20World) startReplica(h int, rid uint64, members map[uint64]dragonboat.Target) error {
	nh := w.hosts[h]
	rc := w.rcfg(rid)
	switch w.cfg.SM {
	case "regular":
		return nh.StartReplica(members, false, func(uint64, uint64) sm.IStateMachine { return &c20RegularSM{} }, rc)
	case "concurrent":
		return nh.StartConcurrentReplica(members, false, func(uint64, uint64) sm.IConcurrentStateMachine { return &c20ConcurrentSM{} }, rc)
	case "ondisk":
		key := fmt.Sprintf("h%d/r%d", h, rid)
		return nh.StartOnDiskReplica(members, false, func(uint64, uint64) sm.IOnDiskStateMachine {
			return &c20OnDiskSM{disk: w.disk, key: key}
		}, rc)
	}
	panic("unknown sm " + w.cfg.SM)
}

func (w *c20World) closeAll() {
	hs := make([]int, 0, len(w.hosts))
	for h := range w.hosts {
		hs = append(hs, h)
	}
	sort.Ints(hs)
	for _, h := range hs {
		w.hosts[h].Close()
		delete(w.hosts, h)
	}
}

// c20Retry retries f on errors that certainly did not take effect
// (dropped/busy/not ready); a timeout is ambiguous and ends the attempt.
func c20Retry(deadline time.Time, per time.Duration, f func(ctx context.Context) error) error {
	var last error
	for {
		ctx, cancel := context.WithTimeout(context.Background(), per)
		err := f(ctx)
		cancel()
		if err == nil {
			return nil
		}
		last = err
		retry := err == dragonboat.ErrShardNotReady || err == dragonboat.ErrSystemBusy ||
			err == dragonboat.ErrShardNotInitialized || err == dragonboat.ErrShardNotFound
		if !retry || time.Now().After(deadline) {
			return last
		}
		time.Sleep(5 * time.Millisecond)
	}
}

// c20RetryRead retries idempotent operations on any temporary error.
func c20RetryRead(deadline time.Time, per time.Duration, f func(ctx context.Context) error) error {
	for {
		ctx, cancel := context.WithTimeout(context.Background(), per)
		err := f(ctx)
		cancel()
		if err == nil {
			return nil
		}
		if time.Now().After(deadline) {
			return err
		}
		time.Sleep(5 * time.Millisecond)
	}
}

func c20Read(nh *dragonboat.NodeHost, deadline time.Time) (*c20State, error) {
	var st *c20State
	err := c20RetryRead(deadline, 2*time.Second, func(ctx context.Context) error {
		v, err := nh.SyncRead(ctx, c20Shard, nil)
		if err != nil {
			return err
		}
		st = v.(*c20State)
		return nil
	})
	return st, err
}

func c20EqualCmds(a, b []string) bool {
	if len(a) != len(b) {
		return false
	}
	for i := range a {
		if a[i] != b[i] {
			return false
		}
	}
	return true
}

type c20Refusal struct {
	id    string
	prep  func(fs vfs.IFS) error // mutates the export dir in the scratch FS
	undo  func(fs vfs.IFS) error // restores it (nil: re-clone the scratch FS)
	list  map[uint64]string
	host  int // whose NodeHostConfig is used
	rid   uint64
	must  bool // must be refused (else only tallied)
	class string
}

func c20Run(job c20Job) (rec *c20Rec) {
	cfg := job.Cfg
	t0 := time.Now()
	rec = &c20Rec{ID: cfg.id(), Outcomes: map[string]int64{}}
	defer func() { rec.WallMs = time.Since(t0).Milliseconds() }()
	liveS := job.LiveS
	if liveS <= 0 {
		liveS = 40
	}
	w := &c20World{cfg: cfg, fs: gvfs.NewMem(), space: atomic.AddInt64(&c20AddrSpace, 1),
		disk: &c20Disk{m: map[string]*c20State{}}, hosts: map[int]*dragonboat.NodeHost{}, rtt: 5}
	if v := os.Getenv("VERIF_C20_RTT"); v != "" {
		n, _ := strconv.Atoi(v)
		if n > 0 {
			w.rtt = uint64(n)
		}
	}
	defer w.closeAll()
	setupDeadline := time.Now().Add(time.Duration(liveS) * time.Second)
	inconclusive := func(what string, err error) *c20Rec {
		rec.out("inconclusive_setup:" + what)
		rec.Note = fmt.Sprintf("%s: %v", what, err)
		return rec
	}

	// ---- phase 1: initial shard
	initial := map[uint64]dragonboat.Target{}
	for i := 1; i <= cfg.N0; i++ {
		initial[uint64(i)] = w.addr(i)
	}
	for i := 1; i <= cfg.N0; i++ {
		if err := w.startHost(i); err != nil {
			return inconclusive("newnodehost", err)
		}
		if err := w.startReplica(i, uint64(i), initial); err != nil {
			return inconclusive("startreplica", err)
		}
	}
	x := w.hosts[1] // all client operations go through host 1 (replica 1)
	// wait for a leader; best effort: make replica 1 the leader so that deleting
	// replica N0 never removes the leader and proposals are not forwarded (this
	// only lowers the rate of ambiguous timeouts during the setup).
	if _, err := c20Read(x, setupDeadline); err != nil {
		return inconclusive("initial-leader", err)
	}
	if cfg.N0 > 1 {
		until := time.Now().Add(3 * time.Second)
		for time.Now().Before(until) {
			lid, _, ok, _ := x.GetLeaderID(c20Shard)
			if ok && lid == 1 {
				break
			}
			if ok {
				for h := 1; h <= cfg.N0; h++ {
					_ = w.hosts[h].RequestLeaderTransfer(c20Shard, 1)
				}
			}
			time.Sleep(20 * time.Millisecond)
		}
	}
	model := newC20Members(cfg.N0)
	var cmds []string
	var exportIdx uint64
	var exported *c20State
	exportRoot := "export"
	if err := w.fs.MkdirAll(exportRoot, 0755); err != nil {
		panic(err)
	}
	np := 0
	for _, op := range cfg.Hist {
		var err error
		if _, e := c20Read(x, setupDeadline); e != nil {
			return inconclusive("no-leader-before-op-"+string(op), e)
		}
		switch op {
		case 'P':
			np++
			cmd := fmt.Sprintf("p%d", np)
			err = c20Retry(setupDeadline, 10*time.Second, func(ctx context.Context) error {
				_, e := x.SyncPropose(ctx, x.GetNoOPSession(c20Shard), []byte(cmd))
				return e
			})
			cmds = append(cmds, cmd)
		case 'A':
			err = c20Retry(setupDeadline, 10*time.Second, func(ctx context.Context) error {
				return x.SyncRequestAddReplica(ctx, c20Shard, c20AddID, w.addr(4), 0)
			})
			model.Voting[c20AddID] = 4
		case 'N':
			err = c20Retry(setupDeadline, 10*time.Second, func(ctx context.Context) error {
				return x.SyncRequestAddNonVoting(ctx, c20Shard, c20NonVID, w.addr(4), 0)
			})
			model.NonV[c20NonVID] = 4
		case 'W':
			err = c20Retry(setupDeadline, 10*time.Second, func(ctx context.Context) error {
				return x.SyncRequestAddWitness(ctx, c20Shard, c20WitID, w.addr(4), 0)
			})
			model.Wit[c20WitID] = 4
		case 'D':
			err = c20Retry(setupDeadline, 10*time.Second, func(ctx context.Context) error {
				return x.SyncRequestDeleteReplica(ctx, c20Shard, uint64(cfg.N0), 0)
			})
			delete(model.Voting, uint64(cfg.N0))
			model.Removed[uint64(cfg.N0)] = true
		case 'S':
			for h := 1; h <= cfg.N0; h++ {
				if nh, ok := w.hosts[h]; ok {
					ctx, cancel := context.WithTimeout(context.Background(), 5*time.Second)
					_, _ = nh.SyncRequestSnapshot(ctx, c20Shard, dragonboat.SnapshotOption{})
					cancel()
				}
			}
		case 'E':
			// the exported state is host 1's state machine content at the export
			// point: every earlier SyncPropose through host 1 has completed there
			// and nothing is in flight.
			before, e := c20Read(x, setupDeadline)
			if e != nil {
				return inconclusive("read-before-export", e)
			}
			err = c20Retry(setupDeadline, 10*time.Second, func(ctx context.Context) error {
				idx, e := x.SyncRequestSnapshot(ctx, c20Shard, dragonboat.SnapshotOption{Exported: true, ExportPath: exportRoot})
				exportIdx = idx
				return e
			})
			if err != nil {
				break
			}
			if !c20EqualCmds(before.Cmds, cmds) {
				return inconclusive("model-mismatch-before-export", fmt.Errorf("sm %v model %v", before.Cmds, cmds))
			}
			exported = before
		}
		if err != nil {
			return inconclusive("history-op-"+string(op), err)
		}
	}
	w.closeAll()
	emodel, _ := c20ModelAtExport(cfg.N0, cfg.Hist)
	exportDir := w.fs.PathJoin(exportRoot, fmt.Sprintf("snapshot-%016X", exportIdx))
	// sanity: what the exported image records as membership equals the model
	oldss, err := getSnapshotRecord(exportDir, server.MetadataFilename, w.fs)
	if err != nil {
		return inconclusive("read-export-metadata", err)
	}
	if !c20SameIDs(oldss.Membership.Addresses, emodel.Voting) || !c20SameIDs(oldss.Membership.NonVotings, emodel.NonV) ||
		!c20SameIDs(oldss.Membership.Witnesses, emodel.Wit) || len(oldss.Membership.Removed) != len(emodel.Removed) {
		return inconclusive("export-membership-differs-from-model", fmt.Errorf("%v", oldss.Membership))
	}
	ssFile := ""
	names, _ := w.fs.List(exportDir)
	for _, n := range names {
		if strings.HasSuffix(n, "."+server.SnapshotFileSuffix) {
			ssFile = w.fs.PathJoin(exportDir, n)
		}
	}
	metaFile := w.fs.PathJoin(exportDir, server.MetadataFilename)
	if ssFile == "" {
		return inconclusive("no-snapshot-file-exported", nil)
	}
	rec.Nontriv = true

	list, ok := c20List(emodel, cfg.List)
	if !ok {
		rec.Nontriv = false
		rec.out("skipped:list-kind-not-applicable")
		return rec
	}
	members := map[uint64]string{}
	for rid, h := range list {
		members[rid] = w.addr(h)
	}

	// ---- phase 2: refusal cases, each on a scratch copy of the stopped system
	if job.Only != "main" {
		c20Refusals(job, w, rec, emodel, exportDir, ssFile, metaFile)
	}
	if job.Only != "" && job.Only != "main" {
		return rec
	}

	// ---- phase 3: import on each listed host, restart, oracle
	if v := os.Getenv("VERIF_C20_PROBE_FLIP"); v != "" {
		// manual probe only (never set by the driver): flip one byte of the
		// exported snapshot file before the real import
		off, _ := strconv.Atoi(v)
		b, _ := c20ReadFile(w.fs, ssFile)
		b[off] ^= 0x01
		_ = c20WriteFile(w.fs, ssFile, b)
	}
	rids := make([]uint64, 0, len(list))
	for rid := range list {
		rids = append(rids, rid)
	}
	sort.Slice(rids, func(i, j int) bool { return rids[i] < rids[j] })
	rec.Evals++
	for _, rid := range rids {
		var ierr error
		p := verifkit.Catch(func() { ierr = ImportSnapshot(w.nhConfig(list[rid], w.fs), exportDir, members, rid) })
		if p != "" || ierr != nil {
			rec.out("main:import-failed")
			rec.violate("import-failed:"+cfg.id(), fmt.Sprintf("valid ImportSnapshot of replica %d on host %d with members %v failed: err=%v panic=%q", rid, list[rid], members, ierr, p), "main")
			return rec
		}
	}
	for _, rid := range rids {
		h := list[rid]
		if err := w.startHost(h); err != nil {
			rec.out("main:restart-failed")
			rec.violate("restart-failed:"+cfg.id(), fmt.Sprintf("NewNodeHost on host %d after import failed: %v", h, err), "main")
			return rec
		}
		if err := w.startReplica(h, rid, nil); err != nil {
			rec.out("main:startreplica-failed")
			rec.violate("startreplica-failed:"+cfg.id(), fmt.Sprintf("StartReplica(%d) on host %d after import failed: %v", rid, h, err), "main")
			return rec
		}
	}
	liveDeadline := time.Now().Add(time.Duration(liveS) * time.Second)
	// (a) state of every restarted replica == exported state
	for _, rid := range rids {
		st, err := c20Read(w.hosts[list[rid]], liveDeadline)
		if err != nil {
			rec.out("main:INCONCLUSIVE-liveness-read")
			rec.Note = fmt.Sprintf("linearizable read on replica %d never completed: %v", rid, err)
			return rec
		}
		if !c20EqualCmds(st.Cmds, exported.Cmds) {
			rec.out("main:state-mismatch")
			rec.violate("state-mismatch:"+cfg.id(), fmt.Sprintf("replica %d on host %d after import+restart has state %v, exported snapshot (index %d) captured %v",
				rid, list[rid], st.Cmds, exportIdx, exported.Cmds), "main")
			return rec
		}
	}
	// (b) membership
	for _, rid := range rids {
		var m *dragonboat.Membership
		err := c20RetryRead(liveDeadline, 2*time.Second, func(ctx context.Context) error {
			var e error
			m, e = w.hosts[list[rid]].SyncGetShardMembership(ctx, c20Shard)
			return e
		})
		if err != nil {
			rec.out("main:INCONCLUSIVE-liveness-membership")
			rec.Note = fmt.Sprintf("SyncGetShardMembership on replica %d never completed: %v", rid, err)
			return rec
		}
		bad := ""
		if len(m.Nodes) != len(members) {
			bad = "member count differs"
		}
		for id, a := range members {
			if m.Nodes[id] != a {
				bad = fmt.Sprintf("member %d has address %q, want %q", id, m.Nodes[id], a)
			}
			if _, ok := m.Removed[id]; ok {
				bad = fmt.Sprintf("listed member %d is recorded as removed", id)
			}
		}
		if len(m.NonVotings) != 0 || len(m.Witnesses) != 0 {
			bad = "non-voting/witness members present"
		}
		if bad != "" {
			rec.out("main:membership-mismatch")
			rec.violate("membership-mismatch:"+cfg.id(), fmt.Sprintf("replica %d: %s; got nodes=%v nonvotings=%v witnesses=%v removed=%v, given list %v",
				rid, bad, m.Nodes, m.NonVotings, m.Witnesses, c20Keys(m.Removed), members), "main")
			return rec
		}
		for _, prev := range []map[uint64]int{emodel.Voting, emodel.NonV, emodel.Wit} {
			for id := range prev {
				if _, listed := members[id]; listed {
					continue
				}
				if _, ok := m.Removed[id]; !ok {
					rec.out("main:unlisted-not-removed")
					rec.violate("unlisted-not-removed:"+cfg.id(), fmt.Sprintf("replica %d: previous member %d is not in the given list %v but is not recorded as removed (removed=%v)",
						rid, id, members, c20Keys(m.Removed)), "main")
					return rec
				}
			}
		}
		kept := true
		for id := range emodel.Removed {
			if _, ok := m.Removed[id]; !ok {
				kept = false
			}
		}
		if len(emodel.Removed) > 0 {
			if kept {
				rec.out("obs:previously-removed-kept")
			} else {
				rec.out("obs:previously-removed-lost")
			}
		}
	}
	// (c) a new proposal completes and is visible everywhere
	first := w.hosts[list[rids[0]]]
	err = c20Retry(liveDeadline, 10*time.Second, func(ctx context.Context) error {
		_, e := first.SyncPropose(ctx, first.GetNoOPSession(c20Shard), []byte("new"))
		return e
	})
	if err != nil {
		rec.out("main:INCONCLUSIVE-liveness-propose")
		rec.Note = fmt.Sprintf("new proposal did not complete: %v", err)
		return rec
	}
	want := append(append([]string{}, exported.Cmds...), "new")
	for _, rid := range rids {
		st, err := c20Read(w.hosts[list[rid]], liveDeadline)
		if err != nil {
			rec.out("main:INCONCLUSIVE-liveness-read2")
			return rec
		}
		if !c20EqualCmds(st.Cmds, want) {
			rec.out("main:post-proposal-state-mismatch")
			rec.violate("post-proposal-state-mismatch:"+cfg.id(), fmt.Sprintf("replica %d after the new proposal has %v, want %v", rid, st.Cmds, want), "main")
			return rec
		}
	}
	rec.out("main:ok")
	return rec
}

func c20Keys(m map[uint64]struct{}) []uint64 {
	ids := make([]uint64, 0, len(m))
	for k := range m {
		ids = append(ids, k)
	}
	sort.Slice(ids, func(i, j int) bool { return ids[i] < ids[j] })
	return ids
}

func c20SameIDs(a map[uint64]string, b map[uint64]int) bool {
	if len(a) != len(b) {
		return false
	}
	for k := range a {
		if _, ok := b[k]; !ok {
			return false
		}
	}
	return true
}

// c20Refusals runs every refusal case on a scratch clone of the stopped
// system: the call must fail (error; a panic is tallied separately as
// refused-by-panic) and the whole tree must be byte-identical afterwards.
func c20Refusals(job c20Job, w *c20World, rec *c20Rec, e *c20Members, exportDir, ssFile, metaFile string) {
	cfg := job.Cfg
	same := map[uint64]string{}
	for id, h := range e.Voting {
		same[id] = w.addr(h)
	}
	cp := func(m map[uint64]string) map[uint64]string {
		n := map[uint64]string{}
		for k, v := range m {
			n[k] = v
		}
		return n
	}
	ids := c20SortedIDs(e.Voting)
	minID, maxID := ids[0], ids[len(ids)-1]
	other := func(h int) int { return h%c20Hosts + 1 }
	var cases []c20Refusal
	add := func(c c20Refusal) {
		if job.Only == "" || job.Only == c.id {
			cases = append(cases, c)
		}
	}
	// export image defects
	add(c20Refusal{id: "missing-snapshot-file", class: "image", must: true, list: same, host: e.Voting[minID], rid: minID,
		prep: func(fs vfs.IFS) error { return fs.Remove(ssFile) }})
	add(c20Refusal{id: "missing-metadata-file", class: "image", must: true, list: same, host: e.Voting[minID], rid: minID,
		prep: func(fs vfs.IFS) error { return fs.Remove(metaFile) }})
	add(c20Refusal{id: "missing-export-dir", class: "image", must: true, list: same, host: e.Voting[minID], rid: minID,
		prep: func(fs vfs.IFS) error { return fs.RemoveAll(exportDir) }})
	// member list defects
	{
		l := cp(same)
		delete(l, minID)
		if len(l) == 0 {
			l[99] = w.addr(e.Voting[minID])
		}
		add(c20Refusal{id: "importer-not-listed", class: "list", must: true, list: l, host: e.Voting[minID], rid: minID})
	}
	add(c20Refusal{id: "importer-at-other-address", class: "list", must: true, list: same, host: other(e.Voting[minID]), rid: minID})
	{
		// brand new replica listed at host a but imported with host b's config
		l := cp(same)
		l[c20NewBase] = w.addr(2)
		add(c20Refusal{id: "new-importer-at-other-address", class: "list", must: true, list: l, host: 3, rid: c20NewBase})
	}
	for _, r := range c20SortedRemoved(e.Removed) {
		l := cp(same)
		l[r] = w.addr(int(r))
		add(c20Refusal{id: "readmit-removed-as-peer", class: "list", must: true, list: l, host: e.Voting[minID], rid: minID})
		add(c20Refusal{id: "readmit-removed-as-importer", class: "list", must: true, list: map[uint64]string{r: w.addr(int(r))}, host: int(r), rid: r})
		l2 := cp(same)
		l2[r] = w.addr(other(int(r)))
		add(c20Refusal{id: "readmit-removed-at-new-address", class: "list", must: true, list: l2, host: e.Voting[minID], rid: minID})
	}
	{
		// changed address of a peer (or of the importer itself when alone)
		l := cp(same)
		l[maxID] = w.addr(other(e.Voting[maxID]))
		if maxID != minID {
			add(c20Refusal{id: "peer-address-changed", class: "list", must: true, list: l, host: e.Voting[minID], rid: minID})
		}
		l2 := cp(same)
		nh := other(e.Voting[minID])
		l2[minID] = w.addr(nh)
		add(c20Refusal{id: "importer-address-changed", class: "list", must: true, list: l2, host: nh, rid: minID})
	}
	for id, h := range e.NonV {
		l := cp(same)
		l[id] = w.addr(h)
		add(c20Refusal{id: "nonvoting-listed-as-member", class: "list", must: true, list: l, host: e.Voting[minID], rid: minID})
		add(c20Refusal{id: "nonvoting-imports-as-member", class: "list", must: true, list: cp(l), host: h, rid: id})
		l2 := cp(same)
		l2[id] = w.addr(other(h))
		add(c20Refusal{id: "nonvoting-listed-at-new-address", class: "list", must: true, list: l2, host: e.Voting[minID], rid: minID})
	}
	for id, h := range e.Wit {
		l := cp(same)
		l[id] = w.addr(h)
		add(c20Refusal{id: "witness-listed-as-member", class: "list", must: true, list: l, host: e.Voting[minID], rid: minID})
		add(c20Refusal{id: "witness-imports-as-member", class: "list", must: true, list: cp(l), host: h, rid: id})
		l2 := cp(same)
		l2[id] = w.addr(other(h))
		add(c20Refusal{id: "witness-listed-at-new-address", class: "list", must: true, list: l2, host: e.Voting[minID], rid: minID})
	}
	// byte enumerations
	meta, err := c20ReadFile(w.fs, metaFile)
	if err != nil {
		panic(err)
	}
	data, err := c20ReadFile(w.fs, ssFile)
	if err != nil {
		panic(err)
	}
	rec.MetaBytes, rec.DataBytes = len(meta), len(data)
	masks := job.Masks
	if len(masks) == 0 {
		masks = []int{0x01, 0xff}
	}
	if strings.Contains(cfg.Corrupt, "meta") {
		mm := job.MetaMasks
		if len(mm) == 0 {
			mm = masks
		}
		for off := range meta {
			for _, mk := range mm {
				off, mk := off, mk
				add(c20Refusal{id: fmt.Sprintf("meta-byte-%d-xor-%02x", off, mk), class: "metabyte", must: true, list: same, host: e.Voting[minID], rid: minID,
					prep: func(fs vfs.IFS) error {
						b := append([]byte{}, meta...)
						b[off] ^= byte(mk)
						return c20WriteFile(fs, metaFile, b)
					},
					undo: func(fs vfs.IFS) error { return c20WriteFile(fs, metaFile, meta) }})
			}
		}
		// truncated / emptied metadata
		for _, n := range []int{0, 4, 8, len(meta) - 1} {
			n := n
			add(c20Refusal{id: fmt.Sprintf("meta-truncated-to-%d", n), class: "metatrunc", must: true, list: same, host: e.Voting[minID], rid: minID,
				prep: func(fs vfs.IFS) error { return c20WriteFile(fs, metaFile, meta[:n]) }})
		}
	}
	if strings.Contains(cfg.Corrupt, "data") {
		// bytes the recorded checksum covers: the block CRC(s) that
		// GetV2PayloadChecksum hashes. With a single block these are the 4 bytes
		// before the 16 byte tail.
		covered := map[int]bool{}
		if len(data) > 1024+20 && len(data) < 1024+1024*1024 {
			for i := len(data) - 20; i < len(data)-16; i++ {
				covered[i] = true
			}
		}
		stride := job.DataStride
		if stride <= 0 {
			stride = 1
		}
		for off := range data {
			if !covered[off] && off%stride != 0 {
				continue
			}
			for _, mk := range masks {
				off, mk := off, mk
				cl := "databyte-uncovered"
				if covered[off] {
					cl = "databyte-covered"
				}
				add(c20Refusal{id: fmt.Sprintf("data-byte-%d-xor-%02x", off, mk), class: cl, must: covered[off], list: same, host: e.Voting[minID], rid: minID,
					prep: func(fs vfs.IFS) error {
						b := append([]byte{}, data...)
						b[off] ^= byte(mk)
						return c20WriteFile(fs, ssFile, b)
					},
					undo: func(fs vfs.IFS) error { return c20WriteFile(fs, ssFile, data) }})
			}
		}
		for _, cut := range []int{1, 4, 16, 20, len(data) - 1040, len(data)} {
			cut := cut
			if cut < 0 || cut > len(data) {
				continue
			}
			add(c20Refusal{id: fmt.Sprintf("data-truncated-by-%d", cut), class: "datatrunc", must: true, list: same, host: e.Voting[minID], rid: minID,
				prep: func(fs vfs.IFS) error { return c20WriteFile(fs, ssFile, data[:len(data)-cut]) }})
		}
	}

	pristineHash, total := c20HashTree(w.fs, "/")
	rec.TreeBytes = total
	var scratch vfs.IFS
	dirty := true
	for _, c := range cases {
		if dirty {
			scratch = c20CloneFS(w.fs)
			if h, _ := c20HashTree(scratch, "/"); h != pristineHash {
				panic("c20: clone differs from the original tree")
			}
			dirty = false
		}
		if c.prep != nil {
			if err := c.prep(scratch); err != nil {
				panic(fmt.Sprintf("c20: prep of %s failed: %v", c.id, err))
			}
		}
		before, _ := c20HashTree(scratch, "/")
		var ierr error
		p := verifkit.Catch(func() { ierr = ImportSnapshot(w.nhConfig(c.host, scratch), exportDir, c.list, c.rid) })
		after, _ := c20HashTree(scratch, "/")
		rec.Evals++
		refused := p != "" || ierr != nil
		changed := before != after
		if changed || (c.prep != nil && c.undo == nil) {
			dirty = true
		} else if c.prep != nil {
			if err := c.undo(scratch); err != nil {
				panic(err)
			}
			if h, _ := c20HashTree(scratch, "/"); h != pristineHash {
				dirty = true
			}
		}
		oc := "refusal:" + c.class
		switch {
		case refused && !changed && p == "":
			rec.out(oc + ":error-unchanged")
		case refused && !changed && p != "":
			rec.out(oc + ":panic-unchanged")
		case refused && changed:
			rec.out(oc + ":refused-but-data-modified")
		default:
			rec.out(oc + ":accepted")
		}
		if !c.must {
			continue
		}
		keyID := c.id
		if c.class == "metabyte" || c.class == "databyte-covered" {
			keyID = c.class // byte offsets vary with addresses/indices: keep the key stable
		}
		if !refused {
			rec.violate("not-refused:"+keyID,
				fmt.Sprintf("config %s: ImportSnapshot(host %d, replica %d, members %v) with defect %q returned nil instead of refusing", cfg.id(), c.host, c.rid, c.list, c.id), c.id)
		} else if changed {
			pre := c20CloneFS(w.fs)
			if c.prep != nil {
				_ = c.prep(pre)
			}
			rec.violate("refused-but-modified:"+keyID,
				fmt.Sprintf("config %s: ImportSnapshot(host %d, replica %d, members %v) with defect %q failed (err=%v panic=%q) but modified existing data: %s",
					cfg.id(), c.host, c.rid, c.list, c.id, ierr, p, c20TreeDiff(pre, scratch)), c.id)
		}
	}
}

func c20SortedRemoved(m map[uint64]bool) []uint64 {
	ids := make([]uint64, 0, len(m))
	for k := range m {
		ids = append(ids, k)
	}
	sort.Slice(ids, func(i, j int) bool { return ids[i] < ids[j] })
	return ids
}

// ---------------------------------------------------------------------------
// enumeration
// ---------------------------------------------------------------------------

var c20SMs = []string{"regular", "concurrent", "ondisk"}
var c20DBs = []string{"pebble", "tan"}
var c20Lists = []string{"same", "subset", "single", "singlelast", "allnew", "mix"}

// c20Histories enumerates every history with at most maxP proposals in total,
// at most one membership change from mcs, one export point at any position and
// optionally a trailing regular snapshot when something follows the export.
func c20Histories(n0, maxP int, mcs string, withS bool) []string {
	var out []string
	var rec func(cur string, p int, mc bool, e bool)
	rec = func(cur string, p int, mc bool, e bool) {
		if e {
			out = append(out, cur)
			if withS && !strings.HasSuffix(cur, "E") {
				out = append(out, cur+"S")
			}
		}
		if p < maxP {
			rec(cur+"P", p+1, mc, e)
		}
		if !mc {
			for _, m := range mcs {
				rec(cur+string(m), p, true, e)
			}
		}
		if !e {
			rec(cur+"E", p, mc, true)
		}
	}
	rec("", 0, false, false)
	var valid []string
	for _, h := range out {
		if c20ValidHist(n0, h) {
			valid = append(valid, h)
		}
	}
	sort.Strings(valid)
	return valid
}

func c20Enumerate(thorough bool) []c20Cfg {
	seen := map[string]int{}
	var out []c20Cfg
	add := func(c c20Cfg) {
		if !c20ValidHist(c.N0, c.Hist) {
			return
		}
		e, _ := c20ModelAtExport(c.N0, c.Hist)
		if _, ok := c20List(e, c.List); !ok {
			return
		}
		if i, ok := seen[c.id()]; ok {
			// merge corruption families
			if c.Corrupt != "" && !strings.Contains(out[i].Corrupt, c.Corrupt) {
				if out[i].Corrupt == "" {
					out[i].Corrupt = c.Corrupt
				} else {
					out[i].Corrupt += "+" + c.Corrupt
				}
			}
			return
		}
		seen[c.id()] = len(out)
		out = append(out, c)
	}
	k := 0
	rot := func(n0 int, h, l string) {
		add(c20Cfg{SM: c20SMs[k%3], DB: c20DBs[(k/3)%2], N0: n0, Hist: h, List: l})
		k++
	}
	full := func(n0 int, h, l string) {
		for _, s := range c20SMs {
			for _, d := range c20DBs {
				add(c20Cfg{SM: s, DB: d, N0: n0, Hist: h, List: l})
			}
		}
	}
	if !thorough {
		// Q1: every sm x db x list kind, 3 replicas, history "2 proposals, export,
		// 1 proposal, regular snapshot on every replica".
		for _, l := range c20Lists {
			full(3, "PPEPS", l)
		}
		// Q2: core histories (each membership change kind before and after the
		// export, empty / maximal histories) x every list kind, sm/db rotating.
		for _, h := range []string{"E", "PE", "EP", "PPPE", "PDEP", "PAEP", "NPEP", "WPEP", "PEDP", "PEAPS", "DEPP", "PENP", "PSE"} {
			for _, l := range c20Lists {
				rot(3, h, l)
			}
		}
		// Q3: smaller initial shards
		for _, n0 := range []int{1, 2} {
			for _, h := range []string{"PEP", "PDEP", "NEP"} {
				for _, l := range []string{"same", "single", "allnew", "mix"} {
					rot(n0, h, l)
				}
			}
		}
		// Q5: dedicated WAL directory
		for i, l := range []string{"same", "subset", "allnew"} {
			for j, d := range c20DBs {
				add(c20Cfg{SM: c20SMs[(i+j)%3], DB: d, N0: 3, Hist: "PPEPS", List: l, WAL: true})
			}
		}
		// Q4: byte enumerations
		for i, s := range c20SMs {
			add(c20Cfg{SM: s, DB: c20DBs[i%2], N0: 3, Hist: "PPEPS", List: "same", Corrupt: "meta"})
			add(c20Cfg{SM: s, DB: c20DBs[(i+1)%2], N0: 3, Hist: "PPEPS", List: "subset", Corrupt: "data"})
			add(c20Cfg{SM: s, DB: c20DBs[i%2], N0: 3, Hist: "PDEP", List: "same", Corrupt: "meta"})
		}
		return out
	}
	// T1: FULL product on a 3 replica shard: every history (<=3 proposals, <=1
	// membership change of A/D/N/W, export point anywhere) x every list kind x
	// every sm x db.
	for _, h := range c20Histories(3, 3, "ADNW", false) {
		for _, l := range c20Lists {
			full(3, h, l)
		}
	}
	// T1b: dedicated WAL directory
	for _, h := range []string{"PPEPS", "PDEP", "E"} {
		for _, l := range c20Lists {
			for _, sm := range c20SMs {
				for _, d := range c20DBs {
					add(c20Cfg{SM: sm, DB: d, N0: 3, Hist: h, List: l, WAL: true})
				}
			}
		}
	}
	// T2: initial shards of 1 and 2 replicas: every history with <=2 proposals x
	// every list kind, sm/db rotating over the 6 combinations.
	for _, n0 := range []int{1, 2} {
		for _, h := range c20Histories(n0, 2, "ADNW", false) {
			for _, l := range c20Lists {
				rot(n0, h, l)
			}
		}
	}
	// T3: a regular (non exported) snapshot on every replica after the export:
	// core histories x every list x every sm x db.
	for _, h := range []string{"EPS", "PEPS", "PPEPS", "PEPPS", "PDEPS", "PEDPS", "PAEPS", "PEAPS", "NPEPS", "PENPS", "WPEPS", "PEWPS", "PSE", "PSEP"} {
		for _, l := range c20Lists {
			full(3, h, l)
		}
	}
	// T4: byte enumerations for every sm x db
	for _, s := range c20SMs {
		for _, d := range c20DBs {
			add(c20Cfg{SM: s, DB: d, N0: 3, Hist: "PPEPS", List: "same", Corrupt: "meta"})
			add(c20Cfg{SM: s, DB: d, N0: 3, Hist: "PPEPS", List: "subset", Corrupt: "data"})
			add(c20Cfg{SM: s, DB: d, N0: 3, Hist: "PDEP", List: "same", Corrupt: "meta"})
			add(c20Cfg{SM: s, DB: d, N0: 3, Hist: "E", List: "same", Corrupt: "data"})
		}
	}
	return out
}

// ---------------------------------------------------------------------------
// parent / child orchestration: every configuration runs in a child process so
// that a dragonboat panic in a background goroutine is attributed to the
// configuration that was running instead of killing the worker.
// ---------------------------------------------------------------------------

type c20Line struct {
	Start *int    `json:"start,omitempty"`
	Done  *int    `json:"done,omitempty"`
	Rec   *c20Rec `json:"rec,omitempty"`
	Hang  *int    `json:"hang,omitempty"`
}

func c20Silence() {
	for _, n := range []string{"raft", "rsm", "logdb", "transport", "dragonboat", "tan", "raftpb", "config", "grpc",
		"tools", "server", "fileutil", "utils", "settings", "registry", "id", "pebblekv", "order", "tests"} {
		logger.GetLogger(n).SetLevel(logger.CRITICAL)
	}
}

func c20Child(jobPath string) {
	c20Silence()
	data, err := os.ReadFile(jobPath)
	if err != nil {
		panic(err)
	}
	var jobs []c20Job
	if err := json.Unmarshal(data, &jobs); err != nil {
		panic(err)
	}
	out, err := os.OpenFile(jobPath+".out", os.O_CREATE|os.O_WRONLY|os.O_APPEND, 0644)
	if err != nil {
		panic(err)
	}
	defer out.Close()
	var omu sync.Mutex
	emit := func(l c20Line) {
		b, _ := json.Marshal(l)
		omu.Lock()
		out.Write(append(b, '\n'))
		out.Sync()
		omu.Unlock()
	}
	startAt := 0
	if v := os.Getenv("VERIF_C20_START"); v != "" {
		startAt, _ = strconv.Atoi(v)
	}
	var deadline time.Time
	if v := os.Getenv("VERIF_C20_DEADLINE"); v != "" {
		n, _ := strconv.ParseInt(v, 10, 64)
		if n > 0 {
			deadline = time.Unix(n, 0)
		}
	}
	for i := startAt; i < len(jobs); i++ {
		if !deadline.IsZero() && time.Now().After(deadline) {
			return
		}
		i := i
		emit(c20Line{Start: &i})
		done := make(chan *c20Rec, 1)
		go func() { done <- c20Run(jobs[i]) }()
		select {
		case rec := <-done:
			emit(c20Line{Done: &i, Rec: rec})
		case <-time.After(10 * time.Minute):
			emit(c20Line{Hang: &i})
			buf := make([]byte, 1<<20)
			n := runtime.Stack(buf, true)
			os.Stderr.Write(buf[:n])
			os.Exit(3)
		}
	}
}

// c20RunJobs runs the jobs in child processes and returns one record per job
// (nil for jobs not run because the deadline passed).
func c20RunJobs(jobs []c20Job, tag string, deadline time.Time) []*c20Rec {
	recs := make([]*c20Rec, len(jobs))
	if len(jobs) == 0 {
		return recs
	}
	jobPath, err := os.CreateTemp(".", "c20job-"+tag+"-*.json")
	if err != nil {
		panic(err)
	}
	data, _ := json.Marshal(jobs)
	jobPath.Write(data)
	jobPath.Close()
	jp := jobPath.Name()
	defer os.Remove(jp)
	defer os.Remove(jp + ".out")
	next := 0
	for next < len(jobs) {
		if !deadline.IsZero() && time.Now().After(deadline) {
			break
		}
		os.Remove(jp + ".out")
		cmd := exec.Command(os.Args[0], "-test.run", "^TestVerifC20$", "-test.timeout", "0", "-test.count", "1")
		dl := int64(0)
		if !deadline.IsZero() {
			dl = deadline.Unix()
		}
		cmd.Env = append(os.Environ(), "VERIF_C20_CHILD="+jp, "VERIF_C20_START="+strconv.Itoa(next), "VERIF_C20_DEADLINE="+strconv.FormatInt(dl, 10))
		var stderr bytes.Buffer
		cmd.Stdout = &stderr
		cmd.Stderr = &stderr
		runErr := cmd.Run()
		started := -1
		finished := map[int]bool{}
		hang := -1
		if f, err := os.Open(jp + ".out"); err == nil {
			sc := bufio.NewScanner(f)
			sc.Buffer(make([]byte, 1<<20), 1<<26)
			for sc.Scan() {
				var l c20Line
				if json.Unmarshal(sc.Bytes(), &l) != nil {
					continue
				}
				if l.Start != nil {
					started = *l.Start
				}
				if l.Done != nil && l.Rec != nil {
					recs[*l.Done] = l.Rec
					finished[*l.Done] = true
				}
				if l.Hang != nil {
					hang = *l.Hang
				}
			}
			f.Close()
		}
		if started >= 0 && !finished[started] {
			// the child died (or hung) while running configuration `started`
			j := jobs[started]
			rec := &c20Rec{ID: j.Cfg.id(), Outcomes: map[string]int64{}, Nontriv: true}
			tail := stderr.String()
			if i := strings.Index(tail, "panic:"); i >= 0 {
				tail = tail[i:]
			}
			if len(tail) > 1800 {
				tail = tail[:1800]
			}
			if hang == started {
				rec.out("INCONCLUSIVE-hang")
				rec.Note = "configuration did not finish within 10 minutes"
			} else {
				rec.out("main:process-crashed")
				first := tail
				if i := strings.Index(first, "\n"); i > 0 {
					first = first[:i]
				}
				rec.violate("crash:"+j.Cfg.id(), fmt.Sprintf("config %s: the process died while running an in-contract configuration (%v): %s", j.Cfg.id(), runErr, tail), j.Only)
			}
			recs[started] = rec
			next = started + 1
			continue
		}
		if started < 0 && runErr != nil {
			panic(fmt.Sprintf("c20 child failed before running anything: %v\n%s", runErr, stderr.String()))
		}
		// child ended normally (all done or deadline)
		next = len(jobs)
		for i := range jobs {
			if recs[i] == nil {
				next = i
				break
			}
		}
		if runErr == nil {
			break
		}
	}
	return recs
}

type c20Replay struct {
	Cfg  c20Cfg `json:"cfg"`
	Only string `json:"only"`
	Key  string `json:"key"`
}

func TestVerifC20(t *testing.T) {
	if jp := os.Getenv("VERIF_C20_CHILD"); jp != "" {
		c20Child(jp)
		return
	}
	run := verifkit.Env()
	res := verifkit.NewResult()
	defer run.Finish(res)
	res.Rule = "one case = (sm type, log store, initial replicas, history with export point, new member list kind) run on real NodeHosts, " +
		"plus every refusal case (defective image / member list, byte corruptions) evaluated on a scratch copy of the stopped system; " +
		"non-trivial = the export succeeded and the list kind exists for the export-time membership; distinct by configuration id"
	res.Assumptions = []string{
		"goroutine schedules inside NodeHost are free-running (not enumerated); oracles are timing independent except the liveness deadline, whose expiry is counted as INCONCLUSIVE",
		"state machines, the chan transport wiring and the in-memory FS are harness/test code; external snapshot files are not covered (rsm.Files uses the OS file system, not the vfs)",
		"a panic of ImportSnapshot on a defective image counts as a refusal (tallied as panic-unchanged)",
	}
	masks := []int{0x01, 0xff}
	metaMasks := []int{0x01, 0x80, 0xff}
	stride := 8
	liveS := 40
	if run.Thorough() {
		masks = []int{0x01, 0x02, 0x10, 0x80, 0xff}
		metaMasks = nil
		for m := 1; m <= 255; m++ {
			metaMasks = append(metaMasks, m) // every single-byte corruption
		}
		stride = 1
		liveS = 60
	}
	if run.Replay != "" {
		var rp c20Replay
		run.LoadReplay(&rp)
		recs := c20RunJobs([]c20Job{{Cfg: rp.Cfg, Only: rp.Only, Masks: masks, MetaMasks: metaMasks, DataStride: 1, LiveS: liveS}}, "replay", time.Time{})
		if recs[0] != nil {
			for _, v := range recs[0].Viol {
				if v.Key == rp.Key || rp.Key == "" {
					res.Violate(v.Key, v.Desc, c20Replay{Cfg: rp.Cfg, Only: v.Only, Key: v.Key})
				}
			}
			for k, n := range recs[0].Outcomes {
				for i := int64(0); i < n; i++ {
					res.Outcome(k)
				}
			}
		}
		return
	}
	all := c20Enumerate(run.Thorough())
	if v := os.Getenv("VERIF_C20_FILTER"); v != "" {
		var f []c20Cfg
		for _, c := range all {
			if strings.Contains(c.id()+"#"+c.Corrupt, v) {
				f = append(f, c)
			}
		}
		all = f
	}
	res.Extra["max_configurations_total"] = len(all)
	// deterministic order; the seed only rotates which shard gets which item
	var jobs []c20Job
	for i, c := range all {
		_ = i
		if run.Mine(verifkit.Hash64(fmt.Sprintf("%d/%s", run.Seed, c.id()))) {
			jobs = append(jobs, c20Job{Cfg: c, Masks: masks, MetaMasks: metaMasks, DataStride: stride, LiveS: liveS})
		}
	}
	recs := c20RunJobs(jobs, fmt.Sprintf("s%d", run.Shard), run.Deadline)
	var maxWall int64
	var notes []string
	inconcl := int64(0)
	for i, rec := range recs {
		if rec == nil {
			res.Cap("deadline reached before all configurations of the shard were run")
			continue
		}
		res.Evaluations += rec.Evals
		if rec.Nontriv {
			res.DistinctNontrivial++
		}
		for k, n := range rec.Outcomes {
			for j := int64(0); j < n; j++ {
				res.Outcome(k)
			}
			if strings.Contains(k, "INCONCLUSIVE") || strings.HasPrefix(k, "inconclusive") {
				inconcl += n
			}
		}
		if rec.WallMs > maxWall {
			maxWall = rec.WallMs
		}
		if rec.WallMs > 3000 {
			fmt.Printf("C20 slow %s corrupt=%q: %d ms, %d evaluations\n", rec.ID, jobs[i].Cfg.Corrupt, rec.WallMs, rec.Evals)
		}
		if rec.Note != "" {
			fmt.Printf("C20 note %s: %v %s\n", rec.ID, rec.Outcomes, rec.Note)
			notes = append(notes, rec.ID+": "+rec.Note)
		}
		res.Sample(3, map[string]interface{}{"cfg": jobs[i].Cfg, "outcomes": rec.Outcomes, "wall_ms": rec.WallMs,
			"meta_bytes": rec.MetaBytes, "data_bytes": rec.DataBytes, "tree_bytes": rec.TreeBytes, "note": rec.Note})
		for _, v := range rec.Viol {
			res.Violate(v.Key, v.Desc, c20Replay{Cfg: jobs[i].Cfg, Only: v.Only, Key: v.Key})
		}
	}
	res.Extra["configurations_run"] = len(recs)
	if len(notes) > 0 {
		res.Extra[fmt.Sprintf("notes_shard%d", run.Shard)] = notes
	}
	res.Extra["inconclusive"] = inconcl
	res.Extra["max_config_wall_ms"] = maxWall
}
