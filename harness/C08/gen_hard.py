#!/usr/bin/env python3
"""Derives {work}/hard_c08.go from the CURRENT internal/settings/hard.go of the
tree under test: only the snapshot block size constant is shrunk (2 MiB -> 128
bytes) so that (a) every snapshot file of the harness spans several checksummed
blocks and (b) a save/recover cycle does not allocate 2 x 2 MiB. Fails loudly
when the anchor line is not found exactly once."""
import os
import re
import sys

repo = os.environ["VERIF_REPO"]
work = os.environ["VERIF_WORK"]
src = os.path.join(repo, "internal", "settings", "hard.go")
with open(src) as f:
    text = f.read()
anchor = re.compile(r"^(\s*SnapshotChunkSize\s+uint64\s*=\s*)2 \* 1024 \* 1024\s*$", re.M)
found = anchor.findall(text)
if len(found) != 1:
    sys.stderr.write("C08 gen_hard.py: anchor 'SnapshotChunkSize uint64 = 2 * 1024 * 1024' found %d times in %s\n" % (len(found), src))
    sys.exit(1)
text = anchor.sub(lambda m: m.group(1) + "128", text)
with open(os.path.join(work, "hard_c08.go"), "w") as f:
    f.write(text)
