//go:build verif

// Read-only observation hooks for check C08 (overlaid into internal/rsm at
// check time, never present in /repo). Nothing here changes behaviour.
package rsm

import (
	"encoding/hex"
	"sort"
	"strconv"
	"strings"
)

// VerifApplied returns the per-entry applied index/term and the batch level
// last applied index/term.
func (s *StateMachine) VerifApplied() (index, term, laIndex, laTerm uint64) {
	s.mu.RLock()
	defer s.mu.RUnlock()
	s.lastApplied.Lock()
	defer s.lastApplied.Unlock()
	return s.index, s.term, s.lastApplied.index, s.lastApplied.term
}

// VerifOnDisk returns the on disk index bookkeeping.
func (s *StateMachine) VerifOnDisk() (initIndex, onDiskIndex uint64) {
	s.mu.RLock()
	defer s.mu.RUnlock()
	return s.onDiskInitIndex, s.onDiskIndex
}

// VerifSessions renders the client sessions in LRU order (least recently used
// first) WITHOUT touching the LRU order.
func (s *StateMachine) VerifSessions() string {
	s.mu.RLock()
	defer s.mu.RUnlock()
	lru := s.sessions.lru
	lru.Lock()
	defer lru.Unlock()
	var sb strings.Builder
	sb.WriteString("max=")
	sb.WriteString(strconv.FormatUint(lru.size, 10))
	lru.sessions.OrderedDo(func(k, v interface{}) {
		ses := v.(*Session)
		keys := make([]uint64, 0, len(ses.History))
		for id := range ses.History {
			keys = append(keys, uint64(id))
		}
		if len(keys) > 1 {
			sort.Slice(keys, func(i, j int) bool { return keys[i] < keys[j] })
		}
		sb.WriteString(" [c")
		sb.WriteString(strconv.FormatUint(uint64(ses.ClientID), 10))
		sb.WriteString(" upto=")
		sb.WriteString(strconv.FormatUint(uint64(ses.RespondedUpTo), 10))
		for _, id := range keys {
			r := ses.History[RaftSeriesID(id)]
			sb.WriteByte(' ')
			sb.WriteString(strconv.FormatUint(id, 10))
			sb.WriteByte(':')
			sb.WriteString(strconv.FormatUint(r.Value, 16))
			sb.WriteByte('/')
			sb.WriteString(hex.EncodeToString(r.Data))
		}
		sb.WriteString("]")
	})
	return sb.String()
}

// VerifSessionCount returns the number of sessions and responses held.
func (s *StateMachine) VerifSessionCount() (sessions int, responses int) {
	s.mu.RLock()
	defer s.mu.RUnlock()
	lru := s.sessions.lru
	lru.Lock()
	defer lru.Unlock()
	lru.sessions.OrderedDo(func(k, v interface{}) {
		sessions++
		responses += len(v.(*Session).History)
	})
	return
}

// VerifSetSessionBufferCap changes the INITIAL capacity of the bytes.Buffer
// the session image is written to in getSSMeta (128 KiB by default, zeroed
// on every snapshot); the buffer grows on demand so behaviour is unchanged.
func VerifSetSessionBufferCap(n uint64) { sessionBufferInitialCap = n }

// VerifC08AfterSyncHook is a one-shot interleaving point: when armed it runs
// once, right after StateMachine.sync() (on-disk state machines only) has
// released s.mu, i.e. at the first moment at which the apply worker - which is
// kept out by s.mu while the user's Sync() runs - can apply further updates.
// The call site is added by the generated copy of statemachine.go
// (gen_sm.py); nothing else in that file is changed.
var VerifC08AfterSyncHook func()

func verifC08AfterSync() {
	if f := VerifC08AfterSyncHook; f != nil {
		VerifC08AfterSyncHook = nil
		f()
	}
}
