#!/usr/bin/env python3
"""Derives {work}/statemachine_c08.go from the CURRENT
internal/rsm/statemachine.go of the tree under test. The only change is an
interleaving point right after StateMachine.sync() has released s.mu:

    func (s *StateMachine) sync() error {
        ...
        s.mu.Lock()
        defer s.mu.Unlock()            ->  defer func() { s.mu.Unlock(); verifC08AfterSync() }()

sync() holds s.mu exclusively across the user's IOnDiskStateMachine.Sync() and
the apply path (handleBatch/update/...) needs s.mu as well, so the real apply
worker can never run INSIDE the user's Sync(); the earliest point at which it
can run is the moment sync() unlocks. verifC08AfterSync (rsm_c08_hooks.go) is a
no-op unless the harness armed the one-shot hook. Nothing else is touched, in
particular not the order of prepare()/sync() in concurrentSave. Fails loudly
when the anchor is not found exactly once."""
import os
import sys

repo = os.environ["VERIF_REPO"]
work = os.environ["VERIF_WORK"]
src = os.path.join(repo, "internal", "rsm", "statemachine.go")
# when the schedrewrite step of this check ran before (part rsm-sched), derive from its copy
# (same source, sync/atomic imports redirected to the shims) and take over the overlay entry
schedx = os.path.join(work, "schedx", "internal__rsm__statemachine.go")
if os.path.exists(schedx):
    src = schedx
with open(src) as f:
    text = f.read()


def die(msg):
    sys.stderr.write("C08 gen_sm.py: %s (%s)\n" % (msg, src))
    sys.exit(1)


head = "func (s *StateMachine) sync() error {\n"
if text.count(head) != 1:
    die("anchor %r found %d times" % (head.strip(), text.count(head)))
start = text.index(head)
end = text.find("\n}\n", start)
if end < 0:
    die("end of sync() not found")
body = text[start:end]
anchor = "\ts.mu.Lock()\n\tdefer s.mu.Unlock()\n"
if body.count(anchor) != 1 or body.count("s.mu.") != 2:
    die("sync() does not have the expected single 's.mu.Lock(); defer s.mu.Unlock()' pair")
if "s.sm.Sync()" not in body[body.index(anchor):]:
    die("sync() does not call s.sm.Sync() under the lock")
body = body.replace(anchor, "\ts.mu.Lock()\n\tdefer func() { s.mu.Unlock(); verifC08AfterSync() }()\n")
text = text[:start] + body + text[end:]
with open(os.path.join(work, "statemachine_c08.go"), "w") as f:
    f.write(text)
import json
genp = os.path.join(work, "overlay.gen.json")
if os.path.exists(genp):
    with open(genp) as f:
        gen = json.load(f)
    if gen.pop("internal/rsm/statemachine.go", None) is not None:
        with open(genp, "w") as f:
            json.dump(gen, f, indent=1)
