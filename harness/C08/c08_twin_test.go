//go:build verif

// C08 part "twin": snapshot + log suffix is equivalent to replaying the full
// log. White-box in the root package: a miniature deterministic engine drives
// the REAL node.go methods (applyRaftUpdates/processRaftUpdate/handleTask/
// handleSnapshotTask/processStatusTransition, ssWorker.handle -> node.save /
// node.recover, removeLog, replayLog), the REAL snapshotter, rsm.StateMachine
// with the managed/native wrappers, the rsm snapshot writer/reader, SSEnv and
// logdb.LogReader over the in-memory ILogDB, all on a strict MemFS. Only the
// raft core is absent: committed entry streams are enumerated exhaustively and
// fed as pb.Update values the way engine.processSteps does.
package dragonboat

import (
	"bytes"
	"encoding/binary"
	"errors"
	"fmt"
	"io"
	"math"
	"os"
	"runtime/debug"
	"strconv"
	"strings"
	"sync/atomic"
	"testing"

	gvfs "github.com/lni/vfs"

	"github.com/lni/dragonboat/v4/client"
	"github.com/lni/dragonboat/v4/config"
	"github.com/lni/dragonboat/v4/internal/fileutil"
	"github.com/lni/dragonboat/v4/internal/logdb"
	"github.com/lni/dragonboat/v4/internal/rsm"
	"github.com/lni/dragonboat/v4/internal/server"
	"github.com/lni/dragonboat/v4/internal/verifkit"
	"github.com/lni/dragonboat/v4/internal/verifkit/memlogdb"
	"github.com/lni/dragonboat/v4/internal/vfs"
	"github.com/lni/dragonboat/v4/logger"
	pb "github.com/lni/dragonboat/v4/raftpb"
	sm "github.com/lni/dragonboat/v4/statemachine"
)

// ---------------------------------------------------------------- alphabet

type c08Sym uint8

const (
	yRegC1 c08Sym = iota
	yRegC2
	yP11 // proposal client 1 series 1
	yP12 // proposal client 1 series 2 (acknowledges series 1)
	yP21 // proposal client 2 series 1
	yUnregC1
	yNoop  // update through the NO-OP session, payload x
	yNoop2 // update through the NO-OP session, payload y
	yCCAdd3
	yCCRem2
	yCCNV4
	yEmpty // empty entry appended by a new leader, term+1
)

var c08SymName = map[c08Sym]string{
	yRegC1: "reg(c1)", yRegC2: "reg(c2)", yP11: "prop(c1,s1)", yP12: "prop(c1,s2)", yP21: "prop(c2,s1)",
	yUnregC1: "unreg(c1)", yNoop: "noop(x)", yNoop2: "noop(y)", yCCAdd3: "cc:add(3)", yCCRem2: "cc:remove(2)",
	yCCNV4: "cc:addNonVoting(4)", yEmpty: "empty(term+1)",
}

// alphabet for regular and concurrent state machines (client sessions are
// supported)
var c08AlphaSess = []c08Sym{yRegC1, yRegC2, yP11, yP12, yP21, yUnregC1, yNoop, yCCAdd3, yCCRem2, yEmpty}

// alphabet for on-disk state machines: client sessions are not supported by
// IOnDiskStateMachine (nodehost.go rejects them), only NO-OP session updates.
var c08AlphaDisk = []c08Sym{yNoop, yNoop2, yCCAdd3, yCCRem2, yCCNV4, yEmpty}

const (
	c08C1     = 101
	c08C2     = 102
	c08NoopID = 900
	c08Probe1 = 201
	c08Probe2 = 202
	c08Boot   = 2 // bootstrap config change entries (members 1 and 2)
)

func c08CC(t pb.ConfigChangeType, id uint64, init bool) []byte {
	cc := pb.ConfigChange{Type: t, ReplicaID: id, Address: fmt.Sprintf("a%d", id), Initialize: init}
	return pb.MustMarshal(&cc)
}

func c08Session(e *pb.Entry, cid, series uint64, cmd string) {
	e.ClientID = cid
	e.SeriesID = series
	if series != client.NoOPSeriesID && series != client.SeriesIDForRegister && series != client.SeriesIDForUnregister {
		e.RespondedTo = series - 1
	}
	if cmd != "" {
		e.Type = pb.EncodedEntry
		e.Cmd = preparePayload(config.NoCompression, []byte(cmd))
	} else {
		e.Type = pb.ApplicationEntry
	}
}

// c08Entry builds the entry the way request.go/raft build it.
func c08Entry(y c08Sym, index, term uint64) pb.Entry {
	e := pb.Entry{Index: index, Term: term, Key: 1000 + index}
	switch y {
	case yRegC1:
		c08Session(&e, c08C1, client.SeriesIDForRegister, "")
	case yRegC2:
		c08Session(&e, c08C2, client.SeriesIDForRegister, "")
	case yP11:
		c08Session(&e, c08C1, 1, "a")
	case yP12:
		c08Session(&e, c08C1, 2, "b")
	case yP21:
		c08Session(&e, c08C2, 1, "c")
	case yUnregC1:
		c08Session(&e, c08C1, client.SeriesIDForUnregister, "")
	case yNoop:
		c08Session(&e, c08NoopID, client.NoOPSeriesID, "x")
	case yNoop2:
		c08Session(&e, c08NoopID, client.NoOPSeriesID, "y")
	case yCCAdd3:
		e.Type, e.Cmd = pb.ConfigChangeEntry, c08CC(pb.AddNode, 3, false)
	case yCCRem2:
		e.Type, e.Cmd = pb.ConfigChangeEntry, c08CC(pb.RemoveNode, 2, false)
	case yCCNV4:
		e.Type, e.Cmd = pb.ConfigChangeEntry, c08CC(pb.AddNonVoting, 4, false)
	case yEmpty:
		e.Type, e.Key = pb.ApplicationEntry, 0
	default:
		panic("unknown symbol")
	}
	return e
}

// c08Build returns the committed log: two bootstrap config changes (as
// raft.bootstrap creates them) followed by the stream.
func c08Build(stream []c08Sym) []pb.Entry {
	ents := []pb.Entry{
		{Type: pb.ConfigChangeEntry, Index: 1, Term: 1, Cmd: c08CC(pb.AddNode, 1, true)},
		{Type: pb.ConfigChangeEntry, Index: 2, Term: 1, Cmd: c08CC(pb.AddNode, 2, true)},
	}
	term := uint64(1)
	for i, y := range stream {
		if y == yEmpty {
			term++
		}
		ents = append(ents, c08Entry(y, uint64(c08Boot+i+1), term))
	}
	return ents
}

func c08ProbeEntry(which int, index, term uint64) pb.Entry {
	e := pb.Entry{Index: index, Term: term, Key: 1000 + index}
	c08Session(&e, uint64(c08Probe1+which), client.SeriesIDForRegister, "")
	return e
}

func c08StreamString(stream []c08Sym) string {
	p := make([]string, len(stream))
	for i, y := range stream {
		p[i] = c08SymName[y]
	}
	return strings.Join(p, " ")
}

// ---------------------------------------------------------------- user SMs

type c08Data struct{ Count, Hash, Last uint64 }

func (d *c08Data) apply(index uint64, cmd []byte) sm.Result {
	h := d.Hash ^ (index * 0x9E3779B97F4A7C15)
	for _, b := range cmd {
		h = (h ^ uint64(b)) * 0x100000001B3
	}
	h ^= h >> 29
	d.Hash, d.Last = h, index
	d.Count++
	data := append([]byte{byte(d.Count)}, cmd...)
	return sm.Result{Value: h | 1, Data: data}
}

func (d c08Data) filler() []byte {
	n := int(d.Hash%200) + 100
	f := make([]byte, n)
	x := d.Hash | 1
	for i := range f {
		x = x*6364136223846793005 + 1442695040888963407
		f[i] = byte(x >> 56)
	}
	return f
}

func (d c08Data) write(w io.Writer) error {
	b := make([]byte, 24)
	binary.LittleEndian.PutUint64(b, d.Count)
	binary.LittleEndian.PutUint64(b[8:], d.Hash)
	binary.LittleEndian.PutUint64(b[16:], d.Last)
	if _, err := w.Write(b); err != nil {
		return err
	}
	_, err := w.Write(d.filler())
	return err
}

func c08ReadData(r io.Reader) (c08Data, error) {
	all, err := io.ReadAll(r)
	if err != nil {
		return c08Data{}, err
	}
	if len(all) < 24 {
		return c08Data{}, fmt.Errorf("user snapshot payload too short: %d bytes", len(all))
	}
	d := c08Data{Count: binary.LittleEndian.Uint64(all), Hash: binary.LittleEndian.Uint64(all[8:]), Last: binary.LittleEndian.Uint64(all[16:])}
	if !bytes.Equal(all[24:], d.filler()) {
		return c08Data{}, fmt.Errorf("user snapshot payload damaged (%d bytes)", len(all))
	}
	return d, nil
}

// trace of what the user state machine saw; bad collects contract breaches
// observed from inside the user state machine
type c08Trace struct {
	updates []uint64
	bad     []string
}

func (t *c08Trace) update(index uint64) {
	if n := len(t.updates); n > 0 && index <= t.updates[n-1] {
		t.bad = append(t.bad, fmt.Sprintf("Update called with index %d after index %d", index, t.updates[n-1]))
	}
	t.updates = append(t.updates, index)
}

type c08Regular struct {
	d c08Data
	t *c08Trace
}

func (s *c08Regular) Update(e sm.Entry) (sm.Result, error) {
	s.t.update(e.Index)
	return s.d.apply(e.Index, e.Cmd), nil
}
func (s *c08Regular) Lookup(interface{}) (interface{}, error) { return s.d, nil }
func (s *c08Regular) SaveSnapshot(w io.Writer, _ sm.ISnapshotFileCollection, _ <-chan struct{}) error {
	return s.d.write(w)
}
func (s *c08Regular) RecoverFromSnapshot(r io.Reader, _ []sm.SnapshotFile, _ <-chan struct{}) error {
	d, err := c08ReadData(r)
	if err != nil {
		return err
	}
	s.d = d
	return nil
}
func (s *c08Regular) Close() error             { return nil }
func (s *c08Regular) GetHash() (uint64, error) { return s.d.Hash ^ s.d.Count<<48 ^ s.d.Last<<56, nil }

type c08Concurrent struct {
	d c08Data
	t *c08Trace
}

func (s *c08Concurrent) Update(es []sm.Entry) ([]sm.Entry, error) {
	for i := range es {
		s.t.update(es[i].Index)
		es[i].Result = s.d.apply(es[i].Index, es[i].Cmd)
	}
	return es, nil
}
func (s *c08Concurrent) Lookup(interface{}) (interface{}, error) { return s.d, nil }
func (s *c08Concurrent) PrepareSnapshot() (interface{}, error) {
	cp := s.d
	return &cp, nil
}
func (s *c08Concurrent) SaveSnapshot(ctx interface{}, w io.Writer, _ sm.ISnapshotFileCollection, _ <-chan struct{}) error {
	return ctx.(*c08Data).write(w)
}
func (s *c08Concurrent) RecoverFromSnapshot(r io.Reader, _ []sm.SnapshotFile, _ <-chan struct{}) error {
	d, err := c08ReadData(r)
	if err != nil {
		return err
	}
	s.d = d
	return nil
}
func (s *c08Concurrent) Close() error { return nil }
func (s *c08Concurrent) GetHash() (uint64, error) {
	return s.d.Hash ^ s.d.Count<<48 ^ s.d.Last<<56, nil
}

// c08DiskImage is the "disk" of an on-disk state machine; it survives
// restarts. cands are the states the disk may legally hold after a crash: the
// last synced state and every later state (an implementation may persist
// eagerly), in order.
type c08DiskImage struct {
	durable c08Data
	cands   []c08Data
}

func newC08DiskImage() *c08DiskImage { return &c08DiskImage{cands: []c08Data{{}}} }

func (g *c08DiskImage) crashTo(j int) {
	g.durable = g.cands[j]
	g.cands = []c08Data{g.durable}
}

type c08OnDisk struct {
	img    *c08DiskImage
	mem    c08Data
	opened bool
	openAt uint64
	t      *c08Trace
}

func (s *c08OnDisk) Open(<-chan struct{}) (uint64, error) {
	s.mem = s.img.durable
	s.opened = true
	s.openAt = s.mem.Last
	return s.mem.Last, nil
}
func (s *c08OnDisk) Update(es []sm.Entry) ([]sm.Entry, error) {
	for i := range es {
		if es[i].Index <= s.openAt {
			s.t.bad = append(s.t.bad, fmt.Sprintf("on-disk Update handed index %d although Open returned %d", es[i].Index, s.openAt))
		}
		s.t.update(es[i].Index)
		es[i].Result = s.mem.apply(es[i].Index, es[i].Cmd)
		s.img.cands = append(s.img.cands, s.mem)
	}
	return es, nil
}
func (s *c08OnDisk) Lookup(interface{}) (interface{}, error) { return s.mem, nil }
func (s *c08OnDisk) Sync() error {
	s.img.durable = s.mem
	s.img.cands = []c08Data{s.mem}
	return nil
}
func (s *c08OnDisk) PrepareSnapshot() (interface{}, error) {
	cp := s.mem
	return &cp, nil
}
func (s *c08OnDisk) SaveSnapshot(ctx interface{}, w io.Writer, _ <-chan struct{}) error {
	return ctx.(*c08Data).write(w)
}
func (s *c08OnDisk) RecoverFromSnapshot(r io.Reader, _ <-chan struct{}) error {
	d, err := c08ReadData(r)
	if err != nil {
		return err
	}
	s.mem = d
	// the recovered state replaces whatever the disk held; Open index rule now
	// refers to the recovered state
	s.openAt = d.Last
	s.t.updates = nil
	s.img.cands = append(s.img.cands, s.mem)
	return nil
}
func (s *c08OnDisk) Close() error { return nil }
func (s *c08OnDisk) GetHash() (uint64, error) {
	return s.mem.Hash ^ s.mem.Count<<48 ^ s.mem.Last<<56, nil
}

// ---------------------------------------------------------------- INode proxy

type c08Res struct {
	Result   sm.Result
	Rejected bool
	Ignored  bool
	CC       bool
}

func (r c08Res) equal(o c08Res) bool {
	return r.Result.Value == o.Result.Value && bytes.Equal(r.Result.Data, o.Result.Data) && r.Rejected == o.Rejected &&
		r.Ignored == o.Ignored && r.CC == o.CC
}

func (r c08Res) String() string {
	return fmt.Sprintf("{v=%d d=%x rej=%v ign=%v cc=%v}", r.Result.Value, r.Result.Data, r.Rejected, r.Ignored, r.CC)
}

type c08Proxy struct {
	results  map[uint64]c08Res
	ccKeys   map[uint64]c08Res // by entry key
	restored []uint64
}

func newC08Proxy() *c08Proxy {
	return &c08Proxy{results: map[uint64]c08Res{}, ccKeys: map[uint64]c08Res{}}
}

func (p *c08Proxy) StepReady() {}
func (p *c08Proxy) RestoreRemotes(ss pb.Snapshot) error {
	p.restored = append(p.restored, ss.Index)
	return nil
}
func (p *c08Proxy) ApplyUpdate(e pb.Entry, r sm.Result, rejected bool, ignored bool, _ bool) {
	p.results[e.Index] = c08Res{Result: sm.Result{Value: r.Value, Data: append([]byte(nil), r.Data...)}, Rejected: rejected, Ignored: ignored}
}
func (p *c08Proxy) ApplyConfigChange(cc pb.ConfigChange, key uint64, rejected bool) error {
	p.ccKeys[key] = c08Res{Rejected: rejected, CC: true}
	return nil
}
func (p *c08Proxy) ReplicaID() uint64           { return 1 }
func (p *c08Proxy) ShardID() uint64             { return 1 }
func (p *c08Proxy) ShouldStop() <-chan struct{} { return nil }

type c08Pipeline struct{}

func (c08Pipeline) setCloseReady(*node)    {}
func (c08Pipeline) setStepReady(uint64)    {}
func (c08Pipeline) setCommitReady(uint64)  {}
func (c08Pipeline) setApplyReady(uint64)   {}
func (c08Pipeline) setStreamReady(uint64)  {}
func (c08Pipeline) setSaveReady(uint64)    {}
func (c08Pipeline) setRecoverReady(uint64) {}

// ---------------------------------------------------------------- environment

type c08HookFS struct {
	vfs.IFS
	onSnapCreate func()
}

func (h *c08HookFS) Create(name string) (vfs.File, error) {
	if h.onSnapCreate != nil && strings.HasSuffix(name, "."+server.SnapshotFileSuffix) {
		f := h.onSnapCreate
		h.onSnapCreate = nil
		f()
	}
	return h.IFS.Create(name)
}

type c08Env struct {
	mem    *gvfs.MemFS
	fs     *c08HookFS
	db     *memlogdb.DB
	img    *c08DiskImage
	root   string
	export string
}

func c08MustDir(fs vfs.IFS, dir string) {
	if err := fileutil.MkdirAll(dir, fs); err != nil {
		panic(err)
	}
}

func newC08Env() *c08Env {
	mem := gvfs.NewStrictMem()
	e := &c08Env{mem: mem, fs: &c08HookFS{IFS: mem}, db: memlogdb.New(), img: newC08DiskImage(), root: "/r1/snapshot", export: "/export"}
	c08MustDir(e.fs, e.root)
	c08MustDir(e.fs, e.export)
	return e
}

// sibling returns the environment of another machine sharing the file system
// namespace (so that an exported snapshot can be copied over).
func (e *c08Env) sibling(root string) *c08Env {
	s := &c08Env{mem: e.mem, fs: e.fs, db: memlogdb.New(), img: newC08DiskImage(), root: root, export: e.export}
	c08MustDir(s.fs, s.root)
	return s
}

// crash drops everything that was not synced; the on-disk state machine keeps
// candidate j of its legal post-crash states.
func (e *c08Env) crash(j int) {
	e.db.Hook = nil
	e.fs.onSnapCreate = nil
	rsm.VerifC08AfterSyncHook = nil
	e.mem.ResetToSyncedState()
	e.img.crashTo(j)
}

// ---------------------------------------------------------------- replica

const (
	tRegular = iota
	tConcurrent
	tOnDisk
)

var c08TypeName = []string{"regular", "concurrent", "ondisk"}

type c08Replica struct {
	env     *c08Env
	typ     int
	n       *node
	proxy   *c08Proxy
	trace   *c08Trace
	reg     *c08Regular
	con     *c08Concurrent
	disk    *c08OnDisk
	batch   []rsm.Task
	apply   []sm.Entry
	saveErr error
	// compaction timing observations
	commits      int
	ctAtCommit   uint64
	failCommit   bool
	duringSaveFn func()
	// where duringSaveFn runs: atFileCreate or atAfterSync
	duringSaveAt int
}

var errC08Injected = errors.New("c08 injected log store failure")

const c08CfgOverhead = 1

func newC08Replica(env *c08Env, typ int, comp config.CompressionType) *c08Replica {
	cfg := config.Config{ShardID: 1, ReplicaID: 1, CompactionOverhead: c08CfgOverhead, SnapshotCompressionType: comp}
	r := &c08Replica{env: env, typ: typ, proxy: newC08Proxy(), trace: &c08Trace{}}
	// nodehost.startShard
	lr := logdb.NewLogReader(1, 1, env.db)
	root := env.root
	ss := newSnapshotter(1, 1, func(uint64, uint64) string { return root }, env.db, lr, env.fs)
	lr.SetCompactor(ss)
	if err := ss.processOrphans(); err != nil {
		panic(err)
	}
	snapshotC := make(chan rsm.SSRequest, 1)
	n := &node{
		shardID: 1, replicaID: 1, config: cfg, logdb: env.db, logReader: lr, snapshotter: ss,
		pipeline: c08Pipeline{}, sysEvents: newSysEventListener(nil, nil), initializedC: make(chan struct{}),
		stopC: make(chan struct{}), syncTask: task{intervalMs: 1 << 62}, instanceID: 1, tickMillisecond: 1,
		snapshotC: snapshotC, pendingSnapshot: newPendingSnapshot(snapshotC), ss: snapshotState{},
	}
	var ism rsm.IStateMachine
	switch typ {
	case tRegular:
		r.reg = &c08Regular{t: r.trace}
		ism = rsm.NewInMemStateMachine(r.reg)
	case tConcurrent:
		r.con = &c08Concurrent{t: r.trace}
		ism = rsm.NewConcurrentStateMachine(r.con)
	case tOnDisk:
		r.disk = &c08OnDisk{img: env.img, t: r.trace}
		ism = rsm.NewOnDiskStateMachine(r.disk)
	}
	n.sm = rsm.NewStateMachine(rsm.NewNativeSM(cfg, ism, n.stopC), ss, cfg, r.proxy, env.fs)
	n.toApplyQ = n.sm.TaskQ()
	isNew, err := n.replayLog(1, 1)
	if err != nil {
		panic(err)
	}
	n.new = isNew
	r.n = n
	env.db.Hook = func(op string, _, _ uint64) error {
		if op == "SaveSnapshots" {
			r.commits++
			r.ctAtCommit = atomic.LoadUint64(&n.ss.compactLogTo)
			if r.failCommit {
				return errC08Injected
			}
		}
		return nil
	}
	return r
}

func (r *c08Replica) data() c08Data {
	switch r.typ {
	case tRegular:
		return r.reg.d
	case tConcurrent:
		return r.con.d
	}
	return r.disk.mem
}

// interleaving points at which the apply worker runs inside a concurrent save
const (
	// the snapshot worker is about to create the snapshot file (after
	// prepare/meta capture and after the snapshot-time sync)
	atFileCreate = iota
	// on-disk SMs: StateMachine.sync() has just made the state durable and
	// released StateMachine.mu (the apply worker is locked out while the user's
	// Sync() runs, this is the first moment it can proceed). With the order
	// prepare -> sync -> save the snapshot point was captured before, so the
	// durable state covers the snapshot; the crash/restart route checks it.
	atAfterSync
)

var c08AtName = []string{"when the snapshot file is created", "right after the snapshot-time Sync() released the state machine lock"}

// workerIter is one scheduling decision of the snapshot worker pool.
func (r *c08Replica) workerIter() bool {
	n := r.n
	w := &ssWorker{}
	if t, ok := n.ss.getRecoverReq(); ok {
		if err := w.handle(job{task: t, node: n}); err != nil {
			panic(err)
		}
		return true
	}
	if t, ok := n.ss.getSaveReq(); ok {
		if r.duringSaveFn != nil {
			if r.duringSaveAt == atAfterSync {
				rsm.VerifC08AfterSyncHook = r.duringSaveFn
			} else {
				r.env.fs.onSnapCreate = r.duringSaveFn
			}
			r.duringSaveFn = nil
		}
		r.saveErr = w.handle(job{task: t, node: n})
		r.env.fs.onSnapCreate = nil
		rsm.VerifC08AfterSyncHook = nil
		return true
	}
	return false
}

// applyOnce is one engine.processApplies iteration for the node.
func (r *c08Replica) applyOnce() (blocked bool, task rsm.Task) {
	n := r.n
	if n.processStatusTransition() {
		return true, rsm.Task{}
	}
	task, err := n.handleTask(r.batch, r.apply)
	if err != nil {
		panic(err)
	}
	if task.IsSnapshotTask() {
		n.handleSnapshotTask(task)
	}
	return false, task
}

// pump runs apply worker and snapshot worker until nothing is left to do.
func (r *c08Replica) pump() {
	for i := 0; ; i++ {
		if i > 100 {
			panic("c08: pump does not quiesce")
		}
		if r.saveErr != nil {
			return
		}
		blocked, task := r.applyOnce()
		if blocked {
			if !r.workerIter() {
				panic("c08: apply worker blocked without a pending snapshot job")
			}
			continue
		}
		if task.IsSnapshotTask() {
			r.workerIter()
			continue
		}
		if r.workerIter() {
			continue
		}
		if r.n.toApplyQ.Size() == 0 && !r.n.ss.saving() && !r.n.ss.recovering() {
			return
		}
	}
}

// step is engine.processSteps for one pb.Update that persists and commits ents.
func (r *c08Replica) step(ents []pb.Entry) {
	if len(ents) == 0 {
		return
	}
	n := r.n
	last := ents[len(ents)-1]
	ud := pb.Update{
		ShardID: 1, ReplicaID: 1, State: pb.State{Term: last.Term, Vote: 1, Commit: last.Index},
		EntriesToSave: ents, CommittedEntries: ents, LastApplied: n.sm.GetLastApplied(),
	}
	if err := r.env.db.SaveRaftState([]pb.Update{ud}, 1); err != nil {
		panic(err)
	}
	n.applyRaftUpdates(ud)
	if err := n.processRaftUpdate(ud); err != nil {
		panic(err)
	}
}

func (r *c08Replica) stepEach(ents []pb.Entry) {
	for i := range ents {
		r.step(ents[i : i+1])
	}
}

// snapshot request kinds
const (
	kPeriodic   = iota // SSRequest{} pushed by node.processRaftUpdate, config overhead
	kUser              // user requested, compaction overhead overridden to 0
	kExported          // user requested, exported
	kUserIndex         // user requested, compaction index overridden to snapshot index-1
	kCommitFail        // periodic, log store fails to record the snapshot
)

var c08KindName = []string{"periodic", "user", "exported", "userindex", "commitfail"}

func (r *c08Replica) request(kind int, applied uint64) *RequestState {
	n := r.n
	if kind == kPeriodic || kind == kCommitFail {
		n.pushTakeSnapshotRequest(rsm.SSRequest{})
		return nil
	}
	opt := SnapshotOption{}
	switch kind {
	case kUser:
		opt.OverrideCompactionOverhead, opt.CompactionOverhead = true, 0
	case kUserIndex:
		opt.OverrideCompactionOverhead, opt.CompactionIndex = true, applied-1
	case kExported:
		opt.Exported, opt.ExportPath = true, r.env.export
	}
	rs, err := n.requestSnapshot(opt, 1000)
	if err != nil {
		panic(err)
	}
	if !n.handleSnapshot(applied) {
		panic("c08: snapshot request ignored")
	}
	return rs
}

// ---------------------------------------------------------------- observation

type c08State struct {
	Data     c08Data
	DataHash uint64
	SessHash uint64
	Sessions string
	Memb     string
	MembHash uint64
	Index    uint64
	Term     uint64
	LAIndex  uint64
	LATerm   uint64
	// not part of the comparison
	nSess, nResp int
}

func c08MapString(sb *strings.Builder, name string, m map[uint64]string) {
	sb.WriteString(name)
	sb.WriteByte('{')
	// replica ids are small in this harness
	for k := uint64(0); k < 16; k++ {
		if v, ok := m[k]; ok {
			sb.WriteString(strconv.FormatUint(k, 10))
			sb.WriteByte('=')
			sb.WriteString(v)
			sb.WriteByte(',')
		}
	}
	sb.WriteByte('}')
}

func c08Membership(m pb.Membership) string {
	var sb strings.Builder
	sb.WriteString("ccid=")
	sb.WriteString(strconv.FormatUint(m.ConfigChangeId, 10))
	c08MapString(&sb, " addr", m.Addresses)
	c08MapString(&sb, " nonvoting", m.NonVotings)
	c08MapString(&sb, " witness", m.Witnesses)
	sb.WriteString(" removed{")
	for k := uint64(0); k < 16; k++ {
		if m.Removed[k] {
			sb.WriteString(strconv.FormatUint(k, 10))
			sb.WriteByte(',')
		}
	}
	sb.WriteByte('}')
	n := len(m.Addresses) + len(m.NonVotings) + len(m.Witnesses) + len(m.Removed)
	for _, mm := range []map[uint64]string{m.Addresses, m.NonVotings, m.Witnesses} {
		for k := range mm {
			if k >= 16 {
				panic("c08: replica id out of the rendering range")
			}
		}
	}
	for k := range m.Removed {
		if k >= 16 {
			panic("c08: replica id out of the rendering range")
		}
	}
	_ = n
	return sb.String()
}

func (r *c08Replica) state() c08State {
	s := r.n.sm
	st := c08State{Data: r.data()}
	h, err := s.GetHash()
	if err != nil {
		panic(err)
	}
	st.DataHash = h
	st.Sessions = s.VerifSessions()
	st.SessHash = s.GetSessionHash()
	st.Memb = c08Membership(s.GetMembership())
	st.MembHash = s.GetMembershipHash()
	st.Index, st.Term, st.LAIndex, st.LATerm = s.VerifApplied()
	if la := s.GetLastApplied(); la != st.LAIndex {
		panic("c08: GetLastApplied disagrees")
	}
	st.nSess, st.nResp = s.VerifSessionCount()
	return st
}

// c08Diff names the components of the property's state tuple that differ.
func c08Diff(a, b c08State) string {
	var d []string
	if a.Data != b.Data || a.DataHash != b.DataHash {
		d = append(d, fmt.Sprintf("user data %+v/%x vs %+v/%x", a.Data, a.DataHash, b.Data, b.DataHash))
	}
	if a.SessHash != b.SessHash || a.Sessions != b.Sessions {
		d = append(d, fmt.Sprintf("client sessions (LRU order, least recent first) %s vs %s", a.Sessions, b.Sessions))
	}
	if a.Memb != b.Memb || a.MembHash != b.MembHash {
		d = append(d, fmt.Sprintf("membership %s vs %s", a.Memb, b.Memb))
	}
	if a.Index != b.Index || a.LAIndex != b.LAIndex {
		d = append(d, fmt.Sprintf("applied index %d/%d vs %d/%d", a.Index, a.LAIndex, b.Index, b.LAIndex))
	}
	if a.Term != b.Term || a.LATerm != b.LATerm {
		d = append(d, fmt.Sprintf("applied term %d/%d vs %d/%d", a.Term, a.LATerm, b.Term, b.LATerm))
	}
	return strings.Join(d, "; ")
}

func c08DiffKey(a, b c08State) string {
	var d []string
	if a.Data != b.Data || a.DataHash != b.DataHash {
		d = append(d, "data")
	}
	if a.SessHash != b.SessHash || a.Sessions != b.Sessions {
		d = append(d, "sessions")
	}
	if a.Memb != b.Memb || a.MembHash != b.MembHash {
		d = append(d, "membership")
	}
	if a.Index != b.Index || a.LAIndex != b.LAIndex {
		d = append(d, "index")
	}
	if a.Term != b.Term || a.LATerm != b.LATerm {
		d = append(d, "term")
	}
	return strings.Join(d, "+")
}

// ---------------------------------------------------------------- twin A

type c08TwinA struct {
	states  []c08State // states[i] = state after applying entries 1..i (index 0 unused)
	final   c08State
	probes  [2]c08State
	results map[uint64]c08Res
	ccKeys  map[uint64]c08Res
}

func c08Probes(r *c08Replica, n uint64, term uint64) [2]c08State {
	var out [2]c08State
	for i := 0; i < 2; i++ {
		e := c08ProbeEntry(i, n+uint64(i)+1, term)
		r.step([]pb.Entry{e})
		r.pump()
		out[i] = r.state()
	}
	return out
}

// c08RunA applies the whole log on a replica that never snapshots. each=true:
// one pb.Update per entry; each=false: a single pb.Update (one Task) for the
// whole log.
func c08RunA(typ int, comp config.CompressionType, ents []pb.Entry, each bool, probe bool) *c08TwinA {
	r := newC08Replica(newC08Env(), typ, comp)
	r.pump()
	a := &c08TwinA{states: make([]c08State, len(ents)+1)}
	if each {
		for i := range ents {
			r.step(ents[i : i+1])
			r.pump()
			a.states[i+1] = r.state()
		}
	} else {
		r.step(ents)
		r.pump()
	}
	a.final = r.state()
	a.results, a.ccKeys = r.proxy.results, r.proxy.ccKeys
	if len(r.trace.bad) > 0 {
		panic("c08: twin A user SM contract breach: " + r.trace.bad[0])
	}
	if probe {
		last := ents[len(ents)-1]
		a.probes = c08Probes(r, last.Index, last.Term)
	}
	return a
}

// ---------------------------------------------------------------- one case

type c08Case struct {
	Alpha  string   `json:"alphabet"`
	Stream []c08Sym `json:"stream"`
	Desc   string   `json:"stream_text,omitempty"`
	Type   int      `json:"sm_type"`
	Snappy bool     `json:"snappy"`
	Cut    uint64   `json:"cut_index"`
	Kind   int      `json:"request_kind"`
	K      int      `json:"updates_during_save"`
	At     int      `json:"updates_applied_at,omitempty"` // atFileCreate (0) / atAfterSync (1)
	Cand   int      `json:"ondisk_crash_candidate"`
	Redel  bool     `json:"redeliver_covered_entries"`
}

func (c c08Case) comp() config.CompressionType {
	if c.Snappy {
		return config.Snappy
	}
	return config.NoCompression
}

type c08Fail struct{ key, desc string }

func (c c08Case) fail(clause, format string, args ...interface{}) *c08Fail {
	return &c08Fail{
		key:  fmt.Sprintf("C08:twin:%s:%s:%s", clause, c08TypeName[c.Type], c08KindName[c.Kind]),
		desc: fmt.Sprintf("[%s sm, %s snapshot at index %d, snappy=%v, %d update(s) applied during the save %s, on-disk crash candidate %d, redeliver=%v; log = 2 bootstrap config changes + %s] ", c08TypeName[c.Type], c08KindName[c.Kind], c.Cut, c.Snappy, c.K, c08AtName[c.At], c.Cand, c.Redel, c08StreamString(c.Stream)) + fmt.Sprintf(format, args...),
	}
}

var c08ClassCache = map[[6]int]string{}

func c08Class(typ, ns, nr int, data, memb, suffix bool) string {
	b := func(v bool) int {
		if v {
			return 1
		}
		return 0
	}
	k := [6]int{typ, ns, nr, b(data), b(memb), b(suffix)}
	if s, ok := c08ClassCache[k]; ok {
		return s
	}
	s := fmt.Sprintf("%s sess=%d resp=%d data=%v memb=%v suffix=%v", c08TypeName[typ], ns, nr, data, memb, suffix)
	c08ClassCache[k] = s
	return s
}

type c08Out struct {
	cands      int  // number of legal post crash states of the on-disk SM (for enumeration)
	nontrivial bool // the snapshot carried non initial content
	class      string
}

func c08ExpectCompactTo(kind int, ssIndex uint64) uint64 {
	switch kind {
	case kPeriodic:
		if ssIndex > c08CfgOverhead {
			return ssIndex - c08CfgOverhead
		}
	case kUser:
		return ssIndex // overhead 0
	case kUserIndex:
		return ssIndex - 1
	}
	return 0
}

// c08RunCase executes twin B (prefix, snapshot, rest), crashes it, restarts a
// fresh replica from what is durable and compares with twin A.
func c08RunCase(c c08Case, ents []pb.Entry, a *c08TwinA) (out c08Out, fail *c08Fail) {
	n := uint64(len(ents))
	env := newC08Env()
	b := newC08Replica(env, c.Type, c.comp())
	defer func() {
		if p := recover(); p != nil {
			if msg := fmt.Sprint(p); strings.HasPrefix(msg, "c08:") {
				fail = c.fail("harness-bug", "%s", msg)
			} else {
				fail = c.fail("panic", "dragonboat panicked: %s", msg)
			}
		}
	}()
	b.pump()
	// ---- prefix
	if c.Cut%2 == 0 {
		b.step(ents[:c.Cut])
	} else {
		b.stepEach(ents[:c.Cut])
	}
	b.pump()
	atCut := a.states[c.Cut]
	if ai, _, la, _ := b.n.sm.VerifApplied(); ai != c.Cut || la != c.Cut {
		panic("c08: twin B prefix not applied")
	}
	ns, nr := atCut.nSess, atCut.nResp
	out.nontrivial = atCut.Data.Count > 0 || ns > 0 || atCut.Memb != a.states[c08Boot].Memb
	out.class = c08Class(c.Type, ns, nr, atCut.Data.Count > 0, atCut.Memb != a.states[c08Boot].Memb, c.Cut < n)
	// ---- snapshot request, k updates queued behind it
	if ct := atomic.LoadUint64(&b.n.ss.compactLogTo); ct != 0 {
		panic("c08: compaction pending before the first snapshot")
	}
	b.failCommit = c.Kind == kCommitFail
	rs := b.request(c.Kind, c.Cut)
	k := uint64(c.K)
	if c.Cut+k > n {
		panic("c08: k too large")
	}
	if k > 0 {
		b.step(ents[c.Cut : c.Cut+k])
		applied := false
		if c.At == atAfterSync && c.Type != tOnDisk {
			panic("c08: the after-sync interleaving point only exists for on-disk state machines")
		}
		b.duringSaveAt = c.At
		b.duringSaveFn = func() {
			// the apply worker keeps going while the snapshot worker is inside the
			// concurrent save: either between PrepareSnapshot/meta capture and
			// writing the snapshot file, or (on-disk) at the moment the
			// snapshot-time Sync() lets it in again
			blocked, task := b.applyOnce()
			if blocked || task.IsSnapshotTask() {
				panic("c08: apply worker blocked during a concurrent save")
			}
			applied = true
			if c.At == atAfterSync {
				c08Paths["path_updates_after_snapshot_sync"]++
			} else {
				c08Paths["path_updates_during_save"]++
			}
		}
		defer func() {
			if fail == nil && !applied && c.Kind != kCommitFail {
				if c.At == atAfterSync {
					// the save never went through StateMachine.sync(): the queued
					// updates were applied after the save instead; whether that save
					// is recoverable was decided by the crash/restart route above
					c08Paths["path_after_sync_point_not_reached"]++
					return
				}
				fail = c.fail("harness", "interleaving hook did not run")
			}
		}()
	}
	b.pump()
	// ---- what the save did
	dbss, _ := env.db.GetSnapshot(1, 1)
	ct := atomic.LoadUint64(&b.n.ss.compactLogTo)
	switch c.Kind {
	case kCommitFail:
		if b.saveErr == nil {
			return out, c.fail("commitfail-not-reported", "log store refused to record the snapshot but node.save returned no error")
		}
		if ct != 0 {
			return out, c.fail("compaction-before-commit", "log compaction to %d scheduled although the snapshot was not recorded in the log store", ct)
		}
	case kExported:
		if b.saveErr != nil {
			return out, c.fail("save-error", "node.save failed: %v", b.saveErr)
		}
		if ct != 0 {
			return out, c.fail("compaction-exported", "log compaction to %d scheduled by an exported snapshot (log store snapshot index %d)", ct, dbss.Index)
		}
	default:
		if b.saveErr != nil {
			return out, c.fail("save-error", "node.save failed: %v", b.saveErr)
		}
		if dbss.Index == 0 || b.commits != 1 {
			return out, c.fail("not-committed", "save finished but the log store has no snapshot record (index %d, %d commits)", dbss.Index, b.commits)
		}
		if b.ctAtCommit != 0 {
			return out, c.fail("compaction-before-commit", "compactLogTo was already %d when the snapshot was being recorded in the log store", b.ctAtCommit)
		}
		if !dbss.Validate(env.fs) {
			return out, c.fail("invalid-file", "recorded snapshot does not validate")
		}
		if want := c08ExpectCompactTo(c.Kind, dbss.Index); ct != want {
			return out, c.fail("compaction-index", "snapshot index %d, compact-to index is %d, want %d (snapshot index - overhead)", dbss.Index, ct, want)
		}
	}
	if rs != nil {
		select {
		case res := <-rs.CompletedC:
			if !res.Completed() {
				return out, c.fail("request-result", "snapshot request not completed: code %v", res.code)
			}
		default:
			return out, c.fail("request-result", "snapshot request never completed")
		}
	}
	var bFinal c08State
	if c.Kind != kCommitFail {
		// ---- rest of the log on the running replica
		if c.Type == tOnDisk && k == 0 && c.Cut < n {
			// node.runSyncTask: a periodic sync task between two updates
			b.step(ents[c.Cut : c.Cut+1])
			b.n.pushTask(rsm.Task{PeriodicSync: true}, true)
			b.stepEach(ents[c.Cut+1:])
			c08Paths["path_periodic_sync"]++
		} else {
			b.stepEach(ents[c.Cut+k:])
		}
		b.pump()
		if c.Kind == kUser && k == 0 && c.Cut < n {
			// a second (periodic) snapshot at the end of the log replaces the
			// first one: the restart below must come up from the newest
			b.n.pushTakeSnapshotRequest(rsm.SSRequest{})
			b.pump()
			if b.saveErr != nil {
				return out, c.fail("save-error", "second node.save failed: %v", b.saveErr)
			}
			ss2, _ := env.db.GetSnapshot(1, 1)
			if ss2.Index != n || b.commits != 2 {
				return out, c.fail("not-committed", "second snapshot at %d not recorded in the log store (record %d, %d commits)", n, ss2.Index, b.commits)
			}
			if b.ctAtCommit != 0 {
				return out, c.fail("compaction-before-commit", "compactLogTo was already %d when the second snapshot was being recorded", b.ctAtCommit)
			}
			if ct2, want := atomic.LoadUint64(&b.n.ss.compactLogTo), c08ExpectCompactTo(kPeriodic, n); ct2 != want {
				return out, c.fail("compaction-index", "second snapshot index %d, compact-to index is %d, want %d (snapshot index - overhead)", n, ct2, want)
			}
			c08Paths["path_second_snapshot"]++
		}
		if err := b.n.removeLog(); err != nil {
			panic(err)
		}
		bFinal = b.state()
		if d := c08Diff(a.final, bFinal); d != "" {
			return out, c.fail("running-replica-"+c08DiffKey(a.final, bFinal), "the replica that took the snapshot and kept running differs from the full replay twin: %s", d)
		}
	} else {
		// node.save error is fatal for the node host; the log store still holds
		// the whole committed log
		if err := env.db.SaveRaftState([]pb.Update{{ShardID: 1, ReplicaID: 1, EntriesToSave: ents[c.Cut+k:],
			State: pb.State{Term: ents[n-1].Term, Vote: 1, Commit: n}}}, 1); err != nil {
			panic(err)
		}
	}
	if len(b.trace.bad) > 0 {
		return out, c.fail("user-sm-contract", "%s", b.trace.bad[0])
	}
	// ---- compaction never removes an entry not covered by a durable snapshot
	dbss, _ = env.db.GetSnapshot(1, 1)
	for i := dbss.Index + 1; i <= n; i++ {
		if _, ok := env.db.Persisted(1, 1, i); !ok {
			return out, c.fail("compacted-uncovered", "entry %d was removed from the log store but the recorded snapshot only covers up to %d", i, dbss.Index)
		}
	}
	if c.Kind == kExported {
		return out, c08Import(c, ents, a, env, &out)
	}
	if c.Type != tOnDisk && c.Kind == kPeriodic && c.K == 0 && !c.Snappy {
		if f := c08Followers(c, ents, a, env, dbss, dbss.Filepath); f != nil {
			return out, f
		}
	}
	out.cands = len(env.img.cands)
	if c.Cand >= out.cands {
		return out, nil
	}
	// ---- crash + restart from what is durable
	env.crash(c.Cand)
	durable := env.img.durable
	b2 := newC08Replica(env, c.Type, c.comp())
	b2.pump()
	if !b2.n.initialized() {
		return out, c.fail("restart", "restarted replica did not initialize")
	}
	ssIndex := b2.n.ss.getIndex()
	if c.Kind == kCommitFail {
		if ssIndex != 0 {
			return out, c.fail("recovered-uncommitted", "restarted replica recovered from snapshot %d that was never recorded", ssIndex)
		}
	} else if ssIndex != dbss.Index {
		return out, c.fail("restart", "restarted replica initialized at %d, recorded snapshot %d", ssIndex, dbss.Index)
	}
	if c.Redel {
		// entries at or below the snapshot index are delivered again
		from := uint64(1)
		if ssIndex > 2 {
			from = ssIndex - 1
		}
		b2.n.toApplyQ.Add(rsm.Task{Entries: ents[from-1:]})
		b2.n.pushedIndex = n
		c08Paths["path_restart_redeliver_covered"]++
	} else {
		first, last := b2.n.logReader.GetRange()
		if first != ssIndex+1 || last != n {
			return out, c.fail("log-range", "after restart the log reader covers [%d,%d], want [%d,%d]", first, last, ssIndex+1, n)
		}
		if last >= first {
			rest, err := b2.n.logReader.Entries(first, last+1, math.MaxUint64)
			if err != nil || uint64(len(rest)) != last-first+1 {
				return out, c.fail("log-gap", "after restart entries [%d,%d] cannot be read back: %d entries, err %v", first, last, len(rest), err)
			}
			b2.n.applyRaftUpdates(pb.Update{ShardID: 1, ReplicaID: 1, CommittedEntries: rest, LastApplied: ssIndex})
		}
		c08Paths["path_restart_log_suffix"]++
	}
	b2.pump()
	return out, c08Compare(c, ents, a, b2, ssIndex, durable.Last)
}

// c08Compare compares the resumed replica with twin A, then probes the LRU
// order of the client sessions by two further registrations (capacity 2).
func c08Compare(c c08Case, ents []pb.Entry, a *c08TwinA, b2 *c08Replica, ssIndex uint64, openIndex uint64) *c08Fail {
	n := uint64(len(ents))
	got := b2.state()
	if d := c08Diff(a.final, got); d != "" {
		return c.fail("resumed-"+c08DiffKey(a.final, got), "replica resumed from snapshot %d + log suffix differs from the full replay twin: %s", ssIndex, d)
	}
	if len(b2.trace.bad) > 0 {
		return c.fail("user-sm-contract", "%s", b2.trace.bad[0])
	}
	lo := ssIndex
	if c.Type == tOnDisk && openIndex > lo {
		lo = openIndex
	}
	for i := lo + 1; i <= n; i++ {
		ra, oka := a.results[i]
		rb, okb := b2.proxy.results[i]
		if oka != okb || !ra.equal(rb) {
			return c.fail("result", "result of entry %d on the resumed replica is %v (reported=%v), full replay twin %v (reported=%v)", i, rb, okb, ra, oka)
		}
		if ents[i-1].IsConfigChange() {
			ka, kb := a.ccKeys[ents[i-1].Key], b2.proxy.ccKeys[ents[i-1].Key]
			if ka.Rejected != kb.Rejected {
				return c.fail("result", "config change at %d: rejected=%v on the resumed replica, %v on the full replay twin", i, kb.Rejected, ka.Rejected)
			}
		}
	}
	if c.Type != tOnDisk {
		pr := c08Probes(b2, n, ents[n-1].Term)
		for i := range pr {
			if d := c08Diff(a.probes[i], pr[i]); d != "" {
				return c.fail("lru-probe-"+c08DiffKey(a.probes[i], pr[i]), "after %d further session registration(s) (LRU capacity 2) the resumed replica differs from the full replay twin: %s", i+1, d)
			}
		}
	}
	return nil
}

// c08Import ships the exported snapshot to another machine the way
// tools.ImportSnapshot does (metadata record, checksum check, copy into a
// temp dir, FinalizeSnapshot, ILogDB.ImportSnapshot; the membership is kept),
// starts a replica there and feeds it the rest of the log.
func c08Import(c c08Case, ents []pb.Entry, a *c08TwinA, env *c08Env, out *c08Out) *c08Fail {
	n := uint64(len(ents))
	fs := env.fs
	srcDir := fs.PathJoin(env.export, server.GetSnapshotDirName(c.Cut))
	var old pb.Snapshot
	if err := fileutil.GetFlagFileContent(srcDir, server.MetadataFilename, &old, fs); err != nil {
		return c.fail("export-missing", "exported snapshot metadata not readable in %s: %v", srcDir, err)
	}
	if old.Index != c.Cut {
		return c.fail("export-index", "exported snapshot has index %d, the export was requested when %d was applied", old.Index, c.Cut)
	}
	srcFile := fs.PathJoin(srcDir, server.GetSnapshotFilename(old.Index))
	crc, err := rsm.GetV2PayloadChecksum(srcFile, fs)
	if err != nil || !bytes.Equal(crc, old.Checksum) {
		return c.fail("export-checksum", "exported snapshot file checksum mismatch (err %v)", err)
	}
	e3 := env.sibling("/r3/snapshot")
	root := e3.root
	ssEnv := server.NewSSEnv(func(uint64, uint64) string { return root }, 1, 1, old.Index, 1, server.SnapshotMode, fs)
	if err := ssEnv.CreateTempDir(); err != nil {
		panic(err)
	}
	dst := fs.PathJoin(ssEnv.GetTempDir(), server.GetSnapshotFilename(old.Index))
	if err := c08CopyFile(fs, srcFile, dst); err != nil {
		panic(err)
	}
	ss := old
	ss.Filepath = fs.PathJoin(ssEnv.GetFinalDir(), server.GetSnapshotFilename(old.Index))
	ss.Imported = true
	if err := ssEnv.FinalizeSnapshot(&ss); err != nil {
		panic(err)
	}
	if err := e3.db.ImportSnapshot(ss, 1); err != nil {
		panic(err)
	}
	if c.Type == tOnDisk && c.K == 0 && !c.Snappy && c.Cand == 0 {
		// the full image of an on-disk SM is what a leader streams to a lagging
		// follower
		if f := c08Followers(c, ents, a, env, old, srcFile); f != nil {
			return f
		}
	}
	b3 := newC08Replica(e3, c.Type, c.comp())
	b3.pump()
	c08Paths["path_import_exported"]++
	if !b3.n.initialized() || b3.n.ss.getIndex() != old.Index {
		return c.fail("import-restart", "replica started on the imported snapshot initialized=%v at %d, want %d", b3.n.initialized(), b3.n.ss.getIndex(), old.Index)
	}
	if c.Redel && c.Cut < n {
		// the leader resends from below the snapshot index
		from := c.Cut
		if from < 1 {
			from = 1
		}
		if err := e3.db.SaveRaftState([]pb.Update{{ShardID: 1, ReplicaID: 1, EntriesToSave: ents[c.Cut:],
			State: pb.State{Term: ents[n-1].Term, Vote: 1, Commit: n}}}, 1); err != nil {
			panic(err)
		}
		if err := b3.n.logReader.Append(ents[c.Cut:]); err != nil {
			panic(err)
		}
		b3.n.toApplyQ.Add(rsm.Task{Entries: ents[from-1:]})
		b3.n.pushedIndex = n
	} else {
		b3.stepEach(ents[c.Cut:])
	}
	b3.pump()
	if err := b3.n.removeLog(); err != nil {
		panic(err)
	}
	if c.Type != tOnDisk {
		return c08Compare(c, ents, a, b3, old.Index, 0)
	}
	got := b3.state()
	if d := c08Diff(a.final, got); d != "" {
		return c.fail("resumed-"+c08DiffKey(a.final, got), "replica started from the exported snapshot %d + log suffix differs from the full replay twin: %s", old.Index, d)
	}
	if len(b3.trace.bad) > 0 {
		return c.fail("user-sm-contract", "%s", b3.trace.bad[0])
	}
	// on-disk: the imported full snapshot was shrunk after recovery; crash and
	// restart once more from the shrunk snapshot + own durable state
	out.cands = len(e3.img.cands)
	if c.Cand >= out.cands {
		return nil
	}
	e3.crash(c.Cand)
	durable := e3.img.durable
	b4 := newC08Replica(e3, c.Type, c.comp())
	b4.pump()
	if shrunk, err := rsm.IsShrunkSnapshotFile(b4.n.snapshotter.getFilePath(old.Index), fs); err == nil && shrunk {
		c08Paths["path_restart_on_shrunk_snapshot"]++
	}
	if !b4.n.initialized() || b4.n.ss.getIndex() != old.Index {
		return c.fail("shrunk-restart", "replica restarted on the shrunk snapshot initialized=%v at %d, want %d", b4.n.initialized(), b4.n.ss.getIndex(), old.Index)
	}
	first, last := b4.n.logReader.GetRange()
	if first != old.Index+1 || last != n {
		return c.fail("log-range", "after restart the log reader covers [%d,%d], want [%d,%d]", first, last, old.Index+1, n)
	}
	if last >= first {
		rest, err := b4.n.logReader.Entries(first, last+1, math.MaxUint64)
		if err != nil || uint64(len(rest)) != last-first+1 {
			return c.fail("log-gap", "after restart entries [%d,%d] cannot be read back: %d entries, err %v", first, last, len(rest), err)
		}
		b4.n.applyRaftUpdates(pb.Update{ShardID: 1, ReplicaID: 1, CommittedEntries: rest, LastApplied: old.Index})
	}
	b4.pump()
	return c08Compare(c, ents, a, b4, old.Index, durable.Last)
}

// c08Followers: a running replica that has applied entries 1..j (j below the
// snapshot index: 0, half way, one behind) receives the snapshot file from the
// leader (as transport/chunk.go leaves it: ReceivingMode temp dir, finalized
// with a flag file, record with index/term/membership/on-disk index/file
// path/size), installs it through node.processSnapshot -> Recover task ->
// node.recover, and then applies the rest of the log.
func c08Followers(c c08Case, ents []pb.Entry, a *c08TwinA, env *c08Env, rec pb.Snapshot, srcFile string) *c08Fail {
	n := uint64(len(ents))
	fs := env.fs
	// lag points: a fresh follower, one half way, one a single entry behind; the
	// recover path below NativeSM is the same code for regular and concurrent
	// SMs, the concurrent SM is only run one entry behind (fresh when index 1)
	lags := []uint64{0}
	if h := rec.Index / 2; h > 0 && h < rec.Index {
		lags = append(lags, h)
	}
	if rec.Index >= 2 && rec.Index-1 != rec.Index/2 {
		lags = append(lags, rec.Index-1)
	}
	if c.Type == tConcurrent {
		lags = lags[len(lags)-1:]
	}
	for li, j := range lags {
		e5 := env.sibling(fmt.Sprintf("/r5-%d/snapshot", li))
		f := newC08Replica(e5, c.Type, c.comp())
		f.pump()
		if j > 0 {
			f.step(ents[:j])
			f.pump()
		}
		root := e5.root
		ssEnv := server.NewSSEnv(func(uint64, uint64) string { return root }, 1, 1, rec.Index, 2, server.ReceivingMode, fs)
		if err := ssEnv.CreateTempDir(); err != nil {
			panic(err)
		}
		name := fs.PathBase(srcFile)
		if err := c08CopyFile(fs, srcFile, fs.PathJoin(ssEnv.GetTempDir(), name)); err != nil {
			panic(err)
		}
		ss := pb.Snapshot{
			Index: rec.Index, Term: rec.Term, OnDiskIndex: rec.OnDiskIndex, Membership: rec.Membership,
			Filepath: fs.PathJoin(ssEnv.GetFinalDir(), name), FileSize: rec.FileSize,
		}
		if err := ssEnv.FinalizeSnapshot(&ss); err != nil {
			panic(err)
		}
		// engine.processSteps for the pb.Update that carries the snapshot
		ud := pb.Update{ShardID: 1, ReplicaID: 1, Snapshot: ss, State: pb.State{Term: ss.Term, Vote: 2, Commit: ss.Index},
			LastApplied: f.n.sm.GetLastApplied()}
		if err := e5.db.SaveRaftState([]pb.Update{ud}, 1); err != nil {
			panic(err)
		}
		if err := f.n.removeSnapshotFlagFile(ss.Index); err != nil {
			panic(err)
		}
		if err := f.n.processSnapshot(ud); err != nil {
			panic(err)
		}
		f.n.applyRaftUpdates(ud)
		if err := f.n.processRaftUpdate(ud); err != nil {
			panic(err)
		}
		f.pump()
		if la := f.n.sm.GetLastApplied(); la != rec.Index {
			return c.fail("follower-install", "follower that had applied %d installed snapshot %d but its applied index is %d", j, rec.Index, la)
		}
		f.stepEach(ents[rec.Index:])
		f.pump()
		if err := f.n.removeLog(); err != nil {
			panic(err)
		}
		c08Paths["path_follower_install"]++
		cc := c
		if fail := c08Compare(cc, ents, a, f, rec.Index, 0); fail != nil {
			fail.key = strings.Replace(fail.key, "C08:twin:", "C08:twin:follower-", 1)
			fail.desc = fmt.Sprintf("[lagging follower that had applied 1..%d received the snapshot file] ", j) + fail.desc
			return fail
		}
		_ = n
	}
	return nil
}

func c08CopyFile(fs vfs.IFS, src, dst string) error {
	in, err := fs.Open(src)
	if err != nil {
		return err
	}
	data, err := io.ReadAll(in)
	if err != nil {
		return err
	}
	if err := in.Close(); err != nil {
		return err
	}
	out, err := fs.Create(dst)
	if err != nil {
		return err
	}
	if _, err := out.Write(data); err != nil {
		return err
	}
	if err := out.Sync(); err != nil {
		return err
	}
	if err := out.Close(); err != nil {
		return err
	}
	return fileutil.SyncDir(fs.PathDir(dst), fs)
}

// ---------------------------------------------------------------- enumeration

func c08Decode(code uint64, alpha []c08Sym, length int) []c08Sym {
	s := make([]c08Sym, length)
	for i := length - 1; i >= 0; i-- {
		s[i] = alpha[code%uint64(len(alpha))]
		code /= uint64(len(alpha))
	}
	return s
}

func c08Pow(a, b int) uint64 {
	r := uint64(1)
	for i := 0; i < b; i++ {
		r *= uint64(a)
	}
	return r
}

type c08Runner struct {
	run   *verifkit.Run
	res   *verifkit.Result
	stop  bool
	cases int64
}

// how often each interesting path really ran (reported in the evidence)
var c08Paths = map[string]int64{}

func (x *c08Runner) one(c c08Case, ents []pb.Entry, a *c08TwinA) c08Out {
	out, fail := c08RunCase(c, ents, a)
	x.res.Evaluations++
	x.cases++
	if fail != nil {
		c.Desc = c08StreamString(c.Stream)
		if x.res.Violate(fail.key, fail.desc, c) {
			x.stop = true
		}
		x.res.Outcome("VIOLATION " + fail.key)
		return out
	}
	if out.nontrivial {
		x.res.DistinctNontrivial++
	}
	x.res.Outcome(out.class)
	return out
}

// c08TwinsA runs the full replay twin in both batchings and checks that they
// agree.
func (x *c08Runner) twinsA(c c08Case, ents []pb.Entry) *c08TwinA {
	var a *c08TwinA
	msg := verifkit.Catch(func() {
		a = c08RunA(c.Type, c.comp(), ents, true, c.Type != tOnDisk)
		a2 := c08RunA(c.Type, c.comp(), ents, false, false)
		if d := c08Diff(a.final, a2.final); d != "" {
			panic("full replay in one Task differs from full replay entry by entry: " + d)
		}
	})
	if msg != "" {
		c.Desc = c08StreamString(c.Stream)
		f := c.fail("full-replay", "%s", msg)
		f.key = "C08:twin:full-replay:" + c08TypeName[c.Type]
		if x.res.Violate(f.key, f.desc, c) {
			x.stop = true
		}
		return nil
	}
	return a
}

type c08Plan struct {
	snappy bool
	kind   int
	k      int
	at     int
}

// c08Plans lists the (compression, request kind, updates during save)
// combinations run at one cut. Compression only changes the file encoding, so
// snappy is crossed with the periodic kind (and the exported kind in
// thorough) rather than with everything.
func c08Plans(typ int, thorough bool, commitFail bool, rest int) []c08Plan {
	kmax := func(m int) int {
		if typ == tRegular {
			return 0 // the apply worker is blocked while a regular SM is saved
		}
		if rest < m {
			return rest
		}
		return m
	}
	var ps []c08Plan
	add := func(snappy bool, kind int, maxK int) {
		for k := 0; k <= maxK; k++ {
			ps = append(ps, c08Plan{snappy, kind, k, atFileCreate})
			if typ == tOnDisk && k > 0 && (kind == kPeriodic || kind == kUser) {
				// the same updates applied at the other interleaving point of an
				// on-disk save; crossed with the kinds whose oracle is the
				// crash/restart route on the replica that took the snapshot
				ps = append(ps, c08Plan{snappy, kind, k, atAfterSync})
			}
		}
	}
	add(false, kPeriodic, kmax(2))
	if typ == tConcurrent {
		add(false, kUser, 0) // updates during the save are crossed with the periodic and exported kinds
	} else {
		add(false, kUser, kmax(1))
	}
	add(false, kExported, kmax(1))
	if thorough {
		add(false, kUserIndex, kmax(1))
	}
	if typ == tRegular && commitFail {
		add(false, kCommitFail, 0)
	}
	if typ == tRegular || (thorough && typ == tConcurrent) {
		// compression only wraps the writer below NativeSM.save, which is the
		// same code for regular and concurrent SMs; on-disk dummy snapshots are
		// never compressed
		add(true, kPeriodic, 0)
	}
	if thorough || typ == tOnDisk {
		add(true, kExported, 0)
	}
	return ps
}

func (x *c08Runner) stream(alpha string, stream []c08Sym, thorough bool) {
	// the commit failure variant exercises node.doSave/snapshotter.Commit error
	// handling, which does not depend on the stream content: it is run for the
	// streams ending in the first alphabet symbol only
	commitFail := thorough || stream[len(stream)-1] == yRegC1
	ents := c08Build(stream)
	n := uint64(len(ents))
	types := []int{tRegular, tConcurrent}
	if alpha == "disk" {
		types = []int{tOnDisk}
	}
	for _, typ := range types {
		base := c08Case{Alpha: alpha, Stream: stream, Type: typ}
		a := x.twinsA(base, ents)
		if a == nil {
			continue
		}
		for cut := uint64(1); cut <= n; cut++ {
			for _, p := range c08Plans(typ, thorough, commitFail, int(n-cut)) {
				if p.kind == kUserIndex && cut < 2 {
					continue
				}
				c := base
				c.Snappy, c.Cut, c.Kind, c.K, c.At = p.snappy, cut, p.kind, p.k, p.at
				c.Redel = p.kind == kUser || (p.kind == kExported && cut%2 == 1)
				if typ != tOnDisk {
					x.one(c, ents, a)
				} else {
					for cand := 0; ; cand++ {
						c.Cand = cand
						out := x.one(c, ents, a)
						if cand+1 >= out.cands {
							break
						}
					}
				}
				if x.stop || x.run.Expired() {
					return
				}
			}
		}
	}
}

func c08Silence() {
	for _, name := range []string{"raft", "rsm", "logdb", "LogDB", "dragonboat", "raftpb", "config", "server", "settings", "transport", "tools", "registry"} {
		logger.GetLogger(name).SetLevel(logger.CRITICAL)
	}
}

func TestVerifC08Twin(t *testing.T) {
	c08Silence()
	// every save allocates a 128 KiB session buffer and snappy buffers; with a
	// tiny live heap the default pacer would collect every few cases
	debug.SetGCPercent(-1)
	memMB := int64(48)
	if v, err := strconv.Atoi(os.Getenv("C08_MEMLIMIT_MB")); err == nil && v > 0 {
		memMB = int64(v)
	}
	debug.SetMemoryLimit(memMB << 20)
	rsm.LRUMaxSessionCount = 2
	rsm.VerifSetSessionBufferCap(512)
	run := verifkit.Env()
	res := verifkit.NewResult()
	defer run.Finish(res)
	res.Rule = "every committed-entry stream of length L over the alphabet {reg(c1) reg(c2) prop(c1,s1) prop(c1,s2) prop(c2,s1) unreg(c1) noop-session update, cc add(3)/remove(2)/addNonVoting(4), empty entry with term+1} (on-disk SMs: {noop(x) noop(y), the 3 config changes, empty}) after 2 bootstrap config changes, x SM type {regular, concurrent, on-disk} x snapshot compression {none, snappy} x every cut index 1..L+2 x request kind {periodic, user requested (overhead 0), exported (+ user requested with compaction index in thorough), commit failure} x 0..2 updates applied between meta capture and file write (concurrent/on-disk; on-disk also: applied right after the snapshot-time Sync() released the state machine lock) x every legal post-crash durable state of the on-disk SM; evaluation = one (stream, type, compression, cut, kind, k, crash state) tuple run through twin B + crash + restart and compared with the full-replay twin A; distinct_nontrivial = tuples (all distinct by construction, disjoint across shards) whose snapshot carries non-initial user data, sessions or membership"
	res.Assumptions = []string{
		"raft core replaced by exhaustive enumeration of committed entry streams fed as pb.Update values in engine.processSteps order; rsm.INode callbacks go to a recording proxy",
		"in-memory ILogDB (verifkit/memlogdb) below the real LogReader/snapshotter; it is always durable",
		"snapshot block size constant shrunk from 2 MiB to 128 bytes (generated overlay of internal/settings/hard.go) so every snapshot file spans several checksummed blocks",
		"rsm.LRUMaxSessionCount set to 2 so that two probe registrations reveal the LRU order",
		"client sessions are not part of the on-disk alphabet: IOnDiskStateMachine only supports the NO-OP session (nodehost.go)",
		"an exported snapshot is installed on another machine by harness code that mirrors tools.ImportSnapshot but keeps the membership unchanged",
		"external snapshot files (ISnapshotFileCollection) are not exercised: rsm.Files.PrepareFiles uses os.Link and cannot run on MemFS",
		"internal/rsm/statemachine.go is a generated copy of the tree's file whose only change is a one-shot interleaving hook called after StateMachine.sync() unlocked s.mu (gen_sm.py)",
	}
	if os.Getenv("C08_FAST") != "" {
		res.MaxViolations = 1 // mutant runs: stop at the first violation
	}
	x := &c08Runner{run: run, res: res}
	if run.Replay != "" {
		var c c08Case
		run.LoadReplay(&c)
		ents := c08Build(c.Stream)
		a := x.twinsA(c, ents)
		if a != nil {
			x.one(c, ents, a)
		}
		return
	}
	length := run.Pick(5, 6)
	type space struct {
		name   string
		alpha  []c08Sym
		length int
	}
	// the on-disk space and the session space one symbol shorter come first:
	// they are small and complete even on a heavily loaded machine; the full
	// length session space follows and is the part a deadline may cut short
	spaces := []space{{"disk", c08AlphaDisk, length}, {"sess", c08AlphaSess, length - 1}, {"sess", c08AlphaSess, length}}
	sampled := 0
	for _, sp := range spaces {
		total := c08Pow(len(sp.alpha), sp.length)
		label := fmt.Sprintf("%s_len%d", sp.name, sp.length)
		var mine int64
		// streams are visited in a fixed permutation (pos*prime mod total, the
		// prime does not divide any alphabet size) so that a run stopped by the
		// deadline has covered an evenly spread subset rather than the streams
		// that start with the first symbols
		const prime = 1000003
		if total%prime == 0 {
			panic("c08: permutation stride divides the stream count")
		}
		complete := true
		for pos := uint64(0); pos < total; pos++ {
			if !run.Mine(pos) {
				continue
			}
			code := (pos * prime) % total
			if x.stop {
				res.Cap("stopped after the first violation(s)")
				complete = false
				break
			}
			if run.Expired() {
				res.Cap(fmt.Sprintf("deadline reached in space %s at stream position %d of %d", label, pos, total))
				complete = false
				break
			}
			stream := c08Decode(code, sp.alpha, sp.length)
			x.stream(sp.name, stream, run.Thorough())
			if run.Expired() {
				res.Cap(fmt.Sprintf("deadline reached in space %s at stream position %d of %d", label, pos, total))
				complete = false
				break
			}
			mine++
			if mine == 2 && sampled < 3 {
				// one sample per space
				sampled++
				res.Sample(3, map[string]interface{}{"space": label, "stream": c08StreamString(stream),
					"cut_indexes":  fmt.Sprintf("1..%d", len(stream)+c08Boot),
					"crossed_with": "sm types, compression, request kinds, updates during save, crash states, lag points"})
			}
		}
		res.Extra["streams_"+label] = mine
		if complete {
			res.Extra["complete_"+label] = 1
		} else {
			res.Extra["complete_"+label] = 0
		}
	}
	res.Extra["cases"] = x.cases
	for k, v := range c08Paths {
		res.Extra[k] = v
	}
}
