//go:build verif

// C11 part `lifecycle`: the REAL engine goroutines under the schedx engine (E5).
//
// engine.go is compiled from a copy (schedrewrite -engine) in which sync,
// sync/atomic, time, reflect.Select and goutils' syncutil.Stopper point to the
// verifkit shims and every blocking select / send waits through the
// scheduler. newExecEngine then creates its step worker, apply worker,
// snapshot worker pool (workerPoolMain + ssWorker.workerMain) and close worker
// pool (workerPoolMain + closeWorker.workerMain) as THREADS of the controlled
// execution. node.go, request.go, queue.go, quiesce.go, snapshotstate.go and
// internal/rsm are compiled against the shims as well, so every lock and
// atomic of the node / rsm layer is a scheduling point.
//
// One real single-replica node (newNode, real snapshotter on MemFS, real
// LogReader, in-memory log store) over an instrumented user state machine
// whose methods yield inside; a host thread plays NodeHost (startShard's
// registration, Propose, RequestSnapshot, StaleRead, stopNode, Close =
// engine.close()). What no other part reaches: the shutdown branches of the
// worker main loops, the node load/offload reference counting done by the
// loops themselves, and the close worker pool's timed wait.
package dragonboat

import (
	"fmt"
	"io"
	"os"
	"regexp"
	"runtime"
	"sort"
	"strings"
	"sync"
	"testing"

	"github.com/lni/dragonboat/v4/client"
	"github.com/lni/dragonboat/v4/config"
	"github.com/lni/dragonboat/v4/internal/logdb"
	"github.com/lni/dragonboat/v4/internal/raft"
	"github.com/lni/dragonboat/v4/internal/registry"
	"github.com/lni/dragonboat/v4/internal/rsm"
	"github.com/lni/dragonboat/v4/internal/settings"
	"github.com/lni/dragonboat/v4/internal/verifkit"
	"github.com/lni/dragonboat/v4/internal/verifkit/memlogdb"
	"github.com/lni/dragonboat/v4/internal/verifkit/vsched"
	"github.com/lni/dragonboat/v4/internal/verifkit/vtime"
	"github.com/lni/dragonboat/v4/internal/vfs"
	"github.com/lni/dragonboat/v4/logger"
	pb "github.com/lni/dragonboat/v4/raftpb"
	sm "github.com/lni/dragonboat/v4/statemachine"
)

const lcShard = 1

// lcAuxShard: a second shard on the same engine whose only job is to keep the
// single snapshot worker busy (scenarios with Aux)
const lcAuxShard = 2

// ---------------------------------------------------------------- monitor (the call table of the property statement)

type lcMon struct {
	kind     string // plain | concurrent | ondisk
	active   map[string]int
	closed   bool
	closes   int
	finds    map[string]string
	overlaps map[string]bool
	calls    map[string]int
	lastIdx  uint64
	openIdx  uint64
	// waitFor[name]: the host is waiting to see this user method in progress;
	// the method does not return before the host has seen it (user code may
	// take arbitrarily long - this positions the default schedule inside it)
	waitFor   map[string]bool
	slowClose bool
	updates   []uint64 // indexes handed to Update, in order
	// after a restart: the user entries above the snapshot the state machine was
	// rebuilt from, which must be delivered again first, in order, exactly once
	replay []uint64
}

var lcExclusive = map[string]bool{"Update": true, "Sync": true, "PrepareSnapshot": true, "RecoverFromSnapshot": true, "Close": true}
var lcPlainWriters = map[string]bool{"Update": true, "RecoverFromSnapshot": true, "Close": true}
var lcPlainReaders = map[string]bool{"Lookup": true, "SaveSnapshot": true}

func newLcMon(kind string) *lcMon {
	return &lcMon{kind: kind, active: map[string]int{}, finds: map[string]string{}, overlaps: map[string]bool{}, calls: map[string]int{}, waitFor: map[string]bool{}}
}

func lcPair(a, b string) string {
	if a > b {
		a, b = b, a
	}
	return a + "|" + b
}

func (m *lcMon) call(name string) func() {
	m.calls[name]++
	if m.closed && lcExclusive[name] {
		m.finds[m.kind+"/after-close/"+name] = fmt.Sprintf("%s was called on the %s state machine after Close returned", name, m.kind)
	}
	for other, n := range m.active {
		if n <= 0 {
			continue
		}
		bad := lcExclusive[name] && lcExclusive[other]
		if m.kind == "plain" && ((lcPlainWriters[name] && lcPlainReaders[other]) || (lcPlainReaders[name] && lcPlainWriters[other])) {
			bad = true
		}
		if bad {
			m.finds[m.kind+"/overlap/"+lcPair(name, other)] = fmt.Sprintf("%s was called on the %s state machine while %s was still running", name, m.kind, other)
		} else {
			m.overlaps[lcPair(name, other)] = true
		}
	}
	m.active[name]++
	vsched.Yield()
	if m.waitFor[name] {
		vsched.WaitUntil(func() bool { return !m.waitFor[name] }, "user "+name+" held until the host has seen it")
	}
	if name == "Close" && m.slowClose {
		vsched.Await(func() bool { return vsched.Quiescent() }, "slow user Close")
	}
	return func() {
		vsched.Yield()
		m.active[name]--
		if name == "Close" {
			m.closed = true
			m.closes++
		}
	}
}

func (m *lcMon) update(idx uint64) {
	if idx <= m.lastIdx {
		m.finds[m.kind+"/update-order"] = fmt.Sprintf("Update index %d after %d", idx, m.lastIdx)
	}
	m.lastIdx = idx
	if k := len(m.updates); k < len(m.replay) && m.replay[k] != idx {
		m.finds[m.kind+"/restart-replay"] = fmt.Sprintf("after the restart the state machine was rebuilt from the snapshot and must be given entry %d next, got %d (entries to replay: %v)", m.replay[k], idx, m.replay)
	}
	m.updates = append(m.updates, idx)
}

type lcPlainSM struct{ m *lcMon }

func (s *lcPlainSM) Update(e sm.Entry) (sm.Result, error) {
	defer s.m.call("Update")()
	s.m.update(e.Index)
	return sm.Result{Value: e.Index}, nil
}
func (s *lcPlainSM) Lookup(q interface{}) (interface{}, error) {
	defer s.m.call("Lookup")()
	return s.m.lastIdx, nil
}
func (s *lcPlainSM) SaveSnapshot(w io.Writer, _ sm.ISnapshotFileCollection, _ <-chan struct{}) error {
	defer s.m.call("SaveSnapshot")()
	_, err := w.Write([]byte("snapshot"))
	return err
}
func (s *lcPlainSM) RecoverFromSnapshot(r io.Reader, _ []sm.SnapshotFile, _ <-chan struct{}) error {
	defer s.m.call("RecoverFromSnapshot")()
	_, err := io.ReadAll(r)
	return err
}
func (s *lcPlainSM) Close() error {
	defer s.m.call("Close")()
	return nil
}

type lcConcSM struct{ m *lcMon }

func (s *lcConcSM) Update(es []sm.Entry) ([]sm.Entry, error) {
	defer s.m.call("Update")()
	for i := range es {
		s.m.update(es[i].Index)
		es[i].Result = sm.Result{Value: es[i].Index}
	}
	return es, nil
}
func (s *lcConcSM) Lookup(q interface{}) (interface{}, error) {
	defer s.m.call("Lookup")()
	return s.m.lastIdx, nil
}
func (s *lcConcSM) PrepareSnapshot() (interface{}, error) {
	defer s.m.call("PrepareSnapshot")()
	return s.m.lastIdx, nil
}
func (s *lcConcSM) SaveSnapshot(ctx interface{}, w io.Writer, _ sm.ISnapshotFileCollection, _ <-chan struct{}) error {
	defer s.m.call("SaveSnapshot")()
	_, err := w.Write([]byte("snapshot"))
	return err
}
func (s *lcConcSM) RecoverFromSnapshot(r io.Reader, _ []sm.SnapshotFile, _ <-chan struct{}) error {
	defer s.m.call("RecoverFromSnapshot")()
	_, err := io.ReadAll(r)
	return err
}
func (s *lcConcSM) Close() error {
	defer s.m.call("Close")()
	return nil
}

type lcDiskSM struct{ m *lcMon }

func (s *lcDiskSM) Open(<-chan struct{}) (uint64, error) { return s.m.openIdx, nil }
func (s *lcDiskSM) Update(es []sm.Entry) ([]sm.Entry, error) {
	defer s.m.call("Update")()
	for i := range es {
		if es[i].Index <= s.m.openIdx {
			s.m.finds["ondisk/update-at-or-below-open"] = fmt.Sprintf("Update index %d <= Open index %d", es[i].Index, s.m.openIdx)
		}
		s.m.update(es[i].Index)
		es[i].Result = sm.Result{Value: es[i].Index}
	}
	return es, nil
}
func (s *lcDiskSM) Lookup(q interface{}) (interface{}, error) {
	defer s.m.call("Lookup")()
	return s.m.lastIdx, nil
}
func (s *lcDiskSM) Sync() error {
	defer s.m.call("Sync")()
	return nil
}
func (s *lcDiskSM) PrepareSnapshot() (interface{}, error) {
	defer s.m.call("PrepareSnapshot")()
	return s.m.lastIdx, nil
}
func (s *lcDiskSM) SaveSnapshot(ctx interface{}, w io.Writer, _ <-chan struct{}) error {
	defer s.m.call("SaveSnapshot")()
	_, err := w.Write([]byte("snapshot"))
	return err
}
func (s *lcDiskSM) RecoverFromSnapshot(r io.Reader, _ <-chan struct{}) error {
	defer s.m.call("RecoverFromSnapshot")()
	_, err := io.ReadAll(r)
	return err
}
func (s *lcDiskSM) Close() error {
	defer s.m.call("Close")()
	return nil
}

// ---------------------------------------------------------------- world

type lcLoader struct {
	registered bool // main shard published
	cci        uint64
	n          *node // main shard (lcShard)
	aux        *node // auxiliary shard (lcAuxShard), registered from the start when present
}

func (l *lcLoader) describe() string         { return "lchost" }
func (l *lcLoader) getShardSetIndex() uint64 { return l.cci }
func (l *lcLoader) forEachShard(f func(uint64, *node) bool) uint64 {
	if l.registered {
		f(lcShard, l.n)
	}
	if l.aux != nil {
		f(lcAuxShard, l.aux)
	}
	return l.cci
}

// lcScenario: Host is the NodeHost thread's program, Reader the number of
// StaleRead calls of a second client thread.
type lcScenario struct {
	Name string `json:"name"`
	Kind string `json:"kind"`
	Warm bool   `json:"warm"` // node initialised, leader elected and two entries applied before the threads start
	// Restart: a first incarnation (warm, snapshot taken, one more entry) ran on
	// the same store and directory; the threads start with the second incarnation
	Restart bool     `json:"restart"`
	Host    []string `json:"host"`
	Reader  int      `json:"reader"`
	Notify  bool     `json:"notify_commit"`
	// SlowClose: the user's Close returns only once nothing else can run
	SlowClose bool `json:"slow_close,omitempty"`
	// Aux: a second warm shard (lcAuxShard) is loaded on the engine; host op B
	// requests a snapshot of it, wb waits until its SaveSnapshot is in progress
	Aux bool `json:"aux,omitempty"`
}

type lcReq struct {
	kind string
	rs   *RequestState
	err  error
}

type lcWorld struct {
	sc      *lcScenario
	mon     *lcMon
	ldr     *lcLoader
	eng     *engine
	n       *node
	reqs    []*lcReq
	errs    []string
	stopped bool // stopNode returned
	closedE bool // engine.close() returned
	nval    uint64
	fs      vfs.IFS
	db      *memlogdb.DB
	pool    *sync.Pool
	aux     *node
	auxMon  *lcMon
	oldMons []*lcMon // user state machines of earlier incarnations of the main shard (host op N)
}

func (w *lcWorld) fail(f string, a ...interface{}) {
	w.errs = append(w.errs, fmt.Sprintf(f, a...))
}

func lcQuiet() {
	for _, n := range []string{"dragonboat", "rsm", "raft", "raftpb", "config", "transport", "logdb", "grpc", "tan"} {
		logger.GetLogger(n).SetLevel(logger.CRITICAL)
	}
}

func (w *lcWorld) newNodeOn(e *engine, mon *lcMon, shard uint64) *node {
	sc := w.sc
	snapdir := fmt.Sprintf("/snap-%d", shard)
	if err := w.fs.MkdirAll(snapdir, 0755); err != nil {
		panic(err)
	}
	rootDirFunc := func(cid uint64, nid uint64) string { return snapdir }
	lr := logdb.NewLogReader(shard, 1, w.db)
	ss := newSnapshotter(shard, 1, rootDirFunc, w.db, lr, w.fs)
	lr.SetCompactor(ss)
	cfg := config.Config{ReplicaID: 1, ShardID: shard, ElectionRTT: 10, HeartbeatRTT: 2, CompactionOverhead: 1000}
	create := func(shardID uint64, replicaID uint64, done <-chan struct{}) rsm.IManagedStateMachine {
		switch sc.Kind {
		case "plain":
			return rsm.NewNativeSM(cfg, rsm.NewInMemStateMachine(&lcPlainSM{m: mon}), done)
		case "concurrent":
			return rsm.NewNativeSM(cfg, rsm.NewConcurrentStateMachine(&lcConcSM{m: mon}), done)
		case "ondisk":
			return rsm.NewNativeSM(cfg, rsm.NewOnDiskStateMachine(&lcDiskSM{m: mon}), done)
		}
		panic("unknown kind")
	}
	nr := registry.NewNodeRegistry(settings.Soft.StreamConnections, nil)
	nhConfig := config.NodeHostConfig{RTTMillisecond: 1, NotifyCommit: sc.Notify}
	n, err := newNode(map[uint64]string{1: "a1"}, true, cfg, nhConfig, create, ss, lr, e, nil, nil,
		func(uint64, uint64, bool) {}, func(m pb.Message) {}, nr, w.pool, w.db, nil, newSysEventListener(nil, nil))
	if err != nil {
		panic(err)
	}
	return n
}

// lcBareEngine is an engine value without goroutines (for work done in
// controller context before the threads start).
func lcBareEngine(db *memlogdb.DB, notify bool) *engine {
	return &engine{logdb: db, notifyCommit: notify,
		stepWorkReady: newWorkReady(1), stepCCIReady: newWorkReady(1), commitWorkReady: newWorkReady(1), commitCCIReady: newWorkReady(1),
		applyWorkReady: newWorkReady(1), applyCCIReady: newWorkReady(1),
		wp: &workerPool{saveReady: newWorkReady(1), recoverReady: newWorkReady(1), streamReady: newWorkReady(1), cciReady: newWorkReady(1)},
		cp: &closeWorkerPool{ready: make(chan closeReq, 4)}}
}

func lcNewWorld(sc *lcScenario, r *vsched.Run) *lcWorld {
	vtime.Reset()
	nxResetRandom()
	w := &lcWorld{sc: sc, mon: newLcMon(sc.Kind), ldr: &lcLoader{}, fs: vfs.NewMemFS(), db: memlogdb.New()}
	w.mon.slowClose = sc.SlowClose
	pool := &sync.Pool{}
	pool.New = func() interface{} {
		obj := &RequestState{}
		obj.CompletedC = make(chan RequestResult, 1)
		obj.pool = pool
		return obj
	}
	w.pool = pool
	if sc.Restart {
		// first incarnation, entirely in controller context
		mon0 := newLcMon(sc.Kind)
		e0 := lcBareEngine(w.db, sc.Notify)
		n0 := w.newNodeOn(e0, mon0, lcShard)
		n0.loaded()
		settle := w.warmUp(n0, e0, mon0)
		rs, err := n0.requestSnapshot(SnapshotOption{}, 100)
		if err != nil {
			panic(err)
		}
		e0.setStepReady(lcShard)
		settle()
		var ssIndex uint64
		select {
		case res := <-rs.CompletedC:
			if !res.Completed() {
				panic("first incarnation: snapshot request not completed")
			}
			ssIndex = res.SnapshotIndex()
		default:
			panic("first incarnation: snapshot request without result")
		}
		p, err := n0.propose(&client.Session{ShardID: lcShard, ClientID: 7001, SeriesID: client.NoOPSeriesID}, []byte{9}, 100)
		if err != nil {
			panic(err)
		}
		e0.setStepReady(lcShard)
		settle()
		if len(p.CompletedC) == 0 {
			panic("first incarnation: last proposal not applied")
		}
		n0.close()
		if sc.Kind == "ondisk" {
			// the on-disk state machine has persisted what it applied
			w.mon.openIdx = mon0.lastIdx
		} else {
			for _, i := range mon0.updates {
				if i > ssIndex {
					w.mon.replay = append(w.mon.replay, i)
				}
			}
			if len(w.mon.replay) == 0 {
				panic("restart scenario without an entry above the snapshot")
			}
		}
	}
	ec := config.EngineConfig{ExecShards: 1, CommitShards: 1, ApplyShards: 1, SnapshotShards: 1, CloseShards: 1}
	// registers the engine's goroutines as threads (vsyncutil.Stopper -> vsched.Spawn)
	w.eng = newExecEngine(w.ldr, ec, sc.Notify, false, nil, w.db)
	names := []string{"ssworker", "sspool", "closeworker", "closepool", "step"}
	if sc.Notify {
		names = append(names, "commit")
	}
	names = append(names, "apply")
	r.SetNames(names)
	n := w.newNodeOn(w.eng, w.mon, lcShard)
	w.n = n
	w.ldr.n = n
	n.loaded() // NodeHost.startShard holds one reference
	if sc.Warm {
		w.warmUp(n, w.eng, w.mon)
	}
	if sc.Aux {
		w.auxMon = newLcMon(sc.Kind)
		w.aux = w.newNodeOn(w.eng, w.auxMon, lcAuxShard)
		w.aux.loaded()
		w.warmUp(w.aux, w.eng, w.auxMon)
		w.ldr.aux = w.aux
		w.ldr.cci++
	}
	return w
}

// warmUp runs, in controller context and without touching the reference
// counts, what the engine would do after startShard until the replica is an
// initialised leader with two applied entries. The worker loops' own ready
// signals raised meanwhile are drained so the threads start idle.
func (w *lcWorld) warmUp(n *node, e *engine, mon *lcMon) func() {
	sid := n.shardID
	nodes := map[uint64]*node{sid: n}
	act := func() map[uint64]struct{} { return map[uint64]struct{}{sid: {}} }
	drain := func(wr *workReady) bool {
		select {
		case <-wr.waitCh(1):
		default:
		}
		return len(wr.getReadyMap(1)) > 0
	}
	settle := func() {
		for i := 0; i < 60; i++ {
			busy := false
			if drain(e.applyWorkReady) || i == 0 {
				busy = true
				if err := e.processApplies(act(), nodes, make([]rsm.Task, 0), make([]sm.Entry, 0)); err != nil {
					panic(err)
				}
			}
			if drain(e.wp.recoverReady) {
				busy = true
				if req, ok := n.ss.getRecoverReq(); ok {
					if err := (&ssWorker{}).handle(job{task: req, node: n, shardID: sid}); err != nil {
						panic(err)
					}
				}
			}
			if drain(e.wp.saveReady) {
				busy = true
				if req, ok := n.ss.getSaveReq(); ok {
					if err := (&ssWorker{}).handle(job{task: req, node: n, shardID: sid}); err != nil {
						panic(err)
					}
				}
			}
			if e.notifyCommit && drain(e.commitWorkReady) {
				busy = true
				e.processCommits(act(), nodes)
			}
			if drain(e.stepWorkReady) || i == 0 {
				busy = true
				if err := e.processSteps(1, act(), nodes, make([]pb.Update, 0), nil); err != nil {
					panic(err)
				}
			}
			if !busy {
				return
			}
		}
	}
	settle()
	settle()
	vp := raft.VPeer{P: &n.p}
	vp.ForceElectionTimeout()
	n.mq.Tick()
	n.mq.Add(pb.Message{Type: pb.LocalTick, To: 1, From: 1, Hint: n.pendingReadIndexes.getTick() + 1})
	e.setStepReady(sid)
	settle()
	if !vp.IsLeader() {
		panic("warm-up: replica did not become leader")
	}
	for i := 0; i < 2; i++ {
		rs, err := n.propose(&client.Session{ShardID: sid, ClientID: 7001, SeriesID: client.NoOPSeriesID}, []byte{byte(i)}, 100)
		if err != nil {
			panic(err)
		}
		e.setStepReady(sid)
		settle()
		select {
		case res := <-rs.CompletedC:
			if !res.Completed() {
				panic("warm-up proposal not completed")
			}
		default:
			panic("warm-up proposal without result")
		}
	}
	vp.Normalize()
	for _, wr := range []*workReady{e.stepWorkReady, e.stepCCIReady, e.applyWorkReady, e.applyCCIReady, e.commitWorkReady, e.commitCCIReady,
		e.wp.saveReady, e.wp.recoverReady, e.wp.streamReady, e.wp.cciReady} {
		drain(wr)
	}
	if mon.calls["Update"] < 2 {
		panic("warm-up: updates not applied")
	}
	mon.calls = map[string]int{}
	mon.overlaps = map[string]bool{}
	return func() {
		settle()
		for _, wr := range []*workReady{e.stepWorkReady, e.applyWorkReady, e.commitWorkReady, e.wp.saveReady, e.wp.recoverReady} {
			drain(wr)
		}
	}
}

func lcSetup(sc *lcScenario, wp **lcWorld) func(r *vsched.Run) {
	return func(r *vsched.Run) {
		w := lcNewWorld(sc, r)
		*wp = w
		r.Go("host", func() {
			for _, op := range sc.Host {
				vsched.Yield()
				w.hostOp(op)
			}
		})
		defer r.MoveLast("ssworker") // the thread that runs the user's snapshot code is the slowest by default
		if sc.Reader > 0 {
			r.Go("reader", func() {
				for i := 0; i < sc.Reader; i++ {
					vsched.Yield()
					// NodeHost.StaleRead
					if !w.ldr.registered || !w.n.initialized() {
						continue
					}
					if _, err := w.n.sm.Lookup("q"); err != nil && err != rsm.ErrShardClosed {
						w.fail("Lookup: %v", err)
					}
				}
			})
		}
	}
}

// the user method in which the auxiliary shard's snapshot job is held
func (w *lcWorld) auxHeldMethod() string {
	if w.sc.Kind == "ondisk" {
		return "Sync" // an on-disk state machine's local snapshot is Sync + a dummy image
	}
	return "SaveSnapshot"
}

func (w *lcWorld) last() *lcReq {
	if len(w.reqs) == 0 {
		return nil
	}
	return w.reqs[len(w.reqs)-1]
}

func (w *lcWorld) hostOp(op string) {
	n, e := w.n, w.eng
	switch op {
	case "R": // NodeHost.startShard (tail): publish the node, wake the workers
		w.ldr.registered = true
		w.ldr.cci++
		e.setCCIReady(lcShard)
		e.setApplyReady(lcShard)
	case "P": // NodeHost.propose
		w.nval++
		rs, err := n.propose(&client.Session{ShardID: lcShard, ClientID: 7001, SeriesID: client.NoOPSeriesID}, []byte{byte(w.nval)}, 100)
		e.setStepReady(lcShard)
		w.reqs = append(w.reqs, &lcReq{kind: "propose", rs: rs, err: err})
	case "S": // NodeHost.RequestSnapshot
		rs, err := n.requestSnapshot(SnapshotOption{}, 100)
		e.setStepReady(lcShard)
		w.reqs = append(w.reqs, &lcReq{kind: "snapshot", rs: rs, err: err})
	case "D": // NodeHost.ReadIndex
		rs, err := n.read(100)
		e.setStepReady(lcShard)
		w.reqs = append(w.reqs, &lcReq{kind: "read", rs: rs, err: err})
	case "G": // NodeHost.RequestAddNonVoting
		rs, err := n.requestAddNonVotingWithOrderID(2, "a2", 0, 100)
		e.setStepReady(lcShard)
		w.reqs = append(w.reqs, &lcReq{kind: "confchange", rs: rs, err: err})
	case "Q": // NodeHost.QueryRaftLog
		rs, err := n.queryRaftLog(1, 3, 1024)
		e.setStepReady(lcShard)
		w.reqs = append(w.reqs, &lcReq{kind: "logquery", rs: rs, err: err})
	case "a": // wait for the result of the last request
		if q := w.last(); q != nil && q.err == nil {
			vsched.Await(func() bool { return len(q.rs.CompletedC) > 0 }, "result of "+q.kind)
		}
	case "i": // wait until the replica is initialised (WaitReady)
		vsched.Await(func() bool {
			select { // not n.initialized(): a predicate must not reach a scheduling point
			case <-n.initializedC:
				return true
			default:
				return false
			}
		}, "initialized")
	case "ws", "wu", "wr", "wp", "wy": // position the host: wait until the user method is running
		name := map[string]string{"ws": "SaveSnapshot", "wu": "Update", "wr": "RecoverFromSnapshot", "wp": "PrepareSnapshot", "wy": "Sync"}[op]
		w.mon.waitFor[name] = true
		vsched.Await(func() bool { return w.mon.active[name] > 0 }, name+" in progress")
		w.mon.waitFor[name] = false
	case "t": // NodeHost.tickWorkerMain: one tick
		if w.ldr.registered {
			n.mq.Tick()
			n.mq.Add(pb.Message{Type: pb.LocalTick, To: 1, From: 1, Hint: n.pendingReadIndexes.getTick() + 1})
			e.setAllStepReady([]*node{n})
		}
	case "B": // RequestSnapshot on the auxiliary shard (keeps the single snapshot worker busy)
		if w.aux != nil {
			if _, err := w.aux.requestSnapshot(SnapshotOption{}, 100); err != nil {
				w.fail("aux snapshot request: %v", err)
			}
			e.setStepReady(lcAuxShard)
		}
	case "wb": // wait until the auxiliary shard's snapshot job is inside user code; it is held there until op "rb"
		if w.auxMon != nil {
			m := w.auxHeldMethod()
			w.auxMon.waitFor[m] = true
			vsched.Await(func() bool { return w.auxMon.active[m] > 0 }, "aux "+m+" in progress")
		}
	case "rb": // let the auxiliary shard's snapshot job go on
		if w.auxMon != nil {
			w.auxMon.waitFor[w.auxHeldMethod()] = false
		}
	case "q": // wait until nothing else can run
		vsched.Await(func() bool { return vsched.Quiescent() }, "quiescence")
	case "wq": // wait until a snapshot job is queued in the pool behind the busy worker
		vsched.Await(func() bool { return len(e.wp.pending) > 0 }, "a job pending in the snapshot pool")
	case "N": // NodeHost.StartReplica of the main shard again after StopShard: a new incarnation.
		// startShard refuses (ErrShardAlreadyExist) while the engine still has the old node
		// loaded; the host waits for that like a caller that retries.
		vsched.Await(func() bool {
			for _, m := range e.loaded.nodes { // unlocked read: only one thread runs at a time
				if _, ok := m[lcShard]; ok {
					return false
				}
			}
			return true
		}, "old incarnation unloaded by every worker")
		w.oldMons = append(w.oldMons, w.mon)
		w.mon = newLcMon(w.sc.Kind)
		if w.sc.Kind == "ondisk" {
			w.mon.openIdx = w.oldMons[len(w.oldMons)-1].lastIdx
		}
		n2 := w.newNodeOn(e, w.mon, lcShard)
		w.n = n2
		n2.loaded()
		w.ldr.n = n2
		w.ldr.registered = true
		w.ldr.cci++
		e.setCCIReady(lcShard)
		e.setApplyReady(lcShard)
	case "k": // the workers' node reload tickers fire
		vtime.FireTickers(0)
	case "X": // NodeHost.stopNode
		w.ldr.registered = false
		w.ldr.cci++
		e.setCCIReady(lcShard)
		n.close()
		n.offloaded()
		e.setStepReady(lcShard)
		e.setCommitReady(lcShard)
		e.setApplyReady(lcShard)
		e.setRecoverReady(lcShard)
		w.stopped = true
	case "C": // NodeHost.Close after its stopNode calls
		if err := e.close(); err != nil {
			w.fail("engine.close: %v", err)
		}
		w.closedE = true
	default:
		panic("unknown host op " + op)
	}
}

var lcNum = regexp.MustCompile(`0x[0-9a-f]+|\d+`)

// judge: the C11 call table, plus what the statement of C12 says about
// requests that were accepted before the shard stopped.
func (w *lcWorld) judge(o *vsched.Outcome) (map[string]string, []string) {
	finds := map[string]string{}
	k := w.sc.Kind
	switch o.Status {
	case vsched.Panicked:
		finds[k+"/panic/"+lcNum.ReplaceAllString(o.Msg, "N")] = "a thread panicked: " + o.Msg
	case vsched.Deadlock:
		finds[k+"/deadlock"] = "deadlock: " + o.Msg
	case vsched.Livelock:
		finds[k+"/livelock"] = "livelock: " + o.Msg
	}
	for key, v := range w.mon.finds {
		finds[key] = v
	}
	for _, om := range w.oldMons {
		for key, v := range om.finds {
			finds["earlier-incarnation/"+key] = "state machine of an earlier incarnation of the shard: " + v
		}
	}
	if w.auxMon != nil {
		for key, v := range w.auxMon.finds {
			finds["aux-shard/"+key] = "auxiliary shard: " + v
		}
	}
	for _, e := range w.errs {
		finds[k+"/error/"+lcNum.ReplaceAllString(e, "N")] = "unexpected error: " + e
	}
	var classes []string
	if o.Status == vsched.Completed {
		for _, q := range w.reqs {
			if q.err != nil {
				classes = append(classes, q.kind+":refused")
				continue
			}
			switch len(q.rs.CompletedC) {
			case 0:
				classes = append(classes, q.kind+":pending")
				if w.stopped {
					finds[k+"/request-without-result-after-stop/"+q.kind] = "a " + q.kind + " request accepted before stopNode has no terminal result although stopNode returned and every thread is idle"
				}
			default:
				res := <-q.rs.CompletedC
				q.rs.CompletedC <- res
				classes = append(classes, fmt.Sprintf("%s:%d", q.kind, res.code))
			}
		}
		if w.closedE && w.mon.closes == 0 {
			classes = append(classes, "sm-not-closed-after-engine-close")
		}
	}
	for key := range w.mon.overlaps {
		classes = append(classes, "overlap:"+key)
	}
	var cs []string
	for key, n := range w.mon.calls {
		cs = append(cs, fmt.Sprintf("%s×%d", key, n))
	}
	sort.Strings(cs)
	classes = append(classes, "calls:"+strings.Join(cs, ","))
	for i, om := range w.oldMons {
		var ocs []string
		for key, n := range om.calls {
			ocs = append(ocs, fmt.Sprintf("%s×%d", key, n))
		}
		sort.Strings(ocs)
		classes = append(classes, fmt.Sprintf("incarnation%d-calls:%s", i, strings.Join(ocs, ",")))
	}
	if len(o.Parked) > 0 {
		classes = append(classes, fmt.Sprintf("parked:%d", len(o.Parked)))
	}
	sort.Strings(classes)
	return finds, classes
}

func lcScenarios(thorough bool) []lcScenario {
	var out []lcScenario
	add := func(kind string, warm bool, host string, reader int) {
		name := fmt.Sprintf("%s/%s/%s", kind, map[bool]string{true: "warm", false: "cold"}[warm], host)
		if reader > 0 {
			name += fmt.Sprintf("+reader%d", reader)
		}
		out = append(out, lcScenario{Name: name, Kind: kind, Warm: warm, Host: strings.Fields(host), Reader: reader})
	}
	addX := func(kind string, host string, restart, notify bool) {
		name := fmt.Sprintf("%s/%s/%s", kind, map[bool]string{true: "restart", false: "warm-notifycommit"}[restart], host)
		out = append(out, lcScenario{Name: name, Kind: kind, Warm: !restart, Restart: restart, Notify: notify, Host: strings.Fields(host)})
	}
	for _, kind := range []string{"plain", "concurrent", "ondisk"} {
		// shutdown of an idle, of a starting and of a busy replica
		add(kind, true, "R X C", 0)
		add(kind, false, "R X C", 0)
		add(kind, false, "R i X C", 0)
		// stop right after start with a slow user Close: the close pool sees the
		// node again when a worker that loaded it late drops its reference
		out = append(out, lcScenario{Name: kind + "/cold-slowclose/R X C", Kind: kind, Host: []string{"R", "X", "C"}, SlowClose: true})
		out = append(out, lcScenario{Name: kind + "/warm-slowclose/R X C", Kind: kind, Warm: true, Host: []string{"R", "X", "C"}, SlowClose: true})
		// second incarnation: rebuilt from the snapshot + the entries above it
		addX(kind, "R i X C", true, false)
		addX(kind, "R X C", true, false)
		if kind != "ondisk" {
			addX(kind, "R wr X C", true, false)
		}
		addX(kind, "R i t wu X C", true, false)
		addX(kind, "R i t a X C", true, false)
		// commit worker in the pipeline
		addX(kind, "R P wu X C", false, true)
		addX(kind, "R P X C", false, true)
		// snapshot job in the pool while the shard stops and the engine closes
		add(kind, true, "R S X C", 0)
		add(kind, true, "R S a X C", 0)
		add(kind, true, "R S ws X C", 0)
		if kind != "plain" {
			add(kind, true, "R S wp X C", 0)
			add(kind, true, "R S ws P wu X C", 0)
		}
		// the only snapshot worker is busy with another shard while this shard's
		// snapshot job waits in the pool; the shard is stopped and started again
		out = append(out, lcScenario{Name: kind + "/aux-restart/R B wb S wq X N rb q C", Kind: kind, Warm: true, Aux: true,
			Host: strings.Fields("R B wb S wq X N rb q C")})
		out = append(out, lcScenario{Name: kind + "/aux-stop/R B wb S wq X rb q C", Kind: kind, Warm: true, Aux: true,
			Host: strings.Fields("R B wb S wq X rb q C")})
		// proposal in flight
		add(kind, true, "R P X C", 0)
		add(kind, true, "R P wu X C", 0)
		add(kind, true, "R P S X C", 0)
		add(kind, true, "R S P X C", 0)
		// other request kinds in flight when the shard stops
		if kind == "plain" {
			add(kind, true, "R D X C", 0)
			add(kind, true, "R G X C", 0)
			add(kind, true, "R Q X C", 0)
			add(kind, true, "R D G Q P X C", 0)
			add(kind, true, "R D a G a Q a X C", 0)
		}
		// reader that holds the node while it is stopped
		add(kind, true, "R P X C", 1)
		add(kind, true, "R S X C", 1)
		// reload tickers
		add(kind, true, "R S k X C", 0)
		if thorough {
			add(kind, true, "R P a S X C", 0)
			add(kind, true, "R P P X C", 0)
			add(kind, false, "R i P S X C", 0)
			add(kind, true, "R S k X k C", 1)
		}
	}
	return out
}

// positioned scenarios that get the full bound in the quick tier too
var lcQuickDeep = map[string]bool{
	"plain/warm/R S ws X C": true, "concurrent/warm/R S ws X C": true, "ondisk/warm/R S ws X C": true,
	"plain/warm/R P wu X C": true, "plain/warm-notifycommit/R P wu X C": true,
	"plain/restart/R wr X C": true, "concurrent/restart/R wr X C": true,
	"plain/restart/R i t wu X C": true, "ondisk/restart/R i t wu X C": true,
}

type lcReplay struct {
	Scenario lcScenario `json:"scenario"`
	Choices  []int      `json:"choices"`
	Schedule string     `json:"schedule"`
	Horizon  int        `json:"horizon"`
	Part     string     `json:"part"`
}

const lcHorizon = 6000

func lcFinish(run *verifkit.Run, res *verifkit.Result) {
	if rec := recover(); rec != nil {
		panic(rec)
	}
	run.Finish(res)
}

func TestVerifC11Lifecycle(t *testing.T) {
	run := verifkit.Env()
	res := verifkit.NewResult()
	defer lcFinish(run, res)
	runtime.GOMAXPROCS(1)
	lcQuiet()
	bound := run.Pick(2, 3)
	if b := os.Getenv("VERIF_LC_BOUND"); b != "" {
		fmt.Sscan(b, &bound)
	}
	res.Rule = fmt.Sprintf("case = one complete schedule of the real engine goroutines (step, apply, snapshot pool main + worker, close pool main + worker) plus a NodeHost thread (and a StaleRead client) over one real node with an instrumented user state machine; every schedule with <= %d (scenarios without a positioning wait: one less) deviations from the default schedule (running thread first, else lowest thread id; a deviation is any other choice at any scheduling point, which includes every preemption) of each scenario is executed; non-trivial = at least two user state machine methods were called and the schedule has a preemption or an observed overlap", bound)
	res.Assumptions = []string{
		"two-shard (aux) scenarios: the order in which the engine walks its shard maps is Go map iteration order; diverging re-executions are retried (lifecycle_divergence_retries), so that order is sampled, not enumerated",
		"schedx: scheduling points at every sync/atomic operation and channel statement of engine.go, node.go, request.go, queue.go, quiesce.go, snapshotstate.go and internal/rsm, and inside every user state machine method; code of other packages runs atomically between two points",
		"when several cases of a select are ready the choice is part of the schedule (default: first in source order, every other ready case costs one deviation); tickers and timers only fire when the scenario says so",
		fmt.Sprintf("deviation bound %d for the scenarios in which the host waits for a user method to be in progress, one less for the others; single-replica shard; one step/apply/snapshot/close worker", bound),
	}
	var rp lcReplay
	if run.LoadReplay(&rp) {
		sc := rp.Scenario
		var w *lcWorld
		var first uint64
		for i := 0; i < 2; i++ {
			o := vsched.Replay(rp.Horizon, lcSetup(&sc, &w), rp.Choices, func(o *vsched.Outcome) {
				finds, _ := w.judge(o)
				for k, d := range finds {
					res.Violate(k, d+" | scenario: "+sc.Name+" | schedule: "+o.Schedule(), rp)
				}
			})
			if i == 1 && o.Digest() != first {
				panic("replay is not deterministic")
			}
			first = o.Digest()
		}
		res.Evaluations = 1
		return
	}
	scs := lcScenarios(run.Thorough())
	minimal := map[string]int{}
	var tot vsched.Stats
	nsc := 0
	for si := range scs {
		sc := &scs[si]
		if f := os.Getenv("VERIF_SCENARIO"); f != "" && !strings.Contains(sc.Name, f) {
			continue
		}
		if run.Expired() {
			res.Cap("deadline reached before scenario " + sc.Name)
			break
		}
		nsc++
		// positioned scenarios (the host waits until a user method is in
		// progress) get the full bound, the others one deviation less
		scBound := bound - 1
		for _, op := range sc.Host {
			if strings.HasPrefix(op, "w") && (run.Thorough() || lcQuickDeep[sc.Name]) {
				scBound = bound
			}
		}
		if sc.SlowClose {
			scBound = bound
		}
		if os.Getenv("VERIF_LC_BOUND") != "" {
			scBound = bound
		}
		var w *lcWorld
		salt := verifkit.Hash64(sc.Name)
		st := vsched.Explore(vsched.Config{
			Bound: scBound, Horizon: lcHorizon, SplitDepth: 1, VerifyEvery: 97, GCEvery: 64, CostAll: true,
			// two shards on one engine: the order in which the engine's loops walk their
			// shard maps is Go map order, which the scheduler does not own; a re-execution
			// whose prefix diverges for that reason is retried (counted)
			DivergenceRetries: map[bool]int{true: 4096, false: 0}[sc.Aux],
			Mine:              func(k uint64) bool { return run.Mine((k ^ salt) % 1000003) },
			Expired:           run.Expired,
			Observe: func(o *vsched.Outcome) string {
				_, classes := w.judge(o)
				return strings.Join(classes, " ") + fmt.Sprint(w.errs)
			},
		}, lcSetup(sc, &w), func(o *vsched.Outcome) bool {
			finds, classes := w.judge(o)
			if os.Getenv("VERIF_LC_DEBUG") != "" {
				fmt.Println("SCHEDULE", o.Preemptions, o.Schedule(), "PARKED", o.Parked, classes)
			}
			res.Outcome(sc.Kind + " | " + strings.Join(classes, " "))
			ncalls := 0
			for _, n := range w.mon.calls {
				ncalls += n
			}
			if ncalls >= 2 && (o.Preemptions > 0 || len(w.mon.overlaps) > 0 || len(w.mon.finds) > 0) {
				res.DistinctNontrivial++
			}
			for k, d := range finds {
				score := o.Preemptions*100000 + o.Points
				if old, ok := minimal[k]; ok && old <= score {
					continue
				}
				minimal[k] = score
				rpl := lcReplay{Scenario: *sc, Choices: append([]int(nil), o.Choices...), Schedule: o.Schedule(), Horizon: lcHorizon, Part: "lifecycle"}
				lcReplaceViolation(res, k, d+" | scenario: "+sc.Name+fmt.Sprintf(" | %d preemption(s), schedule: %s", o.Preemptions, o.Schedule()), rpl)
			}
			return os.Getenv("VERIF_STOP_FIRST") != "" && len(finds) > 0
		})
		res.Extra["lifecycle_executions:"+sc.Name] = st.Executions
		tot.Executions += st.Executions
		tot.Schedules += st.Schedules
		tot.Spine += st.Spine
		tot.Verified += st.Verified
		tot.Retries += st.Retries
		tot.Deadlocks += st.Deadlocks
		tot.Panics += st.Panics
		tot.Livelocks += st.Livelocks
		tot.TotalPoints += st.TotalPoints
		if st.MaxPoints > tot.MaxPoints {
			tot.MaxPoints = st.MaxPoints
		}
		for i := range st.ByPreempt {
			tot.ByPreempt[i] += st.ByPreempt[i]
		}
		if run.Shard == 0 {
			res.Sample(4, map[string]interface{}{"scenario": sc.Name, "schedules_this_shard": st.Executions, "max_points": st.MaxPoints})
		}
		if st.Capped {
			res.Cap("deadline reached inside scenario " + sc.Name)
			break
		}
	}
	if run.Shard != 0 {
		res.Sample(1, map[string]interface{}{"scenario": scs[run.Shard%len(scs)].Name})
	}
	res.Evaluations = tot.Executions
	if tot.Schedules != tot.Executions && res.NViolations() == 0 {
		panic(fmt.Sprintf("explorer executed a schedule twice: %d executions, %d distinct", tot.Executions, tot.Schedules))
	}
	res.Extra["lifecycle_scenarios"] = nsc
	res.Extra["lifecycle_executions"] = tot.Executions
	res.Extra["lifecycle_replay_verified"] = tot.Verified
	res.Extra["lifecycle_divergence_retries"] = tot.Retries
	res.Extra["lifecycle_max_points"] = tot.MaxPoints
	res.Extra["lifecycle_scheduling_points"] = tot.TotalPoints
	res.Extra["lifecycle_deadlocks"] = tot.Deadlocks
	res.Extra["lifecycle_panics"] = tot.Panics
	res.Extra["lifecycle_livelocks"] = tot.Livelocks
	for i := 0; i <= bound; i++ {
		res.Extra[fmt.Sprintf("lifecycle_schedules_with_%d_preemptions", i)] = tot.ByPreempt[i]
	}
	res.Extra["lifecycle_preemption_bound"] = bound
}

func lcReplaceViolation(res *verifkit.Result, key, desc string, replay interface{}) {
	for i := range res.Violations {
		if res.Violations[i].Key == key {
			res.Violations[i].Desc = desc
			res.Violations[i].Replay = replay
			return
		}
	}
	res.MaxViolations = 1 << 30
	res.Violate(key, desc, replay)
}
