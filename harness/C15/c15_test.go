//go:build verif

// C15: snapshot chunk transfer reassembles exactly or rejects.
//
// Sender side: the REAL Transport.SendSnapshot (split, job lane, chunk loading) over real snapshot
// files (written by rsm.NewSnapshotWriter) and the REAL streaming
// rsm.ChunkWriter; receiver side: the REAL transport.Chunk (NewChunk, Add,
// Tick) on a fresh in-memory FS per case. Every case is a list of events
// (chunk deliveries, clock ticks, "replica removed" marker) obtained from a
// base stream by a sequence of perturbations; a small reference model that
// follows the property statement predicts which streams must finalize.
package transport

import (
	"bytes"
	"context"
	"fmt"
	"io"
	"runtime"
	"sort"
	"strings"
	"sync/atomic"
	"testing"
	"time"

	"github.com/lni/dragonboat/v4/config"
	"github.com/lni/dragonboat/v4/internal/fileutil"
	"github.com/lni/dragonboat/v4/internal/registry"
	"github.com/lni/dragonboat/v4/internal/rsm"
	"github.com/lni/dragonboat/v4/internal/server"
	"github.com/lni/dragonboat/v4/internal/settings"
	"github.com/lni/dragonboat/v4/internal/utils/dio"
	"github.com/lni/dragonboat/v4/internal/verifkit"
	"github.com/lni/dragonboat/v4/internal/vfs"
	"github.com/lni/dragonboat/v4/logger"
	"github.com/lni/dragonboat/v4/raftio"
	pb "github.com/lni/dragonboat/v4/raftpb"
)

const (
	c15Did     = uint64(7)
	c15Shard   = uint64(1)
	c15Replica = uint64(2) // receiving replica
	c15From    = uint64(1) // sending replica
	c15Index   = uint64(100)
	c15Term    = uint64(5)
	// "other" values used by perturbations
	c15OtherFrom    = uint64(9)
	c15OtherIndex   = uint64(101)
	c15OtherReplica = uint64(3)
	c15OtherShard   = uint64(2)
	c15B            = 2048
)

// ---------------------------------------------------------------- base streams (sender side, real code)

type c15Base struct {
	name      string
	chunks    []pb.Chunk        // what the sender puts on the wire, in order
	files     map[string][]byte // file name in the snapshot dir -> source content
	mainName  string
	streaming bool
}

func c15Bytes(seed, n int) []byte {
	out := make([]byte, n)
	x := uint64(0x9E3779B97F4A7C15) ^ uint64(seed)*0xBF58476D1CE4E5B9 ^ uint64(n)
	for i := range out {
		x ^= x << 13
		x ^= x >> 7
		x ^= x << 17
		out[i] = byte(x >> 24)
	}
	return out
}

func c15Must(err error) {
	if err != nil {
		panic(err)
	}
}

func c15ReadFile(fs vfs.IFS, fp string) []byte {
	f, err := fs.Open(fp)
	c15Must(err)
	defer f.Close()
	var b bytes.Buffer
	_, err = io.Copy(&b, f)
	c15Must(err)
	return b.Bytes()
}

func c15WriteFile(fs vfs.IFS, fp string, d []byte) {
	f, err := fs.Create(fp)
	c15Must(err)
	_, err = f.Write(d)
	c15Must(err)
	c15Must(f.Close())
}

// c15Wire passes a chunk through its wire encoding (what SendChunk does).
func c15Wire(c pb.Chunk) pb.Chunk {
	data, err := c.Marshal()
	c15Must(err)
	var out pb.Chunk
	c15Must(out.Unmarshal(data))
	return out
}

// c15FileBase builds a snapshot (main file through the real SnapshotWriter,
// external files) on the sender FS and splits it with the real sender code
// exactly as job.sendChunks does.
func c15FileBase(fs vfs.IFS, name string, ct pb.CompressionType, payload int, ext []int, firstID uint64) c15Base {
	dir := fmt.Sprintf("/sender/%s/%s", name, server.GetSnapshotDirName(c15Index))
	c15Must(fs.MkdirAll(dir, 0755))
	mainName := server.GetSnapshotFilename(c15Index)
	fp := fs.PathJoin(dir, mainName)
	w, err := rsm.NewSnapshotWriter(fp, ct, fs)
	c15Must(err)
	cw := dio.NewCountedWriter(w)
	sw := dio.NewCompressor(ct, cw)
	_, err = sw.Write(c15Bytes(1, payload))
	c15Must(err)
	c15Must(sw.Close())
	b := c15Base{name: name, files: map[string][]byte{}, mainName: mainName}
	b.files[mainName] = c15ReadFile(fs, fp)
	ss := pb.Snapshot{Filepath: fp, FileSize: uint64(len(b.files[mainName])), Index: c15Index, Term: c15Term}
	if w.GetPayloadSize(cw.BytesWritten())+rsm.HeaderSize != ss.FileSize {
		panic("harness: recorded size differs from the file")
	}
	for i, sz := range ext {
		sf := &pb.SnapshotFile{FileId: firstID + uint64(i), FileSize: uint64(sz), Metadata: c15Bytes(50+i, 8+i)}
		sf.Filepath = fs.PathJoin(dir, sf.Filename()) // rsm.Files.PrepareFiles naming
		content := c15Bytes(10+i, sz)
		c15WriteFile(fs, sf.Filepath, content)
		b.files[sf.Filename()] = content
		ss.Files = append(ss.Files, sf)
	}
	m := pb.Message{Type: pb.InstallSnapshot, From: c15From, To: c15Replica, ShardID: c15Shard, Snapshot: ss}
	b.chunks = c15Send(fs, m)
	return b
}

// c15Send hands an InstallSnapshot message to a REAL Transport
// (Transport.SendSnapshot -> splitting, job lane, chunk loading, deployment
// id) whose network is a recording raftio.ITransport, and returns what the
// sender put on the wire. Only exported entry points and the plug-in interface
// are used, so refactorings of the private sender functions do not break the
// harness.
func c15Send(fs vfs.IFS, m pb.Message) []pb.Chunk {
	var out []pb.Chunk
	h := &c15SendHandler{done: make(chan bool, 8)}
	c := config.NodeHostConfig{RaftAddress: "c15-sender:1", DeploymentID: c15Did,
		Expert: config.ExpertConfig{TransportFactory: &c15RecFactory{out: &out}}}
	env, err := server.NewEnv(c, fs)
	c15Must(err)
	nodes := registry.NewNodeRegistry(settings.Soft.StreamConnections, nil)
	dir := func(shardID uint64, replicaID uint64) string {
		return fmt.Sprintf("/sender-snapshot-%d-%d", shardID, replicaID)
	}
	t, err := NewTransport(c, h, env, nodes, dir, c15Events{}, fs)
	c15Must(err)
	nodes.Add(m.ShardID, m.To, "c15-receiver:1")
	m.Snapshot.Load(c15Compactor{})
	if !t.SendSnapshot(m) {
		panic("harness: Transport.SendSnapshot refused the message")
	}
	select {
	case rejected := <-h.done:
		if rejected {
			panic("harness: the sender reported a failed transfer over a healthy recording connection")
		}
	case <-time.After(300 * time.Second):
		panic("harness: the sender did not finish")
	}
	for i := 0; atomic.LoadUint64(&t.jobs) != 0; i++ {
		runtime.Gosched()
		if i > 1<<24 {
			panic("harness: snapshot job lane did not shut down")
		}
	}
	c15Must(t.Close())
	c15Must(env.Close())
	return out
}

type c15Compactor struct{}

func (c15Compactor) Compact(uint64) error { return nil }

type c15SendHandler struct{ done chan bool }

func (h *c15SendHandler) HandleMessageBatch(pb.MessageBatch) (uint64, uint64) { return 0, 0 }
func (h *c15SendHandler) HandleUnreachable(uint64, uint64)                    {}
func (h *c15SendHandler) HandleSnapshotStatus(_ uint64, _ uint64, rejected bool) {
	h.done <- rejected
}
func (h *c15SendHandler) HandleSnapshot(uint64, uint64, uint64) {}

type c15Events struct{}

func (c15Events) ConnectionEstablished(string, bool) {}
func (c15Events) ConnectionFailed(string, bool)      {}

type c15RecFactory struct{ out *[]pb.Chunk }

func (f *c15RecFactory) Create(config.NodeHostConfig, raftio.MessageHandler, raftio.ChunkHandler) raftio.ITransport {
	return &c15RecTrans{out: f.out}
}
func (f *c15RecFactory) Validate(string) bool { return true }

type c15RecTrans struct{ out *[]pb.Chunk }

func (g *c15RecTrans) Name() string { return "verif-c15-recorder" }
func (g *c15RecTrans) Start() error { return nil }
func (g *c15RecTrans) Close() error { return nil }
func (g *c15RecTrans) GetConnection(context.Context, string) (raftio.IConnection, error) {
	return nil, fmt.Errorf("no message connections in this harness")
}
func (g *c15RecTrans) GetSnapshotConnection(context.Context, string) (raftio.ISnapshotConnection, error) {
	return &c15RecConn{out: g.out}, nil
}

type c15RecConn struct{ out *[]pb.Chunk }

func (c *c15RecConn) Close() {}
func (c *c15RecConn) SendChunk(chunk pb.Chunk) error {
	*c.out = append(*c.out, c15Wire(chunk))
	return nil
}

func c15WitnessBase(fs vfs.IFS) c15Base {
	m := pb.Message{Type: pb.InstallSnapshot, From: c15From, To: c15Replica, ShardID: c15Shard,
		Snapshot: pb.Snapshot{Index: c15Index, Term: c15Term, Witness: true}}
	b := c15Base{name: "witness", files: map[string][]byte{}, mainName: "witness.snapshot"}
	b.chunks = c15Send(fs, m)
	b.files[b.mainName] = b.chunks[0].Data
	return b
}

// c15Sink QUEUES the chunks like the real transport job does (job.AddChunk puts
// the pb.Chunk value on a channel, another goroutine marshals and sends it
// later): they are put on the wire (c15Wire) only after the writer was closed,
// so a writer that keeps using a buffer it handed over corrupts the stream here
// as it does in the real transport.
type c15Sink struct{ queue []pb.Chunk }

func (s *c15Sink) Receive(c pb.Chunk) (bool, bool) {
	c.DeploymentId = c15Did // job.streamSnapshot
	s.queue = append(s.queue, c)
	return true, false
}
func (s *c15Sink) wire() []pb.Chunk {
	var out []pb.Chunk
	for _, c := range s.queue {
		out = append(out, c15Wire(c))
	}
	return out
}
func (s *c15Sink) Close() error        { return nil }
func (s *c15Sink) ShardID() uint64     { return c15Shard }
func (s *c15Sink) ToReplicaID() uint64 { return c15Replica }

// c15StreamBase: the streaming path (snapshotter.Stream): Compressor <-
// rsm.ChunkWriter <- sink.
func c15StreamBase(name string, ct pb.CompressionType, payload int) c15Base {
	sink := &c15Sink{}
	meta := rsm.SSMeta{From: c15From, Index: c15Index, Term: c15Term, CompressionType: ct}
	cw := dio.NewCompressor(ct, rsm.NewChunkWriter(sink, meta))
	_, err := cw.Write(c15Bytes(2, payload))
	c15Must(err)
	c15Must(cw.Close())
	b := c15Base{name: name, files: map[string][]byte{}, mainName: server.GetSnapshotFilename(c15Index), streaming: true, chunks: sink.wire()}
	var all []byte
	for _, c := range b.chunks {
		all = append(all, c.Data...)
	}
	b.files[b.mainName] = all
	return b
}

func c15Bases() []c15Base {
	fs := vfs.NewMemFS()
	B := c15B
	return []c15Base{
		c15FileBase(fs, "main4", pb.NoCompression, 3*B+500, nil, 1),                         // 4 chunks, 4 blocks
		c15FileBase(fs, "main2+ext1+ext2", pb.NoCompression, B+200, []int{700, B + 300}, 0), // external file ids 0 and 1 (0 is a legal id) // 2+1+2 chunks
		c15FileBase(fs, "main3snappy+ext1", pb.Snappy, 2*B+100, []int{B}, 1),                // 3+1 chunks
		c15StreamBase("stream5", pb.NoCompression, 2*B+100),                                 // hdr+blk0, blk1, blk2, tail, marker
		c15WitnessBase(fs), // 1 chunk
	}
}

// ---------------------------------------------------------------- events

type c15Ev struct {
	K string `json:"k"` // chunk | tick | remove
	// chunk: base stream, chunk index in it
	S int `json:"s,omitempty"`
	I int `json:"i,omitempty"`
	// addressing overrides (0 = as in the base)
	From    uint64 `json:"from,omitempty"`
	Index   uint64 `json:"index,omitempty"`
	Replica uint64 `json:"replica,omitempty"`
	Shard   uint64 `json:"shard,omitempty"`
	// corruptions
	BadDid bool   `json:"baddid,omitempty"`
	BadVer bool   `json:"badver,omitempty"`
	Flip   bool   `json:"flip,omitempty"`
	FlipAt int    `json:"flipat,omitempty"` // 1 = last byte of the chunk, 2 = 12th byte from its end (tail total / last block of the last main-file chunk)
	Trunc  int    `json:"trunc,omitempty"`  // 1 = to half, 2 = to 16 bytes
	HdrBad bool   `json:"hdrbad,omitempty"`
	Path   string `json:"path,omitempty"` // hostile file name
	// tick: number of ticks
	N int `json:"n,omitempty"`
}

func (e c15Ev) key() string {
	if e.K != "chunk" {
		return fmt.Sprintf("%s%d;", e.K, e.N)
	}
	f := 0
	for i, b := range []bool{e.BadDid, e.BadVer, e.Flip, e.HdrBad} {
		if b {
			f |= 1 << uint(i)
		}
	}
	return fmt.Sprintf("c%d.%d.%d.%d.%d.%d.%x.%d.%d.%s;", e.S, e.I, e.From, e.Index, e.Replica, e.Shard, f, e.FlipAt, e.Trunc, e.Path)
}

func c15Key(evs []c15Ev) string {
	var sb strings.Builder
	for _, e := range evs {
		sb.WriteString(e.key())
	}
	return sb.String()
}

func (e c15Ev) String() string {
	switch e.K {
	case "tick":
		return fmt.Sprintf("tick(%d)", e.N)
	case "remove":
		return "mark-replica-removed"
	}
	s := fmt.Sprintf("s%d.c%d", e.S, e.I)
	if e.From != 0 {
		s += fmt.Sprintf("[from=%d]", e.From)
	}
	if e.Index != 0 {
		s += fmt.Sprintf("[index=%d]", e.Index)
	}
	if e.Replica != 0 {
		s += fmt.Sprintf("[replica=%d]", e.Replica)
	}
	if e.Shard != 0 {
		s += fmt.Sprintf("[shard=%d]", e.Shard)
	}
	if e.BadDid {
		s += "[wrong-did]"
	}
	if e.BadVer {
		s += "[wrong-binver]"
	}
	if e.Flip {
		s += "[byte-flipped]"
	}
	if e.FlipAt == 1 {
		s += "[last-byte-flipped]"
	}
	if e.FlipAt == 2 {
		s += "[byte-12-from-end-flipped]"
	}
	if e.Trunc == 1 {
		s += "[cut-to-half]"
	}
	if e.Trunc == 2 {
		s += "[cut-to-16B]"
	}
	if e.HdrBad {
		s += "[header-len-corrupt]"
	}
	if e.Path != "" {
		var pi int
		fmt.Sscanf(e.Path, "#%d", &pi)
		s += fmt.Sprintf("[filepath=%q]", c15Paths[pi])
	}
	return s
}

func c15Describe(evs []c15Ev) string {
	p := make([]string, len(evs))
	for i, e := range evs {
		p[i] = e.String()
	}
	return strings.Join(p, " ")
}

// dataModified: the payload bytes or the file name differ from the source.
func (e c15Ev) dataModified() bool { return e.Flip || e.FlipAt != 0 || e.Trunc != 0 || e.HdrBad }

// c15Chunk materialises the chunk of a chunk event.
func c15Chunk(bases []c15Base, e c15Ev) pb.Chunk {
	c := bases[e.S].chunks[e.I]
	c.Data = append([]byte(nil), c.Data...)
	if e.From != 0 {
		c.From = e.From
	}
	if e.Index != 0 {
		c.Index = e.Index
	}
	if e.Replica != 0 {
		c.ReplicaID = e.Replica
	}
	if e.Shard != 0 {
		c.ShardID = e.Shard
	}
	if e.BadDid {
		c.DeploymentId++
	}
	if e.BadVer {
		c.BinVer++
	}
	if e.Flip && len(c.Data) > 0 {
		pos := len(c.Data) / 2
		if c.ChunkId == 0 && !c.HasFileInfo && len(c.Data) > int(rsm.HeaderSize) {
			// first chunk of the main file: hit the payload, not the 1 KiB header
			// (header corruption is C14's subject)
			pos = int(rsm.HeaderSize) + (len(c.Data)-int(rsm.HeaderSize))/2
		}
		c.Data[pos] ^= 0x01
	}
	switch {
	case e.FlipAt == 1 && len(c.Data) > 0:
		c.Data[len(c.Data)-1] ^= 0x01
	case e.FlipAt == 2 && len(c.Data) > 0:
		pos := len(c.Data) - 12
		if pos < 0 {
			pos = 0
		}
		if c.ChunkId == 0 && !c.HasFileInfo && pos < int(rsm.HeaderSize) && len(c.Data) > int(rsm.HeaderSize) {
			pos = int(rsm.HeaderSize) // never the header (C14), the first payload byte instead
		}
		c.Data[pos] ^= 0x01
	}
	if e.HdrBad && len(c.Data) >= 8 {
		c.Data[7] = 0xFF
	}
	switch e.Trunc {
	case 1:
		c.Data = c.Data[:len(c.Data)/2]
	case 2:
		if len(c.Data) > 16 {
			c.Data = c.Data[:16]
		} else {
			c.Data = c.Data[:len(c.Data)/2]
		}
	}
	if e.Path != "" {
		var pi int
		fmt.Sscanf(e.Path, "#%d", &pi)
		c.Filepath = c15Paths[pi]
	}
	return c
}

// ---------------------------------------------------------------- reference model (follows the property statement)

type c15MKey struct{ shard, replica, index uint64 }

type c15MStream struct {
	from     uint64
	next     uint64
	lastTick uint64
	s        int // base stream of the first chunk
	first    pb.Chunk
	dirty    string // "" or why the accepted chunks are not the valid sequence
	hostile  bool   // unjudged: a chunk with a manipulated file name, or another snapshot's chunk under this key+sender, was accepted
}

type c15Final struct {
	s     int
	first pb.Chunk
}

type c15Model struct {
	bases    []c15Base
	timeout  uint64
	gcTick   uint64
	tick     uint64
	cur      map[c15MKey]*c15MStream
	final    map[c15MKey]c15Final
	either   map[c15MKey]bool   // finalization neither required nor forbidden (hostile names)
	whyNot   map[c15MKey]string // why the last completed stream of the key must not finalize
	removed  map[[2]uint64]bool
	invalid0 map[c15MKey]bool // an invalid first chunk hit a key with a stream in progress
}

func c15NewModel(bases []c15Base, timeout, gcTick uint64) *c15Model {
	return &c15Model{bases: bases, timeout: timeout, gcTick: gcTick, cur: map[c15MKey]*c15MStream{}, final: map[c15MKey]c15Final{},
		either: map[c15MKey]bool{}, whyNot: map[c15MKey]string{}, removed: map[[2]uint64]bool{}, invalid0: map[c15MKey]bool{}}
}

func c15IsMain(c pb.Chunk) bool { return !c.HasFileInfo }

// c15SameContent: c carries exactly what base chunk b carries (addressing aside).
func c15SameContent(c, b pb.Chunk) bool {
	return bytes.Equal(c.Data, b.Data) && c.ChunkId == b.ChunkId && c.ChunkCount == b.ChunkCount &&
		c.FileChunkId == b.FileChunkId && c.FileChunkCount == b.FileChunkCount && c.HasFileInfo == b.HasFileInfo &&
		c.FileInfo.FileId == b.FileInfo.FileId && c.FileInfo.FileSize == b.FileInfo.FileSize &&
		bytes.Equal(c.FileInfo.Metadata, b.FileInfo.Metadata) && c.Filepath == b.Filepath && c.FileSize == b.FileSize &&
		c.Term == b.Term && c.Witness == b.Witness && c.OnDiskIndex == b.OnDiskIndex
}

// deliver returns what the statement prescribes for this chunk:
// "ignored" | "accepted" | "invalid-first" (corrupt first chunk: ignored)
func (m *c15Model) deliver(e c15Ev, c pb.Chunk) string {
	if c.DeploymentId != c15Did || c.BinVer != raftio.TransportBinVersion {
		return "ignored"
	}
	k := c15MKey{c.ShardID, c.ReplicaID, c.Index}
	if m.removed[[2]uint64{c.ShardID, c.ReplicaID}] {
		return "ignored"
	}
	var st *c15MStream
	if c.ChunkId == 0 {
		if c15IsMain(c) && (e.HdrBad || uint64(len(c.Data)) < rsm.HeaderSize) {
			if m.cur[k] != nil {
				m.invalid0[k] = true
			}
			return "invalid-first"
		}
		st = &c15MStream{from: c.From, next: 0, s: e.S, first: c}
		m.cur[k] = st
	} else {
		st = m.cur[k]
		if st == nil || st.next != c.ChunkId || st.from != c.From {
			return "ignored"
		}
	}
	st.next = c.ChunkId + 1
	st.lastTick = m.tick
	if e.Path != "" {
		st.hostile = true
	}
	if st.dirty == "" {
		b := m.bases[st.s]
		kind := "main"
		if !c15IsMain(c) {
			kind = "external"
		}
		switch {
		case e.dataModified():
			st.dirty = "corrupt-" + kind + "-file-chunk"
		case e.Path != "":
			st.dirty = "hostile-name"
		case int(c.ChunkId) >= len(b.chunks) || !c15SameContent(c, b.chunks[c.ChunkId]):
			// a chunk of a DIFFERENT snapshot that carries the key, the sender and
			// the next id of the stream in progress: no sender produces that (one
			// sender, one (shard, replica, index), two contents); not judged
			st.dirty = "foreign-content"
			st.hostile = true
		}
	}
	if c.IsLastChunk() {
		delete(m.cur, k)
		switch {
		case st.hostile:
			m.either[k] = true
		case st.dirty != "":
			m.whyNot[k] = st.dirty
		default:
			if _, ok := m.final[k]; !ok {
				m.final[k] = c15Final{s: st.s, first: st.first}
			}
		}
	}
	return "accepted"
}

func (m *c15Model) advance(n uint64) {
	end := m.tick + n
	for t := (m.tick/m.gcTick + 1) * m.gcTick; t <= end; t += m.gcTick {
		for k, st := range m.cur {
			if t-st.lastTick >= m.timeout {
				delete(m.cur, k)
			}
		}
	}
	m.tick = end
}

// ---------------------------------------------------------------- executing one case on the real receiver

type c15Msg struct {
	batch pb.MessageBatch
}

type c15Outcome struct {
	viol  []c15Viol
	class string
}

type c15Viol struct{ key, desc string }

func c15Root(shard, replica uint64) string {
	return fmt.Sprintf("/recv/shard-%d/replica-%d", shard, replica)
}

func c15Walk(fs vfs.IFS, dir string, out *[]string) {
	names, err := fs.List(dir)
	if err != nil {
		return
	}
	sort.Strings(names)
	for _, n := range names {
		p := fs.PathJoin(dir, n)
		*out = append(*out, p)
		if st, err := fs.Stat(p); err == nil && st.IsDir() {
			c15Walk(fs, p, out)
		}
	}
}

var c15Roots = [][2]uint64{{c15Shard, c15Replica}, {c15Shard, c15OtherReplica}, {c15OtherShard, c15Replica}, {c15OtherShard, c15OtherReplica}}

func c15NoDigits(s string) string {
	out := make([]byte, 0, len(s))
	for i := 0; i < len(s) && len(out) < 48; i++ {
		if s[i] >= '0' && s[i] <= '9' {
			continue
		}
		out = append(out, s[i])
	}
	return string(out)
}

// c15Run executes the event list on a fresh receiver and judges it; a panic
// escaping the per-event guards is reported, never lost.
func c15Run(bases []c15Base, evs []c15Ev) (out c15Outcome) {
	if pmsg := verifkit.Catch(func() { out = c15Run1(bases, evs) }); pmsg != "" {
		out.viol = append(out.viol, c15Viol{"C15:unguarded-panic:" + c15NoDigits(pmsg), "panic outside Add/Tick while running the case: " + pmsg})
		out.class = "UNGUARDED-PANIC"
	}
	return out
}

func c15Run1(bases []c15Base, evs []c15Ev) c15Outcome {
	var out c15Outcome
	bad := func(key, desc string) { out.viol = append(out.viol, c15Viol{key, desc}) }
	fs := vfs.NewMemFS()
	for _, r := range c15Roots {
		c15Must(fs.MkdirAll(c15Root(r[0], r[1]), 0755))
	}
	var msgs []pb.MessageBatch
	var confirms [][3]uint64
	rc := NewChunk(func(b pb.MessageBatch) { msgs = append(msgs, b) },
		func(s, r, f uint64) { confirms = append(confirms, [3]uint64{s, r, f}) }, c15Root, c15Did, fs)
	m := c15NewModel(bases, rc.timeout, rc.gcTick)
	crashed := ""
	tainted := map[c15MKey]bool{} // keys already reported: no follow-up reports
	refused := map[c15MKey]bool{} // the receiver returned false for an in-sequence chunk of the stream in progress
	for i, e := range evs {
		switch e.K {
		case "tick":
			if pmsg := verifkit.Catch(func() {
				for j := 0; j < e.N; j++ {
					rc.Tick()
				}
			}); pmsg != "" {
				bad("C15:panic-in-gc:"+c15NoDigits(pmsg), fmt.Sprintf("event %d (%s) panics the receiver: %s", i, e, pmsg))
				crashed = "PANIC-IN-GC"
			}
			m.advance(uint64(e.N))
		case "remove":
			c15Must(fileutil.MarkDirAsDeleted(c15Root(c15Shard, c15Replica), &pb.Message{}, fs))
			m.removed[[2]uint64{c15Shard, c15Replica}] = true
		case "chunk":
			c := c15Chunk(bases, e)
			k := c15MKey{c.ShardID, c.ReplicaID, c.Index}
			cur := m.cur[k]
			// inputs whose rejection mechanism is a panic (DESIGN F6): first chunk
			// shorter than the header; manipulated file names
			tolerable := e.Path != "" || (cur != nil && cur.hostile) ||
				(c.ChunkId == 0 && c15IsMain(c) && uint64(len(c.Data)) < rsm.HeaderSize)
			if cur != nil && c.ChunkId != 0 && (int(c.ChunkId) >= len(bases[cur.s].chunks) || !c15SameContent(c, bases[cur.s].chunks[c.ChunkId])) && !e.dataModified() {
				// same key, same sender, next id, but another snapshot's chunk (see
				// deliver): file bookkeeping of the two snapshots does not match
				tolerable = true
			}
			nmsgs := len(msgs)
			_, had := m.final[k]
			verdict := m.deliver(e, c)
			_, has := m.final[k]
			var added bool
			pmsg := verifkit.Catch(func() { added = rc.Add(c) })
			if pmsg != "" {
				site := c15NoDigits(pmsg)
				if tolerable {
					// the mechanism for this malformed input is a panic: counted as
					// rejected, the process would stop here
					crashed = "rejected-by-panic:" + site
				} else if m.invalid0[k] {
					bad("C15:panic-after-invalid-first-chunk",
						fmt.Sprintf("event %d (%s, an in-order chunk of the stream in progress) panics the receiver: %s - an earlier first chunk with an invalid header was refused but had already deleted the temp directory of the stream in progress", i, e, pmsg))
					crashed = "PANIC:" + site
				} else {
					bad("C15:panic:"+site, fmt.Sprintf("event %d (%s) panics the receiver: %s", i, e, pmsg))
					crashed = "PANIC:" + site
				}
				if len(msgs) != nmsgs {
					bad("C15:notified-then-panicked", fmt.Sprintf("event %d (%s) delivered an InstallSnapshot message and panicked", i, e))
				}
				break
			}
			if verdict == "accepted" {
				if c.ChunkId == 0 {
					refused[k] = false
				}
				if !added {
					refused[k] = true
				}
			}
			realNow, modelNow := len(msgs) > nmsgs, has && !had
			if realNow && !modelNow && !m.either[k] && !tainted[k] {
				why := m.whyNot[k]
				if why == "" || verdict != "accepted" {
					why = "incomplete-or-foreign-sequence"
				} else if refused[k] {
					why += ":after-a-chunk-was-refused"
				} else {
					why += ":no-chunk-refused"
				}
				tainted[k] = true
				bad("C15:finalized-unexpectedly:"+why, fmt.Sprintf("event %d (%s) finalizes snapshot %v and delivers InstallSnapshot although the accepted chunks are not the complete valid sequence: %s", i, e, k, why))
			}
			if modelNow && !realNow && !tainted[k] && !m.either[k] {
				tainted[k] = true
				bad("C15:not-finalized", fmt.Sprintf("event %d (%s) completes the valid chunk sequence of %v but nothing was finalized (Add returned %v)", i, e, k, added))
			}
			if verdict != "accepted" && added {
				bad("C15:ignorable-chunk-accepted", fmt.Sprintf("event %d (%s) must be ignored (%s) but Add returned true", i, e, verdict))
			}
		}
		if crashed != "" {
			break
		}
	}
	if crashed == "" {
		// the timeout collector: enough ticks for every stalled stream to expire
		n := int(rc.timeout + rc.gcTick)
		if pmsg := verifkit.Catch(func() {
			for j := 0; j < n; j++ {
				rc.Tick()
			}
		}); pmsg != "" {
			bad("C15:panic-in-gc:"+c15NoDigits(pmsg), "the final timeout ticks panic the receiver: "+pmsg)
			crashed = "PANIC-IN-GC"
		}
		m.advance(uint64(n))
	}
	// ---- judge
	var all []string
	c15Walk(fs, "/", &all)
	finalDirs := map[c15MKey]string{}
	for _, p := range all {
		if !strings.HasPrefix(p, "/recv") {
			bad("C15:outside-root", "created outside the snapshot root: "+p)
			continue
		}
		var root string
		var rk [2]uint64
		for _, r := range c15Roots {
			if rp := c15Root(r[0], r[1]); p == rp || strings.HasPrefix(p, rp+"/") {
				root, rk = rp, r
			}
		}
		if root == "" || p == root {
			if p != "/recv" && !strings.HasPrefix(p, "/recv/shard-") {
				bad("C15:outside-root", "created outside the snapshot roots: "+p)
			}
			continue
		}
		rel := strings.TrimPrefix(p, root+"/")
		parts := strings.Split(rel, "/")
		switch {
		case len(parts) == 1 && parts[0] == "DELETED.dragonboat":
		case server.SnapshotDirNameRe.MatchString(parts[0]):
			if len(parts) == 1 {
				var idx uint64
				fmt.Sscanf(parts[0], "snapshot-%X", &idx)
				finalDirs[c15MKey{rk[0], rk[1], idx}] = p
			} else if len(parts) > 2 {
				bad("C15:outside-root", "nested path inside a final snapshot directory: "+p)
			}
		case server.RecvSnapshotDirNameRe.MatchString(parts[0]):
			if crashed == "" && len(parts) == 1 {
				bad("C15:temp-dir-left", "temporary directory still there after the timeout ticks: "+p)
			}
		default:
			bad("C15:outside-root", "unexpected entry in the snapshot root (not a temp or final snapshot directory): "+p)
		}
	}
	nfinal := 0
	for k, dir := range finalDirs {
		if tainted[k] {
			continue
		}
		exp, ok := m.final[k]
		if m.either[k] {
			// a stream with a manipulated file name completed for this key: what
			// is finalized is not judged, only that nothing left the root
			out.class = "unjudged-stream-finalized(inside-root)"
			continue
		}
		if !ok {
			why := m.whyNot[k]
			if why == "" {
				why = "incomplete-or-foreign-sequence"
			}
			bad("C15:finalized-unexpectedly:"+why, fmt.Sprintf("snapshot %v was finalized (%s) although the accepted chunks are not the complete valid sequence: %s", k, dir, why))
			continue
		}
		nfinal++
		b := bases[exp.s]
		// files byte-identical to the source, nothing else but the flag file
		names, _ := fs.List(dir)
		sort.Strings(names)
		want := []string{fileutil.SnapshotFlagFilename}
		for n := range b.files {
			want = append(want, n)
		}
		sort.Strings(want)
		if strings.Join(names, ",") != strings.Join(want, ",") {
			bad("C15:files-differ", fmt.Sprintf("final directory %s contains %v, source has %v", dir, names, want))
		} else {
			for n, src := range b.files {
				if got := c15ReadFile(fs, fs.PathJoin(dir, n)); !bytes.Equal(got, src) {
					bad("C15:files-differ", fmt.Sprintf("file %s/%s differs from the source (%d vs %d bytes)", dir, n, len(got), len(src)))
				}
			}
		}
		// exactly one InstallSnapshot message describing it
		cnt := 0
		for _, mb := range msgs {
			if len(mb.Requests) != 1 {
				bad("C15:message-mismatch", "message batch without exactly one request")
				continue
			}
			r := mb.Requests[0]
			if r.ShardID != k.shard || r.To != k.replica || r.Snapshot.Index != k.index {
				continue
			}
			cnt++
			f := exp.first
			ok := r.Type == pb.InstallSnapshot && r.From == f.From && r.Snapshot.Term == f.Term &&
				r.Snapshot.Filepath == fs.PathJoin(dir, b.mainName) && r.Snapshot.FileSize == f.FileSize &&
				r.Snapshot.Witness == f.Witness && mb.DeploymentId == c15Did && mb.BinVer == raftio.TransportBinVersion
			var ext []pb.Chunk
			for _, c := range b.chunks {
				if c.HasFileInfo && c.FileChunkId == 0 {
					ext = append(ext, c)
				}
			}
			if len(ext) != len(r.Snapshot.Files) {
				ok = false
			} else {
				for i, sf := range r.Snapshot.Files {
					e := ext[i].FileInfo
					if sf.FileId != e.FileId || sf.FileSize != e.FileSize || !bytes.Equal(sf.Metadata, e.Metadata) ||
						sf.Filepath != fs.PathJoin(dir, e.Filename()) || uint64(len(b.files[e.Filename()])) != sf.FileSize {
						ok = false
					}
				}
			}
			if !ok {
				bad("C15:message-mismatch", fmt.Sprintf("InstallSnapshot message does not describe the finalized snapshot %v: %+v", k, r))
			}
		}
		if cnt != 1 {
			bad("C15:message-count", fmt.Sprintf("finalized snapshot %v has %d InstallSnapshot messages, want exactly 1", k, cnt))
		}
	}
	if len(confirms) != len(msgs) {
		bad("C15:message-count", fmt.Sprintf("%d InstallSnapshot messages but %d confirmations", len(msgs), len(confirms)))
	}
	for i := range confirms {
		if r := msgs[i].Requests[0]; confirms[i] != [3]uint64{r.ShardID, r.To, r.From} {
			bad("C15:message-mismatch", fmt.Sprintf("confirmation %v does not match message %d", confirms[i], i))
		}
	}
	for k := range m.final {
		if _, ok := finalDirs[k]; !ok {
			if crashed != "" || tainted[k] || m.either[k] {
				continue // reported as a panic already, or rejected by panic before it could complete
			}
			bad("C15:not-finalized", fmt.Sprintf("the accepted chunks of %v are the complete valid sequence but no finalized snapshot directory exists", k))
		}
	}
	if len(msgs) != nfinal {
		for _, mb := range msgs {
			for _, r := range mb.Requests {
				k := c15MKey{r.ShardID, r.To, r.Snapshot.Index}
				if _, ok := m.final[k]; !ok && !m.either[k] && !tainted[k] {
					bad("C15:message-without-snapshot", fmt.Sprintf("InstallSnapshot message for %v which must not finalize", k))
				}
			}
		}
	}
	if out.class == "" {
		switch {
		case crashed != "":
			out.class = crashed
		case nfinal > 0:
			out.class = fmt.Sprintf("finalized:%d", nfinal)
		default:
			out.class = "not-finalized:clean"
		}
	} else if crashed != "" {
		out.class = crashed
	}
	return out
}

// ---------------------------------------------------------------- perturbations

// hostile file names (names that ARE a directory, like ".." or "", only provoke a MemFS
// artefact - Create over a directory - and are left out, see NOTES.md)
var c15Paths = []string{"../../../../c15-escape", "/c15-abs/escape", "a/../../c15-b"}

// c15Perturb returns every list obtained from evs by ONE perturbation.
func c15Perturb(bases []c15Base, evs []c15Ev, tShort, tLong int) [][]c15Ev {
	var out [][]c15Ev
	cp := func() []c15Ev { return append([]c15Ev(nil), evs...) }
	ins := func(pos int, e ...c15Ev) []c15Ev {
		n := append([]c15Ev(nil), evs[:pos]...)
		n = append(n, e...)
		return append(n, evs[pos:]...)
	}
	for i, e := range evs {
		// structural
		out = append(out, append(cp()[:i], evs[i+1:]...)) // drop i
		out = append(out, ins(i+1, e))                    // duplicate i
		if i+1 < len(evs) {
			n := cp()
			n[i], n[i+1] = n[i+1], n[i]
			out = append(out, n) // swap i/i+1
		}
		// control events placed after i
		out = append(out, ins(i+1, c15Ev{K: "tick", N: tShort}))
		out = append(out, ins(i+1, c15Ev{K: "tick", N: tLong}))
		out = append(out, ins(i+1, c15Ev{K: "remove"}))
		if e.K != "chunk" {
			continue
		}
		// the sender starts over from chunk 0 after i
		var again []c15Ev
		for j := range bases[e.S].chunks {
			again = append(again, c15Ev{K: "chunk", S: e.S, I: j, From: e.From, Index: e.Index, Replica: e.Replica, Shard: e.Shard})
		}
		out = append(out, ins(i+1, again...))
		// foreign chunks placed before i: same chunk id from a second sender /
		// for a second index / for another replica
		if e.From == 0 {
			f := e
			f.From = c15OtherFrom
			out = append(out, ins(i, f))
		}
		if e.Index == 0 {
			f := e
			f.Index = c15OtherIndex
			out = append(out, ins(i, f))
		}
		if e.Replica == 0 {
			f := e
			f.Replica = c15OtherReplica
			out = append(out, ins(i, f))
		}
		// in place corruptions of chunk i
		mod := func(f func(*c15Ev)) {
			n := cp()
			f(&n[i])
			if n[i] != evs[i] {
				out = append(out, n)
			}
		}
		mod(func(x *c15Ev) { x.BadDid = true })
		mod(func(x *c15Ev) { x.BadVer = true })
		base := bases[e.S].chunks[e.I]
		if len(base.Data) > 0 && e.Trunc == 0 {
			// (at most one byte flip per chunk: two flips could cancel each other)
			if e.FlipAt == 0 {
				mod(func(x *c15Ev) { x.Flip = true })
			}
			if e.FlipAt == 0 && !e.Flip {
				mod(func(x *c15Ev) { x.FlipAt = 1 })
				mod(func(x *c15Ev) { x.FlipAt = 2 })
			}
			mod(func(x *c15Ev) { x.Trunc = 1 })
			mod(func(x *c15Ev) { x.Trunc = 2 })
		}
		if base.ChunkId == 0 && !base.HasFileInfo && e.Trunc == 0 {
			mod(func(x *c15Ev) { x.HdrBad = true })
		}
		if e.Path == "" {
			for pi := range c15Paths {
				pi := pi
				n := cp()
				n[i].Path = c15PathName(pi)
				out = append(out, n)
			}
		}
	}
	return out
}

// hostile names are stored by id so that the empty name is representable
func c15PathName(i int) string { return fmt.Sprintf("#%d", i) }

func c15BaseEvents(s int, b c15Base) []c15Ev {
	var evs []c15Ev
	for i := range b.chunks {
		evs = append(evs, c15Ev{K: "chunk", S: s, I: i})
	}
	return evs
}

// ---------------------------------------------------------------- the two parts

type c15Replay struct {
	Events []c15Ev `json:"events"`
}

func c15Setup(t *testing.T) (*verifkit.Run, *verifkit.Result, []c15Base) {
	for _, n := range []string{"rsm", "raftpb", "transport", "server", "fileutil", "settings", "utils", "dio"} {
		logger.GetLogger(n).SetLevel(logger.CRITICAL)
	}
	if rsm.ChunkSize != c15B {
		t.Fatalf("harness error: rsm.ChunkSize is %d, the scaled overlay of settings/hard.go (2048) is not in effect", rsm.ChunkSize)
	}
	snapshotChunkSize = c15B
	run := verifkit.Env()
	res := verifkit.NewResult()
	res.MaxViolations = 40
	res.Assumptions = []string{
		"settings.SnapshotChunkSize (rsm block size, streaming chunk size, transport.snapshotChunkSize) scaled 2 MiB -> 2 KiB by a generated overlay of internal/settings/hard.go, so that snapshots have 1-5 chunks and 2-4 checksum blocks",
		"receiver on a fresh strict MemFS per case; chunks reach Chunk.Add one at a time (the per-snapshot lock serialises concurrent Adds of one key in the real transport)",
		"timeouts are the real soft settings (gc every 30 ticks, chunk timeout 900 ticks), tick perturbations are 30 (no expiry) and 930 ticks (expiry), part pacing places 0..930 ticks between all consecutive chunks; after every case 930 more ticks are applied before the directories are inspected",
		"a panic of the receiver on a malformed chunk (first chunk shorter than the header, manipulated file name) counts as rejected and ends the case; such outcomes are listed separately as rejected-by-panic classes",
		"corruptions of the snapshot header itself are C14's subject; byte flips here hit payload bytes",
	}
	bases := c15Bases()
	if run.Replay == "" && run.Shard == 0 {
		// the unperturbed streams are cases too (delivered in order => finalized)
		for i, b := range bases {
			evs := c15BaseEvents(i, b)
			o := c15Run(bases, evs)
			res.Evaluations++
			res.Outcome("base:" + o.class)
			c15Report(res, bases, evs, o)
			if !strings.HasPrefix(o.class, "finalized:1") {
				res.Violate("C15:base-stream-not-finalized", fmt.Sprintf("the unperturbed stream %s (%s) delivered in order does not produce a finalized snapshot: %s %+v", b.name, c15Describe(evs), o.class, o.viol), c15Replay{Events: evs})
			}
		}
	}
	return run, res, bases
}

func c15Report(res *verifkit.Result, bases []c15Base, evs []c15Ev, o c15Outcome) bool {
	stop := false
	for _, v := range o.viol {
		names := []string{}
		seen := map[int]bool{}
		for _, e := range evs {
			if e.K == "chunk" && !seen[e.S] {
				seen[e.S] = true
				names = append(names, fmt.Sprintf("s%d=%s(%d chunks)", e.S, bases[e.S].name, len(bases[e.S].chunks)))
			}
		}
		if res.Violate(v.key, fmt.Sprintf("[%s] delivered: %s => %s", strings.Join(names, ","), c15Describe(evs), v.desc), c15Replay{Events: evs}) {
			stop = true
		}
	}
	return stop
}

func c15DoReplay(run *verifkit.Run, res *verifkit.Result, bases []c15Base) {
	var rp c15Replay
	run.LoadReplay(&rp)
	o := c15Run(bases, rp.Events)
	res.Evaluations++
	c15Report(res, bases, rp.Events, o)
}

// TestVerifC15Perturb: base streams x all perturbation sequences of length <= D.
func TestVerifC15Perturb(t *testing.T) {
	run, res, bases := c15Setup(t)
	defer run.Finish(res)
	depth := run.Pick(2, 3)
	depthFor := func(s int) int {
		if s == 0 {
			return 3 // the multi-block main file: always 3
		}
		return depth
	}
	res.Rule = fmt.Sprintf("perturb: 5 base streams (4-chunk main file; 2+1+2 chunks with two external files; snappy 3+1 chunks; 5-chunk ChunkWriter stream; 1-chunk witness) x ALL sequences of <= %d perturbations (<= 3 for the 4-chunk main file stream in both tiers), each applied at every position of the current event list, from {drop, duplicate, swap with next, restart from chunk 0, same chunk id from a second sender / for a second index / for another replica placed before, wrong deployment id, wrong bin version, byte flip, cut to half, cut to 16 bytes, corrupt header length (first chunk), 4 hostile file names, gc tick x30 / x930 placed after, replica-removed marker placed after}; deduplicated by resulting event list; evaluation = one event list executed on a fresh real Chunk and judged; distinct_nontrivial = distinct event lists differing from the base stream", depth)
	if run.Replay != "" {
		c15DoReplay(run, res, bases)
		return
	}
	tShort, tLong := int(gcIntervalTick), int(snapshotChunkTimeoutTick+gcIntervalTick)
	seen := verifkit.NewSet64()
	exec := func(evs []c15Ev) bool {
		h := verifkit.Hash64(c15Key(evs))
		if !run.Mine(h) || !seen.Add(h) {
			return false
		}
		o := c15Run(bases, evs)
		res.Evaluations++
		res.DistinctNontrivial++
		res.Outcome(o.class)
		if len(res.Samples) < 3 && len(evs) > 4 && o.class != "not-finalized:clean" {
			res.Sample(3, c15Describe(evs)+" => "+o.class)
		}
		return c15Report(res, bases, evs, o)
	}
	for s, b := range bases {
		frontier := [][]c15Ev{c15BaseEvents(s, b)}
		level := verifkit.NewSet64()
		depth := depthFor(s)
		for d := 1; d <= depth; d++ {
			var next [][]c15Ev
			for _, l := range frontier {
				if run.Expired() {
					res.Cap("deadline")
					return
				}
				for _, n := range c15Perturb(bases, l, tShort, tLong) {
					if len(n) == 0 {
						continue
					}
					if d < depth {
						if level.Add(verifkit.Hash64(c15Key(n))) {
							next = append(next, n)
						}
					}
					if exec(n) {
						return
					}
				}
			}
			frontier = next
		}
		_ = s
	}
}

// TestVerifC15Concurrent: every merge order of two complete streams, for
// different snapshots (other index / replica / shard), and for the same
// snapshot from a second sender / sent twice; plus every single perturbation
// of stream A in every merge order (B must be unaffected).
func TestVerifC15Concurrent(t *testing.T) {
	run, res, bases := c15Setup(t)
	defer run.Finish(res)
	res.Rule = "concurrent: pairs of streams (A from {main4, main2+ext1+ext2, stream5}, B = one of those re-addressed to another index / another replica / another shard / the same snapshot from a second sender / the same snapshot from the same sender) x ALL merge orders of the two chunk sequences x (no perturbation, or every single perturbation of A's events, thorough: of either); evaluation = one merged event list executed and judged; distinct_nontrivial = distinct merged lists"
	if run.Replay != "" {
		c15DoReplay(run, res, bases)
		return
	}
	tShort, tLong := int(gcIntervalTick), int(snapshotChunkTimeoutTick+gcIntervalTick)
	seen := verifkit.NewSet64()
	exec := func(evs []c15Ev) bool {
		h := verifkit.Hash64(c15Key(evs))
		if !run.Mine(h) || !seen.Add(h) {
			return false
		}
		o := c15Run(bases, evs)
		res.Evaluations++
		res.DistinctNontrivial++
		res.Outcome(o.class)
		if len(res.Samples) < 3 && o.class == "finalized:2" {
			res.Sample(3, c15Describe(evs)+" => "+o.class)
		}
		return c15Report(res, bases, evs, o)
	}
	type rel struct {
		name string
		f    func(*c15Ev)
	}
	rels := []rel{
		{"other-index", func(e *c15Ev) { e.Index = c15OtherIndex }},
		{"other-replica", func(e *c15Ev) { e.Replica = c15OtherReplica }},
		{"other-shard", func(e *c15Ev) { e.Shard = c15OtherShard }},
		{"same-snapshot-second-sender", func(e *c15Ev) { e.From = c15OtherFrom }},
		{"same-snapshot-same-sender", func(e *c15Ev) {}},
	}
	pick := []int{0, 1, 3}
	for _, sa := range pick {
		for _, sb := range pick {
			for _, r := range rels {
				if r.name == "same-snapshot-same-sender" && sa != sb {
					// two different snapshots can not share (shard, replica, index, sender)
					continue
				}
				a := c15BaseEvents(sa, bases[sa])
				b := c15BaseEvents(sb, bases[sb])
				for i := range b {
					r.f(&b[i])
				}
				stop := false
				c15Merges(a, b, func(m []c15Ev) bool {
					if run.Expired() {
						res.Cap("deadline")
						return true
					}
					if exec(m) {
						stop = true
						return true
					}
					if sa == 0 && sb == 0 || run.Thorough() {
						// single perturbations of the merged list
						for _, n := range c15Perturb(bases, m, tShort, tLong) {
							if exec(n) {
								stop = true
								return true
							}
						}
					}
					return false
				})
				if stop {
					return
				}
			}
		}
	}
}

// TestVerifC15Pacing: placement of the clock ticks BETWEEN the chunks of a
// healthy stream. Every base stream is delivered in order and complete with g_i
// ticks between chunk i-1 and chunk i, for ALL assignments of the gaps from a
// set built around the real gc interval G and chunk timeout T (read from the
// package: gcIntervalTick, snapshotChunkTimeoutTick), and for several clock
// phases (ticks before chunk 0). The collector measures IDLE time: a stream
// whose every gap is < T must finalize however long the whole transfer takes
// (sum of gaps >= T included); gaps >= T are judged by the reference model
// (expiry at the first gc pass that finds the stream idle for >= T ticks).
func TestVerifC15Pacing(t *testing.T) {
	run, res, bases := c15Setup(t)
	defer run.Finish(res)
	T, G := int(snapshotChunkTimeoutTick), int(gcIntervalTick)
	if G < 3 || T < 4*G {
		t.Fatalf("harness error: gc interval %d / chunk timeout %d ticks: the gap set was designed for timeout >= 4 * interval", G, T)
	}
	gaps := []int{0, 1, G, T / 2, T - G, T - 1, T, T + G}
	if run.Thorough() {
		gaps = append(gaps, G-1, G+1, T/3, T-G-1, T+1, T+G-1)
	}
	phases := []int{0, 1, G - 1}
	res.Rule = fmt.Sprintf("pacing: every base stream with >= 2 chunks delivered in order and complete, with g_i clock ticks between consecutive chunks for ALL assignments g in %v^(chunks-1) (gc interval %d, chunk timeout %d ticks, both read from the package) x clock phase (ticks before chunk 0) in %v; every stream whose gaps are all < timeout must finalize whatever the total (classes live-slow = total >= timeout, live-fast), streams with a gap >= timeout are judged by the model's idle-time collector; evaluation = one paced stream executed on a fresh real Chunk; distinct_nontrivial = distinct event lists with at least one tick between two chunks", gaps, G, T, phases)
	if run.Replay != "" {
		c15DoReplay(run, res, bases)
		return
	}
	seen := verifkit.NewSet64()
	for s, b := range bases {
		n := len(b.chunks)
		if n < 2 {
			continue
		}
		idx := make([]int, n-1)
		for {
			for _, ph := range phases {
				var evs []c15Ev
				if ph > 0 {
					evs = append(evs, c15Ev{K: "tick", N: ph})
				}
				total, maxgap := 0, 0
				for i := 0; i < n; i++ {
					if i > 0 {
						g := gaps[idx[i-1]]
						total += g
						if g > maxgap {
							maxgap = g
						}
						if g > 0 {
							evs = append(evs, c15Ev{K: "tick", N: g})
						}
					}
					evs = append(evs, c15Ev{K: "chunk", S: s, I: i})
				}
				h := verifkit.Hash64(c15Key(evs))
				if !run.Mine(h) || !seen.Add(h) {
					continue
				}
				if run.Expired() {
					res.Cap("deadline")
					return
				}
				o := c15Run(bases, evs)
				res.Evaluations++
				if total > 0 {
					res.DistinctNontrivial++
				}
				cls := "stalled(a gap >= timeout)"
				switch {
				case maxgap < T && total >= T:
					cls = "live-slow(every gap < timeout, total >= timeout)"
				case maxgap < T:
					cls = "live-fast(total < timeout)"
				}
				res.Outcome(cls + ":" + o.class)
				if cls[0] == 'l' && total >= T && len(res.Samples) < 3 {
					res.Sample(3, c15Describe(evs)+" => "+o.class)
				}
				stop := c15Report(res, bases, evs, o)
				if maxgap < T && o.class != "finalized:1" {
					// independent of the model: idle time never reached the timeout
					if res.Violate("C15:not-finalized", fmt.Sprintf("[s%d=%s(%d chunks)] delivered: %s => a healthy in-order complete stream whose chunks are never more than %d ticks apart (timeout %d, total %d ticks) was not finalized: %s",
						s, b.name, n, c15Describe(evs), maxgap, T, total, o.class), c15Replay{Events: evs}) {
						stop = true
					}
				}
				if stop {
					return
				}
			}
			// next gap assignment
			i := 0
			for ; i < len(idx); i++ {
				idx[i]++
				if idx[i] < len(gaps) {
					break
				}
				idx[i] = 0
			}
			if i == len(idx) {
				break
			}
		}
	}
}

// c15Merges enumerates all interleavings of a and b preserving both orders.
func c15Merges(a, b []c15Ev, f func([]c15Ev) bool) bool {
	var rec func(i, j int, acc []c15Ev) bool
	rec = func(i, j int, acc []c15Ev) bool {
		if i == len(a) && j == len(b) {
			return f(append([]c15Ev(nil), acc...))
		}
		if i < len(a) {
			if rec(i+1, j, append(acc, a[i])) {
				return true
			}
		}
		if j < len(b) {
			if rec(i, j+1, append(acc, b[j])) {
				return true
			}
		}
		return false
	}
	return rec(0, 0, nil)
}
