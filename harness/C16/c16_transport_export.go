//go:build verif

// Read-only access for check C16 (overlaid into internal/transport at check
// time, never present in /repo): the chunks a leader would send for an
// InstallSnapshot message, for the real receiving side (Chunk.Add).
package transport

import (
	"github.com/lni/dragonboat/v4/internal/vfs"
	pb "github.com/lni/dragonboat/v4/raftpb"
)

// VerifSplitSnapshotMessage: what a sender puts on the wire for a regular
// snapshot, obtained from the real Transport.SendSnapshot (shim
// transport_send_export.go) - no private sender function is named here.
func VerifSplitSnapshotMessage(m pb.Message, did uint64, fs vfs.IFS) ([]pb.Chunk, error) {
	return VerifSendSnapshot(m, did, fs)
}

// VerifSetSnapshotChunkSize changes the sender side chunk size (a package
// variable) and returns the previous value.
func VerifSetSnapshotChunkSize(sz uint64) uint64 {
	old := snapshotChunkSize
	snapshotChunkSize = sz
	return old
}
