//go:build verif

// Read-only access for check C16 (overlaid into internal/transport at check
// time, never present in /repo): the REAL sender side split of an
// InstallSnapshot message into chunks, so that the chunks fed to the real
// receiving side (Chunk.Add) are exactly those a leader would send.
package transport

import (
	"github.com/lni/dragonboat/v4/internal/vfs"
	pb "github.com/lni/dragonboat/v4/raftpb"
)

// VerifSplitSnapshotMessage is splitSnapshotMessage + loadChunkData, i.e. what
// job.sendSnapshot/sendChunks put on the wire for a regular snapshot.
func VerifSplitSnapshotMessage(m pb.Message, did uint64, fs vfs.IFS) ([]pb.Chunk, error) {
	chunks, err := splitSnapshotMessage(m, fs)
	if err != nil {
		return nil, err
	}
	out := make([]pb.Chunk, 0, len(chunks))
	for _, c := range chunks {
		c.DeploymentId = did
		if !c.Witness {
			data, err := loadChunkData(c, nil, fs)
			if err != nil {
				return nil, err
			}
			c.Data = data
		}
		out = append(out, c)
	}
	return out, nil
}

// VerifSetSnapshotChunkSize changes the sender side chunk size (a package
// variable) and returns the previous value.
func VerifSetSnapshotChunkSize(sz uint64) uint64 {
	old := snapshotChunkSize
	snapshotChunkSize = sz
	return old
}
