//go:build verif

// Check C16: workloads, crash-image oracle, crash / error drivers, replay.
package dragonboat

import (
	"encoding/json"
	"fmt"
	"os"
	"runtime"
	"sort"
	"strconv"
	"strings"
	"sync"
	"sync/atomic"

	"github.com/lni/dragonboat/v4/internal/rsm"
	"github.com/lni/dragonboat/v4/internal/server"
	"github.com/lni/dragonboat/v4/internal/verifkit"
	"github.com/lni/dragonboat/v4/internal/verifkit/journalfs"
	"github.com/lni/dragonboat/v4/internal/verifkit/memlogdb"
	"github.com/lni/dragonboat/v4/internal/vfs"
	"github.com/lni/dragonboat/v4/logger"
	"github.com/lni/dragonboat/v4/tools"
)

func c16SetLevel(n string) { logger.GetLogger(n).SetLevel(logger.CRITICAL) }

// c16Logger is a silent logger: Panicf panics with the message (as the
// default logger does) without printing it; thousands of expected panics
// (crash images that must not start, injected faults) would flood stderr.
type c16Logger struct{}

func (c16Logger) SetLevel(logger.LogLevel)          {}
func (c16Logger) Debugf(string, ...interface{})     {}
func (c16Logger) Infof(string, ...interface{})      {}
func (c16Logger) Warningf(string, ...interface{})   {}
func (c16Logger) Errorf(string, ...interface{})     {}
func (c16Logger) Panicf(f string, a ...interface{}) { panic(fmt.Sprintf(f, a...)) }

func init() {
	logger.SetLoggerFactory(func(string) logger.ILogger { return c16Logger{} })
}

const (
	c16SnapDir = "/c16/snap"
	c16SMDir   = "/c16/sm"
)

// c16Cfg selects one workload run (everything needed to re-run it).
type c16Cfg struct {
	WL   string `json:"wl"`   // save | recv | race | import
	Kind string `json:"kind"` // regular | ondisk
	X    uint64 `json:"x,omitempty"`
	K1   int    `json:"k1,omitempty"` // race: receive block A (chunks + finalize) runs before own FS op K1 of the save
	K2   int    `json:"k2,omitempty"` // race: block B (the step that records the snapshot) before own FS op K2
}

func (c c16Cfg) name() string {
	s := c.WL + "/" + c.Kind
	if c.WL == "race" {
		s += fmt.Sprintf("/x=%d/k1=%d/k2=%d", c.X, c.K1, c.K2)
	}
	return s
}

// family is the stable part of a violation key.
func (c c16Cfg) family() string {
	s := c.WL + "/" + c.Kind
	if c.WL == "race" {
		switch {
		case c.X > 8:
			s += "/newer"
		case c.X == 8:
			s += "/same-index"
		default:
			s += "/older"
		}
	}
	return s
}

// c16Run is one journaled, fault free (or single fault) run of a workload.
type c16Run struct {
	cfg   c16Cfg
	jfs   *journalfs.FS
	hook  *c16HookFS
	log   *c16Log
	rep   *c16Rep
	from  int
	L     uint64 // the leader's last index
	saveK int    // number of own FS operations of the hooked save
	valid bool   // race: the requested insertion points exist and are legal
	why   string
	// error mode
	stage     string
	baseMut   int    // mutating FS operations before the enumeration starts
	afterBoot func() // called once the first boot is done
}

func (w *c16Run) booted() {
	w.from = w.jfs.Len()
	w.baseMut = w.jfs.Mutations()
	if w.afterBoot != nil {
		w.afterBoot()
	}
}

type c16Abort struct{ why string }

func c16NewRun(cfg c16Cfg) *c16Run {
	w := &c16Run{cfg: cfg, jfs: journalfs.New(), valid: true}
	w.hook = &c16HookFS{IFS: w.jfs}
	w.log = &c16Log{mark: func(l string) { w.jfs.Mark(l) }}
	return w
}

func (w *c16Run) ev(name string) {
	w.stage = name
	w.jfs.Mark("ev:" + name)
}

func (w *c16Run) mkdirs() {
	for _, d := range []string{"/c16", c16SnapDir, c16SMDir} {
		if err := w.jfs.MkdirAll(d, 0755); err != nil {
			panic(err)
		}
	}
	for _, d := range []string{"/", "/c16"} {
		f, err := w.jfs.OpenDir(d)
		if err != nil {
			panic(err)
		}
		if err := f.Sync(); err != nil {
			panic(err)
		}
		_ = f.Close()
	}
}

func (w *c16Run) boot() {
	w.mkdirs()
	db := &c16DB{DB: memlogdb.New(), log: w.log}
	w.rep = c16BootSettled(c16Self, w.cfg.Kind, w.hook, db, c16SnapDir, c16SMDir, func(l string) { w.jfs.Mark(l) })
	w.booted()
}

func (w *c16Run) feed(hi, commit uint64) {
	w.ev("feed")
	w.rep.feed(hi, commit)
	if hi > w.L {
		w.L = hi
	}
}

func (w *c16Run) save(n int) {
	w.ev(fmt.Sprintf("save#%d", n))
	w.rep.requestSnapshot(SnapshotOption{})
	if len(w.rep.pendingSS) != 0 {
		panic("c16: snapshot request still pending after settle")
	}
}

// blockA: the transport delivers all chunks of the snapshot at x; the last
// one finalizes the directory and queues the InstallSnapshot message.
func (w *c16Run) blockA(x uint64) {
	w.ev("receive-chunks")
	chunks := c16Chunks(w.cfg.Kind, x)
	for i, c := range chunks {
		if i == len(chunks)-1 {
			w.ev("receive-finalize")
		}
		c.Data = append([]byte(nil), c.Data...)
		// a false return is a snapshot the receiving side drops (e.g. out of date)
		w.rep.chunks.Add(c)
	}
}

// blockB: the step worker handles the InstallSnapshot message (processSteps:
// SaveRaftState -> onSnapshotSaved -> applySnapshotAndUpdate ...).
func (w *c16Run) blockB() {
	w.ev("install-step")
	w.rep.stepWorker()
}

// run executes the workload. It returns normally also for an invalid
// schedule (w.valid == false).
func (w *c16Run) run() {
	defer func() {
		if r := recover(); r != nil {
			if a, ok := r.(c16Abort); ok {
				w.valid, w.why = false, a.why
				return
			}
			panic(r)
		}
	}()
	switch w.cfg.WL {
	case "save":
		w.boot()
		w.feed(8, 8)
		w.save(1)
		w.feed(12, 12)
		w.save(2)
		w.feed(13, 13)
		w.save(3)
		w.feed(15, 14)
	case "recv":
		w.boot()
		w.feed(6, 6)
		w.save(1)
		w.blockA(20)
		w.ev("install")
		w.rep.settle()
		w.L = 20
		w.feed(23, 23)
		w.save(2)
		w.feed(24, 24)
	case "race":
		w.boot()
		w.feed(8, 8)
		w.raceSave()
		hi := uint64(8)
		if w.cfg.X > hi {
			hi = w.cfg.X
			w.L = hi
		}
		w.feed(hi+3, hi+3)
		w.save(2)
		w.feed(hi+4, hi+4)
	case "import":
		w.runImport()
	default:
		panic("c16: unknown workload " + w.cfg.WL)
	}
	w.ev("end")
}

// raceSave runs local save#1 with the receive blocks inserted at (K1, K2).
func (w *c16Run) raceSave() {
	doneA, doneB := false, false
	legal := func(needFinalize bool) {
		// the real locks exclude these interleavings: the save is inside
		// SSEnv.FinalizeSnapshot (server.finalizeLock) resp. holds the LogReader lock
		if needFinalize && server.VerifFinalizeLocked() {
			panic(c16Abort{"inside FinalizeSnapshot (finalizeLock held)"})
		}
		if !w.rep.node.logReader.TryLock() {
			panic(c16Abort{"LogReader lock held"})
		}
		w.rep.node.logReader.Unlock()
		if !w.rep.node.raftMu.TryLock() {
			panic(c16Abort{"raftMu held"})
		}
		w.rep.node.raftMu.Unlock()
	}
	a := func() {
		if !doneA {
			legal(true)
			doneA = true
			w.blockA(w.cfg.X)
			w.ev("save#1-resumed")
		}
	}
	b := func() {
		if !doneB {
			legal(false)
			doneB = true
			w.blockB()
			w.ev("save#1-resumed")
		}
	}
	at := map[int]func(){}
	if w.cfg.K1 == w.cfg.K2 {
		at[w.cfg.K1] = func() { a(); b() }
	} else {
		at[w.cfg.K1] = a
		at[w.cfg.K2] = b
	}
	w.rep.beforeSave = func() { w.hook.arm(at) }
	w.rep.afterSave = func() {
		w.hook.disarm()
		w.saveK = w.hook.n
		if w.cfg.K1 > w.saveK || w.cfg.K2 > w.saveK {
			panic(c16Abort{"insertion point beyond the end of the save"})
		}
		// position K = right after the save job
		if !doneA {
			doneA = true
			w.blockA(w.cfg.X)
		}
		if !doneB {
			doneB = true
			w.blockB()
		}
		w.ev("after-race")
	}
	w.save(1)
	w.rep.beforeSave, w.rep.afterSave = nil, nil
	if !doneA || !doneB {
		panic("c16: save job did not run")
	}
}

// ------------------------------------------------------------ crash images and the oracle

// c16Case is one crash image (depth 1, or depth 2 = crash during the start-up
// that followed a crash).
type c16Case struct {
	Cfg  c16Cfg
	J    *journalfs.Journal
	P    int
	Im   journalfs.Image
	Ops  []json.RawMessage // log store operations recorded by the whole run (or at least the first DBN)
	L    uint64
	J2   *journalfs.Journal
	P2   int
	Im2  journalfs.Image
	meta *c16Meta
}

// c16Meta is what the journal marks of the prefix say.
type c16Meta struct {
	DBN       int    // log store operations done
	Phase     string // innermost phase in flight
	AckSnap   uint64 // highest snapshot index acknowledged to the user
	AckMatch  uint64 // highest index acknowledged to the leader
	AckImport uint64
	Acks      int
}

func c16MetaOf(j *journalfs.Journal, p int) *c16Meta {
	m := &c16Meta{Phase: "boot"}
	for i := 0; i < p && i < len(j.Ops); i++ {
		o := j.Ops[i]
		if o.Kind != journalfs.KMark {
			continue
		}
		switch {
		case strings.HasPrefix(o.Label, "db:"):
			m.DBN++
		case strings.HasPrefix(o.Label, "ev:"):
			m.Phase = o.Label[3:]
		case strings.HasPrefix(o.Label, "ack:"):
			m.Acks++
			parts := strings.Split(o.Label, ":")
			v, _ := strconv.ParseUint(parts[2], 10, 64)
			switch parts[1] {
			case "snap":
				if v > m.AckSnap {
					m.AckSnap = v
				}
			case "match":
				if v > m.AckMatch {
					m.AckMatch = v
				}
			case "import":
				m.AckImport = v
			}
		}
	}
	return m
}

type c16Prob struct {
	Clause string
	Detail string
}

// c16Recovered describes what came back.
type c16Recovered struct {
	Recorded uint64
	Dirs     []string
	Applied  uint64
	Last     uint64
}

func (r c16Recovered) String() string {
	return fmt.Sprintf("recorded=%d applied=%d log-last=%d dirs=%v", r.Recorded, r.Applied, r.Last, r.Dirs)
}

// c16Startup runs the start-up path on an image and checks the property.
// With rec != nil the FS operations of the start-up are journaled there.
func c16Startup(cfg c16Cfg, mem *vfs.MemFS, db *memlogdb.DB, meta *c16Meta, L uint64, record bool, retry func() string) (got c16Recovered, prob *c16Prob, recj *journalfs.Journal, recEnd int) {
	jfs := journalfs.NewOn(mem) // sorted List, and the recovery journal for depth 2
	snapdir, smdir := c16SnapDir, c16SMDir
	if cfg.WL == "import" {
		snapdir, smdir = c16ImportDirs()
	}
	var rep *c16Rep
	if pan := verifkit.Catch(func() {
		rep = c16Boot(c16Self, cfg.Kind, &c16HookFS{IFS: jfs}, db, snapdir, smdir, nil)
	}); pan != "" {
		cl := "startup-panicked"
		if strings.Contains(pan, "c16:") {
			cl = "harness-" + cl
		}
		detail := "start-up (processOrphans, replayLog, initial Recover) panicked: " + c16Short(pan)
		switch {
		case strings.Contains(pan, "file does not exist"):
			cl += ":snapshot-file-missing"
		case strings.Contains(pan, "corrupted") || strings.Contains(pan, "checksum") || strings.Contains(pan, "invalid"):
			cl += ":snapshot-file-invalid"
		}
		if cfg.WL == "import" && meta.Phase == "import" && retry != nil {
			// what an operator would do: run the import again, then start
			if msg := retry(); msg == "" {
				detail += " (running tools.ImportSnapshot again on that image and starting afterwards succeeds)"
			} else {
				cl = "startup-panicked-and-import-retry-fails"
				detail += "; running tools.ImportSnapshot again on that image: " + msg
			}
		}
		return got, &c16Prob{cl, detail}, nil, 0
	}
	recEnd = jfs.Len()
	if record {
		recj = jfs.Journal()
	}
	// --- the directory after the start-up cleanup
	rec, _ := db.GetSnapshot(c16Shard, c16Self)
	got.Recorded = rec.Index
	got.Applied = rep.node.sm.GetLastApplied()
	got.Last = rep.lastIndex()
	entries := c16ListSnapDir(jfs, snapdir)
	var recordedDir *c16DirEntry
	for i := range entries {
		e := entries[i]
		got.Dirs = append(got.Dirs, e.Name)
		switch e.Kind {
		case "temp":
			return got, &c16Prob{"temp-dir-remains", "temporary directory " + e.Name + " is still there after the start-up cleanup"}, recj, recEnd
		case "flagged":
			return got, &c16Prob{"flagged-dir-remains", "directory " + e.Name + " still has its flag file after the start-up cleanup"}, recj, recEnd
		case "snapshot":
			if e.Problem != "" {
				return got, &c16Prob{"incomplete-snapshot-remains", "directory " + e.Name + " remains but is not a complete snapshot: " + e.Problem}, recj, recEnd
			}
			if rec.Index == 0 || e.Index != rec.Index {
				return got, &c16Prob{"unrecorded-snapshot-remains", fmt.Sprintf("directory %s remains although the log store records snapshot %d", e.Name, rec.Index)}, recj, recEnd
			}
			recordedDir = &entries[i]
		}
	}
	// --- the recorded snapshot exists on disk with a valid file
	if rec.Index > 0 {
		if recordedDir == nil {
			return got, &c16Prob{"recorded-snapshot-missing", fmt.Sprintf("the log store records snapshot %d (%s) but its directory does not exist", rec.Index, rec.Filepath)}, recj, recEnd
		}
		st, err := jfs.Stat(rec.Filepath)
		if err != nil {
			return got, &c16Prob{"recorded-snapshot-missing", fmt.Sprintf("the file of the recorded snapshot %d cannot be accessed: %v", rec.Index, err)}, recj, recEnd
		}
		shrunk := false
		if cfg.Kind == c16OnDisk && !rec.Dummy {
			shrunk, err = rsm.IsShrunkSnapshotFile(rec.Filepath, jfs)
			if err != nil {
				return got, &c16Prob{"recorded-snapshot-invalid", fmt.Sprintf("IsShrunkSnapshotFile(%d): %v", rec.Index, err)}, recj, recEnd
			}
		}
		if !shrunk && uint64(st.Size()) != rec.FileSize {
			return got, &c16Prob{"recorded-snapshot-invalid", fmt.Sprintf("file of the recorded snapshot %d has %d bytes, the record says %d", rec.Index, st.Size(), rec.FileSize)}, recj, recEnd
		}
	}
	// --- the state is no older than the recorded snapshot / anything acknowledged
	if got.Applied < rec.Index {
		return got, &c16Prob{"state-older-than-recorded-snapshot", fmt.Sprintf("applied index %d after the initial recover, recorded snapshot %d", got.Applied, rec.Index)}, recj, recEnd
	}
	if cfg.WL == "import" && rec.Imported {
		// tools.ImportSnapshot rewinds the replica to the imported snapshot by
		// design ("all proposals more recent than the state of the snapshot are
		// lost"): earlier acknowledgements are void
		meta = &c16Meta{AckImport: meta.AckImport}
	}
	if meta.AckSnap > rec.Index {
		return got, &c16Prob{"acked-snapshot-not-recorded", fmt.Sprintf("snapshot %d was acknowledged to the user, the log store records %d", meta.AckSnap, rec.Index)}, recj, recEnd
	}
	if meta.AckMatch > got.Last {
		return got, &c16Prob{"acked-index-lost", fmt.Sprintf("index %d was acknowledged to the leader, the recovered log ends at %d", meta.AckMatch, got.Last)}, recj, recEnd
	}
	if meta.AckImport > 0 && (rec.Index != meta.AckImport || !rec.Imported) {
		return got, &c16Prob{"acked-import-lost", fmt.Sprintf("import of snapshot %d returned success, the log store records %d (imported=%v)", meta.AckImport, rec.Index, rec.Imported)}, recj, recEnd
	}
	if cfg.WL == "import" && rec.Imported {
		// the membership was rewritten by the import: no scripted leader; the state
		// must be exactly the imported one
		if st, want := rep.state(), c16Ref(rec.Index); st != want || got.Applied != rec.Index {
			return got, &c16Prob{"wrong-state", fmt.Sprintf("after the import the state is %v at applied %d, want %v", st, got.Applied, want)}, recj, recEnd
		}
		return got, nil, recj, recEnd
	}
	// --- and it is a CORRECT state: let the leader bring the replica to L
	if pan := verifkit.Catch(func() {
		rep.feed(L, L)
		if rep.lastIndex() < L { // first message only probed the match index
			rep.feed(L, L)
		}
	}); pan != "" {
		return got, &c16Prob{"continue-panicked", "the recovered replica panicked while catching up with the leader: " + c16Short(pan)}, recj, recEnd
	}
	if a := rep.node.sm.GetLastApplied(); a != L {
		return got, &c16Prob{"does-not-catch-up", fmt.Sprintf("the recovered replica applied up to %d, the leader committed %d", a, L)}, recj, recEnd
	}
	if st, want := rep.state(), c16Ref(L); st != want {
		return got, &c16Prob{"wrong-state", fmt.Sprintf("state at index %d is %v, want %v", L, st, want)}, recj, recEnd
	}
	// --- and it can take its next snapshot
	var res RequestResult
	if pan := verifkit.Catch(func() {
		rs, err := rep.node.requestSnapshot(SnapshotOption{}, 1000)
		if err != nil {
			panic(err)
		}
		rep.settle()
		select {
		case res = <-rs.ResultC():
		default:
			panic("no result")
		}
	}); pan != "" {
		return got, &c16Prob{"next-save-panicked", "the first snapshot after the restart panicked: " + c16Short(pan)}, recj, recEnd
	}
	if !res.Completed() || res.SnapshotIndex() != L {
		return got, &c16Prob{"next-save-failed", fmt.Sprintf("the first snapshot after the restart: code %v index %d, want completed at %d", res.code, res.SnapshotIndex(), L)}, recj, recEnd
	}
	nrec, _ := db.GetSnapshot(c16Shard, c16Self)
	if nrec.Index != L {
		return got, &c16Prob{"next-save-failed", fmt.Sprintf("the first snapshot after the restart is not recorded (%d, want %d)", nrec.Index, L)}, recj, recEnd
	}
	if p := c16FileProblem(jfs, nrec.Filepath); p != "" {
		return got, &c16Prob{"next-save-failed", "the first snapshot after the restart: " + p}, recj, recEnd
	}
	return got, nil, recj, recEnd
}

func (cc *c16Case) build() *vfs.MemFS {
	mem, err := cc.J.Materialize(cc.P, cc.Im)
	if err != nil {
		panic(err) // harness bug
	}
	if cc.J2 != nil {
		if err := cc.J2.MaterializeOn(mem, cc.P2, cc.Im2); err != nil {
			panic(err)
		}
	}
	return mem
}

func (cc *c16Case) lossy() bool {
	return cc.Im.Kind != "keep" || (cc.J2 != nil && cc.Im2.Kind != "keep")
}

type c16Replay struct {
	Mode     string             `json:"mode"` // crash | errfs | clean
	Cfg      c16Cfg             `json:"cfg"`
	P        int                `json:"p,omitempty"`
	Image    *journalfs.Image   `json:"image,omitempty"`
	Journal  *journalfs.Journal `json:"journal,omitempty"`
	DBOps    []json.RawMessage  `json:"dbops,omitempty"`
	L        uint64             `json:"l,omitempty"`
	Journal2 *journalfs.Journal `json:"journal2,omitempty"`
	P2       int                `json:"p2,omitempty"`
	Image2   *journalfs.Image   `json:"image2,omitempty"`
	K        int                `json:"k,omitempty"`
	Site     string             `json:"site,omitempty"`
}

type c16Finding struct {
	Key    string
	Desc   string
	Replay c16Replay
}

func c16LastOp(j *journalfs.Journal, p int) string {
	for i := p - 1; i >= 0; i-- {
		if j.Ops[i].Kind != journalfs.KMark {
			return c16PathClass(j.Ops[i].String())
		}
	}
	return "start"
}

// c16PathClass removes the op number from an op description.
func c16PathClass(s string) string {
	if i := strings.IndexByte(s, ' '); i > 0 && strings.HasPrefix(s, "#") {
		s = s[i+1:]
	}
	return s
}

// check materialises the image, runs the start-up and the oracle.
func (cc *c16Case) check(wantHash *uint64, record bool) (got c16Recovered, f *c16Finding, recj *journalfs.Journal, recEnd int) {
	if cc.meta == nil {
		cc.meta = c16MetaOf(cc.J, cc.P)
	}
	meta := cc.meta
	mem := cc.build()
	if wantHash != nil {
		*wantHash = verifkit.Hash64(journalfs.Dump(mem, "/"))
	}
	db := c16BuildDB(cc.Ops, meta.DBN)
	var retry func() string
	if cc.Cfg.WL == "import" {
		retry = func() string {
			mem2 := cc.build()
			db2 := c16BuildDB(cc.Ops, meta.DBN)
			fs2 := &c16HookFS{IFS: journalfs.NewOn(mem2)}
			var ierr error
			if pan := verifkit.Catch(func() {
				ierr = tools.ImportSnapshot(c16NHConfig(fs2, &c16DB{DB: db2, log: &c16Log{}}), fs2.PathJoin(c16ExportDir, server.GetSnapshotDirName(12)), c16Peers(), c16Self)
			}); pan != "" {
				return "panicked: " + c16Short(pan)
			}
			if ierr != nil {
				return "failed: " + c16Short(ierr.Error())
			}
			m2 := &c16Meta{AckImport: 12, Phase: "after-retry"}
			if _, p2, _, _ := c16Startup(cc.Cfg, mem2, db2, m2, cc.L, false, nil); p2 != nil {
				return "succeeded, but the start-up after it: " + p2.Clause + ": " + p2.Detail
			}
			return ""
		}
	}
	got, prob, recj, recEnd := c16Startup(cc.Cfg, mem, db, meta, cc.L, record, retry)
	if prob == nil {
		return got, nil, recj, recEnd
	}
	loss := "keep"
	if cc.lossy() {
		loss = "lossy"
	}
	where := "crash in " + meta.Phase
	if cc.J2 != nil {
		where = "crash in the start-up after a " + where
	}
	rp := c16Replay{Mode: "crash", Cfg: cc.Cfg, P: cc.P, Image: &cc.Im, Journal: cc.J.Prefix(cc.P), L: cc.L}
	n := meta.DBN
	if n > len(cc.Ops) {
		n = len(cc.Ops)
	}
	rp.DBOps = cc.Ops[:n]
	d2 := ""
	if cc.J2 != nil {
		rp.Journal2, rp.P2, rp.Image2 = cc.J2.Prefix(cc.P2), cc.P2, &cc.Im2
		d2 = fmt.Sprintf("; the start-up on that image crashed again after %d of its FS operations (last: %s), image %s", cc.P2, c16LastOp(cc.J2, cc.P2), cc.Im2.String())
	}
	return got, &c16Finding{
		Key: fmt.Sprintf("C16:%s:%s:%s:%s", cc.Cfg.family(), where, loss, prob.Clause),
		Desc: fmt.Sprintf("workload %s, crash after journal prefix %d (last FS op: %s; phase %s; %d log store writes done; acknowledged: snapshot %d to the user, index %d to the leader), image %s%s: %s [%s]",
			cc.Cfg.name(), cc.P, c16LastOp(cc.J, cc.P), meta.Phase, meta.DBN, meta.AckSnap, meta.AckMatch, cc.Im.String(), d2, prob.Detail, got.String()),
		Replay: rp,
	}, recj, recEnd
}

// ------------------------------------------------------------ drivers

type c16Ctx struct {
	Run  *verifkit.Run
	Res  *verifkit.Result
	seen *verifkit.Set64 // (image content, store content, acks) already verified
	st   *verifkit.Set64 // distinct recovered states
	mu   sync.Mutex
	n    map[string]int64
}

func (c *c16Ctx) add(k string, v int64) {
	c.mu.Lock()
	c.n[k] += v
	c.mu.Unlock()
}

func (c *c16Ctx) report(f *c16Finding) bool {
	c.Res.Outcome("VIOLATION " + f.Key)
	return c.Res.Violate(f.Key, f.Desc, f.Replay)
}

// c16SelfCheck: replaying the whole journal reproduces the live FS.
func c16SelfCheck(w *c16Run, j *journalfs.Journal) {
	full, err := j.Materialize(len(j.Ops), journalfs.Image{Kind: "keep"})
	if err != nil {
		panic(err)
	}
	if a, b := journalfs.Dump(full, "/"), journalfs.Dump(w.jfs.Base(), "/"); a != b {
		panic(fmt.Sprintf("journalfs self-check failed for %s\n--- replay\n%s--- live\n%s", w.cfg.name(), a, b))
	}
}

func c16OpsHash(ops []json.RawMessage, n int) uint64 {
	h := uint64(1469598103934665603)
	for i := 0; i < n && i < len(ops); i++ {
		h = h*1099511628211 ^ verifkit.Hash64(string(ops[i]))
	}
	return h
}

// crashRun checks every crash point of one finished run.
func (c *c16Ctx) crashRun(w *c16Run) {
	j := w.jfs.Journal()
	c16SelfCheck(w, j)
	ops := w.log.ops
	points := j.CrashPoints(w.from)
	thorough := c.Run.Thorough()
	fam := w.cfg.family()
	c.add("journals", 1)
	c.add(fam+".journals", 1)
	// (the driver sums these over the shards: totals over all journals of a family)
	c.add(fam+".journal_ops", int64(len(j.Ops)))
	c.add(fam+".journal_mutations", int64(j.Mutations()))
	c.add(fam+".log_store_writes", int64(len(ops)))
	c.add(fam+".crash_points", int64(len(points)))
	var next int64 = -1
	var stop int32
	var wg sync.WaitGroup
	for g := 0; g < runtime.GOMAXPROCS(0); g++ {
		wg.Add(1)
		go func() {
			defer wg.Done()
			for atomic.LoadInt32(&stop) == 0 {
				i := int(atomic.AddInt64(&next, 1))
				if i >= len(points) {
					return
				}
				if c.Run.Expired() {
					c.Res.Cap("deadline reached in crash mode of " + w.cfg.name())
					return
				}
				p := points[i]
				meta := c16MetaOf(j, p)
				dbh := c16OpsHash(ops, meta.DBN)
				// dirty-subset images: everywhere in the thorough tier, in the quick tier
				// for the single-journal workloads only (they are 3/4 of all images)
				ims := j.Images(p, true)
				if !thorough && w.cfg.WL == "race" {
					ims = append(j.Images(p, false), j.TornImages(p)...)
				}
				for _, im := range ims {
					cc := &c16Case{Cfg: w.cfg, J: j, P: p, Im: im, Ops: ops, L: w.L, meta: meta}
					// dedupe BEFORE the start-up: equal (image, store, acks, L) give equal verdicts
					mem := cc.build()
					ih := verifkit.Hash64(journalfs.Dump(mem, "/"))
					atomic.AddInt64(&c.Res.Evaluations, 1)
					c.add(fam+".images", 1)
					c.add(fam+".images_"+im.Kind, 1)
					deep := im.Kind == "drop" || im.Kind == "torn"
					// (deep is part of the key: which of two equal images is met first
					// depends on the goroutine schedule, the depth 2 coverage must not)
					key := verifkit.Hash64(fmt.Sprintf("%s|%x|%x|%d|%d|%d|%d|%v|%v", w.cfg.Kind+w.cfg.WL, ih, dbh, meta.AckSnap, meta.AckMatch, meta.AckImport, w.L, deep && im.Kind == "torn", deep))
					if !c.seen.Add(key) {
						continue
					}
					atomic.AddInt64(&c.Res.DistinctNontrivial, 1)
					c.add(fam+".images_distinct", 1)
					got, f, recj, recEnd := cc.check(nil, deep)
					if f != nil {
						if c.report(f) {
							atomic.StoreInt32(&stop, 1)
						}
						continue
					}
					c.st.Add(verifkit.Hash64(fam + got.String()))
					c.Res.Outcome(fmt.Sprintf("%s|crash in %s|%s|recovered: recorded snapshot %d, applied %d", fam, meta.Phase, im.Kind, got.Recorded, got.Applied))
					c.Res.Sample(4, map[string]interface{}{"workload": w.cfg.name(), "prefix": p, "last_op": c16LastOp(j, p), "phase": meta.Phase,
						"image": im.String(), "recovered": got.String()})
					if recj == nil || recj.Mutations() == 0 {
						continue
					}
					// depth 2: the start-up itself (processOrphans removing directories and
					// flags, Shrink after recover) crashes at every one of its FS operations
					for _, p2 := range recj.CrashPoints(0) {
						if p2 == 0 || p2 > recEnd || recj.Ops[p2-1].Kind == journalfs.KMark {
							continue
						}
						ims2 := []journalfs.Image{{Kind: "drop"}}
						if thorough {
							ims2 = append(ims2, journalfs.Image{Kind: "keep"})
							ims2 = append(ims2, recj.TornImages(p2)...)
						}
						for _, im2 := range ims2 {
							c2 := &c16Case{Cfg: w.cfg, J: j, P: p, Im: im, Ops: ops, L: w.L, meta: meta, J2: recj, P2: p2, Im2: im2}
							mem2 := c2.build()
							ih2 := verifkit.Hash64(journalfs.Dump(mem2, "/"))
							atomic.AddInt64(&c.Res.Evaluations, 1)
							c.add(fam+".images_depth2", 1)
							k2 := verifkit.Hash64(fmt.Sprintf("%s|%x|%x|%d|%d|%d|%d|d2", w.cfg.Kind+w.cfg.WL, ih2, dbh, meta.AckSnap, meta.AckMatch, meta.AckImport, w.L))
							if !c.seen.Add(k2) {
								continue
							}
							atomic.AddInt64(&c.Res.DistinctNontrivial, 1)
							c.add(fam+".images_distinct", 1)
							got2, f2, _, _ := c2.check(nil, false)
							if f2 != nil {
								c.report(f2)
								continue
							}
							c.st.Add(verifkit.Hash64(fam + got2.String()))
							c.Res.Outcome(fmt.Sprintf("%s|crash in %s|%s then start-up crashed|%s|recovered: recorded snapshot %d, applied %d", fam, meta.Phase, im.Kind, im2.Kind, got2.Recorded, got2.Applied))
						}
					}
				}
			}
		}()
	}
	wg.Wait()
}

// c16CleanRun runs the workload fault free.
func c16CleanRun(cfg c16Cfg) (w *c16Run, f *c16Finding) {
	w = c16NewRun(cfg)
	if pan := verifkit.Catch(w.run); pan != "" {
		return w, &c16Finding{
			Key:    fmt.Sprintf("C16:%s:%s fails without any fault", cfg.family(), w.stage),
			Desc:   fmt.Sprintf("fault free workload %s: phase %s panicked: %s", cfg.name(), w.stage, c16Short(pan)),
			Replay: c16Replay{Mode: "clean", Cfg: cfg},
		}
	}
	return w, nil
}

// c16CheckLive: at the end of a fault free run the live replica must be where
// the leader is.
func c16CheckLive(w *c16Run) *c16Finding {
	if w.cfg.WL == "import" {
		return nil
	}
	rep := w.rep
	want := c16Ref(rep.node.sm.GetLastApplied())
	if st := rep.state(); st != want {
		return &c16Finding{Key: fmt.Sprintf("C16:%s:live replica has a wrong state", w.cfg.family()),
			Desc:   fmt.Sprintf("workload %s: live state %v at applied %d, want %v", w.cfg.name(), st, rep.node.sm.GetLastApplied(), want),
			Replay: c16Replay{Mode: "clean", Cfg: w.cfg}}
	}
	return nil
}

// c16Items enumerates the workload runs of a tier, grouped so that runs which
// share a long journal prefix land on the same shard (dedupe of equal images).
func c16Items(run *verifkit.Run) [][]c16Cfg {
	groups := [][]c16Cfg{}
	for _, wl := range []string{"save", "recv"} {
		for _, kind := range []string{c16Regular, c16OnDisk} {
			groups = append(groups, []c16Cfg{{WL: wl, Kind: kind}})
		}
	}
	groups = append(groups, []c16Cfg{{WL: "import", Kind: c16Regular}}, []c16Cfg{{WL: "import", Kind: c16OnDisk}})
	// race: insertion points are positions 0..K of the save's own FS operations
	for _, kind := range []string{c16Regular, c16OnDisk} {
		for _, x := range []uint64{20, 8, 6} {
			probe := c16NewRun(c16Cfg{WL: "race", Kind: kind, X: x, K1: 1 << 20, K2: 1 << 20})
			K := 0
			func() {
				defer func() { _ = recover() }()
				probe.boot()
				probe.feed(8, 8)
				probe.rep.beforeSave = func() { probe.hook.arm(nil) }
				probe.rep.afterSave = func() { probe.hook.disarm(); K = probe.hook.n }
				probe.save(1)
			}()
			if K == 0 {
				panic("c16: probe run found no FS operations in the save")
			}
			for k1 := 0; k1 <= K; k1++ {
				g := []c16Cfg{}
				for k2 := k1; k2 <= K; k2++ {
					if !run.Thorough() && !(k2 == k1 || k2 == K || k2 == k1+1 || (k1 == 0 && k2%2 == 0)) {
						continue
					}
					g = append(g, c16Cfg{WL: "race", Kind: kind, X: x, K1: k1, K2: k2})
				}
				groups = append(groups, g)
			}
		}
	}
	return groups
}

func c16Rule() string {
	return "crash mode: every workload run (save / receive / import per SM kind; for the race workload one run per schedule = pair of positions (k1<=k2) among the local save's own FS operations at which the transport's chunk delivery+finalize resp. the step that records the received snapshot are executed, for a received snapshot newer than / at / older than the local one) is executed once, fault free, on a journaling FS with the log store's writes marked in the same journal; a case is (journal prefix ending in an applied mutating FS op or a mark) x (image: all unsynced state dropped | nothing dropped | torn last write | every subset of <=4 dirty files/dirs kept), plus depth 2: the journaled start-up on each distinct drop/torn image cut at every one of its FS ops; on each image the real start-up path (processOrphans, newNode/replayLog, initial Recover) runs and the oracle of the property is applied, then the replica is driven to the leader's last index and takes a snapshot. distinct = distinct (image content, log store content, acknowledgements); all are non-trivial (the enumeration starts after the harness' directory setup and first boot). error mode: one run per mutating FS operation k of the save/recv/import workloads with exactly that operation failing."
}

func c16Assumptions() []string {
	return []string{
		"the log store is the in-memory model store: its content at a crash point is exactly the writes issued before that point (durable at acknowledgement); C10 covers the real stores",
		"crash images follow the lni/vfs strict MemFS model: unsynced file data and unsynced directory entries are lost per file / per directory (plus subsets of <=4 dirty units and a torn last write)",
		"one replica (a follower) fed by a scripted leader with well formed Replicate / InstallSnapshot traffic; worker loop bodies (processSteps, processApplies, ssWorker.handle) run as atomic events except for the race workload, where the receive path is inserted between two FS operations of the running save (only at points the real locks allow)",
		"external snapshot files (ISnapshotFileCollection) are not used: rsm.Files.PrepareFiles calls os.Link directly, not the vfs",
	}
}

func c16Main(run *verifkit.Run, res *verifkit.Result) {
	c16Quiet()
	res.MaxViolations = 40
	res.Rule = c16Rule()
	res.Assumptions = c16Assumptions()
	c := &c16Ctx{Run: run, Res: res, seen: verifkit.NewSet64(), st: verifkit.NewSet64(), n: map[string]int64{}}
	defer func() {
		keys := make([]string, 0, len(c.n))
		for k := range c.n {
			keys = append(keys, k)
		}
		sort.Strings(keys)
		for _, k := range keys {
			res.Extra[k] = c.n[k]
		}
		res.Extra["distinct_recovered_states"] = int64(c.st.Len())
	}()
	if run.Replay != "" {
		var rp c16Replay
		run.LoadReplay(&rp)
		c16DoReplay(c, rp)
		return
	}
	groups := c16Items(run)
	for gi, g := range groups {
		if !run.Mine(uint64(gi)) {
			continue
		}
		for _, cfg := range g {
			if only := os.Getenv("VERIF_C16_ONLY"); only != "" && !strings.HasPrefix(cfg.name(), only) {
				continue // development aid: restrict the run to some workloads
			}
			if run.Expired() {
				res.Cap("deadline reached before " + cfg.name())
				return
			}
			w, f := c16CleanRun(cfg)
			if f != nil {
				c.report(f)
				continue
			}
			if !w.valid {
				c.add("race.schedules_excluded_by_locks", 1)
				res.Outcome("race|schedule not possible: " + w.why)
				continue
			}
			if f := c16CheckLive(w); f != nil {
				c.report(f)
				continue
			}
			c.crashRun(w)
			if res.NViolations() >= res.MaxViolations {
				return
			}
		}
	}
}

func c16DoReplay(c *c16Ctx, rp c16Replay) {
	switch rp.Mode {
	case "crash":
		cc := &c16Case{Cfg: rp.Cfg, J: rp.Journal, P: rp.P, Im: *rp.Image, Ops: rp.DBOps, L: rp.L}
		if rp.Journal2 != nil && rp.Image2 != nil {
			cc.J2, cc.P2, cc.Im2 = rp.Journal2, rp.P2, *rp.Image2
		}
		atomic.AddInt64(&c.Res.Evaluations, 1)
		if _, f, _, _ := cc.check(nil, false); f != nil {
			c.report(f)
		}
	case "clean":
		w, f := c16CleanRun(rp.Cfg)
		if f == nil && w.valid {
			f = c16CheckLive(w)
		}
		if f != nil {
			c.report(f)
		}
	case "errfs":
		c16ReplayErr(c, rp)
	}
}
