//go:build verif

// Check C16 — snapshot directories are crash-atomic; restart cleans up and
// recovers. Engine E4 (journalfs). This file: the replica under test — a REAL
// node (node.go) with the REAL snapshotter, rsm.StateMachine, LogReader and
// raft peer, stepped by the REAL engine.processSteps / processApplies and
// ssWorker.handle loop bodies (no goroutines), a REAL transport.Chunk for
// received snapshots, on a journaling file system, with an in-memory log
// store whose mutations are recorded in the same journal.
package dragonboat

import (
	"encoding/binary"
	"encoding/json"
	"fmt"
	"io"
	"os"
	"sort"
	"strings"
	"sync"

	gvfs "github.com/lni/vfs"

	"github.com/lni/dragonboat/v4/client"
	"github.com/lni/dragonboat/v4/config"
	"github.com/lni/dragonboat/v4/internal/fileutil"
	"github.com/lni/dragonboat/v4/internal/logdb"
	"github.com/lni/dragonboat/v4/internal/registry"
	"github.com/lni/dragonboat/v4/internal/rsm"
	"github.com/lni/dragonboat/v4/internal/server"
	"github.com/lni/dragonboat/v4/internal/settings"
	"github.com/lni/dragonboat/v4/internal/transport"
	"github.com/lni/dragonboat/v4/internal/verifkit"
	"github.com/lni/dragonboat/v4/internal/verifkit/journalfs"
	"github.com/lni/dragonboat/v4/internal/verifkit/memlogdb"
	"github.com/lni/dragonboat/v4/internal/vfs"
	"github.com/lni/dragonboat/v4/raftio"
	pb "github.com/lni/dragonboat/v4/raftpb"
	sm "github.com/lni/dragonboat/v4/statemachine"
)

const (
	c16Shard  = 1
	c16Self   = 2 // the replica under test (a follower)
	c16Leader = 1 // played by the harness: well formed Replicate messages
	c16Term   = 2
	c16DID    = 7
	// first application entry (1..3 are the bootstrap config changes)
	c16First = 4
)

func c16Peers() map[uint64]string {
	return map[uint64]string{1: "c16host1:1", 2: "c16host2:1", 3: "c16host3:1"}
}

// ------------------------------------------------------------ entry stream + reference model

func c16Cmd(i uint64) []byte {
	b := make([]byte, 8)
	binary.BigEndian.PutUint64(b, i*2654435761+12345)
	return b
}

func c16Entry(i uint64) pb.Entry {
	return pb.Entry{Type: pb.ApplicationEntry, Index: i, Term: c16Term,
		Key: 77000 + i, ClientID: 9001, SeriesID: client.NoOPSeriesID, Cmd: c16Cmd(i)}
}

func c16Mix(h uint64, idx uint64, cmd []byte) uint64 {
	h ^= idx * 0x9E3779B97F4A7C15
	for _, b := range cmd {
		h = (h ^ uint64(b)) * 1099511628211
	}
	return h
}

// c16State is the user visible state of the test state machines.
type c16State struct {
	Count uint64
	Hash  uint64
	Last  uint64
}

// c16Ref is the reference model: the state after applying the stream up to i.
func c16Ref(i uint64) c16State {
	st := c16State{}
	for k := uint64(c16First); k <= i; k++ {
		st.Count++
		st.Hash = c16Mix(st.Hash, k, c16Cmd(k))
		st.Last = k
	}
	return st
}

func (s c16State) String() string {
	return fmt.Sprintf("{count:%d last:%d hash:%x}", s.Count, s.Last, s.Hash)
}

const c16Filler = 1500 // snapshot payload padding: the file spans 3 chunks of 1 KiB

func (s c16State) encode() []byte {
	b := make([]byte, 24+c16Filler)
	binary.BigEndian.PutUint64(b[0:], s.Count)
	binary.BigEndian.PutUint64(b[8:], s.Hash)
	binary.BigEndian.PutUint64(b[16:], s.Last)
	x := s.Hash | 1
	for i := 24; i < len(b); i++ {
		x = x*6364136223846793005 + 1442695040888963407
		b[i] = byte(x >> 33)
	}
	return b
}

func c16Decode(r io.Reader) (c16State, error) {
	b := make([]byte, 24+c16Filler)
	if _, err := io.ReadFull(r, b); err != nil {
		return c16State{}, err
	}
	s := c16State{Count: binary.BigEndian.Uint64(b[0:]), Hash: binary.BigEndian.Uint64(b[8:]), Last: binary.BigEndian.Uint64(b[16:])}
	w := s.encode()
	for i := range b {
		if b[i] != w[i] {
			return c16State{}, fmt.Errorf("c16: snapshot payload corrupted at byte %d", i)
		}
	}
	return s, nil
}

// ------------------------------------------------------------ user state machines

// c16SM is a regular (in-memory) state machine.
type c16SM struct{ st c16State }

func (s *c16SM) Update(e sm.Entry) (sm.Result, error) {
	s.st.Count++
	s.st.Hash = c16Mix(s.st.Hash, e.Index, e.Cmd)
	s.st.Last = e.Index
	return sm.Result{Value: s.st.Count}, nil
}
func (s *c16SM) Lookup(interface{}) (interface{}, error) { return s.st, nil }
func (s *c16SM) SaveSnapshot(w io.Writer, _ sm.ISnapshotFileCollection, _ <-chan struct{}) error {
	_, err := w.Write(s.st.encode())
	return err
}
func (s *c16SM) RecoverFromSnapshot(r io.Reader, _ []sm.SnapshotFile, _ <-chan struct{}) error {
	st, err := c16Decode(r)
	if err != nil {
		return err
	}
	s.st = st
	return nil
}
func (s *c16SM) Close() error { return nil }

// c16Disk is an on-disk state machine: its durable state is one file on the
// SAME (journaling) file system, replaced with write-temp / fsync / rename /
// fsync-dir, so that crash images contain exactly what a crash leaves of it.
type c16Disk struct {
	fs  vfs.IFS
	dir string
	st  c16State
}

func (d *c16Disk) path() string { return d.fs.PathJoin(d.dir, "state") }

func (d *c16Disk) persist() (err error) {
	tmp := d.path() + ".tmp"
	f, err := d.fs.Create(tmp)
	if err != nil {
		return err
	}
	b := make([]byte, 24)
	binary.BigEndian.PutUint64(b[0:], d.st.Count)
	binary.BigEndian.PutUint64(b[8:], d.st.Hash)
	binary.BigEndian.PutUint64(b[16:], d.st.Last)
	if _, err = f.Write(b); err != nil {
		_ = f.Close()
		return err
	}
	if err = f.Sync(); err != nil {
		_ = f.Close()
		return err
	}
	if err = f.Close(); err != nil {
		return err
	}
	if err = d.fs.Rename(tmp, d.path()); err != nil {
		return err
	}
	return fileutil.SyncDir(d.dir, d.fs)
}

func (d *c16Disk) Open(<-chan struct{}) (uint64, error) {
	f, err := d.fs.Open(d.path())
	if err != nil {
		if vfs.IsNotExist(err) {
			d.st = c16State{}
			return 0, nil
		}
		return 0, err
	}
	defer f.Close()
	b := make([]byte, 24)
	if _, err := io.ReadFull(f, b); err != nil {
		return 0, err
	}
	d.st = c16State{Count: binary.BigEndian.Uint64(b[0:]), Hash: binary.BigEndian.Uint64(b[8:]), Last: binary.BigEndian.Uint64(b[16:])}
	// the on disk index is the index of the last entry applied; before the
	// first application entry it is the last bootstrap entry at most
	return d.st.Last, nil
}
func (d *c16Disk) Update(ents []sm.Entry) ([]sm.Entry, error) {
	for i := range ents {
		d.st.Count++
		d.st.Hash = c16Mix(d.st.Hash, ents[i].Index, ents[i].Cmd)
		d.st.Last = ents[i].Index
		ents[i].Result = sm.Result{Value: d.st.Count}
	}
	return ents, nil
}
func (d *c16Disk) Lookup(interface{}) (interface{}, error) { return d.st, nil }
func (d *c16Disk) Sync() error                             { return d.persist() }
func (d *c16Disk) PrepareSnapshot() (interface{}, error)   { return d.st, nil }
func (d *c16Disk) SaveSnapshot(ctx interface{}, w io.Writer, _ <-chan struct{}) error {
	_, err := w.Write(ctx.(c16State).encode())
	return err
}
func (d *c16Disk) RecoverFromSnapshot(r io.Reader, _ <-chan struct{}) error {
	st, err := c16Decode(r)
	if err != nil {
		return err
	}
	// "RecoverFromSnapshot is not required to synchronize its recovered in-core
	// state with that on disk" (statemachine/disk.go): dragonboat calls Sync
	d.st = st
	return nil
}
func (d *c16Disk) Close() error { return nil }

// ------------------------------------------------------------ recording log store

// c16DBOp is one mutating call on the log store, JSON encoded at call time
// (deep copy) so that the store content at ANY journal position can be
// rebuilt, and so that a replay file can carry it.
type c16DBOp struct {
	Op        string        `json:"op"`
	Uds       []c16Ud       `json:"uds,omitempty"`
	ReplicaID uint64        `json:"replica,omitempty"`
	Index     uint64        `json:"index,omitempty"`
	Bootstrap *pb.Bootstrap `json:"bootstrap,omitempty"`
	Snapshot  *pb.Snapshot  `json:"snapshot,omitempty"`
}

type c16Ud struct {
	ShardID   uint64      `json:"shard"`
	ReplicaID uint64      `json:"replica"`
	State     pb.State    `json:"state"`
	Entries   []pb.Entry  `json:"entries,omitempty"`
	Snapshot  pb.Snapshot `json:"snapshot"`
}

func c16ApplyDBOp(db *memlogdb.DB, raw json.RawMessage) {
	var op c16DBOp
	if err := json.Unmarshal(raw, &op); err != nil {
		panic(err)
	}
	uds := make([]pb.Update, 0, len(op.Uds))
	for _, u := range op.Uds {
		uds = append(uds, pb.Update{ShardID: u.ShardID, ReplicaID: u.ReplicaID, State: u.State, EntriesToSave: u.Entries, Snapshot: u.Snapshot})
	}
	var err error
	switch op.Op {
	case "SaveBootstrapInfo":
		err = db.SaveBootstrapInfo(c16Shard, op.ReplicaID, *op.Bootstrap)
	case "SaveRaftState":
		err = db.SaveRaftState(uds, 1)
	case "SaveSnapshots":
		err = db.SaveSnapshots(uds)
	case "RemoveEntriesTo":
		err = db.RemoveEntriesTo(c16Shard, op.ReplicaID, op.Index)
	case "ImportSnapshot":
		err = db.ImportSnapshot(*op.Snapshot, op.ReplicaID)
	default:
		panic("c16: unknown db op " + op.Op)
	}
	if err != nil {
		panic(err)
	}
}

// c16BuildDB rebuilds the log store from the first n recorded operations.
func c16BuildDB(ops []json.RawMessage, n int) *memlogdb.DB {
	db := memlogdb.New()
	for i := 0; i < n && i < len(ops); i++ {
		c16ApplyDBOp(db, ops[i])
	}
	return db
}

// c16Log is the shared, append only list of recorded log store operations;
// every recorded operation puts a mark "db:<op>" into the FS journal, so the
// store content at journal prefix p is the first (number of db marks in p)
// operations: the store is durable at acknowledgement.
type c16Log struct {
	mu   sync.Mutex
	ops  []json.RawMessage
	mark func(string)
}

func (l *c16Log) add(op c16DBOp) {
	b, err := json.Marshal(op)
	if err != nil {
		panic(err)
	}
	l.mu.Lock()
	l.ops = append(l.ops, b)
	l.mu.Unlock()
	if l.mark != nil {
		l.mark("db:" + op.Op)
	}
}

// c16DB is the raftio.ILogDB seen by dragonboat.
type c16DB struct {
	*memlogdb.DB
	log *c16Log
}

func c16Uds(updates []pb.Update, withEntries bool) []c16Ud {
	out := make([]c16Ud, 0, len(updates))
	for _, u := range updates {
		c := c16Ud{ShardID: u.ShardID, ReplicaID: u.ReplicaID, Snapshot: u.Snapshot}
		if withEntries {
			c.State = u.State
			c.Entries = u.EntriesToSave
		}
		out = append(out, c)
	}
	return out
}

func (d *c16DB) SaveBootstrapInfo(s, r uint64, bs pb.Bootstrap) error {
	if err := d.DB.SaveBootstrapInfo(s, r, bs); err != nil {
		return err
	}
	d.log.add(c16DBOp{Op: "SaveBootstrapInfo", ReplicaID: r, Bootstrap: &bs})
	return nil
}
func (d *c16DB) SaveRaftState(updates []pb.Update, w uint64) error {
	if len(updates) == 0 {
		return nil // processSteps saves an empty batch when no node has an update
	}
	if err := d.DB.SaveRaftState(updates, w); err != nil {
		return err
	}
	d.log.add(c16DBOp{Op: "SaveRaftState", Uds: c16Uds(updates, true)})
	return nil
}
func (d *c16DB) SaveSnapshots(updates []pb.Update) error {
	if err := d.DB.SaveSnapshots(updates); err != nil {
		return err
	}
	d.log.add(c16DBOp{Op: "SaveSnapshots", Uds: c16Uds(updates, false)})
	return nil
}
func (d *c16DB) RemoveEntriesTo(s, r uint64, index uint64) error {
	if err := d.DB.RemoveEntriesTo(s, r, index); err != nil {
		return err
	}
	d.log.add(c16DBOp{Op: "RemoveEntriesTo", ReplicaID: r, Index: index})
	return nil
}
func (d *c16DB) ImportSnapshot(ss pb.Snapshot, r uint64) error {
	if err := d.DB.ImportSnapshot(ss, r); err != nil {
		return err
	}
	d.log.add(c16DBOp{Op: "ImportSnapshot", ReplicaID: r, Snapshot: &ss})
	return nil
}
func (d *c16DB) RemoveNodeData(s, r uint64) error {
	panic("c16: RemoveNodeData is not part of any workload")
}

var _ raftio.ILogDB = (*c16DB)(nil)

// ------------------------------------------------------------ hook FS (schedule insertion points)

// c16HookFS passes every call to the journaling FS; while armed it counts the
// mutating operations of the running call (not those of a nested hook) and
// runs hook[k] right before own operation #k. It is what dragonboat sees, so
// Remove of a missing file fails as it does on a real file system (the
// vfs.ErrorFS wrapper would turn that into a silent success).
type c16HookFS struct {
	vfs.IFS
	armed  bool
	inHook bool
	n      int
	at     map[int]func()
	trace  []string
}

func (h *c16HookFS) before(what string) {
	if h == nil || !h.armed || h.inHook {
		return
	}
	k := h.n
	h.n++
	h.trace = append(h.trace, what)
	if f := h.at[k]; f != nil {
		h.inHook = true
		defer func() { h.inHook = false }()
		f()
	}
}

func (h *c16HookFS) arm(at map[int]func()) { h.armed, h.n, h.at, h.trace = true, 0, at, nil }
func (h *c16HookFS) disarm()               { h.armed = false }

func (h *c16HookFS) Create(name string) (vfs.File, error) {
	h.before("create " + name)
	f, err := h.IFS.Create(name)
	if err != nil {
		return nil, err
	}
	return &c16HookFile{File: f, h: h, name: name}, nil
}

// Stat reports the base name of the path asked for, as a real file system
// does. (lni/vfs MemFS keeps the name a node got from its last Rename even
// after ResetToSyncedState undid that rename, which made processOrphans look
// at the wrong directory name in crash images.)
func (h *c16HookFS) Stat(name string) (os.FileInfo, error) {
	fi, err := h.IFS.Stat(name)
	if err != nil {
		return nil, err
	}
	return c16FileInfo{FileInfo: fi, name: h.IFS.PathBase(name)}, nil
}

type c16FileInfo struct {
	os.FileInfo
	name string
}

func (f c16FileInfo) Name() string { return f.name }

func (h *c16HookFS) Link(o, n string) error { h.before("link " + n); return h.IFS.Link(o, n) }
func (h *c16HookFS) Remove(name string) error {
	h.before("remove " + name)
	return h.IFS.Remove(name)
}
func (h *c16HookFS) RemoveAll(name string) error {
	h.before("removeall " + name)
	return h.IFS.RemoveAll(name)
}
func (h *c16HookFS) Rename(o, n string) error {
	h.before("rename " + o + " " + n)
	return h.IFS.Rename(o, n)
}
func (h *c16HookFS) MkdirAll(dir string, perm os.FileMode) error {
	h.before("mkdirall " + dir)
	return h.IFS.MkdirAll(dir, perm)
}
func (h *c16HookFS) Open(name string, opts ...gvfs.OpenOption) (vfs.File, error) {
	f, err := h.IFS.Open(name, opts...)
	if err != nil {
		return nil, err
	}
	return &c16HookFile{File: f, h: h, name: name}, nil
}
func (h *c16HookFS) OpenDir(name string) (vfs.File, error) {
	f, err := h.IFS.OpenDir(name)
	if err != nil {
		return nil, err
	}
	return &c16HookFile{File: f, h: h, name: name, dir: true}, nil
}
func (h *c16HookFS) OpenForAppend(name string) (vfs.File, error) {
	f, err := h.IFS.OpenForAppend(name)
	if err != nil {
		return nil, err
	}
	return &c16HookFile{File: f, h: h, name: name}, nil
}
func (h *c16HookFS) ReuseForWrite(o, n string) (vfs.File, error) {
	panic("c16: ReuseForWrite is not used by the snapshot code")
}

type c16HookFile struct {
	vfs.File
	h    *c16HookFS
	name string
	dir  bool
}

func (f *c16HookFile) Write(p []byte) (int, error) {
	f.h.before("write " + f.name)
	return f.File.Write(p)
}
func (f *c16HookFile) WriteAt(p []byte, off int64) (int, error) {
	f.h.before("writeat " + f.name)
	return f.File.WriteAt(p, off)
}
func (f *c16HookFile) Sync() error {
	if f.dir {
		f.h.before("syncdir " + f.name)
	} else {
		f.h.before("sync " + f.name)
	}
	return f.File.Sync()
}

// ------------------------------------------------------------ pipeline

type c16Pipe struct{ step, commit, apply, save, recover, stream, closeReady bool }

func (p *c16Pipe) setCloseReady(*node)    { p.closeReady = true }
func (p *c16Pipe) setStepReady(uint64)    { p.step = true }
func (p *c16Pipe) setCommitReady(uint64)  { p.commit = true }
func (p *c16Pipe) setApplyReady(uint64)   { p.apply = true }
func (p *c16Pipe) setStreamReady(uint64)  { p.stream = true }
func (p *c16Pipe) setSaveReady(uint64)    { p.save = true }
func (p *c16Pipe) setRecoverReady(uint64) { p.recover = true }

// ------------------------------------------------------------ replica

const (
	c16Regular = "regular"
	c16OnDisk  = "ondisk"
)

type c16Rep struct {
	id      uint64
	kind    string
	fs      vfs.IFS
	db      raftio.ILogDB
	snapdir string
	smdir   string
	mark    func(string)
	node    *node
	eng     *engine
	pipe    *c16Pipe
	reg     *c16SM
	disk    *c16Disk
	chunks  *transport.Chunk
	sent    []pb.Message
	pool    *sync.Pool
	// beforeSave / afterSave bracket the execution of a save job
	beforeSave func()
	afterSave  func()
	pendingSS  []*RequestState
	leaderTo   uint64 // the id the scripted leader uses
}

func c16Quiet() {
	for _, n := range []string{"raft", "rsm", "logdb", "transport", "dragonboat", "tan", "raftpb", "config", "grpc", "server", "utils", "fileutil", "registry", "tools", "pebblekv", "settings"} {
		// the logger package panics on Panicf regardless of the level
		c16SetLevel(n)
	}
}

func (r *c16Rep) state() c16State {
	if r.kind == c16OnDisk {
		return r.disk.st
	}
	return r.reg.st
}

func (r *c16Rep) onSend(m pb.Message) {
	r.sent = append(r.sent, m)
	if m.Type == pb.ReplicateResp && !m.Reject && r.mark != nil {
		r.mark(fmt.Sprintf("ack:match:%d", m.LogIndex))
	}
}

// c16Boot runs what NodeHost.startShard runs for a replica: processOrphans on
// the snapshot directory, newNode (replayLog + raft.Launch), and then the
// initial Recover task through the apply worker and a snapshot worker.
// A panic of dragonboat is returned to the caller as a panic.
func c16Boot(id uint64, kind string, fs vfs.IFS, db raftio.ILogDB, snapdir, smdir string, mark func(string)) *c16Rep {
	r := &c16Rep{id: id, kind: kind, fs: fs, db: db, snapdir: snapdir, smdir: smdir, mark: mark, pipe: &c16Pipe{}, leaderTo: c16Leader}
	r.pool = &sync.Pool{}
	r.pool.New = func() interface{} {
		obj := &RequestState{}
		obj.CompletedC = make(chan RequestResult, 1)
		obj.pool = r.pool
		return obj
	}
	peers := c16Peers()
	initial := true
	bs, err := db.GetBootstrapInfo(c16Shard, id)
	if err == nil {
		if bs.Join {
			peers, initial = map[uint64]string{}, false
		}
	} else if err == raftio.ErrNoBootstrapInfo {
		if err := db.SaveBootstrapInfo(c16Shard, id, pb.Bootstrap{Addresses: peers, Type: pb.RegularStateMachine}); err != nil {
			panic(err)
		}
	} else {
		panic(err)
	}
	rootDirFunc := func(uint64, uint64) string { return snapdir }
	lr := logdb.NewLogReader(c16Shard, id, db)
	ss := newSnapshotter(c16Shard, id, rootDirFunc, db, lr, fs)
	lr.SetCompactor(ss)
	if err := ss.processOrphans(); err != nil {
		panic(fmt.Sprintf("processOrphans failed: %v", err)) // nodehost.go: panicNow(err)
	}
	cfg := config.Config{ReplicaID: id, ShardID: c16Shard, ElectionRTT: 10, HeartbeatRTT: 2,
		CheckQuorum: false, SnapshotEntries: 0, CompactionOverhead: 2}
	create := func(shardID uint64, replicaID uint64, done <-chan struct{}) rsm.IManagedStateMachine {
		if kind == c16OnDisk {
			r.disk = &c16Disk{fs: fs, dir: smdir}
			return rsm.NewNativeSM(cfg, rsm.NewOnDiskStateMachine(r.disk), done)
		}
		r.reg = &c16SM{}
		return rsm.NewNativeSM(cfg, rsm.NewInMemStateMachine(r.reg), done)
	}
	nr := registry.NewNodeRegistry(settings.Soft.StreamConnections, nil)
	nhConfig := config.NodeHostConfig{RTTMillisecond: 1, DeploymentID: c16DID}
	n, err := newNode(peers, initial, cfg, nhConfig, create, ss, lr, r.pipe, nil, nil,
		func(uint64, uint64, bool) {}, r.onSend, nr, r.pool, db, nil, newSysEventListener(nil, nil))
	if err != nil {
		panic(fmt.Sprintf("newNode failed: %v", err)) // nodehost.go: panicNow(err)
	}
	r.node = n
	r.eng = &engine{logdb: db, stepWorkReady: newWorkReady(1), commitWorkReady: newWorkReady(1), applyWorkReady: newWorkReady(1)}
	n.loaded()
	r.chunks = transport.NewChunk(
		func(mb pb.MessageBatch) { // messageHandler.HandleMessageBatch
			for _, req := range mb.Requests {
				if req.Type != pb.InstallSnapshot || req.To != id {
					panic("c16: unexpected message from Chunk")
				}
				n.mq.MustAdd(req)
			}
		},
		func(uint64, uint64, uint64) {}, // messageHandler.HandleSnapshot: SnapshotReceived to the sender
		rootDirFunc, c16DID, fs)
	// the apply worker initialises the node: initial Recover task
	r.applyWorker()
	r.snapshotWorker()
	r.applyWorker()
	if !n.initialized() {
		panic("c16: node not initialized after the initial recover")
	}
	return r
}

// c16BootSettled is c16Boot for the live runs: the step worker then runs until
// the replica is quiet (a new replica persists its bootstrap entries).
func c16BootSettled(id uint64, kind string, fs vfs.IFS, db raftio.ILogDB, snapdir, smdir string, mark func(string)) *c16Rep {
	r := c16Boot(id, kind, fs, db, snapdir, smdir, mark)
	r.settle()
	return r
}

func (r *c16Rep) stepWorker() {
	r.pipe.step = false
	nodes := map[uint64]*node{c16Shard: r.node}
	active := map[uint64]struct{}{c16Shard: {}}
	if err := r.eng.processSteps(1, active, nodes, make([]pb.Update, 0), nil); err != nil {
		panic(fmt.Sprintf("processSteps failed: %v", err)) // engine.go: panicNow(err)
	}
}

func (r *c16Rep) applyWorker() {
	r.pipe.apply = false
	nodes := map[uint64]*node{c16Shard: r.node}
	if err := r.eng.processApplies(map[uint64]struct{}{c16Shard: {}}, nodes, make([]rsm.Task, 0), make([]sm.Entry, 0)); err != nil {
		panic(fmt.Sprintf("processApplies failed: %v", err)) // engine.go: panicNow(err)
	}
}

// snapshotWorker plays the snapshot worker pool: one job at a time, executed
// by the real ssWorker.handle.
func (r *c16Rep) snapshotWorker() {
	n := r.node
	w := &ssWorker{}
	if r.pipe.recover {
		r.pipe.recover = false
		if req, ok := n.ss.getRecoverReq(); ok {
			if r.mark != nil && !req.Initial {
				r.mark("ev:recover")
			}
			if err := w.handle(job{task: req, node: n, shardID: c16Shard}); err != nil {
				panic(fmt.Sprintf("recover job failed: %v", err)) // engine.go workerMain: panicNow(err)
			}
		}
	}
	if r.pipe.save {
		r.pipe.save = false
		if req, ok := n.ss.getSaveReq(); ok {
			if r.beforeSave != nil {
				r.beforeSave()
			}
			err := w.handle(job{task: req, node: n, shardID: c16Shard})
			if err != nil {
				panic(fmt.Sprintf("save job failed: %v", err)) // engine.go workerMain: panicNow(err)
			}
			if r.afterSave != nil {
				r.afterSave()
			}
		}
	}
}

func (r *c16Rep) progress() string {
	first, last := r.node.logReader.GetRange()
	return fmt.Sprintf("%d/%d/%d/%d/%d/%v", r.node.sm.GetLastApplied(), first, last, len(r.sent), r.node.toApplyQ.Size(), *r.pipe)
}

// settle runs the worker loop bodies until nothing moves any more.
func (r *c16Rep) settle() {
	quiet := 0
	for i := 0; i < 200; i++ {
		before := r.progress()
		r.stepWorker()
		r.applyWorker()
		if r.pipe.save || r.pipe.recover {
			r.snapshotWorker()
			r.collect()
			r.applyWorker()
			quiet = 0
			continue
		}
		r.collect()
		if r.progress() == before {
			quiet++
			if quiet >= 2 {
				return
			}
		} else {
			quiet = 0
		}
	}
	panic("c16: the replica does not become quiet")
}

// collect picks up the results of user requested snapshots: each completed
// one is an acknowledgement to the user.
func (r *c16Rep) collect() {
	keep := r.pendingSS[:0]
	for _, rs := range r.pendingSS {
		select {
		case res := <-rs.ResultC():
			if res.Completed() {
				if r.mark != nil {
					r.mark(fmt.Sprintf("ack:snap:%d", res.SnapshotIndex()))
				}
			}
		default:
			keep = append(keep, rs)
		}
	}
	r.pendingSS = keep
}

// lastIndex returns the last index of the replica's persisted log (snapshot
// marker included).
func (r *c16Rep) lastIndex() uint64 {
	_, last := r.node.logReader.GetRange()
	return last
}

// feed plays the leader: one Replicate message with the entries (last, hi]
// and the given commit index.
func (r *c16Rep) feed(hi, commit uint64) {
	last := r.lastIndex()
	prevTerm := uint64(c16Term)
	if last < c16First {
		prevTerm = 1
	}
	if last == 0 {
		prevTerm = 0
	}
	m := pb.Message{Type: pb.Replicate, From: r.leaderTo, To: r.id, ShardID: c16Shard, Term: c16Term,
		LogIndex: last, LogTerm: prevTerm, Commit: commit}
	for i := last + 1; i <= hi; i++ {
		m.Entries = append(m.Entries, c16Entry(i))
	}
	if added, stopped := r.node.mq.Add(m); !added || stopped {
		panic("c16: message queue refused a message")
	}
	r.settle()
}

// requestSnapshot is NodeHost.RequestSnapshot for the replica.
func (r *c16Rep) requestSnapshot(opt SnapshotOption) {
	rs, err := r.node.requestSnapshot(opt, 1000)
	if err != nil {
		panic(fmt.Sprintf("requestSnapshot refused: %v", err))
	}
	r.pendingSS = append(r.pendingSS, rs)
	r.settle()
}

// ------------------------------------------------------------ snapshot producer (the "leader" side files)

type c16Sink struct {
	to     uint64
	chunks []pb.Chunk
}

func (s *c16Sink) Receive(c pb.Chunk) (bool, bool) {
	c.DeploymentId = c16DID // transport job.streamSnapshot
	c.Data = append([]byte(nil), c.Data...)
	s.chunks = append(s.chunks, c)
	return true, false
}
func (s *c16Sink) Close() error        { return nil }
func (s *c16Sink) ShardID() uint64     { return c16Shard }
func (s *c16Sink) ToReplicaID() uint64 { return s.to }

// c16Produce runs a second real replica (id 1, plain MemFS, own store) over
// the same entry stream up to index x and returns the chunks a leader would
// send for its snapshot at x: for a regular SM the saved snapshot file split
// by the real transport code, for an on-disk SM the real streaming path.
func c16Produce(kind string, x uint64) []pb.Chunk {
	fs := vfs.NewMemFS()
	for _, d := range []string{"/p/snap", "/p/sm"} {
		if err := fs.MkdirAll(d, 0755); err != nil {
			panic(err)
		}
	}
	p := c16BootSettled(c16Leader, kind, fs, memlogdb.New(), "/p/snap", "/p/sm", nil)
	p.leaderTo = 3
	p.feed(x, x)
	if got := p.node.sm.GetLastApplied(); got != x {
		panic(fmt.Sprintf("c16: producer applied %d, want %d", got, x))
	}
	if kind == c16OnDisk {
		sink := &c16Sink{to: c16Self}
		if err := p.node.sm.Stream(sink); err != nil {
			panic(err)
		}
		return sink.chunks
	}
	p.requestSnapshot(SnapshotOption{})
	ss := p.node.logReader.Snapshot()
	if ss.Index != x {
		panic(fmt.Sprintf("c16: producer snapshot at %d, want %d", ss.Index, x))
	}
	m := pb.Message{Type: pb.InstallSnapshot, From: c16Leader, To: c16Self, ShardID: c16Shard, Snapshot: ss}
	old := transport.VerifSetSnapshotChunkSize(1024)
	defer transport.VerifSetSnapshotChunkSize(old)
	chunks, err := transport.VerifSplitSnapshotMessage(m, c16DID, fs)
	if err != nil {
		panic(err)
	}
	return chunks
}

var c16ProduceCache = struct {
	sync.Mutex
	m map[string][]pb.Chunk
}{m: map[string][]pb.Chunk{}}

// c16Chunks caches the produced chunks; one producer at a time (it changes a
// package variable of the transport while it runs).
func c16Chunks(kind string, x uint64) []pb.Chunk {
	k := fmt.Sprintf("%s/%d", kind, x)
	c16ProduceCache.Lock()
	defer c16ProduceCache.Unlock()
	if v, ok := c16ProduceCache.m[k]; ok {
		return v
	}
	c := c16Produce(kind, x)
	c16ProduceCache.m[k] = c
	return c
}

// ------------------------------------------------------------ directory inspection

type c16DirEntry struct {
	Name    string
	Kind    string // temp | flagged | snapshot | other
	Index   uint64
	Problem string // why the snapshot in it is not complete ("" = complete)
}

// c16FileProblem validates one snapshot file with the rsm validator.
func c16FileProblem(fs vfs.IFS, fp string) string {
	f, err := fs.Open(fp)
	if err != nil {
		return "snapshot file cannot be opened: " + c16Short(err.Error())
	}
	defer f.Close()
	data, err := io.ReadAll(f)
	if err != nil {
		return "snapshot file cannot be read: " + c16Short(err.Error())
	}
	if uint64(len(data)) < rsm.HeaderSize {
		return fmt.Sprintf("snapshot file has %d bytes, less than a header", len(data))
	}
	ok := false
	if p := verifkit.Catch(func() {
		v := rsm.NewSnapshotValidator()
		ok = v.AddChunk(data, 0) && v.Validate()
	}); p != "" {
		return "rsm validator panicked: " + c16Short(p)
	}
	if !ok {
		return "rsm validator rejects the snapshot file"
	}
	return ""
}

func c16ListSnapDir(fs vfs.IFS, snapdir string) []c16DirEntry {
	names, err := fs.List(snapdir)
	if err != nil {
		return []c16DirEntry{{Name: snapdir, Kind: "other", Problem: "cannot list: " + err.Error()}}
	}
	sort.Strings(names)
	out := []c16DirEntry{}
	for _, n := range names {
		p := fs.PathJoin(snapdir, n)
		st, err := fs.Stat(p)
		if err != nil || !st.IsDir() {
			continue
		}
		e := c16DirEntry{Name: n, Kind: "other"}
		switch {
		case server.GenSnapshotDirNameRe.MatchString(n) || server.RecvSnapshotDirNameRe.MatchString(n):
			e.Kind = "temp"
		case server.SnapshotDirNameRe.MatchString(n):
			e.Kind = "snapshot"
			parts := server.SnapshotDirNamePartsRe.FindStringSubmatch(n)
			fmt.Sscanf(parts[1], "%X", &e.Index)
			if fileutil.HasFlagFile(p, fileutil.SnapshotFlagFilename, fs) {
				e.Kind = "flagged"
			}
			e.Problem = c16FileProblem(fs, fs.PathJoin(p, server.GetSnapshotFilename(e.Index)))
		}
		out = append(out, e)
	}
	return out
}

func c16Short(s string) string {
	if i := strings.IndexByte(s, '\n'); i >= 0 {
		s = s[:i]
	}
	if len(s) > 220 {
		s = s[:220]
	}
	return s
}

var _ = journalfs.Dump
