//go:build verif

package dragonboat

import (
	"github.com/lni/dragonboat/v4/internal/verifkit"
)

func (w *c16Run) runImport() { panic("todo") }

func c16ImportDirs() (string, string) { return c16SnapDir, c16SMDir }

func c16ReplayErr(c *c16Ctx, rp c16Replay) {}

func c16ErrMain(run *verifkit.Run, res *verifkit.Result) {}
