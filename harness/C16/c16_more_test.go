//go:build verif

// Check C16: the import workload (tools.ImportSnapshot on the journaling FS)
// and the single-fault (error) mode.
package dragonboat

import (
	"fmt"
	"runtime"
	"sort"
	"strings"
	"sync"
	"sync/atomic"

	"github.com/lni/dragonboat/v4/config"
	"github.com/lni/dragonboat/v4/internal/server"
	"github.com/lni/dragonboat/v4/internal/verifkit"
	"github.com/lni/dragonboat/v4/internal/verifkit/journalfs"
	"github.com/lni/dragonboat/v4/internal/verifkit/memlogdb"
	"github.com/lni/dragonboat/v4/internal/vfs"
	"github.com/lni/dragonboat/v4/raftio"
	"github.com/lni/dragonboat/v4/tools"
)

// ------------------------------------------------------------ import

const (
	c16NHDir     = "/c16/nh"
	c16ExportDir = "/c16/export"
)

type c16Factory struct{ db raftio.ILogDB }

func (f *c16Factory) Create(config.NodeHostConfig, config.LogDBCallback, []string, []string) (raftio.ILogDB, error) {
	return f.db, nil
}
func (f *c16Factory) Name() string { return "verif-memlogdb" }

func c16NHConfig(fs vfs.IFS, db raftio.ILogDB) config.NodeHostConfig {
	c := config.NodeHostConfig{NodeHostDir: c16NHDir, RTTMillisecond: 1, RaftAddress: c16Peers()[c16Self], DeploymentID: c16DID}
	c.Expert.FS = fs
	c.Expert.LogDBFactory = &c16Factory{db: db}
	if err := c.Prepare(); err != nil { // NewNodeHost does this first
		panic(err)
	}
	return c
}

var c16ImportDirsOnce struct {
	sync.Once
	snap string
}

// c16ImportDirs returns the snapshot directory server.Env assigns to the
// replica (the import workload uses the real directory layout because
// tools.ImportSnapshot computes it itself).
func c16ImportDirs() (string, string) {
	c16ImportDirsOnce.Do(func() {
		fs := vfs.NewMemFS()
		env, err := server.NewEnv(c16NHConfig(fs, nil), fs)
		if err != nil {
			panic(err)
		}
		c16ImportDirsOnce.snap = env.GetSnapshotDir(c16DID, c16Shard, c16Self)
	})
	return c16ImportDirsOnce.snap, c16SMDir
}

// runImport: a replica with a recorded snapshot and a log exports a snapshot
// (NodeHost.RequestSnapshot with Exported), is stopped, and the exported
// snapshot is imported with tools.ImportSnapshot (same members).
func (w *c16Run) runImport() {
	w.mkdirs()
	db := &c16DB{DB: memlogdb.New(), log: w.log}
	nhc := c16NHConfig(w.hook, db)
	env, err := server.NewEnv(nhc, w.hook)
	if err != nil {
		panic(err)
	}
	// what NodeHost does before it starts replicas
	if _, _, err := env.CreateNodeHostDir(c16DID); err != nil {
		panic(err)
	}
	if err := env.CheckNodeHostDir(nhc, db.BinaryFormat(), db.Name()); err != nil {
		panic(err)
	}
	if err := env.CreateSnapshotDir(c16DID, c16Shard, c16Self); err != nil {
		panic(err)
	}
	if err := w.hook.MkdirAll(c16ExportDir, 0755); err != nil {
		panic(err)
	}
	if f, err := w.hook.OpenDir("/c16"); err == nil {
		_ = f.Sync()
		_ = f.Close()
	}
	snapdir, smdir := c16ImportDirs()
	if got := env.GetSnapshotDir(c16DID, c16Shard, c16Self); got != snapdir {
		panic("c16: snapshot dir mismatch " + got + " " + snapdir)
	}
	w.rep = c16BootSettled(c16Self, w.cfg.Kind, w.hook, db, snapdir, smdir, func(l string) { w.jfs.Mark(l) })
	w.booted()
	w.feed(8, 8)
	w.save(1)
	w.feed(12, 12)
	w.ev("export")
	rs, err := w.rep.node.requestSnapshot(SnapshotOption{Exported: true, ExportPath: c16ExportDir}, 1000)
	if err != nil {
		panic(err)
	}
	w.rep.settle()
	select {
	case res := <-rs.ResultC():
		if !res.Completed() || res.SnapshotIndex() != 12 {
			panic(fmt.Sprintf("c16: export failed: %v %d", res.code, res.SnapshotIndex()))
		}
	default:
		panic("c16: export did not complete")
	}
	w.feed(14, 14)
	w.ev("stopped")
	w.rep.chunks.Close()
	// ---- the operator imports the exported snapshot
	w.ev("import")
	src := w.hook.PathJoin(c16ExportDir, server.GetSnapshotDirName(12))
	if err := tools.ImportSnapshot(nhc, src, c16Peers(), c16Self); err != nil {
		panic(fmt.Sprintf("ImportSnapshot failed: %v", err))
	}
	w.jfs.Mark("ack:import:12")
}

// ------------------------------------------------------------ error mode

// c16ErrCase runs one workload with exactly mutating FS operation #k (counted
// from the end of the first boot) failing once. The run stops at the first
// panic (that is what the engine / NodeHost do with these errors:
// panicNow); afterwards the process is gone and the replica restarts from what
// is durable. If nothing panicked the fault was swallowed: then everything
// acknowledged must hold as well and the workload must have run to its end.
type c16ErrResult struct {
	K       int
	Reached bool
	Site    string
	Phase   string
	Result  string // panic | swallowed
	After   string
	F       *c16Finding
}

func c16ErrCase(cfg c16Cfg, k int) (er c16ErrResult) {
	er.K = k
	w := c16NewRun(cfg)
	// the fault is armed after the first boot
	w.afterBoot = func() { w.jfs.FailAt(w.baseMut+k, nil) }
	pan := verifkit.Catch(w.run)
	failed := w.jfs.Failed()
	if failed == nil {
		if pan != "" {
			er.F = &c16Finding{Key: fmt.Sprintf("C16:%s:%s fails without any fault", cfg.family(), w.stage),
				Desc: fmt.Sprintf("workload %s with fault #%d not reached: phase %s panicked: %s", cfg.name(), k, w.stage, c16Short(pan)), Replay: c16Replay{Mode: "errfs", Cfg: cfg, K: k}}
		}
		return er
	}
	if !w.valid {
		panic("c16: error mode run ended with an invalid schedule: " + w.why)
	}
	er.Reached = true
	er.Site = c16SiteClass(failed)
	j := w.jfs.Journal()
	er.Phase = c16MetaOf(j, failed.Seq).Phase
	er.Result = "panic"
	if pan == "" {
		er.Result = "swallowed"
	}
	if pan != "" && !strings.Contains(pan, "injected") {
		// a panic that does not carry the injected error: still a fail-stop, note it
		er.Result = "panic(other: " + c16Short(pan) + ")"
		if strings.Contains(pan, "c16:") {
			er.F = &c16Finding{Key: fmt.Sprintf("C16:%s:harness panic after fault at %s", cfg.family(), er.Site),
				Desc: fmt.Sprintf("workload %s, fault #%d (%s) in phase %s: %s", cfg.name(), k, er.Site, er.Phase, c16Short(pan)), Replay: c16Replay{Mode: "errfs", Cfg: cfg, K: k, Site: er.Site}}
			return er
		}
	}
	// restart from the durable state (and from the visible state: the process
	// died, the machine did not)
	for _, im := range []journalfs.Image{{Kind: "drop"}, {Kind: "keep"}} {
		// the leader has the whole stream of the fault free run
		cc := &c16Case{Cfg: cfg, J: j, P: len(j.Ops), Im: im, Ops: w.log.ops, L: c16CleanL(cfg)}
		got, f, _, _ := cc.check(nil, false)
		if f != nil {
			how := "the failing call panicked (process death)"
			if pan == "" {
				how = "NO error or panic was raised (fault swallowed), the workload ran to its end"
			}
			clause := strings.SplitN(f.Key, ":", 5)[4] // C16 : family : where : loss : clause
			f.Key = fmt.Sprintf("C16:%s:FS fault in %s:%s:%s", cfg.family(), er.Phase, er.Result0(), clause)
			f.Desc = fmt.Sprintf("workload %s, mutating FS operation #%d (%s) failed once in phase %s; %s; restart from the %s image afterwards: %s", cfg.name(), k, er.Site, er.Phase, how, im.Kind, f.Desc)
			f.Replay = c16Replay{Mode: "errfs", Cfg: cfg, K: k, Site: er.Site}
			er.F = f
			return er
		}
		er.After = fmt.Sprintf("recorded %d applied %d", got.Recorded, got.Applied)
	}
	return er
}

func (er c16ErrResult) Result0() string {
	if strings.HasPrefix(er.Result, "panic") {
		return "panic"
	}
	return er.Result
}

// c16SiteClass names the failed operation without volatile parts.
func c16SiteClass(o *journalfs.Op) string {
	p := o.Path
	if o.Path2 != "" {
		p = o.Path2
	}
	base := p
	if i := strings.LastIndexByte(p, '/'); i >= 0 {
		base = p[i+1:]
	}
	dir := ""
	if i := strings.LastIndexByte(p, '/'); i > 0 {
		d := p[:i]
		if k := strings.LastIndexByte(d, '/'); k >= 0 {
			dir = d[k+1:]
		}
	}
	cls := func(s string) string {
		switch {
		case strings.HasSuffix(s, ".generating"):
			return "<gen-dir>"
		case strings.HasSuffix(s, ".receiving"):
			return "<recv-dir>"
		case strings.HasSuffix(s, ".gbsnap"):
			return "<snapshot-file>"
		case strings.HasSuffix(s, ".shrunk"):
			return "<shrunk-file>"
		case strings.HasPrefix(s, "snapshot-") && !strings.Contains(s, "."):
			return "<final-dir>"
		}
		return s
	}
	if dir != "" {
		return string(o.Kind) + " " + cls(dir) + "/" + cls(base)
	}
	return string(o.Kind) + " " + cls(base)
}

func c16ErrMain(run *verifkit.Run, res *verifkit.Result) {
	c16Quiet()
	res.MaxViolations = 40
	res.Rule = c16Rule()
	res.Assumptions = append(c16Assumptions(), "a failed FS operation has no effect and only that one operation fails (one-shot fault); the step / apply / snapshot workers turn a returned error into a panic (panicNow), which ends the process")
	c := &c16Ctx{Run: run, Res: res, seen: verifkit.NewSet64(), st: verifkit.NewSet64(), n: map[string]int64{}}
	defer func() {
		keys := make([]string, 0, len(c.n))
		for k := range c.n {
			keys = append(keys, k)
		}
		sort.Strings(keys)
		for _, k := range keys {
			res.Extra[k] = c.n[k]
		}
	}()
	if run.Replay != "" {
		var rp c16Replay
		run.LoadReplay(&rp)
		c16DoReplay(c, rp)
		return
	}
	cfgs := []c16Cfg{}
	for _, wl := range []string{"save", "recv"} {
		for _, kind := range []string{c16Regular, c16OnDisk} {
			cfgs = append(cfgs, c16Cfg{WL: wl, Kind: kind})
		}
	}
	cfgs = append(cfgs, c16Cfg{WL: "import", Kind: c16Regular}, c16Cfg{WL: "import", Kind: c16OnDisk})
	for _, kind := range []string{c16Regular, c16OnDisk} {
		// one representative schedule of the race: chunks early, record late
		cfgs = append(cfgs, c16Cfg{WL: "race", Kind: kind, X: 20, K1: 3, K2: 12})
	}
	type item struct {
		cfg c16Cfg
		k   int
	}
	items := []item{}
	for _, cfg := range cfgs {
		w, f := c16CleanRun(cfg)
		if f != nil {
			c.report(f)
			continue
		}
		if !w.valid {
			panic("c16: error mode schedule is not valid: " + w.why)
		}
		n := w.jfs.Mutations() - w.baseMut
		c.add(cfg.family()+".errfs.fault_points", int64(n))
		for k := 0; k < n; k++ {
			items = append(items, item{cfg, k})
		}
	}
	// the race runs probe the process wide server.finalizeLock with TryLock to
	// find out whether their own save is inside FinalizeSnapshot: nothing else
	// may run in this process meanwhile => they are done first, one at a time
	var next int64 = -1
	var wg sync.WaitGroup
	workers := runtime.GOMAXPROCS(0)
	for phase := 0; phase < 2; phase++ {
		serial := phase == 0
		atomic.StoreInt64(&next, -1)
		n := workers
		if serial {
			n = 1
		}
		for g := 0; g < n; g++ {
			wg.Add(1)
			go func() {
				defer wg.Done()
				for {
					i := int(atomic.AddInt64(&next, 1))
					if i >= len(items) {
						return
					}
					if !run.Mine(uint64(i)) || (items[i].cfg.WL == "race") != serial {
						continue
					}
					if run.Expired() {
						res.Cap("deadline reached in error mode")
						return
					}
					c16ErrItem(c, items[i].cfg, items[i].k)
				}
			}()
		}
		wg.Wait()
	}
}

// c16ErrItem runs one fault case and files its result.
func c16ErrItem(c *c16Ctx, cfg c16Cfg, k int) {
	res := c.Res
	er := c16ErrCase(cfg, k)
	atomic.AddInt64(&res.Evaluations, 1)
	fam := cfg.family()
	if !er.Reached {
		res.Outcome(fam + "|errfs|fault ordinal not reached")
		res.Cap(fmt.Sprintf("%s: fault ordinal %d was not reached (the run is not deterministic?)", cfg.name(), k))
		return
	}
	atomic.AddInt64(&res.DistinctNontrivial, 1)
	c.add(fam+".errfs.exercised", 1)
	if er.F != nil {
		c.report(er.F)
		return
	}
	res.Outcome(fmt.Sprintf("%s|errfs|%s in %s|%s|restart ok", fam, er.Site, er.Phase, er.Result0()))
	res.Sample(4, map[string]interface{}{"workload": cfg.name(), "fault": k, "site": er.Site, "phase": er.Phase, "result": er.Result, "after_restart": er.After})
}

func c16ReplayErr(c *c16Ctx, rp c16Replay) {
	// the runs are deterministic (no goroutines): ordinal K is exact
	er := c16ErrCase(rp.Cfg, rp.K)
	atomic.AddInt64(&c.Res.Evaluations, 1)
	if er.F != nil {
		c.report(er.F)
	}
}

var c16CleanLCache sync.Map

// c16CleanL is the leader's last index in the fault free run of cfg.
func c16CleanL(cfg c16Cfg) uint64 {
	if v, ok := c16CleanLCache.Load(cfg.name()); ok {
		return v.(uint64)
	}
	w, f := c16CleanRun(cfg)
	if f != nil || !w.valid {
		panic("c16: no clean run for " + cfg.name())
	}
	c16CleanLCache.Store(cfg.name(), w.L)
	return w.L
}
