//go:build verif

// C16 part `nodehost`: the start-up cleanup as NodeHost performs it.
//
// The crash parts call the start-up functions (processOrphans, replayLog,
// Recover) themselves; the decision WHETHER and IN WHICH ORDER they run at
// start-up is NodeHost.startShard's. This part runs a real NodeHost (MemFS,
// in-memory log store plugged in through Expert.LogDBFactory, no-op network)
// with a single-replica shard, stops it, leaves behind every combination of the
// directories a crash leaves in the replica's snapshot directory - built with
// the real server.SSEnv, i.e. exactly what the snapshot code creates up to the
// crash point: a `.generating` directory (crash while saving), a `.receiving`
// directory (crash while receiving), a finalized directory that still carries
// its flag file and is not recorded in the log store (crash between
// FinalizeSnapshot and the record), newer and older than the recorded snapshot
// - and restarts NodeHost and the replica.
//
// Configurations: state machine kind x SnapshotEntries (0 = automatic
// snapshotting off, >0) x every non-empty subset of the four leftover kinds.
// Oracle (the statement of C16): the restart succeeds; only the recorded
// snapshot directory remains, unflagged, with a file that validates; no
// temporary or flagged directory is left; the replica serves the state of
// everything acknowledged before the stop.
package dragonboat

import (
	"context"
	"fmt"
	"io"
	"sort"
	"strings"
	"testing"
	"time"

	"github.com/lni/dragonboat/v4/config"
	"github.com/lni/dragonboat/v4/internal/fileutil"
	"github.com/lni/dragonboat/v4/internal/rsm"
	"github.com/lni/dragonboat/v4/internal/server"
	"github.com/lni/dragonboat/v4/internal/verifkit"
	"github.com/lni/dragonboat/v4/internal/verifkit/memlogdb"
	"github.com/lni/dragonboat/v4/internal/vfs"
	"github.com/lni/dragonboat/v4/raftio"
	pb "github.com/lni/dragonboat/v4/raftpb"
	sm "github.com/lni/dragonboat/v4/statemachine"
)

const c16nShard = 77

type c16nSM struct{ n uint64 }

func (s *c16nSM) Update(e sm.Entry) (sm.Result, error) {
	s.n += uint64(len(e.Cmd))
	return sm.Result{Value: s.n}, nil
}
func (s *c16nSM) Lookup(interface{}) (interface{}, error) { return s.n, nil }
func (s *c16nSM) SaveSnapshot(w io.Writer, _ sm.ISnapshotFileCollection, _ <-chan struct{}) error {
	_, err := w.Write([]byte(fmt.Sprintf("%020d", s.n)))
	return err
}
func (s *c16nSM) RecoverFromSnapshot(r io.Reader, _ []sm.SnapshotFile, _ <-chan struct{}) error {
	b, err := io.ReadAll(r)
	if err != nil {
		return err
	}
	_, err = fmt.Sscanf(string(b), "%d", &s.n)
	return err
}
func (s *c16nSM) Close() error { return nil }

// on-disk variant: the durable state lives in the configuration's world
type c16nDiskSM struct {
	w   *c16nWorld
	cur [2]uint64 // n, last index
}

func (s *c16nDiskSM) Open(<-chan struct{}) (uint64, error) {
	s.cur = s.w.disk
	return s.cur[1], nil
}
func (s *c16nDiskSM) Update(es []sm.Entry) ([]sm.Entry, error) {
	for i := range es {
		s.cur[0] += uint64(len(es[i].Cmd))
		s.cur[1] = es[i].Index
		es[i].Result = sm.Result{Value: s.cur[0]}
	}
	return es, nil
}
func (s *c16nDiskSM) Lookup(interface{}) (interface{}, error) { return s.cur[0], nil }
func (s *c16nDiskSM) Sync() error                             { s.w.disk = s.cur; return nil }
func (s *c16nDiskSM) PrepareSnapshot() (interface{}, error)   { return s.cur, nil }
func (s *c16nDiskSM) SaveSnapshot(ctx interface{}, w io.Writer, _ <-chan struct{}) error {
	c := ctx.([2]uint64)
	_, err := w.Write([]byte(fmt.Sprintf("%020d %020d", c[0], c[1])))
	return err
}
func (s *c16nDiskSM) RecoverFromSnapshot(r io.Reader, _ <-chan struct{}) error {
	b, err := io.ReadAll(r)
	if err != nil {
		return err
	}
	if _, err = fmt.Sscanf(string(b), "%d %d", &s.cur[0], &s.cur[1]); err != nil {
		return err
	}
	s.w.disk = s.cur
	return nil
}
func (s *c16nDiskSM) Close() error { return nil }

type c16nNet struct{}

func (c16nNet) Name() string { return "verif-c16-nonet" }
func (c16nNet) Start() error { return nil }
func (c16nNet) Close() error { return nil }
func (c16nNet) GetConnection(context.Context, string) (raftio.IConnection, error) {
	return nil, fmt.Errorf("no network")
}
func (c16nNet) GetSnapshotConnection(context.Context, string) (raftio.ISnapshotConnection, error) {
	return nil, fmt.Errorf("no network")
}

type c16nNetFactory struct{}

func (c16nNetFactory) Create(config.NodeHostConfig, raftio.MessageHandler, raftio.ChunkHandler) raftio.ITransport {
	return c16nNet{}
}
func (c16nNetFactory) Validate(string) bool { return true }

type c16nDBFactory struct{ db *memlogdb.DB }

func (f c16nDBFactory) Create(config.NodeHostConfig, config.LogDBCallback, []string, []string) (raftio.ILogDB, error) {
	return f.db, nil
}
func (f c16nDBFactory) Name() string { return "verif-memlogdb" }

type c16nCfg struct {
	Kind      string `json:"kind"`             // regular | ondisk
	SSEntries uint64 `json:"snapshot_entries"` // config.Config.SnapshotEntries
	Left      int    `json:"leftovers"`        // bit set: 1 generating, 2 receiving, 4 flagged newer, 8 flagged older
}

func (c c16nCfg) id() string { return fmt.Sprintf("%s/ss%d/left%d", c.Kind, c.SSEntries, c.Left) }

type c16nWorld struct {
	cfg  c16nCfg
	fs   vfs.IFS
	db   *memlogdb.DB
	disk [2]uint64
}

func (w *c16nWorld) nhConfig() config.NodeHostConfig {
	ec := config.ExpertConfig{FS: w.fs, LogDBFactory: c16nDBFactory{db: w.db}, TransportFactory: c16nNetFactory{},
		Engine: config.EngineConfig{ExecShards: 1, CommitShards: 1, ApplyShards: 1, SnapshotShards: 1, CloseShards: 1}}
	return config.NodeHostConfig{NodeHostDir: "/c16nh", RTTMillisecond: 1, RaftAddress: "c16nh-1:1", Expert: ec}
}

func (w *c16nWorld) start(nh *NodeHost, initial bool) error {
	rc := config.Config{ReplicaID: 1, ShardID: c16nShard, ElectionRTT: 5, HeartbeatRTT: 1, SnapshotEntries: w.cfg.SSEntries, CompactionOverhead: 1}
	members := map[uint64]Target{}
	if initial {
		members[1] = "c16nh-1:1"
	}
	if w.cfg.Kind == "ondisk" {
		return nh.StartOnDiskReplica(members, false, func(uint64, uint64) sm.IOnDiskStateMachine { return &c16nDiskSM{w: w} }, rc)
	}
	return nh.StartReplica(members, false, func(uint64, uint64) sm.IStateMachine { return &c16nSM{} }, rc)
}

// waits (generously; a slow machine is not a violation) until the replica leads
func c16nWaitLeader(nh *NodeHost) bool {
	for i := 0; i < 60000; i++ {
		if id, _, ok, err := nh.GetLeaderID(c16nShard); err == nil && ok && id == 1 {
			return true
		}
		time.Sleep(time.Millisecond)
	}
	return false
}

func c16nListDirs(fs vfs.IFS, dir string) []string {
	names, err := fs.List(dir)
	if err != nil {
		return nil
	}
	sort.Strings(names)
	return names
}

// runs one configuration; returns a violation description or "", and whether
// the run was conclusive (a NodeHost that does not elect itself in a minute on
// an overloaded machine is inconclusive, not a violation)
func c16nRun(cfg c16nCfg) (viol string, conclusive bool) {
	w := &c16nWorld{cfg: cfg, fs: vfs.NewMemFS(), db: memlogdb.New()}
	nh, err := NewNodeHost(w.nhConfig())
	if err != nil {
		return "first NewNodeHost failed: " + err.Error(), true
	}
	if err := w.start(nh, true); err != nil {
		return "first StartReplica failed: " + err.Error(), true
	}
	if !c16nWaitLeader(nh) {
		nh.Close()
		return "", false
	}
	sess := nh.GetNoOPSession(c16nShard)
	total := uint64(0)
	propose := func(n int) bool {
		for i := 0; i < n; i++ {
			ctx, cancel := context.WithTimeout(context.Background(), 30*time.Second)
			_, err := nh.SyncPropose(ctx, sess, []byte("abc"))
			cancel()
			if err != nil {
				return false
			}
			total += 3
		}
		return true
	}
	if !propose(3) {
		nh.Close()
		return "", false
	}
	ctx, cancel := context.WithTimeout(context.Background(), 30*time.Second)
	ssIndex, err := nh.SyncRequestSnapshot(ctx, c16nShard, SnapshotOption{})
	cancel()
	if err != nil {
		nh.Close()
		return "", false
	}
	if !propose(2) {
		nh.Close()
		return "", false
	}
	dir := nh.env.GetSnapshotDir(nh.nhConfig.GetDeploymentID(), c16nShard, 1)
	nh.Close()
	// ---- what a crash leaves behind
	rootFn := func(uint64, uint64) string { return dir }
	plant := func(index uint64, mode server.Mode, finalize bool) string {
		env := server.NewSSEnv(rootFn, c16nShard, 1, index, 2, mode, w.fs)
		if err := env.CreateTempDir(); err != nil {
			panic(err)
		}
		f, err := w.fs.Create(env.GetTempFilepath())
		if err != nil {
			panic(err)
		}
		if _, err := f.Write([]byte("partial snapshot image")); err != nil {
			panic(err)
		}
		if err := f.Close(); err != nil {
			panic(err)
		}
		if finalize {
			if err := env.FinalizeSnapshot(&pb.Snapshot{Index: index, Term: 1, ShardID: c16nShard}); err != nil {
				panic(err)
			}
			return env.GetFinalDir()
		}
		return env.GetTempDir()
	}
	var planted []string
	if cfg.Left&1 != 0 {
		planted = append(planted, plant(ssIndex+5, server.SnapshotMode, false))
	}
	if cfg.Left&2 != 0 {
		planted = append(planted, plant(ssIndex+6, server.ReceivingMode, false))
	}
	if cfg.Left&4 != 0 {
		planted = append(planted, plant(ssIndex+7, server.ReceivingMode, true))
	}
	if cfg.Left&8 != 0 && ssIndex > 1 {
		planted = append(planted, plant(ssIndex-1, server.SnapshotMode, true))
	}
	before := c16nListDirs(w.fs, dir)
	// ---- restart
	nh2, err := NewNodeHost(w.nhConfig())
	if err != nil {
		return "NewNodeHost after the crash failed: " + err.Error(), true
	}
	defer nh2.Close()
	var startErr error
	if p := verifkit.Catch(func() { startErr = w.start(nh2, false) }); p != "" {
		return "StartReplica after the crash panicked: " + p, true
	}
	if startErr != nil {
		return "StartReplica after the crash failed: " + startErr.Error(), true
	}
	if !c16nWaitLeader(nh2) {
		return "", false
	}
	ctx, cancel = context.WithTimeout(context.Background(), 30*time.Second)
	v, err := nh2.SyncRead(ctx, c16nShard, nil)
	cancel()
	if err != nil {
		return "", false
	}
	if got := v.(uint64); got != total {
		return fmt.Sprintf("the restarted replica serves state %d, acknowledged before the stop: %d", got, total), true
	}
	after := c16nListDirs(w.fs, dir)
	recorded := fmt.Sprintf("snapshot-%016X", ssIndex)
	for _, name := range after {
		full := w.fs.PathJoin(dir, name)
		switch {
		case strings.HasSuffix(name, ".generating") || strings.HasSuffix(name, ".receiving"):
			return fmt.Sprintf("temporary directory %s survived the restart (before: %v, after: %v)", name, before, after), true
		case strings.HasPrefix(name, "snapshot-"):
			if fileutil.HasFlagFile(full, fileutil.SnapshotFlagFilename, w.fs) {
				return fmt.Sprintf("flagged (never committed) snapshot directory %s survived the restart (before: %v, after: %v)", name, before, after), true
			}
		}
	}
	found := false
	for _, name := range after {
		if name == recorded {
			found = true
		}
	}
	if !found {
		// a newer snapshot taken after the restart may have replaced it (SnapshotEntries > 0)
		ss, err := w.db.GetSnapshot(c16nShard, 1)
		if err != nil || ss.Index < ssIndex {
			return fmt.Sprintf("the snapshot recorded before the crash (%s) is gone and no newer one is recorded (after: %v)", recorded, after), true
		}
		recorded = fmt.Sprintf("snapshot-%016X", ss.Index)
	}
	if cfg.Kind != "ondisk" {
		ss, err := w.db.GetSnapshot(c16nShard, 1)
		if err != nil {
			return "no snapshot recorded after the restart", true
		}
		fp := w.fs.PathJoin(dir, fmt.Sprintf("snapshot-%016X", ss.Index), fmt.Sprintf("snapshot-%016X.gbsnap", ss.Index))
		if ok, err := rsm.IsShrunkSnapshotFile(fp, w.fs); err != nil {
			return fmt.Sprintf("the recorded snapshot file %s cannot be opened: %v", fp, err), true
		} else if ok {
			return fmt.Sprintf("the recorded snapshot file of a regular state machine is shrunk: %s", fp), true
		}
	}
	_ = planted
	return "", true
}

type c16nReplay struct {
	Cfg  c16nCfg `json:"cfg"`
	Part string  `json:"part"`
}

func TestVerifC16NodeHost(t *testing.T) {
	run := verifkit.Env()
	res := verifkit.NewResult()
	defer run.Finish(res)
	c16Quiet()
	res.Rule = "case = one configuration (state machine kind x SnapshotEntries x non-empty subset of crash leftovers) run on a real NodeHost: start, proposals, snapshot, proposals, stop, leftovers planted with the real SSEnv, restart; non-trivial = every case (each has at least one leftover and a recorded snapshot)"
	res.Assumptions = []string{
		"free-running NodeHost (no schedule control); in-memory log store behind Expert.LogDBFactory; leftovers are planted with the real SSEnv instead of being produced by an injected crash (the crash parts show that exactly these shapes arise)",
		"a NodeHost that does not become leader / answer within 30-60 s is counted as inconclusive, never as a violation",
	}
	var rp c16nReplay
	if run.LoadReplay(&rp) {
		if v, _ := c16nRun(rp.Cfg); v != "" {
			res.Violate("C16:nodehost:"+c16nKey(v), rp.Cfg.id()+": "+v, rp)
		}
		res.Evaluations = 1
		return
	}
	var cfgs []c16nCfg
	for _, kind := range []string{"regular", "ondisk"} {
		for _, sse := range []uint64{0, 100} {
			for left := 1; left < 16; left++ {
				cfgs = append(cfgs, c16nCfg{Kind: kind, SSEntries: sse, Left: left})
			}
		}
	}
	inconclusive := 0
	for i, cfg := range cfgs {
		if i%run.Shards != run.Shard {
			continue
		}
		if run.Expired() {
			res.Cap("deadline reached")
			break
		}
		v, ok := c16nRun(cfg)
		res.Evaluations++
		if !ok {
			inconclusive++
			continue
		}
		res.DistinctNontrivial++
		res.Outcome(fmt.Sprintf("%s/ss%d", cfg.Kind, cfg.SSEntries))
		res.Sample(2, cfg)
		if v != "" {
			res.Violate("C16:nodehost:"+c16nKey(v), cfg.id()+": "+v, c16nReplay{Cfg: cfg, Part: "nodehost"})
		}
	}
	if run.Shard == 0 {
		res.Extra["nodehost_configurations"] = len(cfgs)
	}
	res.Extra["nodehost_inconclusive"] = inconclusive
}

func c16nKey(v string) string {
	out := make([]byte, 0, 60)
	for i := 0; i < len(v) && len(out) < 60; i++ {
		if v[i] >= '0' && v[i] <= '9' {
			continue
		}
		out = append(out, v[i])
	}
	return string(out)
}
