//go:build verif

package dragonboat

import (
	"testing"

	"github.com/lni/dragonboat/v4/internal/verifkit"
)

// TestVerifC16Crash: crash-point enumeration (part "crash").
func TestVerifC16Crash(t *testing.T) {
	run := verifkit.Env()
	res := verifkit.NewResult()
	defer run.Finish(res)
	c16Main(run, res)
}

// TestVerifC16Err: single FS fault enumeration (part "errfs").
func TestVerifC16Err(t *testing.T) {
	run := verifkit.Env()
	res := verifkit.NewResult()
	defer run.Finish(res)
	c16ErrMain(run, res)
}
