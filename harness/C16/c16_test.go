//go:build verif

package dragonboat

import (
	"encoding/json"
	"os"
	"testing"

	"github.com/lni/dragonboat/v4/internal/verifkit"
	"github.com/lni/dragonboat/v4/internal/verifkit/journalfs"
)

// TestVerifC16Crash: crash-point enumeration (part "crash").
func TestVerifC16Crash(t *testing.T) {
	run := verifkit.Env()
	res := verifkit.NewResult()
	defer run.Finish(res)
	c16Main(run, res)
}

// TestVerifC16Err: single FS fault enumeration (part "errfs").
func TestVerifC16Err(t *testing.T) {
	run := verifkit.Env()
	res := verifkit.NewResult()
	defer run.Finish(res)
	c16ErrMain(run, res)
}

// TestVerifC16Debug prints the journal of one workload (development aid).
func TestVerifC16Debug(t *testing.T) {
	cfgs := os.Getenv("VERIF_C16_DEBUG")
	if cfgs == "" {
		t.Skip()
	}
	c16Quiet()
	var cfg c16Cfg
	if err := json.Unmarshal([]byte(cfgs), &cfg); err != nil {
		t.Fatal(err)
	}
	w, f := c16CleanRun(cfg)
	if f != nil {
		t.Log(f.Desc)
	}
	t.Logf("valid=%v why=%s L=%d saveK=%d from=%d", w.valid, w.why, w.L, w.saveK, w.from)
	for _, o := range w.jfs.Journal().Ops {
		t.Log(o.String())
	}
	for i, o := range w.log.ops {
		s := string(o)
		if len(s) > 300 {
			s = s[:300]
		}
		t.Logf("db[%d] %s", i, s)
	}
	for _, m := range w.rep.sent {
		t.Logf("sent %s to %d idx %d reject %v hint %d", m.Type, m.To, m.LogIndex, m.Reject, m.Hint)
	}
}

// TestVerifC16Probe materialises one crash image of a workload and prints the
// directory before and after the start-up (development aid).
func TestVerifC16Probe(t *testing.T) {
	spec := os.Getenv("VERIF_C16_PROBE") // {"cfg":{...},"p":184,"image":{"kind":"drop"}}
	if spec == "" {
		t.Skip()
	}
	c16Quiet()
	var sp struct {
		Cfg   c16Cfg          `json:"cfg"`
		P     int             `json:"p"`
		Image journalfs.Image `json:"image"`
	}
	if err := json.Unmarshal([]byte(spec), &sp); err != nil {
		t.Fatal(err)
	}
	w, f := c16CleanRun(sp.Cfg)
	if f != nil {
		t.Fatal(f.Desc)
	}
	j := w.jfs.Journal()
	cc := &c16Case{Cfg: sp.Cfg, J: j, P: sp.P, Im: sp.Image, Ops: w.log.ops, L: w.L}
	mem := cc.build()
	t.Logf("image:\n%s", journalfs.Dump(mem, "/"))
	meta := c16MetaOf(j, sp.P)
	got, prob, rec, _ := c16Startup(sp.Cfg, mem, c16BuildDB(w.log.ops, meta.DBN), meta, w.L, true, nil)
	t.Logf("got %v prob %+v", got, prob)
	if rec != nil {
		for _, o := range rec.Ops {
			t.Log("  startup: " + o.String())
		}
	}
	t.Logf("after:\n%s", journalfs.Dump(mem, "/"))
}
