#!/usr/bin/env python3
"""C16 mutants. Usage: git -C /repo worktree add --detach /tmp/wt-C16 HEAD; python3 mutants.py <name> (or: list); cd /verif && VERIF_REPO=/tmp/wt-C16 ./check C16; git -C /tmp/wt-C16 checkout -- ."""
import sys
WT="/tmp/wt-C16/"
def sub(path, old, new, count=1):
    p=WT+path
    s=open(p).read()
    assert old in s, (path, old[:60])
    s=s.replace(old,new,count)
    open(p,'w').write(s)
M={}
def m(f): M[f.__name__]=f; return f

@m
def M1_rename_before_flag():
    # FinalizeSnapshot: rename first, flag file created in the final dir afterwards
    sub("internal/server/snapshotenv.go",
'''	if err := se.createFlagFile(msg); err != nil {
		return err
	}
	if se.finalDirExists() {
		return ErrSnapshotOutOfDate
	}
	return se.renameToFinalDir()''',
'''	if se.finalDirExists() {
		return ErrSnapshotOutOfDate
	}
	if err := se.renameToFinalDir(); err != nil {
		return err
	}
	return fileutil.CreateFlagFile(se.finalDir,
		fileutil.SnapshotFlagFilename, msg, se.fs)''')
@m
def M2_no_dirsync_after_rename():
    sub("internal/server/snapshotenv.go",
'''	if err := se.fs.Rename(se.tmpDir, se.finalDir); err != nil {
		return err
	}
	return fileutil.SyncDir(se.rootDir, se.fs)''',
'''	if err := se.fs.Rename(se.tmpDir, se.finalDir); err != nil {
		return err
	}
	return nil''')
@m
def M3_record_before_finalize():
    sub("snapshotter.go",
'''	if err := env.FinalizeSnapshot(&ss); err != nil {
		if errors.Is(err, server.ErrSnapshotOutOfDate) {
			return errSnapshotOutOfDate
		}
		return err
	}
	if !req.Exported() {
		if err := s.saveSnapshot(ss); err != nil {
			return err
		}
	}''',
'''	if !req.Exported() {
		if err := s.saveSnapshot(ss); err != nil {
			return err
		}
	}
	if err := env.FinalizeSnapshot(&ss); err != nil {
		if errors.Is(err, server.ErrSnapshotOutOfDate) {
			return errSnapshotOutOfDate
		}
		return err
	}''')
@m
def M4_flag_removed_before_record():
    sub("engine.go",
'''	if err := e.logdb.SaveRaftState(nodeUpdates, workerID); err != nil {
		return err
	}
	if err := e.onSnapshotSaved(nodeUpdates, nodes); err != nil {
		return err
	}''',
'''	if err := e.onSnapshotSaved(nodeUpdates, nodes); err != nil {
		return err
	}
	if err := e.logdb.SaveRaftState(nodeUpdates, workerID); err != nil {
		return err
	}''')
@m
def M5_orphan_not_removed():
    sub("snapshotter.go",
'''			if remove {
				if err := s.remove(ss.Index); err != nil {
					return err
				}
			} else {''',
'''			if remove {
				plog.Infof("keeping %s", fdir)
			} else {''')
@m
def M6_no_fsync_snapshot_file():
    sub("internal/rsm/snapshotio.go",
'''	err = firstError(err, sw.saveHeader())
	err = firstError(err, sw.file.Sync())''',
'''	err = firstError(err, sw.saveHeader())''')
@m
def M7_shrink_before_sync():
    sub("node.go",
'''			if err := n.sm.Sync(); err != nil {
				return 0, errors.Wrapf(err, "%s sync failed", n.id())
			}
			if err := n.snapshotter.Shrink(ss.Index); err != nil {
				return 0, errors.Wrapf(err, "%s shrink failed", n.id())
			}''',
'''			if err := n.snapshotter.Shrink(ss.Index); err != nil {
				return 0, errors.Wrapf(err, "%s shrink failed", n.id())
			}
			if err := n.sm.Sync(); err != nil {
				return 0, errors.Wrapf(err, "%s sync failed", n.id())
			}''')
@m
def M8_zombie_not_removed():
    sub("snapshotter.go",
'''		} else if s.isZombie(fi.Name()) {
			if err := removeFolder(fdir); err != nil {
				return err
			}''',
'''		} else if s.isZombie(fi.Name()) {
			plog.Infof("keeping %s", fdir)''')
@m
def M16_unrecorded_snapshot_not_removed():
    sub("snapshotter.go",
'''			if noss || index != mrss.Index {
				if err := removeFolder(fdir); err != nil {
					return err
				}
			}''',
'''			if noss || index != mrss.Index {
				plog.Infof("keeping %s", fdir)
			}''')
@m
def M17_M4_plus_M16():
    M4_flag_removed_before_record()
    M16_unrecorded_snapshot_not_removed()
@m
def M9_chunk_no_fsync():
    sub("internal/transport/chunk.go",
'''	if chunk.IsLastChunk() || chunk.IsLastFileChunk() {
		if err := f.sync(); err != nil {
			return err
		}
	}''',
'''	if chunk.IsLastChunk() && chunk.IsLastFileChunk() && len(chunk.Data) == 0 {
		if err := f.sync(); err != nil {
			return err
		}
	}''')
@m
def M10_compact_old_before_commit():
    # doSave: LogReader.CreateSnapshot (drops the reference to the older snapshot => its
    # directory is removed) before the new snapshot is committed / recorded
    sub("node.go",
'''	if err := n.snapshotter.Commit(ss, req); err != nil {''',
'''	if !req.Exported() {
		if err := n.logReader.CreateSnapshot(ss); err != nil && !isSoftSnapshotError(err) {
			return 0, err
		}
	}
	if err := n.snapshotter.Commit(ss, req); err != nil {''')
    sub("node.go",
'''	if err = n.logReader.CreateSnapshot(ss); err != nil {
		if isSoftSnapshotError(err) {
			return 0, nil
		}
		return 0, errors.Wrapf(err, "%s create snapshot failed", n.id())
	}
	n.compactLog(req, ss.Index)''',
'''	n.compactLog(req, ss.Index)''')
@m
def M11_fastapply_snapshot():
    # an update carrying a snapshot is applied (LogReader.ApplySnapshot => older snapshot
    # compacted) before SaveRaftState records it
    sub("internal/raft/peer.go",
'''	if !pb.IsEmptySnapshot(ud.Snapshot) {
		ud.FastApply = false
	}''',
'''	if !pb.IsEmptySnapshot(ud.Snapshot) {
		ud.FastApply = true
	}''')
@m
def M12_flagfile_no_fsync():
    sub("internal/fileutil/utils.go",
'''	if n != len(data) {
		return ws(io.ErrShortWrite)
	}
	return ws(f.Sync())''',
'''	if n != len(data) {
		return ws(io.ErrShortWrite)
	}
	return nil''')
@m
def M13_no_metadata_no_tmpdir_sync():
    # Mkdir of the temp dir without syncing the parent
    sub("internal/fileutil/utils.go",
'''	if err := fs.MkdirAll(dir, defaultDirFileMode); err != nil {
		return err
	}
	return SyncDir(parent, fs)''',
'''	if err := fs.MkdirAll(dir, defaultDirFileMode); err != nil {
		return err
	}
	return nil''')
@m
def M14_shrink_no_dirsync():
    sub("internal/rsm/snapshotio.go",
'''	if err := fs.Rename(newFp, fp); err != nil {
		return err
	}
	return fileutil.SyncDir(fs.PathDir(fp), fs)''',
'''	if err := fs.Rename(newFp, fp); err != nil {
		return err
	}
	return nil''')
@m
def M15_commit_flag_removed_before_record():
    # snapshotter.Commit: the flag file is removed before the snapshot is recorded
    sub("snapshotter.go",
'''	if !req.Exported() {
		if err := s.saveSnapshot(ss); err != nil {
			return err
		}
	}
	return env.RemoveFlagFile()''',
'''	if err := env.RemoveFlagFile(); err != nil {
		return err
	}
	if !req.Exported() {
		if err := s.saveSnapshot(ss); err != nil {
			return err
		}
	}
	return nil''')

if __name__=="__main__":
    if sys.argv[1]=="list":
        print(" ".join(M.keys()))
    else:
        M[sys.argv[1]]()
