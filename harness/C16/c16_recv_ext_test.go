//go:build verif

// C16, part recv-ext: a snapshot image with EXTERNAL files received through the
// real transport.Chunk on a strict in-memory file system. The replica crashes
// (all unsynced file data and directory entries are lost) after every chunk
// and after the hand-over of the InstallSnapshot message; whatever snapshot
// directory is visible afterwards must be complete, and once the message was
// handed to raft the directory must be there. (The other C16 parts cannot
// cover external files: a locally saved snapshot links them with os.Link.)
package transport

import (
	"bytes"
	"fmt"
	"strings"
	"testing"

	"github.com/lni/dragonboat/v4/internal/fileutil"
	"github.com/lni/dragonboat/v4/internal/rsm"
	"github.com/lni/dragonboat/v4/internal/server"
	"github.com/lni/dragonboat/v4/internal/utils/dio"
	"github.com/lni/dragonboat/v4/internal/verifkit"
	"github.com/lni/dragonboat/v4/internal/vfs"
	"github.com/lni/dragonboat/v4/logger"
	pb "github.com/lni/dragonboat/v4/raftpb"
	gvfs "github.com/lni/vfs"
)

const (
	c16xShard, c16xReplica, c16xFrom = 7, 2, 1
	c16xIndex, c16xTerm, c16xDid     = 40, 3, 11
)

func c16xBytes(seed, n int) []byte {
	b := make([]byte, n)
	x := uint32(seed*2654435761 + 12345)
	for i := range b {
		x = x*1664525 + 1013904223
		b[i] = byte(x >> 24)
	}
	return b
}

type c16xCase struct {
	payload int
	ext     []int
}

func (c c16xCase) String() string { return fmt.Sprintf("main payload %d B, external files %v", c.payload, c.ext) }

// c16xBuild writes the image on the sender FS and returns the chunks the real
// sender puts on the wire plus the expected content of every file.
func c16xBuild(c c16xCase) ([]pb.Chunk, map[string][]byte) {
	fs := vfs.NewMemFS()
	dir := "/sender/" + server.GetSnapshotDirName(c16xIndex)
	if err := fs.MkdirAll(dir, 0755); err != nil {
		panic(err)
	}
	mainName := server.GetSnapshotFilename(c16xIndex)
	fp := fs.PathJoin(dir, mainName)
	w, err := rsm.NewSnapshotWriter(fp, pb.NoCompression, fs)
	if err != nil {
		panic(err)
	}
	cw := dio.NewCountedWriter(w)
	sw := dio.NewCompressor(pb.NoCompression, cw)
	if _, err := sw.Write(c16xBytes(1, c.payload)); err != nil {
		panic(err)
	}
	if err := sw.Close(); err != nil {
		panic(err)
	}
	read := func(p string) []byte {
		f, err := fs.Open(p)
		if err != nil {
			panic(err)
		}
		defer f.Close()
		var b bytes.Buffer
		if _, err := b.ReadFrom(f); err != nil {
			panic(err)
		}
		return b.Bytes()
	}
	files := map[string][]byte{mainName: read(fp)}
	ss := pb.Snapshot{Filepath: fp, FileSize: uint64(len(files[mainName])), Index: c16xIndex, Term: c16xTerm,
		Membership: pb.Membership{Addresses: map[uint64]string{1: "a1", 2: "a2", 3: "a3"}}}
	for i, sz := range c.ext {
		sf := &pb.SnapshotFile{FileId: uint64(i + 1), FileSize: uint64(sz), Metadata: c16xBytes(50+i, 8+i)}
		sf.Filepath = fs.PathJoin(dir, sf.Filename())
		content := c16xBytes(10+i, sz)
		f, err := fs.Create(sf.Filepath)
		if err != nil {
			panic(err)
		}
		if _, err := f.Write(content); err != nil {
			panic(err)
		}
		if err := f.Close(); err != nil {
			panic(err)
		}
		files[sf.Filename()] = content
		ss.Files = append(ss.Files, sf)
	}
	m := pb.Message{Type: pb.InstallSnapshot, From: c16xFrom, To: c16xReplica, ShardID: c16xShard, Snapshot: ss}
	chunks, err := VerifSplitSnapshotMessage(m, c16xDid, fs)
	if err != nil {
		panic(err)
	}
	out := make([]pb.Chunk, 0, len(chunks))
	for _, ch := range chunks {
		data := pb.MustMarshal(&ch)
		var cp pb.Chunk
		pb.MustUnmarshal(&cp, data)
		out = append(out, cp)
	}
	return out, files
}

func TestVerifC16RecvExt(t *testing.T) {
	logger.GetLogger("transport").SetLevel(logger.CRITICAL)
	logger.GetLogger("rsm").SetLevel(logger.CRITICAL)
	run := verifkit.Env()
	res := verifkit.NewResult()
	defer run.Finish(res)
	res.Rule = "every image case x every crash point (after each chunk handed to the real transport.Chunk.Add, and after the last one) on a strict in-memory FS; crash = all unsynced file data and directory entries lost; evaluation = one crash image inspected; non-trivial = images taken after at least one chunk was written"
	res.Assumptions = []string{"crash model: lni/vfs strict MemFS ResetToSyncedState (per file / per directory loss of unsynced state)",
		"sender side chunk size set to 1 KiB through a package variable"}
	old := VerifSetSnapshotChunkSize(1024)
	defer VerifSetSnapshotChunkSize(old)
	cases := []c16xCase{{500, nil}, {3000, nil}, {500, []int{100}}, {3000, []int{100, 2500}}, {500, []int{1024}}, {2500, []int{2048, 1}}, {500, []int{0, 700}}}
	if run.Thorough() {
		for _, p := range []int{1, 1000, 1024, 5000} {
			for _, e := range [][]int{{1}, {1023, 1025}, {3000, 3000, 10}} {
				cases = append(cases, c16xCase{p, e})
			}
		}
	}
	root := "/recv/snapshot-root"
	for ci, c := range cases {
		chunks, files := c16xBuild(c)
		for cut := 0; cut <= len(chunks); cut++ {
			if !run.Mine(uint64(ci*1000 + cut)) {
				continue
			}
			rfs := vfs.NewMemFS()
			if err := fileutil.MkdirAll(root, rfs); err != nil {
				panic(err)
			}
			handed := 0
			rc := NewChunk(func(pb.MessageBatch) { handed++ }, func(uint64, uint64, uint64) {},
				func(uint64, uint64) string { return root }, c16xDid, rfs)
			for i := 0; i < cut; i++ {
				ch := chunks[i]
				if msg := verifkit.Catch(func() { rc.Add(ch) }); msg != "" {
					res.Violate("C16:recv-ext:panic", fmt.Sprintf("%s: the receiver panics on in-order chunk %d: %s", c, i, msg), map[string]interface{}{"case": ci, "cut": cut})
				}
			}
			mem, ok := rfs.(*gvfs.MemFS)
			if !ok {
				panic("harness: the receiver FS is not a strict MemFS")
			}
			mem.ResetToSyncedState()
			res.Evaluations++
			if cut > 0 {
				res.DistinctNontrivial++
			}
			names, _ := rfs.List(root)
			final := ""
			for _, n := range names {
				if strings.HasPrefix(n, "snapshot-") && !strings.Contains(n, ".") {
					final = n
				}
			}
			res.Sample(3, map[string]interface{}{"case": c.String(), "chunks": len(chunks), "crash_after_chunk": cut, "handed_to_raft": handed, "final_dir_after_crash": final})
			if handed > 0 && final == "" {
				res.Violate("C16:recv-ext:handed-over-without-durable-directory",
					fmt.Sprintf("%s: the InstallSnapshot message was handed to raft after chunk %d, but after a crash there is no snapshot directory", c, cut), map[string]interface{}{"case": ci, "cut": cut})
				continue
			}
			if final == "" {
				res.Outcome("no directory visible")
				continue
			}
			res.Outcome("complete directory visible")
			for name, want := range files {
				got, err := func() ([]byte, error) {
					f, err := rfs.Open(rfs.PathJoin(root, final, name))
					if err != nil {
						return nil, err
					}
					defer f.Close()
					var b bytes.Buffer
					_, err = b.ReadFrom(f)
					return b.Bytes(), err
				}()
				if err != nil || !bytes.Equal(got, want) {
					res.Violate("C16:recv-ext:incomplete-file-in-visible-directory",
						fmt.Sprintf("%s: after a crash following chunk %d the received snapshot directory %s is visible but its file %s has %d of %d bytes intact (error: %v)", c, cut, final, name, len(got), len(want), err),
						map[string]interface{}{"case": ci, "cut": cut})
					break
				}
			}
		}
	}
}
