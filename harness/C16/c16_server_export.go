//go:build verif

// Read-only access for check C16 (overlaid into internal/server at check
// time, never present in /repo).
package server

// VerifFinalizeLocked reports whether some SSEnv.FinalizeSnapshot call is in
// progress (it holds the package level finalizeLock). The C16 race workload
// uses it to skip interleavings the real lock excludes.
func VerifFinalizeLocked() bool {
	if finalizeLock.TryLock() {
		finalizeLock.Unlock()
		return false
	}
	return true
}
