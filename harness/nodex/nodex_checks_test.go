//go:build verif

package dragonboat

import (
	"fmt"
	"os"
	"strings"
	"testing"

	"github.com/lni/dragonboat/v4/internal/raft"
	"github.com/lni/dragonboat/v4/internal/verifkit"
	"github.com/lni/dragonboat/v4/logger"
)

type nxInst struct{ c *nxCluster }

func (x nxInst) Enabled() []uint32    { return x.c.Enabled() }
func (x nxInst) Step(e uint32) string { return x.c.Step(e) }
func (x nxInst) Canon() []byte        { return x.c.Canon() }
func (x nxInst) Check() string        { return x.c.Check() }

// Dispose releases what a discarded cluster holds: the real log stores (Pebble
// and Tan keep goroutines and caches per open store).
func (x nxInst) Dispose() {
	if x.c.cfg.Store == "" {
		return
	}
	for _, h := range x.c.hosts {
		if h.db != nil {
			_ = verifkit.Catch(func() { _ = h.db.Close() })
			h.db = nil
		}
	}
}

func nxSilence() {
	for _, n := range []string{"raft", "rsm", "logdb", "raftpb", "config", "dragonboat", "transport", "utils", "settings", "server", "registry"} {
		logger.GetLogger(n).SetLevel(logger.CRITICAL)
	}
	raft.VSetSliceSizes(8, 2)
	incomingProposalsMaxLen = 16
	incomingReadIndexMaxLen = 16
	receiveQueueLen = 16
}

// warm: bootstrap applied, replica 1 elected, its no-op committed everywhere.
var nxWarm = []string{"T1", "D*", "H1", "D*"}

func c12rep(items []string, n int) []string {
	var out []string
	for i := 0; i < n; i++ {
		out = append(out, items...)
	}
	return out
}

func nxConfigs(part string, thorough bool) []*nxCfg {
	pick := func(q, t int) int {
		if thorough {
			return t
		}
		return q
	}
	switch part {
	case "c04":
		return []*nxCfg{
			{Name: "elect-crash", N: 3, MaxDev: pick(2, 3), Script: []string{"T1", "H1", "W1", "H1"}, Timeouts: 2, Crashes: 2, Drops: 2, Writes: 1, Horizon: 120},
			{Name: "warm-write-crash", N: 3, MaxDev: pick(2, 3), Prefix: nxWarm, Script: []string{"W1", "W2", "H1", "T2", "H2", "W2"}, Timeouts: 1, Crashes: 2, Drops: 2, Reorders: 1, Horizon: 120},
			{Name: "pebble-two-candidates", N: 3, Store: "pebble", MaxDev: pick(1, 2), Prefix: nxWarm, Script: []string{"M4", "W1", "E", "T3", "H1", "W1", "C2", "H1"}, Timeouts: 1, Crashes: 1, Horizon: 150},
			{Name: "tan-two-candidates", N: 3, Store: "tan", MaxDev: pick(1, 2), Prefix: nxWarm, Script: []string{"M4", "W1", "E", "T3", "H1", "W1", "C2", "H1"}, Timeouts: 1, Crashes: 1, Horizon: 150},
			{Name: "prevote-crash", N: 3, PreVote: true, CheckQuorum: true, MaxDev: pick(2, 3), Script: []string{"T1", "H1", "W1", "T2", "H2"}, Timeouts: 1, Crashes: 2, Drops: 2, Horizon: 120},
		}
	case "c11":
		return []*nxCfg{
			{Name: "apply-lag-crash", N: 3, MaxDev: pick(2, 3), Prefix: nxWarm, Script: []string{"W1", "W2", "W3", "H1", "C2", "H1", "W1", "H1"}, Crashes: 1, Drops: 2, LazyApplies: 1, Timeouts: 1, Dups: 1, Horizon: 200},
			{Name: "leaderchange-restart", N: 3, MaxDev: pick(2, 3), Prefix: nxWarm, Script: []string{"W1", "T2", "W2", "H2", "C1", "H2", "W3", "H2"}, Crashes: 1, Drops: 2, LazyApplies: 1, Reorders: 1, Horizon: 200},
			{Name: "pool-stop-during-snapshot", N: 3, RealPool: true, SnapshotEntries: 2, MaxDev: pick(2, 3), Prefix: nxWarm,
				Script: []string{"W1", "W2", "W1", "H1", "W2", "S2", "W1", "S1"}, HoldJobs: 1, Stops: 1, Crashes: 1, LazyApplies: 1, Horizon: 250},
			{Name: "pool-restart-from-snapshot", N: 3, RealPool: true, SnapshotEntries: 2, MaxDev: pick(2, 3), Prefix: nxWarm,
				Script: []string{"W1", "W2", "W1", "H1", "C2", "W2", "H1", "C1", "T2", "H2", "W3", "H2"}, HoldJobs: 1, Crashes: pick(0, 1), LazyApplies: 1, Drops: pick(0, 1), Horizon: 250},
			{Name: "ondisk-pool-restart-stream", N: 3, OnDisk: true, RealPool: true, SnapshotEntries: 2, Compaction: 1, MaxDev: pick(1, 2), Prefix: nxWarm,
				Script: []string{"M4", "W1", "W2", "W1", "W2", "E", "H1", "H1", "W1", "C3", "H1", "W2", "C1", "T2", "H2", "W3", "H2"}, HoldJobs: 1, Crashes: 1, LazyApplies: 1, Drops: 1, Horizon: 400},
			{Name: "pool-snapshot-catchup", N: 3, RealPool: true, SnapshotEntries: 2, Compaction: 1, MaxDev: pick(1, 2), Prefix: nxWarm,
				Script: []string{"M4", "W1", "W2", "W1", "W2", "E", "H1", "H1", "W1", "H1", "C3", "H1", "W2", "H1"}, HoldJobs: 1, LazyApplies: 1, Drops: 1, Crashes: 1, Horizon: 300},
		}
	case "c12":
		return []*nxCfg{
			{Name: "stop-with-pending", N: 3, MaxDev: pick(2, 3), Prefix: nxWarm, Script: []string{"W1", "R2", "W2", "R1", "S2", "W1", "S1"}, Drops: 3, Stops: 1, LazyApplies: 1, Writes: 1, Reads: 1, Horizon: 200},
			{Name: "expiry", N: 3, MaxDev: pick(2, 3), Prefix: nxWarm, Script: []string{"w1", "r2", "K1", "K2", "K1", "K2", "K1", "K2", "K1", "K2", "K1", "K2", "K1", "K2", "K1", "K2"}, Drops: 4, LazyApplies: 1, Timeouts: 1, Horizon: 200},
			{Name: "expiry-while-quiesced", N: 3, Quiesce: true, MaxDev: 1, Prefix: nxWarm,
				// the shard goes quiescent, replica 1 is cut off, then a write and a read with short
				// timeouts are made at it: they must expire although nothing wakes the replica up
				Script: append(append(append(append(c12rep([]string{"K1", "K2", "K3"}, 205), "M1", "w1"), c12rep([]string{"K1"}, 12)...), "r1"), c12rep([]string{"K1"}, 12)...),
				Ticks:  1, Reorders: 1, Horizon: 900},
			{Name: "ondisk-snappy-batch", N: 3, OnDisk: true, EntrySnappy: true, MaxDev: pick(1, 2), Prefix: nxWarm,
				// the apply worker of replica 1 is held while three writes commit: they reach the state machine in one batch
				Script: []string{"z1", "W1", "W1", "W2", "Z1", "H1", "R1", "W2", "H1"}, LazyApplies: 1, Drops: 1, Crashes: pick(0, 1), Horizon: 250},
			{Name: "removed-then-stopped", N: 3, MaxDev: pick(2, 3), Prefix: nxWarm,
				// replica 3 is removed from the shard and applies its own removal; requests made at it
				// afterwards (and reads still pending there) end when NodeHost unloads it
				Script: []string{"W1", "R3", "D1:3", "H1", "W3", "R3", "S3", "W1", "H1"}, Drops: 2, LazyApplies: 1, Reorders: 1, Horizon: 250},
			{Name: "notify-commit", N: 3, NotifyCommit: true, MaxDev: pick(2, 3), Prefix: nxWarm, Script: []string{"W1", "W2", "R1", "S1"}, Drops: 2, Stops: 1, LazyApplies: 1, Timeouts: 1, Horizon: 200},
		}
	case "c17":
		repN := func(items []string, n int) []string {
			var out []string
			for i := 0; i < n; i++ {
				out = append(out, items...)
			}
			return out
		}
		quiesce := append(append([]string{}, repN([]string{"K1", "K2", "K3"}, 205)...), "W2", "K1", "K2", "K3", "R3", "K1", "K2", "K3", "H1", "W1", "H1")
		return []*nxCfg{
			{Name: "quiesce-then-requests", N: 3, Quiesce: true, MaxDev: 1, Prefix: nxWarm, Script: quiesce, Reorders: 1, LazyApplies: 1, Dups: 1, Horizon: 600, RequireComplete: true},
			{Name: "quiesce-prevote-checkquorum", N: 3, Quiesce: true, PreVote: true, CheckQuorum: true, MaxDev: 1, Prefix: nxWarm, Script: quiesce, Reorders: 1, LazyApplies: 1, Horizon: 600, RequireComplete: true},
			{Name: "quiesce-leader-failure-realtime", N: 3, Quiesce: true, RealTime: true, MaxDev: 1, Prefix: nxWarm,
				Script:   append(append(append(append([]string{}, repN([]string{"K1", "K2", "K3"}, 205)...), "W2", "K1", "K2", "K3", "S1"), repN([]string{"K2", "K3"}, 45)...), "W2", "K2", "K3", "R3", "K2", "K3"),
				Reorders: 1, Horizon: 4000, RequireComplete: true},
			{Name: "ratelimit-realtime", N: 3, RealTime: true, RateLimit: 200, MaxDev: 1, Prefix: nxWarm,
				Script:   append(append([]string{"z1", "W1", "W1", "W1", "W1", "K1", "K2", "K3", "W1", "Z1"}, repN([]string{"K1", "K2", "K3"}, 130)...), "W2", "K1", "K2", "K3", "W1", "K1", "K2", "K3"),
				Reorders: 1, LazyApplies: 1, Horizon: 3000, RequireComplete: true, BusyAllowedBefore: 5},
			{Name: "ondisk-two-joiners-stream", N: 3, NonVotings: 2, OnDisk: true, SnapshotEntries: 2, Compaction: 1, MaxDev: 1, Prefix: nxWarm,
				Script:   []string{"W1", "W2", "W1", "W2", "A1:4", "A1:5", "J4", "J5", "H1", "H1", "H1", "H1", "H1", "W1", "H1", "H1", "H1"},
				Reorders: 1, LazyApplies: 1, Horizon: 600, RequireComplete: true, RequireCaughtUp: true},
			{Name: "ondisk-pool-two-joiners-stream", N: 3, NonVotings: 2, OnDisk: true, RealPool: true, SnapshotEntries: 2, Compaction: 1, MaxDev: pick(1, 2), Prefix: nxWarm,
				// U1: a snapshot job of replica 1 that a deviation held back is released, then the scenario goes on
				Script:   []string{"W1", "W2", "W1", "W2", "A1:4", "A1:5", "J4", "J5", "H1", "H1", "H1", "U1", "H1", "H1", "H1", "W1", "H1", "H1", "H1"},
				HoldJobs: 1, Reorders: 1, Horizon: 600, RequireComplete: true, RequireCaughtUp: true},
			{Name: "restart-then-requests", N: 3, MaxDev: 1, Prefix: nxWarm, Script: []string{"W1", "C2", "H1", "W2", "R2", "C1", "T2", "H2", "W3", "R1", "H2"}, Reorders: 1, LazyApplies: 1, Horizon: 300, RequireComplete: true},
		}
	case "c01":
		return []*nxCfg{
			{Name: "w-r-leaderchange", N: 3, MaxDev: pick(2, 3), Prefix: nxWarm, Script: []string{"W1", "R2", "W2", "R1", "H1"}, Timeouts: pick(1, 2), Crashes: 1, Drops: 2, Reorders: 1, LazyApplies: 1, Reads: pick(0, 1), Transfers: pick(0, 1), Horizon: 150},
			{Name: "5v-stale-leader-read", N: 5, MaxDev: pick(1, 2), Prefix: nxWarm, Script: []string{"W1", "T3", "H3", "W3", "H3", "R1", "H1", "H1", "R2", "H1", "H1", "H3"}, Partitions: 1, Heartbeats: pick(0, 1), Horizon: 300},
			{Name: "partitioned-old-leader", N: 3, MaxDev: pick(2, 3), Prefix: nxWarm, Script: []string{"W1", "T2", "H2", "W2", "H2", "R1", "H1", "R3", "H2"}, Partitions: 2, Heartbeats: 1, LazyApplies: 1, Horizon: 200},
			{Name: "newleader-read", N: 3, MaxDev: pick(2, 3), Prefix: nxWarm, Script: []string{"W1", "T2", "R2", "H2"}, Reads: 1, LazyApplies: 1, Reorders: 1, Drops: 2, Horizon: 150},
			{Name: "reads-follower", N: 3, MaxDev: pick(2, 3), Prefix: nxWarm, Script: []string{"W2", "R3", "R1", "W3", "R2", "H1"}, Timeouts: 2, Crashes: 1, Drops: 3, LazyApplies: 1, Heartbeats: 1, Horizon: 150},
			{Name: "snapshot-catchup-read", N: 3, SnapshotEntries: 2, Compaction: 1, MaxDev: pick(1, 2), Prefix: nxWarm,
				Script: []string{"M4", "W1", "W2", "W1", "W2", "E", "H1", "H1", "R3", "W1", "R3", "H1"}, LazyApplies: 1, Drops: 1, Crashes: 1, Reorders: 1, Horizon: 300},
			{Name: "ondisk-snappy-lagging-follower", N: 3, OnDisk: true, EntrySnappy: true, MaxDev: pick(1, 2), Prefix: nxWarm,
				// replica 3 is cut off while three writes commit, then gets and applies them in one batch
				Script: []string{"M4", "W1", "W2", "W1", "E", "H1", "H1", "R3", "W2", "R3", "H1"}, LazyApplies: 1, Drops: 1, Crashes: 1, Horizon: 300},
			{Name: "ondisk-restart-idle-stream", N: 3, OnDisk: true, SnapshotEntries: 2, Compaction: 1, MaxDev: pick(1, 2), Prefix: nxWarm,
				// the leader restarts with everything it applied already on disk, stays idle, and then streams a snapshot to replica 3
				Script: []string{"M4", "W1", "W2", "W1", "W2", "C1", "T1", "H1", "H1", "E", "H1", "H1", "R3", "H1", "W1", "R3", "H1"}, Writes: 1, LazyApplies: 1, Drops: 1, Horizon: 400},
			{Name: "ondisk-stream-catchup-read", N: 3, OnDisk: true, SnapshotEntries: 2, Compaction: 1, MaxDev: pick(1, 2), Prefix: nxWarm,
				Script: []string{"M4", "W1", "W2", "W1", "W2", "E", "H1", "H1", "R3", "W1", "R3", "C3", "H1", "R3", "W2", "H1"}, LazyApplies: 1, Drops: 1, Crashes: 1, Reorders: 1, Horizon: 400},
			{Name: "3v+nv-partitioned-old-leader", N: 3, NonVotings: 1, MaxDev: pick(2, 3), Prefix: []string{"T1", "D*", "H1", "D*", "A1:4", "D*", "J4", "D*", "H1", "D*"},
				Script: []string{"W1", "M9", "T2", "H2", "W2", "H2", "R1", "H1", "R4", "H1", "H1", "E", "H2"}, Heartbeats: 1, LazyApplies: 1, Drops: 1, Horizon: 250},
		}
	}
	return nil
}

func nxKey(msg string) string {
	out := make([]byte, 0, 96)
	for i := 0; i < len(msg) && len(out) < 96; i++ {
		if msg[i] >= '0' && msg[i] <= '9' {
			continue
		}
		out = append(out, msg[i])
	}
	return string(out)
}

func TestVerifNodex(t *testing.T) {
	nxSilence()
	run := verifkit.Env()
	res := verifkit.NewResult()
	defer run.Finish(res)
	part := os.Getenv("VERIF_NODEX_PART")
	if part == "" {
		part = run.Part
	}
	cfgs := nxConfigs(part, run.Thorough())
	res.Rule = "deviation-bounded explicit-state search (BFS with dedup to fixpoint) over REAL node objects stepped by the real engine.processSteps/processApplies/processCommits loop bodies: the default schedule delivers the oldest message, runs ready workers and the scenario script; every other enabled event (reorder, drop, dup, timeout, tick, crash at any hook point of a step, held-back apply worker, extra client op) is a deviation, at most MaxDev per path; evaluation = one event executed with all oracles checked"
	res.Assumptions = []string{
		"worker loop bodies are atomic events (finer interleavings of request tables / rsm are covered by the schedx parts)",
		"in-memory ILogDB: a successful SaveRaftState is durable (the real stores' crash atomicity is C10)",
		"snapshot worker pool emulated one job at a time with the real ssWorker.handle",
	}
	// monitors that may raise an alarm in this check: its own property's, plus
	// (C01) those of the safety properties linearizability rests on
	nxMonitorTags = map[string]map[string]bool{
		"c01": {"C01": true, "C02": true, "C03": true, "C04": true, "C11": true},
		"c04": {"C04": true}, "c11": {"C11": true}, "c12": {"C12": true}, "c17": {"C17": true},
	}[part]
	if os.Getenv("VERIF_ALL_TAGS") != "" {
		nxMonitorTags = nil // development aid: every monitor may alarm
	}
	defer func() {
		for k, v := range nxSuppressed {
			res.Extra["monitor_failures_of_other_properties:"+k] = v
		}
	}()
	newC := func(cfg *nxCfg) *nxCluster {
		c := newNxCluster(cfg)
		if part == "c01" {
			c.linCheck = func(c *nxCluster) string { return c.linearizable() }
		}
		return c
	}
	if os.Getenv("VERIF_DEBUG") != "" {
		from := 0
		fmt.Sscanf(os.Getenv("VERIF_DEBUG_FROM"), "%d", &from)
		for _, cfg := range cfgs {
			if f := os.Getenv("VERIF_DEBUG_CFG"); f != "" && f != cfg.Name {
				continue
			}
			c := newC(cfg)
			fmt.Println("=== ", cfg.Name, c.summary())
			if hh := os.Getenv("VERIF_DEBUG_HOLD"); hh != "" {
				var id uint32
				fmt.Sscanf(hh, "%d", &id)
				saved := c.cfg.MaxDev
				c.cfg.MaxDev = 9
				fmt.Println("hold:", c.Step(nxev(nxHoldJob, id, 0)))
				c.cfg.MaxDev = saved
			}
			for i := 0; i < 2000; i++ {
				e, ok := c.defaultEvent()
				if !ok {
					break
				}
				msg := c.Step(e)
				if i >= from {
					fmt.Println(i, c.describe(e), c.summary(), msg)
				}
				if msg != "" {
					break
				}
			}
		}
		return
	}
	var rp struct {
		Path []uint32 `json:"path"`
		Cfg  int      `json:"cfg"`
	}
	if run.Replay != "" {
		run.LoadReplay(&rp)
		c := newC(cfgs[rp.Cfg])
		if msg := c.Check(); msg != "" {
			res.Violate(nxKey(msg), msg, map[string]interface{}{"path": []uint32{}, "cfg": rp.Cfg})
			return
		}
		for i, e := range rp.Path {
			if msg := c.Step(e); msg != "" {
				res.Violate(nxKey(msg), msg, map[string]interface{}{"path": rp.Path[:i+1], "cfg": rp.Cfg})
				break
			}
		}
		res.Evaluations = int64(len(rp.Path))
		return
	}
	mine := 0
	for ci := range cfgs {
		if ci%run.Shards == run.Shard {
			mine++
		}
	}
	for ci, cfg := range cfgs {
		if ci%run.Shards != run.Shard {
			continue
		}
		mine--
		if f := os.Getenv("VERIF_ONLY_CFG"); f != "" && !strings.Contains(cfg.Name, f) {
			res.Cap("development filter VERIF_ONLY_CFG is set")
			continue
		}
		restoreDeadline := run.Slice(mine + 1)
		cfg, ci := cfg, ci
		sub := verifkit.NewResult()
		desc := newC(cfg)
		st := verifkit.BFS(verifkit.BFSConfig{
			New:      func() verifkit.Instance { return nxInst{newC(cfg)} },
			Describe: desc.describe, MaxStates: run.Pick(400000, 4000000), Workers: 1, Run: run, Res: sub, KeyOf: nxKey, Chain: true,
			OnState: func(inst verifkit.Instance, path []uint32) {
				if len(path) >= 10 {
					res.Sample(2, verifkit.PathString(path, desc.describe))
				}
				c := inst.(nxInst).c
				for _, op := range c.ops {
					if op.ret != 0 {
						res.Outcome(fmt.Sprintf("%c:%s", op.kind, op.status))
					}
				}
			},
		})
		for _, v := range sub.Violations {
			m := v.Replay.(map[string]interface{})
			m["cfg"] = ci
			res.Violate(v.Key, v.Desc, m)
		}
		if !sub.Exhaustive {
			res.Cap(fmt.Sprintf("%s: %s", cfg.Name, sub.Capped))
		}
		res.States += st.States
		res.Transitions += st.Transitions
		res.Evaluations += st.Transitions
		res.DistinctNontrivial += st.States
		res.Extra["cfg:"+cfg.Name] = fmt.Sprintf("states=%d transitions=%d depth=%d fixpoint=%v", st.States, st.Transitions, st.Depth, st.Fixpoint)
		res.Extra["bounds:"+cfg.Name] = verifkit.NonZeroFields(cfg)
		restoreDeadline()
	}
}

func (c *nxCluster) summary() string {
	out := ""
	for _, h := range c.hosts {
		if !h.up {
			out += fmt.Sprintf("[%d down] ", h.id)
			continue
		}
		vp := raft.VPeer{P: &h.node.p}
		out += fmt.Sprintf("[%d role=%d t=%d c=%d last=%d app=%d q=%v] ", h.id, vp.Role(), vp.Term(), vp.Committed(), vp.LastIndex(), h.node.sm.GetLastApplied(), h.node.qs.quiesced())
		if h.ps != nil {
			out += fmt.Sprintf("{job=%v held=%v ss=%d saved=%d} ", c.jobScheduled(h), h.ps.held, h.node.ss.getIndex(), c.snapshotsSaved)
		}
	}
	out += fmt.Sprintf("inflight=%d ops=", len(c.msgs))
	for _, op := range c.ops {
		out += fmt.Sprintf("%c%d:%s ", op.kind, op.at, op.status)
	}
	return out
}

// TestVerifNodexCongruence probes the canonical state description of the
// configurations of one part (VERIF_NODEX_PART): see verifkit.CongruenceProbe.
func TestVerifNodexCongruence(t *testing.T) {
	if os.Getenv("VERIF_CONGRUENCE") == "" {
		t.Skip("development aid")
	}
	nxSilence()
	n, depth := 1500, 1
	fmt.Sscanf(os.Getenv("VERIF_CONGRUENCE_STATES"), "%d", &n)
	fmt.Sscanf(os.Getenv("VERIF_CONGRUENCE_DEPTH"), "%d", &depth)
	part := os.Getenv("VERIF_NODEX_PART")
	for _, cfg := range nxConfigs(part, false) {
		if f := os.Getenv("VERIF_ONLY_CFG"); f != "" && !strings.Contains(cfg.Name, f) {
			continue
		}
		cfg := cfg
		mk := func() *nxCluster {
			c := newNxCluster(cfg)
			if part == "c01" {
				c.linCheck = func(c *nxCluster) string { return c.linearizable() }
			}
			return c
		}
		desc := mk()
		states, compared, bad := verifkit.CongruenceProbe(func() verifkit.Instance { return nxInst{mk()} }, desc.describe, n, depth)
		fmt.Printf("CONGRUENCE %s: states=%d pairs=%d disagreements=%d\n", cfg.Name, states, compared, len(bad))
		for _, b := range bad {
			fmt.Println(b)
		}
	}
}
