//go:build verif

package dragonboat

import (
	"fmt"

	"github.com/lni/dragonboat/v4/internal/rsm"
	pb "github.com/lni/dragonboat/v4/raftpb"
	sm "github.com/lni/dragonboat/v4/statemachine"
)

// Real snapshot worker pool + node lifecycle (cfg.RealPool): the REAL
// workerPool scheduling functions (loadNodes, get*Job, schedule, scheduleTask,
// start/setBusy, completed/setIdle), the real engine.load* node loaders of the
// step / commit / apply workers, the real node.loaded/offloaded reference
// counting and the real closeWorker.handle run without goroutines: the harness
// plays the goroutines, one loop iteration per event.

type nxLoader struct{ h *nxHost }

func (l *nxLoader) describe() string         { return fmt.Sprintf("nxhost-%d", l.h.id) }
func (l *nxLoader) getShardSetIndex() uint64 { return l.h.cci }
func (l *nxLoader) forEachShard(f func(uint64, *node) bool) uint64 {
	if l.h.registered {
		f(nxShard, l.h.node)
	}
	return l.h.cci
}

type nxPoolState struct {
	pool      *workerPool
	stepNodes map[uint64]*node
	stepCCI   uint64
	applyN    map[uint64]*node
	applyCCI  uint64
	commitN   map[uint64]*node
	commitCCI uint64
	held      bool // a scheduled snapshot job is being held back (deviation)
	destroyed bool
}

func (c *nxCluster) initPool(h *nxHost) {
	ldr := &nxLoader{h: h}
	h.registered = true
	h.cci = 1
	h.eng.nh = ldr
	h.eng.loaded = newLoadedNodes()
	p := &workerPool{
		nh: ldr, loaded: h.eng.loaded,
		cciReady: newWorkReady(1), saveReady: newWorkReady(1), recoverReady: newWorkReady(1), streamReady: newWorkReady(1),
		nodes: make(map[uint64]*node), workers: make([]*ssWorker, 1), busy: make(map[uint64]*node, 1),
		saving: make(map[uint64]struct{}, 1), recovering: make(map[uint64]struct{}, 1), streaming: make(map[uint64]uint64, 1),
		pending: make([]job, 0),
	}
	p.workers[0] = &ssWorker{workerID: 0, requestC: make(chan job, 1), completedC: make(chan struct{}, 1)}
	h.ps = &nxPoolState{pool: p, stepNodes: map[uint64]*node{}, applyN: map[uint64]*node{}, commitN: map[uint64]*node{}}
	h.eng.wp = p
	// NodeHost.startShard holds one reference
	h.node.loaded()
}

// poolLoop is one iteration of workerPoolMain for the ready signals raised by
// the node (save / recover requested) or a node set change.
func (c *nxCluster) poolLoop(h *nxHost) {
	p := h.ps.pool
	toSchedule := false
	if h.pipe.save {
		h.pipe.save = false
		p.loadNodes()
		if j, ok := p.getSaveJob(nxShard); ok {
			p.pending = append(p.pending, j)
			toSchedule = true
		}
	}
	if h.pipe.recover {
		h.pipe.recover = false
		p.loadNodes()
		if j, ok := p.getRecoverJob(nxShard); ok {
			p.pending = append(p.pending, j)
			toSchedule = true
		}
	}
	if h.pipe.stream {
		h.pipe.stream = false
		p.loadNodes()
		if j, ok := p.getStreamJob(nxShard); ok {
			p.pending = append(p.pending, j)
			toSchedule = true
		}
	}
	if h.poolCCI {
		h.poolCCI = false
		p.loadNodes()
	}
	if toSchedule {
		p.loadNodes()
		p.schedule()
	}
}

// poolRun plays the snapshot worker goroutine: run the scheduled job with the
// real ssWorker.handle, then the pool's completion handling.
func (c *nxCluster) poolRun(h *nxHost) {
	p := h.ps.pool
	w := p.workers[0]
	select {
	case j := <-w.requestC:
		if err := w.handle(j); err != nil {
			c.fail("replica %d: snapshot job error %v", h.id, err)
		}
		if j.task.Stream {
			c.streamEnded(h, j.task.ReplicaID)
		}
		p.completed(w.workerID)
		p.loadNodes()
		p.schedule()
	default:
	}
}

func (c *nxCluster) jobScheduled(h *nxHost) bool {
	return h.ps != nil && len(h.ps.pool.workers[0].requestC) > 0
}

// stopShard is NodeHost.stopNode.
func (c *nxCluster) stopShard(h *nxHost) {
	h.registered = false
	h.cci++
	h.poolCCI = true
	h.node.close()
	h.node.offloaded()
	h.pipe.step, h.pipe.apply, h.pipe.commit = true, true, true
}

// closeWorker plays engine's close worker for a node whose last reference was
// dropped.
func (c *nxCluster) closeWorker(h *nxHost) {
	h.pipe.closeReady = false
	w := &closeWorker{}
	if err := w.handle(closeReq{node: h.node}); err != nil {
		c.fail("replica %d: close worker error %v", h.id, err)
	}
	h.ps.destroyed = true
}

// realStep / realApply / realCommit: the worker loop bodies with the engine's
// own node loading (reference counting) in front.
func (c *nxCluster) realStep(h *nxHost) {
	h.pipe.step = false
	h.ps.stepNodes, h.ps.stepCCI = h.eng.loadStepNodes(1, h.ps.stepCCI, h.ps.stepNodes)
	if err := h.eng.processSteps(1, map[uint64]struct{}{nxShard: {}}, h.ps.stepNodes, make([]pb.Update, 0), nil); err != nil {
		c.fail("replica %d: processSteps error %v", h.id, err)
	}
	if h.registered {
		c.normalize(h)
	}
	c.pollEngine(h)
}

func (c *nxCluster) realApply(h *nxHost) {
	h.pipe.apply = false
	h.ps.applyN, h.ps.applyCCI = h.eng.loadApplyNodes(1, h.ps.applyCCI, h.ps.applyN)
	if err := h.eng.processApplies(map[uint64]struct{}{nxShard: {}}, h.ps.applyN, make([]rsm.Task, 0), make([]sm.Entry, 0)); err != nil {
		c.fail("replica %d: processApplies error %v", h.id, err)
	}
}

func (c *nxCluster) realCommit(h *nxHost) {
	h.pipe.commit = false
	if !c.cfg.NotifyCommit {
		return
	}
	h.ps.commitN, h.ps.commitCCI = h.eng.loadCommitNodes(1, h.ps.commitCCI, h.ps.commitN)
	h.eng.processCommits(map[uint64]struct{}{nxShard: {}}, h.ps.commitN)
	c.pollEngine(h)
}
