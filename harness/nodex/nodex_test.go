//go:build verif

// Engine E3 "nodex": exploration of REAL node objects (node.go, request.go,
// queue.go, quiesce.go, snapshotstate.go, snapshotter.go, rsm, raft,
// LogReader) stepped by the REAL engine.processSteps / processApplies /
// processCommits loop bodies. The bodies of the worker loops are the atomic
// events; which one fires next is the explorer's choice. No goroutines run.
package dragonboat

import (
	"encoding/binary"
	"fmt"
	"io"
	"math/rand"
	"reflect"
	"runtime"
	"sort"
	"strings"
	"sync"
	"unsafe"

	"github.com/lni/dragonboat/v4/client"
	"github.com/lni/dragonboat/v4/config"
	"github.com/lni/dragonboat/v4/internal/logdb"
	"github.com/lni/dragonboat/v4/internal/raft"
	"github.com/lni/dragonboat/v4/internal/registry"
	"github.com/lni/dragonboat/v4/internal/rsm"
	"github.com/lni/dragonboat/v4/internal/server"
	"github.com/lni/dragonboat/v4/internal/settings"
	"github.com/lni/dragonboat/v4/internal/tan"
	"github.com/lni/dragonboat/v4/internal/transport"
	"github.com/lni/dragonboat/v4/internal/verifkit"
	"github.com/lni/dragonboat/v4/internal/verifkit/memlogdb"
	"github.com/lni/dragonboat/v4/internal/vfs"
	"github.com/lni/dragonboat/v4/raftio"
	pb "github.com/lni/dragonboat/v4/raftpb"
	sm "github.com/lni/dragonboat/v4/statemachine"
	"github.com/lni/goutils/random"
)

const nxShard = 1

type crashSignal struct{ point int }

// ---------------------------------------------------------------- instrumented user SM

type nxSM struct {
	h       *nxHost
	val     uint64 // register value
	version uint64 // number of updates applied
	lastIdx uint64
	closed  bool
}

func (s *nxSM) Update(e sm.Entry) (sm.Result, error) {
	s.h.c.onUpdate(s.h, s, e)
	// C01: a linearizable read is released when the published applied index
	// reaches its ReadIndex; that index must therefore never run ahead of the
	// entries the user state machine has actually been given (the step worker
	// may look at it while the apply worker is in the middle of a batch)
	if n := s.h.node; n != nil && n.sm != nil {
		if la := n.sm.GetLastApplied(); la >= e.Index {
			s.h.c.fail("C01: replica %d publishes applied index %d while its user state machine is only being given entry %d", s.h.id, la, e.Index)
		}
	}
	s.version++
	s.lastIdx = e.Index
	if len(e.Cmd) == 8 {
		s.val = binary.BigEndian.Uint64(e.Cmd)
	}
	return sm.Result{Value: s.val*1000 + s.version}, nil
}
func (s *nxSM) Lookup(q interface{}) (interface{}, error) {
	if s.closed {
		s.h.c.fail("C11: Lookup called after Close on replica %d", s.h.id)
	}
	return s.val, nil
}
func (s *nxSM) SaveSnapshot(w io.Writer, _ sm.ISnapshotFileCollection, _ <-chan struct{}) error {
	if s.closed {
		s.h.c.fail("C11: SaveSnapshot called after Close on replica %d", s.h.id)
	}
	s.h.c.snapshotsSaved++
	var b [24]byte
	binary.BigEndian.PutUint64(b[:], s.val)
	binary.BigEndian.PutUint64(b[8:], s.version)
	binary.BigEndian.PutUint64(b[16:], s.lastIdx)
	_, err := w.Write(b[:])
	return err
}
func (s *nxSM) RecoverFromSnapshot(r io.Reader, _ []sm.SnapshotFile, _ <-chan struct{}) error {
	if s.closed {
		s.h.c.fail("C11: RecoverFromSnapshot called after Close on replica %d", s.h.id)
	}
	var b [24]byte
	if _, err := io.ReadFull(r, b[:]); err != nil {
		return err
	}
	s.val = binary.BigEndian.Uint64(b[:])
	s.version = binary.BigEndian.Uint64(b[8:])
	s.lastIdx = binary.BigEndian.Uint64(b[16:])
	s.h.recoveredIdx = s.lastIdx
	if s.lastIdx > s.h.lastUpdIdx {
		s.h.lastUpdIdx = s.lastIdx
	}
	return nil
}
func (s *nxSM) Close() error {
	if s.closed {
		s.h.c.fail("C11: Close called twice on replica %d", s.h.id)
	}
	s.closed = true
	return nil
}

// ---------------------------------------------------------------- pipeline + log store recorder

type nxPipe struct {
	step, commit, apply, save, recover, stream, closeReady bool
}

func (p *nxPipe) setCloseReady(*node)    { p.closeReady = true }
func (p *nxPipe) setStepReady(uint64)    { p.step = true }
func (p *nxPipe) setCommitReady(uint64)  { p.commit = true }
func (p *nxPipe) setApplyReady(uint64)   { p.apply = true }
func (p *nxPipe) setStreamReady(uint64)  { p.stream = true }
func (p *nxPipe) setSaveReady(uint64)    { p.save = true }
func (p *nxPipe) setRecoverReady(uint64) { p.recover = true }

// nxLogDB wraps the shared in-memory store of one host: hook points for crash
// injection and the durable shadow used by the C04 oracle.
type nxLogDB struct {
	raftio.ILogDB
	h *nxHost
}

func (l *nxLogDB) SaveRaftState(updates []pb.Update, shardID uint64) error {
	l.h.hook("before SaveRaftState")
	err := l.ILogDB.SaveRaftState(updates, shardID)
	l.h.hook("after SaveRaftState")
	return err
}

func (l *nxLogDB) SaveSnapshots(updates []pb.Update) error {
	l.h.hook("before SaveSnapshots")
	err := l.ILogDB.SaveSnapshots(updates)
	l.h.hook("after SaveSnapshots")
	return err
}

// openStore opens (or reopens after a crash) the log store of a host.
func (c *nxCluster) openStore(h *nxHost) {
	if c.cfg.Store == "" {
		if h.db == nil {
			h.db = memlogdb.New()
		}
		return
	}
	if h.db != nil {
		// process crash: the store object dies with the process; what it had
		// acknowledged is in the file system (power loss is C10's subject)
		if err := h.db.Close(); err != nil {
			panic(err)
		}
		h.db = nil
	}
	dir, wal := "/logdb", "/logdb-wal"
	for _, d := range []string{dir, wal} {
		if err := h.fs.MkdirAll(d, 0755); err != nil {
			panic(err)
		}
	}
	nhc := config.NodeHostConfig{Expert: config.GetDefaultExpertConfig()}
	nhc.Expert.LogDB = config.GetTinyMemLogDBConfig()
	nhc.Expert.LogDB.Shards = 1
	nhc.Expert.FS = h.fs
	var err error
	switch c.cfg.Store {
	case "pebble":
		h.db, err = logdb.NewDefaultLogDB(nhc, nil, []string{dir}, []string{wal})
	case "tan":
		h.db, err = tan.Factory.Create(nhc, nil, []string{dir}, []string{wal})
	default:
		panic("unknown store " + c.cfg.Store)
	}
	if err != nil {
		panic(err)
	}
}

// durable state of a host, read through the public ILogDB API
func nxState(h *nxHost) pb.State {
	if h.db == nil {
		return pb.State{} // a joiner that has not been started yet
	}
	ss, _ := h.db.GetSnapshot(nxShard, h.id)
	rs, err := h.db.ReadRaftState(nxShard, h.id, ss.Index)
	if err != nil {
		return pb.State{}
	}
	return rs.State
}

func nxMaxIndex(h *nxHost) uint64 {
	if h.db == nil {
		return 0
	}
	ss, _ := h.db.GetSnapshot(nxShard, h.id)
	rs, err := h.db.ReadRaftState(nxShard, h.id, ss.Index)
	if err != nil || rs.EntryCount == 0 {
		return ss.Index
	}
	return rs.FirstIndex + rs.EntryCount - 1
}

// ---------------------------------------------------------------- host

type nxHost struct {
	c     *nxCluster
	id    uint64
	db    raftio.ILogDB // persistent content (in-memory store, or a real store on fs)
	fs    vfs.IFS       // persistent
	node  *node
	eng   *engine
	pipe  *nxPipe
	usm   *nxSM
	up    bool
	incar int
	// tickEvents counts the LocalTick messages the harness gave this host (an
	// independent clock for the expiry oracle of C12)
	tickEvents int
	// joiner: a non-voting replica that is added by a membership change and then
	// started empty with join=true (ids N+1.. of a configuration with NonVotings)
	joiner bool
	// crash injection: crash when the hook counter of the current event reaches crashAt
	outbox  []pb.Message
	hookN   int
	crashAt int
	hooks   []string
	// monitors
	stoppedAt    int
	recoveredIdx uint64 // index of the snapshot the user SM was recovered from
	ps           *nxPoolState
	registered   bool
	cci          uint64
	poolCCI      bool
	maxTermSent  uint64
	lastUpdIdx   uint64
	seenUpdates  map[uint64]string // index -> cmd of user updates in this incarnation
	// on-disk state machine: what Sync / RecoverFromSnapshot made durable
	disk nxDisk
	// receiving side of streamed snapshots (real transport.Chunk on the host's fs)
	recv     *transport.Chunk
	received []pb.Message           // InstallSnapshot messages built by recv during one delivery
	sinkWait map[uint64]func() bool // stream sinks handed out and not yet ended, by target replica
	sinkBuf  map[uint64][]pb.Chunk  // chunks the streaming job put on the wire
}

type nxDisk struct{ val, version, lastIdx uint64 }

// nxDiskSM is the IOnDiskStateMachine variant of the instrumented register:
// the volatile state is the host's nxSM (so that every monitor keeps reading
// h.usm), Sync and RecoverFromSnapshot copy it to h.disk, Open reads it back.
type nxDiskSM struct {
	h *nxHost
	s *nxSM
}

func (d *nxDiskSM) Open(<-chan struct{}) (uint64, error) {
	d.s.val, d.s.version, d.s.lastIdx = d.h.disk.val, d.h.disk.version, d.h.disk.lastIdx
	// C11: nothing at or below the index returned here may be handed to Update
	d.h.recoveredIdx = d.h.disk.lastIdx
	d.h.lastUpdIdx = d.h.disk.lastIdx
	return d.h.disk.lastIdx, nil
}
func (d *nxDiskSM) Update(es []sm.Entry) ([]sm.Entry, error) {
	for i := range es {
		r, err := d.s.Update(es[i])
		if err != nil {
			return nil, err
		}
		es[i].Result = r
	}
	return es, nil
}
func (d *nxDiskSM) Lookup(q interface{}) (interface{}, error) { return d.s.Lookup(q) }
func (d *nxDiskSM) Sync() error {
	if d.s.closed {
		d.h.c.fail("C11: Sync called after Close on replica %d", d.h.id)
	}
	d.h.disk = nxDisk{d.s.val, d.s.version, d.s.lastIdx}
	return nil
}
func (d *nxDiskSM) PrepareSnapshot() (interface{}, error) {
	if d.s.closed {
		d.h.c.fail("C11: PrepareSnapshot called after Close on replica %d", d.h.id)
	}
	return nxDisk{d.s.val, d.s.version, d.s.lastIdx}, nil
}
func (d *nxDiskSM) SaveSnapshot(ctx interface{}, w io.Writer, _ <-chan struct{}) error {
	st := ctx.(nxDisk)
	d.h.c.snapshotsSaved++
	var b [24]byte
	binary.BigEndian.PutUint64(b[:], st.val)
	binary.BigEndian.PutUint64(b[8:], st.version)
	binary.BigEndian.PutUint64(b[16:], st.lastIdx)
	_, err := w.Write(b[:])
	return err
}
func (d *nxDiskSM) RecoverFromSnapshot(r io.Reader, stopc <-chan struct{}) error {
	if err := d.s.RecoverFromSnapshot(r, nil, stopc); err != nil {
		return err
	}
	d.h.disk = nxDisk{d.s.val, d.s.version, d.s.lastIdx}
	return nil
}
func (d *nxDiskSM) Close() error { return d.s.Close() }

func (h *nxHost) hook(name string) {
	h.hookN++
	if h.c.recordHooks {
		h.hooks = append(h.hooks, name)
	}
	if h.crashAt > 0 && h.hookN == h.crashAt {
		panic(crashSignal{h.hookN})
	}
}

// ---------------------------------------------------------------- client operations

type nxOp struct {
	id        int
	kind      byte // 'w' write, 'r' read
	at        uint64
	val       uint64
	rs        *RequestState
	incar     int
	call      int // event counter at invocation
	ret       int // event counter at response (0 = open)
	status    string
	out       uint64 // value read / sm result
	index     uint64
	readyAt   int // read: ReadIndex completed, waiting for the Lookup event
	key       uint64
	deadline  uint64 // logical tick of the request deadline
	timeout   uint64 // the timeout the client asked for, in ticks
	callTicks int    // tick events the host had seen when the request was made
	committed int
}

// ---------------------------------------------------------------- cluster

type nxCfg struct {
	Name         string
	N            int
	PreVote      bool
	CheckQuorum  bool
	Quiesce      bool
	NotifyCommit bool
	MaxDev       int
	Prefix       []string
	Script       []string
	// budgets for deviations
	Timeouts, Ticks, Crashes, Drops, Dups, Reorders, Writes, Reads, LazyApplies, Heartbeats, Transfers, Stops, Partitions int
	Horizon                                                                                                               int
	// RequireComplete: at the end of the scenario (no default event left) every
	// client operation of the script must have completed (bounded liveness; use
	// only with benign deviations)
	RequireComplete bool
	// BusyAllowedBefore: with RequireComplete, client operations with an id below
	// this may instead have been refused at once with ErrSystemBusy (rate limiter)
	BusyAllowedBefore int
	// Store: "" = in-memory ILogDB; "pebble" / "tan" = the real log store on the
	// host's MemFS (reopened at every restart)
	Store string
	// RealPool: the real snapshot worker pool, node loaders, reference counting
	// and close worker are used (see nodex_pool_test.go); SnapshotEntries makes
	// the node request snapshots by itself
	RealPool        bool
	SnapshotEntries uint64
	// OnDisk: the replicas run an IOnDiskStateMachine (state persisted by Sync /
	// RecoverFromSnapshot, Open returns the persisted index after a restart) and a
	// lagging replica is caught up by a STREAMED snapshot: the InstallSnapshot of
	// raft becomes a stream task (as in NodeHost.sendMessage), the real
	// snapshotter.Stream / rsm.ChunkWriter feed a real transport streaming job and
	// the chunks are reassembled by the target's real transport.Chunk
	OnDisk bool
	// EntrySnappy: config.EntryCompressionType = Snappy (proposal payloads are
	// stored encoded and decoded again in front of the user state machine)
	EntrySnappy bool
	// RequireCaughtUp: at the end of the scenario every running replica has
	// applied everything that is committed anywhere
	RequireCaughtUp bool
	// Compaction > 0 sets config.CompactionOverhead (default 1000 = the log is
	// never compacted): with a small value a lagging replica must be caught up by
	// an InstallSnapshot message
	Compaction uint64
	HoldJobs   int // deviation budget: hold back a scheduled snapshot job
	// RealTime: raft's tick counters are not normalised; Tick events advance
	// real election/heartbeat timers (deterministic, distinct election timeouts)
	RealTime bool
	// NonVotings: number of extra hosts (ids N+1..) that are not initial members;
	// the script adds them as non-voting members ("A<at>:<id>") and starts them
	// with join=true ("J<id>")
	NonVotings int
	// RateLimit > 0 sets config.MaxInMemLogSize: the node pauses its proposal
	// queue while raft's in-memory log is over the limit (node.handleProposals)
	RateLimit uint64
}

type nxMsg struct {
	m   pb.Message
	seq uint64
	sum uint64
}

// nxMsgSum is a content hash of a message. Not the wire encoding: a snapshot's
// membership is encoded in map iteration order, which differs from call to call.
func nxMsgSum(m pb.Message) uint64 {
	b := &verifkit.CanonBuf{}
	verifkit.ReflectCanon(b, m, map[string]bool{"Snapshot.refCount": true, "Snapshot.compactor": true})
	return verifkit.Hash64(string(b.B))
}

type nxCluster struct {
	streams     map[string]*nxStream // streamed images in flight or delivered, by from>to@index
	cfg         *nxCfg
	hosts       []*nxHost
	byID        map[uint64]*nxHost
	msgs        []nxMsg
	seq         uint64
	viol        string
	clock       int
	ops         []*nxOp
	devs        int
	partition   uint32 // bitmask of hosts in group A; 0 = no partition
	spos        int
	lazy        map[uint64]bool // hosts whose apply worker is being held back (deviation)
	scriptHold  map[uint64]bool // of those, the ones held by the scenario script
	rnd         *nxRand         // the deterministic identifier source of this cluster
	cfgSaved    *nxCfg
	used        struct{ timeouts, ticks, crashes, drops, dups, reorders, writes, reads, lazy, heartbeats, transfers, stops, partitions, holdJobs int }
	recordHooks bool
	pool        *sync.Pool
	// monitors
	leaderOf       map[uint64]uint64
	voteOf         map[[2]uint64]uint64
	applied        map[uint64]string // index -> cmd first applied anywhere
	completedW     map[uint64]bool   // value -> write reported Completed
	nextVal        uint64
	linCheck       func(c *nxCluster) string
	snapshotsSaved int
}

// nxMonitorTags: the property tags whose monitors may raise a violation in the
// running check (nil = all); see the same mechanism in raftx. Failures without a
// tag (errors and panics of the code under check) always count.
var nxMonitorTags map[string]bool
var nxSuppressed = map[string]int64{}

func nxTagAllowed(msg string) bool {
	if nxMonitorTags == nil {
		return true
	}
	i := strings.Index(msg, ":")
	if i <= 0 || i > 12 || msg[0] != 'C' {
		return true
	}
	for _, t := range strings.Split(msg[:i], "/") {
		if len(t) != 3 || t[0] != 'C' {
			return true
		}
	}
	for _, t := range strings.Split(msg[:i], "/") {
		if nxMonitorTags[t] {
			return true
		}
	}
	nxSuppressed[msg[:i]]++
	return false
}

func (c *nxCluster) fail(format string, a ...interface{}) {
	if c.viol == "" {
		if msg := fmt.Sprintf(format, a...); nxTagAllowed(msg) {
			c.viol = msg
		}
	}
}

func nxPeers(n int) map[uint64]string {
	peers := map[uint64]string{}
	for i := 1; i <= n; i++ {
		peers[uint64(i)] = fmt.Sprintf("peer:%d", 12345+i)
	}
	return peers
}

// nxRand replaces the process-wide random source of dragonboat
// (goutils/random.LockGuardedRand: ReadIndex contexts, config change and
// snapshot request keys, election jitter) by a deterministic sequence that is
// restarted for every cluster, so that replaying an event path reproduces the
// same identifiers.
type nxRand struct{ n uint64 }

func (r *nxRand) Uint64() uint64 {
	// raft's election jitter is overwritten by the harness after every step
	// (VPeer.Normalize / SetElectionTimeoutValue): those draws get a constant and
	// do not advance the sequence, so that the number of identifiers handed out
	// so far (part of the canonical state) does not depend on role changes
	for skip := 1; skip <= 4; skip++ {
		if pc, _, _, ok := runtime.Caller(skip); ok {
			if fn := runtime.FuncForPC(pc); fn != nil && strings.HasSuffix(fn.Name(), "setRandomizedElectionTimeout") {
				return 5
			}
		}
	}
	r.n++
	return r.n*0x9E3779B97F4A7C15 | 1
}
func (r *nxRand) Int63() int64 { return int64(r.Uint64() >> 1) }
func (r *nxRand) Seed(int64)   {}

func nxResetRandom() *nxRand {
	lr := random.NewLockedRand()
	f := reflect.ValueOf(lr).Elem().FieldByName("source")
	nr := &nxRand{}
	var src rand.Source64 = nr
	reflect.NewAt(f.Type(), unsafe.Pointer(f.UnsafeAddr())).Elem().Set(reflect.ValueOf(&src).Elem())
	random.LockGuardedRand = lr
	return nr
}

func newNxCluster(cfg *nxCfg) *nxCluster {
	nr := nxResetRandom()
	c := &nxCluster{cfg: cfg, byID: map[uint64]*nxHost{}, leaderOf: map[uint64]uint64{}, voteOf: map[[2]uint64]uint64{},
		applied: map[uint64]string{}, completedW: map[uint64]bool{}, lazy: map[uint64]bool{}, scriptHold: map[uint64]bool{}, nextVal: 100}
	c.rnd = nr
	c.pool = &sync.Pool{}
	c.pool.New = func() interface{} {
		obj := &RequestState{}
		obj.CompletedC = make(chan RequestResult, 1)
		obj.pool = c.pool
		return obj
	}
	for i := 1; i <= cfg.N; i++ {
		h := &nxHost{c: c, id: uint64(i), fs: vfs.NewMemFS()}
		c.hosts = append(c.hosts, h)
		c.byID[h.id] = h
		c.startHost(h)
	}
	for i := cfg.N + 1; i <= cfg.N+cfg.NonVotings; i++ {
		h := &nxHost{c: c, id: uint64(i), fs: vfs.NewMemFS(), joiner: true}
		c.hosts = append(c.hosts, h)
		c.byID[h.id] = h
	}
	c.runPrefix()
	return c
}

func (c *nxCluster) startHost(h *nxHost) {
	h.incar++
	h.pipe = &nxPipe{}
	h.usm = &nxSM{h: h}
	h.seenUpdates = map[uint64]string{}
	h.lastUpdIdx = 0
	h.recoveredIdx = 0
	h.crashAt, h.hookN = 0, 0
	c.openStore(h)
	ldb := &nxLogDB{ILogDB: h.db, h: h}
	snapdir := fmt.Sprintf("/snap-%d", h.id)
	if err := h.fs.MkdirAll(snapdir, 0755); err != nil {
		panic(err)
	}
	rootDirFunc := func(cid uint64, nid uint64) string { return snapdir }
	lr := logdb.NewLogReader(nxShard, h.id, ldb)
	ss := newSnapshotter(nxShard, h.id, rootDirFunc, ldb, lr, h.fs)
	lr.SetCompactor(ss)
	cfg := config.Config{ReplicaID: h.id, ShardID: nxShard, ElectionRTT: 10, HeartbeatRTT: 2,
		CheckQuorum: c.cfg.CheckQuorum, PreVote: c.cfg.PreVote, Quiesce: c.cfg.Quiesce,
		SnapshotEntries: c.cfg.SnapshotEntries, CompactionOverhead: 1000, MaxInMemLogSize: c.cfg.RateLimit}
	if c.cfg.Compaction > 0 {
		cfg.CompactionOverhead = c.cfg.Compaction
	}
	if c.cfg.EntrySnappy {
		cfg.EntryCompressionType = config.Snappy
	}
	peers, initial := nxPeers(c.cfg.N), true
	if h.joiner {
		peers, initial = map[uint64]string{}, false
		cfg.IsNonVoting = true
	}
	usm := h.usm
	create := func(shardID uint64, replicaID uint64, done <-chan struct{}) rsm.IManagedStateMachine {
		if c.cfg.OnDisk {
			return rsm.NewNativeSM(cfg, rsm.NewOnDiskStateMachine(&nxDiskSM{h: h, s: usm}), done)
		}
		return rsm.NewNativeSM(cfg, rsm.NewInMemStateMachine(usm), done)
	}
	if c.cfg.OnDisk {
		c.initStreaming(h, snapdir)
	}
	nr := registry.NewNodeRegistry(settings.Soft.StreamConnections, nil)
	nhConfig := config.NodeHostConfig{RTTMillisecond: 1, NotifyCommit: c.cfg.NotifyCommit}
	n, err := newNode(peers, initial, cfg, nhConfig, create, ss, lr, h.pipe, nil,
		func(shardID uint64, replicaID uint64) *transport.Sink { return c.newSink(h, replicaID) },
		func(shardID uint64, replicaID uint64, failed bool) { c.snapshotStatus(h, replicaID, failed) },
		func(m pb.Message) { c.onSend(h, m) }, nr, c.pool, ldb, nil,
		newSysEventListener(nil, nil))
	if err != nil {
		panic(err)
	}
	// deterministic request keys
	for i := range n.pendingProposals.keyg {
		n.pendingProposals.keyg[i] = &keyGenerator{rand: rand.New(rand.NewSource(int64(h.id*1000 + uint64(h.incar)*10 + uint64(i))))}
	}
	h.node = n
	h.eng = &engine{logdb: ldb, stepWorkReady: newWorkReady(1), commitWorkReady: newWorkReady(1),
		applyWorkReady: newWorkReady(1), notifyCommit: c.cfg.NotifyCommit}
	h.up = true
	h.ps = nil
	if c.cfg.RealPool {
		c.initPool(h)
		h.pipe.step, h.pipe.apply = true, true
		c.settle(h)
		c.settle(h)
		c.normalize(h)
		return
	}
	n.loaded()
	// the apply worker initialises the node (initial Recover task)
	c.applyWorker(h)
	c.snapshotWorker(h)
	c.applyWorker(h)
	c.normalize(h)
	h.pipe.step = true
	c.settle(h)
}

// ---------------------------------------------------------------- worker loop bodies (REAL code)

func (c *nxCluster) stepWorker(h *nxHost) {
	if h.ps != nil {
		c.realStep(h)
		return
	}
	h.pipe.step = false
	nodes := map[uint64]*node{nxShard: h.node}
	active := map[uint64]struct{}{nxShard: {}}
	if err := h.eng.processSteps(1, active, nodes, make([]pb.Update, 0), nil); err != nil {
		c.fail("replica %d: processSteps error %v", h.id, err)
	}
	c.normalize(h)
	c.pollEngine(h)
}

func (c *nxCluster) normalize(h *nxHost) {
	vp := raft.VPeer{P: &h.node.p}
	if c.cfg.RealTime {
		vp.SetElectionTimeoutValue(10 + (h.id*3)%10)
		return
	}
	vp.Normalize()
}

// pollEngine transfers the engine's own work-ready signals (raised by
// processSteps etc. on the real workReady objects) to the harness flags.
func (c *nxCluster) pollEngine(h *nxHost) {
	drain := func(wr *workReady) bool {
		select {
		case <-wr.waitCh(1):
		default:
		}
		return len(wr.getReadyMap(1)) > 0
	}
	if drain(h.eng.stepWorkReady) {
		h.pipe.step = true
	}
	if drain(h.eng.commitWorkReady) {
		h.pipe.commit = true
	}
	if drain(h.eng.applyWorkReady) {
		h.pipe.apply = true
	}
}

func (c *nxCluster) commitWorker(h *nxHost) {
	h.pipe.commit = false
	nodes := map[uint64]*node{nxShard: h.node}
	h.eng.processCommits(map[uint64]struct{}{nxShard: {}}, nodes)
	c.pollEngine(h)
}

func (c *nxCluster) applyWorker(h *nxHost) {
	h.pipe.apply = false
	nodes := map[uint64]*node{nxShard: h.node}
	if err := h.eng.processApplies(map[uint64]struct{}{nxShard: {}}, nodes, make([]rsm.Task, 0), make([]sm.Entry, 0)); err != nil {
		c.fail("replica %d: processApplies error %v", h.id, err)
	}
}

// snapshotWorker plays the snapshot worker pool for one node: one job at a
// time, executed by the real ssWorker.handle.
func (c *nxCluster) snapshotWorker(h *nxHost) {
	n := h.node
	w := &ssWorker{}
	if h.pipe.recover {
		h.pipe.recover = false
		if req, ok := n.ss.getRecoverReq(); ok {
			if err := w.handle(job{task: req, node: n, shardID: nxShard}); err != nil {
				c.fail("replica %d: recover job error %v", h.id, err)
			}
		}
	}
	if h.pipe.save {
		h.pipe.save = false
		if req, ok := n.ss.getSaveReq(); ok {
			if err := w.handle(job{task: req, node: n, shardID: nxShard}); err != nil {
				c.fail("replica %d: save job error %v", h.id, err)
			}
		}
	}
	if h.pipe.stream {
		h.pipe.stream = false
		if req, sinkFn, ok := n.ss.getStreamReq(); ok {
			if err := w.handle(job{task: req, node: n, sink: sinkFn, shardID: nxShard}); err != nil {
				c.fail("replica %d: stream job error %v", h.id, err)
			}
			c.streamEnded(h, req.ReplicaID)
		}
	}
}

// settle runs every ready worker other than the held-back ones until quiet.
func (c *nxCluster) settle(h *nxHost) {
	defer c.flush(h)
	if h.ps != nil {
		for i := 0; i < 80 && c.viol == "" && !h.ps.destroyed; i++ {
			switch {
			case h.pipe.closeReady:
				c.closeWorker(h)
			case h.pipe.commit:
				c.realCommit(h)
			case h.pipe.apply && !c.lazy[h.id]:
				c.realApply(h)
			case h.pipe.save || h.pipe.recover || h.pipe.stream || h.poolCCI:
				c.poolLoop(h)
			case c.jobScheduled(h) && !h.ps.held:
				c.poolRun(h)
			case h.pipe.step:
				c.realStep(h)
			default:
				return
			}
		}
		return
	}
	for i := 0; i < 50 && c.viol == "" && h.up; i++ {
		switch {
		case h.pipe.commit:
			c.commitWorker(h)
		case h.pipe.apply && !c.lazy[h.id]:
			c.applyWorker(h)
		case h.pipe.recover || h.pipe.save || h.pipe.stream:
			c.snapshotWorker(h)
		case h.pipe.step:
			c.stepWorker(h)
		default:
			return
		}
	}
}

// ---------------------------------------------------------------- network

// onSend is the node's sendRaftMessage hook. raft emits the messages of one
// step in map iteration order; they are collected per step and flushed in a
// canonical order (stable by target) so that replays are deterministic. A
// partially sent batch is covered by crash-after-step plus message drops.
func (c *nxCluster) onSend(h *nxHost, m pb.Message) {
	c.checkSend(h, m)
	if c.cfg.OnDisk && m.Type == pb.InstallSnapshot && !m.Snapshot.Witness {
		// NodeHost.sendMessage: an on-disk state machine streams its snapshot
		h.node.pushStreamSnapshotRequest(m.ShardID, m.To)
		return
	}
	// kept by value (entry slices still alias raft's in-memory log, as in the
	// transport's send queue); serialised when delivered, see take
	h.outbox = append(h.outbox, m)
}

func (c *nxCluster) crosses(m pb.Message) bool {
	if c.partition == 0 {
		return false
	}
	side := func(id uint64) int {
		if id == 0 || id > uint64(len(c.hosts)) {
			return 0
		}
		if c.partition&(1<<uint(id-1)) != 0 {
			return 1
		}
		return 2
	}
	a, b := side(m.From), side(m.To)
	return a != 0 && b != 0 && a != b
}

func (c *nxCluster) flush(h *nxHost) {
	sort.SliceStable(h.outbox, func(i, j int) bool { return h.outbox[i].To < h.outbox[j].To })
	for _, m := range h.outbox {
		if c.crosses(m) {
			continue // lost in the partition
		}
		c.seq++
		c.msgs = append(c.msgs, nxMsg{m: m, seq: c.seq, sum: nxMsgSum(m)})
	}
	h.outbox = nil
}

func (c *nxCluster) chanPos(i int) int {
	n := 0
	for j := 0; j < i; j++ {
		if c.msgs[j].m.To == c.msgs[i].m.To && c.msgs[j].m.From == c.msgs[i].m.From {
			n++
		}
	}
	return n
}

func (c *nxCluster) take(i int, keep bool) pb.Message {
	m := c.msgs[i].m
	if sum := nxMsgSum(m); sum != c.msgs[i].sum {
		c.fail("C02: a queued %s message from %d to %d changed after the node handed it to the transport", m.Type, m.From, m.To)
	}
	if !keep {
		c.msgs = append(c.msgs[:i], c.msgs[i+1:]...)
	}
	data := pb.MustMarshal(&m)
	var out pb.Message
	pb.MustUnmarshal(&out, data)
	return out
}

func (c *nxCluster) deliver(m pb.Message, crashAt int) {
	h, ok := c.byID[m.To]
	if !ok || !h.up {
		return
	}
	if m.Type == pb.InstallSnapshot && !m.Snapshot.Witness {
		if c.cfg.OnDisk {
			c.receiveStream(h, m, crashAt)
			return
		}
		if !c.transferSnapshot(h, &m) {
			return
		}
	}
	if m.Type == pb.SnapshotReceived {
		// NodeHost.HandleMessageBatch: the target confirmed the image
		m = pb.Message{Type: pb.SnapshotStatus, From: m.From, Reject: false}
	}
	c.guarded(h, crashAt, func() {
		if added, stopped := h.node.mq.Add(m); !added || stopped {
			return
		}
		c.stepWorker(h)
	})
}

// transferSnapshot stands for the chunk transfer of an InstallSnapshot message
// (C15's subject): the sender's snapshot file is copied into a receiving temp
// directory of the target's own file system and finalized with the real
// server.SSEnv (flag file + rename), as transport.Chunk does on the last chunk.
func (c *nxCluster) transferSnapshot(dst *nxHost, m *pb.Message) bool {
	src, ok := c.byID[m.From]
	if !ok {
		return false
	}
	data, err := nxReadFile(src.fs, m.Snapshot.Filepath)
	if err != nil {
		return false // the image is gone on the sender: the transfer fails
	}
	snapdir := fmt.Sprintf("/snap-%d", dst.id)
	env := server.NewSSEnv(func(uint64, uint64) string { return snapdir }, nxShard, dst.id, m.Snapshot.Index, m.From,
		server.ReceivingMode, dst.fs)
	env.MustRemoveTempDir()
	if err := env.CreateTempDir(); err != nil {
		panic(err)
	}
	f, err := dst.fs.Create(env.GetTempFilepath())
	if err != nil {
		panic(err)
	}
	if _, err := f.Write(data); err != nil {
		panic(err)
	}
	if err := f.Sync(); err != nil {
		panic(err)
	}
	if err := f.Close(); err != nil {
		panic(err)
	}
	m.Snapshot.Filepath = env.GetFilepath()
	if err := env.FinalizeSnapshot(&m.Snapshot); err != nil {
		env.MustRemoveTempDir()
		return false
	}
	return true
}

func nxReadFile(fs vfs.IFS, path string) ([]byte, error) {
	f, err := fs.Open(path)
	if err != nil {
		return nil, err
	}
	defer f.Close()
	return io.ReadAll(f)
}

// guarded runs f on host h with crash injection armed at hook crashAt.
func (c *nxCluster) guarded(h *nxHost, crashAt int, f func()) {
	h.hookN, h.crashAt = 0, crashAt
	crashed := false
	func() {
		defer func() {
			if r := recover(); r != nil {
				if _, ok := r.(crashSignal); ok {
					crashed = true
					return
				}
				panic(r)
			}
		}()
		f()
	}()
	h.crashAt = 0
	c.flush(h)
	if crashed {
		c.restart(h)
		return
	}
	if crashAt > 0 {
		// the requested crash point does not exist in this step: identical to
		// the plain event, refund the deviation
		c.used.crashes--
		if c.cfg.MaxDev > 0 {
			c.devs--
		}
	}
	c.settle(h)
	c.flush(h)
}

func (c *nxCluster) restart(h *nxHost) {
	// requests of the dead incarnation never complete
	for _, op := range c.ops {
		if op.at == h.id && op.incar == h.incar && op.ret == 0 {
			op.status = "lost-in-crash"
		}
	}
	h.up = false
	c.startHost(h)
}

// ---------------------------------------------------------------- events

const (
	nxDeliver = iota + 1
	nxDrop
	nxDup
	nxTimeout
	nxHeartbeat
	nxTick
	nxWrite
	nxRead
	nxLookup
	nxCrash
	nxCrashIn
	nxHoldApply
	nxReleaseApply
	nxTransfer
	nxStop
	nxWriteShort
	nxReadShort
	nxPartition
	nxHeal
	nxHoldJob
	nxReleaseJob
	nxAddNonVoting
	nxJoin
	nxRemoveNode
)

func nxev(kind int, a, b uint32) uint32 { return uint32(kind)<<24 | a<<12 | b }

func (c *nxCluster) describe(e uint32) string {
	if e&(1<<31) != 0 {
		return "script:" + c.describe(e&^(1<<31))
	}
	k, a, b := int(e>>24), (e>>12)&0xfff, e&0xfff
	names := map[int]string{nxDeliver: "Deliver", nxDrop: "Drop", nxDup: "DupDeliver", nxTimeout: "ElectionTimeout", nxHeartbeat: "HeartbeatTimeout",
		nxTick: "Tick", nxWrite: "Write@", nxRead: "ReadIndex@", nxLookup: "Lookup(op)", nxCrash: "CrashRestart", nxCrashIn: "CrashInDelivery",
		nxHoldApply: "HoldApplyWorker", nxReleaseApply: "ReleaseApplyWorker", nxTransfer: "LeaderTransfer", nxStop: "StopShard",
		nxWriteShort: "WriteShortTimeout@", nxReadShort: "ReadIndexShortTimeout@", nxPartition: "Partition(groupA mask)", nxHeal: "HealPartition", nxHoldJob: "HoldSnapshotJobs", nxReleaseJob: "ReleaseSnapshotJob",
		nxAddNonVoting: "RequestAddNonVoting@", nxJoin: "StartJoiner", nxRemoveNode: "RequestDeleteReplica@"}
	return fmt.Sprintf("%s(%d,%d)", names[k], a, b)
}

func (c *nxCluster) scriptEvent(it string) uint32 {
	var a, b uint32
	switch it[0] {
	case 'T':
		fmt.Sscanf(it[1:], "%d", &a)
		return nxev(nxTimeout, a, 0)
	case 'H':
		fmt.Sscanf(it[1:], "%d", &a)
		return nxev(nxHeartbeat, a, 0)
	case 'K':
		fmt.Sscanf(it[1:], "%d", &a)
		return nxev(nxTick, a, 0)
	case 'W':
		fmt.Sscanf(it[1:], "%d", &a)
		return nxev(nxWrite, a, 0)
	case 'R':
		fmt.Sscanf(it[1:], "%d", &a)
		return nxev(nxRead, a, 0)
	case 'C':
		fmt.Sscanf(it[1:], "%d", &a)
		return nxev(nxCrash, a, 0)
	case 'L':
		fmt.Sscanf(it[1:], "%d>%d", &a, &b)
		return nxev(nxTransfer, a, b)
	case 'S':
		fmt.Sscanf(it[1:], "%d", &a)
		return nxev(nxStop, a, 0)
	case 'M':
		fmt.Sscanf(it[1:], "%d", &a)
		return nxev(nxPartition, a, 0)
	case 'E':
		return nxev(nxHeal, 0, 0)
	case 'U':
		fmt.Sscanf(it[1:], "%d", &a)
		return nxev(nxReleaseJob, a, 0)
	case 'z':
		fmt.Sscanf(it[1:], "%d", &a)
		return nxev(nxHoldApply, a, 0)
	case 'Z':
		fmt.Sscanf(it[1:], "%d", &a)
		return nxev(nxReleaseApply, a, 0)
	case 'A':
		fmt.Sscanf(it[1:], "%d:%d", &a, &b)
		return nxev(nxAddNonVoting, a, b)
	case 'J':
		fmt.Sscanf(it[1:], "%d", &a)
		return nxev(nxJoin, a, 0)
	case 'D':
		if it == "D*" {
			break
		}
		fmt.Sscanf(it[1:], "%d:%d", &a, &b)
		return nxev(nxRemoveNode, a, b)
	case 'w':
		fmt.Sscanf(it[1:], "%d", &a)
		return nxev(nxWriteShort, a, 0)
	case 'r':
		fmt.Sscanf(it[1:], "%d", &a)
		return nxev(nxReadShort, a, 0)
	}
	panic("unknown script item " + it)
}

func (c *nxCluster) runPrefix() {
	saved := c.cfg
	c.cfgSaved = saved
	tmp := *saved
	tmp.MaxDev = 0
	c.cfg = &tmp
	for _, it := range saved.Prefix {
		if it == "D*" {
			for n := 0; n < 2000 && len(c.msgs) > 0; n++ {
				if msg := c.Step(nxev(nxDeliver, 0, 0)); msg != "" {
					c.prefixFailed(msg)
					return
				}
			}
			continue
		}
		if msg := c.Step(c.scriptEvent(it)); msg != "" {
			c.prefixFailed(msg)
			return
		}
	}
	c.cfg = saved
	c.used = struct{ timeouts, ticks, crashes, drops, dups, reorders, writes, reads, lazy, heartbeats, transfers, stops, partitions, holdJobs int }{}
	c.devs, c.spos = 0, 0
}

// prefixFailed: an oracle failed while the fixed scenario prefix was running
// (before the search starts): it is reported as a violation of the initial
// state instead of aborting the worker.
func (c *nxCluster) prefixFailed(msg string) {
	c.cfg = c.cfgSaved
	c.viol = "in the scenario prefix: " + msg
}

func (c *nxCluster) pendingLookup() int {
	for _, op := range c.ops {
		if op.kind == 'r' && op.readyAt > 0 && op.ret == 0 {
			return op.id
		}
	}
	return -1
}

func (c *nxCluster) defaultEvent() (uint32, bool) {
	if id := c.pendingLookup(); id >= 0 {
		return nxev(nxLookup, uint32(id), 0), true
	}
	if len(c.msgs) > 0 {
		return nxev(nxDeliver, 0, 0), true
	}
	// a held-back apply worker is released before the scenario goes on
	for _, h := range c.hosts {
		if c.lazy[h.id] && !c.scriptHold[h.id] {
			return nxev(nxReleaseApply, uint32(h.id), 0), true
		}
	}
	for _, h := range c.hosts {
		if h.ps != nil && h.ps.held && c.jobScheduled(h) && c.spos >= len(c.cfg.Script) {
			return nxev(nxReleaseJob, uint32(h.id), 0), true
		}
	}
	if c.spos < len(c.cfg.Script) {
		return c.scriptEvent(c.cfg.Script[c.spos]) | 1<<31, true
	}
	return 0, false
}

func (c *nxCluster) Enabled() []uint32 {
	if c.viol != "" {
		return nil
	}
	if c.cfg.Horizon > 0 && c.clock >= c.cfg.Horizon {
		return nil
	}
	var out []uint32
	d, ok := c.defaultEvent()
	if ok {
		out = append(out, d)
	}
	if c.cfg.MaxDev > 0 && c.devs >= c.cfg.MaxDev {
		return out
	}
	add := func(e uint32) {
		if !ok || e != d {
			out = append(out, e)
		}
	}
	cfg := c.cfg
	for i := range c.msgs {
		p := c.chanPos(i)
		if p == 0 || (p == 1 && c.used.reorders < cfg.Reorders) {
			add(nxev(nxDeliver, uint32(i), 0))
		}
		if p == 0 && c.used.drops < cfg.Drops {
			add(nxev(nxDrop, uint32(i), 0))
		}
		if p == 0 && c.used.dups < cfg.Dups {
			add(nxev(nxDup, uint32(i), 0))
		}
		if p == 0 && c.used.crashes < cfg.Crashes {
			// crash the receiver at every hook point of the step this delivery triggers
			for k := 1; k <= c.hookCount(i); k++ {
				add(nxev(nxCrashIn, uint32(i), uint32(k)))
			}
		}
	}
	if c.used.partitions < cfg.Partitions {
		if c.partition != 0 {
			add(nxev(nxHeal, 0, 0))
		} else {
			n := uint(len(c.hosts))
			for m := uint32(0); m < 1<<(n-1)-1; m++ {
				add(nxev(nxPartition, m|1<<(n-1), 0))
			}
		}
	}
	for _, h := range c.hosts {
		if !h.up {
			continue
		}
		id := uint32(h.id)
		vp := raft.VPeer{P: &h.node.p}
		if !vp.IsLeader() && c.used.timeouts < cfg.Timeouts {
			add(nxev(nxTimeout, id, 0))
		}
		if vp.IsLeader() && c.used.heartbeats < cfg.Heartbeats {
			add(nxev(nxHeartbeat, id, 0))
		}
		if c.used.ticks < cfg.Ticks {
			add(nxev(nxTick, id, 0))
		}
		if c.used.writes < cfg.Writes {
			add(nxev(nxWrite, id, 0))
		}
		if c.used.reads < cfg.Reads {
			add(nxev(nxRead, id, 0))
		}
		if c.used.crashes < cfg.Crashes {
			add(nxev(nxCrash, id, 0))
		}
		if c.used.lazy < cfg.LazyApplies && !c.lazy[h.id] {
			add(nxev(nxHoldApply, id, 0))
		}
		if c.lazy[h.id] {
			add(nxev(nxReleaseApply, id, 0))
		}
		if c.used.stops < cfg.Stops {
			add(nxev(nxStop, id, 0))
		}
		if h.ps != nil && c.used.holdJobs < cfg.HoldJobs && !h.ps.held && c.holdAllowed(h) {
			add(nxev(nxHoldJob, id, 0))
		}
		if c.used.transfers < cfg.Transfers && vp.IsLeader() {
			for _, t := range c.hosts {
				if t.id != h.id {
					add(nxev(nxTransfer, id, uint32(t.id)))
				}
			}
		}
	}
	return out
}

// holdAllowed: when the script releases the held snapshot jobs of a replica
// ("U<id>"), a job may only be held back before that point - a hold that is
// never released would not be a fault-free continuation for the liveness
// oracles of the scenario.
func (c *nxCluster) holdAllowed(h *nxHost) bool {
	item := fmt.Sprintf("U%d", h.id)
	last := -1
	for i, it := range c.cfg.Script {
		if it == item {
			last = i
		}
	}
	return last < 0 || c.spos <= last
}

// hookCount dry-runs nothing: the number of hook points of a delivery is
// bounded by a constant; non-existing points are no-ops (see guarded).
func (c *nxCluster) hookCount(i int) int { return 2 }

func (c *nxCluster) Step(e uint32) (msg string) {
	defer func() {
		if r := recover(); r != nil {
			if _, ok := r.(crashSignal); ok {
				panic(r)
			}
			msg = fmt.Sprintf("panic in %s: %v", c.describe(e), r)
		} else if c.viol != "" {
			msg = c.viol
		}
		if msg == "" {
			msg = c.afterStep()
		}
	}()
	c.clock++
	fromScript := e&(1<<31) != 0
	if c.cfg.MaxDev > 0 {
		if e&(1<<31) != 0 {
			c.spos++
			e &^= 1 << 31
			saved := c.used
			defer func() { c.used = saved }()
		} else if def, ok := c.defaultEvent(); !ok || def != e {
			c.devs++
		}
	} else {
		e &^= 1 << 31
	}
	k, a, b := int(e>>24), (e>>12)&0xfff, e&0xfff
	switch k {
	case nxDeliver:
		if c.chanPos(int(a)) > 0 {
			c.used.reorders++
		}
		c.deliver(c.take(int(a), false), 0)
	case nxDrop:
		c.used.drops++
		c.take(int(a), false)
	case nxDup:
		c.used.dups++
		c.deliver(c.take(int(a), true), 0)
	case nxCrashIn:
		c.used.crashes++
		c.deliver(c.take(int(a), false), int(b))
	case nxCrash:
		c.used.crashes++
		c.restart(c.byID[uint64(a)])
	case nxTimeout, nxHeartbeat, nxTick:
		h := c.byID[uint64(a)]
		if !h.up {
			break
		}
		switch k {
		case nxTimeout:
			c.used.timeouts++
		case nxHeartbeat:
			c.used.heartbeats++
		default:
			c.used.ticks++
		}
		c.guarded(h, 0, func() {
			vp := raft.VPeer{P: &h.node.p}
			if k == nxTimeout {
				vp.ForceElectionTimeout()
			} else if k == nxHeartbeat {
				vp.ForceHeartbeatTimeout()
			}
			tick := h.node.pendingReadIndexes.getTick() + 1
			h.tickEvents++
			h.node.mq.Tick()
			h.node.mq.Add(pb.Message{Type: pb.LocalTick, To: h.id, From: h.id, Hint: tick})
			c.stepWorker(h)
		})
	case nxHoldJob:
		c.used.holdJobs++
		c.byID[uint64(a)].ps.held = true
	case nxReleaseJob:
		h := c.byID[uint64(a)]
		h.ps.held = false
		if c.jobScheduled(h) {
			// the worker goroutine has the job, it runs no matter what happened to the node
			c.poolRun(h)
		}
		c.settle(h)
	case nxPartition:
		c.used.partitions++
		c.partition = a
		var keep []nxMsg
		for _, it := range c.msgs {
			if !c.crosses(it.m) {
				keep = append(keep, it)
			}
		}
		c.msgs = keep
	case nxHeal:
		c.used.partitions++
		c.partition = 0
	case nxStop:
		h := c.byID[uint64(a)]
		c.used.stops++
		if h.up {
			// NodeHost.stopNode: close the node (terminates every pending request)
			if h.ps != nil {
				c.stopShard(h)
				h.up = false
				h.stoppedAt = c.clock
				c.settle(h)
			} else {
				h.node.close()
				h.up = false
				h.stoppedAt = c.clock
			}
		}
	case nxWrite, nxWriteShort:
		h := c.byID[uint64(a)]
		if !h.up {
			break
		}
		c.used.writes++
		c.nextVal++
		timeout := uint64(1000)
		if k == nxWriteShort {
			timeout = 3
		}
		op := &nxOp{id: len(c.ops), kind: 'w', at: h.id, val: c.nextVal, call: c.clock, incar: h.incar,
			deadline: h.node.pendingReadIndexes.getTick() + timeout, timeout: timeout, callTicks: h.tickEvents}
		c.ops = append(c.ops, op)
		cmd := make([]byte, 8)
		binary.BigEndian.PutUint64(cmd, op.val)
		session := &client.Session{ShardID: nxShard, ClientID: 7000 + uint64(op.id), SeriesID: client.NoOPSeriesID}
		rs, err := h.node.propose(session, cmd, timeout)
		if err != nil {
			op.status, op.ret = "refused:"+err.Error(), c.clock
			break
		}
		op.rs = rs
		op.key = rs.key
		c.guarded(h, 0, func() { c.stepWorker(h) })
	case nxRead, nxReadShort:
		h := c.byID[uint64(a)]
		if !h.up {
			break
		}
		c.used.reads++
		timeout := uint64(1000)
		if k == nxReadShort {
			timeout = 3
		}
		op := &nxOp{id: len(c.ops), kind: 'r', at: h.id, call: c.clock, incar: h.incar,
			deadline: h.node.pendingReadIndexes.getTick() + timeout, timeout: timeout, callTicks: h.tickEvents}
		c.ops = append(c.ops, op)
		rs, err := h.node.read(timeout)
		if err != nil {
			op.status, op.ret = "refused:"+err.Error(), c.clock
			break
		}
		op.rs = rs
		c.guarded(h, 0, func() { c.stepWorker(h) })
	case nxLookup:
		op := c.ops[a]
		h := c.byID[op.at]
		if op.incar != h.incar || !h.up {
			op.status, op.ret = "lost-in-crash", c.clock
			break
		}
		v, err := h.node.sm.Lookup(nil)
		if err != nil {
			op.status, op.ret = "lookup-error:"+err.Error(), c.clock
			break
		}
		op.out, op.status, op.ret = v.(uint64), "Completed", c.clock
	case nxAddNonVoting:
		h := c.byID[uint64(a)]
		if !h.up {
			break
		}
		if _, err := h.node.requestAddNonVotingWithOrderID(uint64(b), fmt.Sprintf("peer:%d", 12345+b), 0, 1000); err == nil {
			c.guarded(h, 0, func() { c.stepWorker(h) })
		}
	case nxRemoveNode:
		h := c.byID[uint64(a)]
		if !h.up {
			break
		}
		if _, err := h.node.requestConfigChange(pb.RemoveNode, uint64(b), "", 0, 1000); err == nil {
			c.guarded(h, 0, func() { c.stepWorker(h) })
		}
	case nxJoin:
		h := c.byID[uint64(a)]
		if h.joiner && !h.up && h.incar == 0 {
			c.startHost(h)
		}
	case nxHoldApply:
		c.used.lazy++
		c.lazy[uint64(a)] = true
		if fromScript {
			// held until the script releases it (the default schedule does not)
			c.scriptHold[uint64(a)] = true
		}
	case nxReleaseApply:
		delete(c.lazy, uint64(a))
		delete(c.scriptHold, uint64(a))
		c.settle(c.byID[uint64(a)])
	case nxTransfer:
		h := c.byID[uint64(a)]
		if !h.up {
			break
		}
		c.used.transfers++
		if err := h.node.requestLeaderTransfer(uint64(b)); err == nil {
			c.guarded(h, 0, func() { c.stepWorker(h) })
		}
	}
	return ""
}

// afterStep collects request results and runs the state oracles.
func (c *nxCluster) afterStep() string {
	for _, op := range c.ops {
		if op.rs == nil || op.ret != 0 || op.readyAt != 0 {
			continue
		}
		// the raw channels are read: ResultC() of a notify-commit request is fed
		// by a bridging goroutine, which the explorer does not control
		if op.rs.committedC != nil {
			select {
			case r := <-op.rs.committedC:
				op.committed++
				if op.committed > 1 || !r.Committed() {
					c.fail("C12: op%d received %d commit notifications (%v)", op.id, op.committed, r)
				}
			default:
			}
		}
		select {
		case r := <-op.rs.CompletedC:
			c.onResult(op, r)
		default:
		}
	}
	if c.viol != "" {
		return c.viol
	}
	return c.check()
}

var _ = sort.Ints
var _ raftio.ILogDB = (*nxLogDB)(nil)
var _ = verifkit.Hash64
