//go:build verif

package dragonboat

import (
	"fmt"

	"github.com/lni/dragonboat/v4/internal/transport"
	pb "github.com/lni/dragonboat/v4/raftpb"
)

// Streamed snapshots of on-disk state machines (cfg.OnDisk). What is real:
// node.pushStreamSnapshotRequest -> apply worker -> node.handleSnapshotTask ->
// stream job -> ssWorker.stream -> node.stream -> rsm.StateMachine.Stream ->
// snapshotter.Stream -> rsm.ChunkWriter -> transport.Sink -> the transport's
// streaming job loop; on the target transport.Chunk reassembles, validates and
// finalizes the image and builds the InstallSnapshot message. What the harness
// plays: the connection between the two (a complete stream is one in-flight
// item of the explorer's network), and NodeHost's message handler, which turns
// the transport's reports into SnapshotStatus messages for the sender's raft
// (HandleSnapshotStatus, HandleSnapshot/SnapshotReceived). The delay NodeHost
// puts on those reports (AddDelayed) is not modelled: they are delivered at
// once, which is one of the timings the real system can show.

const nxDeploymentID = 1

type nxStream struct {
	chunks []pb.Chunk
}

func nxStreamKey(from, to, index uint64) string { return fmt.Sprintf("%d>%d@%d", from, to, index) }

func (c *nxCluster) initStreaming(h *nxHost, snapdir string) {
	if c.streams == nil {
		c.streams = map[string]*nxStream{}
	}
	h.sinkWait = map[uint64]func() bool{}
	h.sinkBuf = map[uint64][]pb.Chunk{}
	onReceive := func(mb pb.MessageBatch) {
		for _, m := range mb.Requests {
			h.received = append(h.received, m)
		}
	}
	confirm := func(shardID uint64, replicaID uint64, from uint64) {
		// messageHandler.HandleSnapshot: tell the sender the image has arrived
		h.outbox = append(h.outbox, pb.Message{Type: pb.SnapshotReceived, To: from, From: replicaID, ShardID: shardID})
	}
	h.recv = transport.NewChunk(onReceive, confirm, func(uint64, uint64) string { return snapdir }, nxDeploymentID, h.fs)
}

// newSink is Transport.GetStreamSink.
func (c *nxCluster) newSink(h *nxHost, to uint64) *transport.Sink {
	if !c.cfg.OnDisk {
		return nil
	}
	if h.sinkWait[to] != nil {
		c.fail("harness: two stream sinks for replica %d requested on replica %d", to, h.id)
	}
	delete(h.sinkBuf, to)
	sink, wait := transport.VerifNewSink(nxShard, to, nxDeploymentID, func(ch pb.Chunk) error {
		// what goes over the wire
		data := pb.MustMarshal(&ch)
		var out pb.Chunk
		pb.MustUnmarshal(&out, data)
		h.sinkBuf[to] = append(h.sinkBuf[to], out)
		return nil
	})
	h.sinkWait[to] = wait
	return sink
}

// snapshotStatus is messageHandler.HandleSnapshotStatus on the sender's host.
func (c *nxCluster) snapshotStatus(h *nxHost, replicaID uint64, failed bool) {
	if !h.up || h.node == nil {
		return
	}
	h.node.mq.Add(pb.Message{Type: pb.SnapshotStatus, From: replicaID, Reject: failed})
	h.pipe.step = true
}

// streamEnded runs after the stream job of host h for replica `to`: the
// transport's job loop has ended; its outcome is reported and a complete stream
// becomes an in-flight item.
func (c *nxCluster) streamEnded(h *nxHost, to uint64) {
	wait := h.sinkWait[to]
	if wait == nil {
		return // the job ended without asking for a sink
	}
	delete(h.sinkWait, to)
	failed := wait()
	chunks := h.sinkBuf[to]
	delete(h.sinkBuf, to)
	if !failed && (len(chunks) == 0 || !chunks[len(chunks)-1].IsLastChunk()) {
		c.fail("C15: the streaming job reported success for a stream of %d chunks without a last chunk", len(chunks))
		return
	}
	var m pb.Message
	if !failed {
		m = pb.Message{Type: pb.InstallSnapshot, From: h.id, To: to, ShardID: nxShard,
			Snapshot: pb.Snapshot{Index: chunks[0].Index, Term: chunks[0].Term, ShardID: nxShard}}
		if c.crosses(m) {
			failed = true // no connection across the partition
		}
	}
	c.snapshotStatus(h, to, failed)
	if failed {
		return
	}
	c.streams[nxStreamKey(h.id, to, m.Snapshot.Index)] = &nxStream{chunks: chunks}
	c.seq++
	c.msgs = append(c.msgs, nxMsg{m: m, seq: c.seq, sum: nxMsgSum(m)})
}

// receiveStream delivers a streamed image: every chunk goes through the
// target's real transport.Chunk; the InstallSnapshot message it builds is
// handed to the node as the transport would.
func (c *nxCluster) receiveStream(h *nxHost, m pb.Message, crashAt int) {
	st := c.streams[nxStreamKey(m.From, m.To, m.Snapshot.Index)]
	if st == nil {
		c.fail("harness: no stream recorded for %s", nxStreamKey(m.From, m.To, m.Snapshot.Index))
		return
	}
	h.received = nil
	for _, ch := range st.chunks {
		if !h.recv.Add(ch) {
			break // refused (e.g. a newer image is already there): the stream is dropped
		}
	}
	got := h.received
	h.received = nil
	c.guarded(h, crashAt, func() {
		for _, im := range got {
			if added, stopped := h.node.mq.Add(im); !added || stopped {
				return
			}
		}
		c.stepWorker(h)
	})
}
