//go:build verif

package dragonboat

import (
	"encoding/binary"
	"fmt"
	"sort"

	"github.com/anishathalye/porcupine"

	"github.com/lni/dragonboat/v4/internal/raft"
	"github.com/lni/dragonboat/v4/internal/verifkit"
	pb "github.com/lni/dragonboat/v4/raftpb"
	sm "github.com/lni/dragonboat/v4/statemachine"
)

// ---------------------------------------------------------------- C04: persist before send

func (c *nxCluster) persistedEntry(h *nxHost, idx uint64) (pb.Entry, bool) {
	ents, _, err := h.db.IterateEntries(nil, 0, nxShard, h.id, idx, idx+1, 1<<30)
	if err != nil || len(ents) != 1 || ents[0].Index != idx {
		return pb.Entry{}, false
	}
	return ents[0], true
}

// checkSend is called for every message leaving a replica, at the moment the
// real node hands it to the transport.
func (c *nxCluster) checkSend(h *nxHost, m pb.Message) {
	st := nxState(h)
	ss, _ := h.db.GetSnapshot(nxShard, h.id)
	if m.Term > h.maxTermSent && m.Type != pb.RequestPreVote && m.Type != pb.RequestPreVoteResp {
		h.maxTermSent = m.Term
	}
	switch m.Type {
	case pb.RequestVoteResp:
		if !m.Reject {
			if st.Term != m.Term || st.Vote != m.To {
				c.fail("C04: replica %d sends a granted vote to %d for term %d but its durable state is term %d vote %d",
					h.id, m.To, m.Term, st.Term, st.Vote)
			}
			c.recordVote(h.id, m.Term, m.To)
		} else if st.Term < m.Term {
			c.fail("C04: replica %d sends RequestVoteResp of term %d with durable term %d", h.id, m.Term, st.Term)
		}
	case pb.RequestVote:
		if st.Term != m.Term || st.Vote != h.id {
			c.fail("C04: replica %d requests votes for term %d but its durable state is term %d vote %d", h.id, m.Term, st.Term, st.Vote)
		}
		c.recordVote(h.id, m.Term, h.id)
	case pb.ReplicateResp:
		if st.Term < m.Term {
			c.fail("C04: replica %d sends ReplicateResp of term %d with durable term %d", h.id, m.Term, st.Term)
		}
		if !m.Reject && m.LogIndex > ss.Index {
			if _, ok := c.persistedEntry(h, m.LogIndex); !ok {
				c.fail("C04: replica %d acknowledges log index %d which is not durable (durable max index %d)",
					h.id, m.LogIndex, nxMaxIndex(h))
			}
		}
	case pb.HeartbeatResp, pb.ReadIndexResp, pb.Heartbeat, pb.Replicate, pb.InstallSnapshot, pb.TimeoutNow:
		if st.Term < m.Term {
			c.fail("C04: replica %d sends %s of term %d with durable term %d", h.id, m.Type, m.Term, st.Term)
		}
	}
}

func (c *nxCluster) recordVote(voter, term, candidate uint64) {
	k := [2]uint64{voter, term}
	if prev, ok := c.voteOf[k]; ok && prev != candidate {
		c.fail("C03/C04: replica %d voted twice in term %d: for %d and for %d", voter, term, prev, candidate)
		return
	}
	c.voteOf[k] = candidate
}

// ---------------------------------------------------------------- C11: user SM call stream

type updRec struct {
	index  uint64
	result uint64
}

func (c *nxCluster) onUpdate(h *nxHost, s *nxSM, e sm.Entry) {
	if s.closed {
		c.fail("C11: Update called after Close on replica %d", h.id)
	}
	if e.Index <= h.lastUpdIdx {
		c.fail("C11: replica %d user SM gets Update index %d after index %d", h.id, e.Index, h.lastUpdIdx)
	}
	h.lastUpdIdx = e.Index
	cmd := string(e.Cmd)
	if prev, ok := c.applied[e.Index]; ok && prev != cmd {
		c.fail("C02: replica %d applies a different command at index %d", h.id, e.Index)
	}
	c.applied[e.Index] = cmd
	h.seenUpdates[e.Index] = cmd
}

// ---------------------------------------------------------------- C12 / C01: request results

func (c *nxCluster) onResult(op *nxOp, r RequestResult) {
	h := c.byID[op.at]
	switch {
	case r.Completed():
		op.status = "Completed"
	case r.Timeout():
		op.status = "Timeout"
	case r.Dropped():
		op.status = "Dropped"
	case r.Rejected():
		op.status = "Rejected"
	case r.Terminated():
		op.status = "Terminated"
	case r.Aborted():
		op.status = "Aborted"
	case r.Committed():
		op.status = ""
		return // not terminal
	default:
		op.status = "Unknown"
	}
	if op.kind == 'r' {
		if op.status == "Completed" {
			op.readyAt = c.clock
			op.status = "ReadIndexDone"
			return
		}
		op.ret = c.clock
		return
	}
	op.ret = c.clock
	if op.status == "Completed" {
		// C12: Completed only after the entry was applied locally, with the SM's value
		cmd := make([]byte, 8)
		binary.BigEndian.PutUint64(cmd, op.val)
		found := uint64(0)
		for idx, cc := range h.seenUpdates {
			if cc == string(cmd) {
				found = idx
			}
		}
		if found == 0 {
			c.fail("C12: write %d reported Completed on replica %d before it was applied there", op.val, h.id)
			return
		}
		op.index = found
		op.out = r.GetResult().Value
		if op.out/1000 != op.val {
			c.fail("C12: write %d completed with result %d which is not the value the state machine returned for it", op.val, op.out)
		}
		c.completedW[op.val] = true
	}
	select {
	case r2 := <-op.rs.CompletedC:
		c.fail("C12: request op %d received a second result %v after %s", op.id, r2, op.status)
	default:
	}
}

type regInput struct {
	write bool
	val   uint64
}

var regModel = porcupine.Model{
	Init: func() interface{} { return uint64(0) },
	Step: func(state, input, output interface{}) (bool, interface{}) {
		in := input.(regInput)
		if in.write {
			return true, in.val
		}
		return output.(uint64) == state.(uint64), state
	},
	Equal: func(a, b interface{}) bool { return a.(uint64) == b.(uint64) },
}

// linearizable checks the client history recorded so far (C01).
func (c *nxCluster) linearizable() string {
	var ops []porcupine.Operation
	inf := int64(1 << 40)
	for _, op := range c.ops {
		switch {
		case op.kind == 'w' && op.status == "Completed":
			ops = append(ops, porcupine.Operation{ClientId: op.id, Input: regInput{true, op.val}, Call: int64(op.call), Output: uint64(0), Return: int64(op.ret)})
		case op.kind == 'w' && (op.ret == 0 || op.status == "Timeout" || op.status == "Terminated" || op.status == "lost-in-crash" || op.status == "Dropped"):
			// may take effect at any later point or never: an open-ended call, but only
			// when its value was ever applied anywhere
			applied := false
			cmd := make([]byte, 8)
			binary.BigEndian.PutUint64(cmd, op.val)
			for _, cc := range c.applied {
				if cc == string(cmd) {
					applied = true
				}
			}
			if applied {
				ops = append(ops, porcupine.Operation{ClientId: op.id, Input: regInput{true, op.val}, Call: int64(op.call), Output: uint64(0), Return: inf})
			}
		case op.kind == 'r' && op.status == "Completed":
			ops = append(ops, porcupine.Operation{ClientId: op.id, Input: regInput{false, 0}, Call: int64(op.call), Output: op.out, Return: int64(op.ret)})
		}
	}
	if len(ops) == 0 {
		return ""
	}
	if !porcupine.CheckOperations(regModel, ops) {
		desc := ""
		for _, op := range c.ops {
			desc += fmt.Sprintf("[op%d %c@%d val=%d call=%d ret=%d %s out=%d] ", op.id, op.kind, op.at, op.val, op.call, op.ret, op.status, op.out)
		}
		return "C01: client history is not linearizable: " + desc
	}
	return ""
}

// ---------------------------------------------------------------- state invariants

func (c *nxCluster) check() string {
	for _, h := range c.hosts {
		if !h.up {
			continue
		}
		vp := raft.VPeer{P: &h.node.p}
		if vp.IsLeader() {
			t := vp.Term()
			if prev, ok := c.leaderOf[t]; ok && prev != h.id {
				c.fail("C03: two leaders in term %d: %d and %d", t, prev, h.id)
			}
			c.leaderOf[t] = h.id
		}
		// C04: after a restart the durable term is never lower than a term this replica sent
		st := nxState(h)
		if st.Term < h.maxTermSent {
			c.fail("C04: replica %d durable term %d is lower than term %d it already used in a message", h.id, st.Term, h.maxTermSent)
		}
	}
	// C04: a Completed write is durable on a majority
	for _, op := range c.ops {
		if op.kind != 'w' || op.status != "Completed" {
			continue
		}
		cmd := make([]byte, 8)
		binary.BigEndian.PutUint64(cmd, op.val)
		n := 0
		for _, h := range c.hosts {
			if h.joiner {
				continue // only the voting members count
			}
			ss, _ := h.db.GetSnapshot(nxShard, h.id)
			if ss.Index >= op.index {
				n++
				continue
			}
			if e, ok := c.persistedEntry(h, op.index); ok && e.Key == op.key {
				n++
			}
		}
		if n < c.cfg.N/2+1 {
			c.fail("C04: write %d was reported Completed but its entry (index %d) is durable on only %d of %d voting replicas", op.val, op.index, n, c.cfg.N)
		}
	}
	// C12: every accepted request gets a terminal result when the shard stops,
	// and by tick-driven expiry shortly after its deadline at the latest
	for _, op := range c.ops {
		if op.rs == nil || op.ret != 0 || op.readyAt != 0 || op.status == "lost-in-crash" {
			continue
		}
		h := c.byID[op.at]
		if op.incar != h.incar {
			continue
		}
		if !h.up && h.stoppedAt > 0 {
			c.fail("C12: %c request op%d at replica %d still has no terminal result after the shard was stopped", op.kind, op.id, h.id)
		} else if h.up && h.node.pendingReadIndexes.getTick() > op.deadline+3 {
			c.fail("C12: %c request op%d at replica %d (deadline tick %d) has no result at tick %d", op.kind, op.id, h.id, op.deadline,
				h.node.pendingReadIndexes.getTick())
		} else if h.up && op.timeout > 0 && uint64(h.tickEvents-op.callTicks) > op.timeout+4 {
			// the same bound on the harness' own count of the ticks the host was given
			// (the node's logical clock could itself have stopped)
			c.fail("C12: %c request op%d at replica %d (timeout %d ticks) has no result %d ticks after it was made", op.kind, op.id, h.id, op.timeout,
				h.tickEvents-op.callTicks)
		}
	}
	// C11: every committed user entry is delivered to the user SM exactly once, in order
	for _, h := range c.hosts {
		if !h.up {
			continue
		}
		la := h.node.sm.GetLastApplied()
		want := 0
		for i := range c.applied {
			if i <= la && i > h.recoveredIdx {
				want++
			}
		}
		got := 0
		for i := range h.seenUpdates {
			if i <= la && i > h.recoveredIdx {
				got++
			}
		}
		if got != want {
			c.fail("C11: replica %d applied index %d but its user SM received %d of the %d user entries up to there", h.id, la, got, want)
		}
	}
	if c.cfg.RequireComplete {
		if _, more := c.defaultEvent(); !more {
			for _, op := range c.ops {
				if op.id < c.cfg.BusyAllowedBefore && op.status == "refused:"+ErrSystemBusy.Error() {
					continue // refused at once while the rate limiter was engaged: the client retries later
				}
				if op.status != "Completed" && op.status != "lost-in-crash" {
					c.fail("C17: at the end of the fault-free scenario op%d (%c at replica %d) has status %q instead of Completed", op.id, op.kind, op.at, op.status)
				}
			}
		}
	}
	if c.cfg.RequireCaughtUp {
		if _, more := c.defaultEvent(); !more && len(c.msgs) == 0 {
			maxc := uint64(0)
			for _, h := range c.hosts {
				if h.up {
					if ci := (raft.VPeer{P: &h.node.p}).Committed(); ci > maxc {
						maxc = ci
					}
				}
			}
			for _, h := range c.hosts {
				if h.up && h.node.sm.GetLastApplied() < maxc {
					c.fail("C17: at the end of the fault-free scenario replica %d has applied %d of %d committed entries", h.id, h.node.sm.GetLastApplied(), maxc)
				}
			}
		}
	}
	if c.viol == "" && c.linCheck != nil {
		if m := c.linCheck(c); m != "" {
			c.fail("%s", m)
		}
	}
	return c.viol
}

// ---------------------------------------------------------------- canonical state

func (c *nxCluster) Canon() []byte {
	b := &verifkit.CanonBuf{}
	for _, h := range c.hosts {
		// the incarnation seeds the request keys of the host: part of the state
		b.Sep('H').U(h.id, uint64(h.incar)).Bool(h.up).Bool(c.lazy[h.id]).Bool(c.scriptHold[h.id])
		b.U(h.disk.val, h.disk.version, h.disk.lastIdx)
		if h.up {
			n := h.node
			raft.VPeer{P: &n.p}.Canon(b)
			b.U(n.appliedIndex, n.pushedIndex, n.confirmedIndex, n.sm.GetLastApplied(), h.usm.val, h.usm.version, h.lastUpdIdx)
			b.Bool(h.pipe.stream)
			b.Bool(h.pipe.step).Bool(h.pipe.apply).Bool(h.pipe.commit).Bool(h.pipe.save).Bool(h.pipe.recover).Bool(c.lazy[h.id]).Bool(c.scriptHold[h.id])
			b.U(h.maxTermSent)
			// the node's logical clock: deadlines are relative to it and ReadIndex
			// contexts are stamped with it
			b.U(n.pendingReadIndexes.getTick())
		}
		if ps := h.ps; ps != nil {
			// the real worker pool, loaders and reference counts (RealPool configurations)
			p := ps.pool
			b.Sep('P').Bool(ps.held).Bool(ps.destroyed).Bool(h.registered).Bool(h.poolCCI).Bool(c.jobScheduled(h))
			b.U(h.cci, ps.stepCCI, ps.applyCCI, ps.commitCCI, p.cci, uint64(len(ps.stepNodes)), uint64(len(ps.applyN)), uint64(len(ps.commitN)))
			b.U(uint64(len(p.nodes)), uint64(len(p.busy)), uint64(len(p.saving)), uint64(len(p.recovering)), uint64(len(p.streaming)), uint64(len(p.pending)))
			for _, j := range p.pending {
				b.U(j.shardID, j.node.instanceID, j.task.Index).Bool(j.task.Save).Bool(j.task.Stream).Bool(j.task.Recover).Bool(j.task.Initial)
			}
		}
		if h.db == nil {
			b.Sep('d') // a joiner that has not been started yet: no store
			continue
		}
		st := nxState(h)
		ss, _ := h.db.GetSnapshot(nxShard, h.id)
		mi := nxMaxIndex(h)
		b.Sep('d').U(st.Term, st.Vote, st.Commit, mi, ss.Index)
		for i := ss.Index + 1; i <= mi; i++ {
			e, ok := c.persistedEntry(h, i)
			b.Bool(ok).U(e.Term).S(string(e.Cmd))
		}
	}
	b.Sep('R').U(c.rnd.n) // identifiers (read contexts, request keys) handed out so far
	b.Sep('M').U(uint64(len(c.msgs)))
	for _, it := range c.msgs {
		m := it.m
		b.U(m.To, m.From, uint64(m.Type), m.Term, m.LogTerm, m.LogIndex, m.Commit, m.Hint, m.HintHigh, m.Snapshot.Index).Bool(m.Reject).U(uint64(len(m.Entries)))
		for _, e := range m.Entries {
			b.U(e.Index, e.Term, uint64(e.Type)).S(string(e.Cmd))
		}
	}
	b.Sep('O')
	// only the relative order of invocations and responses matters
	var stamps []int
	for _, op := range c.ops {
		stamps = append(stamps, op.call, op.ret, op.readyAt)
	}
	sort.Ints(stamps)
	rank := func(t int) uint64 {
		if t == 0 {
			return 0
		}
		return uint64(sort.SearchInts(stamps, t)) + 1
	}
	for _, op := range c.ops {
		b.U(uint64(op.kind), op.at, op.val, rank(op.call), rank(op.ret), op.out, rank(op.readyAt), uint64(op.incar), uint64(op.committed)).S(op.status)
		if op.ret == 0 && op.rs != nil {
			h := c.byID[op.at]
			if h.up && op.incar == h.incar {
				// remaining ticks to the deadline
				now := h.node.pendingReadIndexes.getTick()
				if op.deadline > now && op.deadline-now < 8 {
					b.U(op.deadline - now)
				}
				if el := uint64(h.tickEvents - op.callTicks); el <= op.timeout+5 && op.timeout < 100 {
					b.U(el)
				}
			}
		}
	}
	u := c.used
	b.Sep('B').U(uint64(u.timeouts), uint64(u.ticks), uint64(u.crashes), uint64(u.drops), uint64(u.dups), uint64(u.reorders),
		uint64(u.writes), uint64(u.reads), uint64(u.lazy), uint64(u.heartbeats), uint64(u.transfers), uint64(u.stops), uint64(u.partitions), uint64(c.partition), uint64(c.devs), uint64(c.spos), uint64(u.holdJobs))
	ks := make([]uint64, 0)
	for k := range c.leaderOf {
		ks = append(ks, k)
	}
	sort.Slice(ks, func(i, j int) bool { return ks[i] < ks[j] })
	for _, k := range ks {
		b.U(k, c.leaderOf[k])
	}
	vk := make([][2]uint64, 0)
	for k := range c.voteOf {
		vk = append(vk, k)
	}
	sort.Slice(vk, func(i, j int) bool {
		if vk[i][0] != vk[j][0] {
			return vk[i][0] < vk[j][0]
		}
		return vk[i][1] < vk[j][1]
	})
	for _, k := range vk {
		b.U(k[0], k[1], c.voteOf[k])
	}
	return b.B
}

func (c *nxCluster) Check() string { return c.viol }
