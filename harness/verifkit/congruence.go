package verifkit

import (
	"fmt"
	"sort"
)

// CongruenceProbe checks the claim every deduplicating search rests on: two
// states with the same canonical description have the same futures. It runs a
// sequential breadth-first search (at most maxStates states); whenever a state
// is reached a second time by another path, the behaviour of the new arrival
// is compared with that of the stored representative for `depth` further
// steps: the enabled events, every step/check failure and the canonical
// descriptions of all successors must agree. It returns the number of states,
// the number of compared pairs and a description of up to 5 disagreeing pairs.
func CongruenceProbe(newInst func() Instance, describe func(uint32) string, maxStates, depth int) (states, compared int, bad []string) {
	var sig func(p []uint32, d int) string
	sig = func(p []uint32, d int) string {
		base, _ := Replay(newInst, p)
		var parts []string
		for _, e := range base.Enabled() {
			inst, _ := Replay(newInst, p)
			if m := inst.Step(e); m != "" {
				parts = append(parts, describe(e)+":FAIL:"+m)
				continue
			}
			if m := inst.Check(); m != "" {
				parts = append(parts, describe(e)+":CHECK:"+m)
				continue
			}
			s := fmt.Sprintf("%s:%x", describe(e), fingerprint(inst.Canon()))
			if d > 1 {
				s += "{" + sig(append(append([]uint32{}, p...), e), d-1) + "}"
			}
			parts = append(parts, s)
		}
		sort.Strings(parts)
		out := ""
		for _, s := range parts {
			out += s + ";"
		}
		return out
	}
	type rep struct {
		path []uint32
		sig  string
	}
	seen := map[fp]*rep{}
	root := newInst()
	seen[fingerprint(root.Canon())] = &rep{}
	frontier := [][]uint32{nil}
	for len(frontier) > 0 && len(seen) < maxStates && len(bad) < 5 {
		var next [][]uint32
		for _, p := range frontier {
			if len(seen) >= maxStates || len(bad) >= 5 {
				break
			}
			base, _ := Replay(newInst, p)
			for _, e := range base.Enabled() {
				inst, _ := Replay(newInst, p)
				if inst.Step(e) != "" || inst.Check() != "" {
					continue
				}
				np := append(append([]uint32{}, p...), e)
				k := fingerprint(inst.Canon())
				r, ok := seen[k]
				if !ok {
					seen[k] = &rep{path: np}
					next = append(next, np)
					continue
				}
				if r.sig == "" {
					r.sig = sig(r.path, depth)
				}
				compared++
				if s := sig(np, depth); s != r.sig && len(bad) < 5 {
					bad = append(bad, fmt.Sprintf("same canonical state, different futures:\n A: %v\n B: %v\n only in A: %.1200s\n only in B: %.1200s",
						PathString(r.path, describe), PathString(np, describe), sigDiff(r.sig, s), sigDiff(s, r.sig)))
				}
			}
		}
		frontier = next
	}
	return len(seen), compared, bad
}

// sigDiff lists the top-level items of signature a that are missing in b.
func sigDiff(a, b string) string {
	split := func(s string) []string {
		var out []string
		depth, start := 0, 0
		for i := 0; i < len(s); i++ {
			switch s[i] {
			case '{':
				depth++
			case '}':
				depth--
			case ';':
				if depth == 0 {
					out = append(out, s[start:i])
					start = i + 1
				}
			}
		}
		return out
	}
	in := map[string]bool{}
	for _, x := range split(b) {
		in[x] = true
	}
	out := ""
	for _, x := range split(a) {
		if !in[x] {
			out += x + " ; "
		}
	}
	return out
}
