// Package vatomic is a drop-in shim for sync/atomic: every operation is a
// vsched scheduling point (when an exploration is active) followed by the real
// atomic operation, so there is no separate model state.
package vatomic

import (
	"sync/atomic"
	"unsafe"

	"github.com/lni/dragonboat/v4/internal/verifkit/vsched"
)

func pt() { vsched.Point() }

// --- functions

func AddInt32(addr *int32, delta int32) int32             { pt(); return atomic.AddInt32(addr, delta) }
func AddInt64(addr *int64, delta int64) int64             { pt(); return atomic.AddInt64(addr, delta) }
func AddUint32(addr *uint32, delta uint32) uint32         { pt(); return atomic.AddUint32(addr, delta) }
func AddUint64(addr *uint64, delta uint64) uint64         { pt(); return atomic.AddUint64(addr, delta) }
func AddUintptr(addr *uintptr, d uintptr) uintptr         { pt(); return atomic.AddUintptr(addr, d) }
func LoadInt32(addr *int32) int32                         { pt(); return atomic.LoadInt32(addr) }
func LoadInt64(addr *int64) int64                         { pt(); return atomic.LoadInt64(addr) }
func LoadUint32(addr *uint32) uint32                      { pt(); return atomic.LoadUint32(addr) }
func LoadUint64(addr *uint64) uint64                      { pt(); return atomic.LoadUint64(addr) }
func LoadUintptr(addr *uintptr) uintptr                   { pt(); return atomic.LoadUintptr(addr) }
func LoadPointer(addr *unsafe.Pointer) unsafe.Pointer     { pt(); return atomic.LoadPointer(addr) }
func StoreInt32(addr *int32, v int32)                     { pt(); atomic.StoreInt32(addr, v) }
func StoreInt64(addr *int64, v int64)                     { pt(); atomic.StoreInt64(addr, v) }
func StoreUint32(addr *uint32, v uint32)                  { pt(); atomic.StoreUint32(addr, v) }
func StoreUint64(addr *uint64, v uint64)                  { pt(); atomic.StoreUint64(addr, v) }
func StoreUintptr(addr *uintptr, v uintptr)               { pt(); atomic.StoreUintptr(addr, v) }
func StorePointer(addr *unsafe.Pointer, v unsafe.Pointer) { pt(); atomic.StorePointer(addr, v) }
func SwapInt32(addr *int32, v int32) int32                { pt(); return atomic.SwapInt32(addr, v) }
func SwapInt64(addr *int64, v int64) int64                { pt(); return atomic.SwapInt64(addr, v) }
func SwapUint32(addr *uint32, v uint32) uint32            { pt(); return atomic.SwapUint32(addr, v) }
func SwapUint64(addr *uint64, v uint64) uint64            { pt(); return atomic.SwapUint64(addr, v) }
func SwapUintptr(addr *uintptr, v uintptr) uintptr        { pt(); return atomic.SwapUintptr(addr, v) }
func SwapPointer(addr *unsafe.Pointer, v unsafe.Pointer) unsafe.Pointer {
	pt()
	return atomic.SwapPointer(addr, v)
}
func CompareAndSwapInt32(addr *int32, o, n int32) bool {
	pt()
	return atomic.CompareAndSwapInt32(addr, o, n)
}
func CompareAndSwapInt64(addr *int64, o, n int64) bool {
	pt()
	return atomic.CompareAndSwapInt64(addr, o, n)
}
func CompareAndSwapUint32(addr *uint32, o, n uint32) bool {
	pt()
	return atomic.CompareAndSwapUint32(addr, o, n)
}
func CompareAndSwapUint64(addr *uint64, o, n uint64) bool {
	pt()
	return atomic.CompareAndSwapUint64(addr, o, n)
}
func CompareAndSwapUintptr(addr *uintptr, o, n uintptr) bool {
	pt()
	return atomic.CompareAndSwapUintptr(addr, o, n)
}
func CompareAndSwapPointer(addr *unsafe.Pointer, o, n unsafe.Pointer) bool {
	pt()
	return atomic.CompareAndSwapPointer(addr, o, n)
}
func AndInt32(addr *int32, mask int32) int32     { pt(); return atomic.AndInt32(addr, mask) }
func AndUint32(addr *uint32, mask uint32) uint32 { pt(); return atomic.AndUint32(addr, mask) }
func AndInt64(addr *int64, mask int64) int64     { pt(); return atomic.AndInt64(addr, mask) }
func AndUint64(addr *uint64, mask uint64) uint64 { pt(); return atomic.AndUint64(addr, mask) }
func OrInt32(addr *int32, mask int32) int32      { pt(); return atomic.OrInt32(addr, mask) }
func OrUint32(addr *uint32, mask uint32) uint32  { pt(); return atomic.OrUint32(addr, mask) }
func OrInt64(addr *int64, mask int64) int64      { pt(); return atomic.OrInt64(addr, mask) }
func OrUint64(addr *uint64, mask uint64) uint64  { pt(); return atomic.OrUint64(addr, mask) }

// --- types

// Value shims atomic.Value.
type Value struct{ v atomic.Value }

func (v *Value) Load() any                    { pt(); return v.v.Load() }
func (v *Value) Store(val any)                { pt(); v.v.Store(val) }
func (v *Value) Swap(n any) any               { pt(); return v.v.Swap(n) }
func (v *Value) CompareAndSwap(o, n any) bool { pt(); return v.v.CompareAndSwap(o, n) }

// Bool shims atomic.Bool.
type Bool struct{ v atomic.Bool }

func (b *Bool) Load() bool                    { pt(); return b.v.Load() }
func (b *Bool) Store(val bool)                { pt(); b.v.Store(val) }
func (b *Bool) Swap(n bool) bool              { pt(); return b.v.Swap(n) }
func (b *Bool) CompareAndSwap(o, n bool) bool { pt(); return b.v.CompareAndSwap(o, n) }

// Int32 shims atomic.Int32.
type Int32 struct{ v atomic.Int32 }

func (x *Int32) Load() int32                    { pt(); return x.v.Load() }
func (x *Int32) Store(val int32)                { pt(); x.v.Store(val) }
func (x *Int32) Swap(n int32) int32             { pt(); return x.v.Swap(n) }
func (x *Int32) CompareAndSwap(o, n int32) bool { pt(); return x.v.CompareAndSwap(o, n) }
func (x *Int32) Add(d int32) int32              { pt(); return x.v.Add(d) }

// Int64 shims atomic.Int64.
type Int64 struct{ v atomic.Int64 }

func (x *Int64) Load() int64                    { pt(); return x.v.Load() }
func (x *Int64) Store(val int64)                { pt(); x.v.Store(val) }
func (x *Int64) Swap(n int64) int64             { pt(); return x.v.Swap(n) }
func (x *Int64) CompareAndSwap(o, n int64) bool { pt(); return x.v.CompareAndSwap(o, n) }
func (x *Int64) Add(d int64) int64              { pt(); return x.v.Add(d) }

// Uint32 shims atomic.Uint32.
type Uint32 struct{ v atomic.Uint32 }

func (x *Uint32) Load() uint32                    { pt(); return x.v.Load() }
func (x *Uint32) Store(val uint32)                { pt(); x.v.Store(val) }
func (x *Uint32) Swap(n uint32) uint32            { pt(); return x.v.Swap(n) }
func (x *Uint32) CompareAndSwap(o, n uint32) bool { pt(); return x.v.CompareAndSwap(o, n) }
func (x *Uint32) Add(d uint32) uint32             { pt(); return x.v.Add(d) }

// Uint64 shims atomic.Uint64.
type Uint64 struct{ v atomic.Uint64 }

func (x *Uint64) Load() uint64                    { pt(); return x.v.Load() }
func (x *Uint64) Store(val uint64)                { pt(); x.v.Store(val) }
func (x *Uint64) Swap(n uint64) uint64            { pt(); return x.v.Swap(n) }
func (x *Uint64) CompareAndSwap(o, n uint64) bool { pt(); return x.v.CompareAndSwap(o, n) }
func (x *Uint64) Add(d uint64) uint64             { pt(); return x.v.Add(d) }

// Uintptr shims atomic.Uintptr.
type Uintptr struct{ v atomic.Uintptr }

func (x *Uintptr) Load() uintptr                    { pt(); return x.v.Load() }
func (x *Uintptr) Store(val uintptr)                { pt(); x.v.Store(val) }
func (x *Uintptr) Swap(n uintptr) uintptr           { pt(); return x.v.Swap(n) }
func (x *Uintptr) CompareAndSwap(o, n uintptr) bool { pt(); return x.v.CompareAndSwap(o, n) }
func (x *Uintptr) Add(d uintptr) uintptr            { pt(); return x.v.Add(d) }

// Pointer shims atomic.Pointer[T].
type Pointer[T any] struct{ v atomic.Pointer[T] }

func (p *Pointer[T]) Load() *T                    { pt(); return p.v.Load() }
func (p *Pointer[T]) Store(val *T)                { pt(); p.v.Store(val) }
func (p *Pointer[T]) Swap(n *T) *T                { pt(); return p.v.Swap(n) }
func (p *Pointer[T]) CompareAndSwap(o, n *T) bool { pt(); return p.v.CompareAndSwap(o, n) }
