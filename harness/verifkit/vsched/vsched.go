// Package vsched is engine E5 "schedx" of the /verif harnesses: a cooperative
// scheduler for REAL goroutines plus a preemption-bounded schedule explorer
// (iterative context bounding, Musuvathi/Qadeer).
//
// Harness threads are registered with (*Run).Go inside a setup function that
// builds FRESH objects for every execution. Exactly one thread runs at a time.
// Every operation of the vsync / vatomic shims, every Yield/Point and every
// WaitUntil/Await is a scheduling point. A thread whose wait predicate is false
// is disabled. "No enabled thread, but an unfinished thread that is not parked
// in a benign Await" is a deadlock. More scheduling points than the horizon
// is a livelock.
//
// Outside an exploration (no current execution) all entry points are cheap
// no-ops / real waits, so code compiled against the shims behaves like code
// compiled against sync and sync/atomic.
package vsched

import (
	"fmt"
	"hash/fnv"
	"os"
	"runtime"
	"runtime/debug"
	"strings"
	"sync"
	"sync/atomic"
	"time"
)

// Status is how one execution ended.
type Status int

const (
	// Completed: every thread finished (or is parked in a benign Await).
	Completed Status = iota
	// Deadlock: no thread enabled, at least one unfinished thread is blocked
	// in a non-benign wait.
	Deadlock
	// Livelock: the horizon (max scheduling points) was exceeded.
	Livelock
	// Panicked: a thread panicked (message in Outcome.Msg).
	Panicked
)

func (s Status) String() string {
	return [...]string{"completed", "deadlock", "livelock", "panic"}[s]
}

type abortSignal struct{}

type thread struct {
	id      int
	name    string
	fn      func()
	wake    chan struct{}
	pred    func() bool
	why     string
	benign  bool
	done    bool
	started bool
}

func (t *thread) enabled() bool {
	if t.done {
		return false
	}
	return t.pred == nil || t.pred()
}

// Run is one execution: the handle given to the setup function.
type Run struct {
	threads     []*thread
	cur         *thread // running thread; nil = controller context
	prefix      []int
	expect      []uint32 // expected signatures of the prefix points (nil = unchecked)
	choices     []int
	sigs        []uint32
	nopts       []int32
	pre         []int32 // preemptions before point i
	runEn       []bool  // running thread still enabled at point i
	who         []int32 // thread chosen at point i
	preempts    int
	horizon     int
	aborting    bool
	status      Status
	msg         string
	stack       string
	log         []string
	ctrl        chan struct{}
	exitC       chan struct{}
	wg          sync.WaitGroup
	optsBuf     []*thread
	free        bool // free-running mode (no scheduler)
	freeWG      sync.WaitGroup
	freeMu      sync.Mutex
	seq         int
	fatal       string // scheduler-level hard error (bad choice, divergence)
	optDesc     []string
	evalThread  *thread // thread whose wait predicate is being evaluated
	inQuiescent bool
	picking     bool // a scheduling decision is being made (wait predicates are running)
	costAll     bool // every non-default choice counts (deviation bounding), not only preemptions
	sel         int  // case chosen by the last SelectWait of the running thread
	// free-running mode: threads neither finished nor waiting
	freeActive atomic.Int64
}

// current execution (nil = no exploration active).
var current atomic.Pointer[Run]

// freeRun is set while RunFree executes thread bodies as plain goroutines.
var freeRun atomic.Pointer[Run]

// Active reports whether a controlled execution is in progress.
func Active() bool { return current.Load() != nil }

// Cur returns the current execution or nil.
func Cur() *Run { return current.Load() }

// Go registers a harness thread. Only valid inside the setup function.
func (r *Run) Go(name string, fn func()) {
	if r.free {
		r.threads = append(r.threads, &thread{id: len(r.threads), name: name, fn: fn})
		return
	}
	if r.cur != nil || len(r.choices) > 0 {
		panic("vsched: Go called after the execution started")
	}
	t := &thread{id: len(r.threads), name: name, fn: fn, wake: make(chan struct{}, 1)}
	r.threads = append(r.threads, t)
}

// SetNames names the first len(names) registered threads (threads created
// through Spawn by library code get generic names).
func (r *Run) SetNames(names []string) {
	for i, n := range names {
		if i < len(r.threads) {
			r.threads[i].name = n
		}
	}
}

// MoveLast gives the named thread the highest id, i.e. makes it the last
// choice of the default schedule (only valid inside the setup function).
func (r *Run) MoveLast(name string) {
	if r.cur != nil || len(r.choices) > 0 {
		panic("vsched: MoveLast called after the execution started")
	}
	for i, t := range r.threads {
		if t.name == name {
			r.threads = append(append(r.threads[:i:i], r.threads[i+1:]...), t)
			break
		}
	}
	for i, t := range r.threads {
		t.id = i
	}
}

// Free reports whether this is a free-running (uncontrolled) execution.
func (r *Run) Free() bool { return r.free }

// Logf appends an observation to the execution log (part of what replay
// determinism is judged on). Safe in free-running mode too.
func (r *Run) Logf(format string, a ...interface{}) {
	s := fmt.Sprintf(format, a...)
	if r.free {
		r.freeMu.Lock()
		r.log = append(r.log, s)
		r.freeMu.Unlock()
		return
	}
	if r.cur != nil {
		s = r.cur.name + ": " + s
	}
	r.log = append(r.log, s)
}

// Seq returns a fresh logical time stamp (strictly increasing inside one
// controlled execution).
func (r *Run) Seq() int {
	if r.free {
		r.freeMu.Lock()
		defer r.freeMu.Unlock()
	}
	r.seq++
	return r.seq
}

// ThreadName returns the name of the running thread ("" in controller context).
func (r *Run) ThreadName() string {
	if r.cur == nil {
		return ""
	}
	return r.cur.name
}

// ThreadID returns the id of the running thread (-1 in controller context).
func ThreadID() int {
	r := current.Load()
	if r == nil || r.cur == nil {
		return -1
	}
	return r.cur.id
}

// Yield is a plain scheduling point.
func Yield() {
	r := current.Load()
	if r == nil {
		if freeRun.Load() != nil {
			runtime.Gosched()
		}
		return
	}
	r.point(nil, "", false)
}

// Point is a scheduling point (alias of Yield, used by the shims).
func Point() {
	if r := current.Load(); r != nil {
		r.point(nil, "", false)
	}
}

var debugOpts = os.Getenv("VERIF_DEBUG") != ""

// freeSpinLimit bounds waits in free-running mode.
var freeSpinLimit = 200 * time.Millisecond

// WaitUntil is a scheduling point at which the calling thread is enabled only
// when pred() holds; being stuck here forever is a deadlock. pred must only
// read state. Outside an exploration it spins (with Gosched) until pred holds
// or a time limit passes; it returns false in the latter case.
func WaitUntil(pred func() bool, why string) bool {
	r := current.Load()
	if r == nil {
		return spin(pred)
	}
	r.point(pred, why, false)
	return true
}

// Await is WaitUntil for harness-level "wait for a result" operations: a
// thread parked here when nothing else can run does not make the execution a
// deadlock (the execution ends as Completed and the thread is listed in
// Outcome.Parked; its remaining operations are skipped).
func Await(pred func() bool, why string) bool {
	r := current.Load()
	if r == nil {
		return spin(pred)
	}
	r.point(pred, why, true)
	return true
}

// spin is the free-running wait: until pred holds, or until every other
// thread of the free run has finished or is waiting too (then false: the
// caller must stop), or a time limit passes.
func spin(pred func() bool) bool {
	if pred() {
		return true
	}
	fr := freeRun.Load()
	if fr != nil {
		fr.freeActive.Add(-1)
		defer fr.freeActive.Add(1)
	}
	dl := time.Now().Add(freeSpinLimit)
	idle := 0
	for i := 0; ; i++ {
		if pred() {
			return true
		}
		runtime.Gosched()
		if fr != nil && fr.freeActive.Load() <= 0 {
			idle++
			if idle > 64 {
				return pred()
			}
		} else {
			idle = 0
		}
		if i&0xff == 0xff && time.Now().After(dl) {
			return pred()
		}
	}
}

// Block is used by the shims: like WaitUntil but only valid inside an
// exploration. In controller context a false predicate panics (the
// controller must never block).
func (r *Run) Block(pred func() bool, why string) { r.point(pred, why, false) }

// Aborting reports whether the execution is being torn down (shim operations
// must then be no-ops: they are called from deferred functions while the
// thread stacks unwind).
func (r *Run) Aborting() bool { return r.aborting }

// InThread reports whether a harness thread (not the controller) is running.
func (r *Run) InThread() bool { return r.cur != nil }

func sigOf(running int, runEn bool, opts []*thread) uint32 {
	h := uint32(2166136261)
	mix := func(v uint32) {
		h ^= v
		h *= 16777619
	}
	mix(uint32(running + 2))
	if runEn {
		mix(7)
	} else {
		mix(3)
	}
	for _, t := range opts {
		mix(uint32(t.id + 11))
	}
	return h
}

// pick makes the scheduling decision at one point. Returns nil when no thread
// is enabled or the horizon is exceeded (status set accordingly).
func (r *Run) pick() *thread {
	r.picking = true
	defer func() { r.picking = false }()
	opts := r.optsBuf[:0]
	runEn := false
	running := -1
	if r.cur != nil {
		running = r.cur.id
		r.evalThread = r.cur
		if r.cur.enabled() {
			opts = append(opts, r.cur)
			runEn = true
		}
	}
	for _, t := range r.threads {
		r.evalThread = t
		if t != r.cur && t.enabled() {
			opts = append(opts, t)
		}
	}
	r.evalThread = nil
	r.optsBuf = opts
	if len(opts) == 0 {
		bad := false
		for _, t := range r.threads {
			if !t.done && !t.benign {
				bad = true
			}
		}
		if bad {
			r.status = Deadlock
			r.msg = r.blockedDesc()
		} else {
			r.status = Completed
		}
		return nil
	}
	i := len(r.choices)
	if i >= r.horizon {
		r.status = Livelock
		r.msg = fmt.Sprintf("more than %d scheduling points", r.horizon)
		return nil
	}
	sig := sigOf(running, runEn, opts)
	if debugOpts {
		ids := fmt.Sprintf("%d:", running)
		for _, t := range opts {
			ids += fmt.Sprint(t.id)
		}
		r.optDesc = append(r.optDesc, ids)
	}
	c := 0
	if i < len(r.prefix) {
		c = r.prefix[i]
		if r.expect != nil && i < len(r.expect) && r.expect[i] != sig {
			// hard error: reported by the controller goroutine after teardown
			r.fatal = fmt.Sprintf("vsched: NONDETERMINISM: replay of prefix diverged at point %d (enabled set differs from the recorded run); prefix=%v", i, r.prefix)
			r.status = Completed
			return nil
		}
		if c < 0 || c >= len(opts) {
			r.fatal = fmt.Sprintf("vsched: choice %d out of range at point %d (%d options); prefix=%v", c, i, len(opts), r.prefix)
			r.status = Completed
			return nil
		}
	}
	r.choices = append(r.choices, c)
	r.sigs = append(r.sigs, sig)
	r.nopts = append(r.nopts, int32(len(opts)))
	r.pre = append(r.pre, int32(r.preempts))
	r.runEn = append(r.runEn, runEn)
	r.who = append(r.who, int32(opts[c].id))
	if (runEn || r.costAll) && c > 0 {
		r.preempts++
	}
	return opts[c]
}

// choose records an n-way data choice of the running thread in the schedule
// (same choice list as the thread choices, so replay and exploration treat it
// alike). Option 0 is the default; the others cost one deviation.
func (r *Run) choose(n int) int {
	if r.aborting || r.cur == nil || n <= 1 {
		return 0
	}
	i := len(r.choices)
	if i >= r.horizon {
		return 0
	}
	sig := uint32(0x9e3779b9) ^ uint32(n*131+r.cur.id)
	c := 0
	if i < len(r.prefix) {
		c = r.prefix[i]
		if r.expect != nil && i < len(r.expect) && r.expect[i] != sig {
			r.fatal = fmt.Sprintf("vsched: NONDETERMINISM: replay of prefix diverged at point %d (a select had a different set of ready cases); prefix=%v", i, r.prefix)
			c = 0
		} else if c < 0 || c >= n {
			r.fatal = fmt.Sprintf("vsched: choice %d out of range at select choice point %d (%d ready cases); prefix=%v", c, i, n, r.prefix)
			c = 0
		}
	}
	r.choices = append(r.choices, c)
	r.sigs = append(r.sigs, sig)
	r.nopts = append(r.nopts, int32(n))
	r.pre = append(r.pre, int32(r.preempts))
	r.runEn = append(r.runEn, true)
	r.who = append(r.who, int32(r.cur.id))
	if c > 0 {
		r.preempts++
	}
	return c
}

func (r *Run) blockedDesc() string {
	var b []string
	for _, t := range r.threads {
		if !t.done {
			b = append(b, fmt.Sprintf("%s blocked at %s", t.name, t.why))
		}
	}
	return strings.Join(b, "; ")
}

func (r *Run) point(pred func() bool, why string, benign bool) {
	if r.aborting {
		return
	}
	if r.picking {
		panic("vsched: scheduling point reached from inside a wait predicate (predicates must not call shimmed code): " + why)
	}
	t := r.cur
	if t == nil {
		// controller context (setup / final checks): never blocks
		if pred != nil && !pred() {
			panic("vsched: controller context would block at " + why)
		}
		return
	}
	t.pred, t.why, t.benign = pred, why, benign
	next := r.pick()
	if next == nil {
		// end of execution decided while this thread is parked
		r.ctrl <- struct{}{}
		<-t.wake
		panic(abortSignal{})
	}
	if next != t {
		r.cur = next
		next.wake <- struct{}{}
		<-t.wake
		if r.aborting {
			panic(abortSignal{})
		}
	}
	t.pred, t.why, t.benign = nil, "", false
}

func (r *Run) threadMain(t *thread) {
	defer r.wg.Done()
	<-t.wake
	if r.aborting {
		t.done = true
		r.exitC <- struct{}{}
		return
	}
	t.started = true
	defer func() {
		rec := recover()
		t.done = true
		t.pred = nil
		if r.aborting {
			r.exitC <- struct{}{}
			return
		}
		if rec != nil {
			if _, ok := rec.(abortSignal); !ok {
				r.status = Panicked
				r.msg = fmt.Sprint(rec)
				r.stack = string(debug.Stack())
				r.cur = nil
				r.ctrl <- struct{}{}
				return
			}
		}
		// normal exit: hand over
		r.cur = t // t is done => not enabled => free switch
		next := r.pick()
		if next == nil {
			r.cur = nil
			r.ctrl <- struct{}{}
			return
		}
		r.cur = next
		next.wake <- struct{}{}
	}()
	t.fn()
}

// Outcome describes one finished execution.
type Outcome struct {
	Status      Status
	Msg         string
	Stack       string
	Choices     []int
	Points      int
	Preemptions int
	Log         []string
	Parked      []string // threads parked in a benign Await at the end
	Obs         string   // what Config.Observe returned (part of the digest)
	optDesc     []string
	Unstarted   []string
	sigs        []uint32
	nopts       []int32
	pre         []int32
	runEn       []bool
	who         []int32
	names       []string
}

// Digest hashes everything observable about the execution (status, schedule,
// log). Two runs of the same choice list must have equal digests.
func (o *Outcome) Digest() uint64 {
	h := fnv.New64a()
	fmt.Fprintf(h, "%d|%s|%d|", o.Status, o.Msg, o.Preemptions)
	for i := range o.Choices {
		fmt.Fprintf(h, "%d:%d:%d,", o.Choices[i], o.who[i], o.nopts[i])
	}
	for _, l := range o.Log {
		h.Write([]byte(l))
		h.Write([]byte{0})
	}
	for _, p := range o.Parked {
		h.Write([]byte(p))
	}
	h.Write([]byte(o.Obs))
	return h.Sum64()
}

// OptDesc returns the per-point "running:enabled ids" strings (only recorded
// when VERIF_DEBUG is set).
func (o *Outcome) OptDesc() []string { return o.optDesc }

// Schedule renders the schedule as "thread×n" segments (for reports).
func (o *Outcome) Schedule() string {
	var sb strings.Builder
	last, n := int32(-1), 0
	flush := func() {
		if n > 0 {
			if sb.Len() > 0 {
				sb.WriteString(" ")
			}
			fmt.Fprintf(&sb, "%s×%d", o.names[last], n)
		}
	}
	for _, w := range o.who {
		if w != last {
			flush()
			last, n = w, 0
		}
		n++
	}
	flush()
	return sb.String()
}

// Config bounds an exploration.
type Config struct {
	Bound   int // max preemptions
	Horizon int // max scheduling points per execution (livelock beyond)
	// Mine decides ownership of DFS subtree / spine node k (sharding). nil = all.
	Mine func(k uint64) bool
	// SplitDepth: DFS nodes of depth < SplitDepth are executed by every shard
	// (but judged and counted only by their owner); subtrees rooted at depth
	// SplitDepth are explored only by their owner. 0 = no sharding.
	SplitDepth int
	// Expired is polled between executions; true stops the exploration (capped).
	Expired func() bool
	// VerifyEvery: every n-th execution is replayed twice from its choice list
	// and the digests compared (0 = never). A mismatch panics (harness error).
	VerifyEvery int64
	// Observe (optional) is called in controller context at the end of every
	// execution that is selected for replay verification and of its replays;
	// its result is part of the digest replay determinism is judged on.
	Observe func(o *Outcome) string
	// DivergenceRetries: the code under test may contain nondeterminism the
	// scheduler cannot own (Go map iteration order inside close()/gc loops).
	// When > 0, an execution whose prefix diverges from the recorded run is
	// re-executed up to this many times until it matches (Stats.Retries counts
	// them); 0 = any divergence is a hard error.
	DivergenceRetries int
	// CostAll: deviation bounding instead of preemption bounding - EVERY choice
	// other than the default one (running thread first, else lowest thread id)
	// costs 1, also when the running thread is blocked or finished. With many
	// mostly idle worker threads the free switches of pure preemption bounding
	// multiply beyond reach; Bound then bounds deviations from the default
	// schedule (every schedule with <= Bound deviations is executed once).
	CostAll bool
	// GCEvery: the collector is switched off while executions run and invoked
	// manually every n executions (sync.Pool determinism). 0 = default 4096.
	GCEvery int64
}

// Stats is what an exploration measured.
type Stats struct {
	Executions  int64 // executions judged by this shard
	Spine       int64 // executions done only to discover subtrees (not judged here)
	Schedules   int64 // distinct choice lists among judged executions
	MaxPoints   int
	MaxPreempt  int
	Verified    int64 // executions replayed twice with identical digests
	Retries     int64 // re-executions after a divergence (DivergenceRetries > 0)
	Capped      bool
	Deadlocks   int64
	Livelocks   int64
	Panics      int64
	ByPreempt   [8]int64
	TotalPoints int64
}

// Explorer enumerates all schedules with at most Bound preemptions.
type Explorer struct {
	cfg        Config
	setup      func(r *Run)
	visit      func(o *Outcome) bool
	st         Stats
	seen       map[uint64]struct{}
	stop       bool
	nexec      int64
	parentDesc string
}

func newRun(prefix []int, expect []uint32, horizon int) *Run {
	const c = 160
	return &Run{prefix: prefix, expect: expect, horizon: horizon,
		choices: make([]int, 0, c), sigs: make([]uint32, 0, c), nopts: make([]int32, 0, c), pre: make([]int32, 0, c),
		runEn: make([]bool, 0, c), who: make([]int32, 0, c), optsBuf: make([]*thread, 0, 8),
		ctrl: make(chan struct{}, 1), exitC: make(chan struct{}, 8)}
}

// execute runs one execution with the given prefix (then choice 0 forever).
func execute(setup func(r *Run), prefix []int, expect []uint32, horizon int, final func(o *Outcome)) *Outcome {
	o, fatal := tryExecute(setup, prefix, expect, horizon, final)
	if fatal != "" {
		panic(fatal)
	}
	return o
}

// tryExecute is execute that returns scheduler-level hard errors (bad choice,
// divergence from the recorded run) instead of panicking.
func tryExecute(setup func(r *Run), prefix []int, expect []uint32, horizon int, final func(o *Outcome)) (*Outcome, string) {
	return tryExecuteC(setup, prefix, expect, horizon, final, false)
}

func tryExecuteC(setup func(r *Run), prefix []int, expect []uint32, horizon int, final func(o *Outcome), costAll bool) (*Outcome, string) {
	if current.Load() != nil {
		panic("vsched: nested exploration")
	}
	r := newRun(prefix, expect, horizon)
	r.costAll = costAll
	current.Store(r)
	defer current.Store(nil)
	setup(r)
	if len(r.threads) == 0 {
		panic("vsched: setup registered no thread")
	}
	for _, t := range r.threads {
		r.wg.Add(1)
		go r.threadMain(t)
	}
	first := r.pick()
	if first == nil {
		if r.fatal == "" {
			r.fatal = "vsched: no enabled thread at start"
		}
	} else {
		r.cur = first
		first.wake <- struct{}{}
		<-r.ctrl
	}
	r.cur = nil
	if r.fatal == "" && len(r.prefix) > len(r.choices) && r.status == Completed {
		r.fatal = fmt.Sprintf("vsched: NONDETERMINISM: execution ended after %d points but the prefix has %d choices: %v",
			len(r.choices), len(r.prefix), r.prefix)
	}
	o := &Outcome{Status: r.status, Msg: r.msg, Stack: r.stack, Choices: r.choices, Points: len(r.choices),
		Preemptions: r.preempts, optDesc: r.optDesc, sigs: r.sigs, nopts: r.nopts, pre: r.pre, runEn: r.runEn, who: r.who}
	for _, t := range r.threads {
		o.names = append(o.names, t.name)
		if !t.done {
			if !t.started {
				o.Unstarted = append(o.Unstarted, t.name)
			} else if t.benign {
				o.Parked = append(o.Parked, t.name+"@"+t.why)
			}
		}
	}
	// tear down every unfinished thread, one at a time
	r.aborting = true
	for _, t := range r.threads {
		if !t.done {
			t.wake <- struct{}{}
			<-r.exitC
		}
	}
	r.wg.Wait()
	r.aborting = false
	if r.fatal != "" {
		return nil, r.fatal + "\nlog of the diverging run: " + strings.Join(r.log, " | ") + fmt.Sprintf("\nwho=%v nopts=%v opts=%v", r.who, r.nopts, r.optDesc)
	}
	o.Log = r.log
	if final != nil {
		// controller context, execution still current: shims run in direct mode
		final(o)
		o.Log = r.log
	}
	return o, ""
}

// Explore enumerates every schedule of the threads registered by setup that has
// at most cfg.Bound preemptions. setup is called once per execution and must
// build fresh objects. visit is called in controller context after every
// judged execution (the shims are in direct, non-blocking mode there); it
// returns true to stop the exploration.
func Explore(cfg Config, setup func(r *Run), visit func(o *Outcome) bool) Stats {
	if cfg.Horizon <= 0 {
		panic("vsched: a horizon is mandatory")
	}
	if cfg.GCEvery == 0 {
		cfg.GCEvery = 4096
	}
	x := &Explorer{cfg: cfg, setup: setup, visit: visit, seen: make(map[uint64]struct{})}
	old := debug.SetGCPercent(-1)
	defer debug.SetGCPercent(old)
	x.explore(nil, nil, 0, 0)
	x.st.Schedules = int64(len(x.seen))
	return x.st
}

// exec executes one schedule; divergence from the recorded prefix is retried
// cfg.DivergenceRetries times, then it is a hard error.
func (x *Explorer) exec(prefix []int, expect []uint32, final func(o *Outcome)) *Outcome {
	for try := 0; ; try++ {
		o, fatal := tryExecuteC(x.setup, prefix, expect, x.cfg.Horizon, final, x.cfg.CostAll)
		if fatal == "" {
			return o
		}
		if try >= x.cfg.DivergenceRetries || !strings.Contains(fatal, "NONDETERMINISM") {
			panic(fmt.Sprintf("%s\n(after %d retries) parent: %s", fatal, try, x.parentDesc))
		}
		x.st.Retries++
		if debugOpts {
			fmt.Fprintln(os.Stderr, "retry", try, fatal[:120])
		}
	}
}

func hashChoices(c []int) uint64 {
	h := uint64(14695981039346656037)
	for _, v := range c {
		h ^= uint64(v + 1)
		h *= 1099511628211
	}
	h ^= uint64(len(c))
	h *= 1099511628211
	return h
}

func (x *Explorer) mine(k uint64) bool { return x.cfg.Mine == nil || x.cfg.Mine(k) }

func (x *Explorer) explore(prefix []int, expect []uint32, depth int, from int) {
	if x.stop {
		return
	}
	if x.cfg.Expired != nil && x.cfg.Expired() {
		x.st.Capped = true
		x.stop = true
		return
	}
	sharded := x.cfg.SplitDepth > 0 && x.cfg.Mine != nil
	judged := true
	if sharded && depth < x.cfg.SplitDepth {
		judged = x.mine(hashChoices(prefix))
	}
	x.nexec++
	if x.nexec%x.cfg.GCEvery == 0 {
		runtime.GC()
	}
	var o *Outcome
	if judged {
		verify := x.cfg.VerifyEvery > 0 && (x.st.Executions+1)%x.cfg.VerifyEvery == 0
		o = x.exec(prefix, expect, func(o *Outcome) {
			if verify && x.cfg.Observe != nil {
				o.Obs = x.cfg.Observe(o)
			}
			if x.visit(o) {
				x.stop = true
			}
		})
		x.st.Executions++
		x.st.TotalPoints += int64(o.Points)
		// distinct schedules: the full choice list identifies the schedule
		x.seen[hashChoices(o.Choices)] = struct{}{}
		if o.Points > x.st.MaxPoints {
			x.st.MaxPoints = o.Points
		}
		if o.Preemptions > x.st.MaxPreempt {
			x.st.MaxPreempt = o.Preemptions
		}
		if o.Preemptions < len(x.st.ByPreempt) {
			x.st.ByPreempt[o.Preemptions]++
		}
		switch o.Status {
		case Deadlock:
			x.st.Deadlocks++
		case Livelock:
			x.st.Livelocks++
		case Panicked:
			x.st.Panics++
		}
		if o.Preemptions > x.cfg.Bound {
			panic("vsched: explorer produced a schedule above the preemption bound")
		}
		if verify {
			d := o.Digest()
			for k := 0; k < 2; k++ {
				var o2 *Outcome
				for try := 0; ; try++ {
					o2 = x.exec(o.Choices, o.sigs, func(o2 *Outcome) {
						if x.cfg.Observe != nil {
							o2.Obs = x.cfg.Observe(o2)
						}
					})
					if o2.Digest() == d || try >= x.cfg.DivergenceRetries {
						break
					}
					x.st.Retries++
				}
				if o2.Digest() != d {
					panic(fmt.Sprintf("vsched: NONDETERMINISM: replay of %v gave different observations\nfirst: %v %s %v %s\nreplay: %v %s %v %s",
						o.Choices, o.Status, o.Msg, o.Log, o.Obs, o2.Status, o2.Msg, o2.Log, o2.Obs))
				}
			}
			x.st.Verified++
		}
	} else {
		o = x.exec(prefix, expect, nil)
		x.st.Spine++
	}
	if x.stop {
		return
	}
	desc := ""
	if debugOpts {
		desc = fmt.Sprintf("log=%s who=%v nopts=%v opts=%v", strings.Join(o.Log, " | "), o.who, o.nopts, o.optDesc)
	}
	for i := from; i < o.Points; i++ {
		x.parentDesc = desc
		n := int(o.nopts[i])
		if n <= 1 {
			continue
		}
		cost := int(o.pre[i])
		if o.runEn[i] || x.cfg.CostAll {
			cost++
		}
		if cost > x.cfg.Bound {
			continue
		}
		for alt := 1; alt < n; alt++ {
			child := make([]int, i+1)
			copy(child, o.Choices[:i])
			child[i] = alt
			if sharded && depth+1 == x.cfg.SplitDepth && !x.mine(hashChoices(child)) {
				continue
			}
			x.explore(child, o.sigs[:i+1], depth+1, i+1)
			if x.stop {
				return
			}
		}
	}
}

// Replay executes exactly one schedule given by its choice list (then choice 0
// if the list is shorter than the execution) and calls final in controller
// context. An out-of-range choice panics.
func Replay(horizon int, setup func(r *Run), choices []int, final func(o *Outcome)) *Outcome {
	old := debug.SetGCPercent(-1)
	defer debug.SetGCPercent(old)
	return execute(setup, choices, nil, horizon, final)
}

// RunFree runs the threads registered by setup as ordinary goroutines with no
// scheduler (the shims delegate to the real primitives): used by the -race
// parts. Returns the message of the first panic of a thread ("" if none).
func RunFree(setup func(r *Run)) (panicMsg string) {
	r := &Run{free: true}
	setup(r)
	r.freeActive.Store(int64(len(r.threads)))
	freeRun.Store(r)
	defer freeRun.Store(nil)
	var mu sync.Mutex
	start := make(chan struct{})
	for _, t := range r.threads {
		r.freeWG.Add(1)
		go func(t *thread) {
			defer r.freeWG.Done()
			defer r.freeActive.Add(-1)
			defer func() {
				if rec := recover(); rec != nil {
					mu.Lock()
					if panicMsg == "" {
						panicMsg = fmt.Sprint(rec)
					}
					mu.Unlock()
				}
			}()
			<-start
			t.fn()
		}(t)
	}
	close(start)
	r.freeWG.Wait()
	return panicMsg
}
