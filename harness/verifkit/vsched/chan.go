package vsched

import (
	"fmt"
	"reflect"
)

// Blocking channel operations of code that runs under the scheduler.
//
// A thread must never block in a real channel operation while it holds the
// scheduler's token. schedrewrite -block therefore puts a SelectWait /
// ChanWait in front of every select without default and every plain send /
// receive: the thread is disabled until one of the operations can proceed
// (tested without side effect), and because no other thread runs between the
// wait and the operation itself, the real operation then never blocks.

// ChanCase is one channel operation a thread is about to wait for.
type ChanCase struct {
	v    reflect.Value
	send bool
}

// R describes a receive from ch.
func R(ch interface{}) ChanCase { return ChanCase{v: reflect.ValueOf(ch)} }

// S describes a send to ch.
func S(ch interface{}) ChanCase { return ChanCase{v: reflect.ValueOf(ch), send: true} }

// RV / SV: the same for a reflect.Value (reflect.Select shim).
func RV(v reflect.Value) ChanCase { return ChanCase{v: v} }

func (c ChanCase) ready() bool {
	if !c.v.IsValid() || c.v.Kind() != reflect.Chan || c.v.IsNil() {
		return false
	}
	if c.send {
		if c.v.Cap() == 0 {
			panic("vsched: send on an unbuffered channel is not supported under the scheduler")
		}
		return c.v.Len() < c.v.Cap()
	}
	if c.v.Len() > 0 {
		return true
	}
	// empty: ready only if closed. With nothing buffered and no sender parked
	// in a real send (threads never are), TryRecv has no side effect.
	x, ok := c.v.TryRecv()
	if ok {
		panic(fmt.Sprintf("vsched: readiness probe received a value from an empty channel (%v)", c.v.Type()))
	}
	return x.IsValid()
}

func anyReady(cs []ChanCase) bool {
	for _, c := range cs {
		if c.ready() {
			return true
		}
	}
	return false
}

// SelectWait precedes a select without default (the idle point of a worker
// loop): being parked here when nothing else can run is not a deadlock.
func SelectWait(cs ...ChanCase) {
	r := current.Load()
	if r == nil {
		return
	}
	r.point(func() bool { return anyReady(cs) }, "select", true)
	r.sel = chooseReady(r, cs)
}

// chooseReady picks the case a select takes: the only ready one, or - when
// several are ready, where the Go runtime picks at random - a choice that is
// part of the schedule (default: the first in source order; every other ready
// case is an alternative that costs one deviation / preemption).
func chooseReady(r *Run, cs []ChanCase) int {
	var ready []int
	for i, c := range cs {
		if c.ready() {
			ready = append(ready, i)
		}
	}
	switch len(ready) {
	case 0:
		return -1
	case 1:
		return ready[0]
	}
	return ready[r.choose(len(ready))]
}

// SelectIndex is SelectWait for callers that perform the receive themselves
// (the reflect.Select shim): it returns the index of the case to take.
func SelectIndex(cs ...ChanCase) int {
	r := current.Load()
	if r == nil {
		return -1
	}
	r.point(func() bool { return anyReady(cs) }, "select", true)
	return chooseReady(r, cs)
}

// ChanWait precedes a plain blocking send or receive.
func ChanWait(cs ...ChanCase) {
	r := current.Load()
	if r == nil {
		return
	}
	r.point(func() bool { return anyReady(cs) }, "channel operation", false)
}

// Spawn registers a thread on behalf of library code that does not hold the
// *Run (the Stopper shim): in controller context before the first point it is
// Run.Go; from a running thread it starts a new thread of the controlled
// execution (enabled from the next scheduling point on).
func Spawn(name string, fn func()) bool {
	r := current.Load()
	if r == nil {
		return false
	}
	if r.aborting {
		return true // the execution is being torn down: the new thread never runs
	}
	name = fmt.Sprintf("%s#%d", name, len(r.threads))
	if r.cur == nil {
		r.Go(name, fn)
		return true
	}
	t := &thread{id: len(r.threads), name: name, fn: fn, wake: make(chan struct{}, 1)}
	r.threads = append(r.threads, t)
	r.wg.Add(1)
	go r.threadMain(t)
	return true
}

// Quiescent reports whether every thread other than the calling one is
// finished or disabled (to be used inside wait predicates: "the system has
// nothing left to do").
func Quiescent() bool {
	r := current.Load()
	if r == nil {
		return true
	}
	if r.inQuiescent {
		return true // another quiescence waiter counts as idle
	}
	self := r.evalThread
	if self == nil {
		self = r.cur
	}
	r.inQuiescent = true
	defer func() { r.inQuiescent = false }()
	for _, t := range r.threads {
		if t == self || t.done {
			continue
		}
		if t.pred == nil || t.pred() {
			return false
		}
	}
	return true
}

// CaseReady reports whether the operation can proceed without blocking.
func CaseReady(c ChanCase) bool { return c.ready() }

// Pick / PickS are wrapped around the channel of every case of a rewritten
// blocking select: after the preceding SelectWait only the chosen (first
// ready) case keeps its channel, all others see a nil channel and can never be
// selected. Outside an exploration they return ch.
func Pick[T any](i int, ch <-chan T) <-chan T {
	r := current.Load()
	if r == nil || r.cur == nil || r.aborting {
		return ch
	}
	if r.sel == i {
		return ch
	}
	return nil
}

func PickS[T any](i int, ch chan<- T) chan<- T {
	r := current.Load()
	if r == nil || r.cur == nil || r.aborting {
		return ch
	}
	if r.sel == i {
		return ch
	}
	return nil
}
