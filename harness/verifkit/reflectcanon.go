package verifkit

import (
	"fmt"
	"reflect"
	"sort"
)

// ReflectCanon appends a canonical description of v to c. It follows pointers,
// sorts map keys, walks unexported fields and skips funcs, channels and
// interfaces holding those. skip may exclude fields by "Type.Field" name.
func ReflectCanon(c *CanonBuf, v interface{}, skip map[string]bool) {
	walk(c, reflect.ValueOf(v), skip, 0)
}

func walk(c *CanonBuf, v reflect.Value, skip map[string]bool, depth int) {
	if depth > 40 {
		panic("ReflectCanon: too deep (cycle?)")
	}
	if !v.IsValid() {
		c.Sep('n')
		return
	}
	switch v.Kind() {
	case reflect.Bool:
		c.Bool(v.Bool())
	case reflect.Int, reflect.Int8, reflect.Int16, reflect.Int32, reflect.Int64:
		c.U(uint64(v.Int()))
	case reflect.Uint, reflect.Uint8, reflect.Uint16, reflect.Uint32, reflect.Uint64, reflect.Uintptr:
		c.U(v.Uint())
	case reflect.Float32, reflect.Float64:
		c.S(fmt.Sprint(v.Float()))
	case reflect.String:
		c.S(v.String())
	case reflect.Ptr:
		if v.IsNil() {
			c.Sep('0')
			return
		}
		c.Sep('p')
		walk(c, v.Elem(), skip, depth+1)
	case reflect.Interface:
		if v.IsNil() {
			c.Sep('0')
			return
		}
		e := v.Elem()
		switch e.Kind() {
		case reflect.Func, reflect.Chan:
			c.Sep('f')
			return
		}
		c.S(e.Type().String())
		walk(c, e, skip, depth+1)
	case reflect.Slice:
		if v.IsNil() {
			c.Sep('0')
			return
		}
		fallthrough
	case reflect.Array:
		c.Sep('[').U(uint64(v.Len()))
		if v.Type().Elem().Kind() == reflect.Uint8 {
			b := make([]byte, v.Len())
			for i := 0; i < v.Len(); i++ {
				b[i] = byte(v.Index(i).Uint())
			}
			c.B = append(c.B, b...)
			return
		}
		for i := 0; i < v.Len(); i++ {
			walk(c, v.Index(i), skip, depth+1)
		}
	case reflect.Map:
		if v.IsNil() {
			c.Sep('0')
			return
		}
		keys := v.MapKeys()
		type kv struct {
			k []byte
			v reflect.Value
		}
		items := make([]kv, 0, len(keys))
		for _, k := range keys {
			kc := &CanonBuf{}
			walk(kc, k, skip, depth+1)
			items = append(items, kv{kc.B, v.MapIndex(k)})
		}
		sort.Slice(items, func(i, j int) bool { return string(items[i].k) < string(items[j].k) })
		c.Sep('{').U(uint64(len(items)))
		for _, it := range items {
			c.B = append(c.B, it.k...)
			walk(c, it.v, skip, depth+1)
		}
	case reflect.Struct:
		t := v.Type()
		c.Sep('s')
		for i := 0; i < v.NumField(); i++ {
			f := t.Field(i)
			if skip != nil && (skip[t.Name()+"."+f.Name] || skip["*."+f.Name]) {
				continue
			}
			switch f.Type.Kind() {
			case reflect.Func, reflect.Chan, reflect.UnsafePointer:
				continue
			}
			walk(c, v.Field(i), skip, depth+1)
		}
	case reflect.Func, reflect.Chan, reflect.UnsafePointer:
		c.Sep('f')
	default:
		panic("ReflectCanon: unsupported kind " + v.Kind().String())
	}
}
