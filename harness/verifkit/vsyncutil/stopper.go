// Package vsyncutil stands in for github.com/lni/goutils/syncutil in files
// rewritten by schedrewrite -engine: the Stopper's worker goroutines become
// threads of the controlled execution and Stop() waits through the scheduler.
// Outside an exploration it behaves like the original.
package vsyncutil

import (
	"github.com/lni/dragonboat/v4/internal/verifkit/vsched"
	"github.com/lni/dragonboat/v4/internal/verifkit/vsync"
)

// Stopper mirrors syncutil.Stopper (goutils v1.4.0), line by line.
type Stopper struct {
	mu          vsync.Mutex
	shouldStopC chan struct{}
	wg          vsync.WaitGroup
}

func NewStopper() *Stopper {
	return &Stopper{shouldStopC: make(chan struct{})}
}

func (s *Stopper) RunWorker(f func()) {
	s.mu.Lock()
	defer s.mu.Unlock()
	if s.stopped() {
		return
	}
	s.wg.Add(1)
	body := func() {
		f()
		s.wg.Done()
	}
	if !vsched.Spawn("worker", body) {
		go body()
	}
}

func (s *Stopper) ShouldStop() chan struct{} { return s.shouldStopC }

func (s *Stopper) Stop() {
	s.mu.Lock()
	defer s.mu.Unlock()
	close(s.shouldStopC)
	s.wg.Wait()
}

func (s *Stopper) Close() { close(s.shouldStopC) }

func (s *Stopper) Wait() { s.wg.Wait() }

func (s *Stopper) stopped() bool {
	select {
	case <-s.shouldStopC:
		return true
	default:
	}
	return false
}
