// Package journalfs is engine E4 ("crashx") of the /verif harnesses: a
// vfs.FS that journals every mutating file-system operation of one run of a
// workload in the actual global order (background goroutines included), so
// that the harness can afterwards materialise, for ANY prefix of that journal,
// the file-system images a crash at that point could leave behind, and so
// that it can fail exactly operation #k with an injected error.
//
//	fs := journalfs.New()                      // over a fresh strict MemFS
//	db := open(fs.ErrorFS())                   // dragonboat accepts *vfs.ErrorFS
//	err := db.Save(...); if err == nil { fs.Mark("save#1") }
//	...
//	j := fs.Journal()                          // immutable copy
//	for _, p := range j.CrashPoints(from) {
//	    for _, img := range j.Images(p, thorough) {
//	        mem, _ := j.Materialize(p, img)    // fresh strict MemFS
//	        reopen(journalfs.Plain(mem)) ; check against j.Acks(p)
//	    }
//	}
//
// Image kinds: "drop" = replay the prefix, then ResetToSyncedState() (all
// unsynced data and directory entries lost), "keep" = replay, nothing lost,
// "subset" = only the listed dirty units (file handles / directories) keep
// their unsynced changes, "torn" = the last write of the prefix is applied
// only partially (nothing else lost).
//
// The package knows nothing about dragonboat's stores; C10 (log stores) and
// C16 (snapshot directories) share it.
package journalfs

import (
	"errors"
	"fmt"
	"io"
	"os"
	"sort"
	"strings"
	"sync"

	"github.com/lni/vfs"
)

// Kind is the kind of a journaled operation.
type Kind string

// Journaled operation kinds. Mutating kinds are fault-injectable and are
// crash points; handle kinds (open*, close) are journaled only so that a
// replay can address the same file handles.
const (
	KCreate    Kind = "create"
	KWrite     Kind = "write"
	KWriteAt   Kind = "writeat"
	KSync      Kind = "sync"
	KSyncDir   Kind = "syncdir"
	KRename    Kind = "rename"
	KRemove    Kind = "remove"
	KRemoveAll Kind = "removeall"
	KMkdirAll  Kind = "mkdirall"
	KLink      Kind = "link"
	KReuse     Kind = "reuseforwrite"
	KLock      Kind = "lock"
	KOpen      Kind = "open"
	KOpenDir   Kind = "opendir"
	KOpenApp   Kind = "openforappend"
	KClose     Kind = "close"
	KMark      Kind = "mark"
)

// Mutating reports whether the kind changes the file system (and therefore is
// a crash point and a fault-injection point).
func (k Kind) Mutating() bool {
	switch k {
	case KOpen, KOpenDir, KOpenApp, KClose, KMark:
		return false
	}
	return true
}

// ErrInjected is the error returned by the operation selected with FailAt.
var ErrInjected = errors.New("journalfs: injected I/O error")

// Op is one journal record.
type Op struct {
	Seq    int      `json:"seq"`              // position in the journal
	N      int      `json:"n"`                // ordinal among mutating ops (-1 otherwise)
	Kind   Kind     `json:"kind"`             //
	Path   string   `json:"path,omitempty"`   // file / directory / old name
	Path2  string   `json:"path2,omitempty"`  // new name (rename, link, reuse)
	Handle int      `json:"h,omitempty"`      // handle id (>0) for handle ops
	Off    int64    `json:"off,omitempty"`    // writeat offset
	Data   []byte   `json:"data,omitempty"`   // written bytes
	Dirs   []string `json:"dirs,omitempty"`   // directories whose entries changed
	Failed bool     `json:"failed,omitempty"` // returned an error: not replayed
	Inject bool     `json:"inject,omitempty"` // the error was injected
	Label  string   `json:"label,omitempty"`  // mark label
	Mark   int      `json:"mark,omitempty"`   // mark ordinal (1-based)
}

// String renders an op without its data.
func (o Op) String() string {
	s := fmt.Sprintf("#%d %s", o.Seq, o.Kind)
	if o.Kind == KMark {
		return s + " " + o.Label
	}
	if o.Path != "" {
		s += " " + o.Path
	}
	if o.Path2 != "" {
		s += " -> " + o.Path2
	}
	if o.Handle != 0 {
		s += fmt.Sprintf(" h%d", o.Handle)
	}
	if len(o.Data) > 0 {
		s += fmt.Sprintf(" %dB", len(o.Data))
	}
	if o.Failed {
		s += " FAILED"
	}
	return s
}

// FS is the journaling file system. It implements vfs.FS.
type FS struct {
	mu       sync.Mutex
	base     *vfs.MemFS
	ops      []Op
	nmut     int
	nread    int
	marks    int
	nextH    int
	handles  map[int]string // handle -> path at open time
	frozen   bool
	failAt   int
	failRead int
	failErr  error
	failed   *Op
	failedRd string
}

var _ vfs.FS = (*FS)(nil)

// New returns a journaling FS over a fresh strict MemFS.
func New() *FS { return NewOn(vfs.NewStrictMem()) }

// NewOn returns a journaling FS over the given (normally empty, strict) MemFS.
func NewOn(base *vfs.MemFS) *FS {
	return &FS{base: base, handles: map[int]string{}, failAt: -1, failRead: -1, failErr: ErrInjected}
}

type never struct{}

func (never) MaybeError(vfs.Op) error { return nil }

// ErrorFS wraps fs in a *vfs.ErrorFS whose injector never fires. Dragonboat's
// store factories only accept *vfs.MemFS or *vfs.ErrorFS; the fault injection
// itself is done by FailAt.
func (fs *FS) ErrorFS() *vfs.ErrorFS { return vfs.Wrap(fs, never{}) }

// Plain wraps any FS (e.g. a materialised image) the same way.
func Plain(fs vfs.FS) *vfs.ErrorFS { return vfs.Wrap(fs, never{}) }

// Base returns the live MemFS below the journal.
func (fs *FS) Base() *vfs.MemFS { return fs.base }

// Mark appends an acknowledgement mark ("workload call <label> returned
// success") and returns its 1-based ordinal.
func (fs *FS) Mark(label string) int {
	fs.mu.Lock()
	defer fs.mu.Unlock()
	if fs.frozen {
		return fs.marks
	}
	fs.marks++
	fs.ops = append(fs.ops, Op{Seq: len(fs.ops), N: -1, Kind: KMark, Label: label, Mark: fs.marks})
	return fs.marks
}

// Len returns the current journal length.
func (fs *FS) Len() int {
	fs.mu.Lock()
	defer fs.mu.Unlock()
	return len(fs.ops)
}

// Mutations returns the number of mutating operations seen so far.
func (fs *FS) Mutations() int {
	fs.mu.Lock()
	defer fs.mu.Unlock()
	return fs.nmut
}

// Reads returns the number of read-type operations seen so far (Open, Read,
// ReadAt, List, Stat); they are counted for FailReadAt but not journaled.
func (fs *FS) Reads() int {
	fs.mu.Lock()
	defer fs.mu.Unlock()
	return fs.nread
}

// Freeze stops journaling: later operations still reach the live MemFS but are
// neither recorded nor failed. Used once the interesting part of a run is over
// (e.g. while a broken store is being torn down).
func (fs *FS) Freeze() {
	fs.mu.Lock()
	fs.frozen = true
	fs.mu.Unlock()
}

// FailAt makes exactly the mutating operation with ordinal n (0-based, see
// Op.N) fail with err (ErrInjected when nil) without being applied. n < 0
// disables injection.
func (fs *FS) FailAt(n int, err error) {
	fs.mu.Lock()
	fs.failAt = n
	if err != nil {
		fs.failErr = err
	}
	fs.mu.Unlock()
}

// FailReadAt makes exactly the read-type operation with ordinal n fail.
func (fs *FS) FailReadAt(n int, err error) {
	fs.mu.Lock()
	fs.failRead = n
	if err != nil {
		fs.failErr = err
	}
	fs.mu.Unlock()
}

// Failed returns the operation that received the injected error (nil if the
// selected ordinal was never reached).
func (fs *FS) Failed() *Op {
	fs.mu.Lock()
	defer fs.mu.Unlock()
	if fs.failed == nil {
		return nil
	}
	o := *fs.failed
	return &o
}

// FailedRead describes the read operation that received the injected error.
func (fs *FS) FailedRead() string {
	fs.mu.Lock()
	defer fs.mu.Unlock()
	return fs.failedRd
}

// Journal returns an immutable copy of the journal so far.
func (fs *FS) Journal() *Journal {
	fs.mu.Lock()
	defer fs.mu.Unlock()
	j := &Journal{Ops: make([]Op, len(fs.ops))}
	copy(j.Ops, fs.ops)
	return j
}

// record runs do (the real operation) under the journal lock unless the op is
// selected for fault injection, and appends the journal record. It returns the
// error the caller must see.
func (fs *FS) record(op Op, do func(op *Op) error) error {
	fs.mu.Lock()
	defer fs.mu.Unlock()
	if fs.frozen {
		return do(&op)
	}
	op.N = -1
	var err error
	if op.Kind.Mutating() {
		op.N = fs.nmut
		fs.nmut++
		if op.N == fs.failAt {
			op.Failed, op.Inject = true, true
			err = fs.failErr
		}
	}
	if !op.Inject {
		if err = do(&op); err != nil {
			op.Failed = true
		}
	}
	op.Seq = len(fs.ops)
	if op.Kind == KClose && !op.Failed {
		delete(fs.handles, op.Handle)
	}
	fs.ops = append(fs.ops, op)
	if op.Inject {
		c := op
		c.Data = nil
		fs.failed = &c
	}
	return err
}

func (fs *FS) readFault(what string) error {
	fs.mu.Lock()
	defer fs.mu.Unlock()
	if fs.frozen {
		return nil
	}
	n := fs.nread
	fs.nread++
	if n == fs.failRead {
		fs.failedRd = what
		return fs.failErr
	}
	return nil
}

func (fs *FS) newHandle(op *Op, f vfs.File, path string, dir bool) *file {
	fs.nextH++
	op.Handle = fs.nextH
	fs.handles[op.Handle] = path
	return &file{fs: fs, f: f, id: op.Handle, path: path, dir: dir}
}

// Create implements vfs.FS.
func (fs *FS) Create(name string) (vfs.File, error) {
	var out *file
	err := fs.record(Op{Kind: KCreate, Path: name, Dirs: []string{fs.base.PathDir(name)}}, func(op *Op) error {
		f, err := fs.base.Create(name)
		if err != nil {
			return err
		}
		out = fs.newHandle(op, f, name, false)
		return nil
	})
	if err != nil {
		return nil, err
	}
	return out, nil
}

// Link implements vfs.FS.
func (fs *FS) Link(oldname, newname string) error {
	return fs.record(Op{Kind: KLink, Path: oldname, Path2: newname, Dirs: []string{fs.base.PathDir(newname)}},
		func(*Op) error { return fs.base.Link(oldname, newname) })
}

// Open implements vfs.FS.
func (fs *FS) Open(name string, opts ...vfs.OpenOption) (vfs.File, error) {
	if err := fs.readFault("open " + name); err != nil {
		return nil, err
	}
	var out *file
	err := fs.record(Op{Kind: KOpen, Path: name}, func(op *Op) error {
		f, err := fs.base.Open(name)
		if err != nil {
			return err
		}
		isDir := false
		if st, err := f.Stat(); err == nil && st.IsDir() {
			isDir = true
		}
		out = fs.newHandle(op, f, name, isDir)
		return nil
	})
	if err != nil {
		return nil, err
	}
	for _, o := range opts {
		o.Apply(out)
	}
	return out, nil
}

// OpenDir implements vfs.FS.
func (fs *FS) OpenDir(name string) (vfs.File, error) {
	var out *file
	err := fs.record(Op{Kind: KOpenDir, Path: name}, func(op *Op) error {
		f, err := fs.base.OpenDir(name)
		if err != nil {
			return err
		}
		out = fs.newHandle(op, f, name, true)
		return nil
	})
	if err != nil {
		return nil, err
	}
	return out, nil
}

// OpenForAppend implements vfs.FS.
func (fs *FS) OpenForAppend(name string) (vfs.File, error) {
	var out *file
	err := fs.record(Op{Kind: KOpenApp, Path: name}, func(op *Op) error {
		f, err := fs.base.OpenForAppend(name)
		if err != nil {
			return err
		}
		out = fs.newHandle(op, f, name, false)
		return nil
	})
	if err != nil {
		return nil, err
	}
	return out, nil
}

// Remove implements vfs.FS.
func (fs *FS) Remove(name string) error {
	return fs.record(Op{Kind: KRemove, Path: name, Dirs: []string{fs.base.PathDir(name)}},
		func(*Op) error { return fs.base.Remove(name) })
}

// RemoveAll implements vfs.FS.
func (fs *FS) RemoveAll(name string) error {
	return fs.record(Op{Kind: KRemoveAll, Path: name, Dirs: []string{fs.base.PathDir(name)}},
		func(*Op) error { return fs.base.RemoveAll(name) })
}

// Rename implements vfs.FS.
func (fs *FS) Rename(oldname, newname string) error {
	dirs := []string{fs.base.PathDir(oldname)}
	if d := fs.base.PathDir(newname); d != dirs[0] {
		dirs = append(dirs, d)
	}
	return fs.record(Op{Kind: KRename, Path: oldname, Path2: newname, Dirs: dirs},
		func(*Op) error { return fs.base.Rename(oldname, newname) })
}

// ReuseForWrite implements vfs.FS.
func (fs *FS) ReuseForWrite(oldname, newname string) (vfs.File, error) {
	dirs := []string{fs.base.PathDir(oldname)}
	if d := fs.base.PathDir(newname); d != dirs[0] {
		dirs = append(dirs, d)
	}
	var out *file
	err := fs.record(Op{Kind: KReuse, Path: oldname, Path2: newname, Dirs: dirs}, func(op *Op) error {
		f, err := fs.base.ReuseForWrite(oldname, newname)
		if err != nil {
			return err
		}
		out = fs.newHandle(op, f, newname, false)
		return nil
	})
	if err != nil {
		return nil, err
	}
	return out, nil
}

// MkdirAll implements vfs.FS.
func (fs *FS) MkdirAll(dir string, perm os.FileMode) error {
	return fs.record(Op{Kind: KMkdirAll, Path: dir}, func(op *Op) error {
		// the parents of every directory that does not exist yet get a new entry
		d := strings.TrimRight(dir, "/")
		for d != "" && d != "." && d != "/" {
			if _, err := fs.base.Stat(d); err == nil {
				break
			}
			p := fs.base.PathDir(d)
			op.Dirs = append(op.Dirs, p)
			if p == d {
				break
			}
			d = p
		}
		return fs.base.MkdirAll(dir, perm)
	})
}

// Lock implements vfs.FS (MemFS turns Lock into Create).
func (fs *FS) Lock(name string) (io.Closer, error) {
	var out *file
	err := fs.record(Op{Kind: KLock, Path: name, Dirs: []string{fs.base.PathDir(name)}}, func(op *Op) error {
		c, err := fs.base.Lock(name)
		if err != nil {
			return err
		}
		f, ok := c.(vfs.File)
		if !ok {
			return errors.New("journalfs: Lock did not return a file")
		}
		out = fs.newHandle(op, f, name, false)
		return nil
	})
	if err != nil {
		return nil, err
	}
	return out, nil
}

// List implements vfs.FS.
func (fs *FS) List(dir string) ([]string, error) {
	if err := fs.readFault("list " + dir); err != nil {
		return nil, err
	}
	l, err := fs.base.List(dir)
	sort.Strings(l) // MemFS lists in map order; keep the harness deterministic
	return l, err
}

// Stat implements vfs.FS.
func (fs *FS) Stat(name string) (os.FileInfo, error) {
	if err := fs.readFault("stat " + name); err != nil {
		return nil, err
	}
	return fs.base.Stat(name)
}

// PathBase implements vfs.FS.
func (fs *FS) PathBase(p string) string { return fs.base.PathBase(p) }

// PathJoin implements vfs.FS.
func (fs *FS) PathJoin(elem ...string) string { return fs.base.PathJoin(elem...) }

// PathDir implements vfs.FS.
func (fs *FS) PathDir(p string) string { return fs.base.PathDir(p) }

// GetDiskUsage implements vfs.FS.
func (fs *FS) GetDiskUsage(p string) (vfs.DiskUsage, error) { return fs.base.GetDiskUsage(p) }

// file is a journaled handle.
type file struct {
	fs   *FS
	f    vfs.File
	id   int
	path string
	dir  bool
}

var _ vfs.File = (*file)(nil)

func (f *file) Close() error {
	return f.fs.record(Op{Kind: KClose, Handle: f.id, Path: f.path}, func(*Op) error { return f.f.Close() })
}

func (f *file) Seek(offset int64, whence int) (int64, error) { return f.f.Seek(offset, whence) }

func (f *file) Read(p []byte) (int, error) {
	if err := f.fs.readFault("read " + f.path); err != nil {
		return 0, err
	}
	return f.f.Read(p)
}

func (f *file) ReadAt(p []byte, off int64) (int, error) {
	if err := f.fs.readFault("readat " + f.path); err != nil {
		return 0, err
	}
	return f.f.ReadAt(p, off)
}

func (f *file) Write(p []byte) (int, error) {
	n := 0
	err := f.fs.record(Op{Kind: KWrite, Handle: f.id, Path: f.path, Data: append([]byte(nil), p...)},
		func(*Op) error {
			var err error
			n, err = f.f.Write(p)
			return err
		})
	return n, err
}

func (f *file) WriteAt(p []byte, off int64) (int, error) {
	n := 0
	err := f.fs.record(Op{Kind: KWriteAt, Handle: f.id, Path: f.path, Off: off, Data: append([]byte(nil), p...)},
		func(*Op) error {
			var err error
			n, err = f.f.WriteAt(p, off)
			return err
		})
	return n, err
}

func (f *file) Stat() (os.FileInfo, error) { return f.f.Stat() }

func (f *file) Sync() error {
	k := KSync
	if f.dir {
		k = KSyncDir
	}
	return f.fs.record(Op{Kind: k, Handle: f.id, Path: f.path}, func(*Op) error { return f.f.Sync() })
}
