package journalfs

import (
	"fmt"
	"io"
	"sort"
	"strings"

	"github.com/lni/vfs"
)

// Journal is the immutable record of one run.
type Journal struct {
	Ops []Op `json:"ops"`
}

// Prefix returns a journal holding only the first p operations (used to put a
// self-contained, exactly replayable crash point into a replay file).
func (j *Journal) Prefix(p int) *Journal {
	if p > len(j.Ops) {
		p = len(j.Ops)
	}
	return &Journal{Ops: append([]Op(nil), j.Ops[:p]...)}
}

// Bytes returns the number of data bytes carried by the journal.
func (j *Journal) Bytes() int {
	n := 0
	for _, o := range j.Ops {
		n += len(o.Data)
	}
	return n
}

// Mutations returns the number of mutating operations in the journal.
func (j *Journal) Mutations() int {
	n := 0
	for _, o := range j.Ops {
		if o.Kind.Mutating() {
			n++
		}
	}
	return n
}

// Acks returns the number of acknowledgement marks within the first p ops.
func (j *Journal) Acks(p int) int {
	n := 0
	for i := 0; i < p && i < len(j.Ops); i++ {
		if j.Ops[i].Kind == KMark {
			n++
		}
	}
	return n
}

// MarkPos returns the journal length right after mark number m (1-based), or
// -1 when there is no such mark.
func (j *Journal) MarkPos(m int) int {
	for i, o := range j.Ops {
		if o.Kind == KMark && o.Mark == m {
			return i + 1
		}
	}
	return -1
}

// CrashPoints returns every prefix length p in [from, len] that is a distinct
// crash point: p == from, or the last op of the prefix is a mutating operation
// that was applied, or an acknowledgement mark (same image as before the mark,
// but one more call is known to have returned).
func (j *Journal) CrashPoints(from int) []int {
	if from < 0 {
		from = 0
	}
	out := []int{}
	for p := from; p <= len(j.Ops); p++ {
		if p == from {
			out = append(out, p)
			continue
		}
		o := j.Ops[p-1]
		if o.Kind == KMark || (o.Kind.Mutating() && !o.Failed) {
			out = append(out, p)
		}
	}
	return out
}

// Unit is something that can hold unsynced state: a file handle (its writes
// since the last sync through that handle) or a directory (entry changes since
// its last sync).
type Unit struct {
	Handle int    `json:"h,omitempty"`
	Dir    string `json:"dir,omitempty"`
	Path   string `json:"path,omitempty"`
	last   int
}

func (u Unit) String() string {
	if u.Handle != 0 {
		return fmt.Sprintf("file:%s(h%d)", u.Path, u.Handle)
	}
	return "dir:" + u.Dir
}

// Dirty returns the units holding unsynced state after the first p ops,
// ordered by the position of their most recent unsynced change.
func (j *Journal) Dirty(p int) []Unit {
	files := map[int]*Unit{}
	dirs := map[string]*Unit{}
	hpath := map[int]string{}
	for i := 0; i < p && i < len(j.Ops); i++ {
		o := j.Ops[i]
		if o.Failed {
			continue
		}
		if o.Handle != 0 && o.Path != "" {
			if _, ok := hpath[o.Handle]; !ok {
				hpath[o.Handle] = o.Path
				if o.Kind == KReuse {
					hpath[o.Handle] = o.Path2
				}
			}
		}
		switch o.Kind {
		case KWrite, KWriteAt:
			files[o.Handle] = &Unit{Handle: o.Handle, Path: hpath[o.Handle], last: i}
		case KSync:
			delete(files, o.Handle)
		case KSyncDir:
			delete(dirs, strings.TrimRight(hpath[o.Handle], "/"))
		}
		for _, d := range o.Dirs {
			d = strings.TrimRight(d, "/")
			dirs[d] = &Unit{Dir: d, last: i}
		}
	}
	out := []Unit{}
	for _, u := range files {
		out = append(out, *u)
	}
	for _, u := range dirs {
		out = append(out, *u)
	}
	sort.Slice(out, func(a, b int) bool {
		if out[a].last != out[b].last {
			return out[a].last < out[b].last
		}
		return out[a].String() < out[b].String()
	})
	return out
}

// Image selects one of the file-system states a crash after a journal prefix
// can leave behind.
type Image struct {
	// Kind: "drop" (a), "keep" (b), "subset", "torn".
	Kind string `json:"kind"`
	// Keep lists the dirty units whose unsynced state survives (Kind subset).
	Keep []Unit `json:"keep,omitempty"`
	// Torn is the number of bytes of the last write of the prefix that reach
	// the file (Kind torn); everything before it survives.
	Torn int `json:"torn,omitempty"`
}

func (im Image) String() string {
	switch im.Kind {
	case "subset":
		s := []string{}
		for _, u := range im.Keep {
			s = append(s, u.String())
		}
		return "subset{" + strings.Join(s, ",") + "}"
	case "torn":
		return fmt.Sprintf("torn(%d)", im.Torn)
	}
	return im.Kind
}

// MaxSubsetUnits bounds the dirty-subset enumeration (2^n images).
const MaxSubsetUnits = 4

// Images returns the images to check for prefix p: always (a) drop and (b)
// keep; with thorough also every non-empty proper subset of the (at most
// MaxSubsetUnits most recently dirtied) dirty units and, when the last op of
// the prefix is a write of more than one byte, two torn versions of it.
func (j *Journal) Images(p int, thorough bool) []Image {
	out := []Image{{Kind: "drop"}, {Kind: "keep"}}
	if !thorough {
		return out
	}
	d := j.Dirty(p)
	if len(d) > MaxSubsetUnits {
		d = d[len(d)-MaxSubsetUnits:]
	}
	full := 1<<uint(len(d)) - 1
	for m := 1; m <= full; m++ {
		if m == full && len(d) == len(j.Dirty(p)) {
			continue // everything kept == (b)
		}
		im := Image{Kind: "subset"}
		for i := range d {
			if m&(1<<uint(i)) != 0 {
				im.Keep = append(im.Keep, d[i])
			}
		}
		out = append(out, im)
	}
	out = append(out, j.TornImages(p)...)
	return out
}

// TornImages returns the torn-tail images of prefix p (empty unless the last
// op is an applied write of at least two bytes).
func (j *Journal) TornImages(p int) []Image {
	if p < 1 || p > len(j.Ops) {
		return nil
	}
	o := j.Ops[p-1]
	if (o.Kind != KWrite && o.Kind != KWriteAt) || o.Failed || len(o.Data) < 2 {
		return nil
	}
	out := []Image{{Kind: "torn", Torn: len(o.Data) / 2}}
	if len(o.Data)-1 != len(o.Data)/2 {
		out = append(out, Image{Kind: "torn", Torn: len(o.Data) - 1})
	}
	return out
}

// Materialize builds the image on a fresh strict MemFS by replaying the first
// p operations.
func (j *Journal) Materialize(p int, im Image) (*vfs.MemFS, error) {
	mem := vfs.NewStrictMem()
	if err := j.MaterializeOn(mem, p, im); err != nil {
		return nil, err
	}
	return mem, nil
}

// MaterializeOn replays the first p operations on top of an existing strict
// MemFS (normally itself a crash image: the journal then is that of a recovery
// run started with NewOn(image), which gives crash-during-recovery images) and
// applies the image kind to the whole file system.
func (j *Journal) MaterializeOn(mem *vfs.MemFS, p int, im Image) error {
	if p > len(j.Ops) {
		return fmt.Errorf("journalfs: prefix %d beyond journal length %d", p, len(j.Ops))
	}
	keepH := map[int]bool{}
	keepD := map[string]bool{}
	if im.Kind == "subset" {
		for _, u := range im.Keep {
			if u.Handle != 0 {
				keepH[u.Handle] = true
			} else {
				keepD[strings.TrimRight(u.Dir, "/")] = true
			}
		}
	}
	handles := map[int]vfs.File{}
	syncDir := func(d string) {
		if f, err := mem.OpenDir(d); err == nil {
			_ = f.Sync()
			_ = f.Close()
		}
	}
	for i := 0; i < p; i++ {
		o := j.Ops[i]
		if o.Failed || o.Kind == KMark {
			continue
		}
		var err error
		switch o.Kind {
		case KCreate:
			handles[o.Handle], err = mem.Create(o.Path)
		case KLock:
			var c io.Closer
			c, err = mem.Lock(o.Path)
			if err == nil {
				handles[o.Handle] = c.(vfs.File)
			}
		case KOpen:
			handles[o.Handle], err = mem.Open(o.Path)
		case KOpenDir:
			handles[o.Handle], err = mem.OpenDir(o.Path)
		case KOpenApp:
			handles[o.Handle], err = mem.OpenForAppend(o.Path)
		case KReuse:
			handles[o.Handle], err = mem.ReuseForWrite(o.Path, o.Path2)
		case KClose:
			if f := handles[o.Handle]; f != nil {
				err = f.Close()
				delete(handles, o.Handle)
			}
		case KWrite, KWriteAt:
			f := handles[o.Handle]
			if f == nil {
				err = fmt.Errorf("write to unknown handle")
				break
			}
			data := o.Data
			if im.Kind == "torn" && i == p-1 && im.Torn < len(data) {
				data = data[:im.Torn]
			}
			if o.Kind == KWrite {
				_, err = f.Write(data)
			} else {
				_, err = f.WriteAt(data, o.Off)
			}
			if err == nil && keepH[o.Handle] {
				err = f.Sync()
			}
		case KSync, KSyncDir:
			f := handles[o.Handle]
			if f == nil {
				err = fmt.Errorf("sync of unknown handle")
				break
			}
			err = f.Sync()
		case KRename:
			err = mem.Rename(o.Path, o.Path2)
		case KRemove:
			err = mem.Remove(o.Path)
		case KRemoveAll:
			err = mem.RemoveAll(o.Path)
		case KMkdirAll:
			err = mem.MkdirAll(o.Path, 0755)
		case KLink:
			err = mem.Link(o.Path, o.Path2)
		default:
			err = fmt.Errorf("unknown kind")
		}
		if err != nil {
			return fmt.Errorf("journalfs: replay of %s failed: %v", o.String(), err)
		}
		for _, d := range o.Dirs {
			if d = strings.TrimRight(d, "/"); keepD[d] {
				syncDir(d)
			}
		}
	}
	// a crash closes every descriptor; MemFS refuses to remove open files
	ids := make([]int, 0, len(handles))
	for id := range handles {
		ids = append(ids, id)
	}
	sort.Ints(ids)
	for _, id := range ids {
		_ = handles[id].Close()
	}
	switch im.Kind {
	case "drop", "subset":
		mem.ResetToSyncedState()
	case "keep", "torn":
	default:
		return fmt.Errorf("journalfs: unknown image kind %q", im.Kind)
	}
	return nil
}

// Dump renders the visible content of a MemFS (paths, sizes and a content
// hash) in a canonical order; two file systems with equal dumps are equal as
// far as any reader can tell.
func Dump(fs vfs.FS, root string) string {
	var sb strings.Builder
	var walk func(dir string)
	walk = func(dir string) {
		l, err := fs.List(dir)
		if err != nil {
			return
		}
		sort.Strings(l)
		for _, n := range l {
			p := fs.PathJoin(dir, n)
			st, err := fs.Stat(p)
			if err != nil {
				fmt.Fprintf(&sb, "%s ?\n", p)
				continue
			}
			if st.IsDir() {
				fmt.Fprintf(&sb, "%s/\n", p)
				walk(p)
				continue
			}
			h := uint64(14695981039346656037)
			if f, err := fs.Open(p); err == nil {
				buf := make([]byte, 32*1024)
				for {
					n, err := f.Read(buf)
					for _, b := range buf[:n] {
						h = (h ^ uint64(b)) * 1099511628211
					}
					if err != nil || n == 0 {
						break
					}
				}
				_ = f.Close()
			}
			fmt.Fprintf(&sb, "%s %d %x\n", p, st.Size(), h)
		}
	}
	walk(root)
	return sb.String()
}
