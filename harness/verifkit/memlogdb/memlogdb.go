// Package memlogdb is a boring in-memory raftio.ILogDB used by the harnesses
// as the persistent store below a real logdb.LogReader. It implements exactly
// the contract property C09 checks on the real stores.
package memlogdb

import (
	"sort"
	"sync"

	"github.com/lni/dragonboat/v4/internal/verifkit/vsched"
	"github.com/lni/dragonboat/v4/raftio"
	pb "github.com/lni/dragonboat/v4/raftpb"
)

type node struct {
	state     pb.State
	hasState  bool
	entries   map[uint64]pb.Entry
	maxIndex  uint64
	hasMax    bool
	snapshot  pb.Snapshot
	bootstrap *pb.Bootstrap
}

// DB is the in-memory log store.
type DB struct {
	mu    sync.Mutex
	nodes map[raftio.NodeInfo]*node
	// Hook, when set, is called before every mutating call with its name; a
	// non-nil error is returned to the caller without applying the mutation.
	Hook func(op string, shardID uint64, replicaID uint64) error
	// Saves counts SaveRaftState calls.
	Saves uint64
}

var _ raftio.ILogDB = (*DB)(nil)

// New creates an empty store.
func New() *DB { return &DB{nodes: make(map[raftio.NodeInfo]*node)} }

func (d *DB) get(s, r uint64) *node {
	k := raftio.NodeInfo{ShardID: s, ReplicaID: r}
	n, ok := d.nodes[k]
	if !ok {
		n = &node{entries: make(map[uint64]pb.Entry)}
		d.nodes[k] = n
	}
	return n
}

func (d *DB) hook(op string, s, r uint64) error {
	if d.Hook != nil {
		return d.Hook(op, s, r)
	}
	return nil
}

// Name implements ILogDB.
func (d *DB) Name() string { return "verif-memlogdb" }

// Close implements ILogDB.
func (d *DB) Close() error { return nil }

// BinaryFormat implements ILogDB.
func (d *DB) BinaryFormat() uint32 { return raftio.PlainLogDBBinVersion }

// ListNodeInfo implements ILogDB.
func (d *DB) ListNodeInfo() ([]raftio.NodeInfo, error) {
	d.mu.Lock()
	defer d.mu.Unlock()
	var out []raftio.NodeInfo
	for k, n := range d.nodes {
		if n.bootstrap != nil {
			out = append(out, k)
		}
	}
	sort.Slice(out, func(i, j int) bool {
		if out[i].ShardID != out[j].ShardID {
			return out[i].ShardID < out[j].ShardID
		}
		return out[i].ReplicaID < out[j].ReplicaID
	})
	return out, nil
}

// SaveBootstrapInfo implements ILogDB.
func (d *DB) SaveBootstrapInfo(s, r uint64, bs pb.Bootstrap) error {
	vsched.Point() // the store is a shared synchronised object: its operations are scheduling points under schedx
	d.mu.Lock()
	defer d.mu.Unlock()
	if err := d.hook("SaveBootstrapInfo", s, r); err != nil {
		return err
	}
	d.get(s, r).bootstrap = &bs
	return nil
}

// GetBootstrapInfo implements ILogDB.
func (d *DB) GetBootstrapInfo(s, r uint64) (pb.Bootstrap, error) {
	vsched.Point() // the store is a shared synchronised object: its operations are scheduling points under schedx
	d.mu.Lock()
	defer d.mu.Unlock()
	n := d.get(s, r)
	if n.bootstrap == nil {
		return pb.Bootstrap{}, raftio.ErrNoBootstrapInfo
	}
	return *n.bootstrap, nil
}

func cloneEntry(e pb.Entry) pb.Entry {
	if e.Cmd != nil {
		c := make([]byte, len(e.Cmd))
		copy(c, e.Cmd)
		e.Cmd = c
	}
	return e
}

// SaveRaftState implements ILogDB.
func (d *DB) SaveRaftState(updates []pb.Update, shardID uint64) error {
	vsched.Point() // the store is a shared synchronised object: its operations are scheduling points under schedx
	d.mu.Lock()
	defer d.mu.Unlock()
	for _, ud := range updates {
		if err := d.hook("SaveRaftState", ud.ShardID, ud.ReplicaID); err != nil {
			return err
		}
	}
	d.Saves++
	for _, ud := range updates {
		n := d.get(ud.ShardID, ud.ReplicaID)
		if !pb.IsEmptyState(ud.State) {
			n.state = ud.State
			n.hasState = true
		}
		if !pb.IsEmptySnapshot(ud.Snapshot) && ud.Snapshot.Index > n.snapshot.Index {
			n.snapshot = ud.Snapshot
			n.maxIndex = ud.Snapshot.Index
			n.hasMax = true
		}
		if len(ud.EntriesToSave) > 0 {
			for _, e := range ud.EntriesToSave {
				n.entries[e.Index] = cloneEntry(e)
			}
			n.maxIndex = ud.EntriesToSave[len(ud.EntriesToSave)-1].Index
			n.hasMax = true
		}
	}
	return nil
}

// IterateEntries implements ILogDB.
func (d *DB) IterateEntries(ents []pb.Entry, size uint64, s, r uint64,
	low uint64, high uint64, maxSize uint64) ([]pb.Entry, uint64, error) {
	vsched.Point() // the store is a shared synchronised object: its operations are scheduling points under schedx
	d.mu.Lock()
	defer d.mu.Unlock()
	n := d.get(s, r)
	if !n.hasMax {
		return ents, size, nil
	}
	if high > n.maxIndex+1 {
		high = n.maxIndex + 1
	}
	for i := low; i < high; i++ {
		e, ok := n.entries[i]
		if !ok {
			break
		}
		size += uint64(e.SizeUpperLimit())
		ents = append(ents, cloneEntry(e))
		if size > maxSize {
			break
		}
	}
	return ents, size, nil
}

// ReadRaftState implements ILogDB.
func (d *DB) ReadRaftState(s, r uint64, snapshotIndex uint64) (raftio.RaftState, error) {
	vsched.Point() // the store is a shared synchronised object: its operations are scheduling points under schedx
	d.mu.Lock()
	defer d.mu.Unlock()
	n := d.get(s, r)
	if !n.hasState && !n.hasMax {
		return raftio.RaftState{}, raftio.ErrNoSavedLog
	}
	rs := raftio.RaftState{State: n.state}
	if !n.hasMax || n.maxIndex == snapshotIndex {
		rs.FirstIndex = snapshotIndex
		return rs, nil
	}
	first := uint64(0)
	for i := snapshotIndex; i <= n.maxIndex; i++ {
		if _, ok := n.entries[i]; ok {
			first = i
			break
		}
	}
	if first > 0 {
		rs.FirstIndex = first
		rs.EntryCount = n.maxIndex - first + 1
	}
	return rs, nil
}

// RemoveEntriesTo implements ILogDB.
func (d *DB) RemoveEntriesTo(s, r uint64, index uint64) error {
	vsched.Point() // the store is a shared synchronised object: its operations are scheduling points under schedx
	d.mu.Lock()
	defer d.mu.Unlock()
	if err := d.hook("RemoveEntriesTo", s, r); err != nil {
		return err
	}
	n := d.get(s, r)
	for i := range n.entries {
		if i <= index {
			delete(n.entries, i)
		}
	}
	return nil
}

// CompactEntriesTo implements ILogDB.
func (d *DB) CompactEntriesTo(s, r uint64, index uint64) (<-chan struct{}, error) {
	ch := make(chan struct{})
	close(ch)
	return ch, nil
}

// SaveSnapshots implements ILogDB.
func (d *DB) SaveSnapshots(updates []pb.Update) error {
	vsched.Point() // the store is a shared synchronised object: its operations are scheduling points under schedx
	d.mu.Lock()
	defer d.mu.Unlock()
	for _, ud := range updates {
		if err := d.hook("SaveSnapshots", ud.ShardID, ud.ReplicaID); err != nil {
			return err
		}
	}
	for _, ud := range updates {
		n := d.get(ud.ShardID, ud.ReplicaID)
		if !pb.IsEmptySnapshot(ud.Snapshot) && ud.Snapshot.Index > n.snapshot.Index {
			n.snapshot = ud.Snapshot
		}
	}
	return nil
}

// GetSnapshot implements ILogDB.
func (d *DB) GetSnapshot(s, r uint64) (pb.Snapshot, error) {
	vsched.Point() // the store is a shared synchronised object: its operations are scheduling points under schedx
	d.mu.Lock()
	defer d.mu.Unlock()
	return d.get(s, r).snapshot, nil
}

// RemoveNodeData implements ILogDB.
func (d *DB) RemoveNodeData(s, r uint64) error {
	vsched.Point() // the store is a shared synchronised object: its operations are scheduling points under schedx
	d.mu.Lock()
	defer d.mu.Unlock()
	if err := d.hook("RemoveNodeData", s, r); err != nil {
		return err
	}
	delete(d.nodes, raftio.NodeInfo{ShardID: s, ReplicaID: r})
	return nil
}

// ImportSnapshot implements ILogDB.
func (d *DB) ImportSnapshot(ss pb.Snapshot, r uint64) error {
	vsched.Point() // the store is a shared synchronised object: its operations are scheduling points under schedx
	d.mu.Lock()
	defer d.mu.Unlock()
	if err := d.hook("ImportSnapshot", ss.ShardID, r); err != nil {
		return err
	}
	delete(d.nodes, raftio.NodeInfo{ShardID: ss.ShardID, ReplicaID: r})
	n := d.get(ss.ShardID, r)
	n.bootstrap = &pb.Bootstrap{Join: true, Type: ss.Type}
	n.state = pb.State{Term: ss.Term, Commit: ss.Index}
	n.hasState = true
	n.snapshot = ss
	n.maxIndex = ss.Index
	n.hasMax = true
	return nil
}

// Persisted returns the term of the persisted entry at index (0,false if not
// persisted or beyond the logical end).
func (d *DB) Persisted(s, r uint64, index uint64) (uint64, bool) {
	d.mu.Lock()
	defer d.mu.Unlock()
	n := d.get(s, r)
	if !n.hasMax || index > n.maxIndex {
		return 0, false
	}
	e, ok := n.entries[index]
	if !ok {
		return 0, false
	}
	return e.Term, true
}

// State returns the persisted hard state.
func (d *DB) State(s, r uint64) pb.State {
	d.mu.Lock()
	defer d.mu.Unlock()
	return d.get(s, r).state
}

// MaxIndex returns the persisted max index.
func (d *DB) MaxIndex(s, r uint64) uint64 {
	d.mu.Lock()
	defer d.mu.Unlock()
	return d.get(s, r).maxIndex
}
