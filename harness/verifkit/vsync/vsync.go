// Package vsync is a drop-in shim for the parts of package sync that the
// dragonboat files rewritten by /verif/tools/schedrewrite use. The rewritten
// files import it under the name "sync", so no line below the import block
// changes.
//
// While a vsched exploration is active every operation is a scheduling point
// and blocking is cooperative (a blocked thread is disabled in the scheduler);
// otherwise every operation delegates to the real primitive embedded in the
// shim, so code compiled against vsync behaves (and synchronises, also for the
// race detector) exactly like code compiled against sync.
//
// An object must not be locked across the boundary between the two modes.
package vsync

import (
	"sync"

	"github.com/lni/dragonboat/v4/internal/verifkit/vsched"
)

// Locker is sync.Locker.
type Locker = sync.Locker

// Pool is the real sync.Pool (type alias): pools are passed between rewritten
// and unrewritten files (request.go <-> node.go/nodehost.go and the package's
// own tests), so the type must be identical. Get/Put are therefore not
// scheduling points; the harnesses put an explicit vsched.Yield() between
// their operations and run with GOMAXPROCS=1 and the collector off during an
// execution, which makes sync.Pool a deterministic LIFO.
type Pool = sync.Pool

// Mutex shims sync.Mutex.
type Mutex struct {
	real sync.Mutex
	held bool
}

// Lock locks m.
func (m *Mutex) Lock() {
	r := vsched.Cur()
	if r == nil {
		m.real.Lock()
		return
	}
	if r.Aborting() {
		return
	}
	r.Block(func() bool { return !m.held }, "Mutex.Lock")
	m.held = true
}

// TryLock tries to lock m.
func (m *Mutex) TryLock() bool {
	r := vsched.Cur()
	if r == nil {
		return m.real.TryLock()
	}
	if r.Aborting() {
		return true
	}
	r.Block(nil, "")
	if m.held {
		return false
	}
	m.held = true
	return true
}

// Unlock unlocks m.
func (m *Mutex) Unlock() {
	r := vsched.Cur()
	if r == nil {
		m.real.Unlock()
		return
	}
	if r.Aborting() {
		return
	}
	r.Block(nil, "")
	if !m.held {
		panic("vsync: unlock of unlocked Mutex")
	}
	m.held = false
}

// RWMutex shims sync.RWMutex (writer preference as in the real one: a pending
// Lock blocks new readers).
type RWMutex struct {
	real    sync.RWMutex
	writer  bool
	readers int
	pending int // writers blocked in Lock
}

// Lock takes the write lock.
func (m *RWMutex) Lock() {
	r := vsched.Cur()
	if r == nil {
		m.real.Lock()
		return
	}
	if r.Aborting() {
		return
	}
	r.Block(nil, "")
	if m.writer || m.readers > 0 {
		m.pending++
		r.Block(func() bool { return !m.writer && m.readers == 0 }, "RWMutex.Lock")
		m.pending--
	}
	m.writer = true
}

// TryLock tries to take the write lock.
func (m *RWMutex) TryLock() bool {
	r := vsched.Cur()
	if r == nil {
		return m.real.TryLock()
	}
	if r.Aborting() {
		return true
	}
	r.Block(nil, "")
	if m.writer || m.readers > 0 {
		return false
	}
	m.writer = true
	return true
}

// Unlock releases the write lock.
func (m *RWMutex) Unlock() {
	r := vsched.Cur()
	if r == nil {
		m.real.Unlock()
		return
	}
	if r.Aborting() {
		return
	}
	r.Block(nil, "")
	if !m.writer {
		panic("vsync: Unlock of unlocked RWMutex")
	}
	m.writer = false
}

// RLock takes a read lock.
func (m *RWMutex) RLock() {
	r := vsched.Cur()
	if r == nil {
		m.real.RLock()
		return
	}
	if r.Aborting() {
		return
	}
	r.Block(nil, "")
	if m.writer || m.pending > 0 {
		r.Block(func() bool { return !m.writer && m.pending == 0 }, "RWMutex.RLock")
	}
	m.readers++
}

// TryRLock tries to take a read lock.
func (m *RWMutex) TryRLock() bool {
	r := vsched.Cur()
	if r == nil {
		return m.real.TryRLock()
	}
	if r.Aborting() {
		return true
	}
	r.Block(nil, "")
	if m.writer || m.pending > 0 {
		return false
	}
	m.readers++
	return true
}

// RUnlock releases a read lock.
func (m *RWMutex) RUnlock() {
	r := vsched.Cur()
	if r == nil {
		m.real.RUnlock()
		return
	}
	if r.Aborting() {
		return
	}
	r.Block(nil, "")
	if m.readers <= 0 {
		panic("vsync: RUnlock of unlocked RWMutex")
	}
	m.readers--
}

type rlocker RWMutex

func (r *rlocker) Lock()   { (*RWMutex)(r).RLock() }
func (r *rlocker) Unlock() { (*RWMutex)(r).RUnlock() }

// RLocker returns a Locker for the read side.
func (m *RWMutex) RLocker() Locker { return (*rlocker)(m) }

// Once shims sync.Once.
type Once struct {
	real    sync.Once
	done    bool
	running bool
}

// Do calls f once.
func (o *Once) Do(f func()) {
	r := vsched.Cur()
	if r == nil {
		o.real.Do(f)
		return
	}
	if r.Aborting() {
		return
	}
	r.Block(nil, "")
	if o.done {
		return
	}
	if o.running {
		r.Block(func() bool { return o.done }, "Once.Do")
		return
	}
	o.running = true
	defer func() {
		o.done = true
		o.running = false
	}()
	f()
}

// WaitGroup shims sync.WaitGroup.
type WaitGroup struct {
	real sync.WaitGroup
	n    int
}

// Add adds delta to the counter.
func (w *WaitGroup) Add(delta int) {
	r := vsched.Cur()
	if r == nil {
		w.real.Add(delta)
		return
	}
	if r.Aborting() {
		return
	}
	r.Block(nil, "")
	w.n += delta
	if w.n < 0 {
		panic("vsync: negative WaitGroup counter")
	}
}

// Done decrements the counter.
func (w *WaitGroup) Done() { w.Add(-1) }

// Wait blocks until the counter is zero.
func (w *WaitGroup) Wait() {
	r := vsched.Cur()
	if r == nil {
		w.real.Wait()
		return
	}
	if r.Aborting() {
		return
	}
	r.Block(func() bool { return w.n == 0 }, "WaitGroup.Wait")
}

// Cond shims sync.Cond.
type Cond struct {
	L       Locker
	real    *sync.Cond
	mu      sync.Mutex
	waiters []*bool
}

// NewCond returns a new Cond.
func NewCond(l Locker) *Cond { return &Cond{L: l} }

func (c *Cond) realCond() *sync.Cond {
	c.mu.Lock()
	defer c.mu.Unlock()
	if c.real == nil {
		c.real = sync.NewCond(c.L)
	}
	return c.real
}

// Wait atomically unlocks c.L and suspends the caller.
func (c *Cond) Wait() {
	r := vsched.Cur()
	if r == nil {
		c.realCond().Wait()
		return
	}
	if r.Aborting() {
		return
	}
	woken := new(bool)
	c.waiters = append(c.waiters, woken)
	c.L.Unlock()
	r.Block(func() bool { return *woken }, "Cond.Wait")
	c.L.Lock()
}

// Signal wakes one waiter.
func (c *Cond) Signal() {
	r := vsched.Cur()
	if r == nil {
		c.realCond().Signal()
		return
	}
	if r.Aborting() {
		return
	}
	r.Block(nil, "")
	if len(c.waiters) > 0 {
		*c.waiters[0] = true
		c.waiters = c.waiters[1:]
	}
}

// Broadcast wakes all waiters.
func (c *Cond) Broadcast() {
	r := vsched.Cur()
	if r == nil {
		c.realCond().Broadcast()
		return
	}
	if r.Aborting() {
		return
	}
	r.Block(nil, "")
	for _, w := range c.waiters {
		*w = true
	}
	c.waiters = nil
}

// Map shims sync.Map: every operation is a scheduling point, storage is the
// real sync.Map (its operations never block).
type Map struct {
	m sync.Map
}

// Load is sync.Map.Load.
func (m *Map) Load(key any) (any, bool) { vsched.Point(); return m.m.Load(key) }

// Store is sync.Map.Store.
func (m *Map) Store(key, value any) { vsched.Point(); m.m.Store(key, value) }

// LoadOrStore is sync.Map.LoadOrStore.
func (m *Map) LoadOrStore(key, value any) (any, bool) {
	vsched.Point()
	return m.m.LoadOrStore(key, value)
}

// LoadAndDelete is sync.Map.LoadAndDelete.
func (m *Map) LoadAndDelete(key any) (any, bool) { vsched.Point(); return m.m.LoadAndDelete(key) }

// Delete is sync.Map.Delete.
func (m *Map) Delete(key any) { vsched.Point(); m.m.Delete(key) }

// Swap is sync.Map.Swap.
func (m *Map) Swap(key, value any) (any, bool) { vsched.Point(); return m.m.Swap(key, value) }

// CompareAndSwap is sync.Map.CompareAndSwap.
func (m *Map) CompareAndSwap(key, old, new any) bool {
	vsched.Point()
	return m.m.CompareAndSwap(key, old, new)
}

// CompareAndDelete is sync.Map.CompareAndDelete.
func (m *Map) CompareAndDelete(key, old any) bool {
	vsched.Point()
	return m.m.CompareAndDelete(key, old)
}

// Range is sync.Map.Range (a scheduling point before the walk and before every
// callback).
func (m *Map) Range(f func(key, value any) bool) {
	vsched.Point()
	m.m.Range(func(k, v any) bool {
		vsched.Point()
		return f(k, v)
	})
}

// Clear is sync.Map.Clear.
func (m *Map) Clear() { vsched.Point(); m.m.Clear() }

// OnceFunc is sync.OnceFunc built on the shim Once.
func OnceFunc(f func()) func() {
	var o Once
	return func() { o.Do(f) }
}
