package verifkit

import (
	"encoding/binary"
	"fmt"
	"hash/fnv"
	"sync"
	"sync/atomic"
)

// Instance is one fresh copy of the real system under exploration. Real
// objects are never cloned: a successor state is produced by replaying the
// event path on a fresh instance and applying one more event.
type Instance interface {
	// Enabled lists the events that may be applied in the current state, in a
	// canonical (simplest first) order.
	Enabled() []uint32
	// Step applies one event. It returns a non-empty string when the step
	// itself violated the property (e.g. a consistency panic of the code).
	Step(ev uint32) string
	// Canon returns a canonical byte description of the state: two states with
	// equal descriptions must have equal futures.
	Canon() []byte
	// Check evaluates the invariants in the current state ("" = ok).
	Check() string
}

// BFSConfig configures an explicit-state search.
type BFSConfig struct {
	New       func() Instance
	Describe  func(ev uint32) string
	MaxDepth  int
	MaxStates int
	Workers   int
	Run       *Run
	Res       *Result
	// OnState is called (concurrently) for every newly discovered state with a
	// live instance in that state and the path leading to it.
	OnState func(inst Instance, path []uint32)
	// KeyOf maps a violation message to the known-findings key.
	KeyOf func(msg string) string
	// Chain: when a newly found state has exactly one enabled event, keep
	// stepping the same live instance (no replay) until a state with a choice,
	// a known state or a dead end is reached. All states on the way are counted
	// and checked; only the breadth-first order (and so the shortest-first
	// guarantee and the per-depth statistics) is given up. OnState must not
	// modify the instance. Ignored when MaxDepth is set.
	Chain bool
}

type bfsNode struct {
	parent int32
	ev     uint32
}

type fp [16]byte

func fingerprint(b []byte) fp {
	h := fnv.New128a()
	_, _ = h.Write(b)
	var out fp
	copy(out[:], h.Sum(nil))
	return out
}

type seenSet struct {
	shards [256]struct {
		mu sync.Mutex
		m  map[fp]struct{}
	}
}

func newSeen() *seenSet {
	s := &seenSet{}
	for i := range s.shards {
		s.shards[i].m = make(map[fp]struct{})
	}
	return s
}

func (s *seenSet) add(k fp) bool {
	sh := &s.shards[k[0]]
	sh.mu.Lock()
	_, ok := sh.m[k]
	if !ok {
		sh.m[k] = struct{}{}
	}
	sh.mu.Unlock()
	return !ok
}

// BFSStats reports what a search covered.
type BFSStats struct {
	States      int64
	Transitions int64
	Depth       int
	Fixpoint    bool
	// DepthBoundHit is true when unexplored frontier states remained at MaxDepth.
	DepthBoundHit bool
	FrontierLeft  int64
	PerDepth      []int64
}

// PathString renders a path.
func PathString(path []uint32, describe func(uint32) string) []string {
	out := make([]string, len(path))
	for i, e := range path {
		out[i] = describe(e)
	}
	return out
}

// Replay builds a fresh instance and applies path; returns the instance and
// the first step violation, if any.
func Replay(newInst func() Instance, path []uint32) (Instance, string) {
	inst := newInst()
	for _, e := range path {
		if msg := inst.Step(e); msg != "" {
			return inst, msg
		}
	}
	return inst, ""
}

// Disposer is implemented by instances that hold resources (open stores,
// goroutines) which must be released when the search is done with them.
type Disposer interface{ Dispose() }

func dispose(inst Instance) {
	if d, ok := inst.(Disposer); ok {
		d.Dispose()
	}
}

// BFS runs a level-synchronous breadth-first search over the reachable states.
func BFS(cfg BFSConfig) BFSStats {
	if cfg.Workers <= 0 {
		cfg.Workers = 1
	}
	if cfg.KeyOf == nil {
		cfg.KeyOf = func(m string) string { return m }
	}
	nodes := make([]bfsNode, 0, 1<<16)
	var nodesMu sync.Mutex
	seen := newSeen()
	stats := BFSStats{}
	pathOf := func(id int32) []uint32 {
		var rev []uint32
		nodesMu.Lock()
		for id > 0 {
			rev = append(rev, nodes[id].ev)
			id = nodes[id].parent
		}
		nodesMu.Unlock()
		for i, j := 0, len(rev)-1; i < j; i, j = i+1, j-1 {
			rev[i], rev[j] = rev[j], rev[i]
		}
		return rev
	}
	root := cfg.New()
	nodes = append(nodes, bfsNode{parent: -1})
	seen.add(fingerprint(root.Canon()))
	if msg := root.Check(); msg != "" {
		cfg.Res.Violate(cfg.KeyOf(msg), msg, map[string]interface{}{"path": []uint32{}, "events": []string{}})
	}
	if cfg.OnState != nil {
		cfg.OnState(root, nil)
	}
	frontier := []int32{0}
	stats.States = 1
	stats.PerDepth = append(stats.PerDepth, 1)
	var transitions, chained, found int64
	var stop int32
	addNode := func(parent int32, ev uint32) int32 {
		nodesMu.Lock()
		nodes = append(nodes, bfsNode{parent: parent, ev: ev})
		id := int32(len(nodes) - 1)
		nodesMu.Unlock()
		return id
	}
	report := func(path []uint32, msg string) {
		if cfg.Res.Violate(cfg.KeyOf(msg), msg, map[string]interface{}{
			"path": path, "events": PathString(path, cfg.Describe)}) {
			atomic.StoreInt32(&stop, 1)
		}
	}
	for depth := 0; len(frontier) > 0; depth++ {
		if cfg.MaxDepth > 0 && depth >= cfg.MaxDepth {
			// the depth bound is a stated bound of the search, not a cap
			stats.Depth = depth
			stats.DepthBoundHit = true
			stats.FrontierLeft = int64(len(frontier))
			break
		}
		stats.Depth = depth + 1
		var next []int32
		var nextMu sync.Mutex
		var idx int64 = -1
		var wg sync.WaitGroup
		for w := 0; w < cfg.Workers; w++ {
			wg.Add(1)
			go func() {
				defer wg.Done()
				var localNext []bfsNode
				flush := func() {
					if len(localNext) == 0 {
						return
					}
					nodesMu.Lock()
					base := int32(len(nodes))
					nodes = append(nodes, localNext...)
					nodesMu.Unlock()
					nextMu.Lock()
					for i := range localNext {
						next = append(next, base+int32(i))
					}
					nextMu.Unlock()
					localNext = localNext[:0]
				}
				for {
					if atomic.LoadInt32(&stop) != 0 {
						break
					}
					i := atomic.AddInt64(&idx, 1)
					if i >= int64(len(frontier)) {
						break
					}
					if i%256 == 0 && cfg.Run != nil && cfg.Run.Expired() {
						cfg.Res.Cap(fmt.Sprintf("deadline reached at depth %d", depth))
						atomic.StoreInt32(&stop, 1)
						break
					}
					id := frontier[i]
					path := pathOf(id)
					base, msg := Replay(cfg.New, path)
					if msg != "" {
						// cannot happen: the path was explored before
						panic("nondeterministic replay: " + msg)
					}
					evs := base.Enabled()
					if len(evs) == 0 {
						dispose(base)
					}
					for k, ev := range evs {
						var inst Instance
						if k == len(evs)-1 {
							inst = base
						} else {
							inst, _ = Replay(cfg.New, path)
						}
						func() {
							defer dispose(inst)
							atomic.AddInt64(&transitions, 1)
							np := append(append([]uint32{}, path...), ev)
							if msg := inst.Step(ev); msg != "" {
								report(np, msg)
								return
							}
							if msg := inst.Check(); msg != "" {
								report(np, msg)
								return
							}
							if !seen.add(fingerprint(inst.Canon())) {
								return
							}
							atomic.AddInt64(&found, 1)
							if cfg.OnState != nil {
								cfg.OnState(inst, np)
							}
							if !cfg.Chain || cfg.MaxDepth > 0 {
								localNext = append(localNext, bfsNode{parent: id, ev: ev})
								if len(localNext) >= 1024 {
									flush()
								}
								return
							}
							// chain mode
							cur := addNode(id, ev)
							for atomic.LoadInt32(&stop) == 0 {
								ce := inst.Enabled()
								if len(ce) != 1 {
									if len(ce) > 1 {
										nextMu.Lock()
										next = append(next, cur)
										nextMu.Unlock()
									}
									break
								}
								atomic.AddInt64(&transitions, 1)
								np = append(np, ce[0])
								if msg := inst.Step(ce[0]); msg != "" {
									report(append([]uint32{}, np...), msg)
									break
								}
								if msg := inst.Check(); msg != "" {
									report(append([]uint32{}, np...), msg)
									break
								}
								if !seen.add(fingerprint(inst.Canon())) {
									break
								}
								atomic.AddInt64(&chained, 1)
								if cfg.OnState != nil {
									cfg.OnState(inst, np)
								}
								cur = addNode(cur, ce[0])
							}
						}()
					}
				}
				flush()
			}()
		}
		wg.Wait()
		newFound := atomic.SwapInt64(&found, 0) + atomic.SwapInt64(&chained, 0)
		stats.States += newFound
		stats.PerDepth = append(stats.PerDepth, newFound)
		if atomic.LoadInt32(&stop) != 0 {
			break
		}
		if cfg.MaxStates > 0 && stats.States >= int64(cfg.MaxStates) {
			cfg.Res.Cap(fmt.Sprintf("state cap %d reached at depth %d", cfg.MaxStates, depth+1))
			break
		}
		frontier = next
		if len(frontier) == 0 {
			stats.Fixpoint = true
		}
	}
	stats.Transitions = atomic.LoadInt64(&transitions)
	return stats
}

// CanonBuf is a tiny helper to build canonical state descriptions.
type CanonBuf struct{ B []byte }

// U writes unsigned integers.
func (c *CanonBuf) U(vs ...uint64) *CanonBuf {
	var tmp [binary.MaxVarintLen64]byte
	for _, v := range vs {
		n := binary.PutUvarint(tmp[:], v)
		c.B = append(c.B, tmp[:n]...)
	}
	return c
}

// S writes a string with its length.
func (c *CanonBuf) S(s string) *CanonBuf {
	c.U(uint64(len(s)))
	c.B = append(c.B, s...)
	return c
}

// Bool writes a boolean.
func (c *CanonBuf) Bool(b bool) *CanonBuf {
	if b {
		c.B = append(c.B, 1)
	} else {
		c.B = append(c.B, 0)
	}
	return c
}

// Sep writes a separator tag.
func (c *CanonBuf) Sep(tag byte) *CanonBuf {
	c.B = append(c.B, 0xff, tag)
	return c
}
