// Package vtime stands in for "time" in files rewritten by schedrewrite
// -engine. Inside a controlled execution tickers and timers never fire on
// their own (wall time is not an input of an exploration); the harness fires
// them with Fire. Outside it delegates to package time.
package vtime

import (
	"sync"
	"time"

	"github.com/lni/dragonboat/v4/internal/verifkit/vsched"
)

type Duration = time.Duration
type Time = time.Time

const (
	Nanosecond  = time.Nanosecond
	Microsecond = time.Microsecond
	Millisecond = time.Millisecond
	Second      = time.Second
	Minute      = time.Minute
)

func Now() Time             { return time.Now() }
func Since(t Time) Duration { return time.Since(t) }
func Sleep(d Duration) {
	if vsched.Active() {
		vsched.Yield()
		return
	}
	time.Sleep(d)
}

type Ticker struct {
	C    <-chan Time
	c    chan Time
	real *time.Ticker
	d    Duration
}

type Timer struct {
	C    <-chan Time
	c    chan Time
	real *time.Timer
	d    Duration
}

var (
	mu      sync.Mutex
	tickers []*Ticker
	timers  []*Timer
)

// Reset forgets the tickers and timers of the previous execution.
func Reset() {
	mu.Lock()
	tickers, timers = nil, nil
	mu.Unlock()
}

func NewTicker(d Duration) *Ticker {
	if !vsched.Active() {
		r := time.NewTicker(d)
		return &Ticker{C: r.C, real: r, d: d}
	}
	c := make(chan Time, 1)
	t := &Ticker{C: c, c: c, d: d}
	mu.Lock()
	tickers = append(tickers, t)
	mu.Unlock()
	return t
}

func (t *Ticker) Stop() {
	if t.real != nil {
		t.real.Stop()
	}
}

func NewTimer(d Duration) *Timer {
	if !vsched.Active() {
		r := time.NewTimer(d)
		return &Timer{C: r.C, real: r, d: d}
	}
	c := make(chan Time, 1)
	t := &Timer{C: c, c: c, d: d}
	mu.Lock()
	timers = append(timers, t)
	mu.Unlock()
	return t
}

// Reset restarts the timer (go 1.23 semantics: a tick that fired before the
// Reset and was not received is discarded).
func (t *Timer) Reset(d Duration) bool {
	if t.real != nil {
		return t.real.Reset(d)
	}
	select {
	case <-t.c:
	default:
	}
	return true
}

func (t *Timer) Stop() bool {
	if t.real != nil {
		return t.real.Stop()
	}
	return true
}

// FireTickers makes every virtual ticker with period d (0 = all) deliver one tick.
func FireTickers(d Duration) int {
	mu.Lock()
	defer mu.Unlock()
	n := 0
	for _, t := range tickers {
		if d == 0 || t.d == d {
			select {
			case t.c <- time.Time{}:
				n++
			default:
			}
		}
	}
	return n
}

// FireTimers makes every virtual timer expire.
func FireTimers() int {
	mu.Lock()
	defer mu.Unlock()
	n := 0
	for _, t := range timers {
		select {
		case t.c <- time.Time{}:
			n++
		default:
		}
	}
	return n
}
