// Package verifkit is the shared kit of the /verif model-checking harnesses.
// It is overlaid into the dragonboat module as a virtual package at check time
// (go build -overlay); it never exists in /repo.
package verifkit

import (
	"encoding/json"
	"fmt"
	"hash/fnv"
	"os"
	"reflect"
	"sort"
	"strconv"
	"strings"
	"sync"
	"time"
)

// Run describes one worker invocation of a check.
type Run struct {
	Tier     string
	Seed     int64
	Shard    int
	Shards   int
	Out      string
	Replay   string
	Part     string
	Deadline time.Time
	start    time.Time
}

// Env reads the worker protocol from the environment.
func Env() *Run {
	r := &Run{Tier: "quick", Shards: 1, start: time.Now()}
	if v := os.Getenv("VERIF_TIER"); v != "" {
		r.Tier = v
	}
	if v := os.Getenv("VERIF_SEED"); v != "" {
		r.Seed, _ = strconv.ParseInt(v, 10, 64)
	}
	if v := os.Getenv("VERIF_SHARD"); v != "" {
		p := strings.Split(v, "/")
		if len(p) == 2 {
			r.Shard, _ = strconv.Atoi(p[0])
			r.Shards, _ = strconv.Atoi(p[1])
		}
	}
	if r.Shards < 1 {
		r.Shards = 1
	}
	r.Out = os.Getenv("VERIF_OUT")
	r.Replay = os.Getenv("VERIF_REPLAY")
	r.Part = os.Getenv("VERIF_PART")
	d := 0
	if v := os.Getenv("VERIF_DEADLINE_S"); v != "" {
		d, _ = strconv.Atoi(v)
	}
	if d > 0 {
		r.Deadline = r.start.Add(time.Duration(d) * time.Second)
	}
	return r
}

// Thorough reports whether the thorough tier was requested.
func (r *Run) Thorough() bool { return r.Tier == "thorough" }

// Pick returns q for quick and t for thorough.
func (r *Run) Pick(q, t int) int {
	if r.Thorough() {
		return t
	}
	return q
}

// Mine tells whether work item k belongs to this shard.
func (r *Run) Mine(k uint64) bool { return int(k%uint64(r.Shards)) == r.Shard }

// Expired reports whether the internal deadline has passed (a capped run is
// never called exhaustive).
func (r *Run) Expired() bool {
	return !r.Deadline.IsZero() && time.Now().After(r.Deadline)
}

// Slice gives the next of `left` remaining work items of this worker a fair
// share of the time that remains before the deadline: it moves the deadline
// forward for the duration of the item and returns the function that restores
// it. An item that finishes early leaves its time to the following ones, and
// one that does not reach its fixpoint no longer starves those after it.
func (r *Run) Slice(left int) func() {
	if r.Deadline.IsZero() || left <= 1 {
		return func() {}
	}
	final := r.Deadline
	rem := time.Until(final)
	if rem <= 0 {
		return func() {}
	}
	r.Deadline = time.Now().Add(rem / time.Duration(left))
	return func() { r.Deadline = final }
}

// Violation is one property violation with a replayable description.
type Violation struct {
	Key    string      `json:"key"`
	Desc   string      `json:"desc"`
	Replay interface{} `json:"replay"`
}

// Result is what a worker reports to the driver.
type Result struct {
	mu                 sync.Mutex
	Evaluations        int64                  `json:"evaluations"`
	DistinctNontrivial int64                  `json:"distinct_nontrivial"`
	States             int64                  `json:"states"`
	Transitions        int64                  `json:"transitions"`
	TracesValidated    int64                  `json:"traces_validated_against_impl"`
	Samples            []interface{}          `json:"samples"`
	Violations         []Violation            `json:"violations"`
	Exhaustive         bool                   `json:"exhaustive"`
	Capped             string                 `json:"capped,omitempty"`
	Outcomes           map[string]int64       `json:"outcomes,omitempty"`
	Extra              map[string]interface{} `json:"extra,omitempty"`
	Rule               string                 `json:"rule,omitempty"`
	Assumptions        []string               `json:"assumptions,omitempty"`
	MaxViolations      int                    `json:"-"`
}

// NewResult returns an empty result that assumes exhaustiveness until capped.
func NewResult() *Result {
	r := &Result{Exhaustive: true, Outcomes: map[string]int64{}, Extra: map[string]interface{}{}, MaxViolations: 5}
	if os.Getenv("VERIF_STOP_FIRST") != "" {
		r.MaxViolations = 1
	}
	return r
}

// Outcome counts one observed outcome class.
func (r *Result) Outcome(k string) {
	r.mu.Lock()
	r.Outcomes[k]++
	r.mu.Unlock()
}

// Sample records up to n sample cases.
func (r *Result) Sample(n int, s interface{}) {
	r.mu.Lock()
	if len(r.Samples) < n {
		r.Samples = append(r.Samples, s)
	}
	r.mu.Unlock()
}

// Violate records a violation; returns true when enough were collected and
// the exploration should stop.
func (r *Result) Violate(key, desc string, replay interface{}) bool {
	r.mu.Lock()
	defer r.mu.Unlock()
	for _, v := range r.Violations {
		if v.Key == key {
			return len(r.Violations) >= r.MaxViolations
		}
	}
	r.Violations = append(r.Violations, Violation{Key: key, Desc: desc, Replay: replay})
	return len(r.Violations) >= r.MaxViolations
}

// NViolations returns the number of recorded violations.
func (r *Result) NViolations() int {
	r.mu.Lock()
	defer r.mu.Unlock()
	return len(r.Violations)
}

// Cap marks the run as not exhaustive.
func (r *Result) Cap(why string) {
	r.mu.Lock()
	r.Exhaustive = false
	if r.Capped == "" {
		r.Capped = why
	}
	r.mu.Unlock()
}

// Finish writes the worker result.
func (run *Run) Finish(res *Result) {
	res.mu.Lock()
	defer res.mu.Unlock()
	if res.Samples == nil {
		res.Samples = []interface{}{}
	}
	if res.Violations == nil {
		res.Violations = []Violation{}
	}
	res.Extra["worker_wall_s"] = time.Since(run.start).Seconds()
	data, err := json.Marshal(res)
	if err != nil {
		panic(err)
	}
	if run.Out == "" {
		fmt.Println(string(data))
		return
	}
	if err := os.WriteFile(run.Out+".tmp", data, 0644); err != nil {
		panic(err)
	}
	if err := os.Rename(run.Out+".tmp", run.Out); err != nil {
		panic(err)
	}
}

// LoadReplay decodes the replay file into v; returns false when no replay was
// requested.
func (run *Run) LoadReplay(v interface{}) bool {
	if run.Replay == "" {
		return false
	}
	data, err := os.ReadFile(run.Replay)
	if err != nil {
		panic(err)
	}
	var w struct {
		Replay json.RawMessage `json:"replay"`
	}
	if err := json.Unmarshal(data, &w); err != nil {
		panic(err)
	}
	if err := json.Unmarshal(w.Replay, v); err != nil {
		panic(err)
	}
	return true
}

// Hash64 hashes a string.
func Hash64(s string) uint64 {
	h := fnv.New64a()
	_, _ = h.Write([]byte(s))
	return h.Sum64()
}

// Set64 is a simple set of 64 bit hashes.
type Set64 struct {
	mu sync.Mutex
	m  map[uint64]struct{}
}

// NewSet64 creates a set.
func NewSet64() *Set64 { return &Set64{m: make(map[uint64]struct{})} }

// Add inserts k and reports whether it was new.
func (s *Set64) Add(k uint64) bool {
	s.mu.Lock()
	defer s.mu.Unlock()
	if _, ok := s.m[k]; ok {
		return false
	}
	s.m[k] = struct{}{}
	return true
}

// Len returns the set size.
func (s *Set64) Len() int {
	s.mu.Lock()
	defer s.mu.Unlock()
	return len(s.m)
}

// SortedKeys returns sorted keys of a string map.
func SortedKeys(m map[string]int64) []string {
	ks := make([]string, 0, len(m))
	for k := range m {
		ks = append(ks, k)
	}
	sort.Strings(ks)
	return ks
}

// Catch runs f and converts a panic into a string ("" if no panic).
func Catch(f func()) (msg string) {
	defer func() {
		if r := recover(); r != nil {
			msg = fmt.Sprint(r)
			if msg == "" {
				msg = "panic"
			}
		}
	}()
	f()
	return ""
}

// NonZeroFields renders the non-zero exported fields of a struct value as
// "Name=value ..." (used to put the bounds of a configuration into evidence).
func NonZeroFields(v interface{}) string {
	rv := reflect.ValueOf(v)
	if rv.Kind() == reflect.Ptr {
		rv = rv.Elem()
	}
	if rv.Kind() != reflect.Struct {
		return fmt.Sprint(v)
	}
	var parts []string
	for i := 0; i < rv.NumField(); i++ {
		f := rv.Type().Field(i)
		if f.PkgPath != "" || rv.Field(i).IsZero() {
			continue
		}
		fv := rv.Field(i)
		if (fv.Kind() == reflect.Slice || fv.Kind() == reflect.Map) && fv.Len() == 0 {
			continue
		}
		if fv.Kind() == reflect.Func {
			parts = append(parts, f.Name+"=set")
			continue
		}
		parts = append(parts, fmt.Sprintf("%s=%v", f.Name, fv.Interface()))
	}
	return strings.Join(parts, " ")
}
