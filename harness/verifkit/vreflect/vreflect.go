// Package vreflect stands in for "reflect" in files rewritten by schedrewrite
// -engine that use reflect.Select as their worker loop's blocking select.
package vreflect

import (
	"reflect"

	"github.com/lni/dragonboat/v4/internal/verifkit/vsched"
)

type SelectCase = reflect.SelectCase
type Value = reflect.Value
type SelectDir = reflect.SelectDir

const (
	SelectSend    = reflect.SelectSend
	SelectRecv    = reflect.SelectRecv
	SelectDefault = reflect.SelectDefault
)

func ValueOf(i interface{}) Value { return reflect.ValueOf(i) }

// Select waits through the scheduler until one receive case is ready, then
// runs the real reflect.Select (which then cannot block). Among several ready
// cases the runtime picks pseudo-randomly; the harness keeps that from
// mattering by construction (see NOTES) and replay verification detects it
// when it does.
func Select(cases []SelectCase) (int, Value, bool) {
	if vsched.Active() {
		vsched.Yield()
		cs := make([]vsched.ChanCase, 0, len(cases))
		for _, c := range cases {
			switch c.Dir {
			case reflect.SelectRecv:
				cs = append(cs, vsched.RV(c.Chan))
			case reflect.SelectDefault:
				return reflect.Select(cases)
			default:
				panic("vreflect: send cases are not supported")
			}
		}
		vsched.SelectWait(cs...)
		// deterministic choice: the first ready case in case order
		for i, c := range cs {
			if vsched.CaseReady(c) {
				ch, v, ok := reflect.Select([]SelectCase{cases[i]})
				_ = ch
				return i, v, ok
			}
		}
	}
	return reflect.Select(cases)
}
