// Package vreflect stands in for "reflect" in files rewritten by schedrewrite
// -engine that use reflect.Select as their worker loop's blocking select.
package vreflect

import (
	"reflect"

	"github.com/lni/dragonboat/v4/internal/verifkit/vsched"
)

type SelectCase = reflect.SelectCase
type Value = reflect.Value
type SelectDir = reflect.SelectDir

const (
	SelectSend    = reflect.SelectSend
	SelectRecv    = reflect.SelectRecv
	SelectDefault = reflect.SelectDefault
)

func ValueOf(i interface{}) Value { return reflect.ValueOf(i) }

// Select waits through the scheduler until one receive case is ready, then
// receives from the chosen case (which then cannot block). Among several ready
// cases the choice is part of the schedule (vsched.SelectIndex).
func Select(cases []SelectCase) (int, Value, bool) {
	if vsched.Active() {
		vsched.Yield()
		cs := make([]vsched.ChanCase, 0, len(cases))
		for _, c := range cases {
			switch c.Dir {
			case reflect.SelectRecv:
				cs = append(cs, vsched.RV(c.Chan))
			case reflect.SelectDefault:
				return reflect.Select(cases)
			default:
				panic("vreflect: send cases are not supported")
			}
		}
		if i := vsched.SelectIndex(cs...); i >= 0 {
			_, v, ok := reflect.Select([]SelectCase{cases[i]})
			return i, v, ok
		}
	}
	return reflect.Select(cases)
}
