//go:build verif

// C19: the raft core's view of its log always equals the logical log.
// Explicit-state search (BFS with dedup, to fixpoint within index/term
// bounds) over operation sequences on the REAL entryLog + inMemory over a REAL
// logdb.LogReader over an in-memory ILogDB, compared after every operation
// with a slice model of the logical log.
package raft_test

import (
	"fmt"
	"os"
	"testing"

	"github.com/lni/dragonboat/v4/internal/logdb"
	"github.com/lni/dragonboat/v4/internal/raft"
	"github.com/lni/dragonboat/v4/internal/verifkit"
	"github.com/lni/dragonboat/v4/internal/verifkit/memlogdb"
	"github.com/lni/dragonboat/v4/logger"
	pb "github.com/lni/dragonboat/v4/raftpb"
)

const (
	kLAppend = iota + 1
	kFAppend
	kCommit
	kRestore
	kCycle
	kApply
	kCBegin
	kCEnd
)

type ment struct{ term uint64 }

type qitem struct {
	index uint64
	snap  bool
}

type c19 struct {
	maxIdx, maxTerm uint64
	split           bool
	// real objects
	db *memlogdb.DB
	lr *logdb.LogReader
	l  *raft.VLog
	// model
	snapIndex, snapTerm uint64
	ents                []ment
	committed           uint64
	processed           uint64
	curTerm             uint64
	applied             uint64
	queue               []qitem
	open                *pb.Update // begun, not yet ended cycle
	// acked: highest index whose persistence has been acknowledged to the log
	// (Peer.Commit) and that has not been truncated or replaced since; "which
	// entries still have to be persisted" is exactly (max(acked, snapshot), last]
	acked uint64
}

type nopCompactor struct{}

func (nopCompactor) Compact(uint64) error { return nil }

func cmdOf(i, t uint64) []byte { return []byte{byte(i), byte(t)} }

func newC19(maxIdx, maxTerm uint64, split bool) *c19 {
	db := memlogdb.New()
	lr := logdb.NewLogReader(1, 1, db)
	lr.SetCompactor(nopCompactor{})
	return &c19{maxIdx: maxIdx, maxTerm: maxTerm, split: split, db: db, lr: lr, l: raft.VNewLog(lr), curTerm: 1}
}

func (s *c19) last() uint64 { return s.snapIndex + uint64(len(s.ents)) }
func (s *c19) mterm(i uint64) uint64 {
	if i == s.snapIndex {
		return s.snapTerm
	}
	if i > s.snapIndex && i <= s.last() {
		return s.ents[i-s.snapIndex-1].term
	}
	return 0
}
func (s *c19) ment(i uint64) pb.Entry {
	t := s.mterm(i)
	return pb.Entry{Index: i, Term: t, Cmd: cmdOf(i, t)}
}

func ev(kind, arg uint32) uint32 { return kind<<8 | arg }

func describe19(e uint32) string {
	k, a := e>>8, e&0xff
	switch k {
	case kLAppend:
		return fmt.Sprintf("leaderAppend(n=%d,bumpTerm=%d)", a&3, a>>2)
	case kFAppend:
		return fmt.Sprintf("followerAppend(prev=committed+%d,pattern=%s)", a&3,
			[]string{"new1", "new2", "same1", "same1+new1", "same2"}[a>>2])
	case kCommit:
		return []string{"commitTo(committed+1)", "commitTo(last)"}[a]
	case kRestore:
		return []string{"restore(committed+1)", "restore(last)", "restore(last+2)"}[a]
	case kCycle:
		return fmt.Sprintf("cycle(moreToApply=%d,compact=%s)", a&1, []string{"none", "applied", "applied-1"}[a>>1])
	case kApply:
		return []string{"apply(one)", "apply(all)"}[a]
	case kCBegin:
		return fmt.Sprintf("cycleBegin(moreToApply=%d)", a&1)
	case kCEnd:
		return fmt.Sprintf("cycleEnd(compact=%s)", []string{"none", "applied", "applied-1"}[a>>1])
	}
	return fmt.Sprint(e)
}

func (s *c19) fpattern(prev uint64, pat uint32) (same int, fresh int, ok bool) {
	switch pat {
	case 0:
		same, fresh = 0, 1
	case 1:
		same, fresh = 0, 2
	case 2:
		same, fresh = 1, 0
	case 3:
		same, fresh = 1, 1
	case 4:
		same, fresh = 2, 0
	}
	if prev+uint64(same) > s.last() {
		return 0, 0, false
	}
	if prev+uint64(same+fresh) > s.maxIdx {
		return 0, 0, false
	}
	if fresh > 0 && s.curTerm+1 > s.maxTerm {
		return 0, 0, false
	}
	return same, fresh, true
}

func (s *c19) compactTarget(sel uint32, lastApplied uint64) (uint64, bool) {
	if sel == 0 {
		return 0, true
	}
	c := lastApplied
	if sel == 2 {
		if c == 0 {
			return 0, false
		}
		c--
	}
	if c == 0 || c <= s.snapIndex {
		return 0, false
	}
	return c, true
}

func (s *c19) Enabled() []uint32 {
	var out []uint32
	last := s.last()
	if s.open == nil {
		for n := uint32(1); n <= 2; n++ {
			for bump := uint32(0); bump <= 1; bump++ {
				if last+uint64(n) <= s.maxIdx && (bump == 0 || s.curTerm+1 <= s.maxTerm) {
					out = append(out, ev(kLAppend, n|bump<<2))
				}
			}
		}
		for off := uint32(0); off <= 2; off++ {
			prev := s.committed + uint64(off)
			if prev > last {
				continue
			}
			for pat := uint32(0); pat <= 4; pat++ {
				if _, _, ok := s.fpattern(prev, pat); ok {
					out = append(out, ev(kFAppend, off|pat<<2))
				}
			}
		}
	}
	// a commit advance may happen between GetUpdate and Commit: the apply
	// worker's ApplyConfigChange (node.go, under raftMu) can remove a member
	// and thereby advance the commit index while the step worker is saving.
	if s.committed < last {
		out = append(out, ev(kCommit, 0))
		if last > s.committed+1 {
			out = append(out, ev(kCommit, 1))
		}
	}
	if s.open == nil {
		if s.committed+1 <= s.maxIdx {
			if s.committed+1 > last || s.curTerm+1 <= s.maxTerm {
				out = append(out, ev(kRestore, 0))
			}
		}
		if last > s.committed+1 && s.curTerm+1 <= s.maxTerm {
			out = append(out, ev(kRestore, 1))
		}
		if last+2 <= s.maxIdx {
			out = append(out, ev(kRestore, 2))
		}
		for more := uint32(0); more <= 1; more++ {
			for sel := uint32(0); sel <= 2; sel++ {
				if _, ok := s.compactTarget(sel, s.applied); ok {
					out = append(out, ev(kCycle, more|sel<<1))
				}
			}
		}
		if s.split {
			out = append(out, ev(kCBegin, 0), ev(kCBegin, 1))
		}
	} else {
		for sel := uint32(0); sel <= 2; sel++ {
			if _, ok := s.compactTarget(sel, s.open.LastApplied); ok {
				out = append(out, ev(kCEnd, sel<<1))
			}
		}
	}
	if len(s.queue) > 0 {
		out = append(out, ev(kApply, 0))
		if len(s.queue) > 1 {
			out = append(out, ev(kApply, 1))
		}
	}
	return out
}

func (s *c19) truncateTo(i uint64) { s.ents = s.ents[:i-s.snapIndex] }

func (s *c19) begin(more bool) (msg string) {
	ud := pb.Update{ShardID: 1, ReplicaID: 1, LastApplied: s.applied}
	ud.EntriesToSave = append([]pb.Entry{}, s.l.EntriesToSave()...)
	if more {
		ents, err := s.l.EntriesToApply()
		if err != nil {
			return fmt.Sprintf("entriesToApply returned error %v", err)
		}
		ud.CommittedEntries = append([]pb.Entry{}, ents...)
	}
	if ss := s.l.InmemSnapshot(); ss != nil {
		ud.Snapshot = *ss
	}
	ud.State = pb.State{Term: s.curTerm, Commit: s.l.Committed()}
	// ---- oracle on what is handed out
	// entries to save: contiguous suffix of the logical log ending at last
	if n := len(ud.EntriesToSave); n > 0 {
		if ud.EntriesToSave[n-1].Index != s.last() {
			return fmt.Sprintf("entriesToSave ends at %d, logical last %d", ud.EntriesToSave[n-1].Index, s.last())
		}
		for k, e := range ud.EntriesToSave {
			if e.Index != ud.EntriesToSave[0].Index+uint64(k) {
				return "entriesToSave not contiguous"
			}
			if e.Index <= s.snapIndex || e.Term != s.mterm(e.Index) || string(e.Cmd) != string(cmdOf(e.Index, e.Term)) {
				return fmt.Sprintf("entriesToSave holds (%d,%d) not in the logical log (term %d)", e.Index, e.Term, s.mterm(e.Index))
			}
		}
	}
	// exactly the entries not yet acknowledged as persisted, no more
	needFrom := s.acked
	if s.snapIndex > needFrom {
		needFrom = s.snapIndex
	}
	needFrom++
	if n := len(ud.EntriesToSave); n > 0 && ud.EntriesToSave[0].Index < needFrom {
		return fmt.Sprintf("entriesToSave starts at %d although the entries up to %d were already handed out, persisted and acknowledged (they are offered for persistence again)",
			ud.EntriesToSave[0].Index, needFrom-1)
	}
	inSave := func(i, t uint64) bool {
		for _, e := range ud.EntriesToSave {
			if e.Index == i && e.Term == t {
				return true
			}
		}
		return false
	}
	for i := s.snapIndex + 1; i <= s.last(); i++ {
		pt, ok := s.db.Persisted(1, 1, i)
		if (!ok || pt != s.mterm(i)) && !inSave(i, s.mterm(i)) {
			return fmt.Sprintf("entry (%d,%d) is not persisted (persisted term %d,%v) and not offered for save", i, s.mterm(i), pt, ok)
		}
	}
	// entries to apply
	if more {
		first := s.processed + 1
		if first < s.snapIndex+1 {
			first = s.snapIndex + 1
		}
		want := uint64(0)
		if s.committed+1 > first {
			want = s.committed + 1 - first
		}
		if uint64(len(ud.CommittedEntries)) != want {
			return fmt.Sprintf("entriesToApply returned %d entries, want %d (processed %d committed %d)",
				len(ud.CommittedEntries), want, s.processed, s.committed)
		}
		for k, e := range ud.CommittedEntries {
			if e.Index != first+uint64(k) || e.Term != s.mterm(e.Index) || string(e.Cmd) != string(cmdOf(e.Index, e.Term)) {
				return fmt.Sprintf("entriesToApply[%d]=(%d,%d) differs from logical log", k, e.Index, e.Term)
			}
			if e.Index > s.committed {
				return fmt.Sprintf("entry %d handed out for apply but committed is %d", e.Index, s.committed)
			}
			pt, ok := s.db.Persisted(1, 1, e.Index)
			if !(ok && pt == e.Term) && !inSave(e.Index, e.Term) {
				return fmt.Sprintf("entry (%d,%d) handed out for apply before being handed out for persistence", e.Index, e.Term)
			}
		}
	}
	raft.VValidateUpdate(ud)
	ud.UpdateCommit = raft.VGetUpdateCommit(ud)
	s.open = &ud
	return ""
}

func (s *c19) end(sel uint32) string {
	ud := *s.open
	s.open = nil
	if err := s.db.SaveRaftState([]pb.Update{ud}, 1); err != nil {
		panic(err)
	}
	if !pb.IsEmptySnapshot(ud.Snapshot) {
		// node.processSnapshot
		if err := s.lr.ApplySnapshot(ud.Snapshot); err != nil && err != raft.ErrSnapshotOutOfDate && err != raft.ErrCompacted {
			return "ApplySnapshot: " + err.Error()
		}
		s.queue = append(s.queue, qitem{index: ud.Snapshot.Index, snap: true})
	}
	for _, e := range ud.CommittedEntries {
		s.queue = append(s.queue, qitem{index: e.Index})
	}
	// node.processRaftUpdate
	if err := s.lr.Append(ud.EntriesToSave); err != nil {
		return "LogReader.Append: " + err.Error()
	}
	if c, _ := s.compactTarget(sel, ud.LastApplied); c > 0 {
		// node.removeLog
		if err := s.lr.Compact(c); err != nil {
			if err != raft.ErrCompacted {
				return fmt.Sprintf("LogReader.Compact(%d): %v", c, err)
			}
		} else if c > s.snapIndex && s.l.InmemSnapshot() == nil {
			t := s.mterm(c)
			if c <= s.last() {
				s.ents = s.ents[c-s.snapIndex:]
			} else {
				s.ents = nil
			}
			s.snapIndex, s.snapTerm = c, t
		}
		if err := s.db.RemoveEntriesTo(1, 1, c); err != nil {
			panic(err)
		}
	}
	// Peer.Commit
	s.l.CommitUpdate(ud.UpdateCommit)
	if p := ud.UpdateCommit.Processed; p > 0 {
		s.processed = p
	}
	if n := len(ud.EntriesToSave); n > 0 {
		if le := ud.EntriesToSave[n-1]; le.Index <= s.last() && s.mterm(le.Index) == le.Term && le.Index > s.acked {
			s.acked = le.Index
		}
	}
	return ""
}

func (s *c19) Step(e uint32) (msg string) {
	defer func() {
		if r := recover(); r != nil {
			msg = fmt.Sprintf("panic in %s: %v", describe19(e), r)
		}
	}()
	k, a := e>>8, e&0xff
	last := s.last()
	switch k {
	case kLAppend:
		n, bump := uint64(a&3), a>>2
		if bump == 1 {
			s.curTerm++
		}
		var ents []pb.Entry
		for i := last + 1; i <= last+n; i++ {
			ents = append(ents, pb.Entry{Index: i, Term: s.curTerm, Cmd: cmdOf(i, s.curTerm)})
			s.ents = append(s.ents, ment{s.curTerm})
		}
		s.l.Append(ents)
	case kFAppend:
		prev := s.committed + uint64(a&3)
		same, fresh, _ := s.fpattern(prev, a>>2)
		var ents []pb.Entry
		for i := 1; i <= same; i++ {
			ents = append(ents, s.ment(prev+uint64(i)))
		}
		if fresh > 0 {
			s.curTerm++
			for i := 1; i <= fresh; i++ {
				idx := prev + uint64(same+i)
				ents = append(ents, pb.Entry{Index: idx, Term: s.curTerm, Cmd: cmdOf(idx, s.curTerm)})
			}
		}
		// what raft.handleReplicateMessage does
		ok, err := s.l.MatchTerm(prev, s.mterm(prev))
		if err != nil || !ok {
			return fmt.Sprintf("matchTerm(%d,%d) = %v,%v on an entry of the logical log", prev, s.mterm(prev), ok, err)
		}
		changed, err := s.l.TryAppend(prev, ents)
		if err != nil {
			return "tryAppend: " + err.Error()
		}
		if fresh > 0 {
			first := prev + uint64(same) + 1
			if !changed {
				return "tryAppend reported no change for new entries"
			}
			s.truncateTo(first - 1)
			if s.acked > first-1 {
				s.acked = first - 1 // the replaced suffix has to be persisted again
			}
			for i := 0; i < fresh; i++ {
				s.ents = append(s.ents, ment{s.curTerm})
			}
		} else if changed {
			return "tryAppend reported a change for entries already in the log"
		}
	case kCommit:
		to := s.committed + 1
		if a == 1 {
			to = last
		}
		s.l.CommitTo(to)
		s.committed = to
	case kRestore:
		var idx uint64
		switch a {
		case 0:
			idx = s.committed + 1
		case 1:
			idx = last
		case 2:
			idx = last + 2
		}
		if idx <= last {
			s.curTerm++ // a snapshot that matches the log is handled by commitTo, not restore
		}
		ss := pb.Snapshot{Index: idx, Term: s.curTerm, ShardID: 1}
		s.l.Restore(ss)
		s.ents = nil
		s.snapIndex, s.snapTerm = idx, s.curTerm
		s.committed, s.processed = idx, idx
		s.acked = idx
	case kCycle:
		if msg := s.begin(a&1 == 1); msg != "" {
			return msg
		}
		return s.end(a >> 1)
	case kCBegin:
		return s.begin(a&1 == 1)
	case kCEnd:
		return s.end(a >> 1)
	case kApply:
		n := 1
		if a == 1 {
			n = len(s.queue)
		}
		for i := 0; i < n; i++ {
			it := s.queue[0]
			s.queue = s.queue[1:]
			if it.index > s.applied {
				s.applied = it.index
			}
		}
	}
	return ""
}

func (s *c19) Check() (msg string) {
	defer func() {
		if r := recover(); r != nil {
			msg = fmt.Sprintf("panic while querying the log: %v", r)
		}
	}()
	first, last := s.snapIndex+1, s.last()
	if g := s.l.FirstIndex(); g != first {
		return fmt.Sprintf("firstIndex()=%d, logical first %d", g, first)
	}
	if g := s.l.LastIndex(); g != last {
		return fmt.Sprintf("lastIndex()=%d, logical last %d", g, last)
	}
	if s.l.Committed() != s.committed || s.l.Processed() != s.processed {
		return fmt.Sprintf("committed/processed %d/%d, model %d/%d", s.l.Committed(), s.l.Processed(), s.committed, s.processed)
	}
	lo := uint64(0)
	if s.snapIndex > 1 {
		lo = s.snapIndex - 1
	}
	for i := lo; i <= last+1; i++ {
		t, err := s.l.Term(i)
		if err != nil {
			return fmt.Sprintf("term(%d) error %v", i, err)
		}
		want := s.mterm(i)
		if i < s.snapIndex {
			want = 0
		}
		if t != want {
			return fmt.Sprintf("term(%d)=%d, logical %d", i, t, want)
		}
	}
	for a := first; a <= last+1; a++ {
		for b := a + 1; b <= last+1; b++ {
			for _, lim := range []uint64{^uint64(0), 0, 60} {
				ents, err := s.l.GetEntries(a, b, lim)
				if err != nil {
					return fmt.Sprintf("getEntries(%d,%d,%d) error %v", a, b, lim, err)
				}
				if lim == ^uint64(0) && uint64(len(ents)) != b-a {
					return fmt.Sprintf("getEntries(%d,%d) returned %d entries", a, b, len(ents))
				}
				if b > a && len(ents) == 0 {
					return fmt.Sprintf("getEntries(%d,%d,%d) returned nothing", a, b, lim)
				}
				if uint64(len(ents)) > b-a {
					return fmt.Sprintf("getEntries(%d,%d,%d) returned too many entries", a, b, lim)
				}
				for k, e := range ents {
					i := a + uint64(k)
					if e.Index != i || e.Term != s.mterm(i) || string(e.Cmd) != string(cmdOf(i, s.mterm(i))) {
						return fmt.Sprintf("getEntries(%d,%d,%d)[%d]=(%d,%d,%v), logical (%d,%d)", a, b, lim, k, e.Index, e.Term, e.Cmd, i, s.mterm(i))
					}
				}
			}
		}
	}
	// entries that still have to be persisted
	save := s.l.EntriesToSave()
	for i := first; i <= last; i++ {
		pt, ok := s.db.Persisted(1, 1, i)
		if ok && pt == s.mterm(i) {
			continue
		}
		found := false
		for _, e := range save {
			if e.Index == i && e.Term == s.mterm(i) {
				found = true
			}
		}
		if !found {
			return fmt.Sprintf("entry (%d,%d) neither persisted nor in entriesToSave", i, s.mterm(i))
		}
	}
	for _, e := range save {
		if e.Index < first || e.Index > last || e.Term != s.mterm(e.Index) {
			return fmt.Sprintf("entriesToSave holds stale entry (%d,%d)", e.Index, e.Term)
		}
	}
	return ""
}

func (s *c19) Canon() []byte {
	c := &verifkit.CanonBuf{}
	c.U(s.snapIndex, s.snapTerm, s.committed, s.processed, s.curTerm, s.applied, s.acked, uint64(len(s.ents)))
	for _, e := range s.ents {
		c.U(e.term)
	}
	c.Sep('q').U(uint64(len(s.queue)))
	for _, q := range s.queue {
		c.U(q.index).Bool(q.snap)
	}
	marker, savedTo, n, free, appliedTo, shrunk := s.l.InmemShape()
	c.Sep('i').U(marker, savedTo, n, free, appliedTo).Bool(shrunk).Bool(s.l.InmemSnapshot() != nil)
	f, l := s.lr.GetRange()
	c.Sep('r').U(f, l)
	c.Sep('d').U(s.db.MaxIndex(1, 1))
	// only entries the LogReader can still reach (above its marker) are state:
	// the in-memory store keeps stale entries at or below a later snapshot
	// index, which no read can return any more
	for i := f; i <= s.maxIdx+2; i++ {
		t, ok := s.db.Persisted(1, 1, i)
		c.U(t).Bool(ok)
	}
	c.Sep('o').Bool(s.open != nil)
	if s.open != nil {
		ud := s.open
		c.U(ud.LastApplied, ud.Snapshot.Index, ud.UpdateCommit.Processed, ud.UpdateCommit.StableLogTo,
			ud.UpdateCommit.StableLogTerm, uint64(len(ud.EntriesToSave)), uint64(len(ud.CommittedEntries)))
		for _, e := range ud.EntriesToSave {
			c.U(e.Index, e.Term)
		}
		if len(ud.CommittedEntries) > 0 {
			c.U(ud.CommittedEntries[0].Index)
		}
	}
	return c.B
}

type c19Replay struct {
	Path    []uint32 `json:"path"`
	MaxIdx  uint64   `json:"max_idx"`
	MaxTerm uint64   `json:"max_term"`
	Split   bool     `json:"split"`
}

func TestVerifC19(t *testing.T) {
	logger.GetLogger("raft").SetLevel(logger.CRITICAL)
	logger.GetLogger("logdb").SetLevel(logger.CRITICAL)
	raft.VSetSliceSizes(4, 1)
	run := verifkit.Env()
	res := verifkit.NewResult()
	defer run.Finish(res)
	type cfgT struct {
		maxIdx, maxTerm uint64
		split           bool
	}
	var rp struct {
		Path []uint32 `json:"path"`
		Cfg  int      `json:"cfg"`
	}
	cfgs := []cfgT{{6, 3, false}, {6, 3, true}}
	if run.Thorough() {
		cfgs = []cfgT{{7, 4, false}, {7, 4, true}}
	}
	res.Rule = "BFS with state dedup to fixpoint over op sequences {leaderAppend, followerAppend(conflict anywhere), commitTo, restore, update cycle (atomic, and split with commit advances and apply progress in between) with apply lag and LogReader compaction, apply} on the real entryLog/inMemory/LogReader, indexes and terms bounded; evaluation = one transition executed and checked against the slice model; distinct_nontrivial = distinct (model,implementation) states reached"
	res.Assumptions = []string{
		"in-memory ILogDB below the real LogReader is harness code (its contract is what C09 checks on the real stores)",
		"entry slice sizes shrunk to 4/1 so the resize paths trigger",
		"terms are monotone along the log and a conflicting append never touches committed entries (guaranteed by the raft protocol, C02)",
	}
	if run.Replay != "" {
		run.LoadReplay(&rp)
		c := cfgs[rp.Cfg]
		newInst := func() verifkit.Instance { return newC19(c.maxIdx, c.maxTerm, c.split) }
		inst := newInst()
		for i, e := range rp.Path {
			msg := inst.Step(e)
			if msg == "" {
				msg = inst.Check()
			}
			if msg != "" {
				res.Violate(keyOf19(msg), msg, map[string]interface{}{"path": rp.Path[:i+1], "cfg": rp.Cfg})
				break
			}
		}
		res.Evaluations = int64(len(rp.Path))
		return
	}
	for ci, c := range cfgs {
		if ci%run.Shards != run.Shard {
			continue
		}
		c := c
		ci := ci
		sub := verifkit.NewResult()
		st := verifkit.BFS(verifkit.BFSConfig{
			New:      func() verifkit.Instance { return newC19(c.maxIdx, c.maxTerm, c.split) },
			Describe: describe19, MaxDepth: 0, MaxStates: run.Pick(3000000, 30000000), Workers: 8, Run: run, Res: sub,
			KeyOf: keyOf19,
			OnState: func(inst verifkit.Instance, path []uint32) {
				if len(path) == 7 {
					res.Sample(3, verifkit.PathString(path, describe19))
				}
			},
		})
		for _, v := range sub.Violations {
			m := v.Replay.(map[string]interface{})
			m["cfg"] = ci
			res.Violate(v.Key, v.Desc, m)
		}
		if !sub.Exhaustive {
			res.Cap(sub.Capped)
		}
		res.States += st.States
		res.Transitions += st.Transitions
		res.Evaluations += st.Transitions
		res.DistinctNontrivial += st.States
		res.Extra[fmt.Sprintf("cfg%d", ci)] = fmt.Sprintf("maxIdx=%d maxTerm=%d split=%v states=%d transitions=%d depth=%d fixpoint=%v",
			c.maxIdx, c.maxTerm, c.split, st.States, st.Transitions, st.Depth, st.Fixpoint)
		res.Extra["max_depth"] = st.Depth
	}
}

func keyOf19(msg string) string {
	// key = message with digits removed: identifies the failing oracle clause
	out := make([]byte, 0, len(msg))
	for i := 0; i < len(msg) && len(out) < 80; i++ {
		if msg[i] >= '0' && msg[i] <= '9' {
			continue
		}
		out = append(out, msg[i])
	}
	return "C19:" + string(out)
}

// TestVerifC19Congruence is a development aid: it explores a small
// configuration sequentially and reports pairs of states that have the same
// canonical key but differ in a deep (reflection) dump of the real objects,
// i.e. state the canonical form does not capture.
func TestVerifC19Congruence(t *testing.T) {
	if os.Getenv("VERIF_CONGRUENCE") == "" {
		t.Skip("development aid")
	}
	skip := map[string]bool{"LogReader.Mutex": true, "LogReader.logdb": true, "LogReader.compactor": true, "entryLog.logdb": true,
		"inMemory.rl": true, "DB.mu": true, "DB.Saves": true, "DB.Hook": true, "LogReader.state": true, "node.state": true, "node.hasState": true, "node.entries": true}
	deep := func(s *c19) string {
		c := &verifkit.CanonBuf{}
		verifkit.ReflectCanon(c, s.l, skip)
		c.Sep('|')
		verifkit.ReflectCanon(c, s.lr, skip)
		c.Sep('|')
		verifkit.ReflectCanon(c, s.db, skip)
		return string(c.B)
	}
	type rep struct {
		path []uint32
		deep string
	}
	var split bool
	succ := func(p []uint32) string {
		base, _ := verifkit.Replay(func() verifkit.Instance { return newC19(4, 3, split) }, p)
		out := ""
		for _, e := range base.Enabled() {
			inst, _ := verifkit.Replay(func() verifkit.Instance { return newC19(4, 3, split) }, p)
			if m := inst.Step(e); m != "" {
				out += fmt.Sprintf("%s:FAIL(%s);", describe19(e), m)
				continue
			}
			if m := inst.Check(); m != "" {
				out += fmt.Sprintf("%s:CHECK(%s);", describe19(e), m)
				continue
			}
			out += fmt.Sprintf("%s:%x;", describe19(e), verifkit.Hash64(string(inst.Canon())))
		}
		return out
	}
	seen := map[string]*rep{}
	root := newC19(4, 3, os.Getenv("VERIF_CONGRUENCE") == "split")
	split = root.split
	seen[string(root.Canon())] = &rep{nil, deep(root)}
	frontier := [][]uint32{nil}
	reported := 0
	for len(frontier) > 0 && reported < 3 {
		var next [][]uint32
		for _, p := range frontier {
			base, _ := verifkit.Replay(func() verifkit.Instance { return newC19(4, 3, root.split) }, p)
			for _, e := range base.Enabled() {
				inst, _ := verifkit.Replay(func() verifkit.Instance { return newC19(4, 3, root.split) }, p)
				if inst.Step(e) != "" {
					continue
				}
				s := inst.(*c19)
				k, d := string(s.Canon()), deep(s)
				np := append(append([]uint32{}, p...), e)
				if r, ok := seen[k]; ok {
					if r.deep != d && reported < 3 && succ(r.path) != succ(np) {
						reported++
						fmt.Printf("SAME KEY, DIFFERENT DEEP STATE\n A: %v\n B: %v\n", verifkit.PathString(r.path, describe19), verifkit.PathString(np, describe19))
						a, b := r.deep, d
						i := 0
						for i < len(a) && i < len(b) && a[i] == b[i] {
							i++
						}
						lo := i - 60
						if lo < 0 {
							lo = 0
						}
						fmt.Printf(" first difference at byte %d\n  A: %q\n  B: %q\n succ A: %s\n succ B: %s\n", i, a[lo:min(len(a), i+60)], b[lo:min(len(b), i+60)], succ(r.path), succ(np))
					}
					continue
				}
				seen[k] = &rep{np, d}
				next = append(next, np)
			}
		}
		frontier = next
	}
	fmt.Printf("congruence probe: %d states, %d differing pairs reported\n", len(seen), reported)
}

func TestVerifC19Diff(t *testing.T) {
	if os.Getenv("VERIF_CONGRUENCE") == "" {
		t.Skip("development aid")
	}
	mk := func(evs []uint32) *c19 {
		s := newC19(4, 3, false)
		for _, e := range evs {
			if m := s.Step(e); m != "" {
				panic(m)
			}
		}
		return s
	}
	find := func(s *c19, name string) uint32 {
		for _, e := range s.Enabled() {
			if describe19(e) == name {
				return e
			}
		}
		panic("not enabled: " + name)
	}
	run := func(names []string) *c19 {
		var evs []uint32
		for _, n := range names {
			s := mk(evs)
			evs = append(evs, find(s, n))
		}
		return mk(evs)
	}
	a := run([]string{"leaderAppend(n=1,bumpTerm=0)", "leaderAppend(n=1,bumpTerm=1)", "cycle(moreToApply=0,compact=none)", "restore(committed+1)", "cycle(moreToApply=0,compact=none)", "restore(committed+1)", "cycle(moreToApply=0,compact=none)"})
	b := run([]string{"leaderAppend(n=1,bumpTerm=0)", "cycle(moreToApply=0,compact=none)", "restore(committed+1)", "cycle(moreToApply=0,compact=none)", "leaderAppend(n=1,bumpTerm=0)", "restore(committed+1)", "cycle(moreToApply=0,compact=none)"})
	fmt.Printf("A %x\nB %x\n", a.Canon(), b.Canon())
	fmt.Printf("A model snap=%d/%d ents=%v committed=%d processed=%d applied=%d queue=%v\n", a.snapIndex, a.snapTerm, a.ents, a.committed, a.processed, a.applied, a.queue)
	fmt.Printf("B model snap=%d/%d ents=%v committed=%d processed=%d applied=%d queue=%v\n", b.snapIndex, b.snapTerm, b.ents, b.committed, b.processed, b.applied, b.queue)
}
