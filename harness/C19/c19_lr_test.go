//go:build verif

// C19 part `lr`: the LogReader under concurrent use, on the schedx engine (E5).
//
// logreader.go is compiled from a copy whose "sync" import points to the vsync
// shim. Threads: the step worker (SaveRaftState + LogReader.Append, snapshot
// restore, LogReader.Compact + RemoveEntriesTo - the call sequences of
// node.processRaftUpdate / processSnapshot / removeLog), the snapshot worker
// (CreateSnapshot, as snapshotter.Commit does) and a reader (raft reads its log
// through Entries / Term / GetRange; NodeHost.GetLogReader hands the same
// object to user threads). Every schedule with <= k preemptions is executed.
//
// Oracle: linearizability against the LogReader itself run sequentially: there
// must be a total order of the operations, consistent with each thread's
// program order and with the observed call/return order, in which a fresh
// LogReader over a fresh store gives every operation the result it had in the
// execution. An answer that matches neither the log before nor after a
// concurrent compaction / append has no such order.
package logdb

import (
	"fmt"
	"os"
	"runtime"
	"strings"
	"testing"

	"github.com/lni/dragonboat/v4/internal/verifkit"
	"github.com/lni/dragonboat/v4/internal/verifkit/memlogdb"
	"github.com/lni/dragonboat/v4/internal/verifkit/vsched"
	"github.com/lni/dragonboat/v4/logger"
	pb "github.com/lni/dragonboat/v4/raftpb"
)

type lrOp struct {
	Kind   string `json:"k"` // save append compact remove restore create entries term range
	A      uint64 `json:"a,omitempty"`
	B      uint64 `json:"b,omitempty"`
	T      uint64 `json:"t,omitempty"`
	thread int
	call   int
	ret    int
	result string
}

type lrScenario struct {
	Name    string   `json:"name"`
	Threads [][]lrOp `json:"threads"`
}

type lrCompactor struct{}

func (lrCompactor) Compact(uint64) error { return nil }

type lrWorld struct {
	db *memlogdb.DB
	lr *LogReader
}

// initial content: entries 1..5 of term 1, all persisted and known to the reader
func newLrWorld() *lrWorld {
	db := memlogdb.New()
	lr := NewLogReader(1, 1, db)
	lr.SetCompactor(lrCompactor{})
	w := &lrWorld{db: db, lr: lr}
	ents := lrEnts(1, 5, 1)
	if err := db.SaveRaftState([]pb.Update{{ShardID: 1, ReplicaID: 1, EntriesToSave: ents, State: pb.State{Term: 1, Commit: 5}}}, 1); err != nil {
		panic(err)
	}
	if err := lr.Append(ents); err != nil {
		panic(err)
	}
	return w
}

func lrEnts(from, to, term uint64) []pb.Entry {
	var out []pb.Entry
	for i := from; i <= to; i++ {
		out = append(out, pb.Entry{Index: i, Term: term, Cmd: []byte{byte(i), byte(term)}})
	}
	return out
}

func (w *lrWorld) do(op *lrOp) string {
	switch op.Kind {
	case "save": // logdb.SaveRaftState of entries [A,B] of term T
		err := w.db.SaveRaftState([]pb.Update{{ShardID: 1, ReplicaID: 1, EntriesToSave: lrEnts(op.A, op.B, op.T), State: pb.State{Term: op.T, Commit: op.A - 1}}}, 1)
		return fmt.Sprint(err)
	case "append":
		return fmt.Sprint(w.lr.Append(lrEnts(op.A, op.B, op.T)))
	case "compact":
		return fmt.Sprint(w.lr.Compact(op.A))
	case "remove":
		return fmt.Sprint(w.db.RemoveEntriesTo(1, 1, op.A))
	case "restore": // node.processSnapshot: a snapshot at index A, term T replaces the log
		return fmt.Sprint(w.lr.ApplySnapshot(pb.Snapshot{Index: op.A, Term: op.T, ShardID: 1}))
	case "create": // snapshotter.Commit: a snapshot taken at index A (term T) is recorded
		return fmt.Sprint(w.lr.CreateSnapshot(pb.Snapshot{Index: op.A, Term: op.T, ShardID: 1}))
	case "entries":
		ents, err := w.lr.Entries(op.A, op.B, 1<<40)
		var sb strings.Builder
		for _, e := range ents {
			fmt.Fprintf(&sb, "%d.%d ", e.Index, e.Term)
		}
		return fmt.Sprintf("[%s] %v", sb.String(), err)
	case "term":
		t, err := w.lr.Term(op.A)
		return fmt.Sprintf("%d %v", t, err)
	case "range":
		f, l := w.lr.GetRange()
		return fmt.Sprintf("%d+%d", f, l)
	case "snapshot":
		ss := w.lr.Snapshot()
		return fmt.Sprintf("ss=%d.%d", ss.Index, ss.Term)
	}
	panic("unknown op " + op.Kind)
}

func lrScenarios() []lrScenario {
	step := func(ops ...lrOp) []lrOp { return ops }
	o := func(k string, a, b, t uint64) lrOp { return lrOp{Kind: k, A: a, B: b, T: t} }
	return []lrScenario{
		{Name: "compact-vs-reads", Threads: [][]lrOp{
			step(o("compact", 3, 0, 0), o("remove", 3, 0, 0)),
			step(o("entries", 2, 6, 0), o("term", 3, 0, 0), o("range", 0, 0, 0)),
		}},
		{Name: "append-compact-vs-reads", Threads: [][]lrOp{
			step(o("save", 6, 7, 1), o("append", 6, 7, 1), o("compact", 4, 0, 0), o("remove", 4, 0, 0)),
			step(o("entries", 4, 8, 0), o("entries", 2, 5, 0)),
		}},
		{Name: "overwrite-vs-reads", Threads: [][]lrOp{
			step(o("save", 4, 4, 2), o("append", 4, 4, 2)),
			step(o("entries", 3, 6, 0), o("term", 4, 0, 0), o("term", 5, 0, 0)),
		}},
		{Name: "restore-vs-reads", Threads: [][]lrOp{
			step(o("restore", 8, 0, 2), o("remove", 8, 0, 0)),
			step(o("entries", 3, 6, 0), o("range", 0, 0, 0), o("term", 8, 0, 0)),
		}},
		{Name: "snapshot-worker", Threads: [][]lrOp{
			step(o("compact", 2, 0, 0), o("remove", 2, 0, 0), o("save", 6, 6, 1), o("append", 6, 6, 1)),
			step(o("create", 4, 0, 1)),
			step(o("range", 0, 0, 0), o("snapshot", 0, 0, 0), o("entries", 3, 7, 0)),
		}},
		{Name: "two-readers-compact", Threads: [][]lrOp{
			step(o("compact", 4, 0, 0), o("remove", 4, 0, 0)),
			step(o("entries", 1, 6, 0), o("term", 2, 0, 0)),
			step(o("term", 4, 0, 0), o("entries", 5, 6, 0)),
		}},
	}
}

// linearizable: is there a total order consistent with program order and the
// observed real-time order in which the sequential LogReader reproduces every
// result?
func lrLinearizable(ops []*lrOp) (bool, int) {
	n := len(ops)
	used := make([]bool, n)
	order := make([]int, 0, n)
	tried := 0
	var rec func() bool
	rec = func() bool {
		if len(order) == n {
			tried++
			w := newLrWorld()
			for _, i := range order {
				cp := *ops[i]
				if w.do(&cp) != ops[i].result {
					return false
				}
			}
			return true
		}
		for i := 0; i < n; i++ {
			if used[i] {
				continue
			}
			// i may come next only if no unused op returned before i was called
			ok := true
			for j := 0; j < n; j++ {
				if j != i && !used[j] && ops[j].ret < ops[i].call {
					ok = false
					break
				}
			}
			if !ok {
				continue
			}
			used[i] = true
			order = append(order, i)
			if rec() {
				return true
			}
			order = order[:len(order)-1]
			used[i] = false
		}
		return false
	}
	return rec(), tried
}

type lrRun struct {
	ops []*lrOp
}

func lrSetup(sc *lrScenario, rp **lrRun) func(r *vsched.Run) {
	return func(r *vsched.Run) {
		w := newLrWorld()
		run := &lrRun{}
		*rp = run
		for ti, prog := range sc.Threads {
			ti, prog := ti, prog
			var mine []*lrOp
			for i := range prog {
				op := prog[i]
				op.thread = ti
				mine = append(mine, &op)
				run.ops = append(run.ops, &op)
			}
			r.Go(fmt.Sprintf("t%d", ti), func() {
				for _, op := range mine {
					vsched.Yield()
					op.call = r.Seq()
					op.result = w.do(op)
					op.ret = r.Seq()
				}
			})
		}
	}
}

type lrReplay struct {
	Scenario lrScenario `json:"scenario"`
	Choices  []int      `json:"choices"`
	Schedule string     `json:"schedule"`
	Part     string     `json:"part"`
}

const lrHorizon = 400

func lrJudge(o *vsched.Outcome, run *lrRun) (map[string]string, string) {
	finds := map[string]string{}
	switch o.Status {
	case vsched.Panicked:
		finds["lr/panic"] = "a thread panicked: " + o.Msg
		return finds, "panic"
	case vsched.Deadlock:
		finds["lr/deadlock"] = "deadlock: " + o.Msg
		return finds, "deadlock"
	case vsched.Livelock:
		finds["lr/livelock"] = "livelock: " + o.Msg
		return finds, "livelock"
	}
	var desc []string
	for _, op := range run.ops {
		desc = append(desc, fmt.Sprintf("t%d:%s(%d,%d)=%s", op.thread, op.Kind, op.A, op.B, op.result))
	}
	cls := strings.Join(desc, " | ")
	if ok, _ := lrLinearizable(run.ops); !ok {
		finds["lr/not-linearizable"] = "no sequential order of the operations explains the answers of the LogReader: " + cls
	}
	return finds, cls
}

func TestVerifC19LR(t *testing.T) {
	run := verifkit.Env()
	res := verifkit.NewResult()
	defer func() {
		if rec := recover(); rec != nil {
			panic(rec)
		}
		run.Finish(res)
	}()
	runtime.GOMAXPROCS(1)
	for _, n := range []string{"logdb", "raft", "dragonboat"} {
		logger.GetLogger(n).SetLevel(logger.CRITICAL)
	}
	bound := run.Pick(3, 4)
	res.Rule = fmt.Sprintf("case = one complete schedule (<= %d preemptions) of 2-3 threads operating on one real LogReader over the in-memory log store; every such schedule of every scenario is executed and its answers are checked for linearizability against the LogReader run sequentially (brute force over all admissible total orders); non-trivial = the schedule has a preemption", bound)
	res.Assumptions = []string{
		"schedx: scheduling points at the sync operations of logreader.go, before every operation of the log store and between harness operations; each store operation itself is atomic",
		"the log store is the in-memory model (the real stores are C09/C10); payload sizes never reach the size limit of a range read",
	}
	var rp lrReplay
	if run.LoadReplay(&rp) {
		sc := rp.Scenario
		var lrun *lrRun
		o := vsched.Replay(lrHorizon, lrSetup(&sc, &lrun), rp.Choices, nil)
		finds, _ := lrJudge(o, lrun)
		for k, d := range finds {
			res.Violate(k, d+" | scenario: "+sc.Name+" | schedule: "+o.Schedule(), rp)
		}
		res.Evaluations = 1
		return
	}
	scs := lrScenarios()
	var tot vsched.Stats
	seenCls := map[string]bool{}
	for si := range scs {
		sc := &scs[si]
		if si%run.Shards != run.Shard {
			continue
		}
		if f := os.Getenv("VERIF_SCENARIO"); f != "" && !strings.Contains(sc.Name, f) {
			continue
		}
		var lrun *lrRun
		st := vsched.Explore(vsched.Config{Bound: bound, Horizon: lrHorizon, VerifyEvery: 211, Expired: run.Expired},
			lrSetup(sc, &lrun), func(o *vsched.Outcome) bool {
				finds, cls := lrJudge(o, lrun)
				if !seenCls[sc.Name+cls] {
					if os.Getenv("VERIF_LR_DEBUG") != "" {
						fmt.Println("CLASS", sc.Name, cls)
					}
					seenCls[sc.Name+cls] = true
					res.Outcome(sc.Name)
				}
				if o.Preemptions > 0 {
					res.DistinctNontrivial++
				}
				for k, d := range finds {
					res.Violate(k, d+" | scenario: "+sc.Name+fmt.Sprintf(" | %d preemption(s), schedule: %s", o.Preemptions, o.Schedule()),
						lrReplay{Scenario: *sc, Choices: append([]int(nil), o.Choices...), Schedule: o.Schedule(), Part: "lr"})
				}
				return len(finds) > 0
			})
		tot.Executions += st.Executions
		tot.Verified += st.Verified
		if st.MaxPoints > tot.MaxPoints {
			tot.MaxPoints = st.MaxPoints
		}
		res.Extra["lr_executions:"+sc.Name] = st.Executions
		res.Sample(2, map[string]interface{}{"scenario": sc.Name, "schedules": st.Executions, "threads": sc.Threads})
		if st.Capped {
			res.Cap("deadline reached inside scenario " + sc.Name)
			break
		}
	}
	res.Evaluations = tot.Executions
	res.Extra["lr_executions"] = tot.Executions
	res.Extra["lr_replay_verified"] = tot.Verified
	res.Extra["lr_max_points"] = tot.MaxPoints
	res.Extra["lr_preemption_bound"] = bound
	res.Extra["lr_distinct_answer_vectors"] = len(seenCls)
}
