//go:build verif

// C13 (entry payload encoding part): GetPayload(GetEncoded(ct, p)) == p for
// every compression type, every boundary length, every content class and every
// class of caller supplied destination buffer; the encoded payload survives the
// Entry codec; the size limit arithmetic of GetMaxBlockSize / MaxEncodedLen is
// exact at its boundary.
package rsm

import (
	"bytes"
	"fmt"
	"hash/fnv"
	"math"
	"testing"

	"github.com/golang/snappy"

	"github.com/lni/dragonboat/v4/config"
	"github.com/lni/dragonboat/v4/internal/utils/dio"
	"github.com/lni/dragonboat/v4/internal/verifkit"
	"github.com/lni/dragonboat/v4/logger"
	pb "github.com/lni/dragonboat/v4/raftpb"
)

type c13EncCase struct {
	CT      int32
	Len     int
	Content int
	Dst     int
}

var c13Contents = []string{"zeros", "ones", "ramp", "incompressible", "half-random-half-zero", "period7"}
var c13Dsts = []string{"nil", "len1", "needed-1", "exactly-needed", "needed+100-dirty"}

func c13Payload(n int, content int) []byte {
	b := make([]byte, n)
	switch content {
	case 0:
	case 1:
		for i := range b {
			b[i] = 0xff
		}
	case 2:
		for i := range b {
			b[i] = byte(i)
		}
	case 3, 4:
		// deterministic xorshift stream (a content class, not a sample)
		x := uint64(0x9E3779B97F4A7C15)
		lim := n
		if content == 4 {
			lim = n / 2
		}
		for i := 0; i < lim; i++ {
			x ^= x << 13
			x ^= x >> 7
			x ^= x << 17
			b[i] = byte(x >> 32)
		}
	case 5:
		for i := range b {
			b[i] = "dragon!"[i%7]
		}
	}
	return b
}

func c13Needed(ct dio.CompressionType, n int) int {
	if ct == dio.Snappy {
		m, ok := dio.MaxEncodedLen(dio.Snappy, uint64(n))
		if !ok {
			panic("MaxEncodedLen")
		}
		return int(m) + 1
	}
	return n + 1
}

func c13EncCheck(c c13EncCase) string {
	ct := dio.CompressionType(c.CT)
	cmd := c13Payload(c.Len, c.Content)
	orig := append([]byte(nil), cmd...)
	need := c13Needed(ct, c.Len)
	var dst []byte
	switch c.Dst {
	case 0:
	case 1:
		dst = []byte{0xA5}
	case 2:
		dst = bytes.Repeat([]byte{0xA5}, need-1)
	case 3:
		dst = bytes.Repeat([]byte{0xA5}, need)
	case 4:
		dst = bytes.Repeat([]byte{0xA5}, need+100)
	}
	var enc []byte
	if msg := verifkit.Catch(func() { enc = GetEncoded(ct, cmd, dst) }); msg != "" {
		return "getencoded-panic: " + msg
	}
	if !bytes.Equal(cmd, orig) {
		return "input-mutated: GetEncoded changed the caller's payload"
	}
	if len(enc) > need {
		return fmt.Sprintf("encoded-too-long: %d > advertised %d", len(enc), need)
	}
	if ct == dio.NoCompression && len(enc) != len(cmd)+1 {
		return fmt.Sprintf("encoded-length: %d != len+1", len(enc))
	}
	ver, cf, ses := parseEncodedHeader(enc)
	wantCF := EENoCompression
	if ct == dio.Snappy {
		wantCF = EESnappy
	}
	if ver != EEV0 || cf != wantCF || ses {
		return fmt.Sprintf("header: ver=%d cf=%d session=%v", ver, cf, ses)
	}
	e := pb.Entry{Type: pb.EncodedEntry, Index: 1 << 49, Term: 3, Key: math.MaxUint64, ClientID: 7, SeriesID: 1, Cmd: enc}
	var got []byte
	var err error
	if msg := verifkit.Catch(func() { got, err = GetPayload(e) }); msg != "" {
		return "getpayload-panic: " + msg
	}
	if err != nil {
		return "getpayload-error: " + err.Error()
	}
	if !bytes.Equal(got, orig) {
		return fmt.Sprintf("payload-mismatch: got %d bytes, want %d", len(got), len(orig))
	}
	// through the Entry codec, as on the wire / in the log
	data, err := e.Marshal()
	if err != nil {
		return "entry-marshal-error: " + err.Error()
	}
	var e2 pb.Entry
	if err := e2.Unmarshal(data); err != nil {
		return "entry-unmarshal-error: " + err.Error()
	}
	if msg := verifkit.Catch(func() { got, err = GetPayload(e2) }); msg != "" {
		return "getpayload-panic: after entry codec: " + msg
	}
	if err != nil || !bytes.Equal(got, orig) {
		return "payload-mismatch: after the Entry codec"
	}
	return ""
}

func c13Key(cl string) string {
	for i := 0; i < len(cl); i++ {
		if cl[i] == ':' {
			return cl[:i]
		}
	}
	return cl
}

func TestVerifC13Encoded(t *testing.T) {
	run := verifkit.Env()
	res := verifkit.NewResult()
	defer run.Finish(res)
	logger.GetLogger("rsm").SetLevel(logger.CRITICAL)
	lens := []int{1, 2, 3, 127, 128, 129, 16383, 16384, 65535, 65536, 65537, 1 << 20, 2*1024*1024 + 1}
	if run.Thorough() {
		lens = append(lens, 1<<24-1, 1<<24, 64*1024*1024)
	}
	cts := []dio.CompressionType{dio.NoCompression, dio.Snappy}
	if len(pb.CompressionType_name) != len(cts) {
		t.Fatalf("new compression type: extend the harness")
	}
	res.Rule = fmt.Sprintf("rsm.GetEncoded/GetPayload: compression types {none,snappy} x payload lengths %v x content classes %v x "+
		"caller buffer classes %v, plus the empty-payload ApplicationEntry path and the limit arithmetic at GetMaxBlockSize-1/+0/+1; "+
		"distinct = distinct (compression type, payload bytes) by hash; every payload is non-empty hence non-trivial", lens, c13Contents, c13Dsts)
	res.Assumptions = append(res.Assumptions,
		"payloads of the maximum block length itself (3.68 GB for snappy) are not materialised; the limit is checked arithmetically against the snappy library",
		"empty payloads are never passed to GetEncoded (it panics by contract); they travel as ApplicationEntry with an empty Cmd")

	if run.Replay != "" {
		var c c13EncCase
		run.LoadReplay(&c)
		if c.Len < 0 {
			if cl := c13EncLimits(); cl != "" {
				res.Violate("encoded/"+c13Key(cl), cl, c)
			}
		} else if cl := c13EncCheck(c); cl != "" {
			res.Violate("encoded/"+c13Key(cl), cl, c)
		}
		res.Evaluations = 1
		return
	}
	seen := map[uint64]bool{}
	stop := false
	for _, ct := range cts {
		for _, n := range lens {
			for ci := range c13Contents {
				if run.Expired() {
					res.Cap("deadline")
					stop = true
				}
				if stop {
					break
				}
				h := fnv.New64a()
				h.Write([]byte{byte(ct)})
				h.Write(c13Payload(n, ci))
				if !seen[h.Sum64()] {
					seen[h.Sum64()] = true
					res.DistinctNontrivial++
				}
				for di := range c13Dsts {
					c := c13EncCase{int32(ct), n, ci, di}
					cl := c13EncCheck(c)
					res.Evaluations++
					if cl != "" {
						res.Outcome("violation:" + c13Key(cl))
						if res.Violate("encoded/"+c13Key(cl), fmt.Sprintf("%s; ct=%v len=%d content=%s dst=%s", cl, ct, n, c13Contents[ci], c13Dsts[di]), c) {
							stop = true
						}
					} else {
						res.Outcome(fmt.Sprintf("ok:%v", ct))
					}
				}
			}
		}
	}
	res.Sample(2, fmt.Sprintf("ct=snappy len=%d content=incompressible dst=needed-1", lens[len(lens)-1]))
	// empty payload: ApplicationEntry / ConfigChangeEntry return Cmd itself
	for _, ty := range []pb.EntryType{pb.ApplicationEntry, pb.ConfigChangeEntry} {
		for _, cmd := range [][]byte{nil, {}, {1, 2, 3}} {
			got, err := GetPayload(pb.Entry{Type: ty, Cmd: cmd})
			res.Evaluations++
			if err != nil || !bytes.Equal(got, cmd) {
				res.Violate("encoded/plain-payload", fmt.Sprintf("GetPayload of %v entry changed the payload", ty), c13EncCase{Len: 0})
			}
			res.Outcome("ok:plain")
		}
	}
	if cl := c13EncLimits(); cl != "" {
		res.Violate("encoded/"+c13Key(cl), cl, c13EncCase{Len: -1})
	}
	res.Evaluations += 6
	res.Sample(3, "limit arithmetic at GetMaxBlockSize(snappy)-1, +0, +1, 2^32-1, 2^32, 2^64-1")
}

// c13EncLimits: the advertised maximum block size is accepted by the encoder's
// own bound computation and everything above it is refused, in agreement with
// the snappy library.
func c13EncLimits() string {
	m := GetMaxBlockSize(config.Snappy)
	if GetMaxBlockSize(config.NoCompression) != math.MaxUint64 {
		return "limit: no-compression limit is not unbounded"
	}
	for _, n := range []uint64{m - 1, m, m + 1, math.MaxUint32, math.MaxUint32 + 1, math.MaxUint64} {
		sz, ok := dio.MaxEncodedLen(dio.Snappy, n)
		lib := -1
		if n <= math.MaxInt64 {
			lib = snappy.MaxEncodedLen(int(n))
		}
		if ok != (n <= m) {
			return fmt.Sprintf("limit: MaxEncodedLen(%d) ok=%v but GetMaxBlockSize=%d", n, ok, m)
		}
		if ok != (lib >= 0) {
			return fmt.Sprintf("limit: MaxEncodedLen(%d) ok=%v but snappy says %d", n, ok, lib)
		}
		if ok && (sz != uint64(lib) || sz+1 > math.MaxUint32+1) {
			return fmt.Sprintf("limit: MaxEncodedLen(%d)=%d snappy=%d", n, sz, lib)
		}
	}
	return ""
}
