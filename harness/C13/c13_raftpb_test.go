//go:build verif

// C13 (raftpb part): every persisted / wire value round-trips through its
// codec, the encoding is exactly Size() bytes, never longer than
// SizeUpperLimit() where the type advertises one, and MarshalTo never touches a
// byte beyond the advertised size.
//
// Exhaustive input enumeration (no sampling):
//   - TestVerifC13Entry: the FULL cartesian product of the boundary alphabet
//     over the 7 integer fields, the type and the payload of raftpb.Entry (the
//     hand written colfer codec), sharded over the workers.
//   - TestVerifC13Types: for every other raftpb type (and client.Session) every
//     leaf field swept over its full alphabet against the three uniform
//     backgrounds {min, mid, max} of all other leaves, plus all pairs of leaves
//     over a 4-value boundary subset on each background. Nested values are
//     drawn from the per-type sets of the nested type.
package raftpb

import (
	"bytes"
	"encoding/binary"
	"fmt"
	"hash/fnv"
	"math"
	"reflect"
	"sort"
	"strings"
	"testing"

	"github.com/lni/dragonboat/v4/client"
	"github.com/lni/dragonboat/v4/internal/verifkit"
)

// ---------------------------------------------------------------------------
// alphabets

func c13U64(thorough bool) []uint64 {
	a := []uint64{0, 1, 127, 128, 1 << 14, 1 << 42, 1<<49 - 1, 1 << 49, 1<<56 - 1, 1 << 56, 1 << 63, math.MaxUint64}
	if thorough {
		a = append(a, 1<<14-1, 1<<21-1, 1<<21, 1<<28, 1<<35-1, 1<<35, 1<<63-1, 1<<49+1)
	}
	sort.Slice(a, func(i, j int) bool { return a[i] < a[j] })
	return a
}

// the (smaller) thorough alphabet of the Entry full product
func c13EntryU64(thorough bool) []uint64 {
	a := []uint64{0, 1, 127, 128, 1 << 14, 1 << 42, 1<<49 - 1, 1 << 49, 1<<56 - 1, 1 << 56, 1 << 63, math.MaxUint64}
	if thorough {
		a = append(a, 1<<21-1, 1<<35, 1<<49+1, 1<<63-1)
	}
	sort.Slice(a, func(i, j int) bool { return a[i] < a[j] })
	return a
}

func c13EntryTypes() []EntryType {
	return []EntryType{ApplicationEntry, ConfigChangeEntry, EncodedEntry, MetadataEntry,
		127, 128, math.MaxInt32, -1, math.MinInt32}
}

var c13EntryCmdLens = []int{-1, 0, 1, 127, 128, 16384}

// (the generic sweep adds 300, 2 MiB+1 and, thorough, 64 MiB payloads) // -1: nil, 0: empty non-nil

func c13Bytes(n int) []byte {
	if n < 0 {
		return nil
	}
	b := make([]byte, n)
	for i := range b {
		b[i] = byte(i*31 + 7)
	}
	return b
}

func c13String(n int) string {
	b := make([]byte, n)
	for i := range b {
		b[i] = byte(i*13 + 0x61) // includes bytes >= 0x80 and 0x00
	}
	return string(b)
}

// ---------------------------------------------------------------------------
// Entry: full cartesian product

type c13EntryCase struct {
	Term, Index                        uint64
	Type                               int32
	Key, ClientID, SeriesID, Responded uint64
	CmdLen                             int // -1 nil, 0 empty, >0 pattern of that length
}

func (c c13EntryCase) entry(cmd []byte) Entry {
	return Entry{Term: c.Term, Index: c.Index, Type: EntryType(c.Type), Key: c.Key, ClientID: c.ClientID,
		SeriesID: c.SeriesID, RespondedTo: c.Responded, Cmd: cmd}
}

const c13Guard = 16

var c13Slab = bytes.Repeat([]byte{0xA5}, 1<<16)

// c13Dirty fills b with 0xA5.
func c13Dirty(b []byte) {
	for len(b) > 0 {
		b = b[copy(b, c13Slab):]
	}
}

// c13CheckEntry runs all oracle clauses on one entry. buf must have room for
// SizeUpperLimit()+c13Guard bytes. Returns the failed clause ("" = ok) and the
// encoded length.
func c13CheckEntry(e *Entry, buf []byte) (clause string, n int) {
	sz := e.Size()
	up := e.SizeUpperLimit()
	if sz > up {
		return fmt.Sprintf("size-exceeds-upper-limit: Size()=%d SizeUpperLimit()=%d", sz, up), 0
	}
	// dirty the target region and the guard
	c13Dirty(buf[:sz+c13Guard])
	var err error
	clause = func() (cl string) {
		defer func() {
			if r := recover(); r != nil {
				cl = fmt.Sprintf("marshalto-overrun: MarshalTo into a buffer of Size()=%d bytes panicked: %v", sz, r)
			}
		}()
		n, err = e.MarshalTo(buf[:sz])
		return ""
	}()
	if clause != "" {
		return clause, 0
	}
	if err != nil {
		return "marshalto-error: " + err.Error(), 0
	}
	if n != sz {
		return fmt.Sprintf("size-mismatch: MarshalTo wrote %d bytes, Size()=%d", n, sz), n
	}
	for i := sz; i < sz+c13Guard; i++ {
		if buf[i] != 0xA5 {
			return "guard-overwritten", n
		}
	}
	var d Entry
	if clause = func() (cl string) {
		defer func() {
			if r := recover(); r != nil {
				cl = fmt.Sprintf("unmarshal-panic: %v", r)
			}
		}()
		err = d.Unmarshal(buf[:n])
		return ""
	}(); clause != "" {
		return clause, n
	}
	if err != nil {
		return "unmarshal-error: " + err.Error(), n
	}
	if d.Term != e.Term || d.Index != e.Index || d.Type != e.Type || d.Key != e.Key || d.ClientID != e.ClientID ||
		d.SeriesID != e.SeriesID || d.RespondedTo != e.RespondedTo || !bytes.Equal(d.Cmd, e.Cmd) {
		dd := d
		if len(dd.Cmd) > 8 {
			dd.Cmd = dd.Cmd[:8]
		}
		return fmt.Sprintf("roundtrip-mismatch: decoded %+v", dd), n
	}
	return "", n
}

// c13MinimizeEntry zeroes every field that is not needed for the same oracle
// clause to fail (greedy), so that the reported input is minimal.
func c13MinimizeEntry(c c13EntryCase, clause string, buf []byte) (c13EntryCase, string) {
	key := c13ClauseKey(clause)
	try := func(cc c13EntryCase) (string, bool) {
		e := cc.entry(c13Bytes(cc.CmdLen))
		cl, _ := c13CheckEntry(&e, buf)
		return cl, cl != "" && c13ClauseKey(cl) == key
	}
	for f := 0; f < 8; f++ {
		cc := c
		switch f {
		case 0:
			cc.Term = 0
		case 1:
			cc.Index = 0
		case 2:
			cc.Type = 0
		case 3:
			cc.Key = 0
		case 4:
			cc.ClientID = 0
		case 5:
			cc.SeriesID = 0
		case 6:
			cc.Responded = 0
		case 7:
			cc.CmdLen = -1
		}
		if cl, bad := try(cc); bad {
			c, clause = cc, cl
		}
	}
	return c, clause
}

func c13ClauseKey(clause string) string {
	if i := strings.IndexByte(clause, ':'); i >= 0 {
		return clause[:i]
	}
	return clause
}

func TestVerifC13Entry(t *testing.T) {
	run := verifkit.Env()
	res := verifkit.NewResult()
	defer run.Finish(res)
	ints := c13EntryU64(run.Thorough())
	types := c13EntryTypes()
	cmds := make([][]byte, len(c13EntryCmdLens))
	maxCmd := 0
	for i, l := range c13EntryCmdLens {
		cmds[i] = c13Bytes(l)
		if l > maxCmd {
			maxCmd = l
		}
	}
	res.Rule = fmt.Sprintf("raftpb.Entry: full cartesian product of Term,Index,Key,ClientID,SeriesID,RespondedTo over %d boundary integers "+
		"x Type over %d values (4 enum values, 127,128,MaxInt32,-1,MinInt32) x Cmd over {nil,empty,1,127,128,16384 bytes}; work item = "+
		"(Term,Index,Key) combination, owned by shard k mod n; a value is non-trivial when its encoding differs from the encoding of "+
		"the zero Entry (1 byte) and it is not the empty-non-nil duplicate of the nil payload; values are distinct by construction "+
		"(alphabet elements are pairwise distinct, checked at start)", len(ints), len(types))
	res.Assumptions = append(res.Assumptions,
		"Entry.Cmd: nil and empty are the same value for the codec (both encode as absent, decode as nil)",
		"payload lengths needing a 5 byte length prefix (>= 256 MiB) are not exercised")
	res.Extra["entry_int_alphabet"] = fmt.Sprint(ints)
	for i := 1; i < len(ints); i++ {
		if ints[i] == ints[i-1] {
			t.Fatalf("alphabet not distinct")
		}
	}
	buf := make([]byte, 1024+maxCmd+c13Guard)

	if run.Replay != "" {
		var c c13EntryCase
		run.LoadReplay(&c)
		e := c.entry(c13Bytes(c.CmdLen))
		rb := make([]byte, 1024+len(e.Cmd)+c13Guard)
		if cl, _ := c13CheckEntry(&e, rb); cl != "" {
			res.Violate("entry/"+c13ClauseKey(cl), cl, c)
		}
		res.Evaluations = 1
		return
	}

	N := len(ints)
	var evals, distinct int64
	maxEnc, maxNonCmd := 0, 0
	var shape [7]int64 // by number of fields that take the fixed 8 byte form
	fixedOf := func(x uint64) int {
		if x >= 1<<49 {
			return 1
		}
		return 0
	}
	stop := false
	for a := 0; a < N && !stop; a++ {
		for b := 0; b < N && !stop; b++ {
			for c := 0; c < N && !stop; c++ {
				k := uint64((a*N+b)*N + c)
				if !run.Mine(k) {
					continue
				}
				if run.Expired() {
					res.Cap("deadline")
					stop = true
					break
				}
				var e Entry
				e.Term, e.Index, e.Key = ints[a], ints[b], ints[c]
				for _, cid := range ints {
					e.ClientID = cid
					for _, sid := range ints {
						e.SeriesID = sid
						for _, rt := range ints {
							e.RespondedTo = rt
							nfixed := fixedOf(e.Term) + fixedOf(e.Index) + fixedOf(e.Key) + fixedOf(cid) + fixedOf(sid) + fixedOf(rt)
							shape[nfixed] += int64(len(types) * len(cmds))
							for _, ty := range types {
								e.Type = ty
								for ci, cmd := range cmds {
									e.Cmd = cmd
									cl, n := c13CheckEntry(&e, buf)
									evals++
									if n > 1 && c13EntryCmdLens[ci] != 0 {
										distinct++
									}
									if n > maxEnc {
										maxEnc = n
									}
									if n-len(cmd) > maxNonCmd {
										maxNonCmd = n - len(cmd)
									}
									if cl != "" {
										cc := c13EntryCase{e.Term, e.Index, int32(e.Type), e.Key, e.ClientID, e.SeriesID, e.RespondedTo, c13EntryCmdLens[ci]}
										cc, cl = c13MinimizeEntry(cc, cl, buf)
										res.Outcome("violation:" + c13ClauseKey(cl))
										if res.Violate("entry/"+c13ClauseKey(cl), fmt.Sprintf("%s; input %+v", cl, cc), cc) {
											stop = true
										}
									}
								}
							}
						}
					}
				}
				if a == N-1 && b == N/2 && run.Shard == 0 {
					res.Sample(2, fmt.Sprintf("Entry{Term:%d Index:%d Key:%d ...all ClientID/SeriesID/RespondedTo/Type/Cmd combinations}", e.Term, e.Index, e.Key))
				}
			}
		}
	}
	res.Evaluations = evals
	res.DistinctNontrivial = distinct
	res.Extra["max_entry_noncmd_bytes"] = maxNonCmd
	res.Extra["max_encoded_len"] = maxEnc
	for k, n := range shape {
		if n > 0 {
			res.Outcomes[fmt.Sprintf("checked:fixed64-fields=%d", k)] += n
		}
	}
	if run.Shard == 0 {
		res.Sample(3, fmt.Sprintf("shard %d/%d: %d entries, largest encoding %d bytes", run.Shard, run.Shards, evals, maxEnc))
	}
}

// ---------------------------------------------------------------------------
// generic field sweep over the remaining types

type c13Alpha struct {
	vals          []reflect.Value
	min, mid, max int   // indexes of the background values
	pair          []int // indexes used by the pair product
	desc          []string
}

type c13Leaf struct {
	path []int
	name string
	al   *c13Alpha
}

type c13Type struct {
	name   string
	typ    reflect.Type
	leaves []c13Leaf
	// expect converts the input value into the value the decoder is promised to
	// produce (nil = identity)
	expect func(in reflect.Value) reflect.Value
	// Update embeds State: Size()/Marshal() would be the promoted State methods
	noSizeNoMarshal bool
}

type c13Gen struct {
	thorough bool
	u64      []uint64
	alphas   map[string]*c13Alpha // by type string (+ field override)
}

func (g *c13Gen) mk(vals []interface{}, typ reflect.Type, min, mid, max int, pair []int) *c13Alpha {
	a := &c13Alpha{min: min, mid: mid, max: max, pair: pair}
	for _, v := range vals {
		rv := reflect.ValueOf(v)
		if v == nil {
			rv = reflect.Zero(typ)
		} else if rv.Type() != typ {
			rv = rv.Convert(typ)
		}
		a.vals = append(a.vals, rv)
	}
	if a.pair == nil {
		for i := range a.vals {
			a.pair = append(a.pair, i)
		}
	}
	return a
}

func (g *c13Gen) u64Alpha(typ reflect.Type) *c13Alpha {
	var vals []interface{}
	idx := map[uint64]int{}
	for i, v := range g.u64 {
		vals = append(vals, v)
		idx[v] = i
	}
	return g.mk(vals, typ, 0, idx[1<<14], len(vals)-1, nil)
}

func (g *c13Gen) u32Alpha(typ reflect.Type) *c13Alpha {
	vals := []interface{}{uint32(0), uint32(1), uint32(127), uint32(128), uint32(1 << 14), uint32(1 << 21), uint32(1 << 28), uint32(1 << 31), uint32(math.MaxUint32)}
	return g.mk(vals, typ, 0, 4, len(vals)-1, nil)
}

func (g *c13Gen) enumAlpha(typ reflect.Type, names map[int32]string) *c13Alpha {
	keys := make([]int, 0, len(names))
	for k := range names {
		keys = append(keys, int(k))
	}
	sort.Ints(keys)
	var vals []interface{}
	for _, k := range keys {
		vals = append(vals, int32(k))
	}
	n := len(vals)
	vals = append(vals, int32(127), int32(128), int32(-1), int32(math.MinInt32), int32(math.MaxInt32))
	return g.mk(vals, typ, 0, n-1, len(vals)-1, nil)
}

func (g *c13Gen) boolAlpha(typ reflect.Type) *c13Alpha {
	return g.mk([]interface{}{false, true}, typ, 0, 1, 1, []int{0, 1})
}

func (g *c13Gen) stringAlpha(typ reflect.Type) *c13Alpha {
	vals := []interface{}{"", "a", c13String(127), c13String(128), c13String(300), c13String(16384)}
	return g.mk(vals, typ, 0, 2, 4, nil)
}

// byte slices: nil, empty, 1, 127, 128, 300, 16384 (+ huge values swept only);
// the all-max background uses the 300 byte value to keep the volume down
func (g *c13Gen) bytesAlpha(typ reflect.Type, huge bool) *c13Alpha {
	vals := []interface{}{nil, []byte{}, c13Bytes(1), c13Bytes(127), c13Bytes(128), c13Bytes(300), c13Bytes(16384)}
	if huge {
		vals = append(vals, c13Bytes(2*1024*1024+1))
		if g.thorough {
			vals = append(vals, c13Bytes(64*1024*1024))
		}
	}
	return g.mk(vals, typ, 0, 3, 5, []int{0, 1, 2, 3, 4, 5, 6})
}

func (g *c13Gen) mapStrAlpha(typ reflect.Type) *c13Alpha {
	many := map[uint64]string{}
	for i, k := range g.u64 {
		many[k] = c13String([]int{0, 1, 127, 128, 300}[i%5])
	}
	vals := []interface{}{nil, map[uint64]string{}, map[uint64]string{1: "a"},
		map[uint64]string{0: "", math.MaxUint64: c13String(128)}, many}
	return g.mk(vals, typ, 0, 2, 4, nil)
}

func (g *c13Gen) mapBoolAlpha(typ reflect.Type) *c13Alpha {
	many := map[uint64]bool{}
	for i, k := range g.u64 {
		many[k] = i%2 == 0
	}
	vals := []interface{}{nil, map[uint64]bool{}, map[uint64]bool{1: true},
		map[uint64]bool{0: false, math.MaxUint64: true}, many}
	return g.mk(vals, typ, 0, 2, 4, nil)
}

// background value number bg (0 min, 1 mid, 2 max) of a type
func (g *c13Gen) background(t *c13Type, bg int) reflect.Value {
	p := reflect.New(t.typ)
	for i := range t.leaves {
		lf := &t.leaves[i]
		ix := []int{lf.al.min, lf.al.mid, lf.al.max}[bg]
		p.Elem().FieldByIndex(lf.path).Set(lf.al.vals[ix])
	}
	return p
}

var c13EnumNames = map[reflect.Type]map[int32]string{
	reflect.TypeOf(MessageType(0)):      MessageType_name,
	reflect.TypeOf(EntryType(0)):        EntryType_name,
	reflect.TypeOf(ConfigChangeType(0)): ConfigChangeType_name,
	reflect.TypeOf(StateMachineType(0)): StateMachineType_name,
	reflect.TypeOf(CompressionType(0)):  CompressionType_name,
	reflect.TypeOf(ChecksumType(0)):     ChecksumType_name,
}

// leavesOf walks the exported fields of typ; nested structs are flattened,
// slices of nested messages take the alphabets registered in slAlpha.
func (g *c13Gen) leavesOf(typ reflect.Type, prefix string, path []int, only map[string]bool, slAlpha map[reflect.Type]*c13Alpha, hugeBytes map[string]bool) []c13Leaf {
	var out []c13Leaf
	for i := 0; i < typ.NumField(); i++ {
		f := typ.Field(i)
		if f.PkgPath != "" {
			continue // unexported (Snapshot.refCount, compactor): never marshalled
		}
		if only != nil && len(path) == 0 && !only[f.Name] {
			continue
		}
		p := append(append([]int{}, path...), i)
		name := prefix + f.Name
		ft := f.Type
		var al *c13Alpha
		switch {
		case c13EnumNames[ft] != nil:
			al = g.enumAlpha(ft, c13EnumNames[ft])
		case ft.Kind() == reflect.Uint64:
			al = g.u64Alpha(ft)
		case ft.Kind() == reflect.Uint32:
			al = g.u32Alpha(ft)
		case ft.Kind() == reflect.Bool:
			al = g.boolAlpha(ft)
		case ft.Kind() == reflect.String:
			al = g.stringAlpha(ft)
		case ft.Kind() == reflect.Slice && ft.Elem().Kind() == reflect.Uint8:
			al = g.bytesAlpha(ft, hugeBytes[typ.Name()+"."+f.Name])
		case ft.Kind() == reflect.Map && ft.Elem().Kind() == reflect.String:
			al = g.mapStrAlpha(ft)
		case ft.Kind() == reflect.Map && ft.Elem().Kind() == reflect.Bool:
			al = g.mapBoolAlpha(ft)
		case ft.Kind() == reflect.Slice:
			al = slAlpha[ft]
			if al == nil {
				panic("no alphabet for " + ft.String())
			}
		case ft.Kind() == reflect.Struct:
			out = append(out, g.leavesOf(ft, name+".", p, nil, slAlpha, hugeBytes)...)
			continue
		default:
			panic("unsupported field kind " + ft.String() + " at " + name)
		}
		out = append(out, c13Leaf{path: p, name: name, al: al})
	}
	return out
}

// c13Types builds the type descriptors bottom-up so that nested sets exist
// before their users.
func (g *c13Gen) types() []*c13Type {
	sl := map[reflect.Type]*c13Alpha{}
	huge := map[string]bool{"Entry.Cmd": true, "Chunk.Data": true}
	mkT := func(name string, v interface{}, only map[string]bool) *c13Type {
		typ := reflect.TypeOf(v)
		return &c13Type{name: name, typ: typ, leaves: g.leavesOf(typ, "", nil, only, sl, huge)}
	}
	var out []*c13Type
	// Entry
	tEntry := mkT("Entry", Entry{}, nil)
	out = append(out, tEntry)
	eMin := g.background(tEntry, 0).Elem().Interface().(Entry)
	eMid := g.background(tEntry, 1).Elem().Interface().(Entry)
	eMax := g.background(tEntry, 2).Elem().Interface().(Entry)
	eFix := Entry{Term: 1 << 49, Index: 1 << 49, Type: EncodedEntry, Key: 1<<49 - 1, ClientID: 1 << 49, SeriesID: math.MaxUint64 - 1, RespondedTo: 1 << 56, Cmd: c13Bytes(128)}
	eBig := Entry{Term: 1, Index: math.MaxUint64, Type: EncodedEntry, Cmd: c13Bytes(16384)}
	eSet := []Entry{eMin, eMid, eMax, eFix, eBig}
	eVals := []interface{}{nil, []Entry{}}
	for _, a := range eSet {
		eVals = append(eVals, []Entry{a})
	}
	for _, a := range eSet {
		for _, b := range eSet {
			eVals = append(eVals, []Entry{a, b})
		}
	}
	eVals = append(eVals, []Entry{eMax, eMin, eFix, eMid})
	sl[reflect.TypeOf([]Entry{})] = g.mk(eVals, reflect.TypeOf([]Entry{}), 0, 3, len(eVals)-1, nil)
	// SnapshotFile
	tFile := mkT("SnapshotFile", SnapshotFile{}, nil)
	out = append(out, tFile)
	fMin := g.background(tFile, 0).Interface().(*SnapshotFile)
	fMid := g.background(tFile, 1).Interface().(*SnapshotFile)
	fMax := g.background(tFile, 2).Interface().(*SnapshotFile)
	fSet := []*SnapshotFile{fMin, fMid, fMax}
	fVals := []interface{}{nil, []*SnapshotFile{}}
	for _, a := range fSet {
		fVals = append(fVals, []*SnapshotFile{a})
	}
	for _, a := range fSet {
		for _, b := range fSet {
			fVals = append(fVals, []*SnapshotFile{a, b})
		}
	}
	fVals = append(fVals, []*SnapshotFile{fMax, fMin, fMid})
	sl[reflect.TypeOf([]*SnapshotFile{})] = g.mk(fVals, reflect.TypeOf([]*SnapshotFile{}), 0, 3, len(fVals)-1, nil)
	out = append(out, mkT("State", State{}, nil))
	out = append(out, mkT("Membership", Membership{}, nil))
	out = append(out, mkT("ConfigChange", ConfigChange{}, nil))
	out = append(out, mkT("Bootstrap", Bootstrap{}, nil))
	out = append(out, mkT("RaftDataStatus", RaftDataStatus{}, nil))
	out = append(out, mkT("SnapshotHeader", SnapshotHeader{}, nil))
	out = append(out, mkT("Snapshot", Snapshot{}, nil))
	out = append(out, mkT("Chunk", Chunk{}, nil))
	out = append(out, mkT("EntryBatch", EntryBatch{}, nil))
	tMsg := mkT("Message", Message{}, nil)
	out = append(out, tMsg)
	mMin := g.background(tMsg, 0).Elem().Interface().(Message)
	mMid := g.background(tMsg, 1).Elem().Interface().(Message)
	mMax := g.background(tMsg, 2).Elem().Interface().(Message)
	mSet := []Message{mMin, mMid, mMax}
	mVals := []interface{}{nil, []Message{}}
	for _, a := range mSet {
		mVals = append(mVals, []Message{a})
	}
	for _, a := range mSet {
		for _, b := range mSet {
			mVals = append(mVals, []Message{a, b})
		}
	}
	mVals = append(mVals, []Message{mMax, mMin, mMid})
	sl[reflect.TypeOf([]Message{})] = g.mk(mVals, reflect.TypeOf([]Message{}), 0, 3, len(mVals)-1, nil)
	out = append(out, mkT("MessageBatch", MessageBatch{}, nil))
	// the Tan record: only the persisted fields are part of the codec
	tUpd := mkT("Update", Update{}, map[string]bool{"ShardID": true, "ReplicaID": true, "State": true, "EntriesToSave": true, "Snapshot": true})
	tUpd.noSizeNoMarshal = true
	tUpd.expect = func(in reflect.Value) reflect.Value {
		u := in.Elem().Interface().(Update)
		// an empty State / an empty (Index==0) Snapshot is recorded as absent
		exp := Update{ShardID: u.ShardID, ReplicaID: u.ReplicaID, State: u.State, EntriesToSave: u.EntriesToSave}
		if !IsEmptySnapshot(u.Snapshot) {
			exp.Snapshot = u.Snapshot
		}
		return reflect.ValueOf(&exp)
	}
	out = append(out, tUpd)
	out = append(out, &c13Type{name: "client.Session", typ: reflect.TypeOf(client.Session{}),
		leaves: g.leavesOf(reflect.TypeOf(client.Session{}), "", nil, nil, sl, huge)})
	return out
}

// ---- contract equality / canonical form

// c13Equal compares a (input / expected) with b (decoded) under the nil-vs-empty
// contract of the codecs: []byte fields written with `if x != nil` keep their
// nil-ness exactly; Entry.Cmd, repeated fields and maps treat nil and empty as
// the same value.
func c13Equal(a, b reflect.Value, where string) string {
	switch a.Kind() {
	case reflect.Ptr:
		if a.IsNil() || b.IsNil() {
			if a.IsNil() != b.IsNil() {
				return where + ": nil pointer mismatch"
			}
			return ""
		}
		return c13Equal(a.Elem(), b.Elem(), where)
	case reflect.Struct:
		for i := 0; i < a.NumField(); i++ {
			f := a.Type().Field(i)
			if f.PkgPath != "" {
				continue
			}
			w := where + "." + f.Name
			if a.Type() == reflect.TypeOf(Entry{}) && f.Name == "Cmd" {
				if !bytes.Equal(a.Field(i).Bytes(), b.Field(i).Bytes()) {
					return w + ": payload differs"
				}
				continue
			}
			if d := c13Equal(a.Field(i), b.Field(i), w); d != "" {
				return d
			}
		}
		return ""
	case reflect.Slice:
		if a.Type().Elem().Kind() == reflect.Uint8 {
			if a.IsNil() != b.IsNil() {
				return fmt.Sprintf("%s: nil-ness changed (in nil=%v, out nil=%v)", where, a.IsNil(), b.IsNil())
			}
			if !bytes.Equal(a.Bytes(), b.Bytes()) {
				return where + ": bytes differ"
			}
			return ""
		}
		if a.Len() != b.Len() {
			return fmt.Sprintf("%s: length %d != %d", where, a.Len(), b.Len())
		}
		for i := 0; i < a.Len(); i++ {
			if d := c13Equal(a.Index(i), b.Index(i), fmt.Sprintf("%s[%d]", where, i)); d != "" {
				return d
			}
		}
		return ""
	case reflect.Map:
		if a.Len() != b.Len() {
			return fmt.Sprintf("%s: map size %d != %d", where, a.Len(), b.Len())
		}
		it := a.MapRange()
		for it.Next() {
			bv := b.MapIndex(it.Key())
			if !bv.IsValid() {
				return fmt.Sprintf("%s: key %v lost", where, it.Key())
			}
			if d := c13Equal(it.Value(), bv, fmt.Sprintf("%s[%v]", where, it.Key())); d != "" {
				return d
			}
		}
		return ""
	case reflect.Bool:
		if a.Bool() != b.Bool() {
			return fmt.Sprintf("%s: %v != %v", where, a.Bool(), b.Bool())
		}
	case reflect.Int32, reflect.Int64, reflect.Int:
		if a.Int() != b.Int() {
			return fmt.Sprintf("%s: %d != %d", where, a.Int(), b.Int())
		}
	case reflect.Uint64, reflect.Uint32:
		if a.Uint() != b.Uint() {
			return fmt.Sprintf("%s: %d != %d", where, a.Uint(), b.Uint())
		}
	case reflect.String:
		if a.String() != b.String() {
			return fmt.Sprintf("%s: string differs (len %d vs %d)", where, a.Len(), b.Len())
		}
	case reflect.Interface:
		if !a.IsNil() || !b.IsNil() {
			return where + ": unexpected non-nil interface"
		}
	default:
		panic("c13Equal: kind " + a.Kind().String())
	}
	return ""
}

// c13Canon writes a canonical form of v under the same equivalences (used to
// count distinct values).
func c13Canon(w *bytes.Buffer, v reflect.Value, inEntry bool) {
	var tmp [10]byte
	pu := func(x uint64) { w.Write(tmp[:binary.PutUvarint(tmp[:], x)]) }
	switch v.Kind() {
	case reflect.Ptr:
		if v.IsNil() {
			w.WriteByte('0')
			return
		}
		c13Canon(w, v.Elem(), false)
	case reflect.Struct:
		w.WriteByte('s')
		isEntry := v.Type() == reflect.TypeOf(Entry{})
		for i := 0; i < v.NumField(); i++ {
			if v.Type().Field(i).PkgPath != "" {
				continue
			}
			c13Canon(w, v.Field(i), isEntry)
		}
	case reflect.Slice:
		if v.Type().Elem().Kind() == reflect.Uint8 {
			if v.IsNil() && !inEntry {
				w.WriteByte('n')
				return
			}
			w.WriteByte('b')
			pu(uint64(v.Len()))
			w.Write(v.Bytes())
			return
		}
		w.WriteByte('[')
		pu(uint64(v.Len()))
		for i := 0; i < v.Len(); i++ {
			c13Canon(w, v.Index(i), false)
		}
	case reflect.Map:
		keys := v.MapKeys()
		sort.Slice(keys, func(i, j int) bool { return keys[i].Uint() < keys[j].Uint() })
		w.WriteByte('{')
		pu(uint64(len(keys)))
		for _, k := range keys {
			pu(k.Uint())
			c13Canon(w, v.MapIndex(k), false)
		}
	case reflect.Bool:
		if v.Bool() {
			w.WriteByte(1)
		} else {
			w.WriteByte(0)
		}
	case reflect.Int32, reflect.Int64, reflect.Int:
		pu(uint64(v.Int()))
	case reflect.Uint64, reflect.Uint32:
		pu(v.Uint())
	case reflect.String:
		pu(uint64(v.Len()))
		w.WriteString(v.String())
	case reflect.Interface:
		w.WriteByte('i')
	default:
		panic("c13Canon: kind " + v.Kind().String())
	}
}

// ---- the oracle on one generic value

type c13Sizer interface{ Size() int }
type c13Upper interface{ SizeUpperLimit() int }
type c13Marshaler interface{ Marshal() ([]byte, error) }
type c13MarshalTo interface {
	MarshalTo([]byte) (int, error)
}
type c13Unmarshaler interface{ Unmarshal([]byte) error }

type c13Scratch struct{ buf, abuf []byte }

// alias returns a second scratch buffer (for the input-aliasing check).
func (s *c13Scratch) alias(n int) []byte {
	if cap(s.abuf) < n {
		s.abuf = make([]byte, n+n/4+1024)
	}
	return s.abuf[:n]
}

func (s *c13Scratch) get(n int) []byte {
	if cap(s.buf) < n {
		s.buf = make([]byte, n+n/4+1024)
	}
	b := s.buf[:n]
	c13Dirty(b)
	return b
}

// c13CheckValue returns (failed clause or "", canonical encoding used for the
// trivial test).
func c13CheckValue(t *c13Type, p reflect.Value, sc *c13Scratch) (clause string, enc []byte) {
	x := p.Interface()
	exp := p
	if t.expect != nil {
		exp = t.expect(p)
	}
	sz, up := -1, -1
	var data []byte
	if s, ok := x.(c13Sizer); ok && !t.noSizeNoMarshal {
		sz = s.Size()
	}
	if u, ok := x.(c13Upper); ok {
		up = u.SizeUpperLimit()
	}
	if sz >= 0 && up >= 0 && sz > up {
		return fmt.Sprintf("size-exceeds-upper-limit: Size()=%d SizeUpperLimit()=%d", sz, up), nil
	}
	decodeAndCompare := func(what string, b []byte) string {
		q := reflect.New(t.typ)
		var err error
		if msg := verifkit.Catch(func() { err = q.Interface().(c13Unmarshaler).Unmarshal(b) }); msg != "" {
			return "unmarshal-panic: " + what + ": " + msg
		}
		if err != nil {
			return "unmarshal-error: " + what + ": " + err.Error()
		}
		if d := c13Equal(exp, q, t.name); d != "" {
			return "roundtrip-mismatch: " + what + ": " + d
		}
		// the decoded value must stay equal when the caller reuses the buffer it
		// was decoded from (transport connections, Tan and the KV iterators decode
		// every record from one scratch buffer): decode a private copy, overwrite
		// it, compare again
		if len(b) > 0 && len(b) <= 4096 {
			cp := sc.alias(len(b))
			copy(cp, b)
			q2 := reflect.New(t.typ)
			if err := q2.Interface().(c13Unmarshaler).Unmarshal(cp); err == nil {
				for i := range cp {
					cp[i] ^= 0xA5
				}
				if d := c13Equal(exp, q2, t.name); d != "" {
					return "decoded-value-aliases-input-buffer: " + what + ": after the input buffer was overwritten: " + d
				}
			}
		}
		return ""
	}
	if m, ok := x.(c13Marshaler); ok && !t.noSizeNoMarshal {
		var err error
		if msg := verifkit.Catch(func() { data, err = m.Marshal() }); msg != "" {
			return "marshal-panic: " + msg, nil
		}
		if err != nil {
			return "marshal-error: " + err.Error(), nil
		}
		if sz >= 0 && len(data) != sz {
			return fmt.Sprintf("size-mismatch: len(Marshal())=%d Size()=%d", len(data), sz), nil
		}
		if up >= 0 && len(data) > up {
			return fmt.Sprintf("encoding-exceeds-upper-limit: len(Marshal())=%d SizeUpperLimit()=%d", len(data), up), nil
		}
		if cl := decodeAndCompare("Marshal", data); cl != "" {
			return cl, nil
		}
	}
	// MarshalTo into a dirty buffer of exactly the advertised size
	adv := up
	if adv < 0 {
		adv = sz
	}
	buf := sc.get(adv + c13Guard)
	var n int
	var err error
	if msg := verifkit.Catch(func() { n, err = x.(c13MarshalTo).MarshalTo(buf[:adv]) }); msg != "" {
		return fmt.Sprintf("marshalto-overrun: MarshalTo into a buffer of the advertised %d bytes panicked: %s", adv, msg), nil
	}
	if err != nil {
		return "marshalto-error: " + err.Error(), nil
	}
	if n > adv {
		return fmt.Sprintf("marshalto-overrun: wrote %d > advertised %d", n, adv), nil
	}
	if sz >= 0 && n != sz {
		return fmt.Sprintf("size-mismatch: MarshalTo wrote %d bytes, Size()=%d", n, sz), nil
	}
	for i := adv; i < adv+c13Guard; i++ {
		if buf[i] != 0xA5 {
			return "guard-overwritten", nil
		}
	}
	if cl := decodeAndCompare("MarshalTo(dirty buffer)", buf[:n]); cl != "" {
		return cl, nil
	}
	return "", buf[:n]
}

// c13Case identifies one generated value (replayable).
type c13Case struct {
	Type  string
	Tier  string
	Bg    int
	LeafA int
	ValA  int
	LeafB int // -1: single sweep
	ValB  int
	Desc  string
}

func (g *c13Gen) build(t *c13Type, c c13Case) reflect.Value {
	p := g.background(t, c.Bg)
	if c.LeafA >= 0 {
		la := &t.leaves[c.LeafA]
		p.Elem().FieldByIndex(la.path).Set(la.al.vals[c.ValA])
	}
	if c.LeafB >= 0 {
		lb := &t.leaves[c.LeafB]
		p.Elem().FieldByIndex(lb.path).Set(lb.al.vals[c.ValB])
	}
	return p
}

func c13ValDesc(v reflect.Value) string {
	switch v.Kind() {
	case reflect.Slice, reflect.Map, reflect.String:
		if (v.Kind() == reflect.Slice || v.Kind() == reflect.Map) && v.IsNil() {
			return "nil"
		}
		if v.Len() > 4 || v.Kind() == reflect.Map {
			return fmt.Sprintf("%s(len=%d)", v.Type(), v.Len())
		}
	}
	return fmt.Sprintf("%#v", v.Interface())
}

func (g *c13Gen) describe(t *c13Type, c c13Case) string {
	s := fmt.Sprintf("%s on background %s", t.name, []string{"all-min", "all-mid", "all-max"}[c.Bg])
	if c.LeafA >= 0 {
		s += fmt.Sprintf(" with %s=%s", t.leaves[c.LeafA].name, c13ValDesc(t.leaves[c.LeafA].al.vals[c.ValA]))
	}
	if c.LeafB >= 0 {
		s += fmt.Sprintf(" and %s=%s", t.leaves[c.LeafB].name, c13ValDesc(t.leaves[c.LeafB].al.vals[c.ValB]))
	}
	return s
}

func c13InEntryProduct(e *Entry, ints map[uint64]bool) bool {
	if !(ints[e.Term] && ints[e.Index] && ints[e.Key] && ints[e.ClientID] && ints[e.SeriesID] && ints[e.RespondedTo]) {
		return false
	}
	okT := false
	for _, ty := range c13EntryTypes() {
		if ty == e.Type {
			okT = true
		}
	}
	if !okT {
		return false
	}
	for _, l := range c13EntryCmdLens {
		if (l < 0 && e.Cmd == nil) || (l >= 0 && e.Cmd != nil && len(e.Cmd) == l) {
			return true
		}
	}
	return false
}

func TestVerifC13Types(t *testing.T) {
	run := verifkit.Env()
	res := verifkit.NewResult()
	defer run.Finish(res)
	g := &c13Gen{thorough: run.Thorough(), u64: c13U64(run.Thorough())}
	types := g.types()
	res.Rule = "raftpb types (Entry, SnapshotFile, State, Membership, ConfigChange, Bootstrap, RaftDataStatus, SnapshotHeader, Snapshot, Chunk, " +
		"EntryBatch, Message, MessageBatch, Update(Tan record), client.Session): for each background in {all-min, all-mid, all-max} every leaf " +
		"field (nested structs flattened) swept over its full boundary alphabet, plus every pair of leaves over the product of their full " +
		"alphabets (minus the multi-MiB payloads) on each background; nested repeated fields take all sequences of length <= 2 over the " +
		"nested type's {min,mid,max} values; work item = type (the 4 largest types have a slot of their own), owned by shard slot mod n; distinct values " +
		"counted through a hash set of the canonical form of the value; non-trivial = its encoding differs from the encoding of the zero value; " +
		"Entry values already covered by the Entry product part are not counted again"
	res.Assumptions = append(res.Assumptions,
		"encoders are field-wise independent beyond pairs (triples of fields are not enumerated)",
		"Update: only ShardID, ReplicaID, State, EntriesToSave, Snapshot are persisted; an empty State and a Snapshot with Index==0 are recorded as absent",
		"repeated fields and maps: nil and empty are the same value; []byte fields other than Entry.Cmd keep nil vs empty exactly (the decoders promise it)",
		"nil *SnapshotFile inside Snapshot.Files is out of contract")

	byName := map[string]*c13Type{}
	for _, ty := range types {
		byName[ty.name] = ty
	}
	sc := &c13Scratch{}
	if run.Replay != "" {
		var c c13Case
		run.LoadReplay(&c)
		ty := byName[c.Type]
		if ty == nil || c.Tier != run.Tier {
			// alphabets are tier dependent: rebuild with the recorded tier
			g = &c13Gen{thorough: c.Tier == "thorough", u64: c13U64(c.Tier == "thorough")}
			for _, x := range g.types() {
				if x.name == c.Type {
					ty = x
				}
			}
		}
		p := g.build(ty, c)
		if cl, _ := c13CheckValue(ty, p, sc); cl != "" {
			res.Violate(c.Type+"/"+c13ClauseKey(cl), cl+"; input: "+g.describe(ty, c), c)
		}
		res.Evaluations = 1
		return
	}

	prodInts := map[uint64]bool{}
	for _, v := range c13EntryU64(run.Thorough()) {
		prodInts[v] = true
	}
	var evals, distinct int64
	perType := map[string]interface{}{}
	slots := map[string]uint64{"Message": 0, "Chunk": 1, "Update": 2, "Snapshot": 3}
	for ti, ty := range types {
		slot, heavy := slots[ty.name]
		if !heavy {
			slot = 4 + uint64(ti%2)
		}
		if !run.Mine(slot) {
			continue
		}
		seen := map[uint64]struct{}{}
		var zeroEnc []byte
		var cw bytes.Buffer
		var tEvals, tDistinct int64
		one := func(c c13Case) bool {
			c.Type, c.Tier = ty.name, run.Tier
			p := g.build(ty, c)
			cl, enc := c13CheckValue(ty, p, sc)
			evals++
			tEvals++
			if cl != "" {
				res.Outcome("violation:" + ty.name + "/" + c13ClauseKey(cl))
				c.Desc = g.describe(ty, c)
				return res.Violate(ty.name+"/"+c13ClauseKey(cl), cl+"; input: "+c.Desc, c)
			}
			res.Outcome(ty.name + ":ok")
			if zeroEnc == nil {
				// first case of every type is the all-min background = zero value
				zeroEnc = append([]byte{0}, enc...)
			}
			if !bytes.Equal(enc, zeroEnc[1:]) {
				if e, ok := p.Interface().(*Entry); ok && c13InEntryProduct(e, prodInts) {
					return false
				}
				cw.Reset()
				c13Canon(&cw, p, false)
				h := fnv.New64a()
				h.Write(cw.Bytes())
				k := h.Sum64()
				if _, dup := seen[k]; !dup {
					seen[k] = struct{}{}
					distinct++
					tDistinct++
				}
			}
			return false
		}
		stop := false
		// the zero value first
		stop = one(c13Case{Bg: 0, LeafA: -1, LeafB: -1})
		for bg := 0; bg < 3 && !stop; bg++ {
			for li := range ty.leaves {
				for vi := range ty.leaves[li].al.vals {
					if stop = one(c13Case{Bg: bg, LeafA: li, ValA: vi, LeafB: -1}); stop {
						break
					}
				}
				if stop {
					break
				}
			}
			if run.Expired() {
				res.Cap("deadline")
				stop = true
			}
		}
		for bg := 0; bg < 3 && !stop; bg++ {
			for la := 0; la < len(ty.leaves) && !stop; la++ {
				for lb := la + 1; lb < len(ty.leaves) && !stop; lb++ {
					for _, va := range ty.leaves[la].al.pair {
						for _, vb := range ty.leaves[lb].al.pair {
							if stop = one(c13Case{Bg: bg, LeafA: la, ValA: va, LeafB: lb, ValB: vb}); stop {
								break
							}
						}
						if stop {
							break
						}
					}
				}
				if run.Expired() {
					res.Cap("deadline")
					stop = true
				}
			}
		}
		perType[ty.name] = fmt.Sprintf("leaves=%d evaluations=%d distinct_nontrivial=%d", len(ty.leaves), tEvals, tDistinct)
		last := c13Case{Bg: 1, LeafA: len(ty.leaves) - 1, ValA: ty.leaves[len(ty.leaves)-1].al.max, LeafB: -1}
		res.Sample(1, g.describe(ty, last))
	}
	res.Evaluations = evals
	res.DistinctNontrivial = distinct
	for k, v := range perType {
		res.Extra["type_"+k] = v
	}
}
