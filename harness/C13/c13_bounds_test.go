//go:build verif

// C13 part "bounds": the advertised size bound of every type that has a
// SizeUpperLimit() (State, EntryBatch, Message, MessageBatch, Update; Entry has
// its own full product part) is the sum of a fixed part and of contributions
// of components (nested State / Snapshot, repeated entries / messages, strings).
// A contribution that is only added under a condition (component present /
// non-empty) can hide a fixed part that is too small, so the bound has to be
// exercised with every condition FALSE while everything else is at its
// maximum. The field sweeps + pairs of the "types" part flatten nested structs
// into their leaves and therefore never make a whole component empty on a
// non-minimal background. This part enumerates, per type, the FULL cartesian
// product over component-level dimensions:
//
//	Update (the Tan record): ShardID x ReplicaID over the full integer boundary
//	  alphabet x State {empty, every non-empty combination of boundary
//	  values} x Snapshot {empty, empty-by-contract, minimal, typical, all-max,
//	  many members (> 32 KiB), many files (> 32 KiB)} x EntriesToSave {nil,
//	  empty, one zero entry, one maximal entry, mixed, large payload, many}
//	Message: every scalar field in {0, max} (thorough: + mid) x Type x Reject x
//	  Entries {none ... some} x Snapshot variants
//	MessageBatch: Requests x DeploymentId x SourceAddress x BinVer, full alphabets
//	State: Term x Vote x Commit, full alphabet
//	EntryBatch: Entries variants (one dimension)
//
// Oracle = c13CheckValue of the types part: Size() <= SizeUpperLimit(),
// len(Marshal()) <= SizeUpperLimit(), MarshalTo into a dirty buffer of exactly
// the advertised size neither panics nor returns more than the advertised size
// nor touches the 16 guard bytes behind it, and both encodings decode to the
// expected value.
package raftpb

import (
	"bytes"
	"fmt"
	"hash/fnv"
	"math"
	"reflect"
	"testing"

	"github.com/lni/dragonboat/v4/internal/verifkit"
)

type c13Dim struct {
	name string
	path []int
	vals []reflect.Value
	desc []string
	// class[i]: hash of the canonical form of the type's value that has only this
	// dimension set to vals[i] (after the type's expect mapping), so that values
	// which are the same by contract (nil / empty slice, Update snapshot with
	// Index == 0 / empty snapshot) fall into one class
	class []uint64
}

type c13Product struct {
	t    *c13Type
	dims []c13Dim
	// nontrivial dimension values: index 0 of every dimension is the zero value
}

func (p *c13Product) total() uint64 {
	n := uint64(1)
	for _, d := range p.dims {
		n *= uint64(len(d.vals))
	}
	return n
}

// decode turns a linear index into one index per dimension (last dimension
// varies fastest).
func (p *c13Product) decode(k uint64, idx []int) {
	for i := len(p.dims) - 1; i >= 0; i-- {
		n := uint64(len(p.dims[i].vals))
		idx[i] = int(k % n)
		k /= n
	}
}

func (p *c13Product) build(idx []int) reflect.Value {
	v := reflect.New(p.t.typ)
	for i, d := range p.dims {
		v.Elem().FieldByIndex(d.path).Set(d.vals[idx[i]])
	}
	return v
}

// classify fills the per dimension classes; the codecs' equivalences are all
// field-wise, so two product elements are the same value under the contract
// iff their class tuples are equal.
func (p *c13Product) classify() {
	var cw bytes.Buffer
	for di := range p.dims {
		d := &p.dims[di]
		d.class = make([]uint64, len(d.vals))
		for vi := range d.vals {
			v := reflect.New(p.t.typ)
			v.Elem().FieldByIndex(d.path).Set(d.vals[vi])
			if p.t.expect != nil {
				v = p.t.expect(v)
			}
			cw.Reset()
			c13Canon(&cw, v, false)
			h := fnv.New64a()
			h.Write(cw.Bytes())
			d.class[vi] = h.Sum64()
		}
	}
}

func (p *c13Product) key(idx []int) uint64 {
	h := uint64(14695981039346656037)
	for i := range p.dims {
		c := p.dims[i].class[idx[i]]
		for b := 0; b < 8; b++ {
			h ^= (c >> (8 * uint(b))) & 0xff
			h *= 1099511628211
		}
	}
	return h
}

func (p *c13Product) describe(idx []int) string {
	var sb bytes.Buffer
	sb.WriteString(p.t.name + "{")
	for i, d := range p.dims {
		if i > 0 {
			sb.WriteString(", ")
		}
		sb.WriteString(d.name + ": " + d.desc[idx[i]])
	}
	sb.WriteString("}")
	return sb.String()
}

type c13BoundsCase struct {
	Type string
	Tier string
	Idx  []int
	Desc string
}

// ---- dimension values

func c13U64Dim(t *c13Type, name string, vals []uint64) c13Dim {
	f, ok := t.typ.FieldByName(name)
	if !ok {
		panic("c13 bounds: no field " + t.name + "." + name)
	}
	d := c13Dim{name: name, path: f.Index}
	for _, v := range vals {
		d.vals = append(d.vals, reflect.ValueOf(v).Convert(f.Type))
		d.desc = append(d.desc, fmt.Sprintf("%d", v))
	}
	return d
}

func c13ValDim(t *c13Type, name string, vals []interface{}, desc []string) c13Dim {
	f, ok := t.typ.FieldByName(name)
	if !ok {
		panic("c13 bounds: no field " + t.name + "." + name)
	}
	if len(vals) != len(desc) {
		panic("c13 bounds: desc mismatch for " + name)
	}
	d := c13Dim{name: name, path: f.Index, desc: desc}
	for _, v := range vals {
		if v == nil {
			d.vals = append(d.vals, reflect.Zero(f.Type))
			continue
		}
		d.vals = append(d.vals, reflect.ValueOf(v).Convert(f.Type))
	}
	return d
}

// c13States: the empty state first, then every combination of the boundary
// values (each non-zero combination is a non-empty state).
func c13States(vals []uint64) ([]interface{}, []string) {
	var out []interface{}
	var desc []string
	for _, a := range vals {
		for _, b := range vals {
			for _, c := range vals {
				out = append(out, State{Term: a, Vote: b, Commit: c})
				desc = append(desc, fmt.Sprintf("State{Term:%d Vote:%d Commit:%d}", a, b, c))
			}
		}
	}
	if !IsEmptyState(out[0].(State)) {
		panic("c13 bounds: first state must be the empty one")
	}
	return out, desc
}

func c13AddrMap(n int, addrLen int, base uint64) map[uint64]string {
	m := make(map[uint64]string, n)
	for i := 0; i < n; i++ {
		m[base+uint64(i)*0x0101010101] = c13String(addrLen)
	}
	return m
}

// c13Snapshots: snapshot records from empty to "many members" / "many files"
// larger than 32 KiB (the size above which Tan allocates an exactly sized
// buffer instead of using its scratch buffer).
func c13Snapshots() ([]interface{}, []string) {
	var out []interface{}
	var desc []string
	add := func(d string, s Snapshot) {
		out = append(out, s)
		desc = append(desc, fmt.Sprintf("%s(Size=%d)", d, s.Size()))
	}
	add("empty", Snapshot{})
	// Index == 0: "empty" by contract (IsEmptySnapshot) although other fields are set
	add("index0-other-fields-set", Snapshot{Filepath: "/data/snapshot-0", FileSize: math.MaxUint64, Term: math.MaxUint64,
		ShardID: math.MaxUint64, OnDiskIndex: math.MaxUint64})
	add("minimal", Snapshot{Index: 1})
	add("typical", Snapshot{Filepath: "/data/nh/snapshot-1-1/snapshot-0000000000004000/snapshot-0000000000004000.gbsnap",
		FileSize: 1 << 20, Index: 1 << 14, Term: 3, ShardID: 1, Type: OnDiskStateMachine, OnDiskIndex: 1 << 14,
		Membership: Membership{ConfigChangeId: 3, Addresses: map[uint64]string{1: "a1:1", 2: "a2:1", 3: "a3:1"}, Removed: map[uint64]bool{4: true}}})
	allMax := Snapshot{Filepath: c13String(300), FileSize: math.MaxUint64, Index: math.MaxUint64, Term: math.MaxUint64,
		Checksum: c13Bytes(128), Dummy: true, ShardID: math.MaxUint64, Type: StateMachineType(math.MinInt32), Imported: true,
		OnDiskIndex: math.MaxUint64, Witness: true,
		Membership: Membership{ConfigChangeId: math.MaxUint64,
			Addresses:  map[uint64]string{0: "", math.MaxUint64: c13String(128)},
			Removed:    map[uint64]bool{0: false, math.MaxUint64: true},
			NonVotings: map[uint64]string{1 << 63: c13String(300)},
			Witnesses:  map[uint64]string{1 << 49: c13String(127)}},
		Files: []*SnapshotFile{{Filepath: c13String(300), FileSize: math.MaxUint64, FileId: math.MaxUint64, Metadata: c13Bytes(300)}}}
	add("all-max", allMax)
	members := Snapshot{Filepath: "/data/snapshot-many-members", FileSize: 1 << 30, Index: 1 << 49, Term: 1 << 14, ShardID: math.MaxUint64,
		Type: OnDiskStateMachine, OnDiskIndex: 1 << 49, Dummy: true,
		Membership: Membership{ConfigChangeId: 1 << 42,
			Addresses:  c13AddrMap(110, 300, 1<<42),
			NonVotings: c13AddrMap(20, 64, 1<<56),
			Witnesses:  c13AddrMap(10, 40, 7),
			Removed:    map[uint64]bool{}}}
	for i := 0; i < 60; i++ {
		members.Membership.Removed[uint64(i)<<40] = true
	}
	add("many-members", members)
	files := Snapshot{Filepath: "/data/snapshot-many-files", FileSize: 1 << 35, Index: 1 << 56, Term: 127, ShardID: 1 << 42,
		Type: ConcurrentStateMachine, Checksum: c13Bytes(16),
		Membership: Membership{Addresses: map[uint64]string{1: "localhost:26001"}}}
	for i := 0; i < 100; i++ {
		files.Files = append(files.Files, &SnapshotFile{Filepath: c13String(200 + i), FileSize: uint64(1) << uint(i%64), FileId: uint64(i) * 0x0102030405060708,
			Metadata: c13Bytes(64 + i)})
	}
	add("many-files", files)
	for _, i := range []int{5, 6} {
		if s := out[i].(Snapshot); s.Size() <= 32*1024 {
			panic(fmt.Sprintf("c13 bounds: snapshot variant %s is not above 32 KiB", desc[i]))
		}
	}
	return out, desc
}

func c13EntrySlices() ([]interface{}, []string) {
	eMin := Entry{}
	eMax := Entry{Term: math.MaxUint64, Index: math.MaxUint64, Type: EntryType(math.MinInt32), Key: math.MaxUint64, ClientID: math.MaxUint64,
		SeriesID: math.MaxUint64, RespondedTo: math.MaxUint64, Cmd: c13Bytes(300)}
	eMaxNoCmd := eMax
	eMaxNoCmd.Cmd = nil
	eFix := Entry{Term: 1 << 49, Index: 1 << 49, Type: EncodedEntry, Key: 1<<49 - 1, ClientID: 1 << 49, SeriesID: math.MaxUint64 - 1, RespondedTo: 1 << 56, Cmd: c13Bytes(128)}
	eMid := Entry{Term: 1 << 14, Index: 1 << 14, Type: ConfigChangeEntry, Key: 1 << 14, ClientID: 1 << 14, SeriesID: 1 << 14, RespondedTo: 1 << 14, Cmd: c13Bytes(127)}
	eBig := Entry{Term: 1, Index: math.MaxUint64, Type: EncodedEntry, Cmd: c13Bytes(16384)}
	many := make([]Entry, 40)
	vals := []interface{}{nil, []Entry{}, []Entry{eMin}, []Entry{eMaxNoCmd}, []Entry{eMax}, []Entry{eMax, eMin, eFix, eMid}, []Entry{eBig}, many}
	desc := []string{"nil", "empty", "[zero entry]", "[all-max entry without payload]", "[all-max entry, 300 B payload]", "[max, zero, fixed-width, mid]", "[16384 B payload]", "[40 zero entries]"}
	return vals, desc
}

func c13MessageSlices() ([]interface{}, []string) {
	ents, _ := c13EntrySlices()
	ss, _ := c13Snapshots()
	mMin := Message{}
	mMax := Message{Type: MessageType(math.MinInt32), To: math.MaxUint64, From: math.MaxUint64, ShardID: math.MaxUint64, Term: math.MaxUint64,
		LogTerm: math.MaxUint64, LogIndex: math.MaxUint64, Commit: math.MaxUint64, Reject: true, Hint: math.MaxUint64, HintHigh: math.MaxUint64}
	mMaxEnts := mMax
	mMaxEnts.Entries = ents[5].([]Entry)
	mMaxSnap := mMax
	mMaxSnap.Snapshot = ss[4].(Snapshot)
	mAll := mMaxEnts
	mAll.Snapshot = ss[4].(Snapshot)
	mTyp := Message{Type: Replicate, To: 2, From: 1, ShardID: 1 << 14, Term: 3, LogTerm: 3, LogIndex: 1 << 14, Commit: 1 << 14, Entries: ents[2].([]Entry)}
	many := make([]Message, 30)
	vals := []interface{}{nil, []Message{}, []Message{mMin}, []Message{mMax}, []Message{mMaxEnts}, []Message{mMaxSnap}, []Message{mAll},
		[]Message{mTyp, mMax, mMin, mAll}, many}
	desc := []string{"nil", "empty", "[zero message]", "[all-max scalars, no entries, empty snapshot]", "[all-max scalars + entries]",
		"[all-max scalars + all-max snapshot]", "[all-max everything]", "[typical, max, zero, all-max]", "[30 zero messages]"}
	return vals, desc
}

func c13Strings() ([]interface{}, []string) {
	return []interface{}{"", "a", c13String(127), c13String(128), c13String(300), c13String(16384)},
		[]string{`""`, `"a"`, "string(127)", "string(128)", "string(300)", "string(16384)"}
}

// c13Products builds the component-level products.
func (g *c13Gen) products() []*c13Product {
	byName := map[string]*c13Type{}
	for _, t := range g.types() {
		byName[t.name] = t
	}
	two := []uint64{0, math.MaxUint64}
	if g.thorough {
		two = []uint64{0, 1 << 14, math.MaxUint64}
	}
	stVals := []uint64{0, 1, 1 << 49, math.MaxUint64}
	if g.thorough {
		stVals = []uint64{0, 1, 127, 128, 1 << 49, 1 << 63, math.MaxUint64}
	}
	var out []*c13Product

	// Update
	{
		t := byName["Update"]
		st, stD := c13States(stVals)
		ss, ssD := c13Snapshots()
		es, esD := c13EntrySlices()
		out = append(out, &c13Product{t: t, dims: []c13Dim{
			c13U64Dim(t, "ShardID", g.u64),
			c13U64Dim(t, "ReplicaID", g.u64),
			c13ValDim(t, "State", st, stD),
			c13ValDim(t, "EntriesToSave", es, esD),
			c13ValDim(t, "Snapshot", ss, ssD),
		}})
	}
	// Message
	{
		t := byName["Message"]
		ss, ssD := c13Snapshots()
		es, esD := c13EntrySlices()
		// one small and the large snapshot variants; entries: none, one maximal, mixed
		ssPick, esPick := []int{0, 1, 2, 4, 5}, []int{0, 1, 3, 5}
		var ssV, esV []interface{}
		var ssVD, esVD []string
		for _, i := range ssPick {
			ssV, ssVD = append(ssV, ss[i]), append(ssVD, ssD[i])
		}
		for _, i := range esPick {
			esV, esVD = append(esV, es[i]), append(esVD, esD[i])
		}
		dims := []c13Dim{
			c13ValDim(t, "Type", []interface{}{int32(0), int32(Replicate), int32(math.MaxInt32), int32(math.MinInt32)},
				[]string{"0", "Replicate", "MaxInt32", "MinInt32"}),
		}
		for _, f := range []string{"To", "From", "ShardID", "Term", "LogTerm", "LogIndex", "Commit", "Hint", "HintHigh"} {
			dims = append(dims, c13U64Dim(t, f, two))
		}
		dims = append(dims,
			c13ValDim(t, "Reject", []interface{}{false, true}, []string{"false", "true"}),
			c13ValDim(t, "Entries", esV, esVD),
			c13ValDim(t, "Snapshot", ssV, ssVD))
		out = append(out, &c13Product{t: t, dims: dims})
	}
	// MessageBatch
	{
		t := byName["MessageBatch"]
		ms, msD := c13MessageSlices()
		strs, strD := c13Strings()
		out = append(out, &c13Product{t: t, dims: []c13Dim{
			c13U64Dim(t, "DeploymentId", g.u64),
			c13ValDim(t, "SourceAddress", strs, strD),
			c13ValDim(t, "BinVer", []interface{}{uint32(0), uint32(1), uint32(127), uint32(128), uint32(1 << 14), uint32(1 << 21), uint32(1 << 28), uint32(math.MaxUint32)},
				[]string{"0", "1", "127", "128", "1<<14", "1<<21", "1<<28", "MaxUint32"}),
			c13ValDim(t, "Requests", ms, msD),
		}})
	}
	// State
	{
		t := byName["State"]
		out = append(out, &c13Product{t: t, dims: []c13Dim{
			c13U64Dim(t, "Term", g.u64), c13U64Dim(t, "Vote", g.u64), c13U64Dim(t, "Commit", g.u64)}})
	}
	// EntryBatch
	{
		t := byName["EntryBatch"]
		es, esD := c13EntrySlices()
		out = append(out, &c13Product{t: t, dims: []c13Dim{c13ValDim(t, "Entries", es, esD)}})
	}
	return out
}

func c13MarginClass(m int) string {
	switch {
	case m < 0:
		return "< 0"
	case m < 8:
		return "in [0,8)"
	case m < 16:
		return "in [8,16)"
	case m < 32:
		return "in [16,32)"
	case m < 64:
		return "in [32,64)"
	case m < 128:
		return "in [64,128)"
	}
	return ">= 128"
}

// blockSize: work items are blocks of consecutive product elements. Values that
// are the same by contract (nil / empty repeated field, Index==0 / empty
// snapshot) differ in the last two dimensions only (the repeated / nested
// dimensions are placed last), so a block is a whole number of (last two
// dimensions) planes: duplicates always fall into the same shard and
// distinct_nontrivial is disjoint across shards.
func (p *c13Product) blockSize() uint64 {
	m := uint64(1)
	for i := len(p.dims) - 1; i >= 0 && i >= len(p.dims)-2; i-- {
		m *= uint64(len(p.dims[i].vals))
	}
	return m * ((256 + m - 1) / m)
}

func TestVerifC13Bounds(t *testing.T) {
	run := verifkit.Env()
	res := verifkit.NewResult()
	defer run.Finish(res)
	g := &c13Gen{thorough: run.Thorough(), u64: c13U64(run.Thorough())}
	res.Rule = "types with a SizeUpperLimit(): FULL cartesian product over component-level dimensions, so that every conditional contribution " +
		"to the advertised bound is exercised with its condition false while everything else is at its maximum. " +
		"Update (Tan record): ShardID x ReplicaID over the full integer boundary alphabet x State {empty + every combination of " +
		"{0,1,2^49,2^64-1} (thorough 7 values) for Term,Vote,Commit} x EntriesToSave {nil, empty, [zero], [max no payload], [max], mixed, 16 KiB payload, 40 entries} x " +
		"Snapshot {empty, Index==0 with other fields set, minimal, typical, all-max, many members > 32 KiB, many files > 32 KiB}; " +
		"Message: Type {0, Replicate, MaxInt32, MinInt32} x each of the 9 uint64 fields in {0, 2^64-1} (thorough + 2^14) x Reject x Entries (4 variants) x " +
		"Snapshot (5 variants); MessageBatch: Requests (9 variants incl. all-max scalars without entries/snapshot) x DeploymentId (full alphabet) x " +
		"SourceAddress (6) x BinVer (8); State: Term x Vote x Commit over the full alphabet; EntryBatch: the 8 entry slice variants. " +
		"work item = block of >= 256 consecutive product elements (whole planes of the last two dimensions), owned by shard k mod n; elements are distinct by construction " +
		"(counted through a hash set of the per-dimension canonical classes: nil/empty slices and, for Update, Index==0/empty snapshots are one class); non-trivial = encoding differs from the type's zero value"
	res.Assumptions = append(res.Assumptions,
		"Update: only ShardID, ReplicaID, State, EntriesToSave, Snapshot are persisted; an empty State and a Snapshot with Index==0 are recorded as absent",
		"component variants are representatives (the integer dimensions of Update, MessageBatch.DeploymentId and State use the full boundary alphabet)")
	prods := g.products()
	sc := &c13Scratch{}
	if run.Replay != "" {
		var c c13BoundsCase
		run.LoadReplay(&c)
		if c.Tier != run.Tier {
			g = &c13Gen{thorough: c.Tier == "thorough", u64: c13U64(c.Tier == "thorough")}
			prods = g.products()
		}
		for _, p := range prods {
			if p.t.name != c.Type {
				continue
			}
			v := p.build(c.Idx)
			if cl, _ := c13CheckValue(p.t, v, sc); cl != "" {
				res.Violate("bounds/"+c.Type+"/"+c13ClauseKey(cl), cl+"; input: "+p.describe(c.Idx), c)
			}
		}
		res.Evaluations = 1
		return
	}
	var evals, distinct int64
	var block uint64
	stop := false
	for _, p := range prods {
		total := p.total()
		idx := make([]int, len(p.dims))
		seen := map[uint64]struct{}{}
		var zeroEnc []byte
		p.classify()
		var tEvals, tDistinct int64
		minMargin := 1 << 30 // smallest (SizeUpperLimit - encoded length) seen by this shard
		{
			z := reflect.New(p.t.typ)
			cl, enc := c13CheckValue(p.t, z, sc)
			if cl != "" {
				res.Violate("bounds/"+p.t.name+"/"+c13ClauseKey(cl), cl+"; input: zero value", c13BoundsCase{Type: p.t.name, Tier: run.Tier, Idx: make([]int, len(p.dims))})
			}
			zeroEnc = append([]byte{}, enc...)
		}
		bs := p.blockSize()
		for base := uint64(0); base < total && !stop; base += bs {
			mine := run.Mine(block)
			block++
			if !mine {
				continue
			}
			if run.Expired() {
				res.Cap("deadline")
				stop = true
				break
			}
			for k := base; k < base+bs && k < total; k++ {
				p.decode(k, idx)
				v := p.build(idx)
				cl, enc := c13CheckValue(p.t, v, sc)
				evals++
				tEvals++
				if cl != "" {
					res.Outcome("violation:" + p.t.name + "/" + c13ClauseKey(cl))
					c := c13BoundsCase{Type: p.t.name, Tier: run.Tier, Idx: append([]int{}, idx...), Desc: p.describe(idx)}
					if res.Violate("bounds/"+p.t.name+"/"+c13ClauseKey(cl), cl+"; input: "+c.Desc, c) {
						stop = true
						break
					}
					continue
				}
				margin := v.Interface().(c13Upper).SizeUpperLimit() - len(enc)
				if margin < minMargin {
					minMargin = margin
				}
				res.Outcome(p.t.name + ":ok, bound - encoded length " + c13MarginClass(margin))
				if !bytes.Equal(enc, zeroEnc) {
					hk := p.key(idx) // values that are the same by contract count once
					if _, dup := seen[hk]; !dup {
						seen[hk] = struct{}{}
						distinct++
						tDistinct++
					}
				}
			}
		}
		res.Extra["max_product_"+p.t.name] = total
		res.Extra["evaluations_"+p.t.name] = tEvals
		res.Extra["distinct_"+p.t.name] = tDistinct
		if tEvals > 0 {
			// (merged per key by the driver with setdefault: the outcome classes carry the merged picture)
			res.Extra[fmt.Sprintf("smallest_margin_%s_shard%d", p.t.name, run.Shard)] = fmt.Sprint(minMargin)
		}
		last := make([]int, len(p.dims))
		for i := range last {
			last[i] = len(p.dims[i].vals) - 1
		}
		if run.Shard == 0 {
			res.Sample(5, p.describe(last))
		}
		if stop {
			break
		}
	}
	res.Evaluations = evals
	res.DistinctNontrivial = distinct
}
