//go:build verif

// C13 (transport frame part): frames produced by the real TCPConnection /
// TCPSnapshotConnection send path are fed, unmodified and with EVERY single-bit
// flip, EVERY burst error of width <= 8 bits and EVERY truncation point, to the
// real receive path (readMagicNumber + readMessage, as serveConn does) over an
// in-memory net.Conn. A damaged frame must be rejected, or - should the damage
// fall on bytes no checksum covers - be delivered byte-identical to what was
// sent; the undamaged frame must be delivered and decode to the value sent.
package transport

import (
	"bytes"
	"fmt"
	"io"
	"net"
	"reflect"
	"testing"
	"time"

	"github.com/lni/dragonboat/v4/internal/verifkit"
	"github.com/lni/dragonboat/v4/logger"
	pb "github.com/lni/dragonboat/v4/raftpb"
)

// c13Conn is an in-memory net.Conn: reads come from a byte slice (optionally
// in small pieces, as a real socket may deliver them), writes are captured.
type c13Conn struct {
	in    []byte
	pos   int
	piece int
	out   bytes.Buffer
}

func (c *c13Conn) Read(b []byte) (int, error) {
	if c.pos >= len(c.in) {
		return 0, io.EOF
	}
	n := len(b)
	if c.piece > 0 && n > c.piece {
		n = c.piece
	}
	n = copy(b[:n], c.in[c.pos:])
	c.pos += n
	return n, nil
}
func (c *c13Conn) Write(b []byte) (int, error)      { return c.out.Write(b) }
func (c *c13Conn) Close() error                     { return nil }
func (c *c13Conn) LocalAddr() net.Addr              { return nil }
func (c *c13Conn) RemoteAddr() net.Addr             { return nil }
func (c *c13Conn) SetDeadline(time.Time) error      { return nil }
func (c *c13Conn) SetReadDeadline(time.Time) error  { return nil }
func (c *c13Conn) SetWriteDeadline(time.Time) error { return nil }

type c13Frame struct {
	name    string
	method  uint16
	raw     []byte // magic + header + payload as written by the sender
	recvBuf uint64 // value of the recvBufSize package var while receiving
	batch   *pb.MessageBatch
	chunk   *pb.Chunk
	subset  bool // only a stated subset of bit positions is flipped
	work    []byte
}

func c13Data(n int) []byte {
	b := make([]byte, n)
	for i := range b {
		b[i] = byte(i*7 + 3)
	}
	return b
}

func c13MakeFrames() []*c13Frame {
	hb := pb.MessageBatch{DeploymentId: 1<<49 + 5, SourceAddress: "10.0.0.1:63001", BinVer: 210,
		Requests: []pb.Message{{Type: pb.Heartbeat, To: 2, From: 1, ShardID: 17, Term: 5, Commit: 1 << 14, Hint: 99, HintHigh: 1}}}
	rep := pb.MessageBatch{DeploymentId: 7, SourceAddress: "node-a.example.org:63001", BinVer: 210,
		Requests: []pb.Message{
			{Type: pb.Replicate, To: 3, From: 1, ShardID: 1, Term: 9, LogTerm: 8, LogIndex: 1 << 49, Commit: 1<<49 - 1,
				Entries: []pb.Entry{
					{Term: 9, Index: 1<<49 + 1, Type: pb.EncodedEntry, Key: 1 << 63, ClientID: 1 << 56, SeriesID: 3, RespondedTo: 2, Cmd: c13Data(100)},
					{Term: 9, Index: 1<<49 + 2, Type: pb.ConfigChangeEntry, Cmd: c13Data(40)},
					{Term: 9, Index: 1<<49 + 3}}},
			{Type: pb.ReplicateResp, To: 3, From: 1, ShardID: 2, Term: 4, LogIndex: 77, Reject: true, Hint: 12}}}
	ck := pb.Chunk{ShardID: 5, ReplicaID: 2, From: 1, ChunkId: 3, ChunkSize: 2000, ChunkCount: 9, Data: c13Data(2000), Index: 1 << 21,
		Term: 6, Membership: pb.Membership{ConfigChangeId: 4, Addresses: map[uint64]string{1: "a:1"}}, Filepath: "snapshot-0000000000200000/x.gbsnap",
		FileSize: 1 << 24, DeploymentId: 7, FileChunkId: 3, FileChunkCount: 9, HasFileInfo: true,
		FileInfo: pb.SnapshotFile{Filepath: "external-file-1", FileSize: 99, FileId: 1, Metadata: []byte("md")}, BinVer: 210, OnDiskIndex: 12}
	big := pb.Chunk{ShardID: 5, ReplicaID: 2, From: 1, ChunkId: 0, ChunkSize: 2*1024*1024 + 1000, ChunkCount: 1, Data: c13Data(2*1024*1024 + 1000),
		Index: 100, Term: 6, Filepath: "f", FileSize: 1 << 24, DeploymentId: 7, FileChunkCount: 1, BinVer: 210}
	mk := func(name string, b *pb.MessageBatch, c *pb.Chunk, recv uint64, subset bool) *c13Frame {
		conn := &c13Conn{}
		f := &c13Frame{name: name, recvBuf: recv, batch: b, chunk: c, subset: subset}
		if b != nil {
			f.method = raftType
			if err := NewTCPConnection(conn, false).SendMessageBatch(*b); err != nil {
				panic(err)
			}
		} else {
			f.method = snapshotType
			if err := NewTCPSnapshotConnection(conn, false).SendChunk(*c); err != nil {
				panic(err)
			}
		}
		f.raw = append([]byte(nil), conn.out.Bytes()...)
		return f
	}
	def := recvBufSize
	return []*c13Frame{
		mk("heartbeat-batch", &hb, nil, def, false),
		mk("replicate-batch-recvbuf128", &rep, nil, 128, false),
		mk("snapshot-chunk-2000B", nil, &ck, def, false),
		mk("snapshot-chunk-2MiB+1000-default-recvbuf", nil, &big, def, true),
	}
}

type c13Rx struct {
	magic  []byte
	header []byte
	tbuf   []byte
}

// receive runs the receive steps of serveConn on the stream. delivered=false
// means the frame was rejected (why tells how).
func (rx *c13Rx) receive(conn net.Conn) (delivered bool, method uint16, payload []byte, why string) {
	if err := readMagicNumber(conn, rx.magic); err != nil {
		return false, 0, nil, "magic:" + c13ErrClass(err)
	}
	h, buf, err := readMessage(conn, rx.header, rx.tbuf, false)
	if err != nil {
		return false, 0, nil, "message:" + c13ErrClass(err)
	}
	return true, h.method, buf, ""
}

func c13ErrClass(err error) string {
	switch err {
	case ErrBadMessage:
		return "ErrBadMessage"
	case errPoisonReceived:
		return "poison"
	case io.EOF:
		return "EOF"
	case io.ErrUnexpectedEOF:
		return "ErrUnexpectedEOF"
	}
	return "other"
}

type c13FrameCase struct {
	Frame string
	Kind  string // clean | flip | trunc | stream
	Start int    // first flipped bit (bit 0 = MSB of byte 0)
	Mask  uint16 // bit i set: flip bit Start+i ; width <= 8
	Cut   int    // truncation: number of bytes kept
	Piece int    // read piece size (0 = whatever is asked)
}

func c13Region(bytePos int) string {
	switch {
	case bytePos < len(magicNumber):
		return "magic"
	case bytePos < len(magicNumber)+requestHeaderSize:
		return "header"
	}
	return "payload"
}

// c13RunFrameCase returns the failed clause ("" ok) and the outcome class.
func c13RunFrameCase(f *c13Frame, rx *c13Rx, c c13FrameCase, scratch *[]byte) (clause, outcome string) {
	old := recvBufSize
	recvBufSize = f.recvBuf
	defer func() { recvBufSize = old }()
	// f.work is a private mutable copy of the frame: damage is applied in
	// place and undone afterwards (copying 2 MiB per case would dominate)
	if f.work == nil {
		f.work = append([]byte(nil), f.raw...)
	}
	in := f.work
	sent := f.raw[len(magicNumber)+requestHeaderSize:]
	flip := func() {
		for i := 0; i < 16; i++ {
			if c.Mask&(1<<uint(i)) != 0 {
				bit := c.Start + i
				in[bit/8] ^= 0x80 >> uint(bit%8)
			}
		}
	}
	switch c.Kind {
	case "flip":
		flip()
		defer flip()
	case "trunc":
		in = in[:c.Cut]
	}
	conn := &c13Conn{in: in, piece: c.Piece}
	var ok bool
	var method uint16
	var payload []byte
	var why string
	if msg := verifkit.Catch(func() { ok, method, payload, why = rx.receive(conn) }); msg != "" {
		return "receive-panic: " + msg, ""
	}
	switch c.Kind {
	case "clean":
		if !ok {
			return "clean-frame-rejected: " + why, ""
		}
		if method != f.method || !bytes.Equal(payload, sent) {
			return "clean-frame-altered: delivered bytes differ from the bytes sent", ""
		}
		// and it decodes to the value that was sent
		if f.batch != nil {
			var b pb.MessageBatch
			if err := b.Unmarshal(payload); err != nil || !reflect.DeepEqual(&b, f.batch) {
				return fmt.Sprintf("clean-frame-decode: batch differs (err=%v)", err), ""
			}
		} else {
			var ck pb.Chunk
			if err := ck.Unmarshal(payload); err != nil || !reflect.DeepEqual(&ck, f.chunk) {
				return fmt.Sprintf("clean-frame-decode: chunk differs (err=%v)", err), ""
			}
		}
		return "", "clean:delivered"
	case "trunc":
		if ok {
			return fmt.Sprintf("truncated-frame-delivered: %d of %d bytes were enough", c.Cut, len(f.raw)), ""
		}
		return "", "trunc@" + c13Region(c.Cut) + ":rejected:" + why
	default:
		region := c13Region(c.Start / 8)
		if ok {
			if method == f.method && bytes.Equal(payload, sent) {
				return "", "flip@" + region + ":delivered-unchanged"
			}
			return "corrupted-frame-delivered: a damaged frame was handed to the message handler", ""
		}
		return "", "flip@" + region + ":rejected:" + why
	}
}

// c13Masks lists every error pattern that starts at a given bit: the single
// bit and every burst of width 2..8 (first and last bit flipped, inner bits
// arbitrary): 128 patterns.
func c13Masks() []uint16 {
	out := []uint16{1}
	for w := 2; w <= 8; w++ {
		for inner := 0; inner < 1<<uint(w-2); inner++ {
			out = append(out, 1|uint16(inner)<<1|1<<uint(w-1))
		}
	}
	return out
}

func c13Width(m uint16) int {
	w := 0
	for m != 0 {
		w++
		m >>= 1
	}
	return w
}

func TestVerifC13Frames(t *testing.T) {
	run := verifkit.Env()
	res := verifkit.NewResult()
	defer run.Finish(res)
	logger.GetLogger("transport").SetLevel(logger.CRITICAL)
	frames := c13MakeFrames()
	masks := c13Masks()
	rx := &c13Rx{magic: make([]byte, len(magicNumber)), header: make([]byte, requestHeaderSize), tbuf: make([]byte, payloadBufferSize)}
	var scratch []byte
	desc := ""
	for _, f := range frames {
		desc += fmt.Sprintf("%s(%dB) ", f.name, len(f.raw))
	}
	res.Rule = "transport frames " + desc + "built by the real send path; for the first three frames every start bit x {single flip, every burst of width 2..8 " +
		"(128 patterns)}, every truncation point x read piece sizes {whole,1,5}; for the 2 MiB frame (default recvBufSize, multi block receive loop) " +
		"single flips only within the first 84 bytes, 16 bytes around every receive block boundary and the last 64 bytes, bursts there only from " +
		"the first bit of each byte, truncations at the same positions; work item = (frame, start byte), owned by shard k mod n; every damaged input is distinct by construction " +
		"(distinct error patterns) and non-trivial (at least one bit differs / at least one byte missing); clean deliveries are not counted as distinct"
	res.Assumptions = append(res.Assumptions,
		"plain (non TLS) mode only: with MutualTLS the payload CRC is deliberately not computed",
		"error patterns wider than 8 bits and multiple separated errors are not enumerated",
		"2 MiB frame: stated subset of bit positions only")

	byName := map[string]*c13Frame{}
	for _, f := range frames {
		byName[f.name] = f
	}
	if run.Replay != "" {
		var c c13FrameCase
		run.LoadReplay(&c)
		if c.Kind == "stream" {
			if cl := c13Stream(frames, rx); cl != "" {
				res.Violate("frame/stream", cl, c)
			}
		} else if f := byName[c.Frame]; f != nil {
			if cl, _ := c13RunFrameCase(f, rx, c, &scratch); cl != "" {
				res.Violate("frame/"+f.name+"/"+c13Key13(cl), cl, c)
			}
		}
		res.Evaluations = 1
		return
	}
	stop := false
	var skipFrame *c13Frame // set after the first violation on a frame
	do := func(f *c13Frame, c c13FrameCase, distinct bool) {
		if skipFrame == f {
			return
		}
		c.Frame = f.name
		cl, oc := c13RunFrameCase(f, rx, c, &scratch)
		res.Evaluations++
		if distinct {
			res.DistinctNontrivial++
		}
		if cl != "" {
			res.Outcome("violation:" + c13Key13(cl))
			if res.Violate("frame/"+f.name+"/"+c13Key13(cl), fmt.Sprintf("%s; frame %s, case %+v", cl, f.name, c), c) {
				stop = true
			}
			// flush what was found: a receive path without its checks may go on
			// to die on an absurd allocation, which cannot be recovered from
			run.Finish(res)
			skipFrame = f
			return
		}
		res.Outcome(oc)
	}
	item := uint64(0)
	for _, f := range frames {
		L := len(f.raw)
		// canary, run by every shard and not counted: all error patterns inside
		// the two method bytes. A receive path that lost its header check shows
		// up here (raft <-> snapshot method swap) before the size field is
		// damaged, which would make it allocate absurd buffers and die.
		for start := 16; start < 32 && skipFrame != f; start++ {
			for _, m := range masks {
				if start+c13Width(m) > 32 {
					continue
				}
				c := c13FrameCase{Frame: f.name, Kind: "flip", Start: start, Mask: m}
				if cl, _ := c13RunFrameCase(f, rx, c, &scratch); cl != "" {
					res.Outcome("violation:" + c13Key13(cl))
					res.Violate("frame/"+f.name+"/"+c13Key13(cl), fmt.Sprintf("%s; frame %s, case %+v", cl, f.name, c), c)
					res.Cap("stopped after the first violation on frame " + f.name)
					run.Finish(res)
					skipFrame = f
					break
				}
			}
		}
		if run.Mine(item) {
			for _, piece := range []int{0, 1, 5, 4096} {
				do(f, c13FrameCase{Kind: "clean", Piece: piece}, false)
			}
		}
		item++
		interesting := func(pos int) bool {
			if !f.subset {
				return true
			}
			if pos < 84 || pos >= L-64 {
				return true
			}
			off := pos - len(magicNumber) - requestHeaderSize
			r := off % int(f.recvBuf)
			return r < 8 || r >= int(f.recvBuf)-8
		}
		for pos := 0; pos < L && !stop; pos++ {
			item++
			if skipFrame == f {
				res.Cap("stopped after the first violation on frame " + f.name)
				continue
			}
			if !interesting(pos) || !run.Mine(item) {
				continue
			}
			if run.Expired() {
				res.Cap("deadline")
				stop = true
				break
			}
			for b := 0; b < 8; b++ {
				start := pos*8 + b
				for _, m := range masks {
					if start+c13Width(m) > L*8 {
						continue
					}
					if f.subset && c13Width(m) > 1 && b != 0 {
						continue // 2 MiB frame: bursts only from the first bit of a byte
					}
					do(f, c13FrameCase{Kind: "flip", Start: start, Mask: m}, true)
				}
			}
			// truncation keeping pos bytes (pos < L: at least one byte missing)
			do(f, c13FrameCase{Kind: "trunc", Cut: pos}, true)
			if !f.subset {
				do(f, c13FrameCase{Kind: "trunc", Cut: pos, Piece: 1}, false)
				do(f, c13FrameCase{Kind: "trunc", Cut: pos, Piece: 5}, false)
			}
		}
	}
	if run.Shard == 0 {
		if cl := c13Stream(frames, rx); cl != "" {
			res.Violate("frame/stream", cl, c13FrameCase{Kind: "stream"})
		}
		res.Evaluations++
		res.Outcome("stream:all-delivered-in-order")
		res.Sample(3, "heartbeat-batch: flip bits 16..23 (first header byte) pattern 0b10000001 -> rejected")
		res.Sample(3, "snapshot-chunk-2000B: truncated to 1019 bytes, read in 5 byte pieces -> rejected")
	}
}

func c13Key13(cl string) string {
	for i := 0; i < len(cl); i++ {
		if cl[i] == ':' {
			return cl[:i]
		}
	}
	return cl
}

// c13Stream: the frames back to back on one connection are delivered in order,
// each unchanged (frame boundaries are found again after every frame).
func c13Stream(frames []*c13Frame, rx *c13Rx) string {
	var all []byte
	for _, f := range frames[:3] {
		all = append(all, f.raw...)
	}
	for _, piece := range []int{0, 3} {
		conn := &c13Conn{in: all, piece: piece}
		for _, f := range frames[:3] {
			ok, method, payload, why := rx.receive(conn)
			if !ok {
				return "stream: frame " + f.name + " rejected: " + why
			}
			if method != f.method || !bytes.Equal(payload, f.raw[len(magicNumber)+requestHeaderSize:]) {
				return "stream: frame " + f.name + " altered"
			}
		}
		if ok, _, _, _ := rx.receive(conn); ok {
			return "stream: a frame was delivered from an exhausted stream"
		}
	}
	return ""
}
