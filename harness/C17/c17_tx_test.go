//go:build verif

// C17 part `tx`: progress of the transport's send path, on the schedx engine
// (E5). transport.go is compiled from a copy (schedrewrite -engine) whose
// sync, sync/atomic, time and syncutil.Stopper point to the verifkit shims, so
// the per-target connection workers that Transport.send starts become threads
// of the controlled execution and the idle timer only fires when the scenario
// says so. The network is a recording raftio.ITransport.
//
// Oracle (what C17 needs from the transport: replicas that "can exchange
// messages" do exchange them): a message that Send() accepted while the system
// was quiescent (every worker parked in its select or gone) and the connection
// healthy must reach the connection. Messages accepted while a worker is
// shutting down may be lost (raft retries) - those are not judged.
package transport

import (
	"context"
	"fmt"
	"os"
	"regexp"
	"runtime"
	"sort"
	"strings"
	"sync/atomic"
	"testing"

	"github.com/lni/dragonboat/v4/config"
	"github.com/lni/dragonboat/v4/internal/registry"
	"github.com/lni/dragonboat/v4/internal/server"
	"github.com/lni/dragonboat/v4/internal/settings"
	"github.com/lni/dragonboat/v4/internal/verifkit"
	"github.com/lni/dragonboat/v4/internal/verifkit/vsched"
	"github.com/lni/dragonboat/v4/internal/verifkit/vtime"
	"github.com/lni/dragonboat/v4/internal/vfs"
	"github.com/lni/dragonboat/v4/logger"
	"github.com/lni/dragonboat/v4/raftio"
	pb "github.com/lni/dragonboat/v4/raftpb"
)

type txWorld struct {
	sc        *txScenario
	t         *Transport
	delivered map[uint64]int // message id (Commit field) -> times handed to a connection
	accepted  map[uint64]bool
	strict    map[uint64]bool // sent at quiescence on a healthy connection
	unreach   int
	connects  int
	failConn  bool
	errs      []string
	next      uint64
	lastID    uint64
	closed    bool
	// snapshot lane
	snapSent, snapRefused, snapStatus int
}

type txCompactor struct{}

func (txCompactor) Compact(uint64) error { return nil }

type txConn struct{ w *txWorld }

func (c *txConn) Close() {}
func (c *txConn) SendMessageBatch(b pb.MessageBatch) error {
	vsched.Yield()
	for _, m := range b.Requests {
		c.w.delivered[m.Commit]++
	}
	return nil
}

type txSnapConn struct{}

func (c *txSnapConn) Close()                         {}
func (c *txSnapConn) SendChunk(chunk pb.Chunk) error { return nil }

type txTrans struct{ w *txWorld }

func (g *txTrans) Name() string { return "verif-tx" }
func (g *txTrans) Start() error { return nil }
func (g *txTrans) Close() error { return nil }
func (g *txTrans) GetConnection(ctx context.Context, target string) (raftio.IConnection, error) {
	vsched.Yield()
	g.w.connects++
	if g.w.failConn {
		return nil, fmt.Errorf("connection refused")
	}
	return &txConn{w: g.w}, nil
}
func (g *txTrans) GetSnapshotConnection(ctx context.Context, target string) (raftio.ISnapshotConnection, error) {
	return &txSnapConn{}, nil
}

type txFactory struct{ w *txWorld }

func (f *txFactory) Create(config.NodeHostConfig, raftio.MessageHandler, raftio.ChunkHandler) raftio.ITransport {
	return &txTrans{w: f.w}
}
func (f *txFactory) Validate(string) bool { return true }

type txHandler struct{ w *txWorld }

func (h *txHandler) HandleMessageBatch(pb.MessageBatch) (uint64, uint64) { return 0, 0 }
func (h *txHandler) HandleUnreachable(uint64, uint64)                    { h.w.unreach++ }
func (h *txHandler) HandleSnapshotStatus(uint64, uint64, bool)           { h.w.snapStatus++ }
func (h *txHandler) HandleSnapshot(uint64, uint64, uint64)               {}

type txEvents struct{}

func (txEvents) ConnectionEstablished(string, bool) {}
func (txEvents) ConnectionFailed(string, bool)      {}

type txScenario struct {
	Name string   `json:"name"`
	Host []string `json:"host"`
}

func txQuiet() {
	for _, n := range []string{"dragonboat", "rsm", "raft", "raftpb", "config", "transport", "logdb", "grpc", "registry", "server"} {
		logger.GetLogger(n).SetLevel(logger.CRITICAL)
	}
}

func txSetup(sc *txScenario, wp **txWorld) func(r *vsched.Run) {
	return func(r *vsched.Run) {
		vtime.Reset()
		w := &txWorld{sc: sc, delivered: map[uint64]int{}, accepted: map[uint64]bool{}, strict: map[uint64]bool{}}
		*wp = w
		fs := vfs.NewMemFS()
		c := config.NodeHostConfig{MaxSendQueueSize: 256 * 1024 * 1024, RaftAddress: "localhost:9876",
			Expert: config.ExpertConfig{TransportFactory: &txFactory{w: w}}}
		env, err := server.NewEnv(c, fs)
		if err != nil {
			panic(err)
		}
		nodes := registry.NewNodeRegistry(settings.Soft.StreamConnections, nil)
		dir := func(shardID uint64, replicaID uint64) string {
			return fmt.Sprintf("/snapshot-%d-%d", shardID, replicaID)
		}
		t, err := NewTransport(c, &txHandler{w: w}, env, nodes, dir, txEvents{}, fs)
		if err != nil {
			panic(err)
		}
		w.t = t
		nodes.Add(100, 2, "host2:1")
		nodes.Add(100, 3, "host3:1")
		r.Go("host", func() {
			for _, op := range sc.Host {
				vsched.Yield()
				w.hostOp(op)
			}
		})
	}
}

func (w *txWorld) send(to uint64, strict bool) {
	w.next++
	id := w.next
	ok := w.t.Send(pb.Message{Type: pb.Heartbeat, To: to, From: 1, ShardID: 100, Commit: id})
	w.accepted[id] = ok
	w.lastID = id
	if strict && ok {
		w.strict[id] = true
	}
}

func (w *txWorld) hostOp(op string) {
	switch op {
	case "s2", "s3": // NodeHost.sendMessage -> Transport.Send
		w.send(uint64(op[1]-'0'), false)
	case "S2", "S3": // wait until the transport is quiescent, then send: this one must arrive
		vsched.Await(func() bool { return vsched.Quiescent() }, "quiescence")
		w.send(uint64(op[1]-'0'), !w.failConn)
	case "a": // wait for the last message to reach the connection
		id := w.lastID
		if w.accepted[id] {
			vsched.Await(func() bool { return w.delivered[id] > 0 }, fmt.Sprintf("delivery of message %d", id))
		}
	case "K2": // host2 is down for good: its circuit breaker is open (and does not re-close by itself)
		w.t.GetCircuitBreaker("host2:1").Break()
	case "n2": // NodeHost.sendMessage for an InstallSnapshot to a witness on host2 (no files needed)
		m := pb.Message{Type: pb.InstallSnapshot, To: 2, From: 1, ShardID: 100,
			Snapshot: pb.Snapshot{Index: 10 + w.next, Term: 1, Witness: true, ShardID: 100}}
		w.next++
		m.Snapshot.Load(txCompactor{})
		if w.t.SendSnapshot(m) {
			w.snapSent++
		} else {
			w.snapRefused++
		}
	case "g2": // snapshotter asks for a stream sink to host2
		if sink := w.t.GetStreamSink(100, 2); sink != nil {
			if err := sink.Close(); err != nil {
				w.errs = append(w.errs, err.Error())
			}
		}
	case "q":
		vsched.Await(func() bool { return vsched.Quiescent() }, "quiescence")
	case "I": // a minute without traffic: the idle timers of the connection workers fire
		vtime.FireTimers()
	case "C":
		if err := w.t.Close(); err != nil {
			w.errs = append(w.errs, err.Error())
		}
		w.closed = true
	default:
		panic("unknown op " + op)
	}
}

var txNum = regexp.MustCompile(`0x[0-9a-f]+|\d+`)

func (w *txWorld) judge(o *vsched.Outcome) (map[string]string, []string) {
	finds := map[string]string{}
	switch o.Status {
	case vsched.Panicked:
		finds["tx/panic/"+txNum.ReplaceAllString(o.Msg, "N")] = "a thread panicked: " + o.Msg
	case vsched.Deadlock:
		finds["tx/deadlock"] = "deadlock: " + o.Msg
	case vsched.Livelock:
		finds["tx/livelock"] = "livelock: " + o.Msg
	}
	for _, e := range w.errs {
		finds["tx/error/"+txNum.ReplaceAllString(e, "N")] = "unexpected error: " + e
	}
	if o.Status == vsched.Completed && os.Getenv("VERIF_TX_ORACLE") != "dup" {
		// every snapshot job slot is given back: the transport has 64 of them for
		// the life of the process, a leak ends every later snapshot transfer
		if j := atomic.LoadUint64(&w.t.jobs); j != 0 {
			finds["tx/snapshot-job-slots-leaked"] = fmt.Sprintf("%d snapshot job slot(s) are still taken although no snapshot job is left (%d sends accepted, %d refused): after 64 leaks this host can never send or stream a snapshot again", j, w.snapSent, w.snapRefused)
		}
	}
	lost, dup := 0, 0
	dupOracle := os.Getenv("VERIF_TX_ORACLE") == "dup"
	if dupOracle {
		// C01 rests on the transport never duplicating a message (a forwarded
		// proposal of a NoOP session would be applied twice)
		for id, n := range w.delivered {
			if n > 1 {
				finds["tx/message-sent-twice"] = fmt.Sprintf("message %d was handed to the connection %d times", id, n)
			}
		}
	}
	if o.Status == vsched.Completed && !dupOracle {
		for id := range w.strict {
			if w.delivered[id] == 0 {
				finds["tx/accepted-at-quiescence-never-sent"] = fmt.Sprintf("message %d was accepted by Send() while every connection worker was idle or gone and the connection healthy, and never reached the connection although nothing is left to run: messages to that host are black-holed", id)
			}
		}
	}
	if o.Status == vsched.Completed {
		for id, ok := range w.accepted {
			if ok && w.delivered[id] == 0 {
				lost++
			}
			if w.delivered[id] > 1 {
				dup++
			}
		}
	}
	classes := []string{fmt.Sprintf("sent:%d lost:%d dup:%d connects:%d unreachable:%d snap:%d/%d/%d", len(w.accepted), lost, dup, w.connects, w.unreach, w.snapSent, w.snapRefused, w.snapStatus)}
	if len(o.Parked) > 0 {
		ps := append([]string(nil), o.Parked...)
		for i := range ps {
			ps[i] = txNum.ReplaceAllString(ps[i], "N")
		}
		sort.Strings(ps)
		classes = append(classes, "parked:"+strings.Join(ps, ","))
	}
	return finds, classes
}

func txScenarios() []txScenario {
	var out []txScenario
	for _, h := range []string{
		"s2 a C",
		"s2 a I S2 a C",    // idle teardown, then traffic again
		"s2 I s2 a S2 a C", // send racing with the idle exit
		"s2 s2 a I S2 a I S2 a C",
		"s2 s3 a I S2 a S3 a C", // two targets
		"s2 a I s2 s2 S2 a C",
		"s2 C",
		"n2 q C",          // a snapshot to a healthy peer
		"K2 n2 n2 g2 q C", // snapshot sends and a stream sink request while the peer's breaker is open
		"s2 a K2 n2 s2 n2 q C",
		"s2 s2 s2 a C", // a burst drained in one pass: more than one batch (the size limit is scaled down)
		"s2 a s2 s2 s2 s2 a C",
	} {
		out = append(out, txScenario{Name: h, Host: strings.Fields(h)})
	}
	return out
}

type txReplay struct {
	Scenario txScenario `json:"scenario"`
	Choices  []int      `json:"choices"`
	Schedule string     `json:"schedule"`
	Horizon  int        `json:"horizon"`
	Part     string     `json:"part"`
}

const txHorizon = 3000

func TestVerifC17Tx(t *testing.T) {
	run := verifkit.Env()
	res := verifkit.NewResult()
	defer func() {
		if rec := recover(); rec != nil {
			panic(rec)
		}
		run.Finish(res)
	}()
	runtime.GOMAXPROCS(1)
	txQuiet()
	bound := run.Pick(3, 4)
	res.Rule = fmt.Sprintf("case = one complete schedule of the real Transport.send / connectAndProcess / processMessages goroutines plus a NodeHost thread over a recording connection; every schedule with <= %d deviations from the default schedule is executed; non-trivial = a connection worker was started and the schedule has a deviation", bound)
	res.Assumptions = []string{
		"schedx: scheduling points at every sync/atomic operation and channel statement of transport.go and inside GetConnection / SendMessageBatch of the recording network; the idle timer fires only where the scenario says so; when several cases of a select are ready the choice is part of the schedule",
		"healthy connections only (the circuit breaker's real-time back-off is not driven)",
	}
	var rp txReplay
	if run.LoadReplay(&rp) {
		sc := rp.Scenario
		var w *txWorld
		var first uint64
		for i := 0; i < 2; i++ {
			o := vsched.Replay(rp.Horizon, txSetup(&sc, &w), rp.Choices, func(o *vsched.Outcome) {
				finds, _ := w.judge(o)
				for k, d := range finds {
					res.Violate(k, d+" | scenario: "+sc.Name+" | schedule: "+o.Schedule(), rp)
				}
			})
			if i == 1 && o.Digest() != first {
				panic("replay is not deterministic")
			}
			first = o.Digest()
		}
		res.Evaluations = 1
		return
	}
	scs := txScenarios()
	minimal := map[string]int{}
	var tot vsched.Stats
	for si := range scs {
		sc := &scs[si]
		if f := os.Getenv("VERIF_SCENARIO"); f != "" && !strings.Contains(sc.Name, f) {
			continue
		}
		if run.Expired() {
			res.Cap("deadline reached before scenario " + sc.Name)
			break
		}
		var w *txWorld
		salt := verifkit.Hash64(sc.Name)
		st := vsched.Explore(vsched.Config{
			Bound: bound, Horizon: txHorizon, SplitDepth: 1, VerifyEvery: 97, GCEvery: 256, CostAll: true,
			Mine:    func(k uint64) bool { return run.Mine((k ^ salt) % 1000003) },
			Expired: run.Expired,
			Observe: func(o *vsched.Outcome) string {
				_, classes := w.judge(o)
				return strings.Join(classes, " ")
			},
		}, txSetup(sc, &w), func(o *vsched.Outcome) bool {
			finds, classes := w.judge(o)
			if os.Getenv("VERIF_TX_DEBUG") != "" {
				fmt.Println("SCHEDULE", o.Preemptions, o.Schedule(), classes)
			}
			res.Outcome(strings.Join(classes, " "))
			if w.connects > 0 && o.Preemptions > 0 {
				res.DistinctNontrivial++
			}
			for k, d := range finds {
				score := o.Preemptions*100000 + o.Points
				if old, ok := minimal[k]; ok && old <= score {
					continue
				}
				minimal[k] = score
				rpl := txReplay{Scenario: *sc, Choices: append([]int(nil), o.Choices...), Schedule: o.Schedule(), Horizon: txHorizon, Part: "tx"}
				replaced := false
				for i := range res.Violations {
					if res.Violations[i].Key == k {
						res.Violations[i].Desc = d + " | scenario: " + sc.Name + fmt.Sprintf(" | %d deviation(s), schedule: %s", o.Preemptions, o.Schedule())
						res.Violations[i].Replay = rpl
						replaced = true
					}
				}
				if !replaced {
					res.MaxViolations = 1 << 30
					res.Violate(k, d+" | scenario: "+sc.Name+fmt.Sprintf(" | %d deviation(s), schedule: %s", o.Preemptions, o.Schedule()), rpl)
				}
			}
			return os.Getenv("VERIF_STOP_FIRST") != "" && len(finds) > 0
		})
		res.Extra["tx_executions:"+sc.Name] = st.Executions
		tot.Executions += st.Executions
		tot.Schedules += st.Schedules
		tot.Verified += st.Verified
		tot.Retries += st.Retries
		tot.Deadlocks += st.Deadlocks
		tot.Panics += st.Panics
		tot.TotalPoints += st.TotalPoints
		if st.MaxPoints > tot.MaxPoints {
			tot.MaxPoints = st.MaxPoints
		}
		if run.Shard == 0 {
			res.Sample(4, map[string]interface{}{"scenario": sc.Name, "schedules_this_shard": st.Executions, "max_points": st.MaxPoints})
		}
		if st.Capped {
			res.Cap("deadline reached inside scenario " + sc.Name)
			break
		}
	}
	if run.Shard != 0 {
		res.Sample(1, map[string]interface{}{"scenario": scs[run.Shard%len(scs)].Name})
	}
	res.Evaluations = tot.Executions
	if tot.Schedules != tot.Executions && res.NViolations() == 0 {
		panic(fmt.Sprintf("explorer executed a schedule twice: %d executions, %d distinct", tot.Executions, tot.Schedules))
	}
	res.Extra["tx_executions"] = tot.Executions
	res.Extra["tx_replay_verified"] = tot.Verified
	res.Extra["tx_divergence_retries"] = tot.Retries
	res.Extra["tx_max_points"] = tot.MaxPoints
	res.Extra["tx_deadlocks"] = tot.Deadlocks
	res.Extra["tx_panics"] = tot.Panics
	res.Extra["tx_deviation_bound"] = bound
}
