//go:build verif

// C17, part mq: the node's message queue (internal/server.MessageQueue) is the
// path on which the transport's feedback reaches raft: delayed SnapshotStatus
// messages (a failed transfer is reported after 10 ticks, a receiver's
// confirmation after 2), never-dropped messages (snapshots, unreachable
// reports) and ordinary messages. The liveness argument of C17 assumes that
// feedback arrives: a lost SnapshotStatus leaves the leader's remote in the
// Snapshot state, which has no timeout of its own. Every sequence of queue
// operations up to a depth is executed on the real queue and compared with a
// multiset model: every accepted message comes out of Get exactly once, a
// delayed one not before its delay has passed and with the first Get after it.
package server

import (
	"fmt"
	"sort"
	"testing"

	"github.com/lni/dragonboat/v4/internal/verifkit"
	pb "github.com/lni/dragonboat/v4/raftpb"
)

const (
	mqAdd = iota
	mqMust
	mqDelay1
	mqDelay2
	mqDelay3
	mqTick
	mqGet
	mqOps
)

var mqNames = [...]string{"Add", "MustAdd", "AddDelayed(1)", "AddDelayed(2)", "AddDelayed(3)", "Tick", "Get"}

type mqModelMsg struct {
	id  uint64
	due uint64 // returned by the first Get with tick > due (delayed only)
}

// mqRun executes one operation sequence; "" = ok.
func mqRun(ops []uint8) string {
	q := NewMessageQueue(4, false, 0, 0)
	var tick, next uint64
	var normal, must []uint64
	var delayed []mqModelMsg
	check := func(got []pb.Message) string {
		var want []uint64
		want = append(want, must...)
		var keep []mqModelMsg
		for _, d := range delayed {
			if d.due < tick {
				want = append(want, d.id)
			} else {
				keep = append(keep, d)
			}
		}
		delayed = keep
		want = append(want, normal...)
		must, normal = nil, nil
		var have []uint64
		for _, m := range got {
			have = append(have, m.Hint)
		}
		sort.Slice(want, func(i, j int) bool { return want[i] < want[j] })
		sort.Slice(have, func(i, j int) bool { return have[i] < have[j] })
		if fmt.Sprint(want) != fmt.Sprint(have) {
			return fmt.Sprintf("Get at tick %d returned messages %v, expected %v (ids in the order they were added)", tick, have, want)
		}
		return ""
	}
	for i, op := range ops {
		next++
		switch op {
		case mqAdd:
			added, _ := q.Add(pb.Message{Type: pb.Heartbeat, Hint: next})
			if added {
				normal = append(normal, next)
			} else if len(normal) < 4 {
				return fmt.Sprintf("op %d: Add refused with %d of 4 slots used", i, len(normal))
			}
		case mqMust:
			if !q.MustAdd(pb.Message{Type: pb.Unreachable, Hint: next}) {
				return fmt.Sprintf("op %d: MustAdd refused on an open queue", i)
			}
			must = append(must, next)
		case mqDelay1, mqDelay2, mqDelay3:
			d := uint64(op-mqDelay1) + 1
			if !q.AddDelayed(pb.Message{Type: pb.SnapshotStatus, Hint: next}, d) {
				return fmt.Sprintf("op %d: AddDelayed refused on an open queue", i)
			}
			delayed = append(delayed, mqModelMsg{id: next, due: tick + d})
		case mqTick:
			q.Tick()
			tick++
		case mqGet:
			if msg := check(q.Get()); msg != "" {
				return fmt.Sprintf("op %d: %s", i, msg)
			}
		}
	}
	// drain: after enough ticks everything that was accepted has come out
	for k := 0; k < 5; k++ {
		q.Tick()
		tick++
	}
	if msg := check(q.Get()); msg != "" {
		return "final drain: " + msg
	}
	if len(delayed) != 0 {
		return fmt.Sprintf("final drain: %d delayed messages never became due", len(delayed))
	}
	return ""
}

func mqDescribe(ops []uint8) []string {
	out := make([]string, len(ops))
	for i, o := range ops {
		out[i] = mqNames[o]
	}
	return out
}

func TestVerifC17MQ(t *testing.T) {
	run := verifkit.Env()
	res := verifkit.NewResult()
	defer run.Finish(res)
	depth := run.Pick(8, 10)
	res.Rule = fmt.Sprintf("every sequence of exactly %d operations over {Add, MustAdd, AddDelayed(1|2|3 ticks), Tick, Get} on the real server.MessageQueue (size 4), followed by 5 ticks and a final Get; compared after every Get with a multiset model; non-trivial = sequences holding at least two delayed messages at once", depth)
	var rp struct {
		Ops []uint8 `json:"ops"`
	}
	if run.LoadReplay(&rp) {
		res.Evaluations = 1
		if msg := mqRun(rp.Ops); msg != "" {
			res.Violate("C17:mq:"+keyOfMQ(msg), fmt.Sprintf("C17: message queue after %v: %s", mqDescribe(rp.Ops), msg), rp)
		}
		return
	}
	ops := make([]uint8, depth)
	var rec func(pos int, prefixKey uint64)
	rec = func(pos int, prefixKey uint64) {
		if res.NViolations() >= res.MaxViolations || run.Expired() {
			if run.Expired() {
				res.Cap("deadline reached")
			}
			return
		}
		if pos == depth {
			res.Evaluations++
			nd, maxd := 0, 0
			for _, o := range ops {
				switch o {
				case mqDelay1, mqDelay2, mqDelay3:
					nd++
				case mqGet:
					nd = 0
				}
				if nd > maxd {
					maxd = nd
				}
			}
			if maxd >= 2 {
				res.DistinctNontrivial++
			}
			if res.Evaluations%200000 == 1 {
				res.Sample(3, mqDescribe(ops))
			}
			if msg := mqRun(ops); msg != "" {
				cp := append([]uint8(nil), ops...)
				// shortest failing prefix
				for n := 1; n <= len(cp); n++ {
					if m := mqRun(cp[:n]); m != "" {
						cp, msg = cp[:n], m
						break
					}
				}
				res.Violate("C17:mq:"+keyOfMQ(msg), fmt.Sprintf("C17: message queue after %v: %s", mqDescribe(cp), msg), map[string]interface{}{"ops": cp})
			}
			return
		}
		for o := uint8(0); o < mqOps; o++ {
			if pos == 2 && !run.Mine(prefixKey*uint64(mqOps)+uint64(o)) {
				continue
			}
			ops[pos] = o
			rec(pos+1, prefixKey*uint64(mqOps)+uint64(o))
		}
	}
	rec(0, 0)
}

func keyOfMQ(msg string) string {
	out := make([]byte, 0, 60)
	for i := 0; i < len(msg) && len(out) < 60; i++ {
		if (msg[i] >= '0' && msg[i] <= '9') || msg[i] == '[' || msg[i] == ']' {
			continue
		}
		out = append(out, msg[i])
	}
	return string(out)
}
