//go:build verif

// C12S, part "sched" (engine E5 schedx) and part "race".
//
// Real goroutines run the real code of request.go / queue.go (compiled from a
// copy whose sync and sync/atomic imports point to the vsync / vatomic shims)
// on the REAL pendingProposal / pendingReadIndex / pendingConfigChange /
// pendingSnapshot tables, one fresh set per execution. For every scenario
// (2-4 threads: clients, stepper, applier, closer) ALL schedules with at most
// k preemptions are enumerated and the oracle of property C12 is evaluated at
// the end of every execution.
package dragonboat

import (
	"bytes"
	"fmt"
	"math/rand"
	"os"
	"os/exec"
	"regexp"
	"runtime"
	"sort"
	"strings"
	"sync"
	"testing"

	"github.com/lni/dragonboat/v4/client"
	"github.com/lni/dragonboat/v4/config"
	"github.com/lni/dragonboat/v4/internal/rsm"
	"github.com/lni/dragonboat/v4/internal/verifkit"
	"github.com/lni/dragonboat/v4/internal/verifkit/vsched"
	"github.com/lni/dragonboat/v4/logger"
	pb "github.com/lni/dragonboat/v4/raftpb"
	sm "github.com/lni/dragonboat/v4/statemachine"
)

// ---------------------------------------------------------------- scenarios

// c12sScenario: thread programs. Client programs are op lists over
// {P propose, R read, C confchange, S snapshot, a await, r release};
// stepper / applier / closer programs are lists of the ops documented in
// NOTES.md.
type c12sScenario struct {
	Name         string     `json:"name"`
	NotifyCommit bool       `json:"notify_commit"`
	Clients      [][]string `json:"clients"`
	Stepper      []string   `json:"stepper,omitempty"`
	Committer    []string   `json:"committer,omitempty"`
	Applier      []string   `json:"applier,omitempty"`
	Closer       []string   `json:"closer,omitempty"`
}

// retries: when two requests sit in one pending map, close() and gc iterate
// that map in Go's randomised order, which the scheduler cannot own. A
// re-execution that diverges from the recorded run for that reason is retried
// (the reversed order of two entries has probability 1/8 per try); the number
// of retries is reported (0 for the single-client scenarios on a correct
// tree). Persistent divergence is still a hard harness error.
func (s *c12sScenario) retries() int { return 512 }

func (s *c12sScenario) threads() int {
	n := len(s.Clients)
	if len(s.Stepper) > 0 {
		n++
	}
	if len(s.Committer) > 0 {
		n++
	}
	if len(s.Applier) > 0 {
		n++
	}
	if len(s.Closer) > 0 {
		n++
	}
	return n
}

var (
	c12sCP2 = []string{"P", "a", "r", "P", "a"}
	c12sCP1 = []string{"P", "a", "r"}
	c12sCR2 = []string{"R", "a", "r", "R", "a"}
	c12sCR1 = []string{"R", "a", "r"}
	c12sCPR = []string{"P", "a", "r", "R", "a"}
	c12sCRP = []string{"R", "a", "r", "P", "a"}
	// x = Release() BEFORE the result was received (must be a no-op unless the
	// result already sits in the channel); the request is not awaited afterwards
	c12sCPx = []string{"P", "x", "P", "a"}
	c12sCRx = []string{"R", "x", "R", "a"}
	c12sCC2 = []string{"C", "a", "C", "a"}
	c12sCS2 = []string{"S", "a", "S", "a"}
)

func c12sScenarios(thorough bool) []c12sScenario {
	var out []c12sScenario
	add := func(fam string, nc bool, clients [][]string, st, cm, ap, cl []string) {
		s := c12sScenario{NotifyCommit: nc, Clients: clients, Stepper: st, Committer: cm, Applier: ap, Closer: cl}
		if s.threads() < 2 || s.threads() > 4 {
			return
		}
		var cn []string
		for _, c := range clients {
			cn = append(cn, strings.Join(c, ""))
		}
		s.Name = fmt.Sprintf("%s nc=%v clients=%s stepper=%s committer=%s applier=%s closer=%s", fam, nc,
			strings.Join(cn, "+"), strings.Join(st, ","), strings.Join(cm, ","), strings.Join(ap, ","), strings.Join(cl, ","))
		out = append(out, s)
	}
	cl := [][]string{nil, {"cl"}}
	// proposals, NotifyCommit off: client + step worker + apply worker + closer
	for _, c := range [][]string{c12sCP2, c12sCP1} {
		steppers := [][]string{{"hp"}, {"hp", "dp"}, {"hp", "tg"}, {"tg", "hp"}}
		if thorough {
			steppers = append(steppers, []string{"hp", "tg", "hp"}) // the largest spaces: thorough tier only
		}
		for _, st := range steppers {
			for _, ap := range [][]string{nil, {"ap"}, {"ap", "ap"}} {
				if !thorough && len(ap) == 2 && len(st) == 2 && st[0] == "tg" {
					continue
				}
				for _, k := range cl {
					add("proposal", false, [][]string{c}, st, nil, ap, k)
				}
			}
		}
	}
	// premature Release
	for _, k := range cl {
		add("premature", false, [][]string{c12sCPx}, []string{"hp"}, nil, []string{"ap", "ap"}, k)
		add("premature", false, [][]string{c12sCPx}, []string{"hp", "tg"}, nil, []string{"ap"}, k)
		add("premature", false, [][]string{c12sCRx}, []string{"hr", "rr"}, nil, nil, k)
		add("premature", false, [][]string{c12sCRx}, []string{"hr", "rr"}, nil, []string{"ar"}, k)
	}
	// proposals, NotifyCommit on: the commit worker is a thread of its own
	for _, c := range [][]string{c12sCP2, c12sCP1} {
		for _, st := range [][]string{{"hp"}, {"hp", "tg"}, {"hp", "dp"}} {
			for _, ap := range [][]string{nil, {"ap"}} {
				for _, k := range cl {
					add("proposal", true, [][]string{c}, st, []string{"cm"}, ap, k)
				}
			}
		}
	}
	// reads
	for _, c := range [][]string{c12sCR2, c12sCR1} {
		for _, st := range [][]string{{"hr"}, {"hr", "rr"}, {"hr", "dr"}, {"hr", "tg"}, {"hr", "rr", "hr"}, {"hr", "rr", "tg"}} {
			for _, ap := range [][]string{nil, {"ar"}} {
				for _, k := range cl {
					add("read", false, [][]string{c}, st, nil, ap, k)
				}
			}
		}
	}
	// read index confirmed at an index that is not applied yet: must not complete
	for _, st := range [][]string{{"hr", "r7"}, {"hr", "r7", "tg"}} {
		for _, ap := range [][]string{nil, {"ar"}} {
			add("read", false, [][]string{c12sCR1}, st, nil, ap, nil)
		}
	}
	add("read", false, [][]string{c12sCR1}, []string{"hr", "r7"}, nil, []string{"ar"}, []string{"cl"})
	// cross-kind pool reuse, two clients
	for _, k := range cl {
		add("cross", false, [][]string{c12sCPR}, []string{"hp", "hr", "rr"}, nil, []string{"ap"}, k)
		add("cross", false, [][]string{c12sCRP}, []string{"hr", "rr", "hp"}, nil, []string{"ap"}, k)
		add("cross2", false, [][]string{c12sCR1, c12sCR1}, []string{"hr", "rr"}, nil, nil, k)
		add("cross2", false, [][]string{c12sCP2, c12sCR1}, []string{"hp", "hr"}, nil, nil, k)
	}
	add("cross2", false, [][]string{c12sCP1, c12sCR1}, []string{"hp", "hr", "rr"}, nil, []string{"ap"}, nil)
	add("cross2", false, [][]string{c12sCP1, c12sCP1}, []string{"hp", "tg"}, nil, []string{"ap"}, nil)
	add("cross2", false, [][]string{c12sCP1, c12sCR1}, []string{"hp", "hr"}, nil, nil, []string{"cl"})
	// config change
	for _, st := range [][]string{{"hc"}, {"hc", "tg"}, {"hc", "dc"}} {
		for _, ap := range [][]string{nil, {"ac"}} {
			for _, k := range cl {
				add("confchange", false, [][]string{c12sCC2}, st, nil, ap, k)
			}
		}
	}
	for _, st := range [][]string{{"hc"}, {"hc", "tg"}} {
		for _, ap := range [][]string{nil, {"ac"}} {
			for _, k := range cl {
				add("confchange", true, [][]string{c12sCC2}, st, []string{"cc"}, ap, k)
			}
		}
	}
	// snapshot
	for _, st := range [][]string{{"hs"}, {"hs", "tg"}} {
		for _, ap := range [][]string{nil, {"as"}, {"ai"}} {
			for _, k := range cl {
				add("snapshot", false, [][]string{c12sCS2}, st, nil, ap, k)
			}
		}
	}
	return out
}

// ---------------------------------------------------------------- world

type c12sResult struct {
	code  RequestResultCode
	value uint64
	seq   int
}

type c12sReq struct {
	id         int
	kind       string // proposal | read | confchange | snapshot
	client     int
	obj        *RequestState
	key        uint64
	timeout    uint64
	tickLo     uint64 // largest tick whose tick() had completed when the call started
	tickHi     uint64 // largest tick whose tick() had started when the call returned
	callStart  int
	accepted   int // seq when the call returned without error
	results    []c12sResult
	committed  []int // seqs of Committed notifications received
	releaseSeq int   // seq of the Release() call (0 = never)
	premature  int   // seq of a Release() call made before the result was received
	taken      int   // seq when the stepper took it from the incoming queue / channel
	batch      int   // reads: index of the batch it was added to (-1 = none)
	batchAdded int   // seq when add() of its batch completed
}

type c12sApplied struct {
	key      uint64
	value    uint64
	rejected bool
	seq      int
}

type c12sBatch struct {
	ctx      pb.SystemCtx
	objs     []*RequestState
	takeSeq  int
	addSeq   int
	readySeq int // addReady started
	readyIdx uint64
	dropSeq  int
}

type c12sWorld struct {
	sc   *c12sScenario
	run  *vsched.Run
	free bool
	mu   sync.Mutex // harness bookkeeping only (never held across a scheduling point)

	pool *sync.Pool
	pq   *entryQueue
	pp   pendingProposal
	rq   *readIndexQueue
	pri  pendingReadIndex
	ccC  chan configChangeRequest
	pcc  pendingConfigChange
	ssC  chan rsm.SSRequest
	ps   pendingSnapshot

	reqs        []*c12sReq
	refused     []string
	refusedSeq  []int // return stamps of refused pooled (proposal/read) calls
	takenP      []pb.Entry
	fate        []int // per taken entry: 0 none, 1 dropped, 2 committing, 3 committed, +4 applied
	ccFate      []int // same for taken config changes
	batches     []*c12sBatch
	ccKeys      []uint64
	ssKeys      []uint64
	applied     []c12sApplied
	droppedKeys map[uint64]int
	commitKeys  map[uint64]int
	appliedIdx  []c12sApplied // read side: applied(index) calls (value = index)
	ticks       []struct {
		t          uint64
		start, end int
	}
	gcs []struct {
		tick       uint64
		start, end int
	}
	closeStart int
	closeEnd   int
	fresh      int
	resultN    uint64
	curTick    uint64
}

func (w *c12sWorld) seq() int { return w.run.Seq() }

func c12sNewWorld(sc *c12sScenario, run *vsched.Run) *c12sWorld {
	w := &c12sWorld{sc: sc, run: run, free: run.Free(), droppedKeys: map[uint64]int{}, commitKeys: map[uint64]int{}}
	// exactly what NodeHost.createPools does
	p := &sync.Pool{}
	nc := sc.NotifyCommit
	p.New = func() interface{} {
		obj := &RequestState{}
		obj.CompletedC = make(chan RequestResult, 1)
		obj.pool = p
		if nc {
			obj.committedC = make(chan RequestResult, 1)
		}
		w.mu.Lock()
		w.fresh++
		w.mu.Unlock()
		return obj
	}
	w.pool = p
	cfg := config.Config{ShardID: 1, ReplicaID: 1}
	w.pq = newEntryQueue(4, 0)
	// one proposal shard with a fixed key generator (keys are opaque)
	w.pp = pendingProposal{
		shards: []*proposalShard{newPendingProposalShard(cfg, nc, p, w.pq)},
		keyg:   []*keyGenerator{{rand: rand.New(&c12sSrc{x: 20240924})}},
		ps:     1,
	}
	w.rq = newReadIndexQueue(4)
	w.pri = newPendingReadIndex(p, w.rq)
	w.ccC = make(chan configChangeRequest, 1)
	w.pcc = newPendingConfigChange(w.ccC, nc)
	w.ssC = make(chan rsm.SSRequest, 1)
	w.ps = newPendingSnapshot(w.ssC)
	return w
}

func (w *c12sWorld) tickBounds() (lo, hi uint64) {
	for _, t := range w.ticks {
		if t.end > 0 && t.t > lo {
			lo = t.t
		}
		if t.t > hi {
			hi = t.t
		}
	}
	return
}

const c12sTimeout = 3

// c12sSrc is a cheap deterministic math/rand Source (request keys and client
// ids are opaque identifiers; seeding the std generator costs more than a
// whole execution).
type c12sSrc struct{ x uint64 }

func (s *c12sSrc) next() uint64 {
	s.x += 0x9e3779b97f4a7c15
	z := s.x
	z = (z ^ (z >> 30)) * 0xbf58476d1ce4e5b9
	z = (z ^ (z >> 27)) * 0x94d049bb133111eb
	return z ^ (z >> 31)
}
func (s *c12sSrc) Int63() int64    { return int64(s.next() >> 1) }
func (s *c12sSrc) Uint64() uint64  { return s.next() }
func (s *c12sSrc) Seed(seed int64) { s.x = uint64(seed) }
func (s *c12sSrc) Int() int        { return int(s.next() >> 1) }

var c12sDebug = os.Getenv("VERIF_DEBUG") != ""

// ---------------------------------------------------------------- threads

func (w *c12sWorld) clientBody(ci int, prog []string) func() {
	return func() {
		session := client.NewNoOPSession(1, &c12sSrc{x: uint64(ci) + 7})
		var cur *c12sReq
		for _, op := range prog {
			vsched.Yield()
			switch op {
			case "P", "R", "C", "S":
				cur = nil
				w.mu.Lock()
				q := &c12sReq{id: len(w.reqs) + len(w.refused), client: ci, timeout: c12sTimeout, batch: -1}
				q.tickLo, _ = w.tickBounds()
				q.callStart = w.seq()
				w.mu.Unlock()
				var rs *RequestState
				var err error
				switch op {
				case "P":
					q.kind = "proposal"
					rs, err = w.pp.propose(session, []byte("cmd"), c12sTimeout)
				case "R":
					q.kind = "read"
					rs, err = w.pri.read(c12sTimeout)
				case "C":
					q.kind = "confchange"
					rs, err = w.pcc.request(pb.ConfigChange{Type: pb.AddNode, ReplicaID: 2, Address: "a2"}, c12sTimeout)
				case "S":
					q.kind = "snapshot"
					rs, err = w.ps.request(rsm.UserRequested, "", false, 0, 0, c12sTimeout)
				}
				w.mu.Lock()
				if err != nil {
					w.refused = append(w.refused, q.kind+":"+err.Error())
					if op == "P" || op == "R" {
						// the moment the refused call RETURNED: it may have taken an object
						// out of the pool at any point before that, also when the call
						// itself began before that object was released
						w.refusedSeq = append(w.refusedSeq, w.seq())
					}
					w.mu.Unlock()
					continue
				}
				q.obj = rs
				q.key = rs.key
				_, q.tickHi = w.tickBounds()
				q.accepted = w.seq()
				w.reqs = append(w.reqs, q)
				w.mu.Unlock()
				if c12sDebug {
					w.run.Logf("accepted #%d key=%x", q.id, q.key)
				}
				cur = q
			case "a":
				if cur == nil {
					continue
				}
				rs := cur.obj
				if !vsched.Await(func() bool { return len(rs.CompletedC) > 0 }, "client awaits result") {
					return
				}
				if c12sDebug {
					w.run.Logf("got result of #%d key=%x", cur.id, cur.key)
				}
				w.mu.Lock()
				w.drainCommitted(cur)
				select {
				case r := <-rs.CompletedC:
					cur.results = append(cur.results, c12sResult{code: r.code, value: r.result.Value, seq: w.seq()})
				default:
					panic("harness: result vanished")
				}
				w.mu.Unlock()
			case "x":
				if cur == nil {
					continue
				}
				w.mu.Lock()
				cur.premature = w.seq()
				w.mu.Unlock()
				cur.obj.Release()
				cur = nil
			case "r":
				if cur == nil || len(cur.results) == 0 {
					continue
				}
				w.mu.Lock()
				cur.releaseSeq = w.seq()
				w.mu.Unlock()
				cur.obj.Release()
				cur = nil
			}
		}
	}
}

func (w *c12sWorld) drainCommitted(q *c12sReq) {
	if q.obj.committedC == nil {
		return
	}
	for {
		select {
		case r := <-q.obj.committedC:
			if r.code != requestCommitted {
				q.committed = append(q.committed, -1)
			} else {
				q.committed = append(q.committed, w.seq())
			}
		default:
			return
		}
	}
}

// stepperBody: what node.stepNode / handleEvents / processRaftUpdate do with
// the tables (same call order as node.go).
func (w *c12sWorld) stepperBody(prog []string) func() {
	return func() {
		for _, op := range prog {
			vsched.Yield()
			switch op {
			case "hp": // handleProposals: incomingProposals.get(paused=false)
				ents := w.pq.get(false)
				w.mu.Lock()
				s := w.seq()
				for _, e := range ents {
					w.takenP = append(w.takenP, pb.Entry{Key: e.Key, ClientID: e.ClientID, SeriesID: e.SeriesID})
					w.fate = append(w.fate, 0)
					w.markTaken(e.Key, nil, s)
				}
				w.mu.Unlock()
			case "dp": // processDroppedEntries: an entry that was not appended (never committed / applied)
				w.mu.Lock()
				i := w.claim(w.fate, func(f int) bool { return f == 0 }, 1)
				if i < 0 {
					w.mu.Unlock()
					continue
				}
				e := w.takenP[i]
				w.droppedKeys[e.Key] = w.seq()
				w.mu.Unlock()
				w.pp.dropped(e.ClientID, e.SeriesID, e.Key)
			case "hr": // handleReadIndex
				if reqs := w.rq.get(); len(reqs) > 0 {
					w.mu.Lock()
					b := &c12sBatch{objs: append([]*RequestState(nil), reqs...), takeSeq: w.seq()}
					for _, o := range b.objs {
						w.markTaken(0, o, b.takeSeq)
					}
					w.batches = append(w.batches, b)
					w.mu.Unlock()
					ctx := w.pri.nextCtx()
					b.ctx = ctx
					w.pri.add(ctx, reqs)
					w.mu.Lock()
					b.addSeq = w.seq()
					w.mu.Unlock()
				}
			case "rr", "r7": // processReadyToRead: ReadyToRead{ctx, index} with index 5 (= applied) or 7 (> applied)
				idx := uint64(5)
				if op == "r7" {
					idx = 7
				}
				w.mu.Lock()
				if len(w.batches) == 0 {
					w.mu.Unlock()
					continue
				}
				b := w.batches[len(w.batches)-1]
				if b.readySeq == 0 {
					b.readySeq = w.seq()
					b.readyIdx = idx
				}
				w.appliedIdx = append(w.appliedIdx, c12sApplied{value: 5, seq: w.seq()})
				w.mu.Unlock()
				w.pri.addReady([]pb.ReadyToRead{{Index: idx, SystemCtx: b.ctx}})
				w.pri.applied(5)
			case "dr": // processDroppedReadIndexes
				w.mu.Lock()
				if len(w.batches) == 0 {
					w.mu.Unlock()
					continue
				}
				b := w.batches[len(w.batches)-1]
				b.dropSeq = w.seq()
				w.mu.Unlock()
				w.pri.dropped(b.ctx)
			case "tg": // node.tick(...) followed by handleEvents' gc() + applied(lastApplied)
				w.mu.Lock()
				w.curTick += 10
				t := w.curTick
				w.ticks = append(w.ticks, struct {
					t          uint64
					start, end int
				}{t, w.seq(), 0})
				ti := len(w.ticks) - 1
				w.mu.Unlock()
				w.ps.tick(t)
				w.pp.tick(t)
				w.pri.tick(t)
				w.pcc.tick(t)
				w.mu.Lock()
				w.ticks[ti].end = w.seq()
				w.gcs = append(w.gcs, struct {
					tick       uint64
					start, end int
				}{t, w.seq(), 0})
				gi := len(w.gcs) - 1
				w.mu.Unlock()
				w.pp.gc()
				w.pcc.gc()
				w.ps.gc()
				w.pri.applied(0)
				w.mu.Lock()
				w.gcs[gi].end = w.seq()
				w.mu.Unlock()
			case "hc": // handleConfigChange
				select {
				case req, ok := <-w.ccC:
					if ok {
						w.mu.Lock()
						w.ccKeys = append(w.ccKeys, req.key)
						w.ccFate = append(w.ccFate, 0)
						w.markTaken(req.key, nil, w.seq())
						w.mu.Unlock()
					}
				default:
				}
			case "dc": // dropped config change
				w.mu.Lock()
				i := w.claim(w.ccFate, func(f int) bool { return f == 0 }, 1)
				if i < 0 {
					w.mu.Unlock()
					continue
				}
				k := w.ccKeys[i]
				w.droppedKeys[k] = w.seq()
				w.mu.Unlock()
				w.pcc.dropped(k)
			case "hs": // handleSnapshot
				select {
				case req := <-w.ssC:
					w.mu.Lock()
					w.ssKeys = append(w.ssKeys, req.Key)
					w.markTaken(req.Key, nil, w.seq())
					w.mu.Unlock()
				default:
				}
			default:
				panic("harness: unknown stepper op " + op)
			}
		}
	}
}

func (w *c12sWorld) markTaken(key uint64, obj *RequestState, s int) {
	// attribution by key (proposal/confchange/snapshot) or by object (reads:
	// the latest request that uses the object; it may not be recorded yet, see
	// resolve())
	for i := len(w.reqs) - 1; i >= 0; i-- {
		q := w.reqs[i]
		if (obj != nil && q.obj == obj && q.kind == "read") || (obj == nil && q.key == key && q.kind != "read") {
			if q.taken == 0 {
				q.taken = s
			}
			return
		}
	}
}

// applierBody: the apply worker (node.ApplyUpdate, ApplyConfigChange ->
// configChangeProcessed, node.save -> pendingSnapshot.apply).
func (w *c12sWorld) applierBody(prog []string) func() {
	return func() {
		for _, op := range prog {
			vsched.Yield()
			switch op {
			case "ap":
				// the apply worker sees an entry only after the step worker took
				// it and it was not dropped; with NotifyCommit only after the commit
				// worker's committed(key) returned (node.notifyCommittedEntries
				// forwards the task to the apply queue afterwards)
				want := func(f int) bool { return f == 0 }
				if w.sc.NotifyCommit {
					want = func(f int) bool { return f == 3 }
				}
				if !vsched.Await(func() bool {
					w.mu.Lock()
					defer w.mu.Unlock()
					return w.find(w.fate, want) >= 0
				}, "applier awaits an entry") {
					return
				}
				w.mu.Lock()
				i := w.claim(w.fate, want, 7)
				if i < 0 {
					w.mu.Unlock()
					continue
				}
				e := w.takenP[i]
				w.resultN++
				v := 1000 + w.resultN
				w.applied = append(w.applied, c12sApplied{key: e.Key, value: v, seq: w.seq()})
				w.appliedIdx = append(w.appliedIdx, c12sApplied{value: 5, seq: w.seq()})
				w.mu.Unlock()
				// node.ApplyUpdate(e, result, rejected=false, ignored=false, notifyRead=true)
				w.pri.applied(5)
				w.pp.applied(e.ClientID, e.SeriesID, e.Key, sm.Result{Value: v}, false)
			case "ar":
				w.mu.Lock()
				w.appliedIdx = append(w.appliedIdx, c12sApplied{value: 5, seq: w.seq()})
				w.mu.Unlock()
				w.pri.applied(5)
			case "ac":
				want := func(f int) bool { return f == 0 }
				if w.sc.NotifyCommit {
					want = func(f int) bool { return f == 3 }
				}
				if !vsched.Await(func() bool {
					w.mu.Lock()
					defer w.mu.Unlock()
					return w.find(w.ccFate, want) >= 0
				}, "applier awaits a config change") {
					return
				}
				w.mu.Lock()
				i := w.claim(w.ccFate, want, 7)
				if i < 0 {
					w.mu.Unlock()
					continue
				}
				k := w.ccKeys[i]
				w.applied = append(w.applied, c12sApplied{key: k, seq: w.seq()})
				w.mu.Unlock()
				w.pcc.apply(k, false)
			case "as", "ai":
				if !vsched.Await(func() bool {
					w.mu.Lock()
					defer w.mu.Unlock()
					return len(w.ssKeys) > 0
				}, "snapshot worker awaits a taken request") {
					return
				}
				w.mu.Lock()
				k := w.ssKeys[0]
				w.applied = append(w.applied, c12sApplied{key: k, value: 7, rejected: op == "ai", seq: w.seq()})
				w.mu.Unlock()
				// node.save: pendingSnapshot.apply(key, index == 0, false, index)
				if op == "ai" {
					w.ps.apply(k, true, false, 0)
				} else {
					w.ps.apply(k, false, false, 7)
				}
			default:
				panic("harness: unknown applier op " + op)
			}
		}
	}
}

func (w *c12sWorld) find(f []int, want func(int) bool) int {
	for i, v := range f {
		if want(v) {
			return i
		}
	}
	return -1
}

func (w *c12sWorld) claim(f []int, want func(int) bool, to int) int {
	i := w.find(f, want)
	if i >= 0 {
		f[i] = to
	}
	return i
}

// committerBody: the commit worker (node.notifyCommittedEntries), only with
// NotifyCommit.
func (w *c12sWorld) committerBody(prog []string) func() {
	return func() {
		for _, op := range prog {
			vsched.Yield()
			switch op {
			case "cm":
				if !vsched.Await(func() bool {
					w.mu.Lock()
					defer w.mu.Unlock()
					return w.find(w.fate, func(f int) bool { return f == 0 }) >= 0
				}, "commit worker awaits an entry") {
					return
				}
				w.mu.Lock()
				i := w.claim(w.fate, func(f int) bool { return f == 0 }, 2)
				if i < 0 {
					w.mu.Unlock()
					continue
				}
				e := w.takenP[i]
				w.commitKeys[e.Key] = w.seq()
				w.mu.Unlock()
				w.pp.committed(e.ClientID, e.SeriesID, e.Key)
				w.mu.Lock()
				w.fate[i] = 3
				w.mu.Unlock()
			case "cc":
				if !vsched.Await(func() bool {
					w.mu.Lock()
					defer w.mu.Unlock()
					return w.find(w.ccFate, func(f int) bool { return f == 0 }) >= 0
				}, "commit worker awaits a config change") {
					return
				}
				w.mu.Lock()
				i := w.claim(w.ccFate, func(f int) bool { return f == 0 }, 2)
				if i < 0 {
					w.mu.Unlock()
					continue
				}
				k := w.ccKeys[i]
				w.commitKeys[k] = w.seq()
				w.mu.Unlock()
				w.pcc.committed(k)
				w.mu.Lock()
				w.ccFate[i] = 3
				w.mu.Unlock()
			default:
				panic("harness: unknown committer op " + op)
			}
		}
	}
}

// closerBody: node.close() as called by NodeHost.stopNode on the caller's
// goroutine (same order of table closes as node.go).
func (w *c12sWorld) closerBody() func() {
	return func() {
		vsched.Yield()
		w.mu.Lock()
		w.closeStart = w.seq()
		w.mu.Unlock()
		w.pri.close()
		w.pp.close()
		w.pcc.close()
		w.ps.close()
		w.mu.Lock()
		w.closeEnd = w.seq()
		w.mu.Unlock()
	}
}

func c12sSetup(sc *c12sScenario, wp **c12sWorld) func(r *vsched.Run) {
	return func(r *vsched.Run) {
		w := c12sNewWorld(sc, r)
		*wp = w
		for i, c := range sc.Clients {
			r.Go(fmt.Sprintf("client%d", i), w.clientBody(i, c))
		}
		if len(sc.Stepper) > 0 {
			r.Go("stepper", w.stepperBody(sc.Stepper))
		}
		if len(sc.Committer) > 0 {
			r.Go("committer", w.committerBody(sc.Committer))
		}
		if len(sc.Applier) > 0 {
			r.Go("applier", w.applierBody(sc.Applier))
		}
		if len(sc.Closer) > 0 {
			r.Go("closer", w.closerBody())
		}
	}
}

// ---------------------------------------------------------------- oracle

type c12sFinding struct{ key, desc string }

var c12sNum = regexp.MustCompile(`0x[0-9a-f]+|\d+`)

func c12sNorm(s string) string {
	s = c12sNum.ReplaceAllString(s, "N")
	if len(s) > 100 {
		s = s[:100]
	}
	return s
}

// judge evaluates the oracle of C12 at the end of one controlled execution.
// It runs in controller context (all threads finished, parked or aborted).
func (w *c12sWorld) judge(o *vsched.Outcome) (finds []c12sFinding, classes []string) {
	bad := func(key, f string, a ...interface{}) {
		finds = append(finds, c12sFinding{key, fmt.Sprintf(f, a...)})
	}
	switch o.Status {
	case vsched.Panicked:
		bad("panic/"+c12sNorm(o.Msg), "a thread panicked: %s", o.Msg)
		return finds, []string{"panic"}
	case vsched.Deadlock:
		bad("deadlock", "deadlock: %s", o.Msg)
		return finds, []string{"deadlock"}
	case vsched.Livelock:
		bad("livelock", "livelock: %s", o.Msg)
		return finds, []string{"livelock"}
	}
	// late attribution of "taken" for reads whose accept record came after the take
	for _, b := range w.batches {
		for _, obj := range b.objs {
			for _, q := range w.reqs {
				if q.obj == obj && q.kind == "read" && q.callStart < b.takeSeq && q.taken == 0 {
					q.taken = b.takeSeq
				}
			}
		}
	}
	for bi, b := range w.batches {
		for _, obj := range b.objs {
			// the request that owned obj when it was taken
			var owner *c12sReq
			for _, q := range w.reqs {
				if q.obj == obj && q.kind == "read" && q.callStart < b.takeSeq {
					owner = q
				}
			}
			if owner != nil && owner.batch < 0 {
				owner.batch = bi
				owner.batchAdded = b.addSeq
			}
		}
	}
	for _, e := range w.takenP {
		for _, q := range w.reqs {
			if q.kind == "proposal" && q.key == e.Key && q.taken == 0 {
				q.taken = 1
			}
		}
	}
	// leftovers: results still sitting in the channels go to the LAST request
	// that used the object
	last := map[*RequestState]*c12sReq{}
	for _, q := range w.reqs {
		last[q.obj] = q
	}
	end := w.seq()
	leftoverIgnored := false
	for _, q := range w.reqs {
		if last[q.obj] != q || q.premature > 0 {
			continue
		}
		if q.releaseSeq > 0 {
			// a REFUSED propose/read after the release may have taken the object
			// out of the pool (it is then terminated by close() while briefly in
			// the pending map and dropped): such leftovers belong to nobody
			leaked := false
			for _, rs := range w.refusedSeq {
				if rs > q.releaseSeq {
					leaked = true
				}
			}
			if leaked {
				if len(q.obj.CompletedC) > 0 {
					leftoverIgnored = true
				}
				continue
			}
		}
		w.drainCommitted(q)
		for len(q.obj.CompletedC) > 0 {
			r := <-q.obj.CompletedC
			if q.releaseSeq > 0 {
				bad(q.kind+"/result-delivered-after-release", "request #%d (%s) had its result and called Release(); afterwards %s was delivered to the same RequestState object (previous owner / pool)",
					q.id, q.kind, r.code)
			}
			q.results = append(q.results, c12sResult{code: r.code, value: r.result.Value, seq: end})
		}
	}
	closed := w.closeEnd > 0
	for _, q := range w.reqs {
		cls := q.kind + ":"
		k := q.kind
		if q.premature > 0 {
			// the client gave the request up (released before reading the
			// result): nothing is demanded for it, only for later requests
			classes = append(classes, k+":released-early")
			continue
		}
		// ---- exactly one terminal result
		if len(q.results) > 1 {
			var cs []string
			for _, r := range q.results {
				cs = append(cs, r.code.String())
			}
			bad(k+"/two-terminal-results", "request #%d (%s) got %d terminal results: %v", q.id, k, len(q.results), cs)
		}
		if len(q.results) == 0 {
			cls += "none"
			if closed {
				if k == "read" && q.taken > 0 && q.taken < w.closeEnd {
					bad("read/F2-batch-taken-before-close-never-terminated",
						"read request #%d was taken from the incoming queue by handleReadIndex (queue.get) before close() finished, pendingReadIndex.add ran after close() had set stopped and returned silently: the request has no result although close() returned",
						q.id)
				} else {
					bad(k+"/zero-results-after-close", "request #%d (%s) was accepted, close() returned, but no terminal result was ever delivered", q.id, k)
				}
			}
			// expiry: accepted before a tick(T) started, deadline surely < T,
			// and a gc pass at T completed
			for gi, g := range w.gcs {
				tk := w.ticks[gi]
				if g.end == 0 || q.accepted > tk.start {
					continue
				}
				if q.tickHi+q.timeout >= g.tick {
					continue
				}
				if k == "read" && (q.batch < 0 || q.batchAdded == 0 || q.batchAdded > tk.start) {
					continue // still in the incoming queue when the clock moved: exempt
				}
				if closed && w.closeStart < g.end {
					continue // gc passes are skipped once stopped
				}
				bad(k+"/zero-results-after-deadline", "request #%d (%s, timeout %d ticks, accepted at tick <= %d) has no result although tick(%d) and a gc pass completed afterwards",
					q.id, k, q.timeout, q.tickHi, g.tick)
			}
		}
		// ---- committed notifications
		if len(q.committed) > 1 {
			bad(k+"/two-committed", "request #%d got %d Committed notifications", q.id, len(q.committed))
		}
		for _, cs := range q.committed {
			if cs < 0 {
				bad(k+"/committed-not-truthful", "request #%d: committedC carried a value that is not Committed", q.id)
			}
			if !w.sc.NotifyCommit {
				bad(k+"/committed-without-notifycommit", "request #%d got a Committed notification although NotifyCommit is off", q.id)
			}
			if s, ok := w.commitKeys[q.key]; !ok || s > cs {
				bad(k+"/committed-not-truthful", "request #%d got Committed but committed(key) was never called for its key", q.id)
			}
		}
		// ---- truthfulness
		for _, r := range q.results {
			cls += r.code.String()
			switch r.code {
			case requestCompleted, requestRejected:
				ok := false
				switch k {
				case "proposal":
					for _, a := range w.applied {
						if a.key == q.key && a.value == r.value && a.seq < r.seq && r.code == requestCompleted {
							ok = true
						}
					}
				case "confchange":
					for _, a := range w.applied {
						if a.key == q.key && a.seq < r.seq && r.code == requestCompleted {
							ok = true
						}
					}
				case "snapshot":
					for _, a := range w.applied {
						if a.key == q.key && a.seq < r.seq &&
							((r.code == requestCompleted && !a.rejected && r.value == a.value) || (r.code == requestRejected && a.rejected)) {
							ok = true
						}
					}
				case "read":
					if r.code == requestCompleted && q.batch >= 0 {
						b := w.batches[q.batch]
						if b.readySeq > 0 && b.readySeq < r.seq {
							for _, a := range w.appliedIdx {
								if a.value >= b.readyIdx && a.seq < r.seq {
									ok = true
								}
							}
						}
					}
				}
				if !ok {
					if r.code == requestCompleted {
						bad(k+"/completed-not-truthful", "request #%d (%s, key %x) got Completed(value %d) but no matching applied()/confirmation for THIS request preceded it (applied calls: %v)",
							q.id, k, q.key, r.value, w.applied)
					} else {
						bad(k+"/rejected-not-truthful", "request #%d (%s) got Rejected without a matching rejection", q.id, k)
					}
				}
			case requestDropped:
				ok := false
				if s, has := w.droppedKeys[q.key]; has && s < r.seq && k != "read" {
					ok = true
				}
				if k == "read" && q.batch >= 0 && w.batches[q.batch].dropSeq > 0 && w.batches[q.batch].dropSeq < r.seq {
					ok = true
				}
				if !ok {
					bad(k+"/dropped-not-truthful", "request #%d (%s) got Dropped but dropped() was never called for it", q.id, k)
				}
			case requestTerminated:
				if w.closeStart == 0 || w.closeStart > r.seq {
					bad(k+"/terminated-without-close", "request #%d (%s) got Terminated but close() had not been called", q.id, k)
				}
			case requestTimeout:
				hi := uint64(0)
				for _, t := range w.ticks {
					if t.start < r.seq && t.t > hi {
						hi = t.t
					}
				}
				if hi <= q.tickLo+q.timeout {
					bad(k+"/timeout-before-deadline", "request #%d (%s) got Timeout at tick <= %d, its deadline is >= %d", q.id, k, hi, q.tickLo+q.timeout)
				}
			default:
				bad(k+"/unexpected-result-code", "request #%d (%s) got result code %s", q.id, k, r.code)
			}
			for _, cs := range q.committed {
				if cs > r.seq {
					bad(k+"/committed-after-terminal", "request #%d got Committed after its terminal result", q.id)
				}
			}
		}
		if len(q.committed) > 0 {
			cls += "+committed"
		}
		classes = append(classes, cls)
	}
	// pool: a new request must never get an object whose previous owner has
	// no result yet
	seenObj := map[*RequestState]*c12sReq{}
	reuse := false
	for _, q := range w.reqs {
		if p, ok := seenObj[q.obj]; ok {
			reuse = true
			if p.premature > 0 {
				// legal only if the result had already been delivered; not observable here
			} else if len(p.results) == 0 || p.releaseSeq == 0 || p.releaseSeq > q.accepted {
				bad(q.kind+"/pool-alias", "request #%d got a RequestState object still owned by request #%d (no result / not released)", q.id, p.id)
			}
		}
		seenObj[q.obj] = q
	}
	if reuse {
		classes = append(classes, "pool:object-reused")
	} else if len(w.reqs) > 1 {
		classes = append(classes, "pool:fresh-object")
	}
	for _, r := range w.refused {
		classes = append(classes, "refused:"+r)
	}
	if closed {
		classes = append(classes, "closed")
	}
	if leftoverIgnored {
		classes = append(classes, "result-on-object-of-refused-call")
	}
	if len(o.Parked) > 0 {
		classes = append(classes, "parked")
	}
	return finds, classes
}

func (w *c12sWorld) observation(o *vsched.Outcome) string {
	var sb strings.Builder
	for _, q := range w.reqs {
		fmt.Fprintf(&sb, "#%d %s c%d acc@%d taken=%v rel=%v:", q.id, q.kind, q.client, q.accepted, q.taken > 0, q.releaseSeq > 0)
		for _, r := range q.results {
			fmt.Fprintf(&sb, " %s/%d@%d", r.code, r.value, r.seq)
		}
		fmt.Fprintf(&sb, " committed=%d;", len(q.committed))
	}
	fmt.Fprintf(&sb, "refused=%v close=%d-%d status=%v", w.refused, w.closeStart, w.closeEnd, o.Status)
	return sb.String()
}

// ---------------------------------------------------------------- driver

type c12sReplay struct {
	Scenario c12sScenario `json:"scenario"`
	Choices  []int        `json:"choices"`
	Schedule string       `json:"schedule"`
	Horizon  int          `json:"horizon"`
}

const c12sHorizon = 600

func c12sQuiet() {
	for _, n := range []string{"dragonboat", "rsm", "raft", "raftpb", "config", "transport", "logdb"} {
		logger.GetLogger(n).SetLevel(logger.CRITICAL)
	}
}

// c12sFinish writes the worker result unless the harness itself panicked (a
// crashed worker must be a harness error for the driver, not a result).
func c12sFinish(run *verifkit.Run, res *verifkit.Result) {
	if rec := recover(); rec != nil {
		panic(rec)
	}
	run.Finish(res)
}

func TestVerifC12SSched(t *testing.T) {
	run := verifkit.Env()
	res := verifkit.NewResult()
	defer c12sFinish(run, res)
	runtime.GOMAXPROCS(1)
	c12sQuiet()
	bound := run.Pick(2, 3)
	res.Rule = fmt.Sprintf("case = one complete schedule (scheduler choice list) of one thread scenario on fresh real tables; all schedules with <= %d preemptions of every scenario are enumerated by the iterative-context-bounding DFS; non-trivial = at least one request was accepted and the schedule has >= 1 context switch between unfinished threads or a delivered result", bound)
	res.Assumptions = []string{
		"schedx: interleavings at the granularity of sync/atomic operations, channel statements of request.go and harness yields; unsynchronised accesses between two scheduling points are atomic (covered by the race part)",
		fmt.Sprintf("preemption bound %d; every scenario has 2-4 threads with the op lists of NOTES.md; timeouts 3 ticks, tick jumps of 10", bound),
		"sync.Pool is the real pool (GOMAXPROCS=1, collector off during an execution => deterministic LIFO reuse)",
	}
	var rp c12sReplay
	if run.LoadReplay(&rp) {
		var w *c12sWorld
		sc := rp.Scenario
		obs := ""
		for i := 0; i < 2; i++ {
			for try := 0; ; try++ {
				var o *vsched.Outcome
				msg := verifkit.Catch(func() {
					o = vsched.Replay(rp.Horizon, c12sSetup(&sc, &w), rp.Choices, func(o *vsched.Outcome) {
						finds, _ := w.judge(o)
						for _, f := range finds {
							res.Violate(f.key, f.desc+" | scenario: "+sc.Name+" | schedule: "+o.Schedule(), rp)
						}
						if c12sDebug {
							fmt.Println("RUN LOG:\n  " + strings.Join(o.Log, "\n  "))
						}
					})
				})
				ob := ""
				if msg == "" {
					ob = w.observation(o) + fmt.Sprint(o.Digest())
					if i == 0 || ob == obs {
						obs = ob
						break
					}
				}
				if try >= sc.retries() {
					panic("replay is not deterministic:\n" + obs + "\n" + ob + "\n" + msg)
				}
			}
		}
		res.Evaluations = 1
		return
	}
	scs := c12sScenarios(run.Thorough())
	outcomes := map[string]struct{}{}
	minimal := map[string]int{} // key -> fewest preemptions/points seen
	var tot vsched.Stats
	// pass 1: every scenario to the quick bound (2). Thorough adds pass 2:
	// bound 3, smallest scenarios first, until the deadline; schedules with
	// <= 2 preemptions are then only re-executed to reach their children and
	// not judged / counted a second time.
	passes := []int{2}
	if bound > 2 {
		passes = append(passes, bound)
	}
	for pi, pb := range passes {
		order := make([]int, len(scs))
		for i := range order {
			order[i] = i
		}
		if pi > 0 {
			size := func(sc *c12sScenario) int {
				n := len(sc.Stepper) + len(sc.Committer) + len(sc.Applier) + len(sc.Closer)
				for _, c := range sc.Clients {
					n += len(c)
				}
				return sc.threads()*100 + n
			}
			sort.SliceStable(order, func(a, b int) bool { return size(&scs[order[a]]) < size(&scs[order[b]]) })
		}
		done := 0
		for _, si := range order {
			sc := &scs[si]
			if f := os.Getenv("VERIF_SCENARIO"); f != "" && !strings.Contains(sc.Name, f) {
				continue
			}
			if run.Expired() {
				res.Cap(fmt.Sprintf("deadline reached in the pass with bound %d after %d of %d scenarios (every scenario is complete for bound %d)", pb, done, len(scs), passes[0]))
				if pi == 0 {
					res.Cap("deadline reached in the first pass")
				}
				break
			}
			var w *c12sWorld
			if os.Getenv("VERIF_DEBUG") != "" {
				fmt.Fprintln(os.Stderr, "scenario", si, sc.Name)
			}
			salt := verifkit.Hash64(sc.Name)
			skipBelow := 0
			if pi > 0 {
				skipBelow = passes[0] + 1
			}
			func() {
				defer func() {
					if rec := recover(); rec != nil {
						panic(fmt.Sprintf("scenario %q: %v", sc.Name, rec))
					}
				}()
				c12sExploreOne(run, res, sc, salt, pb, skipBelow, &w, outcomes, minimal, &tot)
			}()
			if !run.Expired() {
				done++
			}
		}
		if pi > 0 {
			res.Extra["max_scenarios_complete_at_bound_3"] = done
		}
	}
	c12sReport(run, res, scs, &tot, bound)
}

func c12sExploreOne(run *verifkit.Run, res *verifkit.Result, sc *c12sScenario, salt uint64, bound int, skipBelow int, wp **c12sWorld,
	outcomes map[string]struct{}, minimal map[string]int, tot *vsched.Stats) {
	var w *c12sWorld
	{
		st := vsched.Explore(vsched.Config{
			Bound: bound, Horizon: c12sHorizon, SplitDepth: 1, VerifyEvery: 997, DivergenceRetries: sc.retries(),
			Mine:    func(k uint64) bool { return run.Mine((k ^ salt) % 1000003) },
			Expired: run.Expired,
			Observe: func(o *vsched.Outcome) string { return w.observation(o) },
		}, c12sSetup(sc, &w), func(o *vsched.Outcome) bool {
			if o.Preemptions < skipBelow {
				return false // judged in the first pass
			}
			finds, classes := w.judge(o)
			sort.Strings(classes)
			oc := strings.Join(classes, " ")
			outcomes[oc] = struct{}{}
			res.Outcome(strings.SplitN(sc.Name, " ", 2)[0] + " | " + oc)
			if len(w.reqs) > 0 && (o.Preemptions > 0 || len(w.reqs[0].results) > 0) {
				res.DistinctNontrivial++
			}
			for _, f := range finds {
				score := o.Preemptions*10000 + o.Points
				if old, ok := minimal[f.key]; ok && old <= score {
					continue
				}
				minimal[f.key] = score
				rpl := c12sReplay{Scenario: *sc, Choices: append([]int(nil), o.Choices...), Schedule: o.Schedule(), Horizon: c12sHorizon}
				c12sReplaceViolation(res, f.key, f.desc+" | scenario: "+sc.Name+fmt.Sprintf(" | %d preemption(s), schedule: %s", o.Preemptions, o.Schedule()), rpl)
			}
			return false
		})
		if skipBelow > 0 {
			// second pass: only the schedules with more preemptions are new
			var n int64
			for i := skipBelow; i < len(st.ByPreempt); i++ {
				n += st.ByPreempt[i]
			}
			for i := 0; i < skipBelow; i++ {
				st.ByPreempt[i] = 0
			}
			st.Schedules -= st.Executions - n
			st.Executions = n
		}
		tot.Executions += st.Executions
		tot.Schedules += st.Schedules
		tot.Spine += st.Spine
		tot.Verified += st.Verified
		tot.Retries += st.Retries
		tot.Deadlocks += st.Deadlocks
		tot.Panics += st.Panics
		tot.Livelocks += st.Livelocks
		tot.TotalPoints += st.TotalPoints
		if st.MaxPoints > tot.MaxPoints {
			tot.MaxPoints = st.MaxPoints
		}
		for i := range st.ByPreempt {
			tot.ByPreempt[i] += st.ByPreempt[i]
		}
		if st.Capped {
			res.Cap(fmt.Sprintf("deadline reached inside scenario %s (bound %d)", sc.Name, bound))
		}
		if run.Shard == 0 {
			res.Sample(3, map[string]interface{}{"scenario": sc.Name, "schedules_this_shard": st.Executions, "max_points": st.MaxPoints})
		}
	}
}

func c12sReport(run *verifkit.Run, res *verifkit.Result, scs []c12sScenario, tot *vsched.Stats, bound int) {
	if run.Shard != 0 && len(scs) > 0 {
		res.Sample(1, map[string]interface{}{"scenario": scs[run.Shard%len(scs)].Name})
	}
	res.Evaluations = tot.Executions
	if tot.Schedules != tot.Executions && res.NViolations() == 0 {
		panic(fmt.Sprintf("explorer executed a schedule twice: %d executions, %d distinct", tot.Executions, tot.Schedules))
	}
	res.Extra["max_scenarios"] = len(scs)
	res.Extra["executions"] = tot.Executions
	res.Extra["distinct_schedules"] = tot.Schedules
	res.Extra["spine_executions"] = tot.Spine
	res.Extra["replay_verified"] = tot.Verified
	res.Extra["map_order_retries"] = tot.Retries
	res.Extra["max_points"] = tot.MaxPoints
	res.Extra["scheduling_points"] = tot.TotalPoints
	res.Extra["deadlocks"] = tot.Deadlocks
	res.Extra["panics"] = tot.Panics
	res.Extra["livelocks"] = tot.Livelocks
	for i := 0; i <= bound; i++ {
		res.Extra[fmt.Sprintf("schedules_with_%d_preemptions", i)] = tot.ByPreempt[i]
	}
	res.Extra["max_preemption_bound"] = bound
}

// c12sReplaceViolation keeps, per key, the violation with the smallest
// schedule (verifkit.Result.Violate keeps the first one).
func c12sReplaceViolation(res *verifkit.Result, key, desc string, replay interface{}) {
	for i := range res.Violations {
		if res.Violations[i].Key == key {
			res.Violations[i].Desc = desc
			res.Violations[i].Replay = replay
			return
		}
	}
	res.MaxViolations = 1 << 30
	res.Violate(key, desc, replay)
}

// ---------------------------------------------------------------- race part

var c12sRaceBlock = regexp.MustCompile(`(?s)WARNING: DATA RACE\n(.*?)\n==================`)
var c12sRaceFrame = regexp.MustCompile(`(?m)^  ([^\s].*)\(\)\n\s+(\S+):(\d+)`)

// c12sRaceKeys extracts, for every race report, the first dragonboat frame of
// each of the two conflicting accesses.
func c12sRaceKeys(out string) map[string]string {
	keys := map[string]string{}
	for _, m := range c12sRaceBlock.FindAllStringSubmatch(out, -1) {
		block := m[1]
		parts := regexp.MustCompile(`(?m)^(?:Previous )?(?:[Rr]ead|[Ww]rite|atomic [a-z]+) at .*$`).Split(block, -1)
		var fns []string
		for _, p := range parts[1:] {
			if i := strings.Index(p, "\n\n"); i >= 0 {
				p = p[:i]
			}
			fn := "?"
			for _, f := range c12sRaceFrame.FindAllStringSubmatch(p, -1) {
				name := f[1]
				if strings.Contains(name, "verifkit/") || strings.HasPrefix(name, "sync") || strings.HasPrefix(name, "runtime") ||
					strings.Contains(name, "c12s") || strings.Contains(name, "c11s") || strings.Contains(name, "C11S") || strings.Contains(name, "C12S") {
					continue
				}
				name = strings.TrimPrefix(name, "github.com/lni/dragonboat/v4/")
				name = strings.TrimPrefix(name, "github.com/lni/dragonboat/v4.")
				fn = name
				break
			}
			fns = append(fns, fn)
		}
		sort.Strings(fns)
		k := "race/" + strings.Join(fns, "|")
		if _, ok := keys[k]; !ok {
			if len(block) > 3000 {
				block = block[:3000]
			}
			keys[k] = block
		}
	}
	return keys
}

func TestVerifC12SRace(t *testing.T) {
	c12sQuiet()
	scs := c12sScenarios(false)
	if os.Getenv("VERIF_RACE_CHILD") == "1" {
		// child: free-running iterations under the race detector
		iters := 0
		fmt.Sscan(os.Getenv("VERIF_RACE_ITERS"), &iters)
		panics := map[string]int{}
		n := 0
		for n < iters {
			for si := range scs {
				sc := &scs[si]
				var w *c12sWorld
				if msg := vsched.RunFree(c12sSetup(sc, &w)); msg != "" {
					panics[c12sNorm(msg)]++
				}
				n++
			}
		}
		for k, v := range panics {
			fmt.Printf("RACECHILD-PANIC %d %s\n", v, k)
		}
		fmt.Printf("RACECHILD iterations=%d\n", n)
		return
	}
	run := verifkit.Env()
	res := verifkit.NewResult()
	defer c12sFinish(run, res)
	iters := run.Pick(10000, 100000)
	res.Rule = "case = one free-running execution (real sync primitives, Go race detector) of one thread scenario of the sched part; non-trivial = every one (all scenarios have >= 2 threads on shared tables)"
	res.Assumptions = []string{"race part: schedules are whatever the Go runtime produces (not enumerated); it only adds data-race detection to the sched part"}
	cmd := exec.Command(os.Args[0], "-test.run", "^TestVerifC12SRace$", "-test.count", "1", "-test.timeout", "0")
	cmd.Env = append(os.Environ(), "VERIF_RACE_CHILD=1", fmt.Sprintf("VERIF_RACE_ITERS=%d", iters), "GORACE=halt_on_error=0", "VERIF_OUT=", "GOMAXPROCS=4")
	var buf bytes.Buffer
	cmd.Stdout = &buf
	cmd.Stderr = &buf
	err := cmd.Run()
	out := buf.String()
	m := regexp.MustCompile(`RACECHILD iterations=(\d+)`).FindStringSubmatch(out)
	if m == nil {
		panic(fmt.Sprintf("race child did not finish: %v\n%s", err, out[max(0, len(out)-4000):]))
	}
	var n int64
	fmt.Sscan(m[1], &n)
	res.Evaluations = n
	res.DistinctNontrivial = n
	res.Extra["race_iterations"] = n
	res.Sample(2, map[string]interface{}{"scenario": scs[0].Name, "mode": "free-running -race"})
	keys := c12sRaceKeys(out)
	res.Extra["race_reports"] = len(keys)
	for k, block := range keys {
		res.Outcome(k)
		res.Violate(k, "the Go race detector reported a data race while the scenario threads ran free:\n"+block, map[string]string{"race": k})
	}
	for _, pm := range regexp.MustCompile(`RACECHILD-PANIC (\d+) (.*)`).FindAllStringSubmatch(out, -1) {
		res.Outcome("panic:" + pm[2])
		res.Violate("panic/"+pm[2], "a thread panicked in a free-running execution: "+pm[2], map[string]string{"race": "panic/" + pm[2]})
	}
	if len(keys) == 0 {
		res.Outcome("no-race")
	}
	if run.Replay != "" {
		// replay of a race finding = run the whole part again (done above)
		return
	}
}
