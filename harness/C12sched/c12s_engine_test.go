//go:build verif

// Part "engine": self test of the E5 engine (vsched / vsync / vatomic) on toy
// programs whose schedule spaces are known: the number of schedules with <= k
// preemptions is compared with an independent enumeration, a classic lock
// order deadlock, a lost update and a livelock must be found, an out-of-range
// choice and a replay divergence must fail loudly, replay is deterministic.
package dragonboat

import (
	"fmt"
	"strings"
	"testing"

	"github.com/lni/dragonboat/v4/internal/verifkit"
	"github.com/lni/dragonboat/v4/internal/verifkit/vatomic"
	"github.com/lni/dragonboat/v4/internal/verifkit/vsched"
	"github.com/lni/dragonboat/v4/internal/verifkit/vsync"
)

// countModel enumerates, independently of the explorer, the interleavings of
// threads with seg[i] segments each (a thread with m yields has m+1 segments)
// that have at most k preemptions. A preemption is a switch away from a thread
// that still has segments left.
func c12sCountModel(seg []int, k int) int64 {
	left := append([]int(nil), seg...)
	var rec func(cur int, used int) int64
	rec = func(cur int, used int) int64 {
		done := true
		for _, l := range left {
			if l > 0 {
				done = false
			}
		}
		if done {
			return 1
		}
		var n int64
		for t := range left {
			if left[t] == 0 {
				continue
			}
			cost := used
			if cur >= 0 && t != cur && left[cur] > 0 {
				cost++
			}
			if cost > k {
				continue
			}
			left[t]--
			n += rec(t, cost)
			left[t]++
		}
		return n
	}
	return rec(-1, 0)
}

func TestVerifC12SEngine(t *testing.T) {
	run := verifkit.Env()
	res := verifkit.NewResult()
	defer c12sFinish(run, res)
	res.Rule = "engine self test: toy programs with known schedule counts / known bugs; a case is one (program, bound) pair"
	if run.Shard != 0 {
		res.Evaluations = 1
		res.DistinctNontrivial = 1
		return
	}
	fail := func(key, desc string) {
		res.Violate("engine/"+key, desc, map[string]string{"engine": key})
	}
	// 1. schedule counts
	for _, yields := range [][]int{{2, 2}, {3, 1}, {2, 2, 2}, {1, 2, 3}, {4, 4}} {
		for k := 0; k <= 3; k++ {
			seg := make([]int, len(yields))
			for i, y := range yields {
				seg[i] = y + 1
			}
			want := c12sCountModel(seg, k)
			outcomes := map[string]bool{}
			var trace []int
			st := vsched.Explore(vsched.Config{Bound: k, Horizon: 200, VerifyEvery: 7}, func(r *vsched.Run) {
				trace = trace[:0]
				for i, y := range yields {
					i, y := i, y
					r.Go(fmt.Sprintf("t%d", i), func() {
						for j := 0; j < y; j++ {
							trace = append(trace, i)
							vsched.Yield()
						}
						trace = append(trace, i)
					})
				}
			}, func(o *vsched.Outcome) bool {
				if o.Status != vsched.Completed {
					fail("toy-status", fmt.Sprintf("yields=%v k=%d status=%v %s", yields, k, o.Status, o.Msg))
				}
				outcomes[fmt.Sprint(trace)] = true
				return false
			})
			res.Evaluations++
			res.DistinctNontrivial++
			res.Outcome(fmt.Sprintf("count:%v:k%d=%d", yields, k, st.Executions))
			if st.Executions != want || st.Schedules != want || int64(len(outcomes)) != want {
				fail("schedule-count", fmt.Sprintf("yields=%v k=%d: explorer executions=%d distinct schedules=%d distinct traces=%d, independent model=%d",
					yields, k, st.Executions, st.Schedules, len(outcomes), want))
			}
			if st.MaxPreempt > k {
				fail("bound", "preemption bound exceeded")
			}
		}
	}
	// 2. sharded exploration covers exactly the same set (disjoint union)
	{
		yields := []int{2, 2, 2}
		want := c12sCountModel([]int{3, 3, 3}, 2)
		for _, depth := range []int{1, 2} {
			total := int64(0)
			all := map[string]int{}
			for sh := 0; sh < 5; sh++ {
				var trace []int
				sh := sh
				st := vsched.Explore(vsched.Config{Bound: 2, Horizon: 200, SplitDepth: depth,
					Mine: func(k uint64) bool { return int(k%5) == sh }}, func(r *vsched.Run) {
					trace = trace[:0]
					for i, y := range yields {
						i, y := i, y
						r.Go(fmt.Sprintf("t%d", i), func() {
							for j := 0; j < y; j++ {
								trace = append(trace, i)
								vsched.Yield()
							}
							trace = append(trace, i)
						})
					}
				}, func(o *vsched.Outcome) bool { all[fmt.Sprint(trace)]++; return false })
				total += st.Executions
			}
			res.Evaluations++
			if total != want || int64(len(all)) != want {
				fail("sharding", fmt.Sprintf("split depth %d: 5 shards judged %d executions, %d distinct, want %d", depth, total, len(all), want))
			}
		}
	}
	// 3. lock order deadlock (needs 1 preemption), found at bound 1, not at 0
	for k := 0; k <= 1; k++ {
		dead := 0
		vsched.Explore(vsched.Config{Bound: k, Horizon: 200}, func(r *vsched.Run) {
			var a, b vsync.Mutex
			r.Go("ab", func() { a.Lock(); b.Lock(); b.Unlock(); a.Unlock() })
			r.Go("ba", func() { b.Lock(); a.Lock(); a.Unlock(); b.Unlock() })
		}, func(o *vsched.Outcome) bool {
			if o.Status == vsched.Deadlock {
				dead++
			}
			return false
		})
		res.Evaluations++
		res.Outcome(fmt.Sprintf("deadlock:k%d=%d", k, dead))
		if (k == 0 && dead != 0) || (k == 1 && dead == 0) {
			fail("deadlock-toy", fmt.Sprintf("bound %d: %d deadlocks", k, dead))
		}
	}
	// 4. lost update on load/store, RWMutex exclusion, Once, WaitGroup
	{
		lost, rwbad, oncebad := 0, 0, 0
		var v uint64
		var inW, inR, bad int
		var onceN int
		vsched.Explore(vsched.Config{Bound: 2, Horizon: 400, VerifyEvery: 50}, func(r *vsched.Run) {
			v, inW, inR, bad, onceN = 0, 0, 0, 0, 0
			var rw vsync.RWMutex
			var once vsync.Once
			var wg vsync.WaitGroup
			wg.Add(2)
			for i := 0; i < 2; i++ {
				r.Go(fmt.Sprintf("inc%d", i), func() {
					x := vatomic.LoadUint64(&v)
					vatomic.StoreUint64(&v, x+1)
					once.Do(func() { vsched.Yield(); onceN++ })
					if onceN != 1 {
						bad |= 4
					}
					rw.RLock()
					inR++
					vsched.Yield()
					if inW > 0 {
						bad |= 1
					}
					inR--
					rw.RUnlock()
					wg.Done()
				})
			}
			r.Go("w", func() {
				rw.Lock()
				inW++
				vsched.Yield()
				if inR > 0 {
					bad |= 2
				}
				inW--
				rw.Unlock()
				wg.Wait()
				if vatomic.LoadUint64(&v) == 0 {
					bad |= 8
				}
			})
		}, func(o *vsched.Outcome) bool {
			if o.Status != vsched.Completed {
				fail("toy2-status", o.Status.String()+" "+o.Msg)
			}
			if v == 1 {
				lost++
			}
			if bad&3 != 0 {
				rwbad++
			}
			if bad&12 != 0 {
				oncebad++
			}
			return false
		})
		res.Evaluations++
		res.Outcome(fmt.Sprintf("lostupdate=%v", lost > 0))
		if lost == 0 {
			fail("lost-update-toy", "the load/store lost update was not found at bound 2")
		}
		if rwbad != 0 || oncebad != 0 {
			fail("shim-semantics", fmt.Sprintf("RWMutex exclusion broken in %d, Once/WaitGroup in %d executions", rwbad, oncebad))
		}
	}
	// 5. livelock = horizon exceeded; benign Await is not a deadlock; WaitUntil is
	{
		var flag bool
		o := vsched.Replay(50, func(r *vsched.Run) {
			r.Go("spin", func() {
				for !flag {
					vsched.Yield()
				}
			})
		}, nil, nil)
		if o.Status != vsched.Livelock {
			fail("livelock-toy", "spinning thread not reported as livelock: "+o.Status.String())
		}
		o = vsched.Replay(50, func(r *vsched.Run) {
			r.Go("waiter", func() { vsched.Await(func() bool { return flag }, "flag") })
			r.Go("other", func() { vsched.Yield() })
		}, nil, nil)
		if o.Status != vsched.Completed || len(o.Parked) != 1 {
			fail("await-toy", fmt.Sprintf("benign await: %v parked=%v", o.Status, o.Parked))
		}
		o = vsched.Replay(50, func(r *vsched.Run) {
			r.Go("waiter", func() { vsched.WaitUntil(func() bool { return flag }, "flag") })
		}, nil, nil)
		if o.Status != vsched.Deadlock {
			fail("waituntil-toy", "WaitUntil forever is not a deadlock: "+o.Status.String())
		}
		o = vsched.Replay(50, func(r *vsched.Run) {
			r.Go("p", func() { vsched.Yield(); panic("boom") })
			r.Go("q", func() { vsched.Yield(); vsched.Yield() })
		}, []int{0, 1}, nil)
		if o.Status != vsched.Panicked || o.Msg != "boom" {
			fail("panic-toy", "thread panic not captured: "+o.Status.String()+" "+o.Msg)
		}
		res.Evaluations += 4
	}
	// 6. out-of-range choice and replay divergence fail loudly; replay deterministic
	{
		setup := func(r *vsched.Run) {
			r.Go("a", func() { vsched.Yield(); r.Logf("a1"); vsched.Yield(); r.Logf("a2") })
			r.Go("b", func() { vsched.Yield(); r.Logf("b1") })
		}
		msg := verifkit.Catch(func() { vsched.Replay(50, setup, []int{0, 5}, nil) })
		if !strings.Contains(msg, "out of range") {
			fail("bad-choice", "an out-of-range choice did not fail loudly: "+msg)
		}
		o1 := vsched.Replay(50, setup, []int{1, 1, 1}, nil)
		o2 := vsched.Replay(50, setup, []int{1, 1, 1}, nil)
		if o1.Digest() != o2.Digest() || fmt.Sprint(o1.Log) != fmt.Sprint(o2.Log) {
			fail("replay", fmt.Sprintf("replay not deterministic: %v vs %v", o1.Log, o2.Log))
		}
		// a program that behaves differently on every run must be detected
		n := 0
		msg = verifkit.Catch(func() {
			vsched.Explore(vsched.Config{Bound: 1, Horizon: 50, VerifyEvery: 1}, func(r *vsched.Run) {
				n++
				k := n
				r.Go("a", func() {
					if k%2 == 0 {
						vsched.Yield()
					}
					vsched.Yield()
				})
				r.Go("b", func() { vsched.Yield() })
			}, func(o *vsched.Outcome) bool { return false })
		})
		if !strings.Contains(msg, "NONDETERMINISM") {
			fail("divergence", "a nondeterministic program was not detected: "+msg)
		}
		res.Evaluations += 3
		res.Outcome("loud-failures-ok")
	}
	res.Sample(3, map[string]interface{}{"toy": "yields [2 2 2] bound 2", "schedules": c12sCountModel([]int{3, 3, 3}, 2)})
}
