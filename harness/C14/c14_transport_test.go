//go:build verif

// C14, transport level: "a received chunk stream that is corrupted or cut short
// anywhere is rejected by the stream validator ... altered data is never handed
// to the state machine" decided on the REAL receiver (transport.Chunk: record /
// addLocked / validator / Validate / finalize) instead of on a bare
// rsm.SnapshotValidator (that is part `stream`, package rsm).
//
// Sender side: real snapshot files (rsm.NewSnapshotWriter + compressor) with 0,
// 1 or 2 external files sent by the real Transport.SendSnapshot (shim transport_send_export.go),
// and real rsm.ChunkWriter streams collected by a queueing sink. The bytes of
// the MAIN snapshot file carried by the stream are modified (every single-bit
// flip, every truncation point, every 1-byte deletion / duplication), put back
// into the main-file chunks at the original chunk boundaries, and the whole
// stream (external-file chunks included, untouched) is delivered in order to a
// fresh transport.Chunk on a MemFS. The modified stream must not produce an
// InstallSnapshot message / final snapshot directory; when it does, the
// received main file is loaded with the real reader: altered bytes => violation
// always, otherwise violation unless the modification is a bit flip in a region
// no mechanism of the format covers (header padding / all-zero crc escape).
package transport

import (
	"bytes"
	"encoding/binary"
	"encoding/hex"
	"fmt"
	"io"
	"strings"
	"testing"

	"github.com/lni/dragonboat/v4/internal/rsm"
	"github.com/lni/dragonboat/v4/internal/server"
	"github.com/lni/dragonboat/v4/internal/utils/dio"
	"github.com/lni/dragonboat/v4/internal/verifkit"
	"github.com/lni/dragonboat/v4/internal/vfs"
	"github.com/lni/dragonboat/v4/logger"
	"github.com/lni/dragonboat/v4/raftio"
	pb "github.com/lni/dragonboat/v4/raftpb"
)

const (
	c14tB       = 2048
	c14tHdr     = 1024
	c14tDid     = uint64(7)
	c14tShard   = uint64(1)
	c14tReplica = uint64(2)
	c14tFrom    = uint64(1)
	c14tIndex   = uint64(100)
	c14tTerm    = uint64(5)
	c14tRoot    = "/recv/shard-1/replica-2"
)

type c14tCfg struct {
	Kind string `json:"kind"` // file | chunkwriter
	CT   int    `json:"ct"`   // 0 none, 1 snappy
	Len  int    `json:"len"`  // bytes the state machine writes
	Ext  []int  `json:"ext,omitempty"`
}

func (c c14tCfg) String() string {
	return fmt.Sprintf("%s/%s/len=%d/ext=%v", c.Kind, []string{"none", "snappy"}[c.CT], c.Len, c.Ext)
}

func (c c14tCfg) ct() pb.CompressionType {
	if c.CT == 1 {
		return pb.Snappy
	}
	return pb.NoCompression
}

// kind used in keys and outcome classes
func (c c14tCfg) kind() string {
	if c.Kind == "file" && len(c.Ext) > 0 {
		return "file+ext"
	}
	return c.Kind
}

type c14tRegion struct {
	from, to int
	name     string
}

type c14tStream struct {
	cfg     c14tCfg
	payload []byte
	chunks  []pb.Chunk // wire order
	mainIdx []int      // chunks carrying bytes of the main snapshot file, in order
	main    []byte     // their concatenation = the main snapshot file
	regs    []c14tRegion
}

func c14tBytes(seed, n int) []byte {
	out := make([]byte, n)
	x := uint64(0x9E3779B97F4A7C15) ^ uint64(seed)*0xBF58476D1CE4E5B9 ^ uint64(n)
	for i := range out {
		x ^= x << 13
		x ^= x >> 7
		x ^= x << 17
		out[i] = byte(x >> 24)
	}
	return out
}

func c14tMust(err error) {
	if err != nil {
		panic(err)
	}
}

func c14tReadFile(fs vfs.IFS, fp string) []byte {
	f, err := fs.Open(fp)
	c14tMust(err)
	defer f.Close()
	var b bytes.Buffer
	_, err = io.Copy(&b, f)
	c14tMust(err)
	return b.Bytes()
}

func c14tWriteFile(fs vfs.IFS, fp string, d []byte) {
	f, err := fs.Create(fp)
	c14tMust(err)
	_, err = f.Write(d)
	c14tMust(err)
	c14tMust(f.Close())
}

func c14tWire(c pb.Chunk) pb.Chunk {
	data, err := c.Marshal()
	c14tMust(err)
	var out pb.Chunk
	c14tMust(out.Unmarshal(data))
	return out
}

// queueing sink: chunks are consumed (wire copied) only after the writer is
// closed, as with the real transport job's channel.
type c14tSink struct{ q []pb.Chunk }

func (s *c14tSink) Receive(c pb.Chunk) (bool, bool) {
	c.DeploymentId = c14tDid // job.streamSnapshot
	s.q = append(s.q, c)
	return true, false
}
func (s *c14tSink) Close() error        { return nil }
func (s *c14tSink) ShardID() uint64     { return c14tShard }
func (s *c14tSink) ToReplicaID() uint64 { return c14tReplica }

// c14tBuild produces the stream of cfg with the real sender code. hdr (replay)
// replaces the 1 KiB header, which contains a timestamp.
func c14tBuild(cfg c14tCfg, hdr []byte) c14tStream {
	st := c14tStream{cfg: cfg, payload: c14tBytes(1, cfg.Len)}
	if cfg.Kind == "chunkwriter" {
		sink := &c14tSink{}
		meta := rsm.SSMeta{From: c14tFrom, Index: c14tIndex, Term: c14tTerm, CompressionType: cfg.ct()}
		cw := dio.NewCompressor(cfg.ct(), rsm.NewChunkWriter(sink, meta))
		_, err := cw.Write(st.payload)
		c14tMust(err)
		c14tMust(cw.Close())
		for _, c := range sink.q {
			st.chunks = append(st.chunks, c14tWire(c))
		}
		if len(hdr) == c14tHdr {
			copy(st.chunks[0].Data, hdr)
		}
	} else {
		fs := vfs.NewMemFS()
		dir := "/sender/" + server.GetSnapshotDirName(c14tIndex)
		c14tMust(fs.MkdirAll(dir, 0755))
		fp := fs.PathJoin(dir, server.GetSnapshotFilename(c14tIndex))
		w, err := rsm.NewSnapshotWriter(fp, cfg.ct(), fs)
		c14tMust(err)
		sw := dio.NewCompressor(cfg.ct(), dio.NewCountedWriter(w))
		_, err = sw.Write(st.payload)
		c14tMust(err)
		c14tMust(sw.Close())
		file := c14tReadFile(fs, fp)
		if len(hdr) == c14tHdr {
			copy(file, hdr)
			c14tWriteFile(fs, fp, file)
		}
		ss := pb.Snapshot{Filepath: fp, FileSize: uint64(len(file)), Index: c14tIndex, Term: c14tTerm}
		for i, sz := range cfg.Ext {
			sf := &pb.SnapshotFile{FileId: uint64(i + 1), FileSize: uint64(sz), Metadata: c14tBytes(50+i, 8+i)}
			sf.Filepath = fs.PathJoin(dir, sf.Filename())
			c14tWriteFile(fs, sf.Filepath, c14tBytes(10+i, sz))
			ss.Files = append(ss.Files, sf)
		}
		m := pb.Message{Type: pb.InstallSnapshot, From: c14tFrom, To: c14tReplica, ShardID: c14tShard, Snapshot: ss}
		// the real Transport.SendSnapshot over a recording plug-in transport
		chunks, err := VerifSendSnapshot(m, c14tDid, fs)
		c14tMust(err)
		for _, c := range chunks {
			st.chunks = append(st.chunks, c14tWire(c))
		}
	}
	for i, c := range st.chunks {
		if !c.HasFileInfo && !(cfg.Kind == "chunkwriter" && i == len(st.chunks)-1 && len(c.Data) == 0) {
			// (the streaming end marker is an empty chunk and stays one)
			st.mainIdx = append(st.mainIdx, i)
			st.main = append(st.main, c.Data...)
		}
	}
	st.regs = c14tRegions(st.main)
	return st
}

// c14tRegions names every byte of a well formed v2 snapshot file.
func c14tRegions(f []byte) []c14tRegion {
	sz := int(binary.LittleEndian.Uint64(f[:8]))
	if sz <= 0 || sz > c14tHdr-12 {
		panic("harness: implausible header length in a freshly written stream")
	}
	out := []c14tRegion{{0, 8, "header.len"}, {8, 8 + sz, "header.data"}, {8 + sz, 12 + sz, "header.crcslot"}, {12 + sz, c14tHdr, "header.padding"}}
	end := len(f) - 16
	for off := c14tHdr; off < end; {
		l := c14tB + 4
		if off+l > end {
			l = end - off
		}
		out = append(out, c14tRegion{off, off + l - 4, "block.data"}, c14tRegion{off + l - 4, off + l, "block.crc"})
		off += l
	}
	return append(out, c14tRegion{end, end + 8, "tail.total"}, c14tRegion{end + 8, end + 16, "tail.magic"})
}

func c14tRegionOf(regs []c14tRegion, off int) string {
	for _, r := range regs {
		if off >= r.from && off < r.to {
			return r.name
		}
	}
	return "beyond-eof"
}

// the documented "all-zero header crc" escape (DESIGN F6): the header checksum
// is skipped when the 4 bytes following the header record are 0000; a flipped
// length field can move that slot into the zero padding.
func c14tEscapeActive(f []byte) bool {
	if len(f) < c14tHdr {
		return false
	}
	sz := binary.LittleEndian.Uint64(f[:8])
	if sz > c14tHdr-12 {
		return false
	}
	return bytes.Equal(f[8+sz:12+sz], []byte{0, 0, 0, 0})
}

func c14tMutate(orig []byte, op string, a int) []byte {
	switch op {
	case "none":
		return orig
	case "flip":
		m := append([]byte(nil), orig...)
		m[a/8] ^= 1 << uint(a%8)
		return m
	case "trunc": // keep the first a bytes
		return append([]byte(nil), orig[:a]...)
	case "del": // byte a lost
		m := append([]byte(nil), orig[:a]...)
		return append(m, orig[a+1:]...)
	case "dup": // byte a delivered twice
		m := append([]byte(nil), orig[:a+1]...)
		return append(m, orig[a:]...)
	}
	panic("harness: unknown op")
}

func c14tNoDigits(s string) string {
	out := make([]byte, 0, len(s))
	for i := 0; i < len(s) && len(out) < 48; i++ {
		if s[i] >= '0' && s[i] <= '9' {
			continue
		}
		out = append(out, s[i])
	}
	return string(out)
}

// c14tLoad reads a snapshot file the way snapshotter.Load does. fail == "" =>
// every step succeeded.
func c14tLoad(fs vfs.IFS, fp string, limit int) (data []byte, fail string) {
	stage := "open"
	msg := verifkit.Catch(func() {
		reader, header, err := rsm.NewSnapshotReader(fp, fs)
		if err != nil {
			fail = "err@open:" + c14tNoDigits(err.Error())
			return
		}
		if header.CompressionType != pb.NoCompression && header.CompressionType != pb.Snappy {
			_ = verifkit.Catch(func() { _ = reader.Close() })
			fail = "panic@ct:unknown compression type"
			return
		}
		cr := dio.NewDecompressor(header.CompressionType, reader)
		stage = "read"
		buf := make([]byte, 1000)
		for {
			n, err := cr.Read(buf)
			data = append(data, buf[:n]...)
			if err == io.EOF {
				break
			}
			if err != nil {
				fail = "err@read:" + c14tNoDigits(err.Error())
				_ = cr.Close()
				return
			}
			if len(data) > limit {
				fail = "RUNAWAY"
				return
			}
		}
		stage = "close"
		if err := cr.Close(); err != nil {
			fail = "err@close:" + c14tNoDigits(err.Error())
		}
	})
	if msg != "" {
		fail = "panic@" + stage + ":" + c14tNoDigits(msg)
	}
	return data, fail
}

type c14tReplay struct {
	Part   string  `json:"part"`
	Cfg    c14tCfg `json:"cfg"`
	Op     string  `json:"op"`
	A      int     `json:"a"`
	Header string  `json:"header"`
}

// c14tOne delivers the stream with modification (op, a) of its main-file bytes
// to a fresh real receiver and judges the result.
func c14tOne(res *verifkit.Result, st c14tStream, op string, a int) bool {
	res.Evaluations++
	mod := c14tMutate(st.main, op, a)
	kind := st.cfg.kind()
	rp := c14tReplay{Part: "transport", Cfg: st.cfg, Op: op, A: a, Header: hex.EncodeToString(st.main[:c14tHdr])}
	if op != "none" {
		if bytes.Equal(mod, st.main) {
			res.Outcome(kind + ":" + op + ":identity(skipped)")
			return false
		}
		res.DistinctNontrivial++
	}
	// put the main-file bytes back into the main-file chunks at the original
	// boundaries; the last one takes whatever is left, exhausted ones are empty
	chunks := append([]pb.Chunk(nil), st.chunks...)
	off := 0
	for j, ci := range st.mainIdx {
		e := off + len(st.chunks[ci].Data)
		if e > len(mod) || j == len(st.mainIdx)-1 {
			e = len(mod)
		}
		chunks[ci].Data = append([]byte(nil), mod[off:e]...)
		off = e
	}
	fs := vfs.NewMemFS()
	c14tMust(fs.MkdirAll(c14tRoot, 0755))
	var msgs []pb.MessageBatch
	rc := NewChunk(func(b pb.MessageBatch) { msgs = append(msgs, b) }, func(uint64, uint64, uint64) {},
		func(uint64, uint64) string { return c14tRoot }, c14tDid, fs)
	how := ""
	for i, c := range chunks {
		var added bool
		pmsg := verifkit.Catch(func() { added = rc.Add(c) })
		if pmsg != "" {
			// the receiver's mechanism for some malformed inputs is a panic (first
			// chunk shorter than the header, DESIGN F6): counted as rejected
			how = "panic:" + c14tNoDigits(pmsg)
			break
		}
		if !added && how == "" {
			what := "main"
			if c.HasFileInfo {
				what = "ext"
			}
			switch {
			case i == 0:
				how = "first-chunk-refused"
			case i == len(chunks)-1:
				how = "last-chunk-refused(" + what + ")"
			default:
				how = "chunk-refused(" + what + ")"
			}
		}
	}
	names, _ := fs.List(c14tRoot)
	final := ""
	for _, n := range names {
		if server.SnapshotDirNameRe.MatchString(n) {
			final = fs.PathJoin(c14tRoot, n)
		}
	}
	pos := a
	if op == "flip" {
		pos = a / 8
	}
	region := c14tRegionOf(st.regs, pos)
	if strings.HasPrefix(region, "header.") && op != "flip" && op != "none" {
		region = "header"
	}
	desc := func(s string) string {
		sizes := []int{}
		for _, c := range st.chunks {
			sizes = append(sizes, len(c.Data))
		}
		return fmt.Sprintf("%s: stream of %d chunks (sizes %v, main file %d bytes in chunks %v), %s(%d) in %s of the main file, delivered in order to transport.Chunk: %s",
			st.cfg, len(st.chunks), sizes, len(st.main), st.mainIdx, op, a, region, s)
	}
	if (len(msgs) > 0) != (final != "") {
		res.Outcome(kind + ":" + op + ":MESSAGE-DIR-MISMATCH")
		return res.Violate("C14:transport:message-without-directory-or-reverse:"+kind,
			desc(fmt.Sprintf("%d InstallSnapshot messages but final directory %q", len(msgs), final)), rp)
	}
	if op == "none" {
		if len(msgs) != 1 {
			res.Outcome(kind + ":unmodified:REJECTED")
			return res.Violate("C14:transport:clean-rejected:"+kind, desc("the unmodified stream was not finalized: "+how), rp)
		}
		fp := msgs[0].Requests[0].Snapshot.Filepath
		if got := c14tReadFile(fs, fp); !bytes.Equal(got, st.main) {
			return res.Violate("C14:transport:clean-file-differs:"+kind, desc("the received main file differs from what was sent"), rp)
		}
		data, fail := c14tLoad(fs, fp, len(st.payload)*4+1<<20)
		if fail != "" || !bytes.Equal(data, st.payload) {
			return res.Violate("C14:transport:clean-readback:"+kind, desc(fmt.Sprintf("loading the received file: fail=%q, %d bytes (wrote %d)", fail, len(data), len(st.payload))), rp)
		}
		res.Outcome(kind + ":unmodified:finalized+loadable")
		return false
	}
	if len(msgs) == 0 {
		if how == "" {
			how = "no-chunk-refused-but-not-finalized"
		}
		res.Outcome(fmt.Sprintf("%s:%s:%s:rejected:%s", kind, op, region, how))
		return false
	}
	// finalized although the main file bytes were modified: what would be loaded?
	fp := msgs[0].Requests[0].Snapshot.Filepath
	data, fail := c14tLoad(fs, fp, len(st.payload)*4+1<<20)
	verdict := "harmless(original bytes loaded)"
	switch {
	case fail != "":
		verdict = "detected-on-load:" + fail
	case !bytes.Equal(data, st.payload):
		verdict = "ALTERED"
	}
	d := desc(fmt.Sprintf("the receiver FINALIZED the snapshot and delivered InstallSnapshot; loading the received file: %s", verdict))
	if verdict == "ALTERED" {
		res.Outcome(fmt.Sprintf("%s:%s:%s:ACCEPTED-AND-ALTERED", kind, op, region))
		return res.Violate("C14:transport:accepted-altered:"+kind+":"+region, d, rp)
	}
	if op == "flip" && (region == "header.padding" || strings.HasPrefix(region, "header.") && c14tEscapeActive(mod)) {
		// same rule as part `stream` (c14Unprotected): no mechanism of the format
		// covers these bits (DESIGN F6: padding, and every header byte once a
		// flipped length field has moved the crc slot into the zero padding), so
		// only ALTERED data is a violation here; the load either returns the
		// original bytes or fails
		v := "harmless"
		if fail != "" {
			v = "detected-on-load"
		}
		res.Outcome(fmt.Sprintf("%s:%s:%s:accepted-unprotected-region(%s)", kind, op, region, v))
		return false
	}
	res.Outcome(fmt.Sprintf("%s:%s:%s:ACCEPTED(%s)", kind, op, region, verdict))
	return res.Violate("C14:transport:accepted-corrupt:"+kind+":"+op+":"+region, d, rp)
}

func c14tCfgs(run *verifkit.Run) []c14tCfg {
	B := c14tB
	lens := []int{1, B + 200, 2*B + 100, 3*B + 7}
	exts := [][]int{nil, {700}, {300, B + 300}}
	if run.Thorough() {
		lens = []int{0, 1, B - 4, B, B + 200, 2 * B, 2*B + 100, 3*B + 7, 4*B + 1}
		exts = [][]int{nil, {700}, {B}, {300, B + 300}, {2*B + 1}}
	}
	var out []c14tCfg
	for _, l := range lens {
		for _, e := range exts {
			out = append(out, c14tCfg{Kind: "file", CT: 0, Len: l, Ext: e})
		}
	}
	out = append(out, c14tCfg{Kind: "file", CT: 1, Len: 2*B + 100}, c14tCfg{Kind: "file", CT: 1, Len: 2*B + 100, Ext: []int{700}})
	cl := []int{1, 2*B + 100, 3*B + 7}
	if run.Thorough() {
		cl = []int{0, 1, B, B + 200, 2*B + 100, 3*B + 7, 4*B + 1}
	}
	for _, l := range cl {
		out = append(out, c14tCfg{Kind: "chunkwriter", CT: 0, Len: l})
	}
	return append(out, c14tCfg{Kind: "chunkwriter", CT: 1, Len: 2*B + 100})
}

func TestVerifC14Transport(t *testing.T) {
	for _, n := range []string{"rsm", "raftpb", "transport", "server", "fileutil", "settings", "utils", "dio"} {
		logger.GetLogger(n).SetLevel(logger.CRITICAL)
	}
	if rsm.ChunkSize != c14tB || rsm.HeaderSize != c14tHdr {
		t.Fatalf("harness error: rsm.ChunkSize is %d, the scaled overlay of settings/hard.go (2048) is not in effect", rsm.ChunkSize)
	}
	snapshotChunkSize = c14tB
	_ = raftio.TransportBinVersion
	run := verifkit.Env()
	res := verifkit.NewResult()
	res.MaxViolations = 20
	defer run.Finish(res)
	res.Assumptions = []string{
		"chunk/block size scaled 2 MiB -> 2 KiB (generated overlay of internal/settings/hard.go, transport.snapshotChunkSize set to the same value)",
		"receiver = real transport.Chunk on a fresh strict MemFS per case, chunks delivered in order one Add at a time; only bytes of the MAIN snapshot file are modified (external files carry no integrity data: C15's known finding), chunk metadata is left as sent",
		"modified main-file bytes are put back into the main-file chunks at the original chunk boundaries (last main chunk takes the remainder, exhausted chunks are delivered empty), the external-file chunks follow unchanged",
		"a panic of the receiver on a malformed first chunk (shorter than the 1 KiB header) counts as rejected",
	}
	res.Rule = "transport: for every stream (snapshot file with 0/1/2 external files split by the real sender code; ChunkWriter stream; payload lengths 1 .. >3 blocks; none/snappy) delivered in order to the real transport.Chunk: the unmodified stream (must finalize, received file identical and loadable), EVERY single-bit flip, EVERY truncation point, every 1-byte deletion and duplication of the main-file bytes; evaluation = one stream delivered to a fresh receiver and judged; distinct_nontrivial = distinct (stream, modification)"
	if run.Replay != "" {
		var rp c14tReplay
		run.LoadReplay(&rp)
		h, _ := hex.DecodeString(rp.Header)
		c14tOne(res, c14tBuild(rp.Cfg, h), rp.Op, rp.A)
		return
	}
	const slab = 1024
	k := uint64(0)
	for _, cfg := range c14tCfgs(run) {
		st := c14tBuild(cfg, nil)
		k++
		if run.Mine(k) {
			if c14tOne(res, st, "none", 0) {
				return
			}
			res.Sample(4, fmt.Sprintf("%s: %d chunks, main file %d bytes: all %d bit flips, %d truncations, %d deletions, %d duplications",
				cfg, len(st.chunks), len(st.main), len(st.main)*8, len(st.main), len(st.main), len(st.main)))
		}
		for _, j := range []struct {
			op string
			n  int
		}{{"flip", len(st.main) * 8}, {"trunc", len(st.main)}, {"del", len(st.main)}, {"dup", len(st.main)}} {
			for lo := 0; lo < j.n; lo += slab {
				k++
				if !run.Mine(k) {
					continue
				}
				if run.Expired() {
					res.Cap("deadline")
					return
				}
				for i := lo; i < lo+slab && i < j.n; i++ {
					if c14tOne(res, st, j.op, i) {
						return
					}
				}
			}
		}
	}
}
