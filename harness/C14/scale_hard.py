#!/usr/bin/env python3
"""Generates a copy of the CURRENT <repo>/internal/settings/hard.go in which the
constant SnapshotChunkSize (snapshot block / chunk size, 2 MiB) is scaled down
so that exhaustive bit-flip enumeration over whole snapshot files is feasible.

usage: scale_hard.py <repo> <out file> <new size in bytes>

Fails loudly (exit 3) when the anchor line is not found exactly once or when
the original value is not the expected 2 MiB.
"""
import re
import sys


def main():
    if len(sys.argv) != 4:
        sys.stderr.write(__doc__)
        return 2
    repo, out, newsz = sys.argv[1], sys.argv[2], int(sys.argv[3])
    src = repo.rstrip("/") + "/internal/settings/hard.go"
    with open(src) as f:
        text = f.read()
    anchor = re.compile(r"^(\s*SnapshotChunkSize\s+uint64\s*=\s*)2 \* 1024 \* 1024\s*$", re.M)
    hits = anchor.findall(text)
    if len(hits) != 1:
        sys.stderr.write("scale_hard.py: anchor 'SnapshotChunkSize uint64 = 2 * 1024 * 1024' found %d times in %s "
                         "(expected exactly 1) - the generator must be adapted\n" % (len(hits), src))
        return 3
    if newsz < 1024 or newsz > 2 * 1024 * 1024:
        sys.stderr.write("scale_hard.py: scaled size must be within [SnapshotHeaderSize=1024, 2MiB]\n")
        return 3
    if not re.search(r"^\s*SnapshotHeaderSize\s+uint64\s*=\s*1024\s*$", text, re.M):
        sys.stderr.write("scale_hard.py: SnapshotHeaderSize is not 1024 any more in %s - recheck the scaling\n" % src)
        return 3
    text = anchor.sub(lambda m: "%s%d // scaled by /verif (original: 2 * 1024 * 1024)" % (m.group(1), newsz), text)
    with open(out, "w") as f:
        f.write(text)
    return 0


if __name__ == "__main__":
    sys.exit(main())
